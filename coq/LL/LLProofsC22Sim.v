(* C22: (1) every valid CONNECT_IND addressed to this device is accepted; (2) the specification monitor (LLSpecC22.mstep22)
   accepts every trace of the model inside the environment [env22]: any connect requests (valid or not), any pattern of
   connection events without PDUs of the central and of missed events, any event flags, every configuration with a sleep
   clock accuracy <= 500 ppm - the quantifier of the property ("all valid and invalid connection parameters x sleep clock
   accuracies x patterns of missed events"). Control and data PDUs inside the events, the API calls and connection updates
   are outside this environment (they are inside C27's / C21's). *)
From Coq Require Import Lia ZifyBool NArith List Bool.
From BT Require Import Base.ListX Base.Bits2 LL.LLModel LL.LLSpec LL.LLSpecC27 LL.LLSpecC22 LL.LLProofs.
From BT Require gen.GenLL ChanMap.ChanMapModel ChanMap.ChanMapSpec ChanMap.ChanMapProofs.
From BT Require LL.LLProofsC27Sim.
From BT Require Import LL.LLSpecC21 LL.LLProofsC21 LL.LLSimC21.
Import ListNotations.
Local Open Scope N_scope.

Ltac nlia := zify; Z.to_euclidean_division_equations; lia.

(* ========================================================================================== C22: a valid CONNECT_IND connects *)
Lemma dt_mul_some usec rhs : 1 < usec -> 1 < rhs -> usec * rhs < 4294967296 -> dt_mul usec rhs = Some (usec * rhs).
Proof.
  intros H1 H2 H3. unfold dt_mul, u32.
  replace ((rhs =? 0) || (usec =? 0)) with false by lia. replace (rhs =? 1) with false by lia. replace (usec =? 1) with false by lia.
  rewrite N.mod_small by exact H3.
  replace ((usec <? usec * rhs) && (rhs <? usec * rhs)) with true by nia. reflexivity.
Qed.

Lemma check_timing_of_valid body :
  connect_timing_valid body = true ->
  snd (parse_connect body) = Some true.
Proof.
  unfold connect_timing_valid, parse_connect. intros H. cbn [snd].
  set (ws := byte body 19) in *. set (wo := rd16 body 20) in *. set (iv := rd16 body 22) in *.
  set (la := rd16 body 24) in *. set (tmo := rd16 body 26) in *.
  assert (F : 6 <= iv /\ iv <= 3200 /\ la <= 499 /\ 10 <= tmo /\ tmo <= 3200 /\ (1 + la) * iv * 2 * 1250 < tmo * 10000
              /\ 1 <= ws /\ ws <= 8 /\ ws <= iv /\ wo <= iv) by lia.
  clear H. destruct F as (F1 & F2 & F3 & F4 & F5 & F6 & F7 & F8 & F9 & F10).
  unfold GenLL.us_per_digits. cbn [interval].
  replace (wo * 1250 <=? iv * 1250) with true by lia.
  unfold check_timing, minimum_connection_interval, maximum_connection_interval, minimum_transmit_window_size,
         GenLL.us_per_digits, GenLL.maximum_transmit_window_offset, GenLL.minimum_connection_timeout, GenLL.maximum_connection_timeout.
  cbn [latency interval tw_size conn_timeout].
  replace ((la <=? 499) && (6 * 1250 <=? iv * 1250) && (iv * 1250 <=? 3200 * 1250) && (1250 <=? ws * 1250) && (ws * 1250 <=? 10000)
           && (ws * 1250 <=? iv * 1250) && (100000 <=? tmo * 10000) && (tmo * 10000 <=? 32000000)) with true by lia.
  rewrite dt_mul_some by nia. cbn [obind]. f_equal. nia.
Qed.

Lemma sca_table_le body : sleep_clock_accuracy body <= 500.
Proof.
  unfold sleep_clock_accuracy. change GenLL.inaccuracy_ppm with [500; 250; 150; 100; 75; 50; 30; 20].
  set (i := N.to_nat _). do 8 (destruct i as [|i]; [cbn; lia|]). destruct i; cbn; lia.
Qed.

Lemma dt_add_some a b : a + b < 4294967296 -> dt_add a b = Some (a + b).
Proof. intros H. unfold dt_add, u32. rewrite N.mod_small by exact H. replace ((a <=? a + b) && (b <=? a + b)) with true by lia. reflexivity. Qed.

Lemma setup_next_connecting s :
  tsle (cs s) = 0 -> tw_size (tm s) <> 0 -> tw_off (tm s) <= 4001250 -> tw_size (tm s) <= 10000 -> sca s <= 1000 ->
  exists ch ws we, setup_next_connection_event s = Some (set_pending_event s true, [ICe ch ws we (interval (tm s))]).
Proof.
  intros Ht Hz Ho Hs Ha. unfold setup_next_connection_event. rewrite Ht.
  replace (negb (tw_size (tm s) =? 0)) with true by lia.
  rewrite (dt_add_some 0 (tw_off (tm s))) by lia. cbn [obind].
  rewrite (dt_add_some (0 + tw_off (tm s)) (tw_size (tm s))) by lia. cbn [obind].
  destruct (ppm_le_small (0 + tw_off (tm s)) (sca s)) as (_ & _ & W0 & B0); [unfold time_bound; lia|exact Ha|].
  destruct (ppm_le_small (0 + tw_off (tm s) + tw_size (tm s)) (sca s)) as (_ & _ & W1 & B1); [unfold time_bound; lia|exact Ha|].
  unfold dt_sub. replace (ppm (0 + tw_off (tm s)) (sca s) <=? 0 + tw_off (tm s)) with true by lia. cbn [obind].
  rewrite dt_add_some by lia. cbn [obind]. do 3 eexists. reflexivity.
Qed.

Theorem valid_request_connects c s hdr0 body ch :
  c_sca c <= 500 ->
  addressed_to_us c hdr0 body = true -> connect_timing_valid body = true ->
  ChanMapModel.reset_impl (chan s) (slice body 28 5) (N.land (byte body 33) 31) = (ch, ChanMapModel.OBool true) ->
  exists s' it, do_adv_received c s hdr0 body = Some (s', it) /\ st s' = Connecting
                /\ exists chn ws we, In (ICe chn ws we (rd16 body 22 * 1250)) it.
Proof.
  intros Hsca Ha Hv Hr. unfold do_adv_received.
  change (valid_connect_request c hdr0 body) with (addressed_to_us c hdr0 body). rewrite Ha, Hr.
  pose proof (check_timing_of_valid body Hv) as Hp. destruct (parse_connect body) as [t ok] eqn:EP. cbn [snd] in Hp. subst ok.
  assert (Et : tw_off t = (rd16 body 20 + 1) * 1250 /\ tw_size t = byte body 19 * 1250 /\ interval t = rd16 body 22 * 1250).
  { unfold parse_connect in EP. inversion EP. unfold GenLL.us_per_digits. cbn [tw_off tw_size interval]. repeat split; lia. }
  destruct Et as (Eo & Es & Ei).
  unfold connect_timing_valid in Hv.
  assert (F : byte body 19 <= 8 /\ 1 <= byte body 19 /\ rd16 body 20 <= 3200) by lia. destruct F as (F1 & F2 & F3).
  match goal with |- context [setup_next_connection_event ?X] => set (s10 := X) end.
  destruct (setup_next_connecting s10) as (chn & ws & we & E).
  - reflexivity.
  - subst s10. cbn. rewrite Es. lia.
  - subst s10. cbn. rewrite Eo. lia.
  - subst s10. cbn. rewrite Es. lia.
  - subst s10. cbn [sca upd_ac set_ac upd_bf set_bf set_proc_timeout set_disc_reason set_pending_event upd_pr set_pr set_used_features set_sca]. pose proof (sca_table_le body). lia.
  - rewrite E. cbn [obind].
    cbn [flush_events]. do 2 eexists. split; [reflexivity|]. split.
    + cbn [st set_ring]. rewrite st_push_event. reflexivity.
    + exists chn, ws, we. replace (interval (tm s10)) with (rd16 body 22 * 1250) by (subst s10; symmetry; exact Ei).
      right. left. reflexivity.
Qed.


(* ========================================================================================== the environment *)
(* a PDU of the central that does not touch the timing: LLID 3, not empty, without instant, not LL_TERMINATE_IND ([nq], below) *)
Definition nq (c : cfg) (p : pdu) : bool :=
  (fst p =? 3) && match classify21 (c_phy c) (3, snd p) with None => true | Some _ => false end && negb (is_terminate (3, snd p)).
Definition pdu_ok22 (c : cfg) (p : pdu) : bool := (fst p =? 3) && negb (N.of_nat (length (snd p)) =? 0) && nq c p.
(* a well formed LL_CONNECTION_UPDATE_IND (any parameters, any instant) *)
Definition upd_ok22 (p : pdu) : bool := (fst p =? 3) && (N.of_nat (length (snd p)) =? 12) && (byte (snd p) 0 =? 0).
Definition op_ok22 (c : cfg) (o : lop) : bool :=
  match o with
  | Run | AdvTimeout | Adv _ _ | Timeout | TxAvail _ | St | Key _ => true
  | Ev _ pdus => negb (existsb (fun p => 27 <? N.of_nat (length (snd p))) pdus)
                 && match pdus with
                    | [] => true
                    | _ => negb (c_enc c) && (forallb (pdu_ok22 c) pdus
                                              || (c_cb c && match pdus with [u] => upd_ok22 u | _ => false end))
                    end
  | _ => false
  end.
Definition cfg_ok22 (c : cfg) : bool := c_sca c <=? 500.
Definition is_crash22 (r : lout) : bool := match r with OCrash => true | _ => false end.
(* nothing is left in the receive queue (a control PDU stays there while no transmit buffer is available) *)
Definition calm22 (s : lstate_t) : bool := match rxq (bf s) with [] => true | _ => false end.
Definition lost22 (s : lstate_t) : bool :=
  (conn_timeout (tm s) <=? tsle (cs s)) || (lstate_eqb (st s) Connecting && (5 * interval (tm s) <=? tsle (cs s))).
Definition is_some22 (d : option (list N)) : bool := match d with Some _ => true | None => false end.
(* an update that is delivered or waiting either stays waiting, or is applied at its instant by a connection event or by a
   missed event (the link layer is in state connection_changed afterwards), or is found invalid at its instant by a
   connection event (the link is dropped), or is refused when it is delivered ([refusal22]: the link is dropped).
   Outside: an update found invalid at an instant that falls on a MISSED event - timeout() then closes the link with reason
   0x08 before the supervision timeout, which the monitor REJECTS (clause supervision_early: the known finding
   C22-invalid-update); an update that is delivered, waits and is applied within the same end_event(). *)
(* an update that is REFUSED when it is looked at (nothing waiting, transmit buffer available): instant passed or the next event *)
Definition refusal22 (s : lstate_t) (pdus : list pdu) : bool :=
  negb (is_some22 (deferred s)) && tx_avail (bf s)
  && match pdus with [u] => upd_ok22 u && instant_passed_update (rd16 (snd u) 10) (evc (cs s)) | _ => false end.
Definition still22 (s : lstate_t) (o : lop) (s' : lstate_t) : bool :=
  match o with
  | Ev _ pdus => refusal22 s pdus || if is_some22 (deferred s) || match updates_of pdus with [] => false | _ => true end
                 then is_some22 (deferred s') || (is_some22 (deferred s) && (lstate_eqb (st s') ConnChanged || negb (in_connection s'))) else true
  | Timeout => if is_some22 (deferred s) then is_some22 (deferred s') || lost22 s || lstate_eqb (st s') ConnChanged else true
  | _ => true
  end.
Fixpoint env22 (c : cfg) (s : lstate_t) (ops : list lop) : bool :=
  match ops with
  | [] => true
  | o :: r => op_ok22 c o && negb (is_crash22 (snd (lstep c s o))) && calm22 (fst (lstep c s o)) && still22 s o (fst (lstep c s o))
              && env22 c (fst (lstep c s o)) r
  end.

(* ========================================================================================== invariants *)
Definition timing_inv (t : timing) (a : N) : Prop :=
  latency t <= 499 /\ 7500 <= interval t /\ interval t <= 4000000 /\ tw_size t <= 10000 /\ tw_off t <= 4001250
  /\ 100000 <= conn_timeout t /\ conn_timeout t <= 32000000 /\ interval t * ((latency t + 1) * 2) < conn_timeout t /\ a <= 1000.

Definition Glob (s : lstate_t) : Prop :=
  length (ChanMapModel.tbl (chan s)) = 37%nat /\ enc_prog (sc s) = false /\ ap_pending (ac s) = false /\ ring s = [] /\ (in_connection s = true \/ deferred s = None).

Definition base22 (s : lstate_t) : Prop :=
  rxq (bf s) = [] /\ stopped (bf s) = false /\ proc_timeout s = 0
  /\ cpr_pending (pr s) = false /\ phy_pending (pr s) = false /\ ver_pending (pr s) = false
  /\ timing_inv (tm s) (sca s).

(* the monitor's list of outstanding updates = the update the link layer has deferred to its instant *)
Definition pend22 (s : lstate_t) : list (N * N * N * N * N) :=
  match deferred s with Some b => [(byte b 1, rd16 b 2, rd16 b 4, rd16 b 6, rd16 b 8)] | None => [] end.

Definition T22 (cb : bool) (s : lstate_t) (p : mon22) : Prop :=
  match p_phase p with
  | PIdle => in_connection s = false
  | PConnecting =>
      st s = Connecting /\ base22 s /\ tw_size (tm s) <> 0 /\ deferred s = None /\
      exists k, tsle (cs s) = k * interval (tm s) /\
        p = mk22 PConnecting false (interval (tm s)) (latency (tm s)) (conn_timeout (tm s)) (sca s) (tw_off (tm s)) (tw_size (tm s)) (tsle (cs s)) k []
  | PConnected =>
      st s = Connected /\ base22 s /\ tw_size (tm s) = 0 /\
      exists k, p = mk22 PConnected false (interval (tm s)) (latency (tm s)) (conn_timeout (tm s)) (sca s) 0 0 (tsle (cs s)) k (pend22 s)
                /\ (deferred s <> None -> cb = true) /\ (forall x, deferred s = Some x -> byte x 0 = 0)
  | PBlind =>
      st s = ConnChanged /\ base22 s /\ tw_size (tm s) <> 0 /\ deferred s = None /\
      p = mk22 PBlind false (interval (tm s)) (latency (tm s)) (conn_timeout (tm s)) (sca s) (tw_off (tm s)) (tw_size (tm s)) 0 0 []
  end.

Definition Sim22 (c : cfg) (s : lstate_t) (p : mon22) : Prop := Glob s /\ T22 (c_cb c) s p.

Lemma tpcp_idle c s :
  cpr_pending (pr s) = false -> phy_pending (pr s) = false -> ver_pending (pr s) = false -> ap_pending (ac s) = false ->
  transmit_pending_control_pdus c s = s.
Proof.
  intros H1 H2 H3 H4. unfold transmit_pending_control_pdus. rewrite H1, H2, H3, H4.
  destruct (c_cpr c); reflexivity.
Qed.

(* ========================================================================================== a connection event without PDUs *)
Lemma prologue_ring c s : ring s = [] ->
  forallb (fun x => match x with EvChanged _ => false | _ => true end) (ring (end_event_prologue c s)) = true.
Proof.
  intros H. unfold end_event_prologue, push_event. destruct s. cbn in H. subst. cbn.
  destruct st; destruct (c_cb c); reflexivity.
Qed.

Lemma setup_next_sym s s' it :
  setup_next_connection_event s = Some (s', it) -> tw_size (tm s) = 0 ->
  exists ch ws we, it = [ICe ch ws we (interval (tm s))] /\ ws + we = 2 * tsle (cs s).
Proof.
  unfold setup_next_connection_event. intros H Z. rewrite Z in H. cbn [N.eqb negb] in H.
  destruct (dt_sub _ _) as [ws|] eqn:E1; cbn [obind] in H; [|discriminate].
  destruct (dt_add _ _) as [we|] eqn:E2; cbn [obind] in H; [|discriminate].
  apply LLProofsC27Sim.dt_sub_exact in E1. apply LLProofsC27Sim.dt_add_exact in E2. inversion H. do 3 eexists. split; [reflexivity|].
  destruct E1 as [E1 E1']. subst ws we. lia.
Qed.

(* ========================================================================================== PDUs that do not touch the timing *)
(* Stepping stones towards events WITH PDUs in the simulation (not yet part of env22 / sim22_step): for a link layer without
   encryption support, a receive queue of control PDUs that carry no instant (not LL_CONNECTION_UPDATE_IND, LL_CHANNEL_MAP_IND,
   LL_PHY_UPDATE_IND) and are not LL_TERMINATE_IND - feature / version / ping / unknown / reject / connection parameter
   request / malformed PDUs - is worked off without touching anything the timing depends on ([hrd_neutral]); and from such a
   state end_event_continue() plans the next event exactly as after an event without PDUs ([tail22]). *)
Definition fr22 (s s' : lstate_t) : Prop :=
  sca s' = sca s /\ ac s' = ac s
  /\ (cpr_pending (pr s) = false -> cpr_pending (pr s') = false)
  /\ (phy_pending (pr s) = false -> phy_pending (pr s') = false)
  /\ (ver_pending (pr s) = false -> ver_pending (pr s') = false)
  /\ (proc_timeout s = 0 -> proc_timeout s' = 0)
  /\ (enc_prog (sc s) = false -> enc_prog (sc s') = false).

Lemma hlc_fr22 c s body : c_enc c = false -> fr22 s (fst (fst (handle_ll_control c s body))).
Proof.
  intros Enc. unfold handle_ll_control.
  set (size := N.of_nat (length body)) in *.
  set (opcode := if 0 <? size then byte body 0 else 255) in *.
  destruct (ctrl_kind c (ver_received (pr s)) opcode size) eqn:K;
    pose proof (ctrl_kind_b_inv _ _ _ _ _ _ K) as KI; cbn beta iota in KI; try congruence; cbn zeta; cbn [fst];
    try (destruct (handle_cpr c s body) as [[r|] it]; cbn [fst]);
    unfold handle_reject, clear_cpr_feature, commit_ctrl, commit, push_event;
    repeat match goal with |- context [if ?b then _ else _] => destruct b end; cbn [fst];
    unfold fr22; cbn; repeat split; auto.
Qed.

Lemma fr22_refl s : fr22 s s. Proof. unfold fr22. repeat split; auto. Qed.
Lemma fr22_trans a b d : fr22 a b -> fr22 b d -> fr22 a d.
Proof. unfold fr22. intros (A1 & A2 & A3 & A4 & A5 & A6 & A7) (B1 & B2 & B3 & B4 & B5 & B6 & B7). repeat split; try congruence; auto. Qed.


Lemma hrd_neutral c (Enc : c_enc c = false) : forall fuel s,
  forallb (nq c) (rxq (bf s)) = true -> deferred s = None ->
  let r := handle_received_data fuel c s in
  snd r = GoAhead /\ quiet_items (snd (fst r)) /\ fr22 s (fst (fst r)) /\ ctlq 0 s (fst (fst r)) /\ deferred (fst (fst r)) = None
  /\ (tx_avail (bf s) = true -> (length (rxq (bf s)) < fuel)%nat -> rxq (bf (fst (fst r))) = []).
Proof.
  induction fuel as [|fuel IH]; intros s Hq Hd; cbn [handle_received_data].
  { cbn [fst snd]. refine (conj eq_refl (conj eq_refl (conj (fr22_refl _) (conj (ctlq_refl _) (conj Hd _))))). intros _ H; inversion H. }
  rewrite Hd. destruct (rxq (bf s)) as [|[llid body] rest] eqn:ERX.
  { cbn [fst snd]. refine (conj eq_refl (conj eq_refl (conj (fr22_refl _) (conj (ctlq_refl _) (conj Hd _))))). intros _ _; exact ERX. }
  cbn [forallb] in Hq. apply andb_prop in Hq. destruct Hq as [Hn Hrest].
  unfold nq in Hn. cbn [fst snd] in Hn. apply andb_prop in Hn. destruct Hn as [Hn NT]. apply andb_prop in Hn. destruct Hn as [L3 CL].
  apply N.eqb_eq in L3. subst llid. change GenLL.ll_control_pdu_code with 3. cbn [N.eqb Pos.eqb].
  destruct (tx_buffer_available s) eqn:TA.
  2:{ cbn [fst snd]. refine (conj eq_refl (conj eq_refl (conj (fr22_refl _) (conj (ctlq_refl _) (conj Hd _))))).
      intros T. unfold tx_buffer_available in TA. congruence. }
  destruct (classify21 (c_phy c) (3, body)) eqn:CL'; [discriminate|]. clear CL.
  pose proof (hlc_other c s body Enc CL') as HO. cbn zeta in HO. apply negb_true_iff in NT. rewrite NT in HO.
  pose proof (hlc_fr22 c s body Enc) as HF.
  destruct (handle_ll_control c s body) as [[s1 it1] r1]. cbn [fst snd] in HO, HF.
  destruct HO as (Q1 & -> & CK).
  set (s2 := upd_bf s1 (fun b => set_rxq b rest)).
  pose proof (ck_keep _ _ _ CK) as (K1 & K2 & K3 & K4 & K5 & K6 & K7).
  assert (Hq2 : forallb (nq c) (rxq (bf s2)) = true) by exact Hrest.
  assert (Hd2 : deferred s2 = None) by (change (deferred s2) with (deferred s1); congruence).
  specialize (IH s2 Hq2 Hd2). cbn zeta in IH.
  destruct (handle_received_data fuel c s2) as [[s3 it3] r3]. cbn [fst snd] in IH |- *.
  destruct IH as (-> & Q3 & F3 & C3 & D3 & E3).
  split; [reflexivity|]. split; [apply quiet_app; assumption|].
  split; [eapply fr22_trans; [exact HF|]; eapply fr22_trans; [|exact F3]; unfold fr22; subst s2; cbn; repeat split; auto|].
  split; [change 0%nat with (0 + (0 + 0))%nat; eapply ctlq_trans; [apply ctlk_ctlq; exact CK|]; eapply ctlq_trans; [apply pop_ctlq|exact C3]|].
  split; [exact D3|].
  intros T L. apply E3.
  - change (tx_avail (bf s2)) with (tx_avail (bf s1)). rewrite (ck_txa _ _ _ CK). exact T.
  - change (rxq (bf s2)) with rest. cbn [length] in L. lia.
Qed.

Definition live22 (s : lstate_t) : Prop := st s = Connecting \/ st s = Connected \/ st s = ConnChanged.
Lemma in_conn_of3 s : live22 s -> in_connection s = true.
Proof. unfold in_connection. intros [-> | [-> | ->]]; reflexivity. Qed.
Lemma prologue_form3 c s : live22 s ->
  exists rr, end_event_prologue c s = set_ring (upd_tm (set_st (set_pending_event s false) Connected) (fun t => set_tw_size t 0)) rr
             /\ (st s <> Connecting -> rr = ring s).
Proof.
  intros [H|[H|H]].
  - destruct (LLProofsC27Sim.prologue_form c s (or_introl H)) as (rr & E & _). exists rr. split; [exact E|congruence].
  - destruct (LLProofsC27Sim.prologue_form c s (or_intror H)) as (rr & E & F). exists rr. split; [exact E|intros _; exact (F H)].
  - exists (ring s). split; [|reflexivity]. unfold end_event_prologue. cbn [st set_pending_event]. rewrite H. cbn iota. change (st (set_pending_event s false)) with (st s). rewrite H. cbn [lstate_eqb]. destruct s; reflexivity.
Qed.

Lemma fd_deferred c s : deferred (fst (force_disconnect c s)) = None.
Proof. unfold force_disconnect. destruct (reset_encryption c s) as [s1 i1]. destruct (st s1); reflexivity. Qed.

(* handle_pending_ll_control() + setup_next_connection_event(): either the deferred procedure is applied / dropped here (the
   instant is reached: afterwards nothing is deferred), or nothing but the next event is scheduled *)
Lemma pts22 c s1 s8 it8 : pending_then_setup c s1 = Some (s8, it8) ->
  (deferred s1 <> None /\ deferred s8 = None) \/ setup_next_connection_event s1 = Some (s8, it8).
Proof.
  unfold pending_then_setup, handle_pending_ll_control. intros H.
  destruct (deferred s1) as [b|] eqn:D.
  2:{ right. cbn [obind] in H. destruct (setup_next_connection_event s1) as [[x y]|]; cbn [obind app] in H; [exact H|discriminate]. }
  destruct (def_instant s1 =? evc (cs s1)).
  2:{ right. cbn [obind] in H. destruct (setup_next_connection_event s1) as [[x y]|]; cbn [obind app] in H; [exact H|discriminate]. }
  left. split; [discriminate|].
  set (s0 := upd_cs (set_deferred s1 None) _) in H.
  assert (D0 : deferred s0 = None) by reflexivity.
  assert (SN : forall x y z, setup_next_connection_event x = Some (y, z) -> deferred y = deferred x)
    by (intros x y z E; apply setup_next_frame in E; destruct E as [-> _]; reflexivity).
  destruct (byte b 0 =? GenLL.LL_CHANNEL_MAP_REQ).
  { destruct (ChanMapModel.reset_impl _ _ _) as [ch r0]. cbn [obind] in H.
    destruct (setup_next_connection_event (set_chan s0 ch)) as [[x y]|] eqn:E; cbn [obind] in H; [|discriminate].
    inversion H; subst. rewrite (SN _ _ _ E). reflexivity. }
  destruct (byte b 0 =? GenLL.LL_CONNECTION_UPDATE_IND).
  { destruct (parse_update b) as [tt ok]. destruct ok as [[|]|]; cbn [obind] in H; [| |discriminate].
    - match type of H with context [setup_next_connection_event ?X] => destruct (setup_next_connection_event X) as [[x y]|] eqn:E end; cbn [obind] in H; [|discriminate].
      inversion H; subst. rewrite (SN _ _ _ E). unfold push_event. destruct (c_cb c); [destruct (_ <? _)|]; reflexivity.
    - match type of H with context [force_disconnect c ?X] => pose proof (fd_deferred c X) as FD; destruct (force_disconnect c X) as [x y] end.
      inversion H; subst. exact FD. }
  cbn [obind] in H.
  match type of H with context [setup_next_connection_event ?X] => destruct (setup_next_connection_event X) as [[x y]|] eqn:E end; cbn [obind] in H; [|discriminate].
  inversion H; subst. rewrite (SN _ _ _ E). unfold push_event. destruct (c_cb c); [destruct (_ <? _)|]; reflexivity.
Qed.

(* ... and if afterwards the link layer is in state connection_changed, a connection update was applied here *)
Lemma pts_apply c s1 b s8 it8 :
  deferred s1 = Some b -> byte b 0 = 0 -> st s1 = Connected ->
  pending_then_setup c s1 = Some (s8, it8) -> st s8 = ConnChanged ->
  exists t, parse_update b = (t, Some true) /\
    let sa := set_st (set_tm (set_proc_timeout (upd_cs (set_deferred s1 None) (fun x => if disarmable c then set_last_lat x 1 else x)) 0) t) ConnChanged in
    setup_next_connection_event (push_event c sa (EvChanged (details_of sa))) = Some (s8, it8).
Proof.
  intros D B0 S1 H S8. unfold pending_then_setup, handle_pending_ll_control in H. rewrite D in H.
  destruct (def_instant s1 =? evc (cs s1)).
  2:{ exfalso. cbn [obind] in H. destruct (setup_next_connection_event s1) as [[x y]|] eqn:E; cbn [obind app] in H; [|discriminate].
      inversion H; subst. apply setup_next_frame in E. destruct E as [-> _]. cbn [st set_pending_event] in S8. congruence. }
  rewrite B0 in H. change (0 =? GenLL.LL_CHANNEL_MAP_REQ) with false in H. change (0 =? GenLL.LL_CONNECTION_UPDATE_IND) with true in H. cbn iota in H.
  destruct (parse_update b) as [t ok]. destruct ok as [[|]|]; cbn [obind] in H; [| |discriminate].
  - exists t. split; [reflexivity|]. cbn zeta.
    match type of H with context [setup_next_connection_event ?X] => destruct (setup_next_connection_event X) as [[x y]|] eqn:E end; cbn [obind app] in H; [|discriminate].
    inversion H; subst. reflexivity.
  - exfalso. match type of H with context [force_disconnect c ?X] => pose proof (LLProofsC27Sim.fd_st27 c X) as FD; destruct (force_disconnect c X) as [x y] end.
    inversion H; subst. cbn [fst] in FD. congruence.
Qed.

Lemma tail22 c s3 e s8 it8 :
  tw_size (tm s3) = 0 -> timing_inv (tm s3) (sca s3) -> proc_timeout s3 = 0 -> enc_prog (sc s3) = false ->
  end_event_continue c s3 e = Some (s8, it8) ->
  (deferred s3 <> None /\ deferred s8 = None) \/
  exists k kk ch ws we,
    it8 = [ICe ch ws we (interval (tm s3))] /\ s8 = set_pending_event (set_cs s3 kk) true
    /\ 1 <= k /\ k <= latency (tm s3) + 1 /\ tsle kk = k * interval (tm s3) /\ ws + we = 2 * tsle kk
    /\ covers (sca s3) ws we (tsle kk) (tsle kk) = true.
Proof.
  intros TW (I1 & I2 & I3 & I4 & I5 & I6 & I7 & I8 & I9) P3 EP EB.
  unfold end_event_continue, procedure_timed_out in EB. rewrite P3 in EB. cbn [N.eqb negb andb] in EB.
  unfold transmit_pending_security_pdus in EB. rewrite EP, andb_false_r in EB. cbn [andb] in EB.
  match type of EB with context [plan_next_connection_event c s3 ?X] => set (ev' := X) in *; destruct (plan_next_connection_event c s3 ev') as [s7|] eqn:E7 end; cbn [obind] in EB; [|discriminate].
  destruct (anchor_after_event c s3 ev' s7 I1) as (k & K1 & K2 & K3 & _); [clear - I1 I3; nia|exact E7|].
  apply plan_next_frame in E7. destruct E7 as [kk E7]. subst s7. set (s7 := set_cs s3 kk) in *.
  destruct (pending_then_setup c s7) as [[s8' it8']|] eqn:EPS; cbn [obind] in EB; [|discriminate].
  destruct (pts22 c s7 s8' it8' EPS) as [[Dn D8]|E8].
  { left. cbn [app] in EB. inversion EB; subst s8 it8. split; [exact Dn|exact D8]. }
  right.
  assert (TW7 : tw_size (tm s7) = 0) by exact TW.
  assert (KT : tsle (cs s7) = k * interval (tm s3)) by exact K3.
  pose proof (setup_next_sym s7 s8' it8' E8 TW7) as (ch & ws & we & Eit & Emid).
  destruct (window_covers s7 s8' it8') as (ch' & ws' & we' & Eit' & Ecov); [| |exact E8|].
  { rewrite KT, TW7. change (tw_off (tm s7)) with (tw_off (tm s3)). unfold time_bound.
    assert (X : k * interval (tm s3) <= (latency (tm s3) + 1) * interval (tm s3)) by (apply N.mul_le_mono_r; exact K2).
    clear - X I8 I7 I5. nia. }
  { exact I9. }
  rewrite Eit in Eit'. inversion Eit'; subst ch' ws' we'. clear Eit'.
  rewrite TW7 in Ecov. cbn [N.eqb] in Ecov. rewrite !N.add_0_r in Ecov.
  apply setup_next_frame in E8. destruct E8 as [E8 _].
  cbn [app] in EB. inversion EB; subst s8 it8; clear EB.
  exists k, kk, ch, ws, we. rewrite Eit. subst s8'.
  split; [reflexivity|]. split; [reflexivity|]. split; [exact K1|]. split; [exact K2|]. split; [exact KT|]. split; [exact Emid|exact Ecov].
Qed.

Definition q22 (i : item) : bool := match i with ICe _ _ _ _ | IAdv _ | ICb (EvChanged _) => false | _ => true end.
Lemma quiet_q22 it : quiet_items it -> forallb q22 it = true.
Proof.
  unfold quiet_items. induction it as [|i t IH]; [reflexivity|]. cbn [forallb]. intros H. apply andb_prop in H. destruct H as [H1 H2].
  rewrite (IH H2), andb_true_r. destruct i as [? ?|?|? ?|? ? ? ?|? ?|?|?|cbv|?| |? ?|? ? ?|? ? ? ? ? ? ? ? ?]; try reflexivity; try discriminate H1. destruct cbv; try reflexivity; discriminate H1.
Qed.
Lemma tx_q22 l : forallb q22 (tx_items l) = true.
Proof. induction l as [|p t IH]; [reflexivity|]. cbn. exact IH. Qed.
Definition nochg (x : cb_event) : bool := match x with EvChanged _ => false | _ => true end.
Lemma benign_nochg l : forallb benign l = true -> forallb nochg l = true.
Proof. induction l as [|x t IH]; [reflexivity|]. cbn [forallb]. intros H. apply andb_prop in H. destruct H as [H1 H2]. rewrite (IH H2), andb_true_r. destruct x; try reflexivity; discriminate H1. Qed.

Lemma unsent_le s : (length (unsent s) <= length (txq (bf s)))%nat.
Proof. unfold unsent, unsent_b. destruct (fl (bf s)); try lia. destruct (txq (bf s)); simpl; lia. Qed.

Lemma parse_update_ok b t : parse_update b = (t, Some true) ->
  check_timing t = Some true /\ tw_off t <= interval t
  /\ tw_off t = rd16 b 2 * 1250 /\ tw_size t = byte b 1 * 1250 /\ interval t = rd16 b 4 * 1250 /\ latency t = rd16 b 6
  /\ timeout_value t = rd16 b 8 /\ conn_timeout t = rd16 b 8 * 10000.
Proof.
  unfold parse_update. cbn zeta. intros H. injection H as Et Eo. destruct (_ <=? _) eqn:E in Eo; [|discriminate].
  subst t. cbn [tw_off tw_size interval latency timeout_value conn_timeout] in *. change GenLL.us_per_digits with 1250 in *.
  repeat split; try exact Eo. apply N.leb_le in E. exact E.
Qed.

(* the event at the instant of a waiting connection update: the next event is scheduled k OLD intervals after the anchor,
   1 <= k <= latency + 1, with the NEW interval handed to the radio and the window covering the update's transmit window *)
Lemma tail22_apply c s3 e s8 it8 b :
  tw_size (tm s3) = 0 -> timing_inv (tm s3) (sca s3) -> proc_timeout s3 = 0 -> enc_prog (sc s3) = false ->
  deferred s3 = Some b -> byte b 0 = 0 -> st s3 = Connected -> ring s3 = [] -> c_cb c = true ->
  end_event_continue c s3 e = Some (s8, it8) -> st s8 = ConnChanged ->
  exists t k kk ch ws we,
    parse_update b = (t, Some true) /\ it8 = [ICe ch ws we (interval t)]
    /\ 1 <= k /\ k <= latency (tm s3) + 1 /\ tsle kk = k * interval (tm s3)
    /\ covers (sca s3) ws we (tsle kk + tw_off t) (tsle kk + (tw_off t + tw_size t)) = true
    /\ (let sa := set_st (set_tm (set_proc_timeout (upd_cs (set_deferred (set_cs s3 kk) None) (fun x => if disarmable c then set_last_lat x 1 else x)) 0) t) ConnChanged in
        s8 = set_pending_event (set_ring sa [EvChanged (details_of sa)]) true).
Proof.
  intros TW (I1 & I2 & I3 & I4 & I5 & I6 & I7 & I8 & I9) P3 EP D3 B0 S3 R3 CBt EB S8.
  unfold end_event_continue, procedure_timed_out in EB. rewrite P3 in EB. cbn [N.eqb negb andb] in EB.
  unfold transmit_pending_security_pdus in EB. rewrite EP, andb_false_r in EB. cbn [andb] in EB.
  match type of EB with context [plan_next_connection_event c s3 ?X] => set (ev' := X) in *; destruct (plan_next_connection_event c s3 ev') as [s7|] eqn:E7 end; cbn [obind] in EB; [|discriminate].
  destruct (anchor_after_event c s3 ev' s7 I1) as (k & K1 & K2 & K3 & _); [clear - I1 I3; nia|exact E7|].
  apply plan_next_frame in E7. destruct E7 as [kk E7]. subst s7. set (s7 := set_cs s3 kk) in *.
  destruct (pending_then_setup c s7) as [[s8' it8']|] eqn:EPS; cbn [obind] in EB; [|discriminate].
  cbn [app] in EB. inversion EB; subst s8' it8'; clear EB.
  destruct (pts_apply c s7 b s8 it8 D3 B0 S3 EPS S8) as (t & PU & E8). cbn zeta in E8.
  destruct (parse_update_ok b t PU) as (CT & OI & _).
  pose proof (check_timing_true t CT) as (C1 & (C2 & C2') & (C3 & C3') & C4 & (C5 & C5') & C6).
  unfold push_event in E8. rewrite CBt in E8.
  match type of E8 with context [ring ?X] => change (ring X) with (ring s3) in E8 end. rewrite R3 in E8.
  change (N.of_nat (length (@nil cb_event)) <? GenLL.max_events) with true in E8. cbn iota in E8. cbn [app] in E8.
  match type of E8 with setup_next_connection_event ?X = _ => set (sx := X) in * end.
  assert (KT : tsle (cs sx) = k * interval (tm s3)) by (subst sx; destruct (disarmable c); exact K3).
  destruct (window_covers sx s8 it8) as (ch & ws & we & Eit & Ecov); [| |exact E8|].
  { rewrite KT. change (tw_off (tm sx)) with (tw_off t). change (tw_size (tm sx)) with (tw_size t). unfold time_bound.
    assert (X : k * interval (tm s3) <= (latency (tm s3) + 1) * interval (tm s3)) by (apply N.mul_le_mono_r; exact K2).
    clear - X I8 I7 OI C2' C3'. nia. }
  { exact I9. }
  change (tw_size (tm sx)) with (tw_size t) in Ecov. change (tw_off (tm sx)) with (tw_off t) in Ecov. change (interval (tm sx)) with (interval t) in Eit.
  replace (tw_size t =? 0) with false in Ecov by (symmetry; apply N.eqb_neq; clear - C3; lia).
  apply setup_next_frame in E8. destruct E8 as [E8 _].
  assert (K3' : tsle kk = k * interval (tm s3)) by exact K3.
  exists t, k, kk, ch, ws, we.
  split; [exact PU|]. split; [exact Eit|]. split; [exact K1|]. split; [exact K2|]. split; [exact K3'|].
  split; [change (sca sx) with (sca s3) in Ecov; rewrite KT in Ecov; rewrite K3'; exact Ecov|].
  cbn zeta. rewrite E8. reflexivity.
Qed.


Lemma epilogue_deferred c s9 it : deferred (fst (end_event_epilogue c s9 it)) = deferred s9.
Proof.
  unfold end_event_epilogue.
  assert (X : deferred (transmit_pending_control_pdus c s9) = deferred s9)
    by (destruct (ck_keep _ _ _ (ctlk_tpcp c s9)) as (_ & _ & K & _); exact K).
  destruct (st s9); cbn [flush_events fst]; try reflexivity; exact X.
Qed.

Lemma neutral_event c s e pdus s' r :
  live22 s -> base22 s -> Glob s ->
  existsb (fun p => 27 <? N.of_nat (length (snd p))) pdus = false ->
  (updates_of pdus = [] /\ (normalise21 pdus = [] \/ (c_enc c = false /\ forallb (nq c) (normalise21 pdus) = true)))
  \/ (c_enc c = false /\ exists b, pdus = [(3, b)] /\ length b = 12%nat /\ byte b 0 = 0) ->
  lstep c s (Ev e pdus) = (s', r) -> r <> OCrash -> rxq (bf s') = [] ->
  (deferred s <> None \/ updates_of pdus <> [] -> deferred s' <> None) ->
  exists k ch ws we pre rr,
    r = OItems (pre ++ ICe ch ws we (interval (tm s)) :: map ICb rr)
    /\ forallb q22 pre = true /\ forallb nochg rr = true
    /\ 1 <= k /\ k <= latency (tm s) + 1 /\ tsle (cs s') = k * interval (tm s) /\ ws + we = 2 * tsle (cs s')
    /\ covers (sca s) ws we (tsle (cs s')) (tsle (cs s')) = true
    /\ st s' = Connected /\ tm s' = set_tw_size (tm s) 0 /\ sca s' = sca s /\ base22 s' /\ Glob s'
    /\ pend22 s' = pend22 s ++ updates_of pdus
    /\ (forall x, deferred s' = Some x -> deferred s = Some x \/ byte x 0 = 0).
Proof.
  intros Hst (B1 & B3 & B4 & B5 & B6 & B7 & BT) (G1 & G2 & G3 & G4 & G5) HL HP H Hr HX HK.
  pose proof BT as (I1 & I2 & I3 & I4 & I5 & I6 & I7 & I8 & I9).
  cbn [lstep] in H. rewrite (in_conn_of3 s Hst) in H. rewrite HL in H.
  destruct (radio_event_spec (S (length pdus + length (txq (bf s)))) s pdus) as (b' & R1 & R2 & R3 & R4 & R5 & R6 & R7).
  { apply le_S. apply Nat.add_le_mono_l. apply unsent_le. } { apply le_n_S. apply Nat.le_0_l. }
  destruct (radio_event _ s pdus) as [s1 it1]. cbn [fst snd] in R1, R7. subst s1 it1.
  set (s1 := set_bf s b') in *. rewrite B1 in R4. cbn [app] in R4.
  assert (Hst1 : live22 s1) by exact Hst.
  destruct (do_end_event c s1 e) as [[s2 it2]|] eqn:E2; [|inversion H; subst; congruence].
  inversion H; subst s2 r; clear H.
  destruct (prologue_form3 c s1 Hst1) as (rr & Esp & _).
  assert (RR : forallb nochg rr = true).
  { assert (X : rr = ring (end_event_prologue c s1)) by (rewrite Esp; reflexivity). rewrite X. apply prologue_ring. exact G4. }
  unfold do_end_event in E2. rewrite Esp in E2.
  set (sp := set_ring (upd_tm (set_st (set_pending_event s1 false) Connected) (fun t => set_tw_size t 0)) rr) in *.
  assert (DS' : deferred s' = deferred (fst (end_event_epilogue c (fst (match end_event_body c sp e with Some x => x | None => (sp, []) end)) (snd (match end_event_body c sp e with Some x => x | None => (sp, []) end))))).
  { destruct (end_event_body c sp e) as [[s9 it9]|]; cbn [obind] in E2; [|discriminate]. cbn [fst snd]. destruct (end_event_epilogue c s9 it9). inversion E2. reflexivity. }
  rewrite epilogue_deferred in DS'.
  destruct (end_event_body c sp e) as [[s9 it9]|] eqn:EB; cbn [obind] in E2; [|discriminate]. cbn [fst] in DS'.
  unfold end_event_body in EB. change (st sp) with Connected in EB. cbn [lstate_eqb andb] in EB.
  assert (RXP : rxq (bf sp) = normalise21 pdus) by exact R4.
  assert (UPD : forall b, length b = 12%nat -> byte b 0 = 0 -> updates_of [(3, b)] = [(byte b 1, rd16 b 2, rd16 b 4, rd16 b 6, rd16 b 8)]).
  { intros b L B0. unfold updates_of. cbn [flat_map fst snd]. rewrite L, B0. reflexivity. }
  assert (HRD : exists s3 it3 res, handle_received_data (S (length (rxq (bf sp)))) c sp = (s3, it3, res)
            /\ (res = DoDisconnect -> updates_of pdus <> [])
            /\ (res = GoAhead -> quiet_items it3 /\ fr22 sp s3 /\ ctlq 0 sp s3
                /\ ((deferred s3 = deferred s /\ (rxq (bf s3) = [] -> updates_of pdus = []))
                    \/ (deferred s = None /\ exists b, pdus = [(3, b)] /\ length b = 12%nat /\ byte b 0 = 0 /\ deferred s3 = Some b)))).
  { destruct (deferred s) as [d|] eqn:DS.
    { exists sp, [], GoAhead. assert (DP : deferred sp = Some d) by exact DS.
      split; [cbn [handle_received_data]; rewrite DP; reflexivity|]. split; [discriminate|]. intros _.
      split; [reflexivity|]. split; [apply fr22_refl|]. split; [apply ctlq_refl|].
      left. split; [exact DP|]. intros Z. rewrite RXP in Z.
      destruct HP as [[HU _]|(_ & b & -> & L & B0)]; [exact HU|]. exfalso. unfold normalise21 in Z. cbn [map filter fst snd] in Z. destruct b; discriminate. }
    assert (DP : deferred sp = None) by exact DS.
    destruct HP as [[HU [HP|[Enc HP]]]|(Enc & b & EP & L & B0)].
    - rewrite hrd_empty by (rewrite RXP; exact HP).
      exists sp, [], GoAhead. split; [reflexivity|]. split; [discriminate|]. intros _. split; [reflexivity|]. split; [apply fr22_refl|]. split; [apply ctlq_refl|]. left. split; [exact DP|intros _; exact HU].
    - assert (Q : forallb (nq c) (rxq (bf sp)) = true) by (rewrite RXP; exact HP).
      pose proof (hrd_neutral c Enc (S (length (rxq (bf sp)))) sp Q DP) as HN. cbn zeta in HN.
      destruct (handle_received_data _ c sp) as [[s3 it3] r3]. cbn [fst snd] in HN. destruct HN as (-> & Q3 & F3 & C3 & D3 & _).
      exists s3, it3, GoAhead. split; [reflexivity|]. split; [discriminate|]. intros _. split; [exact Q3|]. split; [exact F3|]. split; [exact C3|]. left. split; [exact D3|intros _; exact HU].
    - subst pdus.
      assert (NP : normalise21 [(3, b)] = [(3, b)]) by (unfold normalise21; cbn [map filter fst snd]; destruct b; [discriminate L|reflexivity]).
      rewrite NP in RXP. rewrite RXP. cbn [length handle_received_data]. rewrite DP, RXP.
      change GenLL.ll_control_pdu_code with 3. cbn [N.eqb Pos.eqb].
      destruct (tx_buffer_available sp) eqn:TA.
      2:{ exists sp, [], GoAhead. split; [reflexivity|]. split; [discriminate|]. intros _. split; [reflexivity|]. split; [apply fr22_refl|]. split; [apply ctlq_refl|].
          left. split; [exact DP|]. intros Z. rewrite RXP in Z. discriminate Z. }
      assert (CL : classify21 (c_phy c) (3, b) = Some (PUpdate (byte b 1) (rd16 b 2) (rd16 b 4) (rd16 b 6) (rd16 b 8), rd16 b 10)).
      { unfold classify21. cbn [N.eqb Pos.eqb negb]. rewrite L. cbn [N.of_nat Pos.of_succ_nat Pos.succ]. rewrite B0. reflexivity. }
      pose proof (accept_full c sp b _ _ CL) as AF. cbn zeta in AF. pose proof (hlc_fr22 c sp b Enc) as HF.
      destruct (handle_ll_control c sp b) as [[sa ita] ra]. cbn [fst snd] in AF, HF.
      destruct AF as (-> & SC & [(_ & -> & _)|(_ & -> & DA & _)]).
      + eexists _, _, DoDisconnect. split; [reflexivity|]. split; [intros _; rewrite (UPD b L B0); discriminate|discriminate].
      + cbn [handle_received_data]. change (deferred (upd_bf sa (fun b0 => set_rxq b0 []))) with (deferred sa). rewrite DA. cbn [app].
        exists (upd_bf sa (fun b0 => set_rxq b0 [])), [], GoAhead. split; [reflexivity|]. split; [discriminate|]. intros _. split; [reflexivity|].
        split; [eapply fr22_trans; [exact HF|]; unfold fr22; cbn; repeat split; auto|].
        split; [change 0%nat with (0 + 0)%nat; eapply ctlq_trans; [apply same_conn_ctlq; exact SC|apply pop_ctlq]|].
        right. split; [reflexivity|]. exists b. split; [reflexivity|]. split; [exact L|]. split; [exact B0|exact DA]. }
  destruct HRD as (s3 & it3 & res & EH & HDD & HGA). rewrite EH in EB.
  destruct res.
  2:{ exfalso. destruct (force_disconnect c s3) as [x y] eqn:FD. inversion EB; subst s9 it9.
      pose proof (fd_deferred c s3) as FD'. rewrite FD in FD'. cbn [fst] in FD'. rewrite FD' in DS'.
      apply (HK (or_intror (HDD eq_refl))). exact DS'. }
  destruct (HGA eq_refl) as (Q3 & F3 & C3 & HD3). clear HGA HDD.
  destruct F3 as (F1 & F2 & F4 & F5 & F6 & F7 & F8).
  destruct C3 as [C1 C2 C4 C5 C6 C7 C8 (ltx & C9 & _) (evs & C10 & C11)].
  rewrite (send_control_noop s3) in EB by (rewrite C1; reflexivity).
  destruct (end_event_continue c s3 e) as [[s8 it8]|] eqn:EC; cbn [obind] in EB; [|discriminate].
  inversion EB; subst s9 it9; clear EB.
  assert (T3 : tm s3 = set_tw_size (tm s) 0) by (rewrite C4; reflexivity).
  assert (A3 : sca s3 = sca s) by (rewrite F1; reflexivity).
  destruct (tail22 c s3 e s8 it8) as [[Dn D8]|(k & kk & ch & ws & we & Eit & E8 & K1 & K2 & KT & Emid & Ecov)]; try exact EC.
  { rewrite T3. reflexivity. }
  { rewrite T3, A3. unfold timing_inv. cbn [latency interval tw_size tw_off conn_timeout set_tw_size]. repeat split; try assumption; clear; lia. }
  { apply F7. exact B4. } { apply F8. exact G2. }
  { exfalso. rewrite D8 in DS'. refine (HK _ DS').
    destruct HD3 as [[HD3 _]|(_ & b & -> & L & B0 & _)]; [left; rewrite <- HD3; exact Dn|right; rewrite (UPD b L B0); discriminate]. }
  rewrite T3 in Eit, K2, KT. rewrite A3 in Ecov. cbn [latency interval set_tw_size] in Eit, K2, KT.
  subst s8 it8. unfold end_event_epilogue in E2. change (st (set_pending_event (set_cs s3 kk) true)) with (st s3) in E2. rewrite C1 in E2.
  change (st sp) with Connected in E2. cbn iota in E2.
  assert (P5 : cpr_pending (pr s3) = false) by (apply F4; exact B5).
  assert (P6 : phy_pending (pr s3) = false) by (apply F5; exact B6).
  assert (P7 : ver_pending (pr s3) = false) by (apply F6; exact B7).
  assert (P8 : ap_pending (ac s3) = false) by (rewrite F2; exact G3).
  rewrite (tpcp_idle c (set_pending_event (set_cs s3 kk) true)) in E2 by (first [exact P5|exact P6|exact P7|exact P8]).
  unfold flush_events in E2. inversion E2; subst s' it2; clear E2.
  change (ring (set_pending_event (set_cs s3 kk) true)) with (ring s3). rewrite C10. change (ring sp) with rr.
  exists k, ch, ws, we, (tx_items (unsent s) ++ it3), (rr ++ evs).
  split; [rewrite <- !app_assoc; reflexivity|].
  split; [rewrite forallb_app, tx_q22, (quiet_q22 _ Q3); reflexivity|].
  split; [rewrite forallb_app, RR, (benign_nochg _ C11); reflexivity|].
  split; [exact K1|]. split; [exact K2|]. split; [exact KT|]. split; [exact Emid|]. split; [exact Ecov|].
  split; [exact C1|]. split; [exact T3|]. split; [exact A3|].
  assert (TI : timing_inv (tm s3) (sca s3)).
  { rewrite T3, A3. unfold timing_inv. cbn [latency interval tw_size tw_off conn_timeout set_tw_size]. repeat split; try assumption; clear; lia. }
  split; [|split; [|split]].
  - unfold base22. split; [exact HX|]. split; [change (stopped (bf s3) = false); rewrite C7; change (stopped b' = false); rewrite R2; exact B3|].
    split; [exact (F7 B4)|]. split; [exact P5|]. split; [exact P6|]. split; [exact P7|exact TI].
  - unfold Glob. split; [change (length (ChanMapModel.tbl (chan s3)) = 37%nat); rewrite C5; exact G1|].
    split; [exact (F8 G2)|]. split; [exact P8|]. split; [reflexivity|]. left. change (in_connection s3 = true). unfold in_connection. rewrite C1. reflexivity.
  - change (pend22 s3 = pend22 s ++ updates_of pdus). unfold pend22.
    destruct HD3 as [[HD3 HU]|(DN & b & -> & L & B0 & HD3)].
    + rewrite HD3, (HU HX), app_nil_r. reflexivity.
    + rewrite HD3, DN, (UPD b L B0). reflexivity.
  - change (forall x, deferred s3 = Some x -> deferred s = Some x \/ byte x 0 = 0). intros x Hx.
    destruct HD3 as [[HD3 _]|(_ & b & _ & _ & B0 & HD3)]; [left; rewrite <- HD3; exact Hx|right; rewrite HD3 in Hx; inversion Hx; subst; exact B0].
Qed.



(* ========================================================================================== a missed event *)

Lemma epilogue_st c s9 it : st (fst (end_event_epilogue c s9 it)) = st s9.
Proof.
  unfold end_event_epilogue.
  assert (X : st (transmit_pending_control_pdus c s9) = st s9)
    by (destruct (ck_keep _ _ _ (ctlk_tpcp c s9)) as (K & _); exact K).
  destruct (st s9) eqn:S; cbn [flush_events fst st set_ring]; first [exact X|exact S].
Qed.

(* ========================================================================================== the event at the instant *)
Lemma instant_event c s e pdus s' r b :
  st s = Connected -> base22 s -> Glob s -> tw_size (tm s) = 0 ->
  existsb (fun p => 27 <? N.of_nat (length (snd p))) pdus = false ->
  deferred s = Some b -> byte b 0 = 0 -> c_cb c = true ->
  lstep c s (Ev e pdus) = (s', r) -> r <> OCrash -> rxq (bf s') = [] -> st s' = ConnChanged ->
  exists t k ch ws we pre d,
    parse_update b = (t, Some true)
    /\ r = OItems (pre ++ ICe ch ws we (interval t) :: map ICb [EvChanged d])
    /\ forallb q22 pre = true
    /\ d_interval d = rd16 b 4 /\ d_latency d = rd16 b 6 /\ d_timeout d = rd16 b 8
    /\ 1 <= k /\ k <= latency (tm s) + 1
    /\ covers (sca s) ws we (k * interval (tm s) + tw_off t) (k * interval (tm s) + (tw_off t + tw_size t)) = true
    /\ tm s' = t /\ sca s' = sca s /\ base22 s' /\ Glob s' /\ deferred s' = None
    /\ normalise21 pdus = [] /\ 1250 <= tw_size t.
Proof.
  intros Hst0 (B1 & B3 & B4 & B5 & B6 & B7 & BT) (G1 & G2 & G3 & G4 & G5) HZ HL DS B0 CBt H Hr HX HS'.
  assert (Hst : st s = Connecting \/ st s = Connected) by (right; exact Hst0).
  pose proof BT as (I1 & I2 & I3 & I4 & I5 & I6 & I7 & I8 & I9).
  cbn [lstep] in H. rewrite (LLProofsC27Sim.in_conn_of s Hst) in H. rewrite HL in H.
  destruct (radio_event_spec (S (length pdus + length (txq (bf s)))) s pdus) as (b' & R1 & R2 & R3 & R4 & R5 & R6 & R7).
  { apply le_S. apply Nat.add_le_mono_l. apply unsent_le. } { apply le_n_S. apply Nat.le_0_l. }
  destruct (radio_event _ s pdus) as [s1 it1]. cbn [fst snd] in R1, R7. subst s1 it1.
  set (s1 := set_bf s b') in *. rewrite B1 in R4. cbn [app] in R4.
  assert (Hst1 : st s1 = Connecting \/ st s1 = Connected) by exact Hst.
  destruct (do_end_event c s1 e) as [[s2 it2]|] eqn:E2; [|inversion H; subst; congruence].
  inversion H; subst s2 r; clear H.
  destruct (LLProofsC27Sim.prologue_form c s1 Hst1) as (rr & Esp & ERR).
  assert (RR0 : rr = []) by (rewrite (ERR Hst0); exact G4). subst rr.
  unfold do_end_event in E2. rewrite Esp in E2.
  set (sp := set_ring (upd_tm (set_st (set_pending_event s1 false) Connected) (fun t => set_tw_size t 0)) []) in *.
  destruct (end_event_body c sp e) as [[s9 it9]|] eqn:EB; cbn [obind] in E2; [|discriminate].
  assert (S9 : st s9 = ConnChanged).
  { pose proof (epilogue_st c s9 it9) as X. destruct (end_event_epilogue c s9 it9) as [x y]. cbn [fst] in X. inversion E2; subst x y. rewrite <- X. exact HS'. }
  unfold end_event_body in EB. change (st sp) with Connected in EB. cbn [lstate_eqb andb] in EB.
  assert (DP : deferred sp = Some b) by exact DS.
  cbn [handle_received_data] in EB. rewrite DP in EB.
  rewrite (send_control_noop sp) in EB by reflexivity.
  destruct (end_event_continue c sp e) as [[s8 it8]|] eqn:EC; cbn [obind] in EB; [|discriminate].
  cbn [app] in EB. inversion EB; subst s9 it9; clear EB.
  destruct (tail22_apply c sp e s8 it8 b) as (t & k & kk & ch & ws & we & PU & Eit & K1 & K2 & KT & Ecov & E8); try assumption; try reflexivity.
  { unfold timing_inv. change (tm sp) with (set_tw_size (tm s) 0). change (sca sp) with (sca s).
    cbn [latency interval tw_size tw_off conn_timeout set_tw_size]. repeat split; try assumption; clear; lia. }
  cbn zeta in E8.
  destruct (parse_update_ok b t PU) as (CT & OI & T1 & T2 & T3 & T4 & T5 & T6).
  pose proof (check_timing_true t CT) as (C1 & (C2 & C2') & (C3 & C3') & C4 & (C5 & C5') & C6).
  subst s8 it8. unfold end_event_epilogue in E2. cbn [st set_pending_event set_ring set_st] in E2. cbn [flush_events] in E2.
  inversion E2; subst s' it2; clear E2.
  match goal with |- context [details_of ?X] => set (sa := X) in * end.
  exists t, k, ch, ws, we, (tx_items (unsent s)), (details_of sa).
  split; [exact PU|]. split; [reflexivity|]. split; [apply tx_q22|].
  split; [unfold details_of; change (interval (tm sa)) with (interval t); rewrite T3; change GenLL.us_per_digits with 1250; cbn [d_interval]; apply N.div_mul; discriminate|].
  split; [unfold details_of; cbn [d_latency]; change (latency (tm sa)) with (latency t); exact T4|].
  split; [unfold details_of; cbn [d_timeout]; change (timeout_value (tm sa)) with (timeout_value t); exact T5|].
  split; [exact K1|]. split; [exact K2|].
  split; [change (interval (tm sp)) with (interval (tm s)) in KT; rewrite KT in Ecov; exact Ecov|].
  split; [reflexivity|]. split; [reflexivity|].
  split; [|split; [|split; [reflexivity|split; [rewrite <- R4; exact HX|exact C3]]]].
  - unfold base22. split; [exact HX|]. split; [change (stopped b' = false); rewrite R2; exact B3|]. split; [reflexivity|].
    split; [exact B5|]. split; [exact B6|]. split; [exact B7|].
    unfold timing_inv. change (tm _) with t. change (sca _) with (sca s).
    repeat split; try assumption; try (clear - OI C2'; lia). 
  - unfold Glob. split; [exact G1|]. split; [exact G2|]. split; [exact G3|]. split; [reflexivity|]. left. reflexivity.
Qed.

Lemma fd_glob c s : Glob s -> ring s = [] ->
  Glob (set_ring (fst (force_disconnect c s)) []) /\ in_connection (set_ring (fst (force_disconnect c s)) []) = false
  /\ has_adv22 (snd (force_disconnect c s)) = true.
Proof.
  intros (G1 & G2 & G3 & G4 & G5) _. unfold force_disconnect, reset_encryption, reset_phy, push_event.
  destruct (c_enc c); destruct (c_phy c); destruct (st s) eqn:S; destruct (c_cb c);
    cbn [fst snd upd_sc set_sc st]; rewrite ?S; try destruct (_ <? _);
    (split; [unfold Glob; cbn; repeat split; try assumption; right; reflexivity|split; reflexivity]).
Qed.

Lemma missed_event c s s' r :
  live22 s -> base22 s -> Glob s -> lstep c s Timeout = (s', r) -> r <> OCrash ->
  if lost22 s
  then exists it, r = OItems it /\ has_adv22 it = true /\ in_connection s' = false /\ Glob s'
  else (deferred s <> None /\ deferred s' = None) \/ exists ch ws we,
         r = OItems [ICe ch ws we (interval (tm s))] /\ deferred s' = deferred s
         /\ st s' = st s /\ tm s' = tm s /\ sca s' = sca s /\ tsle (cs s') = tsle (cs s) + interval (tm s)
         /\ covers (sca s) ws we (tsle (cs s') + (if tw_size (tm s) =? 0 then 0 else tw_off (tm s)))
                                  (tsle (cs s') + (if tw_size (tm s) =? 0 then 0 else tw_off (tm s) + tw_size (tm s))) = true
         /\ (tw_size (tm s) = 0 -> ws + we = 2 * tsle (cs s'))
         /\ base22 s' /\ Glob s'.
Proof.
  intros Hst (B1 & B3 & B4 & B5 & B6 & B7 & BT) HG H Hr.
  pose proof HG as (G1 & G2 & G3 & G4 & G5).
  destruct BT as (I1 & I2 & I3 & I4 & I5 & I6 & I7 & I8 & I9).
  cbn [lstep] in H. rewrite (in_conn_of3 s Hst) in H.
  destruct (do_timeout c s) as [[s2 it2]|] eqn:E; cbn [ok_items] in H; inversion H; subst; [|congruence]. clear H.
  unfold do_timeout in E.
  change (st (set_pending_event s false)) with (st s) in E.
  assert (ND : lstate_eqb (st s) Disconnecting = false) by (destruct Hst as [-> | [-> | ->]]; reflexivity).
  rewrite ND in E. cbn [andb] in E.
  change (proc_timeout (set_pending_event s false)) with (proc_timeout s) in E. rewrite B4 in E. cbn [N.eqb negb andb] in E.
  change (interval (tm (set_pending_event s false))) with (interval (tm s)) in E.
  change (GenLL.num_windows_til_timeout - 1) with 5 in E.
  rewrite (dt_mul_some (interval (tm s)) 5) in E by lia. cbn [obind] in E.
  change (tsle (cs (set_pending_event s false))) with (tsle (cs s)) in E.
  change (conn_timeout (tm (set_pending_event s false))) with (conn_timeout (tm s)) in E.
  unfold lost22.
  assert (EL : (tsle (cs s) <? conn_timeout (tm s)) && negb (lstate_eqb (st s) Connecting && (interval (tm s) * 5 <=? tsle (cs s)))
               = negb ((conn_timeout (tm s) <=? tsle (cs s)) || (lstate_eqb (st s) Connecting && (5 * interval (tm s) <=? tsle (cs s)))))
    by (rewrite (N.mul_comm (interval (tm s)) 5); destruct (lstate_eqb (st s) Connecting); lia).
  rewrite EL in E. clear EL.
  destruct ((conn_timeout (tm s) <=? tsle (cs s)) || (lstate_eqb (st s) Connecting && (5 * interval (tm s) <=? tsle (cs s)))) eqn:L; cbn [negb] in E.
  - (* lost *)
    destruct (fd_glob c (set_pending_event s false)) as (F1 & F2 & F3); [exact HG|exact G4|].
    destruct (force_disconnect c (set_pending_event s false)) as [sa ia]. cbn [fst snd] in F1, F2, F3. cbn [flush_events] in E. inversion E; subst.
    eexists. split; [reflexivity|]. split; [|split; assumption].
    unfold has_adv22 in *. rewrite existsb_app, F3. reflexivity.
  - (* the next event *)
    assert (LT : tsle (cs s) < conn_timeout (tm s)) by lia.
    unfold plan_after_timeout in E. change (tsle (cs (set_pending_event s false))) with (tsle (cs s)) in E.
    change (interval (tm (set_pending_event s false))) with (interval (tm s)) in E.
    rewrite dt_add_some in E by lia. cbn [obind] in E.
    set (s1 := upd_cs (set_pending_event s false) (fun c0 => mk_cstate ((ch_idx c0 + 1) mod 37) (u16 (evc c0 + 1)) (tsle (cs s) + interval (tm s)) (last_lat c0))) in E.
    destruct (pending_then_setup c s1) as [[s8 it8]|] eqn:EPS; cbn [obind] in E; [|discriminate].
    destruct (pts22 c s1 s8 it8 EPS) as [[Dn D8]|E8].
    { left. cbn [flush_events] in E. inversion E; subst s' it2. split; [exact Dn|exact D8]. }
    right.
    destruct (window_covers s1 s8 it8) as (ch & ws & we & Eit & Ecov); [| |exact E8|].
    { subst s1. cbn [tsle cs upd_cs set_cs set_pending_event tm tw_off tw_size]. unfold time_bound. lia. }
    { exact I9. }
    pose proof (setup_next_sym s1 s8 it8 E8) as MID.
    apply setup_next_frame in E8. destruct E8 as [E8 _].
    cbn [flush_events] in E. inversion E; subst s' it2; clear E.
    assert (R8 : ring s8 = []) by (subst s8 s1; exact G4). rewrite R8, Eit. cbn [map app].
    exists ch, ws, we.
    split; [reflexivity|]. split; [subst s8 s1; reflexivity|]. split; [subst s8 s1; reflexivity|]. split; [subst s8 s1; reflexivity|]. split; [subst s8 s1; reflexivity|].
    split; [subst s8 s1; reflexivity|]. split; [subst s8; exact Ecov|].
    split; [intros Z; destruct (MID Z) as (c1 & w1 & w2 & Eq & Em); rewrite Eit in Eq; inversion Eq; subst; exact Em|].
    split; [subst s8 s1; unfold base22, timing_inv; cbn; repeat split; assumption|].
    subst s8 s1; unfold Glob; cbn [chan sc ac ring deferred set_ring set_pending_event upd_cs set_cs]. repeat split; try assumption.
Qed.

Lemma fd_glob' c s : length (ChanMapModel.tbl (chan s)) = 37%nat -> enc_prog (sc s) = false -> ap_pending (ac s) = false ->
  Glob (set_ring (fst (force_disconnect c s)) []) /\ in_connection (set_ring (fst (force_disconnect c s)) []) = false
  /\ has_adv22 (snd (force_disconnect c s)) = true.
Proof.
  intros G1 G2 G3. unfold force_disconnect, reset_encryption, reset_phy, push_event.
  destruct (c_enc c); destruct (c_phy c); destruct (st s) eqn:S; destruct (c_cb c);
    cbn [fst snd upd_sc set_sc st]; rewrite ?S; try destruct (_ <? _);
    (split; [unfold Glob; cbn; repeat split; try assumption; right; reflexivity|split; reflexivity]).
Qed.

(* ========================================================================================== a refused update *)
(* an LL_CONNECTION_UPDATE_IND whose instant has passed (or is the next event) is refused when it is looked at: the link is
   dropped (reason 0x28) and advertising starts again *)
Lemma refused_event c s e s' r b :
  live22 s -> base22 s -> Glob s -> c_enc c = false ->
  existsb (fun p => 27 <? N.of_nat (length (snd p))) [(3, b)] = false ->
  length b = 12%nat -> byte b 0 = 0 -> deferred s = None -> tx_avail (bf s) = true ->
  instant_passed_update (rd16 b 10) (evc (cs s)) = true ->
  lstep c s (Ev e [(3, b)]) = (s', r) -> r <> OCrash ->
  exists it, r = OItems it /\ has_adv22 it = true /\ in_connection s' = false /\ Glob s'.
Proof.
  intros Hst (B1 & B3 & B4 & B5 & B6 & B7 & BT) (G1 & G2 & G3 & G4 & G5) Enc HL L B0 DS TA IP H Hr.
  cbn [lstep] in H. rewrite (in_conn_of3 s Hst) in H. rewrite HL in H.
  destruct (radio_event_spec (S (length [(3, b)] + length (txq (bf s)))) s [(3, b)]) as (b' & R1 & R2 & R3 & R4 & R5 & R6 & R7).
  { apply le_S. apply Nat.add_le_mono_l. apply unsent_le. } { apply le_n_S. apply Nat.le_0_l. }
  destruct (radio_event _ s [(3, b)]) as [s1 it1]. cbn [fst snd] in R1, R7. subst s1 it1.
  set (s1 := set_bf s b') in *. rewrite B1 in R4. cbn [app] in R4.
  assert (NP : normalise21 [(3, b)] = [(3, b)]) by (unfold normalise21; cbn [map filter fst snd]; destruct b; [discriminate L|reflexivity]).
  rewrite NP in R4.
  assert (Hst1 : live22 s1) by exact Hst.
  destruct (do_end_event c s1 e) as [[s2 it2]|] eqn:E2; [|inversion H; subst; congruence].
  inversion H; subst s2 r; clear H.
  destruct (prologue_form3 c s1 Hst1) as (rr & Esp & _).
  unfold do_end_event in E2. rewrite Esp in E2.
  set (sp := set_ring (upd_tm (set_st (set_pending_event s1 false) Connected) (fun t => set_tw_size t 0)) rr) in *.
  destruct (end_event_body c sp e) as [[s9 it9]|] eqn:EB; cbn [obind] in E2; [|discriminate].
  unfold end_event_body in EB. change (st sp) with Connected in EB. cbn [lstate_eqb andb] in EB.
  assert (RXP : rxq (bf sp) = [(3, b)]) by exact R4.
  assert (DP : deferred sp = None) by exact DS.
  rewrite RXP in EB. cbn [length handle_received_data] in EB. rewrite DP, RXP in EB.
  change GenLL.ll_control_pdu_code with 3 in EB. cbn [N.eqb Pos.eqb] in EB.
  assert (TA' : tx_buffer_available sp = true) by (unfold tx_buffer_available; change (tx_avail (bf sp)) with (tx_avail b'); rewrite R3; exact TA).
  rewrite TA' in EB.
  assert (CL : classify21 (c_phy c) (3, b) = Some (PUpdate (byte b 1) (rd16 b 2) (rd16 b 4) (rd16 b 6) (rd16 b 8), rd16 b 10)).
  { unfold classify21. cbn [N.eqb Pos.eqb negb]. rewrite L. cbn [N.of_nat Pos.of_succ_nat Pos.succ]. rewrite B0. reflexivity. }
  pose proof (accept_full c sp b _ _ CL) as AF. cbn zeta in AF. pose proof (hlc_fr22 c sp b Enc) as HF.
  destruct (handle_ll_control c sp b) as [[sa ita] ra]. cbn [fst snd] in AF, HF.
  destruct AF as (-> & SC & [(_ & -> & _)|(RF & _)]).
  2:{ exfalso. unfold refused in RF. change (evc (cs sp)) with (evc (cs s)) in RF. unfold instant_passed_update in IP. rewrite IP in RF. discriminate RF. }
  destruct SC as (SC1 & SC2 & SC3 & SC4 & SC5 & SC6). destruct HF as (F1 & F2 & _ & _ & _ & _ & F8).
  match type of EB with context [force_disconnect c ?X] => set (s3 := X) in * end.
  destruct (fd_glob' c s3) as (FG & FI & FA).
  { change (chan s3) with (chan sa). rewrite SC4. exact G1. }
  { change (sc s3) with (sc sa). apply F8. exact G2. }
  { change (ac s3) with (ac sa). rewrite F2. exact G3. }
  destruct (force_disconnect c s3) as [s4 it4] eqn:FD. cbn [fst snd] in FG, FI, FA.
  cbn [app] in EB. injection EB as E9 E9'. subst s9 it9.
  unfold end_event_epilogue in E2.
  assert (S4 : st s4 = Advertising) by (pose proof (LLProofsC27Sim.fd_st27 c s3) as X; rewrite FD in X; exact X).
  rewrite S4 in E2. cbn [flush_events] in E2. inversion E2; subst s' it2; clear E2.
  eexists. split; [reflexivity|]. split; [|split; [exact FI|exact FG]].
  unfold has_adv22 in *. rewrite !existsb_app, FA. rewrite orb_true_r. reflexivity.
Qed.

(* ========================================================================================== an update that is invalid at its instant *)
(* handle_pending_ll_control() + setup: if the link layer is not in a connection afterwards, the link was dropped here *)
Lemma pts_dropped c s1 s8 it8 :
  st s1 = Connected -> length (ChanMapModel.tbl (chan s1)) = 37%nat -> enc_prog (sc s1) = false -> ap_pending (ac s1) = false ->
  pending_then_setup c s1 = Some (s8, it8) -> in_connection s8 = false ->
  Glob (set_ring s8 []) /\ has_adv22 it8 = true /\ st s8 = Advertising.
Proof.
  intros S1 G1 G2 G3 H NI. unfold pending_then_setup, handle_pending_ll_control in H.
  assert (SN : forall x y z, setup_next_connection_event x = Some (y, z) -> in_connection x = true -> in_connection y = true)
    by (intros x y z E IC; apply setup_next_frame in E; destruct E as [-> _]; exact IC).
  assert (IC1 : in_connection s1 = true) by (unfold in_connection; rewrite S1; reflexivity).
  destruct (deferred s1) as [b|] eqn:D.
  2:{ exfalso. cbn [obind] in H. destruct (setup_next_connection_event s1) as [[x y]|] eqn:E; cbn [obind app] in H; [|discriminate].
      inversion H; subst. rewrite (SN _ _ _ E IC1) in NI. discriminate NI. }
  destruct (def_instant s1 =? evc (cs s1)).
  2:{ exfalso. cbn [obind] in H. destruct (setup_next_connection_event s1) as [[x y]|] eqn:E; cbn [obind app] in H; [|discriminate].
      inversion H; subst. rewrite (SN _ _ _ E IC1) in NI. discriminate NI. }
  set (s0 := upd_cs (set_deferred s1 None) _) in H.
  destruct (byte b 0 =? GenLL.LL_CHANNEL_MAP_REQ).
  { exfalso. destruct (ChanMapModel.reset_impl _ _ _) as [ch r0]. cbn [obind] in H.
    destruct (setup_next_connection_event (set_chan s0 ch)) as [[x y]|] eqn:E; cbn [obind] in H; [|discriminate].
    inversion H; subst. rewrite (SN _ _ _ E IC1) in NI. discriminate NI. }
  destruct (byte b 0 =? GenLL.LL_CONNECTION_UPDATE_IND).
  { destruct (parse_update b) as [tt ok]. destruct ok as [[|]|]; cbn [obind] in H; [| |discriminate].
    - exfalso. match type of H with context [setup_next_connection_event ?X] => destruct (setup_next_connection_event X) as [[x y]|] eqn:E end; cbn [obind] in H; [|discriminate].
      inversion H; subst. apply setup_next_frame in E. destruct E as [-> _].
      unfold push_event in NI. destruct (c_cb c); [destruct (_ <? _)|]; discriminate NI.
    - match type of H with context [force_disconnect c ?X] => destruct (fd_glob' c X G1 G2 G3) as (FG & _ & FA); pose proof (LLProofsC27Sim.fd_st27 c X) as FS; destruct (force_disconnect c X) as [x y] end.
      cbn [fst snd] in FG, FA, FS. cbn [app] in H. inversion H; subst. split; [exact FG|]. split; [exact FA|exact FS]. }
  exfalso. cbn [obind] in H.
  match type of H with context [setup_next_connection_event ?X] => destruct (setup_next_connection_event X) as [[x y]|] eqn:E end; cbn [obind] in H; [|discriminate].
  inversion H; subst. apply setup_next_frame in E. destruct E as [-> _].
  unfold push_event in NI. destruct (c_cb c); [destruct (_ <? _)|]; unfold in_connection in NI; cbn in NI; rewrite S1 in NI; discriminate NI.
Qed.

(* the connection event at the instant of a waiting update whose parameters are invalid: the link is dropped *)
Lemma dropped_event c s e pdus s' r :
  st s = Connected -> base22 s -> Glob s ->
  existsb (fun p => 27 <? N.of_nat (length (snd p))) pdus = false ->
  deferred s <> None ->
  lstep c s (Ev e pdus) = (s', r) -> r <> OCrash -> in_connection s' = false ->
  exists it, r = OItems it /\ has_adv22 it = true /\ Glob s'.
Proof.
  intros Hst0 (B1 & B3 & B4 & B5 & B6 & B7 & BT) (G1 & G2 & G3 & G4 & G5) HL DS H Hr NI.
  assert (Hst : live22 s) by (right; left; exact Hst0).
  pose proof BT as (I1 & I2 & I3 & I4 & I5 & I6 & I7 & I8 & I9).
  cbn [lstep] in H. rewrite (in_conn_of3 s Hst) in H. rewrite HL in H.
  destruct (radio_event_spec (S (length pdus + length (txq (bf s)))) s pdus) as (b' & R1 & R2 & R3 & R4 & R5 & R6 & R7).
  { apply le_S. apply Nat.add_le_mono_l. apply unsent_le. } { apply le_n_S. apply Nat.le_0_l. }
  destruct (radio_event _ s pdus) as [s1 it1]. cbn [fst snd] in R1, R7. subst s1 it1.
  set (s1 := set_bf s b') in *.
  assert (Hst1 : live22 s1) by exact Hst.
  destruct (do_end_event c s1 e) as [[s2 it2]|] eqn:E2; [|inversion H; subst; congruence].
  inversion H; subst s2 r; clear H.
  destruct (prologue_form3 c s1 Hst1) as (rr & Esp & _).
  unfold do_end_event in E2. rewrite Esp in E2.
  set (sp := set_ring (upd_tm (set_st (set_pending_event s1 false) Connected) (fun t => set_tw_size t 0)) rr) in *.
  destruct (end_event_body c sp e) as [[s9 it9]|] eqn:EB; cbn [obind] in E2; [|discriminate].
  assert (S9 : in_connection s9 = false).
  { pose proof (epilogue_st c s9 it9) as X. destruct (end_event_epilogue c s9 it9) as [x y]. cbn [fst] in X. inversion E2; subst x y.
    unfold in_connection in *. rewrite <- X. exact NI. }
  unfold end_event_body in EB. change (st sp) with Connected in EB. cbn [lstate_eqb andb] in EB.
  destruct (deferred s) as [b|] eqn:DSb; [|exfalso; apply DS; reflexivity].
  assert (DP : deferred sp = Some b) by exact DSb.
  cbn [handle_received_data] in EB. rewrite DP in EB.
  rewrite (send_control_noop sp) in EB by reflexivity.
  destruct (end_event_continue c sp e) as [[s8 it8]|] eqn:EC; cbn [obind] in EB; [|discriminate].
  cbn [app] in EB. injection EB as E9 E9'. subst s9 it9.
  unfold end_event_continue, procedure_timed_out in EC. change (proc_timeout sp) with (proc_timeout s) in EC. rewrite B4 in EC. cbn [N.eqb negb andb] in EC.
  unfold transmit_pending_security_pdus in EC. change (enc_prog (sc sp)) with (enc_prog (sc s)) in EC. rewrite G2, andb_false_r in EC. cbn [andb] in EC.
  match type of EC with context [plan_next_connection_event c sp ?X] => destruct (plan_next_connection_event c sp X) as [s7|] eqn:E7 end; cbn [obind] in EC; [|discriminate].
  apply plan_next_frame in E7. destruct E7 as [kk E7]. subst s7.
  destruct (pending_then_setup c (set_cs sp kk)) as [[s8' it8']|] eqn:EPS; cbn [obind] in EC; [|discriminate].
  cbn [app] in EC. injection EC as E8 E8'. subst s8' it8'.
  destruct (pts_dropped c (set_cs sp kk) s8 it8) as (FG & FA & FS); try exact EPS; try exact S9; try reflexivity; try assumption.
  unfold end_event_epilogue in E2. rewrite FS in E2. cbn [flush_events] in E2. inversion E2; subst s' it2; clear E2.
  eexists. split; [reflexivity|]. split; [|exact FG].
  unfold has_adv22 in *. rewrite !existsb_app, FA. rewrite orb_true_r. reflexivity.
Qed.

(* a missed event at the instant of a waiting update: timeout() applies the update (state connection_changed) *)
Lemma missed_instant c s s' r b :
  st s = Connected -> base22 s -> Glob s -> deferred s = Some b -> byte b 0 = 0 -> c_cb c = true ->
  lstep c s Timeout = (s', r) -> r <> OCrash -> lost22 s = false -> st s' = ConnChanged ->
  exists t ch ws we d,
    parse_update b = (t, Some true)
    /\ r = OItems (ICe ch ws we (interval t) :: map ICb [EvChanged d])
    /\ d_interval d = rd16 b 4 /\ d_latency d = rd16 b 6 /\ d_timeout d = rd16 b 8
    /\ tm s' = t /\ sca s' = sca s /\ base22 s' /\ Glob s' /\ deferred s' = None /\ 1250 <= tw_size t.
Proof.
  intros Hst0 (B1 & B3 & B4 & B5 & B6 & B7 & BT) HG DS B0 CBt H Hr L HS'.
  assert (Hst : live22 s) by (right; left; exact Hst0).
  pose proof HG as (G1 & G2 & G3 & G4 & G5).
  destruct BT as (I1 & I2 & I3 & I4 & I5 & I6 & I7 & I8 & I9).
  cbn [lstep] in H. rewrite (in_conn_of3 s Hst) in H.
  destruct (do_timeout c s) as [[s2 it2]|] eqn:E; cbn [ok_items] in H; inversion H; subst; [|congruence]. clear H.
  unfold do_timeout in E.
  change (st (set_pending_event s false)) with (st s) in E. rewrite Hst0 in E. cbn [lstate_eqb andb] in E.
  change (proc_timeout (set_pending_event s false)) with (proc_timeout s) in E. rewrite B4 in E. cbn [N.eqb negb andb] in E.
  change (interval (tm (set_pending_event s false))) with (interval (tm s)) in E.
  change (GenLL.num_windows_til_timeout - 1) with 5 in E.
  rewrite (dt_mul_some (interval (tm s)) 5) in E by (clear - I2 I3; lia). cbn [obind] in E.
  change (tsle (cs (set_pending_event s false))) with (tsle (cs s)) in E.
  change (conn_timeout (tm (set_pending_event s false))) with (conn_timeout (tm s)) in E.
  unfold lost22 in L. rewrite Hst0 in L. cbn [lstate_eqb andb] in L. rewrite orb_false_r in L. apply N.leb_gt in L.
  replace (tsle (cs s) <? conn_timeout (tm s)) with true in E by (symmetry; apply N.ltb_lt; exact L). cbn [andb negb] in E.
  unfold plan_after_timeout in E. change (tsle (cs (set_pending_event s false))) with (tsle (cs s)) in E.
  change (interval (tm (set_pending_event s false))) with (interval (tm s)) in E.
  rewrite dt_add_some in E by (clear - L I7 I3; lia). cbn [obind] in E.
  set (s1 := upd_cs (set_pending_event s false) (fun c0 => mk_cstate ((ch_idx c0 + 1) mod 37) (u16 (evc c0 + 1)) (tsle (cs s) + interval (tm s)) (last_lat c0))) in E.
  destruct (pending_then_setup c s1) as [[s8 it8]|] eqn:EPS; cbn [obind] in E; [|discriminate].
  cbn [flush_events] in E. inversion E; subst s' it2; clear E.
  assert (S8 : st s8 = ConnChanged) by exact HS'.
  destruct (pts_apply c s1 b s8 it8 DS B0 Hst0 EPS S8) as (t & PU & E8). cbn zeta in E8.
  destruct (parse_update_ok b t PU) as (CT & OI & T1 & T2 & T3 & T4 & T5 & T6).
  pose proof (check_timing_true t CT) as (C1 & (C2 & C2') & (C3 & C3') & C4 & (C5 & C5') & C6).
  unfold push_event in E8. rewrite CBt in E8.
  match type of E8 with context [ring ?X] => change (ring X) with (ring s) in E8 end. rewrite G4 in E8.
  change (N.of_nat (length (@nil cb_event)) <? GenLL.max_events) with true in E8. cbn iota in E8. cbn [app] in E8.
  match type of E8 with setup_next_connection_event ?X = _ => set (sx := X) in * end.
  apply setup_next_frame in E8. destruct E8 as [E8 (ch & ws & we & Eit)]. subst s8 it8.
  change (interval (tm sx)) with (interval t).
  subst sx. cbn [ring set_pending_event set_ring app map].
  match goal with |- context [details_of ?X] => set (sa := X) in * end.
  exists t, ch, ws, we, (details_of sa).
  split; [exact PU|]. split; [reflexivity|].
  split; [unfold details_of; change (interval (tm sa)) with (interval t); rewrite T3; change GenLL.us_per_digits with 1250; cbn [d_interval]; apply N.div_mul; discriminate|].
  split; [unfold details_of; cbn [d_latency]; change (latency (tm sa)) with (latency t); exact T4|].
  split; [unfold details_of; cbn [d_timeout]; change (timeout_value (tm sa)) with (timeout_value t); exact T5|].
  split; [reflexivity|]. split; [reflexivity|].
  split; [|split; [|split; [reflexivity|exact C3]]].
  - unfold base22. split; [exact B1|]. split; [exact B3|]. split; [reflexivity|]. split; [exact B5|]. split; [exact B6|]. split; [exact B7|].
    unfold timing_inv. change (tm _) with t. change (sca _) with (sca s).
    repeat split; try assumption; try (clear - OI C2'; lia).
  - unfold Glob. split; [exact G1|]. split; [exact G2|]. split; [exact G3|]. split; [reflexivity|]. left. reflexivity.
Qed.

(* ========================================================================================== a connect request *)
Definition noce22 (i : item) : bool := match i with ICe _ _ _ _ => false | _ => true end.
Lemma find_ce_pick a ch ws we iv b : forallb noce22 b = true -> find_ce (a ++ ICe ch ws we iv :: b) = Some (ch, ws, we, iv).
Proof.
  intros H. unfold find_ce. rewrite fold_left_app. cbn [fold_left].
  generalize (Some (ch, ws, we, iv)) as o. induction b as [|i b IH]; intros o; [reflexivity|].
  simpl in H. apply andb_prop in H. destruct H as [H1 H2]. destruct i; try discriminate; simpl; apply IH; exact H2.
Qed.
Lemma find_ce_none a : forallb noce22 a = true -> find_ce a = None.
Proof.
  unfold find_ce. generalize (@None (N * N * N * N)) as o. induction a as [|i a IH]; intros o H; [reflexivity|].
  simpl in H. apply andb_prop in H. destruct H as [H1 H2]. destruct i; try discriminate; simpl; apply IH; exact H2.
Qed.
Lemma noce22_cbs l : forallb noce22 (map ICb l) = true.
Proof. induction l; [reflexivity|assumption]. Qed.

Lemma addressed_len c hdr0 body : addressed_to_us c hdr0 body = true -> length body = 34%nat.
Proof. unfold addressed_to_us. intros H. lia. Qed.

Lemma slice_len body a n : (a + n <= length body)%nat -> length (slice body a n) = n.
Proof. intros H. unfold slice. rewrite firstn_length, skipn_length. lia. Qed.

Lemma adv22 c s hdr0 body s' r p :
  cfg_ok22 c = true -> Glob s -> in_connection s = false -> p_phase p = PIdle ->
  lstep c s (Adv hdr0 body) = (s', r) -> r <> OCrash ->
  exists p', mstep22 c p (Adv hdr0 body) r = (Ok, p') /\ Sim22 c s' p'.
Proof.
  intros Hc HG NI PI H Hr. pose proof HG as (G1 & G2 & G3 & G4 & G5).
  assert (DN : deferred s = None) by (destruct G5 as [X|X]; [congruence|exact X]).
  unfold cfg_ok22 in Hc.
  assert (Same : forall x, T22 (c_cb c) x p = (in_connection x = false)) by (intros x; unfold T22; rewrite PI; reflexivity).
  cbn [lstep] in H. destruct (st s) eqn:S; try (inversion H; subst; exists p; split; [reflexivity|split; [exact HG|rewrite Same; exact NI]]).
  destruct (255 <? _); [inversion H; subst; exists p; split; [reflexivity|split; [exact HG|rewrite Same; exact NI]]|].
  destruct (do_adv_received c s hdr0 body) as [[s2 it2]|] eqn:E; cbn [ok_items] in H; inversion H; subst; [|congruence]. clear H.
  unfold do_adv_received in E. change (valid_connect_request c hdr0 body) with (addressed_to_us c hdr0 body) in E.
  unfold mstep22.
  destruct (addressed_to_us c hdr0 body) eqn:EA.
  2:{ (* not for us: advertising goes on *)
      inversion E; subst. cbn [find_ce fold_left]. rewrite PI. cbn [andb].
      exists p. split; [reflexivity|]. split; [unfold Glob in *; cbn; auto 10|rewrite Same; unfold in_connection; cbn [st set_adv_ch]; rewrite S; reflexivity]. }
  pose proof (addressed_len c hdr0 body EA) as Hlen.
  pose proof (ChanMapProofs.reset_result (chan s) (slice body 28 5) (N.land (byte body 33) 31) (slice_len body 28 5 ltac:(lia)) G1) as RR.
  destruct (ChanMapModel.reset_impl (chan s) (slice body 28 5) (N.land (byte body 33) 31)) as [ch rch].
  destruct RR as (RR1 & _ & RR3 & _).
  assert (CV : connect_hop_valid body && (2 <=? used_channels (slice body 28 5))
               = ChanMapSpec.valid_hop (N.land (byte body 33) 31) && ChanMapSpec.valid_map (slice body 28 5)).
  { unfold connect_hop_valid, used_channels, ChanMapSpec.valid_hop, ChanMapSpec.valid_map. f_equal.
    destruct (Nat.leb_spec 2 (ChanMapSpec.num_used (slice body 28 5))); lia. }
  subst rch. destruct (ChanMapSpec.valid_hop _ && ChanMapSpec.valid_map _) eqn:VM.
  2:{ (* map / hop refused *)
      inversion E; subst. cbn [find_ce fold_left]. rewrite PI. replace (connect_valid body) with (connect_timing_valid body && (connect_hop_valid body && (2 <=? used_channels (slice body 28 5)))) by (unfold connect_valid; rewrite andb_assoc; reflexivity). rewrite CV. rewrite (andb_false_r (connect_timing_valid body)). cbn [andb].
      exists p. split; [reflexivity|]. split; [unfold Glob in *; cbn; auto 10|rewrite Same; unfold in_connection; cbn [st set_chan]; rewrite S; reflexivity]. }
  destruct (parse_connect body) as [t ok] eqn:EP.
  destruct ok as [[|]|].
  3:{ exfalso. unfold parse_connect in EP. inversion EP as [[Et Eo]]. destruct (_ <=? _) in Eo; [|discriminate]. exact (check_timing_total _ Eo). }
  2:{ (* timing refused *)
      inversion E; subst. cbn [find_ce fold_left]. rewrite PI.
      assert (NV : connect_timing_valid body = false).
      { destruct (connect_timing_valid body) eqn:V; [|reflexivity]. pose proof (check_timing_of_valid body V) as X. rewrite EP in X. discriminate X. }
      unfold connect_valid. rewrite NV. cbn [andb].
      exists p. split; [reflexivity|]. split; [unfold Glob in *; cbn; auto 10|rewrite Same; unfold in_connection; cbn [st set_tm set_chan]; rewrite S; reflexivity]. }
  (* accepted *)
  assert (PT : tw_off t = (rd16 body 20 + 1) * 1250 /\ tw_size t = byte body 19 * 1250 /\ interval t = rd16 body 22 * 1250
               /\ latency t = rd16 body 24 /\ conn_timeout t = rd16 body 26 * 10000 /\ check_timing t = Some true
               /\ rd16 body 20 * 1250 <= interval t).
  { unfold parse_connect in EP. injection EP as Et Eo. destruct (_ <=? _) eqn:Ew in Eo; [|discriminate]. subst t.
    repeat split; try exact Eo; unfold GenLL.us_per_digits in *; cbn [tw_off tw_size interval latency conn_timeout] in *; lia. }
  destruct PT as (T1 & T2 & T3 & T4 & T5 & T6 & T7).
  pose proof (check_timing_true t T6) as (C1 & (C2 & C2') & (C3 & C3') & C4 & (C5 & C5') & C6).
  match type of E with (do r11 <- setup_next_connection_event ?X; _) = _ => set (s10 := X) in * end.
  destruct (setup_next_connection_event s10) as [[s11 it11]|] eqn:E11; cbn [obind] in E; [|discriminate].
  pose proof (sca_table_le body) as SL.
  destruct (window_covers s10 s11 it11) as (chn & ws & we & Eit & Ecov); [| |exact E11|].
  { subst s10. cbn [tsle cs set_cs upd_ac set_ac upd_bf set_bf set_proc_timeout set_disc_reason set_pending_event upd_pr set_pr set_used_features set_sca set_st tm set_tm tw_off tw_size].
    unfold time_bound. rewrite T1. clear - T7 C2' C3'. lia. }
  { subst s10. cbn [sca upd_ac set_ac upd_bf set_bf set_proc_timeout set_disc_reason set_pending_event upd_pr set_pr set_used_features set_sca]. lia. }
  apply setup_next_frame in E11. destruct E11 as [E11 _].
  destruct (LLProofsC27Sim.push_event_form c (upd_sc s11 (fun x => set_is_enc x false)) (EvRequested (details_of (upd_sc s11 (fun x => set_is_enc x false))))) as [rr Er].
  rewrite Er in E. cbn [flush_events] in E. inversion E; subst s' it2; clear E.
  cbn [ring set_ring]. rewrite Eit.
  change (IAa (rd32 body 12) (rd24 body 16) :: [ICe chn ws we (interval (tm s10))] ++ map ICb rr)
    with ([IAa (rd32 body 12) (rd24 body 16)] ++ ICe chn ws we (interval (tm s10)) :: map ICb rr).
  rewrite (find_ce_pick _ _ _ _ _ _ (noce22_cbs rr)).
  assert (TV : connect_timing_valid body = true).
  { rewrite T4 in C1, C6. rewrite T3 in C2, C2', C4, C6, T7. rewrite T2 in C3, C3', C4. rewrite T5 in C5, C5', C6.
    unfold connect_timing_valid. clear - C1 C2 C2' C3 C3' C4 C5 C5' C6 T7. nia. }
  replace (connect_valid body) with (connect_timing_valid body && (connect_hop_valid body && (2 <=? used_channels (slice body 28 5)))) by (unfold connect_valid; rewrite andb_assoc; reflexivity).
  rewrite TV, CV. cbn [andb negb].
  assert (Ei : interval (tm s10) = rd16 body 22 * 1250) by (subst s10; exact T3). rewrite Ei, N.eqb_refl. cbn [negb].
  assert (Ea : sca_ppm (N.land (N.shiftr (byte body 33) 5) 7) + c_sca c = sca s10) by (subst s10; reflexivity).
  rewrite Ea.
  assert (Eo : (rd16 body 20 + 1) * 1250 = tw_off (tm s10)) by (subst s10; symmetry; exact T1).
  assert (Es : byte body 19 * 1250 = tw_size (tm s10)) by (subst s10; symmetry; exact T2).
  rewrite Eo, Es.
  assert (Z : (tw_size (tm s10) =? 0) = false) by (rewrite <- Es; rewrite T2 in C3; clear - C3; lia).
  rewrite Z in Ecov. replace (tsle (cs s10)) with 0 in Ecov by (subst s10; reflexivity). rewrite !N.add_0_l in Ecov.
  rewrite Ecov. cbn [negb].
  eexists. split; [reflexivity|].
  split.
  - unfold Glob. subst s11 s10. cbn. repeat split; try assumption. right. exact DN.
  - unfold T22. cbn [p_phase]. subst s11.
    split; [cbn; reflexivity|]. split; [|split; [|split; [subst s10; cbn; exact DN|]]].
    + unfold base22, timing_inv. subst s10. LLProofsC27Sim.psimp. repeat split; try reflexivity; try assumption; try (clear - T1 T7 C2'; lia); try (clear - SL Hc; lia).
    + subst s10. LLProofsC27Sim.psimp. rewrite T2. rewrite T2 in C3. clear - C3. lia.
    + exists 0. split; [subst s10; reflexivity|]. subst s10. LLProofsC27Sim.psimp. rewrite T3, T4, T5. reflexivity.
Qed.
(* ========================================================================================== one operation, any number *)
Lemma changed_details_cbs it rr : forallb (fun x => match x with EvChanged _ => false | _ => true end) rr = true ->
  changed_details (it ++ map ICb rr) = changed_details it.
Proof.
  intros H. unfold changed_details. rewrite fold_left_app.
  generalize (fold_left (fun a i => match i with ICb (EvChanged d) => Some d | _ => a end) it None) as o.
  induction rr as [|x rr IH]; intros o; [reflexivity|].
  cbn [forallb] in H. apply andb_prop in H. destruct H as [H1 H2]. cbn [map fold_left].
  destruct x; try discriminate H1; apply IH; exact H2.
Qed.

Lemma has_adv22_cbs rr : has_adv22 (map ICb rr) = false.
Proof. induction rr; [reflexivity|assumption]. Qed.

Lemma norm_ok22 c l : forallb (pdu_ok22 c) l = true -> normalise21 l = l.
Proof.
  induction l as [|[llid b] t IH]; [reflexivity|]. cbn [forallb]. intros H. apply andb_prop in H. destruct H as [H1 H2].
  rewrite normalise21_cons, (IH H2). unfold pdu_ok22 in H1. cbn [fst snd] in H1.
  apply andb_prop in H1. destruct H1 as [H1 _]. apply andb_prop in H1. destruct H1 as [L3 NE]. apply N.eqb_eq in L3. subst llid.
  unfold norm1. cbn [fst snd]. rewrite NE. reflexivity.
Qed.
Lemma pdus_ok22_norm c pdus :
  match pdus with [] => true | _ => negb (c_enc c) && forallb (pdu_ok22 c) pdus end = true ->
  normalise21 pdus = [] \/ (c_enc c = false /\ forallb (nq c) (normalise21 pdus) = true).
Proof.
  destruct pdus as [|p t]; [left; reflexivity|]. intros H. right. apply andb_prop in H. destruct H as [E H].
  split; [apply negb_true_iff; exact E|]. rewrite (norm_ok22 c _ H).
  revert H. generalize (p :: t). induction l as [|x l IH]; [reflexivity|]. cbn [forallb]. intros H. apply andb_prop in H. destruct H as [H1 H2].
  rewrite (IH H2), andb_true_r. unfold pdu_ok22 in H1. apply andb_prop in H1. exact (proj2 H1).
Qed.
Lemma pdus_ok22_updates c pdus :
  match pdus with [] => true | _ => negb (c_enc c) && forallb (pdu_ok22 c) pdus end = true -> updates_of pdus = [].
Proof.
  destruct pdus as [|p t]; [reflexivity|]. intros H. apply andb_prop in H. destruct H as [_ H].
  revert H. generalize (p :: t). induction l as [|[llid b] l IH]; [reflexivity|]. cbn [forallb]. intros H. apply andb_prop in H. destruct H as [H1 H2].
  unfold updates_of in *. cbn [flat_map]. rewrite (IH H2), app_nil_r.
  unfold pdu_ok22, nq in H1. cbn [fst snd] in H1.
  apply andb_prop in H1. destruct H1 as [_ H1]. apply andb_prop in H1. destruct H1 as [H1 _]. apply andb_prop in H1. destruct H1 as [_ H1].
  unfold classify21 in H1. cbn [N.eqb Pos.eqb negb] in H1.
  destruct ((N.of_nat (length b) =? 12) && (byte b 0 =? 0)) eqn:E; [discriminate H1|].
  rewrite <- andb_assoc, E, andb_false_r. reflexivity.
Qed.

Lemma pdus_ok22_cases c pdus :
  match pdus with
  | [] => true
  | _ => negb (c_enc c) && (forallb (pdu_ok22 c) pdus || (c_cb c && match pdus with [u] => upd_ok22 u | _ => false end))
  end = true ->
  (updates_of pdus = [] /\ (normalise21 pdus = [] \/ (c_enc c = false /\ forallb (nq c) (normalise21 pdus) = true)))
  \/ (c_enc c = false /\ c_cb c = true /\ exists b, pdus = [(3, b)] /\ length b = 12%nat /\ byte b 0 = 0).
Proof.
  intros H. destruct pdus as [|p0 t0] eqn:EP; [left; split; [reflexivity|left; reflexivity]|]. rewrite <- EP in *.
  apply andb_prop in H. destruct H as [E H]. apply orb_prop in H. destruct H as [H|H].
  - left. assert (X : match pdus with [] => true | _ => negb (c_enc c) && forallb (pdu_ok22 c) pdus end = true)
      by (rewrite EP; rewrite <- EP; rewrite E, H; reflexivity).
    split; [exact (pdus_ok22_updates c pdus X)|exact (pdus_ok22_norm c pdus X)].
  - right. apply andb_prop in H. destruct H as [CB H]. split; [apply negb_true_iff; exact E|]. split; [exact CB|].
    rewrite EP in *. destruct t0; [|discriminate H]. destruct p0 as [llid b]. unfold upd_ok22 in H. cbn [fst snd] in H.
    apply andb_prop in H. destruct H as [H B0]. apply andb_prop in H. destruct H as [L3 L]. apply N.eqb_eq in L3, L, B0. subst llid.
    exists b. split; [reflexivity|]. split; [clear - L; lia|exact B0].
Qed.

Lemma fold_changed_q22 pre : forallb q22 pre = true ->
  fold_left (fun a i => match i with ICb (EvChanged d) => Some d | _ => a end) pre None = None.
Proof.
  induction pre as [|i t IH]; [reflexivity|]. cbn [forallb fold_left]. intros H. apply andb_prop in H. destruct H as [H1 H2].
  destruct i as [? ?|?|? ?|? ? ? ?|? ?|?|?|cbv|?| |? ?|? ? ?|? ? ? ? ? ? ? ? ?]; try (apply IH; exact H2). destruct cbv; try (apply IH; exact H2). discriminate H1.
Qed.
Lemma views22 pre ch ws we iv rr : forallb q22 pre = true -> forallb nochg rr = true ->
  has_adv22 (pre ++ ICe ch ws we iv :: map ICb rr) = false
  /\ find_ce (pre ++ ICe ch ws we iv :: map ICb rr) = Some (ch, ws, we, iv)
  /\ changed_details (pre ++ ICe ch ws we iv :: map ICb rr) = None.
Proof.
  intros Q R. split; [|split].
  - unfold has_adv22. rewrite existsb_app. cbn [existsb orb]. fold (has_adv22 (map ICb rr)). rewrite has_adv22_cbs, orb_false_r.
    induction pre as [|i t IH]; [reflexivity|]. cbn [forallb] in Q. apply andb_prop in Q. destruct Q as [Q1 Q2]. cbn [existsb]. rewrite (IH Q2), orb_false_r.
    destruct i; try reflexivity; discriminate Q1.
  - apply find_ce_pick. apply noce22_cbs.
  - unfold changed_details. rewrite fold_left_app, (fold_changed_q22 pre Q).
    change (ICe ch ws we iv :: map ICb rr) with ([ICe ch ws we iv] ++ map ICb rr).
    fold (changed_details ([ICe ch ws we iv] ++ map ICb rr)). rewrite (changed_details_cbs _ rr R). reflexivity.
Qed.

Lemma refusal22_inv s pdus : refusal22 s pdus = true ->
  deferred s = None /\ tx_avail (bf s) = true /\
  exists b, pdus = [(3, b)] /\ length b = 12%nat /\ byte b 0 = 0 /\ instant_passed_update (rd16 b 10) (evc (cs s)) = true.
Proof.
  unfold refusal22. intros H. apply andb_prop in H. destruct H as [H H3]. apply andb_prop in H. destruct H as [H1 H2].
  split; [destruct (deferred s); [discriminate H1|reflexivity]|]. split; [exact H2|].
  destruct pdus as [|[llid b] [|? ?]]; try discriminate H3. apply andb_prop in H3. destruct H3 as [U IP].
  unfold upd_ok22 in U. cbn [fst snd] in U, IP. apply andb_prop in U. destruct U as [U B0]. apply andb_prop in U. destruct U as [L3 L].
  apply N.eqb_eq in L3, L, B0. subst llid. exists b. split; [reflexivity|]. split; [clear - L; lia|]. split; [exact B0|exact IP].
Qed.

Lemma still22_ev s e pdus s' : refusal22 s pdus = false -> still22 s (Ev e pdus) s' = true ->
  (exists b, deferred s = Some b /\ (st s' = ConnChanged \/ in_connection s' = false))
  \/ (deferred s <> None \/ updates_of pdus <> [] -> deferred s' <> None).
Proof.
  cbn [still22]. intros RF H. rewrite RF in H. cbn [orb] in H.
  destruct (deferred s') as [d'|] eqn:D'; [right; intros _; discriminate|].
  destruct (deferred s) as [b|] eqn:D.
  - left. exists b. split; [reflexivity|]. cbn [is_some22 orb andb] in H. apply orb_prop in H. destruct H as [H|H];
    [left; destruct (st s'); try discriminate H; reflexivity|right; apply negb_true_iff; exact H].
  - right. intros [Y|Y]; [congruence|]. exfalso. cbn [is_some22 orb andb] in H. destruct (updates_of pdus); [apply Y; reflexivity|discriminate H].
Qed.

Lemma views22c pre ch ws we iv d : forallb q22 pre = true ->
  has_adv22 (pre ++ ICe ch ws we iv :: map ICb [EvChanged d]) = false
  /\ find_ce (pre ++ ICe ch ws we iv :: map ICb [EvChanged d]) = Some (ch, ws, we, iv)
  /\ changed_details (pre ++ ICe ch ws we iv :: map ICb [EvChanged d]) = Some d.
Proof.
  intros Q. split; [|split].
  - unfold has_adv22. rewrite existsb_app. cbn [existsb map orb]. rewrite orb_false_r.
    induction pre as [|i t IH]; [reflexivity|]. cbn [forallb] in Q. apply andb_prop in Q. destruct Q as [Q1 Q2]. cbn [existsb]. rewrite (IH Q2), orb_false_r.
    destruct i; try reflexivity; discriminate Q1.
  - apply find_ce_pick. apply noce22_cbs.
  - unfold changed_details. rewrite fold_left_app, (fold_changed_q22 pre Q). reflexivity.
Qed.

Lemma search_k_witness a s e off size iv : forall n j,
  (1 <= j)%nat -> (j <= n)%nat -> covers a s e (N.of_nat j * iv + off) (N.of_nat j * iv + off + size) = true ->
  search_k a s e off size iv n = true.
Proof.
  induction n as [|n IH]; intros j J1 J2 C; [lia|]. cbn [search_k].
  destruct (Nat.eq_dec j (S n)) as [->|NE]; [rewrite C; reflexivity|].
  rewrite (IH j J1 ltac:(lia) C). apply orb_true_r.
Qed.

Theorem sim22_step c s p o s' r :
  cfg_ok22 c = true -> Sim22 c s p -> op_ok22 c o = true -> lstep c s o = (s', r) -> r <> OCrash -> calm22 s' = true ->
  still22 s o s' = true ->
  exists p', mstep22 c p o r = (Ok, p') /\ Sim22 c s' p'.
Proof.
  intros Hc [HG HT] Ho H Hr HX0 HS0.
  assert (HX : rxq (bf s') = []) by (unfold calm22 in HX0; destruct (rxq (bf s')); [reflexivity|discriminate]). pose proof HG as (G1 & G2 & G3 & G4 & G5).
  destruct (p_phase p) eqn:PH.
  - (* not connected *)
    assert (NI : in_connection s = false) by (unfold T22 in HT; rewrite PH in HT; exact HT).
    assert (Same : forall x, T22 (c_cb c) x p = (in_connection x = false)) by (intros x; unfold T22; rewrite PH; reflexivity).
    assert (DN : deferred s = None) by (destruct G5 as [X|X]; [congruence|exact X]).
    destruct o; try discriminate Ho.
    + (* Run *) cbn [lstep] in H. destruct (st s) eqn:S; try (exfalso; unfold in_connection in NI; rewrite S in NI; discriminate NI); inversion H; subst; exists p; (split; [reflexivity|]);
        (split; [unfold Glob; cbn; auto 10|rewrite Same; unfold in_connection; cbn; rewrite ?S; reflexivity]).
    + (* AdvTimeout *) cbn [lstep] in H. destruct (st s) eqn:S; try (exfalso; unfold in_connection in NI; rewrite S in NI; discriminate NI); inversion H; subst; exists p; (split; [reflexivity|]);
        (split; [unfold Glob; cbn; auto 10|rewrite Same; unfold in_connection; cbn; rewrite ?S; reflexivity]).
    + (* Adv *) apply (adv22 c s hdr0 body s' r p Hc HG NI PH H Hr).
    + (* Ev *) cbn [lstep] in H. rewrite NI in H. inversion H; subst. exists p. split; [reflexivity|]. split; [exact HG|exact HT].
    + (* Timeout *) cbn [lstep] in H. rewrite NI in H. inversion H; subst. exists p. split; [reflexivity|]. split; [exact HG|exact HT].
    + (* TxAvail *) inversion H; subst. exists p. split; [reflexivity|]. split; [unfold Glob; cbn; auto 10|rewrite Same; exact NI].
    + (* Key *) inversion H; subst. exists p. split; [reflexivity|]. split; [unfold Glob; cbn; auto 10|rewrite Same; exact NI].
    + (* St *) inversion H; subst. exists p. split; [reflexivity|]. split; [exact HG|exact HT].
  - (* connecting *)
    unfold T22 in HT. rewrite PH in HT. destruct HT as (Hst & HB & HZ & DN & k & Hk & Ep).
    assert (CB : deferred s <> None -> c_cb c = true) by (intros Y; congruence).
    assert (PE : pend22 s = []) by (unfold pend22; rewrite DN; reflexivity).
    assert (Hst' : live22 s) by (left; exact Hst).
    pose proof (in_conn_of3 s Hst') as IC.
    pose proof HB as (B1 & B3 & B4 & B5 & B6 & B7 & BT). pose proof BT as (I1 & I2 & I3 & I4 & I5 & I6 & I7 & I8 & I9).
    destruct o; try discriminate Ho.
    + cbn [lstep] in H. rewrite Hst in H. inversion H; subst s' r. exists p. split; [reflexivity|]. split; [exact HG|]. unfold T22. rewrite PH. eauto 10.
    + cbn [lstep] in H. rewrite Hst in H. inversion H; subst s' r. exists p. split; [reflexivity|]. split; [exact HG|]. unfold T22. rewrite PH. eauto 10.
    + cbn [lstep] in H. rewrite Hst in H. inversion H; subst s' r. exists p. split; [reflexivity|]. split; [exact HG|]. unfold T22. rewrite PH. eauto 10.
    + (* Ev *)
      cbn [op_ok22] in Ho. apply andb_prop in Ho. destruct Ho as [HL HPd]. apply negb_true_iff in HL.
      pose proof (pdus_ok22_cases c pdus HPd) as HPc.
      assert (HPn : (updates_of pdus = [] /\ (normalise21 pdus = [] \/ (c_enc c = false /\ forallb (nq c) (normalise21 pdus) = true)))
                    \/ (c_enc c = false /\ exists b, pdus = [(3, b)] /\ length b = 12%nat /\ byte b 0 = 0))
        by (destruct HPc as [X|(X1 & _ & X2)]; [left; exact X|right; split; [exact X1|exact X2]]).
      destruct (refusal22 s pdus) eqn:RF.
      { (* the update is refused: the link is dropped, advertising again *)
        destruct (refusal22_inv s pdus RF) as (DS0 & TA0 & b0 & -> & L0 & B00 & IP0).
        assert (Enc0 : c_enc c = false).
        { destruct HPc as [[HU _]|(X & _)]; [|exact X]. exfalso. unfold updates_of in HU. cbn [flat_map fst snd] in HU. rewrite L0, B00 in HU. discriminate HU. }
        destruct (refused_event c s evts s' r b0 Hst' HB HG Enc0 HL L0 B00 DS0 TA0 IP0 H Hr) as (it0 & Er0 & Ha0 & NI0 & HG0).
        subst r p. unfold mstep22. cbn [p_phase]. rewrite Ha0. eexists. split; [reflexivity|]. split; [exact HG0|exact NI0]. }
      destruct (still22_ev s evts pdus s' RF HS0) as [(b0 & DS0 & _)|HK]; [congruence|].
      destruct (neutral_event c s evts pdus s' r Hst' HB HG HL HPn H Hr HX HK) as (kk & ch & ws & we & pre & rr & Er & QP & RR & K1 & K2 & KT & Esum & Ecov & S1 & TM1 & A1 & HB1 & HG1 & EPD & ESH).
      assert (SH' : forall x, deferred s' = Some x -> byte x 0 = 0) by (intros x Hx; destruct (ESH x Hx) as [Y|Y]; [congruence|exact Y]).
      assert (CB' : deferred s' <> None -> c_cb c = true).
      { intros Y. destruct HPc as [[HU _]|(_ & CBt & _)]; [|exact CBt]. apply CB. intros DN'. apply Y.
        assert (X : pend22 s' = []) by (rewrite EPD, HU; unfold pend22; rewrite DN'; reflexivity).
        unfold pend22 in X. destruct (deferred s'); [discriminate X|reflexivity]. }
      assert (CBX : negb (c_cb c) && match pend22 s' with _ :: _ => true | [] => false end = false).
      { destruct (deferred s') as [d|] eqn:DS'; [rewrite (CB' ltac:(discriminate)); reflexivity|unfold pend22; rewrite DS'; apply andb_false_r]. }
      destruct (views22 pre ch ws we (interval (tm s)) rr QP RR) as (VA & VF & VC).
      subst r p. unfold mstep22. cbn [p_phase p_stop p_upd p_interval p_latency p_timeout p_a p_off p_size p_t p_missed].
      rewrite VA, VF, VC. rewrite PE in EPD. rewrite <- EPD. rewrite CBX.
      rewrite N.eqb_refl. cbn [negb].
      rewrite Esum, KT.
      replace ((2 * (kk * interval (tm s))) mod 2 =? 0) with true by (symmetry; apply N.eqb_eq; rewrite (N.mul_comm 2); apply N.mod_mul; discriminate).
      cbn [negb]. replace (2 * (kk * interval (tm s)) / 2) with (kk * interval (tm s)) by (symmetry; rewrite (N.mul_comm 2); apply N.div_mul; discriminate).
      replace ((kk * interval (tm s)) mod interval (tm s) =? 0) with true by (symmetry; apply N.eqb_eq; apply N.mod_mul; clear - I2; lia).
      cbn [orb negb].
      replace ((interval (tm s) <=? kk * interval (tm s)) && (kk * interval (tm s) <=? (latency (tm s) + 1) * interval (tm s))) with true
        by (symmetry; apply andb_true_intro; split; apply N.leb_le; [clear - K1; nia|apply N.mul_le_mono_r; exact K2]).
      cbn [negb]. rewrite <- KT. rewrite Ecov. cbn [negb].
      eexists. split; [reflexivity|]. split; [exact HG1|].
      unfold T22. cbn [p_phase]. split; [exact S1|]. split; [exact HB1|]. split; [rewrite TM1; reflexivity|].
      exists 0. split; [rewrite TM1, A1; reflexivity|split; [exact CB'|exact SH']].
    + (* Timeout *)
      pose proof (missed_event c s s' r Hst' HB HG H Hr) as ME.
      assert (EL : lost22 s = (conn_timeout (tm s) <=? tsle (cs s)) || (true && (5 <=? k))).
      { unfold lost22. rewrite Hst. cbn [lstate_eqb andb]. f_equal. rewrite Hk. clear - I2.
        destruct (5 <=? k) eqn:E; [apply N.leb_le; apply N.leb_le in E; nia|apply N.leb_gt; apply N.leb_gt in E; nia]. }
      subst p. unfold mstep22. cbn [p_phase p_stop p_upd p_interval p_latency p_timeout p_a p_off p_size p_t p_missed].
      destruct (lost22 s) eqn:L.
      * destruct ME as (it & Er & Ha & NI' & HG'). subst r. rewrite Ha, <- EL. cbn [negb]. rewrite andb_false_r.
        eexists. split; [reflexivity|]. split; [exact HG'|exact NI'].
      * destruct ME as [[Dn _]|(ch & ws & we & Er & ED & S1 & TM1 & A1 & KT & Ecov & _ & HB1 & HG1)]; [congruence|]. subst r.
        cbn [has_adv22 existsb changed_details fold_left find_ce]. rewrite <- EL. cbn [negb].
        rewrite N.eqb_refl. cbn [negb].
        replace (tw_size (tm s) =? 0) with false in Ecov by (symmetry; apply N.eqb_neq; exact HZ).
        rewrite KT in Ecov.
        replace (tsle (cs s) + interval (tm s) + (tw_off (tm s) + tw_size (tm s))) with (tsle (cs s) + interval (tm s) + tw_off (tm s) + tw_size (tm s)) in Ecov by (clear; lia).
        cbn [orb]. rewrite Ecov. cbn [negb].
        eexists. split; [reflexivity|]. split; [exact HG1|].
        unfold T22. cbn [p_phase]. split; [rewrite S1; exact Hst|]. split; [exact HB1|]. split; [rewrite TM1; exact HZ|]. split; [rewrite ED; exact DN|].
        exists (k + 1). rewrite TM1, A1, KT. split; [rewrite Hk; clear; lia|reflexivity].
    + inversion H; subst s' r. exists p. split; [reflexivity|]. split; [unfold Glob; cbn; auto 10|]. unfold T22. rewrite PH.
      split; [exact Hst|]. split; [unfold base22; cbn; auto 10|]. split; [exact HZ|]. split; [exact DN|]. exists k. split; [exact Hk|exact Ep].
    + inversion H; subst s' r. exists p. split; [reflexivity|]. split; [unfold Glob; cbn; auto 10|]. unfold T22. rewrite PH.
      split; [exact Hst|]. split; [unfold base22; cbn; auto 10|]. split; [exact HZ|]. split; [exact DN|]. exists k. split; [exact Hk|exact Ep].
    + inversion H; subst s' r. exists p. split; [reflexivity|]. split; [exact HG|]. unfold T22. rewrite PH. eauto 10.
  - (* connected *)
    unfold T22 in HT. rewrite PH in HT. destruct HT as (Hst & HB & HZ & k & Ep & CB & SH).
    assert (Hst' : live22 s) by (right; left; exact Hst).
    pose proof (in_conn_of3 s Hst') as IC.
    pose proof HB as (B1 & B3 & B4 & B5 & B6 & B7 & BT). pose proof BT as (I1 & I2 & I3 & I4 & I5 & I6 & I7 & I8 & I9).
    destruct o; try discriminate Ho.
    + cbn [lstep] in H. rewrite Hst in H. inversion H; subst s' r. exists p. split; [reflexivity|]. split; [exact HG|]. unfold T22. rewrite PH. eauto 10.
    + cbn [lstep] in H. rewrite Hst in H. inversion H; subst s' r. exists p. split; [reflexivity|]. split; [exact HG|]. unfold T22. rewrite PH. eauto 10.
    + cbn [lstep] in H. rewrite Hst in H. inversion H; subst s' r. exists p. split; [reflexivity|]. split; [exact HG|]. unfold T22. rewrite PH. eauto 10.
    + (* Ev *)
      cbn [op_ok22] in Ho. apply andb_prop in Ho. destruct Ho as [HL HPd]. apply negb_true_iff in HL.
      pose proof (pdus_ok22_cases c pdus HPd) as HPc.
      assert (HPn : (updates_of pdus = [] /\ (normalise21 pdus = [] \/ (c_enc c = false /\ forallb (nq c) (normalise21 pdus) = true)))
                    \/ (c_enc c = false /\ exists b, pdus = [(3, b)] /\ length b = 12%nat /\ byte b 0 = 0))
        by (destruct HPc as [X|(X1 & _ & X2)]; [left; exact X|right; split; [exact X1|exact X2]]).
      destruct (refusal22 s pdus) eqn:RF.
      { (* the update is refused: the link is dropped, advertising again *)
        destruct (refusal22_inv s pdus RF) as (DS0 & TA0 & b0 & -> & L0 & B00 & IP0).
        assert (Enc0 : c_enc c = false).
        { destruct HPc as [[HU _]|(X & _)]; [|exact X]. exfalso. unfold updates_of in HU. cbn [flat_map fst snd] in HU. rewrite L0, B00 in HU. discriminate HU. }
        destruct (refused_event c s evts s' r b0 Hst' HB HG Enc0 HL L0 B00 DS0 TA0 IP0 H Hr) as (it0 & Er0 & Ha0 & NI0 & HG0).
        subst r p. unfold mstep22. cbn [p_phase]. rewrite Ha0. eexists. split; [reflexivity|]. split; [exact HG0|exact NI0]. }
      destruct (still22_ev s evts pdus s' RF HS0) as [(b & DS & SCN)|HK].
      { destruct SCN as [SC|NI0].
        2:{ (* the waiting update is found invalid at its instant: the link is dropped *)
            destruct (dropped_event c s evts pdus s' r Hst HB HG HL ltac:(rewrite DS; discriminate) H Hr NI0) as (it0 & Er0 & Ha0 & HG0).
            subst r p. unfold mstep22. cbn [p_phase]. rewrite Ha0. eexists. split; [reflexivity|]. split; [exact HG0|exact NI0]. }
        (* the event at the instant of the waiting update *)
        assert (B0 : byte b 0 = 0) by exact (SH b DS).
        assert (CBt : c_cb c = true) by (apply CB; rewrite DS; discriminate).
        destruct (instant_event c s evts pdus s' r b Hst HB HG HZ HL DS B0 CBt H Hr HX SC)
          as (t & kk & ch & ws & we & pre & d & PU & Er & QP & D1 & D2 & D3 & K1 & K2 & Ecov & TM1 & A1 & HB1 & HG1 & DN1 & NP & TW1).
        destruct (parse_update_ok b t PU) as (CT & OI & T1 & T2 & T3 & T4 & T5 & T6).
        assert (HU : updates_of pdus = []).
        { destruct HPc as [[HU _]|(_ & _ & b2 & -> & L2 & _)]; [exact HU|]. exfalso. unfold normalise21 in NP. cbn [map filter fst snd] in NP. destruct b2; discriminate. }
        assert (PEs : pend22 s = [(byte b 1, rd16 b 2, rd16 b 4, rd16 b 6, rd16 b 8)]) by (unfold pend22; rewrite DS; reflexivity).
        destruct (views22c pre ch ws we (interval t) d QP) as (VA & VF & VC).
        subst r p. unfold mstep22. cbn [p_phase p_stop p_upd p_interval p_latency p_timeout p_a p_off p_size p_t p_missed].
        rewrite VA, VF, VC, HU, PEs. cbn [app]. rewrite CBt. cbn [negb andb].
        cbn [LLSpecC22.applied_update]. rewrite D1, D2, D3, !N.eqb_refl. cbn [andb].
        rewrite T3, N.eqb_refl. cbn [negb].
        rewrite (search_k_witness (sca s) ws we (rd16 b 2 * 1250) (byte b 1 * 1250) (interval (tm s)) (N.to_nat (latency (tm s) + 1 + k)) (N.to_nat kk)).
        2:{ clear - K1. lia. } 2:{ clear - K2. lia. }
        2:{ rewrite N2Nat.id, <- T1, <- T2, <- N.add_assoc. exact Ecov. }
        eexists. split; [reflexivity|]. split; [exact HG1|].
        unfold T22. cbn [p_phase]. split; [exact SC|]. split; [exact HB1|]. split; [rewrite TM1; clear - TW1; lia|]. split; [exact DN1|].
        rewrite TM1, A1, T1, T2, T3, T4, T6. reflexivity. }
      destruct (neutral_event c s evts pdus s' r Hst' HB HG HL HPn H Hr HX HK) as (kk & ch & ws & we & pre & rr & Er & QP & RR & K1 & K2 & KT & Esum & Ecov & S1 & TM1 & A1 & HB1 & HG1 & EPD & ESH).
      assert (SH' : forall x, deferred s' = Some x -> byte x 0 = 0) by (intros x Hx; destruct (ESH x Hx) as [Y|Y]; [exact (SH x Y)|exact Y]).
      assert (CB' : deferred s' <> None -> c_cb c = true).
      { intros Y. destruct HPc as [[HU _]|(_ & CBt & _)]; [|exact CBt]. apply CB. intros DN'. apply Y.
        assert (X : pend22 s' = []) by (rewrite EPD, HU; unfold pend22; rewrite DN'; reflexivity).
        unfold pend22 in X. destruct (deferred s'); [discriminate X|reflexivity]. }
      assert (CBX : negb (c_cb c) && match pend22 s' with _ :: _ => true | [] => false end = false).
      { destruct (deferred s') as [d|] eqn:DS'; [rewrite (CB' ltac:(discriminate)); reflexivity|unfold pend22; rewrite DS'; apply andb_false_r]. }
      destruct (views22 pre ch ws we (interval (tm s)) rr QP RR) as (VA & VF & VC).
      subst r p. unfold mstep22. cbn [p_phase p_stop p_upd p_interval p_latency p_timeout p_a p_off p_size p_t p_missed].
      rewrite VA, VF, VC. rewrite <- EPD. rewrite CBX.
      rewrite N.eqb_refl. cbn [negb].
      rewrite Esum, KT.
      replace ((2 * (kk * interval (tm s))) mod 2 =? 0) with true by (symmetry; apply N.eqb_eq; rewrite (N.mul_comm 2); apply N.mod_mul; discriminate).
      cbn [negb]. replace (2 * (kk * interval (tm s)) / 2) with (kk * interval (tm s)) by (symmetry; rewrite (N.mul_comm 2); apply N.div_mul; discriminate).
      replace ((kk * interval (tm s)) mod interval (tm s) =? 0) with true by (symmetry; apply N.eqb_eq; apply N.mod_mul; clear - I2; lia).
      cbn [orb negb].
      replace ((interval (tm s) <=? kk * interval (tm s)) && (kk * interval (tm s) <=? (latency (tm s) + 1) * interval (tm s))) with true
        by (symmetry; apply andb_true_intro; split; apply N.leb_le; [clear - K1; nia|apply N.mul_le_mono_r; exact K2]).
      cbn [negb]. rewrite <- KT. rewrite Ecov. cbn [negb].
      eexists. split; [reflexivity|]. split; [exact HG1|].
      unfold T22. cbn [p_phase]. split; [exact S1|]. split; [exact HB1|]. split; [rewrite TM1; reflexivity|].
      exists 0. split; [rewrite TM1, A1; reflexivity|split; [exact CB'|exact SH']].
    + (* Timeout *)
      pose proof (missed_event c s s' r Hst' HB HG H Hr) as ME.
      assert (EL : lost22 s = (conn_timeout (tm s) <=? tsle (cs s)) || (false && (5 <=? k))).
      { unfold lost22. rewrite Hst. reflexivity. }
      subst p. unfold mstep22. cbn [p_phase p_stop p_upd p_interval p_latency p_timeout p_a p_off p_size p_t p_missed].
      destruct (lost22 s) eqn:L.
      * destruct ME as (it & Er & Ha & NI' & HG'). subst r. rewrite Ha, <- EL. cbn [negb]. rewrite andb_false_r.
        eexists. split; [reflexivity|]. split; [exact HG'|exact NI'].
      * destruct ME as [[Dn D8]|(ch & ws & we & Er & ED & S1 & TM1 & A1 & KT & Ecov & Esum & HB1 & HG1)].
        { (* the instant falls on this missed event: timeout() applies the update *)
          destruct (deferred s) as [b|] eqn:DS; [|exfalso; apply Dn; reflexivity].
          cbn [still22] in HS0. rewrite DS, D8, L in HS0. cbn [is_some22 orb] in HS0.
          assert (SC : st s' = ConnChanged) by (destruct (st s'); cbn in HS0; try discriminate HS0; reflexivity).
          assert (B0 : byte b 0 = 0) by exact (SH b eq_refl).
          assert (CBt : c_cb c = true) by (apply CB; discriminate).
          assert (L' : lost22 s = false) by exact L.
          destruct (missed_instant c s s' r b Hst HB HG DS B0 CBt H Hr L' SC) as (t & ch & ws & we & d & PU & Er & D1 & D2 & D3 & TM1 & A1 & HB1 & HG1 & DN1 & TW1).
          destruct (parse_update_ok b t PU) as (CT & OI & T1 & T2 & T3 & T4 & T5 & T6).
          assert (PEs : pend22 s = [(byte b 1, rd16 b 2, rd16 b 4, rd16 b 6, rd16 b 8)]) by (unfold pend22; rewrite DS; reflexivity).
          subst r. rewrite PEs. cbn [has_adv22 existsb map orb changed_details fold_left].
          cbn [LLSpecC22.applied_update]. rewrite D1, D2, D3, !N.eqb_refl. cbn [andb].
          eexists. split; [reflexivity|]. split; [exact HG1|].
          unfold T22. cbn [p_phase]. split; [exact SC|]. split; [exact HB1|]. split; [rewrite TM1; clear - TW1; lia|]. split; [exact DN1|].
          rewrite TM1, A1, T1, T2, T3, T4, T6. reflexivity. }
        subst r.
        cbn [has_adv22 existsb changed_details fold_left find_ce]. rewrite <- EL. cbn [negb orb].
        rewrite N.eqb_refl. cbn [negb].
        rewrite HZ in Ecov. cbn [N.eqb] in Ecov. rewrite KT in Ecov. rewrite !N.add_0_r. rewrite !N.add_0_r in Ecov. rewrite Ecov. cbn [negb].
        rewrite (Esum HZ), KT.
        replace (2 * (tsle (cs s) + interval (tm s)) / 2) with (tsle (cs s) + interval (tm s)) by (symmetry; rewrite (N.mul_comm 2); apply N.div_mul; discriminate).
        rewrite N.eqb_refl. cbn [negb].
        eexists. split; [reflexivity|]. split; [exact HG1|].
        unfold T22. cbn [p_phase]. split; [rewrite S1; exact Hst|]. split; [exact HB1|]. split; [rewrite TM1; exact HZ|].
        exists (k + 1). split; [rewrite TM1, A1, KT; unfold pend22; rewrite ED; reflexivity|split; [rewrite ED; exact CB|rewrite ED; exact SH]].
    + inversion H; subst s' r. exists p. split; [reflexivity|]. split; [unfold Glob; cbn; auto 10|]. unfold T22. rewrite PH.
      split; [exact Hst|]. split; [unfold base22; cbn; auto 10|]. split; [exact HZ|]. exists k. split; [exact Ep|split; [exact CB|exact SH]].
    + inversion H; subst s' r. exists p. split; [reflexivity|]. split; [unfold Glob; cbn; auto 10|]. unfold T22. rewrite PH.
      split; [exact Hst|]. split; [unfold base22; cbn; auto 10|]. split; [exact HZ|]. exists k. split; [exact Ep|split; [exact CB|exact SH]].
    + inversion H; subst s' r. exists p. split; [reflexivity|]. split; [exact HG|]. unfold T22. rewrite PH. eauto 10.
  - (* between the instant of an update and the next packet *)
    unfold T22 in HT. rewrite PH in HT. destruct HT as (Hst & HB & HZ & DN & Ep).
    assert (CB : deferred s <> None -> c_cb c = true) by (intros Y; congruence).
    assert (PE : pend22 s = []) by (unfold pend22; rewrite DN; reflexivity).
    assert (Hst' : live22 s) by (right; right; exact Hst).
    pose proof (in_conn_of3 s Hst') as IC.
    pose proof HB as (B1 & B3 & B4 & B5 & B6 & B7 & BT). pose proof BT as (I1 & I2 & I3 & I4 & I5 & I6 & I7 & I8 & I9).
    destruct o; try discriminate Ho.
    + cbn [lstep] in H. rewrite Hst in H. inversion H; subst s' r. exists p. split; [reflexivity|]. split; [exact HG|]. unfold T22. rewrite PH. auto 10.
    + cbn [lstep] in H. rewrite Hst in H. inversion H; subst s' r. exists p. split; [reflexivity|]. split; [exact HG|]. unfold T22. rewrite PH. auto 10.
    + cbn [lstep] in H. rewrite Hst in H. inversion H; subst s' r. exists p. split; [reflexivity|]. split; [exact HG|]. unfold T22. rewrite PH. auto 10.
    + (* Ev *)
      cbn [op_ok22] in Ho. apply andb_prop in Ho. destruct Ho as [HL HPd]. apply negb_true_iff in HL.
      pose proof (pdus_ok22_cases c pdus HPd) as HPc.
      assert (HPn : (updates_of pdus = [] /\ (normalise21 pdus = [] \/ (c_enc c = false /\ forallb (nq c) (normalise21 pdus) = true)))
                    \/ (c_enc c = false /\ exists b, pdus = [(3, b)] /\ length b = 12%nat /\ byte b 0 = 0))
        by (destruct HPc as [X|(X1 & _ & X2)]; [left; exact X|right; split; [exact X1|exact X2]]).
      destruct (refusal22 s pdus) eqn:RF.
      { (* the update is refused: the link is dropped, advertising again *)
        destruct (refusal22_inv s pdus RF) as (DS0 & TA0 & b0 & -> & L0 & B00 & IP0).
        assert (Enc0 : c_enc c = false).
        { destruct HPc as [[HU _]|(X & _)]; [|exact X]. exfalso. unfold updates_of in HU. cbn [flat_map fst snd] in HU. rewrite L0, B00 in HU. discriminate HU. }
        destruct (refused_event c s evts s' r b0 Hst' HB HG Enc0 HL L0 B00 DS0 TA0 IP0 H Hr) as (it0 & Er0 & Ha0 & NI0 & HG0).
        subst r p. unfold mstep22. cbn [p_phase]. rewrite Ha0. eexists. split; [reflexivity|]. split; [exact HG0|exact NI0]. }
      destruct (still22_ev s evts pdus s' RF HS0) as [(b0 & DS0 & _)|HK]; [congruence|].
      destruct (neutral_event c s evts pdus s' r Hst' HB HG HL HPn H Hr HX HK) as (kk & ch & ws & we & pre & rr & Er & QP & RR & K1 & K2 & KT & Esum & Ecov & S1 & TM1 & A1 & HB1 & HG1 & EPD & ESH).
      assert (SH' : forall x, deferred s' = Some x -> byte x 0 = 0) by (intros x Hx; destruct (ESH x Hx) as [Y|Y]; [congruence|exact Y]).
      assert (CB' : deferred s' <> None -> c_cb c = true).
      { intros Y. destruct HPc as [[HU _]|(_ & CBt & _)]; [|exact CBt]. apply CB. intros DN'. apply Y.
        assert (X : pend22 s' = []) by (rewrite EPD, HU; unfold pend22; rewrite DN'; reflexivity).
        unfold pend22 in X. destruct (deferred s'); [discriminate X|reflexivity]. }
      assert (CBX : negb (c_cb c) && match pend22 s' with _ :: _ => true | [] => false end = false).
      { destruct (deferred s') as [d|] eqn:DS'; [rewrite (CB' ltac:(discriminate)); reflexivity|unfold pend22; rewrite DS'; apply andb_false_r]. }
      destruct (views22 pre ch ws we (interval (tm s)) rr QP RR) as (VA & VF & VC).
      subst r p. unfold mstep22. cbn [p_phase p_stop p_upd p_interval p_latency p_timeout p_a p_off p_size p_t p_missed].
      rewrite VA, VF, VC. rewrite PE in EPD. rewrite <- EPD. rewrite CBX.
      rewrite N.eqb_refl. cbn [negb].
      rewrite Esum, KT.
      replace ((2 * (kk * interval (tm s))) mod 2 =? 0) with true by (symmetry; apply N.eqb_eq; rewrite (N.mul_comm 2); apply N.mod_mul; discriminate).
      cbn [negb]. replace (2 * (kk * interval (tm s)) / 2) with (kk * interval (tm s)) by (symmetry; rewrite (N.mul_comm 2); apply N.div_mul; discriminate).
      replace ((kk * interval (tm s)) mod interval (tm s) =? 0) with true by (symmetry; apply N.eqb_eq; apply N.mod_mul; clear - I2; lia).
      cbn [orb negb].
      replace ((interval (tm s) <=? kk * interval (tm s)) && (kk * interval (tm s) <=? (latency (tm s) + 1) * interval (tm s))) with true
        by (symmetry; apply andb_true_intro; split; apply N.leb_le; [clear - K1; nia|apply N.mul_le_mono_r; exact K2]).
      cbn [negb]. rewrite <- KT. rewrite Ecov. cbn [negb].
      eexists. split; [reflexivity|]. split; [exact HG1|].
      unfold T22. cbn [p_phase]. split; [exact S1|]. split; [exact HB1|]. split; [rewrite TM1; reflexivity|].
      exists 0. split; [rewrite TM1, A1; reflexivity|split; [exact CB'|exact SH']].
    + (* Timeout *)
      pose proof (missed_event c s s' r Hst' HB HG H Hr) as ME.
      subst p. unfold mstep22. cbn [p_phase].
      destruct (lost22 s) eqn:L.
      * destruct ME as (it & Er & Ha & NI' & HG'). subst r. rewrite Ha. eexists. split; [reflexivity|]. split; [exact HG'|exact NI'].
      * destruct ME as [[Dn _]|(ch & ws & we & Er & ED & S1 & TM1 & A1 & KT & Ecov & _ & HB1 & HG1)]; [congruence|]. subst r.
        cbn [has_adv22 existsb orb]. eexists. split; [reflexivity|]. split; [exact HG1|].
        unfold T22. cbn [p_phase]. split; [rewrite S1; exact Hst|]. split; [exact HB1|]. split; [rewrite TM1; exact HZ|]. split; [rewrite ED; exact DN|].
        rewrite TM1, A1. reflexivity.
    + inversion H; subst s' r. exists p. split; [reflexivity|]. split; [unfold Glob; cbn; auto 10|]. unfold T22. rewrite PH.
      split; [exact Hst|]. split; [unfold base22; cbn; auto 10|]. split; [exact HZ|]. split; [exact DN|exact Ep].
    + inversion H; subst s' r. exists p. split; [reflexivity|]. split; [unfold Glob; cbn; auto 10|]. unfold T22. rewrite PH.
      split; [exact Hst|]. split; [unfold base22; cbn; auto 10|]. split; [exact HZ|]. split; [exact DN|exact Ep].
    + inversion H; subst s' r. exists p. split; [reflexivity|]. split; [exact HG|]. unfold T22. rewrite PH. auto 10.
Qed.

Lemma Sim22_init c : Sim22 c (linit c) (minit22 c).
Proof. split; [unfold Glob; cbn; auto 10|reflexivity]. Qed.

Theorem monitor22_accepts_env c : cfg_ok22 c = true ->
  forall ops s p, Sim22 c s p -> env22 c s ops = true -> mrun22 c p (lrun c s ops) = Ok.
Proof.
  intros Hc. induction ops as [|o t IH]; intros s p HS He; [reflexivity|].
  cbn [env22] in He. cbn [lrun]. destruct (lstep c s o) as [s1 r] eqn:E. cbn [fst snd] in He.
  apply andb_prop in He. destruct He as [He Ht]. apply andb_prop in He. destruct He as [He Hs]. apply andb_prop in He. destruct He as [He Hx]. apply andb_prop in He. destruct He as [Ho Hn].
  assert (Hr : r <> OCrash) by (intros ->; discriminate Hn).
  destruct (sim22_step c s p o s1 r Hc HS Ho E Hr Hx Hs) as (p1 & M1 & HS1).
  cbn [mrun22]. rewrite M1. apply IH; assumption.
Qed.

Theorem monitor22_accepts_partial c ops :
  cfg_ok22 c = true -> env22 c (linit c) ops = true -> accepts22 c (trace_of c ops).
Proof. intros Hc He. unfold accepts22, trace_of. apply (monitor22_accepts_env c Hc ops _ _ (Sim22_init c) He). Qed.

(* ========================================================================================== the converse, specification level *)
(* every CONNECT_IND that is addressed to this device and valid in the specification's sense (LLSpecC22.connect_valid:
   timing ranges, hop increment 5..16, at least two used channels) is accepted and the first connection event is scheduled
   with the requested interval *)
Theorem valid_request_accepted c s hdr0 body :
  c_sca c <= 500 -> length (ChanMapModel.tbl (chan s)) = 37%nat ->
  addressed_to_us c hdr0 body = true -> connect_valid body = true ->
  exists s' it, do_adv_received c s hdr0 body = Some (s', it) /\ st s' = Connecting /\
                exists chn ws we, In (ICe chn ws we (rd16 body 22 * 1250)) it.
Proof.
  intros Hc Lt Ha Hv. unfold connect_valid in Hv.
  apply andb_prop in Hv. destruct Hv as [Hv Hu]. apply andb_prop in Hv. destruct Hv as [Ht Hh].
  pose proof (addressed_len _ _ _ Ha) as Lb.
  assert (Lm : length (slice body 28 5) = 5%nat) by (apply slice_len; rewrite Lb; repeat constructor).
  pose proof (ChanMapProofs.reset_result (chan s) (slice body 28 5) (N.land (byte body 33) 31) Lm Lt) as R.
  destruct (ChanMapModel.reset_impl (chan s) (slice body 28 5) (N.land (byte body 33) 31)) as [ch r] eqn:E.
  destruct R as (Er & _).
  assert (Hr : r = ChanMapModel.OBool true).
  { rewrite Er. f_equal. apply andb_true_intro. split.
    - exact Hh.
    - unfold ChanMapSpec.valid_map. unfold used_channels in Hu. apply Nat.leb_le. apply N.leb_le in Hu. clear - Hu. lia. }
  clear Er. subst r. exact (valid_request_connects c s hdr0 body ch Hc Ha Ht E).
Qed.

(* ========================================================================================== two updates that look alike *)
(* Two connection updates with the same interval / latency / timeout and DIFFERENT transmit windows (offset 3 then 1):
   connection_changed reports the same three values twice.  The monitor judges the second instant against the second
   update's window (applied_update consumes what was applied); a trace in which the second instant's window sits at the
   FIRST update's offset is rejected.  (Regression of the false alarm at the thorough tier, docs/C22.md.) *)
Definition upd_pdu (wsz woff iv lat tmo inst : N) : pdu :=
  (3, [0; wsz; woff mod 256; woff / 256; iv mod 256; iv / 256; lat mod 256; lat / 256; tmo mod 256; tmo / 256; inst mod 256; inst / 256]).
Definition session22_like_updates : list lop :=
  [Run; connect_with 3 11 24 0 72; Ev 0 []; Ev 0 [upd_pdu 2 3 80 0 200 3]; Ev 0 []; Ev 0 []; Ev 0 [upd_pdu 2 1 80 0 200 8];
   Ev 0 []; Ev 0 []; Ev 0 []; Ev 0 []; Ev 0 []].
Definition shift_ce (d : N) (r : lout) : lout :=
  match r with
  | OItems it => OItems (map (fun i => match i with ICe ch s e iv => ICe ch (s + d) (e + d) iv | _ => i end) it)
  | _ => r
  end.
Fixpoint tamper (n : nat) (d : N) (tr : list (lop * lout)) : list (lop * lout) :=
  match tr, n with
  | [], _ => []
  | (o, r) :: t, O => (o, shift_ce d r) :: t
  | x :: t, S n' => x :: tamper n' d t
  end.
Lemma like_updates_both_applied :
  exists it1 it2 d,
    nth_error (trace_of cfg_base session22_like_updates) 4 = Some (Ev 0 [], OItems it1) /\ In (ICb (EvChanged d)) it1 /\
    nth_error (trace_of cfg_base session22_like_updates) 9 = Some (Ev 0 [], OItems it2) /\ In (ICb (EvChanged d)) it2.
Proof. vm_compute. do 3 eexists. split; [reflexivity|]. split; [simpl; tauto|]. split; [reflexivity|]. simpl; tauto. Qed.
Lemma like_updates_accepted : mrun22 cfg_base (minit22 cfg_base) (trace_of cfg_base session22_like_updates) = Ok.
Proof. vm_compute. reflexivity. Qed.
Lemma like_updates_wrong_window_rejected :
  mrun22 cfg_base (minit22 cfg_base) (tamper 9 2500 (trace_of cfg_base session22_like_updates)) = Bad 2.
Proof. vm_compute. reflexivity. Qed.

(* the extended environment is inhabited by a session with control PDUs: ping, version, feature request, an unknown opcode,
   LL_REJECT_IND, a connection parameter request, a malformed (short) connection update; the responses are on the air in
   the following events *)
Definition session22_pdus : list lop :=
  [Run; connect_with 3 11 24 0 72; Ev 0 []; Ev 0 [(3, [18])]; Ev 0 [(3, [12; 9; 1; 2; 3; 4])]; Ev 0 [(3, [8; 0; 0; 0; 0; 0; 0; 0; 0])];
   Timeout; Ev 0 [(3, [200]); (3, [13; 59])]; Ev 2 [(3, [0; 1; 2; 3])];
   Ev 0 [(3, [15; 24; 0; 24; 0; 0; 0; 72; 0; 0; 0; 0; 0; 0; 0; 0; 0; 0; 0; 0; 0; 0; 0; 0])]; Ev 0 []; Timeout; Ev 0 []].
Lemma session22_pdus_env : c_enc cfg_base = false /\ env22 cfg_base (linit cfg_base) session22_pdus = true.
Proof. vm_compute. split; reflexivity. Qed.

(* LAYER 1 is inhabited: an LL_CONNECTION_UPDATE_IND (interval 100 ms, instant 30) is delivered in the second event and waits
   for its instant through events, missed events and answered control PDUs... (PDUs delivered while it waits stay in the
   receive queue: outside) - the environment holds and the update is still deferred at the end *)
Definition session22_update_waiting : list lop :=
  [Run; connect_with 3 11 24 0 72; Ev 0 []; Ev 0 [upd_pdu 2 3 80 0 200 30]; Ev 0 []; Timeout; Ev 2 []; Ev 0 []; Timeout; Timeout; Ev 0 []].
Lemma session22_update_waiting_env :
  env22 cfg_base (linit cfg_base) session22_update_waiting = true
  /\ deferred (lfinal cfg_base (linit cfg_base) session22_update_waiting) = Some (snd (upd_pdu 2 3 80 0 200 30)).
Proof. vm_compute. split; reflexivity. Qed.

(* LAYER 2 is inhabited: the update (interval 100 ms, latency 0, timeout 2 s, window offset 3 / size 2, instant 6) is delivered
   in the second event, waits, is applied at its instant - connection_changed, transmit window - and the connection goes on
   with the new interval, through a missed event; a second, like update (offset 1) follows and is applied as well *)
Definition session22_update_applied : list lop :=
  [Run; connect_with 3 11 24 0 72; Ev 0 []; Ev 0 [upd_pdu 2 3 80 0 200 6]; Ev 0 []; Ev 0 []; Timeout; Ev 0 []; Ev 0 []; Ev 0 [];
   Ev 0 []; Timeout; Ev 0 [(3, [18])]; Ev 0 [upd_pdu 2 1 80 0 200 14]; Ev 0 []; Ev 0 []; Ev 0 []; Ev 0 []; Ev 0 []; Ev 0 []].
Lemma session22_update_applied_env :
  env22 cfg_base (linit cfg_base) session22_update_applied = true
  /\ interval (tm (lfinal cfg_base (linit cfg_base) session22_update_applied)) = 100000
  /\ deferred (lfinal cfg_base (linit cfg_base) session22_update_applied) = None
  /\ (exists it d, nth_error (trace_of cfg_base session22_update_applied) 7 = Some (Ev 0 [], OItems it) /\ In (ICb (EvChanged d)) it).
Proof. vm_compute. split; [reflexivity|]. split; [reflexivity|]. split; [reflexivity|]. do 2 eexists. split; [reflexivity|]. simpl. tauto. Qed.

(* the instant (5) of the update falls on a MISSED event: timeout() applies it *)
Definition session22_instant_missed : list lop :=
  [Run; connect_with 3 11 24 0 72; Ev 0 []; Ev 0 [upd_pdu 2 3 80 0 200 5]; Ev 0 []; Ev 0 []; Timeout; Timeout; Ev 0 []; Ev 0 []].
Lemma session22_instant_missed_env :
  env22 cfg_base (linit cfg_base) session22_instant_missed = true
  /\ interval (tm (lfinal cfg_base (linit cfg_base) session22_instant_missed)) = 100000
  /\ (exists it d, nth_error (trace_of cfg_base session22_instant_missed) 6 = Some (Timeout, OItems it) /\ In (ICb (EvChanged d)) it).
Proof. vm_compute. split; [reflexivity|]. split; [reflexivity|]. do 2 eexists. split; [reflexivity|]. simpl. tauto. Qed.

(* a refused update: its instant (1) has passed when it is delivered in event 2 - the link is dropped with 0x28, advertising
   starts again, a new connection follows *)
Definition session22_update_refused : list lop :=
  [Run; connect_with 3 11 24 0 72; Ev 0 []; Ev 0 []; Ev 0 [upd_pdu 2 3 80 0 200 1]; AdvTimeout; connect_with 3 11 24 0 72; Ev 0 []; Timeout; Ev 0 []].
Lemma session22_update_refused_env :
  env22 cfg_base (linit cfg_base) session22_update_refused = true
  /\ (exists it, nth_error (trace_of cfg_base session22_update_refused) 4 = Some (Ev 0 [upd_pdu 2 3 80 0 200 1], OItems it)
                 /\ In (ICb (EvClosed 40)) it /\ has_adv22 it = true).
Proof. vm_compute. split; [reflexivity|]. eexists. split; [reflexivity|]. split; [simpl; tauto|reflexivity]. Qed.

(* an update with an invalid interval (5 < 6): it waits like any other and is found invalid at its instant (5), in a connection
   event: the link is dropped (the reason is 0x08 - low severity finding; C22's monitor does not judge the reason of a drop
   that ends a connection event), advertising starts again *)
Definition session22_update_invalid : list lop :=
  [Run; connect_with 3 11 24 0 72; Ev 0 []; Ev 0 [upd_pdu 2 3 5 0 200 5]; Ev 0 []; Ev 0 []; Ev 0 []; AdvTimeout; connect_with 3 11 24 0 72; Ev 0 []].
Lemma session22_update_invalid_env :
  env22 cfg_base (linit cfg_base) session22_update_invalid = true
  /\ (exists it, nth_error (trace_of cfg_base session22_update_invalid) 6 = Some (Ev 0 [], OItems it)
                 /\ In (ICb (EvClosed 8)) it /\ has_adv22 it = true).
Proof. vm_compute. split; [reflexivity|]. eexists. split; [reflexivity|]. split; [simpl; tauto|reflexivity]. Qed.
