From BT Require Import Base.ListX LL.LLModel LL.LLSpec.
Local Open Scope N_scope.
Definition mon27 := unit.
Definition minit27 (c : cfg) : mon27 := tt.
Definition mstep27 (c : cfg) (m : mon27) (o : lop) (r : lout) : verdict * mon27 := (Ok, m).
