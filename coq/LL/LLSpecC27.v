(* C27  Link control PDUs get the specified responses: abstract specification and executable monitor.

   1. The response table [spec_kind]: which (opcode, size) pairs are well formed requests, and for every class what
      has to be answered ([response_ok]).
   2. The monitor [mstep27] judges an OBSERVED trace of the link layer on the scripted radio (operations and result
      items only). It keeps what a specification level observer knows: which control PDUs were delivered and are
      still unprocessed (processing may be delayed only while no transmit buffer is available), the responses
      that are due (they have to appear on air, in order, in the next connection event), the procedure the
      peripheral started itself and the time that passed since (from the scheduled windows), whether a version
      indication was already sent.
      Clauses (tags):  1 response      a control PDU on air is not the response that is due
                       2 unsolicited   a control PDU on air although nothing is due
                       3 missing       a due response is not on air in the next connection event
                       4 second_version  a second LL_VERSION_IND in one connection
                       5 procedure_timeout  own procedure unanswered for >= 40 s and the link is still up
                       6 early_timeout  link closed with 0x22 although no own procedure is 40 s old
                       7 fault         assert / sanitizer abort
      Out of scope (the monitor stops judging until the next connection): instant based procedures (C21), encryption
      PDUs (C28), disconnect() / try_event_cancelation(). *)
From BT Require Import Base.ListX LL.LLModel LL.LLSpec.
From BT Require gen.GenLL.
Import ListNotations.
Local Open Scope N_scope.

(* ------------------------------------------------------------------------------------------ the table *)
(* well formed requests: opcode, size, class. Written from the Core specification's PDU formats (Vol 6 Part B 2.4.2)
   for the procedures this link layer takes part in; independent of LLModel.ctrl_kind. *)
Definition spec_table (phy enc version_received : bool) : list (N * N * kind) :=
  [ (0, 12, KUpdate); (1, 8, KChannelMap); (2, 2, KTerminate); (7, 2, KUnknownRsp); (8, 9, KFeature);
    (12, 6, if version_received then KUnknown else KVersion); (13, 2, KRejectInd); (15, 24, KCpr);
    (17, 3, KRejectExt); (18, 1, KPing) ]
  ++ (if enc then [ (3, 23, KEncReq); (6, 1, KStartEncRsp); (10, 1, KPauseEncReq); (11, 1, KPauseEncRsp) ] else [])
  ++ (if phy then [ (22, 3, KPhyReq); (24, 5, KPhyUpdate) ] else []).

Fixpoint lookup (t : list (N * N * kind)) (opcode size : N) : option kind :=
  match t with
  | [] => None
  | (o, z, k) :: r => if (o =? opcode) && (z =? size) then Some k else lookup r opcode size
  end.

(* everything that is not a well formed request is answered with LL_UNKNOWN_RSP - except LL_UNKNOWN_RSP itself *)
Definition spec_kind (phy enc version_received : bool) (opcode size : N) : kind :=
  match lookup (spec_table phy enc version_received) opcode size with
  | Some k => k
  | None => if opcode =? 7 then KIgnore else KUnknown
  end.

(* what the property demands of the PDUs committed in answer to a request of class k (for every payload) *)
Inductive answer := ANone | AExact (b : list N) | AFeature | ACpr | ADeferOrDisconnect | ADisconnect | AOther.
Definition spec_answer (k : kind) (opcode : N) : answer :=
  match k with
  | KPing => AExact [19]
  | KVersion => AExact [12; GenLL.LL_VERSION_NR; GenLL.company_identifier mod 256; GenLL.company_identifier / 256; 0; 0]
  | KFeature => AFeature
  | KPhyReq => AExact [23; 3; 3]
  | KCpr => ACpr
  | KUnknown => AExact [7; opcode]
  | KUnknownRsp | KRejectInd | KRejectExt | KIgnore => ANone       (* responses and rejects are never answered *)
  | KUpdate | KChannelMap => ADeferOrDisconnect
  | KTerminate => ADisconnect
  | KPhyUpdate | KEncReq | KStartEncRsp | KPauseEncReq | KPauseEncRsp => AOther
  end.

(* ------------------------------------------------------------------------------------------ the monitor *)
Inductive expect :=
| EExact (b : list N)
| EFeature (b0 : N)                  (* LL_FEATURE_RSP with this first feature byte *)
| ECpr (req : list N).               (* the answer to this LL_CONNECTION_PARAM_REQ *)

Record mon27 := mk27 {
  m_conn : bool;
  m_stop : bool;
  m_txa : bool;
  m_rx : list pdu;
  m_exp : list expect;
  m_ver_rcv : bool;
  m_ver_sent : bool;
  m_used : N;
  m_cpr : option (N * N * N * N);
  m_phy : option (N * N);
  m_ver : bool;
  m_acpr : option (list N);
  m_timer : N;
  m_owner : N;
  m_t : N
}.
Definition set_m_conn (r : mon27) (v : bool) : mon27 := mk27 v (m_stop r) (m_txa r) (m_rx r) (m_exp r) (m_ver_rcv r) (m_ver_sent r) (m_used r) (m_cpr r) (m_phy r) (m_ver r) (m_acpr r) (m_timer r) (m_owner r) (m_t r).
Definition set_m_stop (r : mon27) (v : bool) : mon27 := mk27 (m_conn r) v (m_txa r) (m_rx r) (m_exp r) (m_ver_rcv r) (m_ver_sent r) (m_used r) (m_cpr r) (m_phy r) (m_ver r) (m_acpr r) (m_timer r) (m_owner r) (m_t r).
Definition set_m_txa (r : mon27) (v : bool) : mon27 := mk27 (m_conn r) (m_stop r) v (m_rx r) (m_exp r) (m_ver_rcv r) (m_ver_sent r) (m_used r) (m_cpr r) (m_phy r) (m_ver r) (m_acpr r) (m_timer r) (m_owner r) (m_t r).
Definition set_m_rx (r : mon27) (v : list pdu) : mon27 := mk27 (m_conn r) (m_stop r) (m_txa r) v (m_exp r) (m_ver_rcv r) (m_ver_sent r) (m_used r) (m_cpr r) (m_phy r) (m_ver r) (m_acpr r) (m_timer r) (m_owner r) (m_t r).
Definition set_m_exp (r : mon27) (v : list expect) : mon27 := mk27 (m_conn r) (m_stop r) (m_txa r) (m_rx r) v (m_ver_rcv r) (m_ver_sent r) (m_used r) (m_cpr r) (m_phy r) (m_ver r) (m_acpr r) (m_timer r) (m_owner r) (m_t r).
Definition set_m_ver_rcv (r : mon27) (v : bool) : mon27 := mk27 (m_conn r) (m_stop r) (m_txa r) (m_rx r) (m_exp r) v (m_ver_sent r) (m_used r) (m_cpr r) (m_phy r) (m_ver r) (m_acpr r) (m_timer r) (m_owner r) (m_t r).
Definition set_m_ver_sent (r : mon27) (v : bool) : mon27 := mk27 (m_conn r) (m_stop r) (m_txa r) (m_rx r) (m_exp r) (m_ver_rcv r) v (m_used r) (m_cpr r) (m_phy r) (m_ver r) (m_acpr r) (m_timer r) (m_owner r) (m_t r).
Definition set_m_used (r : mon27) (v : N) : mon27 := mk27 (m_conn r) (m_stop r) (m_txa r) (m_rx r) (m_exp r) (m_ver_rcv r) (m_ver_sent r) v (m_cpr r) (m_phy r) (m_ver r) (m_acpr r) (m_timer r) (m_owner r) (m_t r).
Definition set_m_cpr (r : mon27) (v : option (N * N * N * N)) : mon27 := mk27 (m_conn r) (m_stop r) (m_txa r) (m_rx r) (m_exp r) (m_ver_rcv r) (m_ver_sent r) (m_used r) v (m_phy r) (m_ver r) (m_acpr r) (m_timer r) (m_owner r) (m_t r).
Definition set_m_phy (r : mon27) (v : option (N * N)) : mon27 := mk27 (m_conn r) (m_stop r) (m_txa r) (m_rx r) (m_exp r) (m_ver_rcv r) (m_ver_sent r) (m_used r) (m_cpr r) v (m_ver r) (m_acpr r) (m_timer r) (m_owner r) (m_t r).
Definition set_m_ver (r : mon27) (v : bool) : mon27 := mk27 (m_conn r) (m_stop r) (m_txa r) (m_rx r) (m_exp r) (m_ver_rcv r) (m_ver_sent r) (m_used r) (m_cpr r) (m_phy r) v (m_acpr r) (m_timer r) (m_owner r) (m_t r).
Definition set_m_acpr (r : mon27) (v : option (list N)) : mon27 := mk27 (m_conn r) (m_stop r) (m_txa r) (m_rx r) (m_exp r) (m_ver_rcv r) (m_ver_sent r) (m_used r) (m_cpr r) (m_phy r) (m_ver r) v (m_timer r) (m_owner r) (m_t r).
Definition set_m_timer (r : mon27) (v : N) : mon27 := mk27 (m_conn r) (m_stop r) (m_txa r) (m_rx r) (m_exp r) (m_ver_rcv r) (m_ver_sent r) (m_used r) (m_cpr r) (m_phy r) (m_ver r) (m_acpr r) v (m_owner r) (m_t r).
Definition set_m_owner (r : mon27) (v : N) : mon27 := mk27 (m_conn r) (m_stop r) (m_txa r) (m_rx r) (m_exp r) (m_ver_rcv r) (m_ver_sent r) (m_used r) (m_cpr r) (m_phy r) (m_ver r) (m_acpr r) (m_timer r) v (m_t r).
Definition set_m_t (r : mon27) (v : N) : mon27 := mk27 (m_conn r) (m_stop r) (m_txa r) (m_rx r) (m_exp r) (m_ver_rcv r) (m_ver_sent r) (m_used r) (m_cpr r) (m_phy r) (m_ver r) (m_acpr r) (m_timer r) (m_owner r) v.
(* m_rx: delivered, not yet processed; m_exp: due (committed before the current operation, to be on air in the next
   event); m_cpr/m_phy/m_ver/m_acpr: own requests / asynchronous reply not yet sent; m_timer: 0 = no own procedure awaits
   its answer, else microseconds left; m_owner: opcode of the own request the timer belongs to; m_t: anchor to anchor
   time of the next connection event *)

Definition minit27 (c : cfg) : mon27 :=
  mk27 false false true [] [] false false (supported_features c) None None false None 0 0 0.

Definition new_connection27 (c : cfg) (m : mon27) : mon27 :=
  mk27 true false (m_txa m) [] [] false false (supported_features c) None None false None 0 0 0.

Definition stop27 (m : mon27) : mon27 :=
  mk27 (m_conn m) true (m_txa m) [] [] (m_ver_rcv m) (m_ver_sent m) (m_used m) None None false None 0 0 (m_t m).

Definition in_range (lo x hi : N) : bool := (lo <=? x) && (x <=? hi).

(* is [body] an acceptable answer to the connection parameter request [req] ? *)
Definition cpr_answer_ok (c : cfg) (req body : list N) : bool :=
  if negb (cpr_params_ok req) then bytes_eqb body [17; 15; GenLL.invalid_ll_paramerters]
  else
    match c_cpr c with
    | CprDesired imin imax lmin lmax tmin tmax =>
        (N.of_nat (length body) =? 24) && (byte body 0 =? 16)
        && in_range imin (rd16 body 1) imax && in_range imin (rd16 body 3) imax && (rd16 body 1 <=? rd16 body 3)
        && in_range lmin (rd16 body 5) lmax && in_range tmin (rd16 body 7) tmax
        && bytes_eqb (slice body 9 15) (slice req 9 15)
    | _ => bytes_eqb body (16 :: slice req 1 23)
    end.

Definition matches (c : cfg) (e : expect) (body : list N) : bool :=
  match e with
  | EExact b => bytes_eqb b body
  | EFeature b0 => bytes_eqb body [9; b0; (supported_features c / 256) mod 256; 0; 0; 0; 0; 0; 0]
  | ECpr req => cpr_answer_ok c req body
  end.

Definition cpr_feature : N := GenLL.feature_connection_parameters_request_procedure.

(* processing of the delivered PDUs, as far as the specification allows it to be delayed: returns the monitor, the
   responses that become due, and whether the connection has to end / the trace leaves the scope *)
Inductive pres := PGo | PStop | PClosed.

Fixpoint process27 (fuel : nat) (c : cfg) (m : mon27) (cbs : list (N * N * N * N)) (acc : list expect) : mon27 * list expect * pres :=
  match fuel with
  | O => (m, acc, PGo)
  | S fuel' =>
      match m_rx m with
      | [] => (m, acc, PGo)
      | (llid, body) :: rest =>
          let pop (x : mon27) := set_m_rx x rest in
          if llid =? 3 then
            if negb (m_txa m) then (m, acc, PGo)
            else
              let size := N.of_nat (length body) in
              let opcode := byte body 0 in
              let setu (x : mon27) (u : N) := set_m_used x u in
              let sett (x : mon27) (t : N) := set_m_timer x t in
              match spec_kind (c_phy c) (c_enc c) (m_ver_rcv m) opcode size with
              | KPing => process27 fuel' c (pop m) cbs (acc ++ [EExact [19]])
              | KUnknown => process27 fuel' c (pop m) cbs (acc ++ [EExact [7; opcode]])
              | KIgnore => process27 fuel' c (pop m) cbs acc
              | KPhyReq => process27 fuel' c (pop m) cbs (acc ++ [EExact [23; 3; 3]])
              | KFeature =>
                  let u := N.land (m_used m) (rd16 body 1) in
                  process27 fuel' c (pop (setu m u)) cbs (acc ++ [EFeature (u mod 256)])
              | KVersion =>
                  let m1 := sett m 0 in
                  let m2 := if byte body 1 <=? GenLL.LL_VERSION_40 then setu m1 (N.land (m_used m1) (65535 - cpr_feature)) else m1 in
                  let m3 := set_m_ver_rcv m2 true in
                  (* a single version indication per connection: none is due if one was already sent *)
                  process27 fuel' c (pop m3) cbs
                            (if m_ver_sent m then acc
                             else acc ++ [EExact [12; GenLL.LL_VERSION_NR; GenLL.company_identifier mod 256; GenLL.company_identifier / 256; 0; 0]])
              | KUnknownRsp | KRejectInd | KRejectExt =>
                  (* never answered; ends the own procedure it names *)
                  let names := (opcode =? 13) || (byte body 1 =? 15) || ((byte body 1 =? 22) && (m_owner m =? 22)) in
                  let m1 := if names then sett m 0 else m in
                  let m2 := if (opcode =? 7) && (byte body 1 =? 15) then setu m1 (N.land (m_used m1) (65535 - cpr_feature)) else m1 in
                  process27 fuel' c (pop m2) cbs acc
              | KCpr =>
                  match c_cpr c with
                  | CprAsync =>
                      (* either answered at once or handed to the application (cb:cpr in this operation's result) *)
                      match cbs with
                      | (a, b, l, t) :: cbs' =>
                          if cpr_params_ok body && (a =? rd16 body 1) && (b =? rd16 body 3) && (l =? rd16 body 5) && (t =? rd16 body 7)
                          then process27 fuel' c (pop m) cbs' acc
                          else process27 fuel' c (pop m) cbs (acc ++ [ECpr body])
                      | [] => process27 fuel' c (pop m) cbs (acc ++ [ECpr body])
                      end
                  | _ => process27 fuel' c (pop m) cbs (acc ++ [ECpr body])
                  end
              | KTerminate => (pop m, acc, PClosed)
              | _ => (pop m, acc, PStop)       (* instant based procedures, encryption: other properties *)
              end
          else if llid =? 2 then
            match l2cap_reply body with
            | L2Drop => process27 fuel' c (pop m) cbs acc
            | L2Reply _ => if m_txa m then process27 fuel' c (pop m) cbs acc else (m, acc, PGo)
            end
          else
            (* LLID 1 without a preceding start: a fragment nobody waits for, dropped *)
            process27 fuel' c (pop m) cbs acc
      end
  end.

Definition tx3 (it : list item) : list (list N) :=
  flat_map (fun i => match i with ITx 3 b => [b] | _ => [] end) it.
Definition has_adv (it : list item) : bool := existsb (fun i => match i with IAdv _ => true | _ => false end) it.
Definition has_closed (it : list item) (r : N) : bool :=
  existsb (fun i => match i with ICb (EvClosed x) => x =? r | _ => false end) it.
Definition cpr_callbacks (it : list item) : list (N * N * N * N) :=
  flat_map (fun i => match i with ICb (EvCpr a b l t) => [(a, b, l, t)] | _ => [] end) it.
Definition last_ce (it : list item) : option (N * N) :=
  fold_left (fun a i => match i with ICe _ s e _ => Some (s, e) | _ => a end) it None.

(* the control PDUs on air against what is due; [ver_sent] = a LL_VERSION_IND was already sent in this connection *)
Fixpoint judge_air (c : cfg) (due : list expect) (air : list (list N)) (ver_sent : bool) : option nat * bool :=
  match air with
  | [] => (match due with [] => None | _ => Some 3%nat end, ver_sent)
  | b :: air' =>
      let is_ver := byte b 0 =? 12 in
      if is_ver && ver_sent then (Some 4%nat, ver_sent)
      else match due with
           | [] => (Some 2%nat, ver_sent)
           | e :: due' => if matches c e b then judge_air c due' air' (ver_sent || is_ver) else (Some 1%nat, ver_sent)
           end
  end.

(* the procedure response timeout of the Core specification (Vol 6 Part B 5.2): 40 s - a specification constant, NOT the
   constant read from the source (a changed default_procedure_timeout_us is then seen as early / late 0x22) *)
Definition procedure_response_timeout_us : N := 40000000.
Definition arm (m : mon27) (owner : N) : mon27 := set_m_owner (set_m_timer m procedure_response_timeout_us) owner.

Definition own_pdu (m : mon27) : option (expect * mon27) :=
  match m_cpr m, m_phy m, m_ver m, m_acpr m with
  | Some (a, b, l, t), _, _, _ =>
      Some (EExact ([15; a mod 256; (a / 256) mod 256; b mod 256; (b / 256) mod 256; l mod 256; (l / 256) mod 256;
                     t mod 256; (t / 256) mod 256; 0; 0; 0] ++ repeat 255 12),
            arm (set_m_cpr m None) 15)
  | None, Some (t, r), _, _ =>
      (* the PHY update procedure has a response timeout of its own (Core Vol 6 Part B 5.1.10); a timer that already
         runs for an earlier own procedure is left alone *)
      Some (EExact [22; t; r], if m_timer m =? 0 then arm (set_m_phy m None) 22 else set_m_phy m None)
  | None, None, true, _ =>
      Some (EExact [12; GenLL.LL_VERSION_NR; GenLL.company_identifier mod 256; GenLL.company_identifier / 256; 0; 0],
            arm (set_m_ver m false) 12)
  | None, None, false, Some b => Some (EExact b, set_m_acpr m None)
  | None, None, false, None => None
  end.

Definition with_t (m : mon27) (it : list item) : mon27 :=
  match last_ce it with
  | Some (s, e) => set_m_t m ((s + e) / 2)
  | None => m
  end.

Definition ended (c : cfg) (m : mon27) : mon27 := mk27 false false (m_txa m) [] [] false false (supported_features c) None None false None 0 0 0.

Definition mstep27 (c : cfg) (m : mon27) (o : lop) (r : lout) : verdict * mon27 :=
  match r with
  | OCrash => (Bad 7, m)
  | OPre | OBadOp => (Ok, m)
  | OItems it =>
      match o with
      | TxAvail b => (Ok, set_m_txa m b)
      | Adv _ _ => if existsb (fun i => match i with ICe _ _ _ _ => true | _ => false end) it
                   then (Ok, with_t (new_connection27 c m) it) else (Ok, m)
      | Run | AdvTimeout | St | Key _ => (Ok, m)
      | _ =>
        if negb (m_conn m) then (Ok, m)
        else if m_stop m then (Ok, if has_adv it then ended c m else m)
        else
        match o with
        | Disconnect _ | Cancel _ _ => (Ok, stop27 m)
        | Cpu a b l t =>
            match it with
            | [IRet true] => (Ok, set_m_cpr m (Some (a mod 65536, b mod 65536, l mod 65536, t mod 65536)))
            | _ => (Ok, m)
            end
        | Cpr a b l t =>
            match it with
            | [IRet true] => (Ok, set_m_cpr m (Some (a mod 65536, b mod 65536, l mod 65536, t mod 65536)))
            | _ => (Ok, m)
            end
        | PhyReq t r' =>
            match it with
            | [IRet true] => (Ok, set_m_phy m (Some (t mod 256, r' mod 256)))
            | _ => (Ok, m)
            end
        | VerReq =>
            match it with
            | [IRet true] => (Ok, set_m_ver m true)
            | _ => (Ok, m)
            end
        | CprReply a b l t =>
            (Ok, set_m_acpr m (Some ([16; a mod 256; (a / 256) mod 256; b mod 256; (b / 256) mod 256; l mod 256; (l / 256) mod 256;
                              t mod 256; (t / 256) mod 256; 0] ++ repeat 255 14)))
        | CprNeg e =>
            (Ok, set_m_acpr m (Some [17; 15; e mod 256]))
        | Timeout =>
            (* a missed event: the own procedure's clock runs on *)
            let due22 := negb (m_timer m =? 0) && (m_timer m <=? m_t m) in
            if has_adv it then
              if has_closed it 34 && negb due22 then (Bad 6, m) else (Ok, ended c m)
            else if due22 then (Bad 5, m)
            else (Ok, with_t m it)
        | Ev _ pdus =>
            (* 1. what is on air now is what was due *)
            let '(v, ver_sent) := judge_air c (m_exp m) (tx3 it) (m_ver_sent m) in
            match v with
            | Some t => (Bad t, m)
            | None =>
                (* 2. delivery and processing *)
                let rx := m_rx m ++ filter (fun p => negb (N.of_nat (length (snd p)) =? 0) && negb (N.land (fst p) 3 =? 0))
                                           (map (fun p => (N.land (fst p) 3, snd p)) pdus) in
                let m1 := set_m_ver_sent (set_m_exp (set_m_rx m rx) []) ver_sent in
                let '(m2, due, res) := process27 (S (length rx)) c m1 (cpr_callbacks it) [] in
                match res with
                | PClosed => (Ok, ended c m2)
                | PStop => (Ok, if has_adv it then ended c m2 else stop27 m2)
                | PGo =>
                    (* 3. the own procedure's clock *)
                    let due22 := negb (m_timer m2 =? 0) && (m_timer m2 <=? m_t m2) in
                    if has_adv it then
                      if due22 then (Ok, ended c m2)
                      else if has_closed it 34 then (Bad 6, m2) else (Ok, ended c m2)
                    else if due22 then (Bad 5, m2)
                    else
                      let m3 := if m_timer m2 =? 0 then m2
                                else set_m_timer m2 (m_timer m2 - m_t m2) in
                      (* 4. one own request per event, when there is a buffer *)
                      let '(due', m4) := if m_txa m3 then
                                           match own_pdu m3 with Some (e, m') => (due ++ [e], m') | None => (due, m3) end
                                         else (due, m3) in
                      (Ok, with_t (set_m_exp m4 due') it)
                end
            end
        | _ => (Ok, m)
        end
      end
  end.

Fixpoint mrun27 (c : cfg) (m : mon27) (tr : list (lop * lout)) : verdict :=
  match tr with
  | [] => Ok
  | (o, r) :: t => match mstep27 c m o r with (Ok, m') => mrun27 c m' t | (Bad k, _) => Bad k end
  end.

Definition accepts27 (c : cfg) (tr : list (lop * lout)) : Prop := mrun27 c (minit27 c) tr = Ok.
