(* C28, second part: the monitor's ON-AIR clauses (LL_START_ENC_REQ on air only when due, the reject for an unknown key on
   air in the next connection event, LL_PAUSE_ENC_RSP only on an unencrypted link, the protected value on air only if the
   link was encrypted during the event that queued it) accept every model trace too.
   [unaired s] is the part of the transmit queue the radio has not yet put on air; a well behaved central drains it in
   every connection event ([radio_event_air]). [TB] is the invariant between operations, [TM b] the one inside an
   operation after the radio's part (b: before / after transmit_pending_security_pdus()), both relating [unaired] to the
   monitor's bookkeeping q_due5 / q_rej / q_win / q_cur / q_unk / q_disc. The decision part (invariant [R]) is reused from
   LLProofsC28.v: with air = false and air = true the monitor reaches the same state on every item list that contains no
   PDU on air. *)
From Coq Require Import Lia ZifyBool NArith List Bool.
From BT Require Import Base.ListX LL.LLModel LL.LLSpec LL.LLSpecC28 LL.LLProofsC28.
From BT Require gen.GenLL.
Import ListNotations.
Local Open Scope N_scope.

(* ========================================================================================== the transmit queue as the monitor will see it *)
(* ---------------------------------------------------------------- the transmit queue as the monitor will see it *)
Definition unaired (s : lstate_t) : list pdu :=
  match fl (bf s) with FHead => tl (txq (bf s)) | _ => txq (bf s) end.
Definition WFb (s : lstate_t) : Prop := fl (bf s) = FHead -> txq (bf s) <> [].

Definition is5 (p : pdu) : bool := (fst p =? 3) && bytes_eqb (snd p) start_enc_req_pdu.
Definition isrej (p : pdu) : bool := (fst p =? 3) && is_reject_enc (snd p).
Definition ispau (p : pdu) : bool := (fst p =? 3) && bytes_eqb (snd p) pause_enc_rsp_pdu.
Definition isval (p : pdu) : bool := (fst p =? 2) && bytes_eqb (snd p) protected_value_pdu.
Definition special (p : pdu) : bool := is5 p || ispau p || isval p.
Definition count5 (l : list pdu) : nat := length (filter is5 l).

Lemma unaired_commit s p :
  WFb s -> stopped (bf s) = false ->
  unaired (commit s p) = unaired s ++ [p] /\ WFb (commit s p) /\ stopped (bf (commit s p)) = false
  /\ tx_avail (bf (commit s p)) = tx_avail (bf s).
Proof.
  intros W St. unfold commit. rewrite St. unfold unaired, WFb in *. cbn [bf upd_bf set_bf set_txq txq fl stopped tx_avail].
  destruct (fl (bf s)) eqn:F; (split; [|split; [|split; [exact St|reflexivity]]]); try reflexivity; try discriminate.
  - destruct (txq (bf s)) as [|h t] eqn:T; [exfalso; apply (W eq_refl); reflexivity|reflexivity].
  - intros _. destruct (txq (bf s)); discriminate.
Qed.

Lemma commit_stopped s p : stopped (bf s) = true -> commit s p = s.
Proof. intros H. unfold commit. rewrite H. reflexivity. Qed.

(* ---------------------------------------------------------------- what the monitor does with PDUs on air *)
Definition air_item (p : pdu) : item := ITx (fst p) (snd p).

Lemma item28_air_plain m p :
  is5 p = false -> isrej p = false -> ispau p = false -> isval p = false -> item28 true m (air_item p) = (Ok, m).
Proof.
  unfold is5, isrej, ispau, isval, air_item, item28. destruct p as [l b]. cbn [fst snd negb].
  intros -> -> -> ->. reflexivity.
Qed.

Lemma bytes_eqb_eq a : forall b, bytes_eqb a b = true -> a = b.
Proof.
  induction a as [|x a IH]; intros [|y b]; simpl; intros H; try discriminate; [reflexivity|].
  apply andb_true_iff in H. destruct H as [H1 H2]. apply N.eqb_eq in H1. rewrite (IH _ H2), H1. reflexivity.
Qed.

(* the four classes are disjoint *)
Lemma classes_disjoint p :
  (is5 p = true -> isrej p = false /\ ispau p = false /\ isval p = false)
  /\ (isrej p = true -> ispau p = false /\ isval p = false /\ is5 p = false)
  /\ (ispau p = true -> isval p = false /\ is5 p = false /\ isrej p = false)
  /\ (isval p = true -> is5 p = false /\ isrej p = false /\ ispau p = false).
Proof.
  destruct p as [l b]. unfold is5, isrej, ispau, isval, is_reject_enc, start_enc_req_pdu, pause_enc_rsp_pdu, protected_value_pdu. cbn [fst snd].
  destruct (l =? 3) eqn:E3; destruct (l =? 2) eqn:E2; cbn [andb]; try (repeat split; intros; discriminate).
  - apply N.eqb_eq in E3. apply N.eqb_eq in E2. lia.
  - split; [|split; [|split]]; intros H0; try discriminate H0;
      try (apply orb_true_iff in H0; destruct H0 as [H0|H0]); apply bytes_eqb_eq in H0; subst b; repeat split; reflexivity.
Qed.

(* ========================================================================================== PDUs on air *)
(* monitor states that differ only in the on-air bookkeeping q_due5 / q_rej *)
Definition same_core (m m' : mon28) : Prop :=
  q_key m' = q_key m /\ q_req m' = q_req m /\ q_sent m' = q_sent m /\ q_enc m' = q_enc m /\ q_was m' = q_was m
  /\ q_win m' = q_win m /\ q_cur m' = q_cur m /\ q_unk m' = q_unk m /\ q_disc m' = q_disc m.
Lemma same_core_refl m : same_core m m.
Proof. unfold same_core. auto 10. Qed.
Lemma same_core_trans a b c : same_core a b -> same_core b c -> same_core a c.
Proof. unfold same_core. intros (A1 & A2 & A3 & A4 & A5 & A6 & A7 & A8 & A9) (B1 & B2 & B3 & B4 & B5 & B6 & B7 & B8 & B9). repeat split; congruence. Qed.

Definition set_due5 (m : mon28) (n : nat) : mon28 :=
  mk28 (q_key m) (q_req m) (q_sent m) (q_enc m) (q_was m) (q_win m) (q_cur m) n (q_unk m) (q_rej m) (q_disc m).
Definition clear_rej (m : mon28) : mon28 :=
  mk28 (q_key m) (q_req m) (q_sent m) (q_enc m) (q_was m) (q_win m) (q_cur m) (q_due5 m) (q_unk m) false (q_disc m).

Lemma item28_air_5 m p : is5 p = true ->
  item28 true m (air_item p) = match q_due5 m with O => (Bad 8, m) | S n => (Ok, set_due5 m n) end.
Proof. destruct p as [l b]. unfold is5, air_item, item28. cbn [fst snd negb]. intros ->. reflexivity. Qed.
Lemma item28_air_rej m p : is5 p = false -> isrej p = true -> item28 true m (air_item p) = (Ok, clear_rej m).
Proof. destruct p as [l b]. unfold is5, isrej, air_item, item28. cbn [fst snd negb]. intros -> ->. reflexivity. Qed.
Lemma item28_air_pau m p : is5 p = false -> isrej p = false -> ispau p = true ->
  item28 true m (air_item p) = if q_enc m then (Bad 4, m) else (Ok, m).
Proof. destruct p as [l b]. unfold is5, isrej, ispau, air_item, item28. cbn [fst snd negb]. intros -> -> ->. reflexivity. Qed.
Lemma item28_air_val m p : is5 p = false -> isrej p = false -> ispau p = false -> isval p = true ->
  item28 true m (air_item p) = if q_win m then (Ok, m) else (Bad (if q_was m then 4 else 5), m).
Proof. destruct p as [l b]. unfold is5, isrej, ispau, isval, air_item, item28. cbn [fst snd negb]. intros -> -> -> ->. reflexivity. Qed.

Lemma count5_cons p l : count5 (p :: l) = ((if is5 p then 1 else 0) + count5 l)%nat.
Proof. unfold count5. simpl. destruct (is5 p); reflexivity. Qed.

Lemma air_fold : forall l m,
  (count5 l <= q_due5 m)%nat -> (existsb isval l = true -> q_win m = true) -> (existsb ispau l = true -> q_enc m = false) ->
  exists m', fold28 true m (map air_item l) = (Ok, m') /\ same_core m m'
             /\ q_due5 m' = (q_due5 m - count5 l)%nat /\ q_rej m' = q_rej m && negb (existsb isrej l).
Proof.
  induction l as [|p l IH]; intros m H5 Hv Hp.
  - exists m. split; [reflexivity|]. split; [apply same_core_refl|]. simpl. rewrite Nat.sub_0_r, andb_true_r. auto.
  - rewrite count5_cons in H5. rewrite count5_cons.
    change (existsb isval (p :: l)) with (isval p || existsb isval l) in Hv.
    change (existsb ispau (p :: l)) with (ispau p || existsb ispau l) in Hp.
    change (existsb isrej (p :: l)) with (isrej p || existsb isrej l).
    change (fold28 true m (map air_item (p :: l)))
      with (match item28 true m (air_item p) with (Ok, m') => fold28 true m' (map air_item l) | bad => bad end).
    destruct (classes_disjoint p) as (D5 & Dr & Dp & Dv).
    destruct (is5 p) eqn:E5.
    + destruct (D5 eq_refl) as (X1 & X2 & X3). rewrite X1. rewrite X2 in Hp. rewrite X3 in Hv. cbn [orb] in *.
      rewrite (item28_air_5 m p E5). destruct (q_due5 m) as [|n] eqn:Eq; [lia|].
      destruct (IH (set_due5 m n)) as (m' & F & S & Q5 & Qr); [cbn [set_due5 q_due5]; lia|exact Hv|exact Hp|].
      exists m'. split; [exact F|]. split; [apply same_core_trans with (set_due5 m n); [unfold same_core; cbn; auto 10|exact S]|].
      split; [rewrite Q5; cbn [set_due5 q_due5]; lia|exact Qr].
    + destruct (isrej p) eqn:Er.
      * destruct (Dr eq_refl) as (X1 & X2 & X3). rewrite X1 in Hp. rewrite X2 in Hv. cbn [orb] in *.
        rewrite (item28_air_rej m p E5 Er).
        destruct (IH (clear_rej m)) as (m' & F & S & Q5 & Qr); [exact H5|exact Hv|exact Hp|].
        exists m'. split; [exact F|]. split; [apply same_core_trans with (clear_rej m); [unfold same_core; cbn; auto 10|exact S]|].
        split; [exact Q5|]. rewrite Qr. cbn [clear_rej q_rej negb andb]. rewrite andb_false_r. reflexivity.
      * destruct (ispau p) eqn:Ep.
        -- destruct (Dp eq_refl) as (X1 & X2 & X3). rewrite X1 in Hv. cbn [orb] in *.
           rewrite (item28_air_pau m p E5 Er Ep), (Hp eq_refl).
           destruct (IH m) as (m' & F & S & Q5 & Qr); [exact H5|exact Hv|intros _; exact (Hp eq_refl)|].
           exists m'. auto.
        -- destruct (isval p) eqn:Ev.
           ++ cbn [orb] in *. rewrite (item28_air_val m p E5 Er Ep Ev), (Hv eq_refl).
              destruct (IH m) as (m' & F & S & Q5 & Qr); [exact H5|intros _; exact (Hv eq_refl)|exact Hp|].
              exists m'. auto.
           ++ cbn [orb] in *. rewrite (item28_air_plain m p E5 Er Ep Ev).
              destruct (IH m) as (m' & F & S & Q5 & Qr); [exact H5|exact Hv|exact Hp|].
              exists m'. auto.
Qed.
Lemma radio_exchange_air s rx :
  WFb s ->
  let '(s1, it, md) := radio_exchange s rx in
  it = map air_item (firstn 1 (unaired s)) /\ unaired s1 = tl (unaired s) /\ WFb s1
  /\ md = (match tl (unaired s) with [] => false | _ => true end)
  /\ sc s1 = sc s /\ st s1 = st s /\ stopped (bf s1) = stopped (bf s) /\ tx_avail (bf s1) = tx_avail (bf s).
Proof.
  intros W. unfold radio_exchange. fold (unaired s).
  destruct (unaired s) as [|[llid body] rest] eqn:U; unfold unaired, WFb; cbn [bf set_bf fl txq stopped tx_avail sc st firstn map tl air_item fst snd].
  - repeat split; auto; discriminate.
  - repeat split; auto. discriminate.
Qed.

Lemma radio_event_air fuel : forall s pdus s1 it,
  (length pdus + length (unaired s) < fuel)%nat -> WFb s -> radio_event fuel s pdus = (s1, it) ->
  it = map air_item (unaired s) /\ unaired s1 = [] /\ WFb s1
  /\ sc s1 = sc s /\ st s1 = st s /\ stopped (bf s1) = stopped (bf s) /\ tx_avail (bf s1) = tx_avail (bf s).
Proof.
  induction fuel as [|fuel IH]; intros s pdus s1 it Hf W H; [lia|]. simpl in H.
  pose proof (radio_exchange_air s (hd_error pdus) W) as X.
  destruct (radio_exchange s (hd_error pdus)) as [[sa ita] md]. destruct X as (X1 & X2 & X3 & X4 & X5 & X6 & X7 & X8).
  destruct (match tl pdus with [] => md | _ => true end) eqn:Ec.
  - destruct (radio_event fuel sa (tl pdus)) as [sb itb] eqn:E. injection H as <- <-.
    assert (Hf' : (length (tl pdus) + length (unaired sa) < fuel)%nat).
    { rewrite X2. destruct pdus as [|p1 [|p2 pt]]; destruct (unaired s) as [|u1 [|u2 ut]]; simpl in *; subst md; try discriminate; lia. }
    destruct (IH sa (tl pdus) sb itb Hf' X3 E) as (Y1 & Y2 & Y3 & Y4 & Y5 & Y6 & Y7).
    rewrite X1, Y1, X2. split; [destruct (unaired s); reflexivity|]. repeat split; auto; congruence.
  - injection H as <- <-. assert (T : tl (unaired s) = []).
    { destruct (tl pdus); [|discriminate]. subst md. destruct (tl (unaired s)); [reflexivity|discriminate]. }
    rewrite X1, X2, T. split; [destruct (unaired s) as [|u ut]; [reflexivity|simpl in T; subst ut; reflexivity]|]. auto 10.
Qed.

(* ========================================================================================== the invariant inside an operation *)
(* items the monitor ignores whatever [air] is *)
Definition quiet_item (i : item) : bool :=
  match i with IFindKey _ _ | IEncRx _ | IEncTx _ | ITx _ _ => false | _ => true end.
Lemma fold28_quiet air m it : forallb quiet_item it = true -> fold28 air m it = (Ok, m).
Proof.
  induction it as [|i t IH]; simpl; intros H; [reflexivity|].
  apply andb_true_iff in H. destruct H as [Hi Ht]. destruct i; simpl in Hi; try discriminate; simpl; auto.
Qed.

(* ---------------------------------------------------------------- the invariant inside an operation (after the radio's part)
   b = true: before transmit_pending_security_pdus(); b = false: after it *)
Definition UQ (b : bool) (l : list pdu) (hk ep : bool) (m : mon28) : Prop :=
  (count5 l <= q_due5 m)%nat
  /\ (existsb isval l = true -> q_cur m = true)
  /\ (existsb ispau l = true -> q_enc m = false /\ (b = true -> hk = true -> ep = true))
  /\ (b = false -> q_unk m = true -> q_disc m = false -> existsb isrej l = true).

Definition SQ (b : bool) (c : cfg) (s : lstate_t) (m : mon28) : Prop :=
  WFb s /\ (q_enc m = true -> q_cur m = true) /\ q_rej m = false
  /\ (q_unk m = true -> c_enc c = true /\ q_key m = false
                        /\ (b = true -> enc_prog (sc s) = true /\ has_key (sc s) = false /\ tx_avail (bf s) = true))
  /\ (q_disc m = false -> st s <> Disconnecting /\ stopped (bf s) = false).

Definition TM (b : bool) (c : cfg) (s : lstate_t) (m : mon28) : Prop :=
  UQ b (unaired s) (has_key (sc s)) (enc_prog (sc s)) m /\ SQ b c s m.

Lemma existsb_snoc {A} (f : A -> bool) l x : existsb f (l ++ [x]) = existsb f l || f x.
Proof. rewrite existsb_app. simpl. rewrite orb_false_r. reflexivity. Qed.
Lemma count5_snoc l p : count5 (l ++ [p]) = (count5 l + (if is5 p then 1 else 0))%nat.
Proof. unfold count5. rewrite filter_app, app_length. simpl. destruct (is5 p); reflexivity. Qed.

(* appending a PDU that is none of LL_START_ENC_REQ / LL_PAUSE_ENC_RSP / the protected value *)
Lemma UQ_snoc_plain b l hk ep m p : special p = false -> UQ b l hk ep m -> UQ b (l ++ [p]) hk ep m.
Proof.
  unfold special. intros Hs (U1 & U2 & U3 & U4).
  apply orb_false_iff in Hs. destruct Hs as [Hs Hv]. apply orb_false_iff in Hs. destruct Hs as [H5 Hp].
  unfold UQ. rewrite count5_snoc, !existsb_snoc, H5, Hp, Hv, !orb_false_r.
  split; [rewrite Nat.add_0_r; exact U1|]. split; [exact U2|]. split; [exact U3|].
  intros B K D. rewrite (U4 B K D). reflexivity.
Qed.

(* commit of such a PDU *)
Lemma TM_commit_plain b c s m p :
  special p = false -> TM b c s m -> TM b c (commit s p) m.
Proof.
  intros Hs T. destruct (stopped (bf s)) eqn:St.
  - rewrite (commit_stopped s p St). exact T.
  - destruct T as (U & (W & S2 & S3 & S4 & S5)). unfold TM.
    destruct (unaired_commit s p W St) as (C1 & C2 & C3 & C4). rewrite C1, sc_commit.
    split; [apply UQ_snoc_plain; assumption|]. unfold SQ. rewrite sc_commit, st_commit, C3, C4. split; [exact C2|]. split; [exact S2|]. split; [exact S3|]. split; [exact S4|]. intros D. split; [apply (S5 D)|reflexivity].
Qed.

(* state changes that touch neither the buffers, nor the security state, nor st *)
Lemma TM_ext b c s s' m m' :
  TM b c s m -> bf s' = bf s -> sc s' = sc s -> st s' = st s ->
  q_due5 m' = q_due5 m -> same_core m m' -> q_rej m' = q_rej m -> TM b c s' m'.
Proof.
  intros ((U1 & U2 & U3 & U4) & (W & S2 & S3 & S4 & S5)) Hb Hs Ht Q5 (K1 & K2 & K3 & K4 & K5 & K6 & K7 & K8 & K9) Qr.
  unfold TM, UQ, SQ, unaired, WFb in *. rewrite Hb, Hs, Ht, Q5, K1, K4, K7, K8, K9, Qr. auto 12.
Qed.

(* ========================================================================================== handle_ll_control_data *)
Lemma bf_push_event c s e : bf (push_event c s e) = bf s.
Proof. unfold push_event. ifs; reflexivity. Qed.
Lemma bf_handle_reject c s o b : bf (handle_reject c s o b) = bf s.
Proof. unfold handle_reject, clear_cpr_feature. ifs; rewrite ?bf_push_event; reflexivity. Qed.
Lemma bf_encryption_changed c s b : bf (encryption_changed c s b) = bf s.
Proof. unfold encryption_changed. destruct b; [apply bf_push_event|reflexivity]. Qed.

Lemma tx_avail_commit s p : tx_avail (bf (commit s p)) = tx_avail (bf s).
Proof. unfold commit. destruct (stopped (bf s)); reflexivity. Qed.

Lemma handle_cpr_quiet c s body : forallb quiet_item (snd (handle_cpr c s body)) = true.
Proof. unfold handle_cpr. destruct (cpr_params_ok body); simpl; [|reflexivity]. destruct (c_cpr c); simpl; try reflexivity.
  destruct (N.min _ _ <? N.max _ _); reflexivity. ifs; reflexivity. Qed.

Lemma handle_cpr_rsp_plain c s body r : fst (handle_cpr c s body) = Some r -> special (GenLL.ll_control_pdu_code, r) = false.
Proof.
  unfold handle_cpr. destruct (cpr_params_ok body); simpl; [|intros H; injection H as <-; reflexivity].
  destruct (c_cpr c); simpl.
  - intros H; injection H as <-; reflexivity.
  - destruct (N.min _ _ <? N.max _ _); intros H; injection H as <-; reflexivity.
  - destruct (_ && _); simpl; intros H; [injection H as <-; reflexivity|discriminate].
Qed.

Definition same_all (m m' : mon28) : Prop := same_core m m' /\ q_due5 m' = q_due5 m /\ q_rej m' = q_rej m.
Lemma same_all_refl m : same_all m m.
Proof. split; [apply same_core_refl|auto]. Qed.

(* the result of a branch that neither touches the security state nor commits a special PDU *)
Ltac plain_branch HT :=
  eexists; split; [apply fold28_quiet; reflexivity|]; split; [apply fold28_quiet; reflexivity|]; split;
  [ first [ apply TM_commit_plain; [reflexivity|]; eapply TM_ext; [exact HT|..]
          | eapply TM_ext; [exact HT|..] ];
    cbn [bf sc st upd_pr set_pr];
    rewrite ?bf_push_event, ?bf_handle_reject, ?sc_push_event, ?st_push_event, ?sc_handle_reject, ?st_handle_reject;
    try reflexivity; try apply same_core_refl
  | unfold commit_ctrl; rewrite ?tx_avail_commit; cbn [bf upd_pr set_pr]; rewrite ?bf_push_event, ?bf_handle_reject; reflexivity ].

Lemma hlc_tm c s m body s1 it res :
  R c s m -> TM true c s m -> in_connection s = true -> tx_buffer_available s = true ->
  handle_ll_control c s body = (s1, it, res) ->
  exists m1, fold28 true m it = (Ok, m1) /\ fold28 false m it = (Ok, m1) /\ TM true c s1 m1
             /\ tx_avail (bf s1) = tx_avail (bf s).
Proof.
  intros HR HT Hin Htx H. unfold handle_ll_control in H.
  set (opcode := if 0 <? N.of_nat (length body) then byte body 0 else 255) in *.
  pose proof (no_enc_kinds c (ver_received (pr s)) opcode (N.of_nat (length body))) as NK.
  destruct (ctrl_kind c (ver_received (pr s)) opcode (N.of_nat (length body))) eqn:K.
  - destruct (instant_passed_update _ _); injection H as <- <- <-; plain_branch HT.
  - injection H as <- <- <-; plain_branch HT.
  - destruct (byte body 1 <=? GenLL.LL_VERSION_40); unfold clear_cpr_feature in H; injection H as <- <- <-; plain_branch HT.
  - destruct (instant_passed_map _ _); injection H as <- <- <-; plain_branch HT.
  - injection H as <- <- <-; plain_branch HT.
  - injection H as <- <- <-; plain_branch HT.
  - injection H as <- <- <-; plain_branch HT.
  - injection H as <- <- <-; plain_branch HT.
  - injection H as <- <- <-; plain_branch HT.
  - (* KCpr *)
    destruct (handle_cpr c s body) as [rsp cit] eqn:EC.
    pose proof (handle_cpr_quiet c s body) as QC. rewrite EC in QC. cbn [snd] in QC.
    pose proof (handle_cpr_rsp_plain c s body) as PC. rewrite EC in PC. cbn [fst] in PC.
    destruct rsp as [r|]; injection H as <- <- <-; exists m; (split; [apply fold28_quiet; exact QC|]); (split; [apply fold28_quiet; exact QC|]).
    + split; [apply TM_commit_plain; [apply PC; reflexivity|exact HT]|apply tx_avail_commit].
    + split; [exact HT|reflexivity].
  - (* KEncReq *)
    destruct (c_enc c) eqn:Eenc; [clear NK|exfalso; apply NK; reflexivity].
    injection H as <- <- <-. cbn [fold28 item28].
    eexists. split; [reflexivity|]. split; [reflexivity|].
    split; [|unfold commit_ctrl; rewrite tx_avail_commit; reflexivity].
    apply TM_commit_plain; [reflexivity|].
    destruct HR as (R1 & R2 & R3 & R4 & R5 & R6).
    destruct HT as ((U1 & U2 & U3 & U4) & (W & S2 & S3 & S4 & S5)).
    unfold TM, UQ, SQ, unaired, WFb in *. cbn [bf sc st upd_sc set_sc set_has_key set_enc_prog has_key enc_prog q_due5 q_cur q_enc q_unk q_disc q_rej q_key].
    split; [split; [exact U1|split; [exact U2|split; [|discriminate]]]|].
    + intros P. split; [apply (U3 P)|auto].
    + split; [exact W|]. split; [exact S2|]. split; [exact S3|]. split; [|exact S5].
      intros K'. split; [exact Eenc|].
      assert (Kf : q_key m = false).
      { apply orb_true_iff in K'. destruct K' as [K'|K']; [apply (S4 K')|apply negb_true_iff in K'; exact K']. }
      split; [exact Kf|]. intros _. split; [reflexivity|]. split; [rewrite <- R1; exact Kf|exact Htx].
  - (* KStartEncRsp *)
    destruct (c_enc c) eqn:Eenc; [clear NK|exfalso; apply NK; reflexivity].
    destruct HR as (R1 & R2 & R3 & R4 & R5 & R6).
    destruct (has_key (sc s) && negb (enc_prog (sc s))) eqn:Eacc.
    + apply andb_true_iff in Eacc. destruct Eacc as [Ek Ep]. apply negb_true_iff in Ep.
      injection H as <- <- <-. cbn [fold28 item28]. rewrite (R3 Ek), (R4 Ek Ep).
      eexists. split; [reflexivity|]. split; [reflexivity|].
      split; [|unfold commit_ctrl; rewrite tx_avail_commit, bf_encryption_changed; reflexivity].
      apply TM_commit_plain; [reflexivity|].
      destruct HT as ((U1 & U2 & U3 & U4) & (W & S2 & S3 & S4 & S5)).
      unfold TM, UQ, SQ, unaired, WFb in *. rewrite bf_encryption_changed, sc_encryption_changed, st_encryption_changed.
      cbn [bf sc st upd_sc set_sc set_has_key set_is_enc has_key enc_prog q_due5 q_cur q_enc q_unk q_disc q_rej q_key].
      split; [split; [exact U1|split; [reflexivity|split; [|discriminate]]]|].
      * intros P. exfalso. destruct (U3 P) as [_ X]. specialize (X eq_refl Ek). congruence.
      * split; [exact W|]. split; [reflexivity|]. split; [exact S3|]. split; [|exact S5].
        intros K'. exfalso. destruct (S4 K') as (_ & _ & X). destruct (X eq_refl) as (X1 & _). congruence.
    + injection H as <- <- <-. exists m. split; [reflexivity|]. split; [reflexivity|].
      split; [apply TM_commit_plain; [reflexivity|exact HT]|apply tx_avail_commit].
  - (* KPauseEncReq *)
    destruct (c_enc c) eqn:Eenc; [clear NK|exfalso; apply NK; reflexivity].
    injection H as <- <- <-. cbn [fold28 item28].
    eexists. split; [reflexivity|]. split; [reflexivity|].
    split; [|unfold commit_ctrl; rewrite tx_avail_commit, bf_encryption_changed; reflexivity].
    destruct HT as ((U1 & U2 & U3 & U4) & (W & S2 & S3 & S4 & S5)).
    set (X := encryption_changed c (upd_sc s (fun x => set_is_enc (set_has_key x false) false)) (is_enc (sc s))).
    assert (FX : bf X = bf s /\ st X = st s /\ has_key (sc X) = false /\ enc_prog (sc X) = enc_prog (sc s))
      by (subst X; rewrite bf_encryption_changed, sc_encryption_changed, st_encryption_changed; cbn; auto).
    destruct FX as (FX1 & FX2 & FX3 & FX4).
    assert (WX : WFb X) by (unfold WFb; rewrite FX1; exact W).
    assert (UX : unaired X = unaired s) by (unfold unaired; rewrite FX1; reflexivity).
    unfold commit_ctrl. destruct (stopped (bf X)) eqn:St.
    * rewrite (commit_stopped X _ St). unfold TM, UQ, SQ, unenc28. rewrite UX, FX2, FX3, FX4, FX1.
      cbn [q_due5 q_cur q_enc q_unk q_disc q_rej q_key].
      split; [split; [exact U1|split; [exact U2|split; [intros _; split; [reflexivity|discriminate]|discriminate]]]|].
      split; [exact WX|]. split; [discriminate|]. split; [exact S3|]. split; [|exact S5].
      intros K'. destruct (S4 K') as (Y1 & Y2 & Y3). split; [exact Y1|]. split; [exact Y2|]. intros B. destruct (Y3 B) as (Z1 & Z2 & Z3). auto.
    * destruct (unaired_commit X (GenLL.ll_control_pdu_code, [GenLL.LL_PAUSE_ENC_RSP]) WX St) as (C1 & C2 & C3 & C4).
      unfold TM, UQ, SQ, unenc28. rewrite C1, sc_commit, st_commit, C3, C4, UX, FX2, FX3, FX4, FX1.
      rewrite count5_snoc, !existsb_snoc. change (is5 (GenLL.ll_control_pdu_code, [GenLL.LL_PAUSE_ENC_RSP])) with false.
      change (isval (GenLL.ll_control_pdu_code, [GenLL.LL_PAUSE_ENC_RSP])) with false. rewrite orb_false_r, Nat.add_0_r.
      cbn [q_due5 q_cur q_enc q_unk q_disc q_rej q_key].
      split; [split; [exact U1|split; [exact U2|split; [intros _; split; [reflexivity|discriminate]|discriminate]]]|].
      split; [exact C2|]. split; [discriminate|]. split; [exact S3|]. split.
      -- intros K'. destruct (S4 K') as (Y1 & Y2 & Y3). split; [exact Y1|]. split; [exact Y2|]. intros B. destruct (Y3 B) as (Z1 & Z2 & Z3). auto.
      -- intros D. split; [apply (S5 D)|reflexivity].
  - (* KPauseEncRsp *)
    destruct (c_enc c) eqn:Eenc; [clear NK|exfalso; apply NK; reflexivity].
    injection H as <- <- <-. cbn [fold28 item28].
    eexists. split; [reflexivity|]. split; [reflexivity|].
    split; [|rewrite bf_encryption_changed; reflexivity].
    destruct HT as ((U1 & U2 & U3 & U4) & (W & S2 & S3 & S4 & S5)).
    unfold TM, UQ, SQ, unenc28, unaired, WFb in *. rewrite bf_encryption_changed, sc_encryption_changed, st_encryption_changed.
    cbn [bf sc st upd_sc set_sc set_has_key set_is_enc has_key enc_prog q_due5 q_cur q_enc q_unk q_disc q_rej q_key].
    split; [split; [exact U1|split; [exact U2|split; [intros _; split; [reflexivity|discriminate]|discriminate]]]|].
    split; [exact W|]. split; [discriminate|]. split; [exact S3|]. split; [|exact S5].
    intros K'. destruct (S4 K') as (Y1 & Y2 & Y3). split; [exact Y1|]. split; [exact Y2|]. intros B. destruct (Y3 B) as (Z1 & Z2 & Z3). auto.
  - injection H as <- <- <-; plain_branch HT.
  - repeat match type of H with context [if ?b then _ else _] => destruct b end; injection H as <- <- <-; plain_branch HT.
  - injection H as <- <- <-; plain_branch HT.
  - injection H as <- <- <-; plain_branch HT.
Qed.

(* ========================================================================================== handle_received_data *)
(* state changes that keep the transmit side of the buffers and the security state; st may change but not to Disconnecting *)
Lemma TM_ext2 b c s s' m :
  TM b c s m -> txq (bf s') = txq (bf s) -> fl (bf s') = fl (bf s) -> stopped (bf s') = stopped (bf s) ->
  tx_avail (bf s') = tx_avail (bf s) -> sc s' = sc s -> (st s' = Disconnecting -> st s = Disconnecting) -> TM b c s' m.
Proof.
  intros ((U1 & U2 & U3 & U4) & (W & S2 & S3 & S4 & S5)) H1 H2 H3 H4 Hs Ht.
  unfold TM, UQ, SQ, unaired, WFb in *. rewrite H1, H2, H3, H4, Hs.
  split; [auto|]. split; [exact W|]. split; [exact S2|]. split; [exact S3|]. split; [exact S4|].
  intros D. destruct (S5 D) as [X Y]. split; [intros Z; apply X, Ht, Z|exact Y].
Qed.

Definition value_pdu : pdu := (GenLL.lld_data_pdu_code, [2; 0; 4; 0; 11; 23]).

Lemma TM_commit_value b c s m :
  q_cur m = true -> TM b c s m -> TM b c (commit s value_pdu) m.
Proof.
  intros Hc T. destruct (stopped (bf s)) eqn:St.
  - rewrite (commit_stopped s _ St). exact T.
  - destruct T as ((U1 & U2 & U3 & U4) & (W & S2 & S3 & S4 & S5)). unfold TM.
    destruct (unaired_commit s value_pdu W St) as (C1 & C2 & C3 & C4). rewrite C1, sc_commit.
    split.
    + unfold UQ. rewrite count5_snoc, !existsb_snoc.
      change (is5 value_pdu) with false. change (ispau value_pdu) with false. change (isrej value_pdu) with false.
      rewrite !orb_false_r, Nat.add_0_r. split; [exact U1|]. split; [intros _; exact Hc|]. split; [exact U3|exact U4].
    + unfold SQ. rewrite sc_commit, st_commit, C3, C4.
      split; [exact C2|]. split; [exact S2|]. split; [exact S3|]. split; [exact S4|]. intros D. split; [apply (S5 D)|reflexivity].
Qed.

(* what the L2CAP oracle lets the link layer commit *)
Lemma reply_classes c s body f :
  (if c_enc c then l2cap_reply_enc (is_enc (sc s)) body else l2cap_reply body) = L2Reply (Some f) ->
  special (GenLL.lld_data_pdu_code, f) = false \/ ((GenLL.lld_data_pdu_code, f) = value_pdu /\ is_enc (sc s) = true).
Proof.
  assert (P : forall f0, l2cap_reply body = L2Reply (Some f0) -> special (GenLL.lld_data_pdu_code, f0) = false).
  { unfold l2cap_reply. intros f0. ifs; intros H; try discriminate. injection H as <-. reflexivity. }
  destruct (c_enc c); [|intros H; left; apply P; exact H].
  unfold l2cap_reply_enc. destruct (bytes_eqb body att_read_secret); [|intros H; left; apply P; exact H].
  destruct (is_enc (sc s)); intros H; injection H as <-; [right; auto|left; reflexivity].
Qed.

Lemma fold_fun air m it a b : fold28 air m it = (Ok, a) -> fold28 air m it = (Ok, b) -> a = b.
Proof. intros H1 H2. congruence. Qed.

(* handle_received_data: security state and queue together *)
Lemma hrd_tm fuel c : forall s m s1 it res,
  R c s m -> TM true c s m -> in_connection s = true -> handle_received_data fuel c s = (s1, it, res) ->
  exists m1, fold28 true m it = (Ok, m1) /\ fold28 false m it = (Ok, m1) /\ TM true c s1 m1.
Proof.
  induction fuel as [|fuel IH]; intros s m s1 it res HR HT Hin H; simpl in H.
  - injection H as <- <- <-. exists m. auto.
  - destruct (deferred s); [injection H as <- <- <-; exists m; auto|].
    destruct (rxq (bf s)) as [|[llid body] rest] eqn:Erx; [injection H as <- <- <-; exists m; auto|].
    destruct (llid =? GenLL.ll_control_pdu_code).
    + destruct (tx_buffer_available s) eqn:Htx; [|injection H as <- <- <-; exists m; auto].
      destruct (handle_ll_control c s body) as [[s1' it1] r1] eqn:E1.
      destruct (hlc_post c s m body s1' it1 r1 HR Hin E1) as ((mp & Fp & HRp & _) & S1 & A1).
      destruct (hlc_tm c s m body s1' it1 r1 HR HT Hin Htx E1) as (m1 & Ft & Ff & T1 & X1).
      assert (mp = m1) by (eapply fold_fun; eauto). subst mp.
      set (s2 := upd_bf s1' (fun b => set_rxq b rest)) in *.
      assert (T2 : TM true c s2 m1) by (apply TM_ext2 with s1'; auto).
      assert (HR2 : R c s2 m1) by (eapply R_ext; eauto).
      destruct r1.
      * destruct (handle_received_data fuel c s2) as [[s3 it3] r3] eqn:E3. injection H as <- <- <-.
        assert (Hin2 : in_connection s2 = true) by (rewrite <- Hin; apply inconn_st; exact S1).
        destruct (IH s2 m1 s3 it3 r3 HR2 T2 Hin2 E3) as (m3 & G1 & G2 & G3).
        exists m3. rewrite (fold28_app _ _ _ _ _ Ft), (fold28_app _ _ _ _ _ Ff). auto.
      * injection H as <- <- <-. exists m1. auto.
    + destruct ((llid =? GenLL.lld_data_pdu_code) && negb (lstate_eqb (st s) Disconnecting)); [|injection H as <- <- <-; exists m; auto].
      destruct (if c_enc c then l2cap_reply_enc (is_enc (sc s)) body else l2cap_reply body) as [|r] eqn:Er.
      * apply (IH (upd_bf s (fun b => set_rxq b rest)) m s1 it res); auto.
      * destruct (tx_buffer_available s); [|injection H as <- <- <-; exists m; auto].
        set (s1c := match r with Some f => commit s (GenLL.lld_data_pdu_code, f) | None => s end) in *.
        assert (Tc : TM true c s1c m).
        { subst s1c. destruct r as [f|]; [|exact HT].
          destruct (reply_classes c s body f Er) as [Pl|[Ev Ee]].
          - apply TM_commit_plain; assumption.
          - rewrite Ev. apply TM_commit_value; [|exact HT].
            destruct HR as (_ & R2 & _). destruct HT as (_ & (_ & S2 & _)). apply S2, R2, Ee. }
        assert (Hs : sc s1c = sc s /\ st s1c = st s) by (subst s1c; destruct r; rewrite ?sc_commit, ?st_commit; auto).
        assert (HR2 : R c (upd_bf s1c (fun b => set_rxq b rest)) m) by (eapply R_ext; eauto; [apply Hs|apply inconn_st; apply Hs]).
        assert (T2 : TM true c (upd_bf s1c (fun b => set_rxq b rest)) m) by (apply TM_ext2 with s1c; auto).
        assert (Hin2 : in_connection (upd_bf s1c (fun b => set_rxq b rest)) = true) by (rewrite <- Hin; apply inconn_st; apply Hs).
        apply (IH _ m s1 it res HR2 T2 Hin2 H).
Qed.

(* ========================================================================================== transmit_pending_security_pdus *)
Definition apost (b : bool) (c : cfg) (m : mon28) (s' : lstate_t) (it : list item) : Prop :=
  exists m1, fold28 true m it = (Ok, m1) /\ fold28 false m it = (Ok, m1) /\ (in_connection s' = true -> TM b c s' m1).

Lemma apost_app b1 b2 c m s1 it1 s2 it2 :
  apost b1 c m s1 it1 ->
  (forall m1, fold28 false m it1 = (Ok, m1) -> (in_connection s1 = true -> TM b1 c s1 m1) -> apost b2 c m1 s2 it2) ->
  apost b2 c m s2 (it1 ++ it2).
Proof.
  intros (m1 & F1 & G1 & T1) H. destruct (H m1 G1 T1) as (m2 & F2 & G2 & T2).
  exists m2. rewrite (fold28_app _ _ _ _ _ F1), (fold28_app _ _ _ _ _ G1). auto.
Qed.

Lemma apost_quiet b c m s' it :
  (in_connection s' = true -> TM b c s' m) -> forallb quiet_item it = true -> apost b c m s' it.
Proof. intros T Q. exists m. rewrite !(fold28_quiet _ m it Q). auto. Qed.

(* force_disconnect: both folds agree, and the link is gone *)
Lemma fd_apost b c s m s' it :
  R c s m -> force_disconnect c s = (s', it) -> apost b c m s' it.
Proof.
  intros HR H. destruct (force_disconnect_post c s m s' it HR H) as (m' & F & HR' & I & Q).
  exists m'. split; [|split; [exact F|rewrite I; discriminate]].
  unfold force_disconnect in H. destruct (reset_encryption c s) as [s1 i1] eqn:E1.
  unfold start_advertising_impl, handle_start_advertising in H. injection H as _ <-.
  unfold reset_encryption in E1. destruct (c_enc c); injection E1 as _ <-; unfold reset_phy in *; destruct (c_phy c); exact F.
Qed.

Lemma scp_tm c s m : TM true c s m -> TM true c (send_control_pdus s) m.
Proof.
  intros T. unfold send_control_pdus.
  destruct (lstate_eqb (st s) Disconnecting && negb (term_sent s) && tx_buffer_available s) eqn:E; [|exact T].
  assert (Sd : st s = Disconnecting).
  { apply andb_true_iff in E. destruct E as [E _]. apply andb_true_iff in E. destruct E as [E _]. destruct (st s); try discriminate; reflexivity. }
  pose proof (TM_commit_plain true c s m (GenLL.ll_control_pdu_code, [GenLL.LL_TERMINATE_IND; disc_reason s]) eq_refl T) as T1.
  fold (commit_ctrl s [GenLL.LL_TERMINATE_IND; disc_reason s]) in T1.
  destruct T1 as ((U1 & U2 & U3 & U4) & (W & S2 & S3 & S4 & S5)).
  unfold TM, UQ, SQ, unaired, WFb in *.
  cbn [bf sc st set_term_sent upd_bf set_bf set_stopped txq fl stopped tx_avail] in *.
  split; [auto|]. split; [exact W|]. split; [exact S2|]. split; [exact S3|]. split; [exact S4|].
  intros D. exfalso. destruct (S5 D) as [X _]. apply X. rewrite st_commit_ctrl. exact Sd.
Qed.

Lemma reject_is_rej s : isrej (GenLL.ll_control_pdu_code, reject_pdu s GenLL.LL_ENC_REQ GenLL.err_pin_or_key_missing) = true
  /\ special (GenLL.ll_control_pdu_code, reject_pdu s GenLL.LL_ENC_REQ GenLL.err_pin_or_key_missing) = false.
Proof. unfold reject_pdu. destruct (bit _ _); split; reflexivity. Qed.

Lemma tpsp_tm c s m s6 it6 :
  R c s m -> TM true c s m -> transmit_pending_security_pdus c s = (s6, it6) ->
  exists m6, fold28 true m it6 = (Ok, m6) /\ fold28 false m it6 = (Ok, m6) /\ TM false c s6 m6.
Proof.
  intros HR HT H. unfold transmit_pending_security_pdus in H.
  destruct HR as (R1 & R2 & R3 & R4 & R5 & R6).
  destruct (c_enc c && enc_prog (sc s) && tx_buffer_available s) eqn:E.
  - set (X := upd_sc s (fun x => set_enc_prog x false)) in *.
    assert (FX : bf X = bf s /\ st X = st s /\ has_key (sc X) = has_key (sc s) /\ enc_prog (sc X) = false) by (subst X; cbn; auto).
    destruct FX as (FX1 & FX2 & FX3 & FX4).
    destruct HT as ((U1 & U2 & U3 & U4) & (W & S2 & S3 & S4 & S5)).
    assert (WX : WFb X) by (unfold WFb; rewrite FX1; exact W).
    assert (UX : unaired X = unaired s) by (unfold unaired; rewrite FX1; reflexivity).
    destruct (has_key (sc s)) eqn:Ek; injection H as <- <-; unfold commit_ctrl.
    + cbn [fold28 item28]. rewrite (R3 eq_refl). eexists. split; [reflexivity|]. split; [reflexivity|].
      destruct (stopped (bf X)) eqn:St.
      * rewrite (commit_stopped X _ St). unfold TM, UQ, SQ. rewrite UX, FX2, FX3, FX4, FX1.
        cbn [q_due5 q_cur q_enc q_unk q_disc q_rej q_key].
        split; [split; [apply Nat.le_le_succ_r; exact U1|split; [exact U2|split; [intros P; split; [apply (U3 P)|discriminate]|]]]|].
        -- intros _ K'. exfalso. destruct (S4 K') as (_ & _ & Y). destruct (Y eq_refl) as (_ & Y2 & _). discriminate.
        -- split; [exact WX|]. split; [exact S2|]. split; [exact S3|]. split; [|exact S5].
           intros K'. destruct (S4 K') as (Y1 & Y2 & _). split; [exact Y1|]. split; [exact Y2|discriminate].
      * destruct (unaired_commit X (GenLL.ll_control_pdu_code, [GenLL.LL_START_ENC_REQ]) WX St) as (C1 & C2 & C3 & C4).
        unfold TM, UQ, SQ. rewrite C1, sc_commit, st_commit, C3, C4, UX, FX2, FX3, FX4, FX1.
        rewrite count5_snoc, !existsb_snoc. change (is5 (GenLL.ll_control_pdu_code, [GenLL.LL_START_ENC_REQ])) with true.
        change (isval (GenLL.ll_control_pdu_code, [GenLL.LL_START_ENC_REQ])) with false.
        change (ispau (GenLL.ll_control_pdu_code, [GenLL.LL_START_ENC_REQ])) with false. rewrite !orb_false_r.
        cbn [q_due5 q_cur q_enc q_unk q_disc q_rej q_key].
        split; [split; [rewrite Nat.add_1_r; apply le_n_S; exact U1|split; [exact U2|split; [intros P; split; [apply (U3 P)|discriminate]|]]]|].
        -- intros _ K'. exfalso. destruct (S4 K') as (_ & _ & Y). destruct (Y eq_refl) as (_ & Y2 & _). discriminate.
        -- split; [exact C2|]. split; [exact S2|]. split; [exact S3|]. split.
           ++ intros K'. destruct (S4 K') as (Y1 & Y2 & _). split; [exact Y1|]. split; [exact Y2|discriminate].
           ++ intros D. split; [apply (S5 D)|reflexivity].
    + exists m. split; [reflexivity|]. split; [reflexivity|].
      destruct (reject_is_rej s) as [Rj Pl].
      destruct (stopped (bf X)) eqn:St.
      * rewrite (commit_stopped X _ St). unfold TM, UQ, SQ. rewrite UX, FX2, FX3, FX4, FX1.
        split; [split; [exact U1|split; [exact U2|split; [intros P; split; [apply (U3 P)|discriminate]|]]]|].
        -- intros _ K' D. exfalso. destruct (S5 D) as [_ Y]. rewrite FX1 in St. congruence.
        -- split; [exact WX|]. split; [exact S2|]. split; [exact S3|]. split; [|exact S5].
           intros K'. destruct (S4 K') as (Y1 & Y2 & _). split; [exact Y1|]. split; [exact Y2|discriminate].
      * destruct (unaired_commit X (GenLL.ll_control_pdu_code, reject_pdu s GenLL.LL_ENC_REQ GenLL.err_pin_or_key_missing) WX St) as (C1 & C2 & C3 & C4).
        unfold special in Pl. apply orb_false_iff in Pl. destruct Pl as [Pl Pv]. apply orb_false_iff in Pl. destruct Pl as [P5 Pp].
        unfold TM, UQ, SQ. rewrite C1, sc_commit, st_commit, C3, C4, UX, FX2, FX3, FX4, FX1.
        rewrite count5_snoc, !existsb_snoc, P5, Pp, Pv, Rj, !orb_false_r, orb_true_r, Nat.add_0_r.
        split; [split; [exact U1|split; [exact U2|split; [intros P; split; [apply (U3 P)|discriminate]|auto]]]|].
        split; [exact C2|]. split; [exact S2|]. split; [exact S3|]. split.
        -- intros K'. destruct (S4 K') as (Y1 & Y2 & _). split; [exact Y1|]. split; [exact Y2|discriminate].
        -- intros D. split; [apply (S5 D)|reflexivity].
  - injection H as <- <-. exists m. split; [reflexivity|]. split; [reflexivity|].
    destruct HT as ((U1 & U2 & U3 & U4) & (W & S2 & S3 & S4 & S5)).
    unfold TM, UQ, SQ.
    split; [split; [exact U1|split; [exact U2|split; [intros P; split; [apply (U3 P)|discriminate]|]]]|].
    + intros _ K'. exfalso. destruct (S4 K') as (Y1 & _ & Y). destruct (Y eq_refl) as (Z1 & _ & Z3).
      unfold tx_buffer_available in E. rewrite Y1, Z1, Z3 in E. discriminate.
    + split; [exact W|]. split; [exact S2|]. split; [exact S3|]. split; [|exact S5].
      intros K'. destruct (S4 K') as (Y1 & Y2 & _). split; [exact Y1|]. split; [exact Y2|discriminate].
Qed.

(* ========================================================================================== end_event *)
Lemma hpll_bf c s s1 it res :
  handle_pending_ll_control c s = Some (s1, it, res) -> bf s1 = bf s /\ forallb quiet_item it = true.
Proof.
  unfold handle_pending_ll_control. destruct (deferred s) as [body|]; [|intros H; injection H as <- <- <-; auto].
  destruct (def_instant s =? evc (cs s)); [|intros H; injection H as <- <- <-; auto].
  destruct (byte body 0 =? GenLL.LL_CHANNEL_MAP_REQ).
  - destruct (ChanMapModel.reset_impl _ _ _) as [ch o]. intros H; injection H as <- <- <-. cbn. auto.
  - destruct (byte body 0 =? GenLL.LL_CONNECTION_UPDATE_IND).
    + destruct (parse_update body) as [t ok]. destruct ok as [[|]|]; [| |discriminate]; intros H; injection H as <- <- <-.
      * rewrite bf_push_event. cbn. auto.
      * cbn. auto.
    + intros H; injection H as <- <- <-. rewrite bf_push_event. cbn. auto.
Qed.

Lemma setup_next_bf s s' it :
  setup_next_connection_event s = Some (s', it) -> bf s' = bf s /\ forallb quiet_item it = true.
Proof.
  unfold setup_next_connection_event.
  destruct (if negb (tw_size (tm s) =? 0) then _ else _) as [[ws we]|]; cbn [obind]; [|discriminate].
  intros H. injection H as <- <-. auto.
Qed.

Lemma plan_next_bf c s e s7 : plan_next_connection_event c s e = Some s7 -> bf s7 = bf s.
Proof.
  unfold plan_next_connection_event. destruct (dt_mul _ _); cbn [obind]; [|discriminate].
  destruct (_ && _); [discriminate|]. intros H. injection H as <-. reflexivity.
Qed.

Lemma TM_ext3 b c s s' m : TM b c s m -> bf s' = bf s -> sc s' = sc s -> (st s' = Disconnecting -> st s = Disconnecting) -> TM b c s' m.
Proof. intros T Hb Hs Ht. apply TM_ext2 with s; auto; rewrite Hb; reflexivity. Qed.

Lemma tpcp_tm b c s m : TM b c s m -> TM b c (transmit_pending_control_pdus c s) m.
Proof.
  intros T. unfold transmit_pending_control_pdus.
  repeat match goal with |- context [if ?x then _ else _] => destruct x end; try exact T;
    (apply TM_commit_plain; [reflexivity|]; apply TM_ext3 with s; [exact T|reflexivity|reflexivity|auto]).
Qed.

Lemma pending_then_setup_tm c s m s' it :
  R c s m -> TM false c s m -> in_connection s = true -> pending_then_setup c s = Some (s', it) -> apost false c m s' it.
Proof.
  intros HR HT Hin H. unfold pending_then_setup in H.
  destruct (handle_pending_ll_control c s) as [[[s1 it1] res]|] eqn:E; cbn [obind] in H; [|discriminate].
  destruct (hpll_frame c s s1 it1 res E) as (F1 & F2 & F3 & F4). destruct (hpll_bf c s s1 it1 res E) as (B1 & Q1).
  assert (T1 : TM false c s1 m).
  { apply TM_ext3 with s; auto. intros D. destruct F3 as [F3|F3]; congruence. }
  assert (HR1 : R c s1 m) by (eapply R_ext; eauto; rewrite Hin; auto).
  destruct res.
  - destruct (setup_next_connection_event s1) as [[s2 it2]|] eqn:E2; cbn [obind] in H; [|discriminate].
    injection H as <- <-. destruct (setup_next_frame28 s1 s2 it2 E2) as (G1 & G2 & G3). destruct (setup_next_bf s1 s2 it2 E2) as (B2 & Q2).
    apply apost_quiet; [|rewrite forallb_app, Q1, Q2; reflexivity].
    intros _. apply TM_ext3 with s1; auto. congruence.
  - destruct (force_disconnect c s1) as [s2 it2] eqn:E2. injection H as <- <-.
    apply apost_app with false s1; [apply apost_quiet; auto|].
    intros m1 Fm _. rewrite (fold28_quiet false m it1 Q1) in Fm. injection Fm as <-.
    apply fd_apost with s1; assumption.
Qed.

Lemma end_event_continue_tm c s m evts s' it :
  R c s m -> TM true c s m -> in_connection s = true -> end_event_continue c s evts = Some (s', it) -> apost false c m s' it.
Proof.
  intros HR HT Hin H. unfold end_event_continue in H.
  destruct (procedure_timed_out s).
  - injection H as H. unfold force_disconnect_reason in H.
    apply fd_apost with (set_disc_reason s GenLL.connection_ll_response_timeout); [eapply R_ext; eauto|exact H].
  - set (s5 := if negb (proc_timeout s =? 0) then set_proc_timeout s (proc_timeout s - tsle (cs s)) else s) in *.
    assert (F5 : bf s5 = bf s /\ sc s5 = sc s /\ st s5 = st s) by (subst s5; destruct (negb _); auto).
    destruct F5 as (F51 & F52 & F53).
    destruct (transmit_pending_security_pdus c s5) as [s6 it6] eqn:E6.
    assert (HR5 : R c s5 m) by (eapply R_ext; eauto; apply inconn_st; exact F53).
    assert (Hin5 : in_connection s5 = true) by (rewrite <- Hin; apply inconn_st; exact F53).
    assert (T5 : TM true c s5 m) by (apply TM_ext3 with s; auto; congruence).
    destruct (tpsp_post c s5 m s6 it6 HR5 Hin5 E6) as ((mp & Fp & HRp & _) & S6 & A6).
    destruct (tpsp_tm c s5 m s6 it6 HR5 T5 E6) as (m6 & Ft & Ff & T6).
    assert (mp = m6) by (eapply fold_fun; eauto). subst mp.
    destruct (plan_next_connection_event c s6 _) as [s7|] eqn:E7; cbn [obind] in H; [|discriminate].
    destruct (plan_next_frame28 c s6 _ s7 E7) as (G1 & G2). pose proof (plan_next_bf c s6 _ s7 E7) as B7.
    destruct (pending_then_setup c s7) as [[s8 it8]|] eqn:E8; cbn [obind] in H; [|discriminate].
    injection H as <- <-.
    apply apost_app with false s6; [exists m6; auto|].
    intros m1 Fm _. assert (m1 = m6) by (eapply fold_fun; eauto). subst m1.
    apply pending_then_setup_tm with s7; auto.
    + eapply R_ext; eauto. apply inconn_st. exact G2.
    + apply TM_ext3 with s6; auto. congruence.
    + rewrite (inconn_st s6 s7 G2), (inconn_st s5 s6 S6). exact Hin5.
Qed.

Lemma prologue_tm c s m : TM true c s m -> TM true c (end_event_prologue c s) m.
Proof.
  intros T. unfold end_event_prologue.
  set (s0 := set_pending_event s false).
  set (s1 := match st s0 with Connecting => push_event c s0 (EvEstablished (details_of s0)) | _ => s0 end).
  assert (F : bf s1 = bf s /\ sc s1 = sc s /\ st s1 = st s)
    by (subst s1 s0; cbn [st set_pending_event]; destruct (st s) eqn:Es; rewrite ?bf_push_event, ?sc_push_event, ?st_push_event; cbn [bf sc st set_pending_event]; rewrite ?Es; auto).
  destruct F as (F1 & F2 & F3).
  destruct (lstate_eqb (st s1) Disconnecting) eqn:E.
  - apply TM_ext3 with s; auto. congruence.
  - apply TM_ext3 with s; auto. cbn. discriminate.
Qed.

Lemma end_event_body_tm c s m evts s' it :
  R c s m -> TM true c s m -> in_connection s = true -> end_event_body c s evts = Some (s', it) -> apost false c m s' it.
Proof.
  intros HR HT Hin H. unfold end_event_body in H.
  destruct (lstate_eqb (st s) Disconnecting && term_sent s && negb (pending_outgoing_data_available s)).
  - injection H as H. apply fd_apost with s; assumption.
  - destruct (handle_received_data _ c s) as [[s3 it3] res] eqn:E3.
    destruct (hrd_post _ c s m s3 it3 res HR Hin E3) as ((mp & Fp & HRp & _) & S3 & A3).
    destruct (hrd_tm _ c s m s3 it3 res HR HT Hin E3) as (m3 & Ft & Ff & T3).
    assert (mp = m3) by (eapply fold_fun; eauto). subst mp.
    assert (Hin3 : in_connection s3 = true) by (rewrite <- Hin; apply inconn_st, S3).
    destruct res.
    + destruct (end_event_continue c (send_control_pdus s3) evts) as [[s8 it8]|] eqn:E8; cbn [obind] in H; [|discriminate].
      injection H as <- <-. destruct (send_control_pdus_frame s3) as [G1 G2].
      apply apost_app with true s3; [exists m3; auto|].
      intros m1 Fm _. assert (m1 = m3) by (eapply fold_fun; eauto). subst m1.
      apply end_event_continue_tm with (send_control_pdus s3) evts; auto.
      * eapply R_ext; eauto. apply inconn_st. exact G2.
      * apply scp_tm. exact T3.
      * rewrite (inconn_st s3 _ G2). exact Hin3.
    + destruct (force_disconnect c s3) as [s4 it4] eqn:E4. injection H as <- <-.
      apply apost_app with true s3; [exists m3; auto|].
      intros m1 Fm _. assert (m1 = m3) by (eapply fold_fun; eauto). subst m1.
      apply fd_apost with s3; assumption.
Qed.

Lemma flush_quiet s : forallb quiet_item (snd (flush_events s)) = true.
Proof. unfold flush_events. cbn [snd]. induction (ring s); simpl; auto. Qed.

Lemma epilogue_tm c m0 m s it s' it' :
  (exists m1, fold28 true m0 it = (Ok, m1) /\ fold28 false m0 it = (Ok, m1) /\ (in_connection s = true -> TM false c s m1)) ->
  m = m0 -> end_event_epilogue c s it = (s', it') -> apost false c m s' it'.
Proof.
  intros (m1 & F & G & T) -> H. unfold end_event_epilogue in H.
  set (s10 := match st s with Connected | Connecting => transmit_pending_control_pdus c s | _ => s end) in *.
  pose proof (flush_quiet s10) as FQ. unfold flush_events in H, FQ. cbn [snd] in FQ. injection H as <- <-.
  exists m1. rewrite (fold28_app _ _ _ _ _ F), (fold28_app _ _ _ _ _ G), !(fold28_quiet _ m1 _ FQ).
  split; [reflexivity|]. split; [reflexivity|].
  unfold in_connection. cbn [st set_ring]. intros I.
  assert (I0 : in_connection s = true).
  { subst s10. unfold in_connection. destruct (st s) eqn:Es; rewrite ?(proj2 (tpcp_frame c s)), ?Es in I; rewrite ?Es; exact I. }
  apply TM_ext3 with s10; [|reflexivity|reflexivity|auto].
  subst s10. destruct (st s); try (apply T; exact I0); apply tpcp_tm, T, I0.
Qed.

Lemma do_end_event_tm c s m evts s' it :
  R c s m -> TM true c s m -> in_connection s = true -> do_end_event c s evts = Some (s', it) -> apost false c m s' it.
Proof.
  intros HR HT Hin H. unfold do_end_event in H.
  destruct (prologue_frame28 c s Hin) as [F1 F2].
  destruct (end_event_body c (end_event_prologue c s) evts) as [[s9 it9]|] eqn:E; cbn [obind] in H; [|discriminate].
  assert (H' : end_event_epilogue c s9 it9 = (s', it)) by congruence.
  assert (HR2 : R c (end_event_prologue c s) m) by (eapply R_ext; eauto; congruence).
  pose proof (end_event_body_tm c _ m evts s9 it9 HR2 (prologue_tm c s m HT) F2 E) as P9.
  apply (epilogue_tm c m m s9 it9 s' it P9 eq_refl H').
Qed.

(* ========================================================================================== the invariant between operations *)
(* ---------------------------------------------------------------- the invariant between operations *)
Definition TB (c : cfg) (s : lstate_t) (m : mon28) : Prop :=
  in_connection s = true ->
  WFb s /\ (count5 (unaired s) <= q_due5 m)%nat /\ (q_rej m = true -> existsb isrej (unaired s) = true)
  /\ (existsb isval (unaired s) = true -> q_win m = true) /\ (existsb ispau (unaired s) = true -> q_enc m = false)
  /\ (q_disc m = false -> st s <> Disconnecting /\ stopped (bf s) = false).

Lemma TB_ext c s s' m m' :
  TB c s m -> txq (bf s') = txq (bf s) -> fl (bf s') = fl (bf s) -> stopped (bf s') = stopped (bf s) ->
  (in_connection s' = true -> in_connection s = true /\ (st s' = Disconnecting -> st s = Disconnecting)) ->
  q_due5 m' = q_due5 m -> q_rej m' = q_rej m -> q_win m' = q_win m -> q_enc m' = q_enc m -> q_disc m' = q_disc m ->
  TB c s' m'.
Proof.
  intros T H1 H2 H3 Hi Q1 Q2 Q3 Q4 Q5 I'. destruct (Hi I') as [I Hd]. destruct (T I) as (W & B1 & B2 & B3 & B4 & B5).
  unfold WFb, unaired in *. rewrite H1, H2, H3, Q1, Q2, Q3, Q4, Q5.
  split; [exact W|]. split; [exact B1|]. split; [exact B2|]. split; [exact B3|]. split; [exact B4|].
  intros D. destruct (B5 D) as [X Y]. split; [intros Z; apply X, Hd, Z|exact Y].
Qed.

(* with air = false nothing ever touches q_rej, q_win, q_disc *)
Lemma item28_false_frame m i m1 : item28 false m i = (Ok, m1) -> q_rej m1 = q_rej m /\ q_win m1 = q_win m /\ q_disc m1 = q_disc m.
Proof.
  destruct i; simpl; try (intros H; injection H as <-; auto; fail).
  - destruct on; [destruct (q_req m) as [[|]|]; intros H; try discriminate|intros H]; injection H as <-; auto.
  - destruct on; [destruct (q_req m) as [[|]|]; try discriminate; destruct (q_sent m); intros H; try discriminate|intros H]; injection H as <-; auto.
Qed.
Lemma fold28_false_frame it : forall m m1, fold28 false m it = (Ok, m1) -> q_rej m1 = q_rej m /\ q_win m1 = q_win m /\ q_disc m1 = q_disc m.
Proof.
  induction it as [|i t IH]; intros m m1 H; simpl in H; [injection H as <-; auto|].
  destruct (item28 false m i) as [[|k] m2] eqn:E; [|discriminate].
  destruct (item28_false_frame _ _ _ E) as (A1 & A2 & A3). destruct (IH _ _ H) as (B1 & B2 & B3). split; [|split]; congruence.
Qed.

(* from the invariant inside an operation to the invariant between operations (end of an Ev operation) *)
Lemma TM_to_TB c s m1 :
  (in_connection s = true -> TM false c s m1) ->
  TB c s (mk28 (q_key m1) (q_req m1) (q_sent m1) (q_enc m1) (q_was m1) (q_cur m1) (q_cur m1) (q_due5 m1) (q_unk m1)
               (q_unk m1 && negb (q_disc m1)) (q_disc m1)).
Proof.
  intros T I. destruct (T I) as ((U1 & U2 & U3 & U4) & (W & S2 & S3 & S4 & S5)).
  cbn [q_due5 q_rej q_win q_enc q_disc].
  split; [exact W|]. split; [exact U1|]. split.
  - intros K. apply andb_true_iff in K. destruct K as [K1 K2]. apply negb_true_iff in K2. apply (U4 eq_refl K1 K2).
  - split; [exact U2|]. split; [intros P; apply (U3 P)|exact S5].
Qed.

Lemma unaired_le_txq s : (length (unaired s) <= length (txq (bf s)))%nat.
Proof. unfold unaired. destruct (fl (bf s)); try lia. destruct (txq (bf s)); simpl; lia. Qed.

Lemma fold28_false_air m l : fold28 false m (map air_item l) = (Ok, m).
Proof. induction l as [|p l IH]; simpl; auto. Qed.

(* ========================================================================================== one connection event *)
Lemma has_adv28_air l : has_adv28 (map air_item l) = false.
Proof. induction l; simpl; auto. Qed.

Lemma ev_step c s m evts pdus s1 it1 s2 it2 :
  R c s m -> TB c s m -> in_connection s = true ->
  radio_event (S (length pdus + length (txq (bf s)))) s pdus = (s1, it1) ->
  do_end_event c s1 evts = Some (s2, it2) ->
  exists m', mstep28g true c m (Ev evts pdus) (OItems (it1 ++ it2)) = (Ok, m') /\ R c s2 m' /\ TB c s2 m'.
Proof.
  intros HR HB Hin E1 E2. destruct (HB Hin) as (W & B1 & B2 & B3 & B4 & B5).
  assert (Hf : (length pdus + length (unaired s) < S (length pdus + length (txq (bf s))))%nat) by (pose proof (unaired_le_txq s); lia).
  destruct (radio_event_air _ s pdus s1 it1 Hf W E1) as (X1 & X2 & X3 & X4 & X5 & X6 & X7).
  set (m0 := begin28 m (Ev evts pdus)).
  destruct (air_fold (unaired s) m0) as (ma & Fa & (K1 & K2 & K3 & K4 & K5 & K6 & K7 & K8 & K9) & Q5 & Qr); [exact B1|exact B3|exact B4|].
  cbn [m0 begin28 q_key q_req q_sent q_enc q_was q_win q_cur q_unk q_disc q_due5 q_rej] in K1, K2, K3, K4, K5, K6, K7, K8, K9, Q5, Qr.
  assert (Hin1 : in_connection s1 = true) by (rewrite <- Hin; apply inconn_st; exact X5).
  assert (HRa : R c s1 ma) by (eapply R_ext; [exact HR|exact X4|apply inconn_st; exact X5|exact K1|exact K2|exact K3|exact K4]).
  assert (Qr0 : q_rej ma = false).
  { rewrite Qr. destruct (q_rej m) eqn:Erj; [|reflexivity]. rewrite (B2 eq_refl). reflexivity. }
  assert (HTa : TM true c s1 ma).
  { unfold TM, UQ, SQ. rewrite X2. cbn [count5 filter length existsb].
    split; [split; [apply Nat.le_0_l|split; [discriminate|split; [discriminate|discriminate]]]|].
    split; [exact X3|]. split; [rewrite K4, K7; auto|]. split; [exact Qr0|]. split; [rewrite K8; discriminate|].
    rewrite K9, X5, X6. exact B5. }
  destruct (do_end_event_post c s1 ma evts s2 it2 HRa Hin1 E2) as (mp & Fp & HRp & Ap).
  destruct (do_end_event_tm c s1 ma evts s2 it2 HRa HTa Hin1 E2) as (m1 & Ft & Ff & T1).
  assert (mp = m1) by (eapply fold_fun; eauto). subst mp.
  destruct (fold28_false_frame it2 ma m1 Ff) as (J1 & J2 & J3).
  unfold mstep28g. fold m0. rewrite X1, (fold28_app _ _ _ _ _ Fa), Ft.
  rewrite J1, Qr0. cbn [andb]. rewrite has_adv28_app, has_adv28_air. cbn [orb].
  destruct (has_adv28 it2) eqn:Ea.
  - destruct (Ap eq_refl) as [I Q]. rewrite Q. eexists. split; [reflexivity|].
    destruct HRp as (R1 & R2 & R3 & R4 & R5 & R6).
    split; [apply R_off; [exact R1|reflexivity|apply (R5 I)]|]. intros I'. congruence.
  - eexists. split; [reflexivity|]. split; [eapply R_ext; [exact HRp|..]; reflexivity|apply TM_to_TB; exact T1].
Qed.

(* ========================================================================================== shapes of the other operations *)
Definition noitx_item (i : item) : bool := match i with ITx _ _ => false | _ => true end.
Lemma fold28_noitx it : forall m, forallb noitx_item it = true -> fold28 true m it = fold28 false m it.
Proof.
  induction it as [|i t IH]; intros m H; simpl in *; [reflexivity|].
  apply andb_true_iff in H. destruct H as [Hi Ht].
  assert (E : item28 true m i = item28 false m i) by (destruct i; simpl in Hi; try discriminate; reflexivity).
  rewrite E. destruct (item28 false m i) as [[|k] m2]; [apply IH; exact Ht|reflexivity].
Qed.
Lemma quiet_noitx it : forallb quiet_item it = true -> forallb noitx_item it = true.
Proof.
  induction it as [|i t IH]; simpl; [auto|]. intros H. apply andb_true_iff in H. destruct H as [A B].
  rewrite (IH B), andb_true_r. destruct i; simpl in *; congruence.
Qed.

(* ... and nothing that announces the end of the link either *)
Definition calm_item (i : item) : bool := quiet_item i && match i with IAdv _ => false | _ => true end.
Lemma calm_quiet it : forallb calm_item it = true -> forallb quiet_item it = true /\ has_adv28 it = false.
Proof.
  induction it as [|i t IH]; simpl; [auto|]. intros H. apply andb_true_iff in H. destruct H as [A B].
  destruct (IH B) as [Q Ha]. unfold calm_item in A. apply andb_true_iff in A. destruct A as [A1 A2].
  rewrite A1, Q. split; [reflexivity|]. unfold has_adv28 in *. simpl. rewrite Ha. destruct i; simpl in *; congruence.
Qed.

Lemma mstep_noitx c m o it :
  forallb noitx_item it = true -> match o with Ev _ _ => False | _ => True end ->
  mstep28g true c m o (OItems it) = mstep28g false c m o (OItems it).
Proof.
  intros N Ho. unfold mstep28g. rewrite (fold28_noitx it _ N). destruct o; try reflexivity. destruct Ho.
Qed.

Lemma fd_noitx c s s' it : force_disconnect c s = (s', it) -> forallb noitx_item it = true /\ in_connection s' = false.
Proof.
  unfold force_disconnect. destruct (reset_encryption c s) as [s1 i1] eqn:E1.
  unfold start_advertising_impl, handle_start_advertising. intros H. injection H as <- <-.
  split; [|reflexivity]. unfold reset_encryption in E1. destruct (c_enc c); injection E1 as _ <-; unfold reset_phy; destruct (c_phy c); reflexivity.
Qed.

Lemma hpll_calm c s s1 it res : handle_pending_ll_control c s = Some (s1, it, res) -> forallb calm_item it = true.
Proof.
  unfold handle_pending_ll_control. destruct (deferred s) as [body|]; [|intros H; injection H as <- <- <-; auto].
  destruct (def_instant s =? evc (cs s)); [|intros H; injection H as <- <- <-; auto].
  destruct (byte body 0 =? GenLL.LL_CHANNEL_MAP_REQ).
  - destruct (ChanMapModel.reset_impl _ _ _) as [ch o]. intros H; injection H as <- <- <-. reflexivity.
  - destruct (byte body 0 =? GenLL.LL_CONNECTION_UPDATE_IND).
    + destruct (parse_update body) as [t ok]. destruct ok as [[|]|]; [| |discriminate]; intros H; injection H as <- <- <-; reflexivity.
    + intros H; injection H as <- <- <-. reflexivity.
Qed.
Lemma setup_next_calm s s' it : setup_next_connection_event s = Some (s', it) -> forallb calm_item it = true.
Proof.
  unfold setup_next_connection_event.
  destruct (if negb (tw_size (tm s) =? 0) then _ else _) as [[ws we]|]; cbn [obind]; [|discriminate].
  intros H. injection H as <- <-. reflexivity.
Qed.
Lemma flush_calm s : forallb calm_item (snd (flush_events s)) = true.
Proof. unfold flush_events. cbn [snd]. induction (ring s); simpl; auto. Qed.

(* pending_then_setup: either the link is gone, or nothing the monitor looks at happened *)
Lemma pts_shape c s s' it :
  pending_then_setup c s = Some (s', it) ->
  forallb noitx_item it = true
  /\ (in_connection s' = true -> forallb calm_item it = true /\ bf s' = bf s /\ (st s' = Disconnecting -> st s = Disconnecting)).
Proof.
  unfold pending_then_setup. intros H.
  destruct (handle_pending_ll_control c s) as [[[s1 it1] res]|] eqn:E; cbn [obind] in H; [|discriminate].
  destruct (hpll_frame c s s1 it1 res E) as (F1 & F2 & F3 & F4). destruct (hpll_bf c s s1 it1 res E) as (B1 & Q1).
  destruct res.
  - destruct (setup_next_connection_event s1) as [[s2 it2]|] eqn:E2; cbn [obind] in H; [|discriminate].
    injection H as <- <-. destruct (setup_next_frame28 s1 s2 it2 E2) as (G1 & G2 & G3). destruct (setup_next_bf s1 s2 it2 E2) as (B2 & Q2).
    assert (Q : forallb calm_item (it1 ++ it2) = true) by (rewrite forallb_app, (hpll_calm _ _ _ _ _ E), (setup_next_calm _ _ _ E2); reflexivity).
    split; [apply quiet_noitx, (calm_quiet _ Q)|]. intros _. split; [exact Q|]. split; [congruence|].
    intros D. rewrite G2 in D. destruct F3 as [F3|F3]; congruence.
  - destruct (force_disconnect c s1) as [s2 it2] eqn:E2. injection H as <- <-.
    destruct (fd_noitx c s1 s2 it2 E2) as [N I]. split; [rewrite forallb_app, (quiet_noitx _ Q1), N; reflexivity|].
    intros I'. congruence.
Qed.

Lemma timeout_shape c s s' it :
  do_timeout c s = Some (s', it) ->
  forallb noitx_item it = true
  /\ (in_connection s' = true -> forallb calm_item it = true /\ txq (bf s') = txq (bf s) /\ fl (bf s') = fl (bf s)
                                 /\ stopped (bf s') = stopped (bf s) /\ (st s' = Disconnecting -> st s = Disconnecting)).
Proof.
  unfold do_timeout. intros H. set (s0 := set_pending_event s false) in *.
  match type of H with (do r <- ?X; _) = _ => destruct X as [[s2 it2]|] eqn:E end; cbn [obind] in H; [|discriminate].
  pose proof (flush_calm s2) as FQ. unfold flush_events in H, FQ. cbn [snd] in FQ. injection H as <- <-.
  assert (P : forallb noitx_item it2 = true
              /\ (in_connection s2 = true -> forallb calm_item it2 = true /\ bf s2 = bf s /\ (st s2 = Disconnecting -> st s = Disconnecting))).
  { destruct (lstate_eqb (st s0) Disconnecting && term_sent s0 && negb (pending_outgoing_data_available s0)).
    - injection E as E. destruct (fd_noitx _ _ _ _ E) as [N I]. split; [exact N|intros I'; congruence].
    - destruct (negb (proc_timeout s0 =? 0) && (proc_timeout s0 <=? tsle (cs s0))).
      + injection E as E. unfold force_disconnect_reason in E. destruct (fd_noitx _ _ _ _ E) as [N I]. split; [exact N|intros I'; congruence].
      + destruct (dt_mul _ _) as [five|]; cbn [obind] in E; [|discriminate].
        destruct (_ && _).
        * unfold plan_after_timeout in E. destruct (dt_add _ _) as [t|]; cbn [obind] in E; [|discriminate].
          destruct (pts_shape _ _ _ _ E) as [N Q]. split; [exact N|]. intros I. destruct (Q I) as (Q1 & Q2 & Q3). auto.
        * injection E as E. destruct (fd_noitx _ _ _ _ E) as [N I]. split; [exact N|intros I'; congruence]. }
  destruct P as [N Q]. split; [rewrite forallb_app, N, (quiet_noitx _ (proj1 (calm_quiet _ FQ))); reflexivity|].
  unfold in_connection. cbn [st bf set_ring]. intros I. destruct (Q I) as (Q1 & Q2 & Q3).
  rewrite forallb_app, Q1, FQ, Q2. auto.
Qed.

Lemma adv_shape28 c s hdr0 body s' it :
  do_adv_received c s hdr0 body = Some (s', it) -> in_connection s = false ->
  forallb quiet_item it = true
  /\ (in_connection s' = true -> has_ce28 it = true /\ txq (bf s') = [] /\ fl (bf s') = FNone /\ stopped (bf s') = false /\ st s' = Connecting).
Proof.
  intros H Hin. unfold do_adv_received in H.
  destruct (valid_connect_request c hdr0 body).
  - destruct (ChanMapModel.reset_impl _ _ _) as [ch r].
    destruct r as [[|]| | | |]; try discriminate.
    + destruct (parse_connect body) as [t ok]. destruct ok as [[|]|]; [| |discriminate].
      * match type of H with (do r11 <- setup_next_connection_event ?X; _) = _ => remember X as s10 eqn:E10 end.
        assert (F10 : st s10 = Connecting /\ txq (bf s10) = [] /\ fl (bf s10) = FNone /\ stopped (bf s10) = false) by (subst s10; repeat split; reflexivity).
        clear E10. destruct F10 as (F1 & F2 & F3 & F4).
        destruct (setup_next_connection_event s10) as [[s11 it11]|] eqn:E11; cbn [obind] in H; [|discriminate].
        destruct (setup_next_frame28 _ _ _ E11) as (G1 & G2 & G3). destruct (setup_next_bf _ _ _ E11) as (B2 & Q2).
        assert (Ce : has_ce28 it11 = true).
        { unfold setup_next_connection_event in E11.
          destruct (if negb (tw_size (tm s10) =? 0) then _ else _) as [[ws we]|]; cbn [obind] in E11; [|discriminate].
          injection E11 as _ <-. reflexivity. }
        pose proof (flush_quiet (push_event c (upd_sc s11 (fun x => set_is_enc x false)) (EvRequested (details_of (upd_sc s11 (fun x => set_is_enc x false)))))) as FQ.
        unfold flush_events in H, FQ. cbn [snd] in FQ. injection H as <- <-.
        split; [cbn [app forallb quiet_item andb]; rewrite forallb_app, Q2, FQ; reflexivity|].
        intros _. cbn [bf st set_ring]. rewrite bf_push_event, st_push_event. cbn [bf st upd_sc set_sc]. rewrite B2, G2.
        split; [cbn [app]; unfold has_ce28; cbn [existsb orb]; rewrite existsb_app; fold (has_ce28 it11); rewrite Ce; reflexivity|auto].
      * injection H as <- <-. split; [reflexivity|]. intros I. exfalso. unfold in_connection in *. cbn [st set_tm set_chan] in I. congruence.
    + injection H as <- <-. split; [reflexivity|]. intros I. exfalso. unfold in_connection in *. cbn [st set_chan] in I. congruence.
  - unfold handle_adv_timeout in H. injection H as <- <-. split; [reflexivity|]. intros I. exfalso. unfold in_connection in *. cbn [st set_adv_ch] in I. congruence.
Qed.

(* ========================================================================================== one operation *)
Definition quiet_op (o : lop) : Prop := match o with Ev _ _ | Key _ | Disconnect _ => False | _ => True end.

Lemma tb_quiet c s m o s' it m' :
  mstep28g false c m o (OItems it) = (Ok, m') ->
  TB c s m -> forallb quiet_item it = true -> quiet_op o ->
  txq (bf s') = txq (bf s) -> fl (bf s') = fl (bf s) -> stopped (bf s') = stopped (bf s) ->
  (in_connection s' = true -> in_connection s = true /\ (st s' = Disconnecting -> st s = Disconnecting) /\ has_adv28 it = false
                              /\ match o with Adv _ _ => has_ce28 it = false | _ => True end) ->
  TB c s' m'.
Proof.
  intros M T Q Ho H1 H2 H3 Hi I'. destruct (Hi I') as (I & Hd & Ha & Hc).
  assert (E : m' = begin28 m o).
  { unfold mstep28g in M. rewrite (fold28_quiet false _ it Q), Ha in M.
    destruct o; try (destruct Ho; fail); try (injection M as <-; reflexivity).
    rewrite Hc in M. injection M as <-. reflexivity. }
  subst m'. revert I'. apply (TB_ext c s s' m (begin28 m o)); auto; destruct o; reflexivity.
Qed.

Lemma do_cancel_shape c s b us s' it :
  do_cancel c s b us = Some (s', it) -> bf s' = bf s /\ st s' = st s /\ forallb calm_item it = true.
Proof.
  unfold do_cancel. destruct (_ && _); [|intros H; injection H as <- <-; auto].
  destruct b; [|intros H; injection H as <- <-; auto].
  destruct (interval (tm s) =? 0); [discriminate|].
  destruct (dt_add _ _) as [sum|]; cbn [obind]; [|discriminate].
  destruct (dt_sub _ _) as [sum1|]; cbn [obind]; [|discriminate].
  destruct (499 <? _); [discriminate|].
  destruct (dt_mul _ _) as [back|]; cbn [obind]; [|discriminate].
  destruct (dt_sub _ _) as [t|]; cbn [obind]; [|discriminate].
  match goal with |- (do r <- ?X; _) = _ -> _ => destruct X as [[s2 it2]|] eqn:E end; cbn [obind]; [|discriminate].
  intros H; injection H as <- <-. destruct (setup_next_frame28 _ _ _ E) as (G1 & G2 & G3). destruct (setup_next_bf _ _ _ E) as (B2 & _).
  cbn [forallb calm_item quiet_item andb]. rewrite (setup_next_calm _ _ _ E), B2, G2. auto.
Qed.

Ltac quiet_case HB M :=
  eapply tb_quiet; [exact M|exact HB|reflexivity|exact I|reflexivity|reflexivity|reflexivity|];
  let X := fresh "X" in intros X; split; [exact X|split; [auto|split; [reflexivity|exact I]]].

Lemma step_air c s m o s' r :
  R c s m -> TB c s m -> lstep c s o = (s', r) -> r <> OCrash ->
  exists m', mstep28g true c m o r = (Ok, m') /\ R c s' m' /\ TB c s' m'.
Proof.
  intros HR HB H Hr.
  (* results without items: nothing happened *)
  assert (PRE : forall r0, (r0 = OPre \/ r0 = OBadOp) -> (s, r0) = (s', r) ->
                exists m', mstep28g true c m o r = (Ok, m') /\ R c s' m' /\ TB c s' m').
  { intros r0 [->| ->] E; injection E as <- <-; exists m; auto. }
  (* every operation but Ev: the decision part is step_ok, the items contain no PDU on air *)
  assert (VIA : forall it, r = OItems it -> forallb noitx_item it = true -> match o with Ev _ _ => False | _ => True end ->
                (forall m', mstep28g false c m o r = (Ok, m') -> TB c s' m') ->
                exists m', mstep28g true c m o r = (Ok, m') /\ R c s' m' /\ TB c s' m').
  { intros it -> N Ho K. destruct (step_ok c s m o s' (OItems it) HR H Hr) as (m' & M & HR').
    exists m'. rewrite (mstep_noitx c m o it N Ho). auto. }
  destruct o; cbn [lstep] in H.
  - (* Run *)
    destruct (st s) eqn:Es; pose proof H as H0; injection H0 as <- <-.
    + apply (VIA _ eq_refl); [reflexivity|exact I|]. intros m' M I'. discriminate I'.
    + apply (VIA _ eq_refl); [reflexivity|exact I|]. intros m' M. apply (tb_quiet c s m Run s [] m' M); auto. exact I.
    + apply (VIA _ eq_refl); [reflexivity|exact I|]. intros m' M. apply (tb_quiet c s m Run s [] m' M); auto. exact I.
    + apply (VIA _ eq_refl); [reflexivity|exact I|]. intros m' M. apply (tb_quiet c s m Run s [] m' M); auto. exact I.
    + apply (VIA _ eq_refl); [reflexivity|exact I|]. intros m' M. apply (tb_quiet c s m Run s [] m' M); auto. exact I.
    + apply (VIA _ eq_refl); [reflexivity|exact I|]. intros m' M. apply (tb_quiet c s m Run s [] m' M); auto. exact I.
  - (* AdvTimeout *)
    destruct (st s) eqn:Es; try (apply (PRE OPre); auto; fail).
    pose proof H as H0. injection H0 as <- <-.
    apply (VIA _ eq_refl); [reflexivity|exact I|]. intros m' M I'. unfold in_connection in I'. cbn [st set_adv_ch] in I'. rewrite Es in I'. discriminate.
  - (* Adv *)
    destruct (st s) eqn:Es; try (apply (PRE OPre); auto; fail).
    destruct (255 <? N.of_nat (length body)); [apply (PRE OBadOp); auto|].
    unfold ok_items in H. destruct (do_adv_received c s hdr0 body) as [[s1 it]|] eqn:E; [|injection H as <- <-; congruence].
    pose proof H as H0. injection H0 as <- <-.
    assert (Hin : in_connection s = false) by (unfold in_connection; rewrite Es; reflexivity).
    destruct (adv_shape28 c s hdr0 body s1 it E Hin) as (Q & Sh).
    apply (VIA _ eq_refl); [apply quiet_noitx; exact Q|exact I|].
    intros m' M I'. destruct (Sh I') as (Ce & B1 & B2 & B3 & St1).
    unfold mstep28g in M. rewrite (fold28_quiet false _ it Q), Ce in M. injection M as <-.
    unfold WFb, unaired. rewrite B1, B2, B3, St1. cbn.
    split; [discriminate|]. split; [apply Nat.le_0_l|]. split; [discriminate|]. split; [discriminate|]. split; [discriminate|].
    intros _. split; [discriminate|reflexivity].
  - (* Ev *)
    destruct (in_connection s) eqn:Hin; [|apply (PRE OPre); auto].
    match type of H with context [existsb ?f pdus] => destruct (existsb f pdus) end; [apply (PRE OBadOp); auto|].
    destruct (radio_event _ s pdus) as [s1 it1] eqn:E1.
    destruct (do_end_event c s1 evts) as [[s2 it2]|] eqn:E2; [|injection H as <- <-; congruence].
    injection H as <- <-. apply (ev_step c s m evts pdus s1 it1 s2 it2); assumption.
  - (* Timeout *)
    destruct (in_connection s) eqn:Hin; [|apply (PRE OPre); auto].
    unfold ok_items in H. destruct (do_timeout c s) as [[s1 it]|] eqn:E; [|injection H as <- <-; congruence].
    pose proof H as H0. injection H0 as <- <-.
    destruct (timeout_shape c s s1 it E) as (N & Sh).
    apply (VIA _ eq_refl); [exact N|exact I|].
    intros m' M I'. destruct (Sh I') as (Q & B1 & B2 & B3 & Sd).
    destruct (calm_quiet _ Q) as [Qq Ha].
    apply (tb_quiet c s m Timeout s1 it m' M); auto. exact I.
  - (* Disconnect *)
    destruct (in_connection s) eqn:Hin; [|apply (PRE OPre); auto].
    match type of H with (let '(s2, it) := reset_encryption c ?X in _) = _ => set (sx := X) in * end.
    destruct (reset_encryption c sx) as [s2 it] eqn:E. pose proof H as H0. injection H0 as <- <-.
    assert (Fr : forallb noitx_item it = true /\ bf s2 = bf sx /\ st s2 = st sx)
      by (unfold reset_encryption in E; destruct (c_enc c); injection E as <- <-; auto).
    destruct Fr as (N & B2 & S2).
    apply (VIA _ eq_refl); [exact N|exact I|].
    intros m' M I'. destruct (HB Hin) as (W & B1 & Bj & B3 & B4 & B5).
    assert (HRx : R c sx (begin28 m (Disconnect reason))) by (eapply R_ext; [exact HR|..]; try reflexivity; rewrite Hin; reflexivity).
    destruct (reset_encryption_post c sx _ s2 it HRx E) as (m1 & F1 & A1 & K1 & Q1 & O1 & S1).
    destruct (fold28_false_frame it _ m1 F1) as (J1 & J2 & J3).
    unfold mstep28g in M. rewrite F1, Q1 in M. injection M as <-.
    assert (D5 : q_due5 m1 = q_due5 m).
    { unfold reset_encryption in E. destruct (c_enc c); injection E as _ <-; cbn [fold28 item28] in F1; injection F1 as <-; reflexivity. }
    unfold WFb, unaired. rewrite B2. cbn [bf sx set_proc_timeout set_disc_reason set_term_sent set_st].
    cbn [q_due5 q_rej q_win q_enc q_disc]. rewrite D5, J2. cbn [begin28 q_win].
    split; [exact W|]. split; [exact B1|]. split; [discriminate|]. split; [exact B3|]. split; [intros _; reflexivity|discriminate].
  - (* Cpu *)
    destruct (in_connection s) eqn:Hin; [|apply (PRE OPre); auto].
    repeat match type of H with context [if ?b then _ else _] => destruct b end; pose proof H as H0; injection H0 as <- <-;
      (apply (VIA _ eq_refl); [reflexivity|exact I|]; intros m' M;
       quiet_case HB M).
  - (* Cpr *)
    destruct (in_connection s) eqn:Hin; [|apply (PRE OPre); auto].
    repeat match type of H with context [if ?b then _ else _] => destruct b end; pose proof H as H0; injection H0 as <- <-;
      (apply (VIA _ eq_refl); [reflexivity|exact I|]; intros m' M;
       quiet_case HB M).
  - (* PhyReq *)
    destruct (in_connection s) eqn:Hin; [|apply (PRE OPre); auto].
    repeat match type of H with context [if ?b then _ else _] => destruct b end; pose proof H as H0; injection H0 as <- <-;
      (apply (VIA _ eq_refl); [reflexivity|exact I|]; intros m' M;
       quiet_case HB M).
  - (* VerReq *)
    destruct (in_connection s) eqn:Hin; [|apply (PRE OPre); auto].
    repeat match type of H with context [if ?b then _ else _] => destruct b end; pose proof H as H0; injection H0 as <- <-;
      (apply (VIA _ eq_refl); [reflexivity|exact I|]; intros m' M;
       quiet_case HB M).
  - (* TxAvail *)
    pose proof H as H0. injection H0 as <- <-. apply (VIA _ eq_refl); [reflexivity|exact I|]. intros m' M.
    quiet_case HB M.
  - (* Cancel *)
    unfold ok_items in H. destruct (do_cancel c s b us) as [[s1 it]|] eqn:E; [|injection H as <- <-; congruence].
    pose proof H as H0. injection H0 as <- <-. destruct (do_cancel_shape _ _ _ _ _ _ E) as (B1 & S1 & Cm).
    destruct (calm_quiet _ Cm) as [Qq Ha].
    apply (VIA _ eq_refl); [apply quiet_noitx; exact Qq|exact I|]. intros m' M.
    apply (tb_quiet c s m (Cancel b us) s1 it m' M); auto; try (rewrite B1; reflexivity); try exact I.
    intros X. split; [rewrite <- X; symmetry; apply inconn_st; exact S1|]. split; [congruence|]. split; [exact Ha|exact I].
  - (* CprReply *)
    destruct (c_cpr c); try (apply (PRE OBadOp); auto; fail). pose proof H as H0. injection H0 as <- <-.
    apply (VIA _ eq_refl); [reflexivity|exact I|]. intros m' M.
    quiet_case HB M.
  - (* CprNeg *)
    destruct (c_cpr c); try (apply (PRE OBadOp); auto; fail). pose proof H as H0. injection H0 as <- <-.
    apply (VIA _ eq_refl); [reflexivity|exact I|]. intros m' M.
    quiet_case HB M.
  - (* Key *)
    pose proof H as H0. injection H0 as <- <-. apply (VIA _ eq_refl); [reflexivity|exact I|]. intros m' M.
    cbn [mstep28g] in M. injection M as <-. apply (TB_ext c s _ m _ HB); try reflexivity. intros X. auto.
  - (* St *)
    pose proof H as H0. injection H0 as <- <-.
    assert (Q : forallb quiet_item [st_item s] = true) by (unfold st_item; destruct (in_connection s); reflexivity).
    apply (VIA _ eq_refl); [apply quiet_noitx; exact Q|exact I|]. intros m' M.
    refine (tb_quiet c s m St _ _ m' M HB Q I _ _ _ _); try reflexivity. intros X. split; [exact X|]. split; [auto|].
    split; [|exact I]. unfold st_item. destruct (in_connection s); reflexivity.
Qed.

(* ========================================================================================== histories of any length *)
Lemma TB_init c : TB c (linit c) (minit28 c).
Proof. intros I. discriminate I. Qed.

Lemma run_air c : forall ops s m,
  R c s m -> TB c s m -> no_crash (lrun c s ops) ->
  exists m', mrun28g true c m (lrun c s ops) = (Ok, m') /\ R c (lfinal c s ops) m' /\ TB c (lfinal c s ops) m'.
Proof.
  induction ops as [|o t IH]; intros s m HR HB NC; simpl.
  - exists m. auto.
  - simpl in NC. destruct (lstep c s o) as [s1 r] eqn:E.
    assert (Hr : r <> OCrash) by (intros ->; apply (NC o); left; reflexivity).
    destruct (step_air c s m o s1 r HR HB E Hr) as (m1 & M1 & HR1 & HB1).
    simpl. rewrite M1. apply IH; [exact HR1|exact HB1|].
    intros o' Hin. apply (NC o'). right. exact Hin.
Qed.

Theorem monitor_accepts_all : monitor28_accepts_full.
Proof.
  intros c ops NC. destruct (run_air c ops (linit c) (minit28 c) (R_init c) (TB_init c) NC) as (m' & M & _).
  unfold accepts28. rewrite M. reflexivity.
Qed.
