(* C29: lemmas and theorems. The ring of connection_callbacks<> is the list [ring] of the model ([push_event] =
   try_push with the result ignored, [flush_events] = handle_connection_events). [Wr m r p]: if fewer than max_events
   callbacks are queued, the queue r continues the history the monitor m has seen correctly and ends in phase p - the
   form of the invariant that survives a full ring; [RI] is the invariant between operations; [step29] one operation,
   [run29] the induction over histories of any length. Witnesses of the refutation by vm_compute.
   Only LLModel and LLSpecC29 are used (no lemma of LLProofs.v). *)
From Coq Require Import Lia ZifyBool NArith List Bool.
From BT Require Import Base.ListX LL.LLModel LL.LLSpec LL.LLSpecC29.
From BT Require gen.GenLL.
Import ListNotations.
Local Open Scope N_scope.

(* ========================================================================================== part 1 *)
Ltac ifs := repeat match goal with |- context [if ?b then _ else _] => destruct b end.

(* ---------------------------------------------------------------- the ring as a list *)
Definition pushr (c : cfg) (r : list cb_event) (e : cb_event) : list cb_event :=
  if c_cb c then (if N.of_nat (length r) <? GenLL.max_events then r ++ [e] else r) else r.
Lemma ring_push_event c s e : ring (push_event c s e) = pushr c (ring s) e.
Proof. unfold push_event, pushr. ifs; reflexivity. Qed.
Lemma st_push_event c s e : st (push_event c s e) = st s.
Proof. unfold push_event. ifs; reflexivity. Qed.
Lemma deferred_push_event c s e : deferred (push_event c s e) = deferred s.
Proof. unfold push_event. ifs; reflexivity. Qed.
Lemma ring_commit s p : ring (commit s p) = ring s.
Proof. unfold commit. ifs; reflexivity. Qed.
Lemma st_commit s p : st (commit s p) = st s.
Proof. unfold commit. ifs; reflexivity. Qed.
Lemma deferred_commit s p : deferred (commit s p) = deferred s.
Proof. unfold commit. ifs; reflexivity. Qed.
Lemma ring_commit_ctrl s b : ring (commit_ctrl s b) = ring s.
Proof. apply ring_commit. Qed.
Lemma st_commit_ctrl s b : st (commit_ctrl s b) = st s.
Proof. apply st_commit. Qed.
Lemma deferred_commit_ctrl s b : deferred (commit_ctrl s b) = deferred s.
Proof. apply deferred_commit. Qed.

(* ---------------------------------------------------------------- the monitor on a list of callbacks *)
Fixpoint foldcb (m : mon29) (evs : list cb_event) : verdict * mon29 :=
  match evs with
  | [] => (Ok, m)
  | e :: t => match cb29 m e with (Ok, m') => foldcb m' t | bad => bad end
  end.

Lemma foldcb_app m a b m1 : foldcb m a = (Ok, m1) -> foldcb m (a ++ b) = foldcb m1 b.
Proof.
  revert m. induction a as [|e t IH]; intros m H; simpl in *.
  - inversion H. reflexivity.
  - destruct (cb29 m e) as [[|k] m2]; [|discriminate]. apply IH. exact H.
Qed.

Lemma fold29_map m evs : fold29 m (map ICb evs) = foldcb m evs.
Proof.
  revert m. induction evs as [|e t IH]; intros m; simpl; [reflexivity|].
  destruct (cb29 m e) as [[|k] m2]; [apply IH|reflexivity].
Qed.

(* items that are no connection callback *)
Definition nocb_item (i : item) : bool :=
  match i with ICb (EvCpr _ _ _ _) => true | ICb _ => false | _ => true end.
Lemma fold29_nocb m it rest : forallb nocb_item it = true -> fold29 m (it ++ rest) = fold29 m rest.
Proof.
  induction it as [|i t IH]; simpl; intros H; [reflexivity|].
  apply andb_true_iff in H. destruct H as [Hi Ht].
  destruct i; simpl in Hi; try discriminate; try (apply IH; exact Ht).
  destruct e; simpl in Hi; try discriminate. simpl. apply IH. exact Ht.
Qed.

Lemma cb29_link m e m' : cb29 m e = (Ok, m') -> l_link m' = l_link m /\ l_why m' = l_why m.
Proof. destruct e; simpl; destruct (l_phase m); try destruct (adm (l_why m) reason); intros H; inversion H; auto. Qed.
Lemma foldcb_link evs : forall m m', foldcb m evs = (Ok, m') -> l_link m' = l_link m /\ l_why m' = l_why m.
Proof.
  induction evs as [|e t IH]; intros m m' H; simpl in H; [inversion H; auto|].
  destruct (cb29 m e) as [[|k] m2] eqn:E; [|discriminate].
  destruct (IH _ _ H) as [A B]. destruct (cb29_link _ _ _ E) as [C D]. split; congruence.
Qed.

(* the phase that belongs to a state of the link layer *)
Definition ph (x : lstate) : phase29 :=
  match x with Initial | Advertising => LIdle | Connecting => LRequested | _ => LEstablished end.

(* "if fewer than max_events callbacks are queued, the queue continues the reported history correctly and leads to phase p" *)
Definition Wr (m : mon29) (r : list cb_event) (p : phase29) : Prop :=
  N.of_nat (length r) <? GenLL.max_events = true -> exists m', foldcb m r = (Ok, m') /\ l_phase m' = p.
(* the callbacks never change what the monitor knows about the causes of an end *)
Lemma Wr_why m r m' : foldcb m r = (Ok, m') -> l_why m' = l_why m.
Proof. intros H. apply (foldcb_link _ _ _ H). Qed.

Lemma Wr_push c m r p e p' :
  c_cb c = true -> Wr m r p ->
  (forall m', l_phase m' = p -> l_why m' = l_why m -> exists m'', cb29 m' e = (Ok, m'') /\ l_phase m'' = p') ->
  Wr m (pushr c r e) p'.
Proof.
  intros Hcb W Hstep. unfold Wr, pushr. rewrite Hcb.
  destruct (N.of_nat (length r) <? GenLL.max_events) eqn:E.
  - intros _. destruct (W E) as (m' & F & P). destruct (Hstep m' P (Wr_why _ _ _ F)) as (m'' & C & P').
    exists m''. split; [|exact P']. rewrite (foldcb_app _ _ _ _ F). simpl. rewrite C. reflexivity.
  - intros H. congruence.
Qed.

Definition info_event (e : cb_event) : bool :=
  match e with EvChanged _ | EvVersion _ _ _ | EvRejected _ | EvUnknown _ | EvFeatures _ | EvPhy _ _ => true | _ => false end.

Lemma Wr_push_info c m r e :
  c_cb c = true -> info_event e = true -> Wr m r LEstablished -> Wr m (pushr c r e) LEstablished.
Proof.
  intros Hcb Hi W. apply Wr_push with LEstablished; auto.
  intros m' P _. exists m'. destruct e; simpl in Hi; try discriminate; simpl; rewrite P; auto.
Qed.

Lemma pushr_length c r e : (length r <= length (pushr c r e))%nat.
Proof. unfold pushr. ifs; try lia. rewrite app_length. simpl. lia. Qed.

(* ========================================================================================== part 2 *)
Definition ring_step (c : cfg) (r r1 : list cb_event) : Prop :=
  r1 = r \/ exists e, info_event e = true /\ r1 = pushr c r e.

Lemma handle_reject_frame29 c s o b :
  st (handle_reject c s o b) = st s /\ ring_step c (ring s) (ring (handle_reject c s o b)).
Proof.
  unfold handle_reject, clear_cpr_feature, ring_step.
  ifs; rewrite ?st_push_event, ?ring_push_event; cbn [st ring set_used_features set_proc_timeout upd_pr set_pr];
    (split; [reflexivity|right; eexists; split; [|reflexivity]; reflexivity]).
Qed.

Lemma encryption_changed_frame29 c s b :
  st (encryption_changed c s b) = st s /\ ring_step c (ring s) (ring (encryption_changed c s b)).
Proof.
  unfold encryption_changed, ring_step. destruct b; rewrite ?st_push_event, ?ring_push_event; (split; [reflexivity|]).
  - right. eexists. split; [|reflexivity]. reflexivity.
  - left. reflexivity.
Qed.

Lemma handle_cpr_nocb c s body : forallb nocb_item (snd (handle_cpr c s body)) = true /\ has_adv29 (snd (handle_cpr c s body)) = false.
Proof. unfold handle_cpr. destruct (cpr_params_ok body); simpl; [|auto]. destruct (c_cpr c); simpl; auto.
  destruct (N.min _ _ <? N.max _ _); auto. ifs; auto. Qed.

Ltac fin29 H :=
  injection H as <- <- <-;
  rewrite ?st_commit_ctrl, ?ring_commit_ctrl; cbn [st ring upd_pr set_pr];
  rewrite ?st_push_event, ?ring_push_event;
  cbn [st ring set_disc_reason set_def_instant set_deferred set_used_features set_proc_timeout upd_pr set_pr upd_sc set_sc clear_cpr_feature];
  (split; [reflexivity|split; [first [left; reflexivity | right; eexists; split; [|reflexivity]; reflexivity]|split; reflexivity]]).

Ltac via_frame H F :=
  injection H as <- <- <-; rewrite ?st_commit_ctrl, ?ring_commit_ctrl;
  destruct F as [F1 F2]; cbn [st ring upd_sc set_sc] in F1, F2;
  (split; [exact F1|split; [exact F2|split; reflexivity]]).

Lemma hlc29 c s body s1 it res :
  handle_ll_control c s body = (s1, it, res) ->
  st s1 = st s /\ ring_step c (ring s) (ring s1) /\ forallb nocb_item it = true /\ has_adv29 it = false.
Proof.
  intros H. unfold handle_ll_control in H.
  set (opcode := if 0 <? N.of_nat (length body) then byte body 0 else 255) in *.
  destruct (ctrl_kind c (ver_received (pr s)) opcode (N.of_nat (length body))) eqn:K.
  - destruct (instant_passed_update _ _); fin29 H.
  - fin29 H.
  - destruct (byte body 1 <=? GenLL.LL_VERSION_40); unfold clear_cpr_feature in H; fin29 H.
  - destruct (instant_passed_map _ _); fin29 H.
  - fin29 H.
  - fin29 H.
  - via_frame H (handle_reject_frame29 c s opcode body).
  - via_frame H (handle_reject_frame29 c s opcode body).
  - via_frame H (handle_reject_frame29 c s opcode body).
  - destruct (handle_cpr c s body) as [rsp cit] eqn:EC. pose proof (handle_cpr_nocb c s body) as PC. rewrite EC in PC. simpl in PC.
    destruct rsp; injection H as <- <- <-; rewrite ?st_commit_ctrl, ?ring_commit_ctrl;
      (split; [reflexivity|split; [left; reflexivity|exact PC]]).
  - fin29 H.
  - destruct (has_key (sc s) && negb (enc_prog (sc s))).
    + via_frame H (encryption_changed_frame29 c (upd_sc s (fun x => set_is_enc (set_has_key x false) true)) (negb (is_enc (sc s)))).
    + fin29 H.
  - via_frame H (encryption_changed_frame29 c (upd_sc s (fun x => set_is_enc (set_has_key x false) false)) (is_enc (sc s))).
  - via_frame H (encryption_changed_frame29 c (upd_sc s (fun x => set_is_enc (set_has_key x false) false)) (is_enc (sc s))).
  - fin29 H.
  - repeat match type of H with context [if ?b then _ else _] => destruct b end; fin29 H.
  - fin29 H.
  - fin29 H.
Qed.

(* ========================================================================================== part 3 *)
Lemma has_adv29_app a b : has_adv29 (a ++ b) = has_adv29 a || has_adv29 b.
Proof. unfold has_adv29. apply existsb_app. Qed.

Lemma Wr_step c m r r1 : c_cb c = true -> ring_step c r r1 -> Wr m r LEstablished -> Wr m r1 LEstablished.
Proof.
  intros Hcb [->|(e & Hi & ->)] W; [exact W|]. apply Wr_push_info; assumption.
Qed.

Lemma inconn_st s s' : st s' = st s -> in_connection s' = in_connection s.
Proof. unfold in_connection. intros ->. reflexivity. Qed.

(* handle_received_data in an established connection *)
Lemma hrd29 fuel c m : c_cb c = true -> forall s s1 it res,
  ph (st s) = LEstablished -> Wr m (ring s) LEstablished -> handle_received_data fuel c s = (s1, it, res) ->
  st s1 = st s /\ Wr m (ring s1) LEstablished /\ forallb nocb_item it = true /\ has_adv29 it = false.
Proof.
  intros Hcb. induction fuel as [|fuel IH]; intros s s1 it res Hp W H; simpl in H.
  - injection H as <- <- <-. auto.
  - destruct (deferred s); [injection H as <- <- <-; auto|].
    destruct (rxq (bf s)) as [|[llid body] rest] eqn:Erx; [injection H as <- <- <-; auto|].
    destruct (llid =? GenLL.ll_control_pdu_code).
    + destruct (tx_buffer_available s); [|injection H as <- <- <-; auto].
      destruct (handle_ll_control c s body) as [[s1' it1] r1] eqn:E1.
      destruct (hlc29 c s body s1' it1 r1 E1) as (S1 & G1 & N1 & A1).
      pose proof (Wr_step c m _ _ Hcb G1 W) as W1.
      set (s2 := upd_bf s1' (fun b => set_rxq b rest)) in *.
      destruct r1.
      * destruct (handle_received_data fuel c s2) as [[s3 it3] r3] eqn:E3. injection H as <- <- <-.
        assert (Hp2 : ph (st s2) = LEstablished) by (subst s2; cbn [st upd_bf set_bf]; rewrite S1; exact Hp).
        destruct (IH s2 s3 it3 r3 Hp2 W1 E3) as (S3 & W3 & N3 & A3).
        split; [rewrite S3; exact S1|]. split; [exact W3|]. rewrite forallb_app, has_adv29_app, N1, N3, A1, A3. auto.
      * injection H as <- <- <-. auto.
    + destruct ((llid =? GenLL.lld_data_pdu_code) && negb (lstate_eqb (st s) Disconnecting)); [|injection H as <- <- <-; auto].
      destruct (if c_enc c then l2cap_reply_enc (is_enc (sc s)) body else l2cap_reply body) as [|r].
      * apply (IH (upd_bf s (fun b => set_rxq b rest)) s1 it res); assumption.
      * destruct (tx_buffer_available s); [|injection H as <- <- <-; auto].
        set (s1c := match r with Some f => commit s (GenLL.lld_data_pdu_code, f) | None => s end) in *.
        assert (Hs : st s1c = st s /\ ring s1c = ring s) by (subst s1c; destruct r; rewrite ?st_commit, ?ring_commit; auto).
        destruct Hs as [Hs1 Hs2].
        destruct (IH (upd_bf s1c (fun b => set_rxq b rest)) s1 it res) as (S3 & W3 & N3 & A3); auto.
        -- cbn [st upd_bf set_bf]. rewrite Hs1. exact Hp.
        -- cbn [ring upd_bf set_bf]. rewrite Hs2. exact W.
        -- split; [rewrite S3; exact Hs1|auto].
Qed.

Lemma reset_encryption_frame29 c s :
  let '(s1, i1) := reset_encryption c s in
  st s1 = st s /\ ring s1 = ring s /\ disc_reason s1 = disc_reason s /\ deferred s1 = deferred s
  /\ forallb nocb_item i1 = true /\ has_adv29 i1 = false.
Proof. unfold reset_encryption. destruct (c_enc c); cbn; auto 10. Qed.

Lemma force_disconnect29 c m s s' it :
  c_cb c = true -> in_connection s = true -> Wr m (ring s) (ph (st s)) ->
  (st s <> Connecting -> adm (l_why m) (disc_reason s) = true) ->
  force_disconnect c s = (s', it) ->
  st s' = Advertising /\ Wr m (ring s') LIdle /\ deferred s' = None /\ forallb nocb_item it = true.
Proof.
  intros Hcb Hin W Ha H. unfold force_disconnect in H.
  pose proof (reset_encryption_frame29 c s) as F. destruct (reset_encryption c s) as [s1 i1].
  destruct F as (F1 & F2 & F3 & F4 & F5 & F6).
  unfold start_advertising_impl, handle_start_advertising in H. injection H as <- <-.
  cbn [st ring deferred set_deferred set_st set_adv_ch].
  split; [reflexivity|]. split; [|split; [reflexivity|]].
  - rewrite F1. unfold in_connection in Hin.
    destruct (st s) eqn:Es; try discriminate; rewrite ring_push_event, F2, ?F3;
      (apply Wr_push with (ph (st s)); [exact Hcb|rewrite Es; exact W|rewrite Es; cbn [ph]]);
      intros m' P Y; simpl; rewrite P, ?Y, ?Ha by discriminate; eexists; split; reflexivity.
  - rewrite !forallb_app, F5. unfold reset_phy. destruct (c_phy c); reflexivity.
Qed.

Lemma tpsp_frame29 c s s6 it6 :
  transmit_pending_security_pdus c s = (s6, it6) ->
  st s6 = st s /\ ring s6 = ring s /\ deferred s6 = deferred s /\ forallb nocb_item it6 = true /\ has_adv29 it6 = false.
Proof.
  unfold transmit_pending_security_pdus. destruct (_ && _); [|intros H; injection H as <- <-; auto 10].
  destruct (has_key (sc s)); intros H; injection H as <- <-; rewrite st_commit_ctrl, ring_commit_ctrl, deferred_commit_ctrl; cbn; auto 10.
Qed.

Lemma send_control_pdus_frame29 s :
  st (send_control_pdus s) = st s /\ ring (send_control_pdus s) = ring s /\ deferred (send_control_pdus s) = deferred s.
Proof.
  unfold send_control_pdus. destruct (_ && _); [|auto].
  cbn [st ring deferred set_term_sent upd_bf set_bf]. rewrite st_commit_ctrl, ring_commit_ctrl, deferred_commit_ctrl. auto.
Qed.

Lemma plan_next_frame29 c s e s7 :
  plan_next_connection_event c s e = Some s7 -> st s7 = st s /\ ring s7 = ring s /\ deferred s7 = deferred s.
Proof.
  unfold plan_next_connection_event. destruct (dt_mul _ _); cbn [obind]; [|discriminate].
  destruct (_ && _); [discriminate|]. intros H. injection H as <-. auto.
Qed.

Lemma setup_next_frame29 s s' it :
  setup_next_connection_event s = Some (s', it) ->
  st s' = st s /\ ring s' = ring s /\ deferred s' = deferred s /\ forallb nocb_item it = true /\ has_adv29 it = false.
Proof.
  unfold setup_next_connection_event.
  destruct (if negb (tw_size (tm s) =? 0) then _ else _) as [[ws we]|]; cbn [obind]; [|discriminate].
  intros H. injection H as <- <-. auto 10.
Qed.

Lemma hpll29 c s s1 it res :
  handle_pending_ll_control c s = Some (s1, it, res) ->
  (deferred s = None -> s1 = s /\ it = [])
  /\ (ph (st s) = LEstablished -> ph (st s1) = LEstablished /\ ring_step c (ring s) (ring s1))
  /\ forallb nocb_item it = true /\ has_adv29 it = false.
Proof.
  unfold handle_pending_ll_control. destruct (deferred s) as [body|]; [|intros H; injection H as <- <- <-; unfold ring_step; auto 10].
  split; [discriminate|].
  destruct (def_instant s =? evc (cs s)); [|injection H as <- <- <-; unfold ring_step; auto 10].
  destruct (byte body 0 =? GenLL.LL_CHANNEL_MAP_REQ).
  - destruct (ChanMapModel.reset_impl _ _ _) as [ch o]. injection H as <- <- <-. cbn. unfold ring_step. auto 10.
  - destruct (byte body 0 =? GenLL.LL_CONNECTION_UPDATE_IND).
    + destruct (parse_update body) as [t ok]. destruct ok as [[|]|]; [| |discriminate]; injection H as <- <- <-.
      * rewrite st_push_event, ring_push_event. cbn [st ring set_st set_tm set_proc_timeout upd_cs set_cs set_deferred].
        split; [|auto]. intros _. split; [reflexivity|]. right. eexists. split; [|reflexivity]. reflexivity.
      * cbn. unfold ring_step. auto 10.
    + injection H as <- <- <-. rewrite st_push_event, ring_push_event. cbn [st ring upd_cs set_cs set_deferred].
      split; [|auto]. intros P. split; [exact P|]. right. eexists. split; [|reflexivity]. reflexivity.
Qed.

(* ========================================================================================== part 4 *)
(* ---------------------------------------------------------------- the reason of closed *)
Definition armed (s : lstate_t) : bool := negb (proc_timeout s =? 0) || cpr_pending (pr s) || ver_pending (pr s).
Definition known (w : why29) (body : list N) : Prop :=
  (inst_body body = true -> w_inst w = true) /\ (forall x, body = [2; x] -> existsb (N.eqb x) (w_terms w) = true).
Definition RX (w : why29) (s : lstate_t) : Prop := forall body, In (3, body) (rxq (bf s)) -> known w body.

(* the part of the state the reason depends on *)
Definition V (s : lstate_t) := (disc_reason s, proc_timeout s, cpr_pending (pr s), ver_pending (pr s), rxq (bf s)).
Lemma V_commit s p : V (commit s p) = V s.
Proof. unfold commit, V. ifs; reflexivity. Qed.
Lemma V_commit_ctrl s b : V (commit_ctrl s b) = V s.
Proof. apply V_commit. Qed.
Lemma V_push_event c s e : V (push_event c s e) = V s.
Proof. unfold push_event, V. ifs; reflexivity. Qed.
Lemma V_encryption_changed c s b : V (encryption_changed c s b) = V s.
Proof. unfold encryption_changed. destruct b; [apply V_push_event|reflexivity]. Qed.
Lemma V_dr s s' : V s' = V s -> disc_reason s' = disc_reason s /\ armed s' = armed s /\ rxq (bf s') = rxq (bf s).
Proof. unfold V, armed. intros H. injection H as -> -> -> -> ->. auto. Qed.

Lemma kind_terminate c v o z : ctrl_kind c v o z = KTerminate -> o = 2 /\ z = 2.
Proof.
  unfold ctrl_kind, ctrl_kind_b.
  destruct ((o =? GenLL.LL_CONNECTION_UPDATE_IND) && (z =? 12)); [discriminate|].
  destruct ((o =? GenLL.LL_TERMINATE_IND) && (z =? 2)) eqn:E; [intros _; change GenLL.LL_TERMINATE_IND with 2 in E; lia|].
  repeat match goal with |- context [if ?b then _ else _] => destruct b; [discriminate|] end. discriminate.
Qed.
Lemma kind_instant c v o z :
  match ctrl_kind c v o z with KUpdate | KChannelMap | KPhyUpdate => True | _ => False end ->
  (0 <? z) = true /\ (o = 0 \/ o = 1 \/ o = 24).
Proof.
  unfold ctrl_kind, ctrl_kind_b.
  destruct ((o =? GenLL.LL_CONNECTION_UPDATE_IND) && (z =? 12)) eqn:E1; [intros _; change GenLL.LL_CONNECTION_UPDATE_IND with 0 in E1; lia|].
  destruct ((o =? GenLL.LL_TERMINATE_IND) && (z =? 2)); [intros []|].
  destruct ((o =? GenLL.LL_VERSION_IND) && (z =? 6) && negb v); [intros []|].
  destruct ((o =? GenLL.LL_CHANNEL_MAP_REQ) && (z =? 8)) eqn:E2; [intros _; change GenLL.LL_CHANNEL_MAP_REQ with 1 in E2; lia|].
  do 11 (match goal with |- context [if ?b then _ else _] => destruct b; [intros []|] end).
  match goal with |- context [if ?b then _ else _] => destruct b eqn:E3 end; [intros _; change GenLL.LL_PHY_UPDATE_IND with 24 in E3; lia|].
  destruct (negb _); intros [].
Qed.

Lemma armed_pt0 s s' :
  cpr_pending (pr s') = cpr_pending (pr s) -> ver_pending (pr s') = ver_pending (pr s) ->
  (proc_timeout s' = proc_timeout s \/ proc_timeout s' = 0) -> armed s' = true -> armed s = true.
Proof.
  unfold armed. intros -> -> [->| ->]; [auto|]. cbn. intros H. rewrite <- orb_assoc, H. apply orb_true_r.
Qed.

Lemma handle_reject_V c s o b :
  let s1 := handle_reject c s o b in
  disc_reason s1 = disc_reason s /\ rxq (bf s1) = rxq (bf s) /\ (armed s1 = true -> armed s = true).
Proof.
  cbn zeta. unfold handle_reject.
  match goal with |- context [push_event c ?X _] => set (X0 := X) end.
  assert (F : disc_reason X0 = disc_reason s /\ rxq (bf X0) = rxq (bf s) /\ (armed X0 = true -> armed s = true)).
  { subst X0. unfold clear_cpr_feature.
    repeat match goal with |- context [if ?x then _ else _] => destruct x end;
      (split; [reflexivity|split; [reflexivity|]]); try (intros H; exact H);
      (apply armed_pt0; [reflexivity|reflexivity|right; reflexivity]). }
  destruct F as (F1 & F2 & F3).
  destruct (negb (o =? GenLL.LL_UNKNOWN_RSP));
    (match goal with |- context [push_event c X0 ?e] => destruct (V_dr _ _ (V_push_event c X0 e)) as (A1 & A2 & A3) end;
     rewrite A1, A2, A3; auto).
Qed.

Lemma from_V s s1 : V s1 = V s -> (armed s1 = true -> armed s = true) /\ rxq (bf s1) = rxq (bf s) /\ disc_reason s1 = disc_reason s.
Proof. intros E. destruct (V_dr _ _ E) as (A & B & C). rewrite B. auto. Qed.

Ltac vsame H :=
  injection H as <- <- <-; apply from_V;
  rewrite ?V_commit_ctrl, ?V_push_event, ?V_encryption_changed; try reflexivity;
  cbn [upd_pr set_pr]; rewrite ?V_commit_ctrl, ?V_push_event; reflexivity.

Lemma hlc_reason c s body s1 it res :
  handle_ll_control c s body = (s1, it, res) ->
  (armed s1 = true -> armed s = true) /\ rxq (bf s1) = rxq (bf s)
  /\ match res with
     | GoAhead => disc_reason s1 = disc_reason s
     | DoDisconnect => (disc_reason s1 = 40 /\ inst_body body = true) \/ (exists x, body = [2; x] /\ disc_reason s1 = x)
     end.
Proof.
  intros H. unfold handle_ll_control in H.
  set (opcode := if 0 <? N.of_nat (length body) then byte body 0 else 255) in *.
  pose proof (kind_terminate c (ver_received (pr s)) opcode (N.of_nat (length body))) as KT.
  pose proof (kind_instant c (ver_received (pr s)) opcode (N.of_nat (length body))) as KI.
  assert (INST : (0 <? N.of_nat (length body)) = true /\ (opcode = 0 \/ opcode = 1 \/ opcode = 24) -> inst_body body = true).
  { intros [Z O]. subst opcode. rewrite Z in O. destruct body as [|o t]; [simpl in Z; discriminate|].
    unfold byte in O. simpl in O. simpl. destruct O as [->|[->| ->]]; reflexivity. }
  destruct (ctrl_kind c (ver_received (pr s)) opcode (N.of_nat (length body))) eqn:K.
  - (* KUpdate *) specialize (INST (KI I)). destruct (instant_passed_update _ _); [|vsame H].
    injection H as <- <- <-. split; [intros X; exact X|]. split; [reflexivity|]. left. split; [reflexivity|exact INST].
  - (* KTerminate *) destruct (KT eq_refl) as [O Z]. injection H as <- <- <-.
    split; [intros X; exact X|]. split; [reflexivity|]. right.
    destruct body as [|a [|b [|? ?]]]; simpl in Z; try lia. subst opcode. cbn in O. exists b. subst a. split; reflexivity.
  - (* KVersion *)
    injection H as <- <- <-.
    match goal with |- context [armed ?X] => set (X0 := X) end.
    assert (F : disc_reason X0 = disc_reason s /\ rxq (bf X0) = rxq (bf s) /\ proc_timeout X0 = 0
                /\ cpr_pending (pr X0) = cpr_pending (pr s) /\ ver_pending (pr X0) = ver_pending (pr s)).
    { subst X0. unfold commit_ctrl, commit, push_event, clear_cpr_feature.
      repeat match goal with |- context [if ?x then _ else _] => destruct x end; cbn; auto. }
    destruct F as (F1 & F2 & F3 & F4 & F5).
    split; [apply armed_pt0; auto|]. auto.
  - (* KChannelMap *) specialize (INST (KI I)). destruct (instant_passed_map _ _); [|vsame H].
    injection H as <- <- <-. split; [intros X; exact X|]. split; [reflexivity|]. left. split; [reflexivity|exact INST].
  - vsame H.
  - vsame H.
  - injection H as <- <- <-. destruct (handle_reject_V c s opcode body) as (A & B & C). auto.
  - injection H as <- <- <-. destruct (handle_reject_V c s opcode body) as (A & B & C). auto.
  - injection H as <- <- <-. destruct (handle_reject_V c s opcode body) as (A & B & C). auto.
  - destruct (handle_cpr c s body) as [rsp cit]. destruct rsp; vsame H.
  - vsame H.
  - destruct (has_key (sc s) && negb (enc_prog (sc s))); vsame H.
  - vsame H.
  - vsame H.
  - vsame H.
  - (* KPhyUpdate *) specialize (INST (KI I)).
    repeat match type of H with context [if ?b then _ else _] => destruct b end; try (vsame H).
    injection H as <- <- <-. split; [intros X; exact X|]. split; [reflexivity|]. left. split; [reflexivity|exact INST].
  - vsame H.
  - vsame H.
Qed.

Lemma adm_base w r : r = w_base w -> adm w r = true.
Proof. intros ->. unfold adm. rewrite N.eqb_refl. reflexivity. Qed.
Lemma adm_arm w : w_arm w = true -> adm w 34 = true.
Proof. intros H. unfold adm. rewrite H, N.eqb_refl. cbn [andb]. rewrite orb_true_r. reflexivity. Qed.

(* "s' comes later in the same operation": no new procedure timer source, no new received PDU *)
Definition Fr (s s' : lstate_t) : Prop :=
  (armed s' = true -> armed s = true) /\ (forall p, In p (rxq (bf s')) -> In p (rxq (bf s))).
Lemma Fr_refl s : Fr s s.
Proof. split; auto. Qed.
Lemma Fr_trans a b c : Fr a b -> Fr b c -> Fr a c.
Proof. intros [A1 A2] [B1 B2]. split; auto. Qed.
Lemma Fr_V s s' : V s' = V s -> Fr s s'.
Proof. intros E. destruct (V_dr _ _ E) as (A & B & C). split; [rewrite B; auto|rewrite C; auto]. Qed.

Lemma hrd_reason fuel c w : w_rx w = true -> forall s s1 it res,
  RX w s -> adm w (disc_reason s) = true -> handle_received_data fuel c s = (s1, it, res) ->
  adm w (disc_reason s1) = true /\ (res = GoAhead -> disc_reason s1 = disc_reason s) /\ Fr s s1.
Proof.
  intros Hrx. induction fuel as [|fuel IH]; intros s s1 it res HX Ha H; simpl in H.
  - injection H as <- <- <-. split; [exact Ha|]. split; [auto|apply Fr_refl].
  - destruct (deferred s); [injection H as <- <- <-; split; [exact Ha|]; split; [auto|apply Fr_refl]|].
    destruct (rxq (bf s)) as [|[llid body] rest] eqn:Erx; [injection H as <- <- <-; split; [exact Ha|]; split; [auto|apply Fr_refl]|].
    destruct (llid =? GenLL.ll_control_pdu_code) eqn:El.
    + destruct (tx_buffer_available s); [|injection H as <- <- <-; split; [exact Ha|]; split; [auto|apply Fr_refl]].
      destruct (handle_ll_control c s body) as [[s1' it1] r1] eqn:E1.
      destruct (hlc_reason c s body s1' it1 r1 E1) as (A1 & A2 & A3).
      assert (Kn : known w body).
      { apply HX. rewrite Erx. left. apply N.eqb_eq in El. change GenLL.ll_control_pdu_code with 3 in El. rewrite El. reflexivity. }
      set (s2 := upd_bf s1' (fun b => set_rxq b rest)) in *.
      assert (F2 : Fr s s2).
      { split; [exact A1|]. intros p Hp. change (rxq (bf s2)) with rest in Hp. rewrite Erx. right. exact Hp. }
      destruct r1.
      * destruct (handle_received_data fuel c s2) as [[s3 it3] r3] eqn:E3. injection H as <- <- <-.
        assert (HX2 : RX w s2) by (intros b Hb; apply HX; apply (proj2 F2); exact Hb).
        assert (Ha2 : adm w (disc_reason s2) = true) by (change (disc_reason s2) with (disc_reason s1'); rewrite A3; exact Ha).
        destruct (IH s2 s3 it3 r3 HX2 Ha2 E3) as (B1 & B2 & B3).
        split; [exact B1|]. split; [intros G; rewrite (B2 G); exact A3|apply Fr_trans with s2; assumption].
      * injection H as <- <- <-. split; [|split; [discriminate|exact F2]].
        change (disc_reason s2) with (disc_reason s1'). destruct Kn as [K1 K2].
        destruct A3 as [[D I]|(x & Bx & D)]; rewrite D; unfold adm; rewrite Hrx.
        -- rewrite (K1 I). cbn. apply orb_true_r.
        -- rewrite (K2 x Bx). cbn. rewrite !orb_true_r. reflexivity.
    + destruct ((llid =? GenLL.lld_data_pdu_code) && negb (lstate_eqb (st s) Disconnecting));
        [|injection H as <- <- <-; split; [exact Ha|]; split; [auto|apply Fr_refl]].
      assert (Pop : forall sx, V sx = V s -> Fr s (upd_bf sx (fun b => set_rxq b rest))
                    /\ disc_reason (upd_bf sx (fun b => set_rxq b rest)) = disc_reason s).
      { intros sx E. destruct (V_dr _ _ E) as (X1 & X2 & X3). split; [|exact X1].
        split; [intros G; rewrite <- X2; exact G|]. intros p Hp. change (In p rest) in Hp. rewrite Erx. right. exact Hp. }
      destruct (if c_enc c then l2cap_reply_enc (is_enc (sc s)) body else l2cap_reply body) as [|r].
      * destruct (Pop s eq_refl) as [P1 P2].
        destruct (IH _ s1 it res (fun b Hb => HX b (proj2 P1 _ Hb)) (eq_ind_r (fun x => adm w x = true) Ha P2) H) as (B1 & B2 & B3).
        split; [exact B1|]. split; [intros G; rewrite (B2 G); exact P2|apply Fr_trans with (upd_bf s (fun b => set_rxq b rest)); assumption].
      * destruct (tx_buffer_available s); [|injection H as <- <- <-; split; [exact Ha|]; split; [auto|apply Fr_refl]].
        set (s1c := match r with Some f => commit s (GenLL.lld_data_pdu_code, f) | None => s end) in *.
        assert (Ec : V s1c = V s) by (subst s1c; destruct r; [apply V_commit|reflexivity]).
        destruct (Pop s1c Ec) as [P1 P2].
        destruct (IH _ s1 it res (fun b Hb => HX b (proj2 P1 _ Hb)) (eq_ind_r (fun x => adm w x = true) Ha P2) H) as (B1 & B2 & B3).
        split; [exact B1|]. split; [intros G; rewrite (B2 G); exact P2|apply Fr_trans with (upd_bf s1c (fun b => set_rxq b rest)); assumption].
Qed.

(* what holds of the state and of the items produced so far in the middle of an operation *)
Definition mid29 (m : mon29) (s : lstate_t) (it : list item) : Prop :=
  Wr m (ring s) (ph (st s)) /\ (st s = Connecting -> deferred s = None)
  /\ forallb nocb_item it = true /\ (has_adv29 it = true -> in_connection s = false)
  /\ (in_connection s = false -> deferred s = None).

Lemma hpll29_nc c s s1 it res :
  handle_pending_ll_control c s = Some (s1, it, res) -> st s <> Connecting -> st s1 <> Connecting.
Proof.
  unfold handle_pending_ll_control. destruct (deferred s) as [body|]; [|intros H; injection H as <- <- <-; auto].
  destruct (def_instant s =? evc (cs s)); [|intros H; injection H as <- <- <-; auto].
  destruct (byte body 0 =? GenLL.LL_CHANNEL_MAP_REQ).
  - destruct (ChanMapModel.reset_impl _ _ _) as [ch o]. intros H; injection H as <- <- <-. cbn. auto.
  - destruct (byte body 0 =? GenLL.LL_CONNECTION_UPDATE_IND).
    + destruct (parse_update body) as [t ok]. destruct ok as [[|]|]; [| |discriminate]; intros H; injection H as <- <- <-.
      * rewrite st_push_event. cbn. discriminate.
      * cbn. auto.
    + intros H; injection H as <- <- <-. rewrite st_push_event. cbn. auto.
Qed.

Lemma fd_st c s s' it : force_disconnect c s = (s', it) -> st s' = Advertising.
Proof.
  unfold force_disconnect. destruct (reset_encryption c s) as [s1 i1].
  unfold start_advertising_impl, handle_start_advertising. intros H. injection H as <- <-. reflexivity.
Qed.

Lemma pending_then_setup_nc c s s' it :
  pending_then_setup c s = Some (s', it) -> st s <> Connecting -> st s' <> Connecting.
Proof.
  unfold pending_then_setup. intros H NC.
  destruct (handle_pending_ll_control c s) as [[[s1 it1] res]|] eqn:E; cbn [obind] in H; [|discriminate].
  pose proof (hpll29_nc c s s1 it1 res E NC) as NC1. destruct res.
  - destruct (setup_next_connection_event s1) as [[s2 it2]|] eqn:E2; cbn [obind] in H; [|discriminate].
    injection H as <- <-. destruct (setup_next_frame29 s1 s2 it2 E2) as (F1 & _). rewrite F1. exact NC1.
  - destruct (force_disconnect c s1) as [s2 it2] eqn:E2. injection H as <- <-. rewrite (fd_st _ _ _ _ E2). discriminate.
Qed.

Lemma end_event_continue_nc c s evts s' it :
  end_event_continue c s evts = Some (s', it) -> st s <> Connecting -> st s' <> Connecting.
Proof.
  unfold end_event_continue. intros H NC. destruct (procedure_timed_out s).
  - injection H as H. unfold force_disconnect_reason in H. rewrite (fd_st _ _ _ _ H). discriminate.
  - set (s5 := if negb (proc_timeout s =? 0) then set_proc_timeout s (proc_timeout s - tsle (cs s)) else s) in *.
    assert (F5 : st s5 = st s) by (subst s5; destruct (negb _); auto).
    destruct (transmit_pending_security_pdus c s5) as [s6 it6] eqn:E6.
    destruct (tpsp_frame29 c s5 s6 it6 E6) as (T1 & _).
    destruct (plan_next_connection_event c s6 _) as [s7|] eqn:E7; cbn [obind] in H; [|discriminate].
    destruct (plan_next_frame29 c s6 _ s7 E7) as (G1 & _).
    destruct (pending_then_setup c s7) as [[s8 it8]|] eqn:E8; cbn [obind] in H; [|discriminate].
    injection H as <- <-. apply (pending_then_setup_nc c s7 s8 it8 E8). congruence.
Qed.

Lemma end_event_body_nc c m s evts s' it :
  c_cb c = true -> ph (st s) = LEstablished -> Wr m (ring s) LEstablished ->
  end_event_body c s evts = Some (s', it) -> st s' <> Connecting.
Proof.
  intros Hcb P W H. unfold end_event_body in H.
  destruct (lstate_eqb (st s) Disconnecting && term_sent s && negb (pending_outgoing_data_available s)).
  - injection H as H. rewrite (fd_st _ _ _ _ H). discriminate.
  - destruct (handle_received_data _ c s) as [[s3 it3] res] eqn:E3.
    destruct (hrd29 _ c m Hcb s s3 it3 res P W E3) as (S3 & W3 & N3 & A3).
    destruct res.
    + destruct (end_event_continue c (send_control_pdus s3) evts) as [[s8 it8]|] eqn:E8; cbn [obind] in H; [|discriminate].
      injection H as <- <-. apply (end_event_continue_nc _ _ _ _ _ E8).
      destruct (send_control_pdus_frame29 s3) as (G1 & _). rewrite G1, S3. intros C. rewrite C in P. discriminate.
    + destruct (force_disconnect c s3) as [s4 it4] eqn:E4. injection H as <- <-. rewrite (fd_st _ _ _ _ E4). discriminate.
Qed.

Lemma mid29_fd c m s s' it0 it :
  c_cb c = true -> in_connection s = true -> Wr m (ring s) (ph (st s)) -> forallb nocb_item it0 = true ->
  adm (l_why m) (disc_reason s) = true ->
  force_disconnect c s = (s', it) -> mid29 m s' (it0 ++ it).
Proof.
  intros Hcb Hin W N0 Ha H. destruct (force_disconnect29 c m s s' it Hcb Hin W (fun _ => Ha) H) as (S & W' & D & N).
  unfold mid29. rewrite S. split; [exact W'|]. split; [discriminate|]. split; [rewrite forallb_app, N0, N; reflexivity|].
  split; [intros _; unfold in_connection; rewrite S; reflexivity|intros _; exact D].
Qed.

(* ---- frames of the remaining functions for the reason *)
Lemma hpll_V c s s1 it res :
  handle_pending_ll_control c s = Some (s1, it, res) -> disc_reason s1 = disc_reason s /\ Fr s s1.
Proof.
  unfold handle_pending_ll_control. destruct (deferred s) as [body|]; [|intros H; injection H as <- <- <-; split; [reflexivity|apply Fr_refl]].
  destruct (def_instant s =? evc (cs s)); [|intros H; injection H as <- <- <-; split; [reflexivity|apply Fr_refl]].
  destruct (byte body 0 =? GenLL.LL_CHANNEL_MAP_REQ).
  - destruct (ChanMapModel.reset_impl _ _ _) as [ch o]. intros H; injection H as <- <- <-. split; [reflexivity|apply Fr_V; reflexivity].
  - destruct (byte body 0 =? GenLL.LL_CONNECTION_UPDATE_IND).
    + destruct (parse_update body) as [t ok]. destruct ok as [[|]|]; [| |discriminate]; intros H; injection H as <- <- <-.
      * destruct (V_dr _ _ (V_push_event c (set_st (set_tm (set_proc_timeout (upd_cs (set_deferred s None) (fun x => if disarmable c then set_last_lat x 1 else x)) 0) t) ConnChanged)
                                (EvChanged (details_of (set_st (set_tm (set_proc_timeout (upd_cs (set_deferred s None) (fun x => if disarmable c then set_last_lat x 1 else x)) 0) t) ConnChanged))))) as (A1 & A2 & A3).
        split; [rewrite A1; reflexivity|]. split; [rewrite A2; apply armed_pt0; auto|rewrite A3; auto].
      * split; [reflexivity|]. split; [apply armed_pt0; auto|auto].
    + intros H; injection H as <- <- <-.
      match goal with |- context [push_event c ?X ?e] => destruct (V_dr _ _ (V_push_event c X e)) as (A1 & A2 & A3) end.
      split; [rewrite A1; reflexivity|]. split; [rewrite A2; auto|rewrite A3; auto].
Qed.

Lemma tpsp_V c s s6 it6 : transmit_pending_security_pdus c s = (s6, it6) -> V s6 = V s.
Proof.
  unfold transmit_pending_security_pdus. destruct (_ && _); [|intros H; injection H as <- <-; reflexivity].
  destruct (has_key (sc s)); intros H; injection H as <- <-; rewrite V_commit_ctrl; reflexivity.
Qed.
Lemma plan_next_V c s e s7 : plan_next_connection_event c s e = Some s7 -> V s7 = V s.
Proof.
  unfold plan_next_connection_event. destruct (dt_mul _ _); cbn [obind]; [|discriminate].
  destruct (_ && _); [discriminate|]. intros H. injection H as <-. reflexivity.
Qed.
Lemma setup_next_V s s' it : setup_next_connection_event s = Some (s', it) -> V s' = V s.
Proof.
  unfold setup_next_connection_event.
  destruct (if negb (tw_size (tm s) =? 0) then _ else _) as [[ws we]|]; cbn [obind]; [|discriminate].
  intros H. injection H as <- <-. reflexivity.
Qed.
Lemma scp_V s : V (send_control_pdus s) = V s.
Proof. unfold send_control_pdus. destruct (_ && _); [|reflexivity]. unfold V. cbn. fold (V (commit_ctrl s [GenLL.LL_TERMINATE_IND; disc_reason s])). apply V_commit_ctrl. Qed.
Lemma fd_V c s s' it : force_disconnect c s = (s', it) -> V s' = V s.
Proof.
  unfold force_disconnect, reset_encryption. destruct (c_enc c); unfold start_advertising_impl, handle_start_advertising;
    intros H; injection H as <- <-; cbn [st upd_sc set_sc]; destruct (st s); unfold V; cbn; rewrite ?V_push_event;
    match goal with |- context [push_event c ?X ?e] => pose proof (V_push_event c X e) as E; unfold V in E; injection E as -> -> -> -> -> end; reflexivity.
Qed.
Lemma armed_cpr s : cpr_pending (pr s) = true -> armed s = true.
Proof. unfold armed. intros ->. destruct (negb _); reflexivity. Qed.
Lemma armed_ver s : ver_pending (pr s) = true -> armed s = true.
Proof. unfold armed. intros ->. destruct (negb _); destruct (cpr_pending _); reflexivity. Qed.

Lemma tpcp_V c s :
  disc_reason (transmit_pending_control_pdus c s) = disc_reason s /\ Fr s (transmit_pending_control_pdus c s).
Proof.
  unfold transmit_pending_control_pdus.
  destruct (negb (cpr_pending (pr s)) && negb (phy_pending (pr s)) && negb (ver_pending (pr s)) && negb _); [split; [reflexivity|apply Fr_refl]|].
  destruct (negb (tx_buffer_available s)); [split; [reflexivity|apply Fr_refl]|].
  destruct (cpr_pending (pr s)) eqn:Ec.
  - match goal with |- context [commit_ctrl ?X ?b] => destruct (V_dr _ _ (V_commit_ctrl X b)) as (A1 & A2 & A3) end.
    split; [rewrite A1; reflexivity|]. split; [intros _; apply armed_cpr; exact Ec|intros p; rewrite A3; auto].
  - destruct (phy_pending (pr s)).
    + match goal with |- context [commit_ctrl ?X ?b] => destruct (V_dr _ _ (V_commit_ctrl X b)) as (A1 & A2 & A3) end.
      split; [rewrite A1; reflexivity|]. split; [rewrite A2; unfold armed; cbn; auto|intros p; rewrite A3; auto].
    + destruct (ver_pending (pr s)) eqn:Ev.
      * match goal with |- context [commit_ctrl ?X ?b] => destruct (V_dr _ _ (V_commit_ctrl X b)) as (A1 & A2 & A3) end.
        split; [rewrite A1; reflexivity|]. split; [intros _; apply armed_ver; exact Ev|intros p; rewrite A3; auto].
      * destruct (ap_negative (ac s));
          (match goal with |- context [commit_ctrl ?X ?b] => destruct (V_dr _ _ (V_commit_ctrl X b)) as (A1 & A2 & A3) end;
           split; [rewrite A1; reflexivity|]; split; [rewrite A2; unfold armed; cbn; auto|intros p; rewrite A3; auto]).
Qed.

Lemma pending_then_setup29 c m s s' it it0 :
  c_cb c = true -> in_connection s = true -> Wr m (ring s) (ph (st s)) -> (st s = Connecting -> deferred s = None) ->
  forallb nocb_item it0 = true -> has_adv29 it0 = false ->
  adm (l_why m) (disc_reason s) = true ->
  pending_then_setup c s = Some (s', it) -> mid29 m s' (it0 ++ it).
Proof.
  intros Hcb Hin W D N0 A0 Ha H. unfold pending_then_setup in H.
  destruct (handle_pending_ll_control c s) as [[[s1 it1] res]|] eqn:E; cbn [obind] in H; [|discriminate].
  destruct (hpll29 c s s1 it1 res E) as (G1 & G2 & G3 & G4).
  assert (K : in_connection s1 = true /\ Wr m (ring s1) (ph (st s1)) /\ (st s1 = Connecting -> deferred s1 = None)).
  { unfold in_connection in Hin. destruct (st s) eqn:Es; try discriminate.
    - destruct (G1 (D eq_refl)) as [-> ->]. rewrite Es. unfold in_connection. rewrite Es. auto.
    - destruct (G2 eq_refl) as [P1 R1]. split; [|split].
      + unfold in_connection. destruct (st s1); try discriminate; reflexivity.
      + rewrite P1. apply (Wr_step c m _ _ Hcb R1). exact W.
      + intros C. rewrite C in P1. discriminate.
    - destruct (G2 eq_refl) as [P1 R1]. split; [|split].
      + unfold in_connection. destruct (st s1); try discriminate; reflexivity.
      + rewrite P1. apply (Wr_step c m _ _ Hcb R1). exact W.
      + intros C. rewrite C in P1. discriminate.
    - destruct (G2 eq_refl) as [P1 R1]. split; [|split].
      + unfold in_connection. destruct (st s1); try discriminate; reflexivity.
      + rewrite P1. apply (Wr_step c m _ _ Hcb R1). exact W.
      + intros C. rewrite C in P1. discriminate. }
  destruct K as (Hin1 & W1 & D1).
  destruct res.
  - destruct (setup_next_connection_event s1) as [[s2 it2]|] eqn:E2; cbn [obind] in H; [|discriminate].
    injection H as <- <-. destruct (setup_next_frame29 s1 s2 it2 E2) as (F1 & F2 & F3 & F4 & F5).
    unfold mid29. rewrite F1, F2, F3. split; [exact W1|]. split; [exact D1|].
    rewrite !forallb_app, !has_adv29_app, N0, G3, F4, A0, G4, F5. split; [reflexivity|]. split; [discriminate|].
    rewrite (inconn_st s1 s2 F1), Hin1. discriminate.
  - destruct (force_disconnect c s1) as [s2 it2] eqn:E2. injection H as <- <-.
    rewrite app_assoc. apply mid29_fd with c s1; auto; [rewrite forallb_app, N0, G3; reflexivity|].
    rewrite (proj1 (hpll_V c s s1 it1 DoDisconnect E)). exact Ha.
Qed.

Lemma tpcp_frame29 c s :
  st (transmit_pending_control_pdus c s) = st s /\ ring (transmit_pending_control_pdus c s) = ring s
  /\ deferred (transmit_pending_control_pdus c s) = deferred s.
Proof.
  unfold transmit_pending_control_pdus.
  repeat match goal with |- context [if ?b then _ else _] => destruct b end;
    rewrite ?st_commit_ctrl, ?ring_commit_ctrl, ?deferred_commit_ctrl; cbn; auto.
Qed.

Lemma end_event_continue29 c m s evts s' it it0 :
  c_cb c = true -> ph (st s) = LEstablished -> Wr m (ring s) LEstablished ->
  forallb nocb_item it0 = true -> has_adv29 it0 = false ->
  adm (l_why m) (disc_reason s) = true -> (armed s = true -> w_arm (l_why m) = true) ->
  end_event_continue c s evts = Some (s', it) -> mid29 m s' (it0 ++ it).
Proof.
  intros Hcb P W N0 A0 Ha Harm H. unfold end_event_continue in H.
  assert (Hin : in_connection s = true) by (unfold in_connection; destruct (st s); try discriminate; reflexivity).
  destruct (procedure_timed_out s) eqn:Ept.
  - injection H as H. unfold force_disconnect_reason in H.
    apply mid29_fd with c (set_disc_reason s GenLL.connection_ll_response_timeout); auto; [cbn [ring st set_disc_reason]; rewrite P; exact W|].
    cbn [disc_reason set_disc_reason]. change GenLL.connection_ll_response_timeout with 34. apply adm_arm, Harm.
    unfold procedure_timed_out in Ept. apply andb_true_iff in Ept. destruct Ept as [Ept _]. unfold armed. rewrite Ept. reflexivity.
  - set (s5 := if negb (proc_timeout s =? 0) then set_proc_timeout s (proc_timeout s - tsle (cs s)) else s) in *.
    assert (F5 : st s5 = st s /\ ring s5 = ring s /\ deferred s5 = deferred s) by (subst s5; destruct (negb _); auto).
    destruct F5 as (F51 & F52 & F53).
    destruct (transmit_pending_security_pdus c s5) as [s6 it6] eqn:E6.
    destruct (tpsp_frame29 c s5 s6 it6 E6) as (T1 & T2 & T3 & T4 & T5).
    destruct (plan_next_connection_event c s6 _) as [s7|] eqn:E7; cbn [obind] in H; [|discriminate].
    destruct (plan_next_frame29 c s6 _ s7 E7) as (G1 & G2 & G3).
    destruct (pending_then_setup c s7) as [[s8 it8]|] eqn:E8; cbn [obind] in H; [|discriminate].
    injection H as <- <-. rewrite app_assoc.
    assert (S7 : st s7 = st s) by congruence.
    apply pending_then_setup29 with c s7; auto.
    + rewrite <- Hin. apply inconn_st. exact S7.
    + rewrite S7, P, G2, T2, F52. exact W.
    + intros C. rewrite S7 in C. rewrite C in P. discriminate.
    + rewrite forallb_app, N0, T4. reflexivity.
    + rewrite has_adv29_app, A0, T5. reflexivity.
    + rewrite (proj1 (V_dr _ _ (plan_next_V c s6 _ s7 E7))), (proj1 (V_dr _ _ (tpsp_V c s5 s6 it6 E6))).
      subst s5. destruct (negb _); exact Ha.
Qed.

Lemma prologue29 c m s :
  c_cb c = true -> in_connection s = true -> Wr m (ring s) (ph (st s)) ->
  (st s = Disconnecting -> ph (st s) = LEstablished) ->
  let s2 := end_event_prologue c s in
  ph (st s2) = LEstablished /\ Wr m (ring s2) LEstablished /\ st s2 <> Connecting.
Proof.
  intros Hcb Hin W _. unfold end_event_prologue. cbn zeta.
  unfold in_connection in Hin.
  destruct (st s) eqn:Es; try discriminate; cbn [st set_pending_event]; rewrite Es.
  - (* Connecting *) rewrite st_push_event. cbn [st set_pending_event]. rewrite Es. cbn [lstate_eqb].
    cbn [st ring upd_tm set_tm set_st]. rewrite ring_push_event. cbn [ring set_pending_event].
    split; [reflexivity|]. split; [|discriminate].
    apply Wr_push with LRequested; [exact Hcb|exact W|]. intros m' P. simpl. rewrite P. eexists. split; reflexivity.
  - cbn [st set_pending_event]. rewrite Es. cbn [lstate_eqb]. cbn [st ring upd_tm set_tm set_st set_pending_event].
    split; [reflexivity|]. split; [exact W|discriminate].
  - cbn [st set_pending_event]. rewrite Es. cbn [lstate_eqb]. cbn [st ring set_pending_event]. rewrite Es.
    split; [reflexivity|]. split; [exact W|discriminate].
  - cbn [st set_pending_event]. rewrite Es. cbn [lstate_eqb]. cbn [st ring upd_tm set_tm set_st set_pending_event].
    split; [reflexivity|]. split; [exact W|discriminate].
Qed.

Lemma end_event_body29 c m s evts s' it :
  c_cb c = true -> ph (st s) = LEstablished -> Wr m (ring s) LEstablished ->
  adm (l_why m) (disc_reason s) = true -> (armed s = true -> w_arm (l_why m) = true) ->
  w_rx (l_why m) = true -> RX (l_why m) s ->
  end_event_body c s evts = Some (s', it) -> mid29 m s' it.
Proof.
  intros Hcb P W Ha Harm Hrx HX H. unfold end_event_body in H.
  assert (Hin : in_connection s = true) by (unfold in_connection; destruct (st s); try discriminate; reflexivity).
  destruct (lstate_eqb (st s) Disconnecting && term_sent s && negb (pending_outgoing_data_available s)).
  - injection H as H. apply (mid29_fd c m s s' [] it); auto. rewrite P. exact W.
  - destruct (handle_received_data _ c s) as [[s3 it3] res] eqn:E3.
    destruct (hrd29 _ c m Hcb s s3 it3 res P W E3) as (S3 & W3 & N3 & A3).
    destruct (hrd_reason _ c (l_why m) Hrx s s3 it3 res HX Ha E3) as (Y1 & Y2 & Y3).
    destruct res.
    + destruct (end_event_continue c (send_control_pdus s3) evts) as [[s8 it8]|] eqn:E8; cbn [obind] in H; [|discriminate].
      injection H as <- <-. destruct (send_control_pdus_frame29 s3) as (G1 & G2 & G3).
      destruct (V_dr _ _ (scp_V s3)) as (Z1 & Z2 & Z3).
      apply end_event_continue29 with c (send_control_pdus s3) evts; auto.
      * rewrite G1, S3. exact P.
      * rewrite G2. exact W3.
      * rewrite Z1. exact Y1.
      * rewrite Z2. intros G. apply Harm, (proj1 Y3), G.
    + destruct (force_disconnect c s3) as [s4 it4] eqn:E4. injection H as <- <-.
      apply mid29_fd with c s3; auto.
      * rewrite <- Hin. apply inconn_st. exact S3.
      * rewrite S3, P. exact W3.
Qed.

(* an operation's result: the items before the callbacks, the callbacks, the state *)
Definition done29 (m : mon29) (s' : lstate_t) (it : list item) : Prop :=
  exists pre r, it = pre ++ map ICb r /\ forallb nocb_item pre = true /\ ring s' = []
                /\ Wr m r (ph (st s')) /\ (st s' = Connecting -> deferred s' = None)
                /\ (has_adv29 it = true -> in_connection s' = false)
                /\ (in_connection s' = false -> deferred s' = None).

Lemma has_adv29_cbs r : has_adv29 (map ICb r) = false.
Proof. induction r; simpl; auto. Qed.

Lemma epilogue29 c m s it s' it' :
  mid29 m s it -> end_event_epilogue c s it = (s', it') -> done29 m s' it'.
Proof.
  intros (W & D & N & A & DN) H. unfold end_event_epilogue in H.
  set (s10 := match st s with Connected | Connecting => transmit_pending_control_pdus c s | _ => s end) in *.
  assert (F : st s10 = st s /\ ring s10 = ring s /\ deferred s10 = deferred s)
    by (subst s10; destruct (st s) eqn:Es; rewrite <- ?Es; auto; apply tpcp_frame29).
  destruct F as (F1 & F2 & F3). unfold flush_events in H. injection H as <- <-.
  exists it, (ring s10). cbn [ring st deferred set_ring]. rewrite F1, F2, F3.
  split; [reflexivity|]. split; [exact N|]. split; [reflexivity|]. split; [exact W|]. split; [exact D|].
  unfold in_connection. cbn [st set_ring]. rewrite F1.
  split; [rewrite has_adv29_app, has_adv29_cbs, orb_false_r; exact A|exact DN].
Qed.

Lemma prologue_V c s : V (end_event_prologue c s) = V s.
Proof.
  unfold end_event_prologue.
  set (s0 := set_pending_event s false).
  set (s1 := match st s0 with Connecting => push_event c s0 (EvEstablished (details_of s0)) | _ => s0 end).
  assert (E : V s1 = V s) by (subst s1 s0; cbn [st set_pending_event]; destruct (st s); rewrite ?V_push_event; reflexivity).
  destruct (lstate_eqb (st s1) Disconnecting); [exact E|]. rewrite <- E. reflexivity.
Qed.

Lemma do_end_event29 c m s evts s' it :
  c_cb c = true -> in_connection s = true -> Wr m (ring s) (ph (st s)) ->
  adm (l_why m) (disc_reason s) = true -> (armed s = true -> w_arm (l_why m) = true) ->
  w_rx (l_why m) = true -> RX (l_why m) s ->
  do_end_event c s evts = Some (s', it) -> done29 m s' it /\ st s' <> Connecting.
Proof.
  intros Hcb Hin W Ha Harm Hrx HX H. unfold do_end_event in H.
  destruct (V_dr _ _ (prologue_V c s)) as (V1 & V2 & V3).
  destruct (prologue29 c m s Hcb Hin W (fun _ => ltac:(unfold in_connection in Hin; destruct (st s); try discriminate; reflexivity))) as (P & W2 & NC).
  destruct (end_event_body c (end_event_prologue c s) evts) as [[s9 it9]|] eqn:E; cbn [obind] in H; [|discriminate].
  assert (H' : end_event_epilogue c s9 it9 = (s', it)) by congruence.
  assert (M9 : mid29 m s9 it9).
  { apply (end_event_body29 c m _ evts s9 it9 Hcb P W2); [rewrite V1; exact Ha|rewrite V2; exact Harm|exact Hrx| |exact E].
    intros b Hb. apply HX. rewrite <- V3. exact Hb. }
  split; [apply (epilogue29 c m s9 it9 s' it M9 H')|].
  pose proof (end_event_body_nc c m _ evts s9 it9 Hcb P W2 E) as NC9.
  unfold end_event_epilogue, flush_events in H'. injection H' as <- _. cbn [st set_ring].
  destruct (st s9) eqn:Es; try discriminate; try congruence.
  rewrite (proj1 (tpcp_frame29 c s9)), Es. discriminate.
Qed.

(* ========================================================================================== part 5 *)
Lemma flush_done29 m s it : mid29 m s it -> done29 m (set_ring s []) (it ++ map ICb (ring s)).
Proof.
  intros (W & D & N & A & DN). exists it, (ring s). cbn [ring st deferred set_ring].
  split; [reflexivity|]. split; [exact N|]. split; [reflexivity|]. split; [exact W|]. split; [exact D|].
  split; [rewrite has_adv29_app, has_adv29_cbs, orb_false_r; exact A|exact DN].
Qed.

Lemma do_timeout29 c m s s' it :
  c_cb c = true -> in_connection s = true -> Wr m (ring s) (ph (st s)) -> (st s = Connecting -> deferred s = None) ->
  adm (l_why m) (disc_reason s) = true -> (armed s = true -> w_arm (l_why m) = true) ->
  do_timeout c s = Some (s', it) -> done29 m s' it.
Proof.
  intros Hcb Hin W D Ha Harm H. unfold do_timeout in H.
  set (s0 := set_pending_event s false) in *.
  match type of H with (do r <- ?X; _) = _ => destruct X as [[s2 it2]|] eqn:E end; cbn [obind] in H; [|discriminate].
  assert (M2 : mid29 m s2 it2).
  { destruct (lstate_eqb (st s0) Disconnecting && term_sent s0 && negb (pending_outgoing_data_available s0)).
    - injection E as E. apply (mid29_fd c m s0 s2 [] it2); auto.
    - destruct (negb (proc_timeout s0 =? 0) && (proc_timeout s0 <=? tsle (cs s0))) eqn:Ept.
      + injection E as E. unfold force_disconnect_reason in E.
        apply (mid29_fd c m (set_disc_reason s0 GenLL.connection_ll_response_timeout) s2 [] it2); auto.
        cbn [disc_reason set_disc_reason]. change GenLL.connection_ll_response_timeout with 34. apply adm_arm, Harm.
        apply andb_true_iff in Ept. destruct Ept as [Ept _]. unfold armed. change (proc_timeout s0) with (proc_timeout s) in Ept. rewrite Ept. reflexivity.
      + destruct (dt_mul _ _) as [five|]; cbn [obind] in E; [|discriminate].
        match type of E with context [if ?b then _ else _] => destruct b end.
        * unfold plan_after_timeout in E. destruct (dt_add _ _) as [t|]; cbn [obind] in E; [|discriminate].
          apply (pending_then_setup29 c m _ s2 it2 [] Hcb) in E; auto.
        * injection E as E. apply (mid29_fd c m s0 s2 [] it2); auto. }
  unfold flush_events in H. injection H as <- <-. apply flush_done29. exact M2.
Qed.

Lemma has_ce29_app a b : has_ce29 (a ++ b) = has_ce29 a || has_ce29 b.
Proof. unfold has_ce29. apply existsb_app. Qed.
Lemma has_ce29_cbs r : has_ce29 (map ICb r) = false.
Proof. induction r; simpl; auto. Qed.

Lemma setup_next_ce s s' it : setup_next_connection_event s = Some (s', it) -> has_ce29 it = true.
Proof.
  unfold setup_next_connection_event.
  destruct (if negb (tw_size (tm s) =? 0) then _ else _) as [[ws we]|]; cbn [obind]; [|discriminate].
  intros H. injection H as <- <-. reflexivity.
Qed.

(* the two outcomes of adv_received *)
Lemma adv_shape c s hdr0 body s' it :
  do_adv_received c s hdr0 body = Some (s', it) ->
  (st s' = st s /\ ring s' = ring s /\ deferred s' = deferred s /\ has_ce29 it = false /\ forallb nocb_item it = true
   /\ exists it1, it = it1 ++ map ICb [])
  \/ (exists pre d, st s' = Connecting /\ ring s' = [] /\ deferred s' = deferred s
                    /\ it = pre ++ map ICb (pushr c (ring s) (EvRequested d))
                    /\ forallb nocb_item pre = true /\ has_adv29 pre = false /\ has_ce29 pre = true).
Proof.
  intros H. unfold do_adv_received in H.
  destruct (valid_connect_request c hdr0 body).
  - destruct (ChanMapModel.reset_impl _ _ _) as [ch r].
    destruct r as [[|]| | | |]; try discriminate.
    + destruct (parse_connect body) as [t ok]. destruct ok as [[|]|]; [| |discriminate].
      * match type of H with (do r11 <- setup_next_connection_event ?X; _) = _ => remember X as s10 eqn:E10 end.
        assert (F10 : st s10 = Connecting /\ ring s10 = ring s /\ deferred s10 = deferred s) by (subst s10; repeat split; reflexivity).
        clear E10. destruct F10 as (F1 & F2 & F3).
        destruct (setup_next_connection_event s10) as [[s11 it11]|] eqn:E11; cbn [obind] in H; [|discriminate].
        destruct (setup_next_frame29 _ _ _ E11) as (G1 & G2 & G3 & G4 & G5). pose proof (setup_next_ce _ _ _ E11) as G6.
        unfold flush_events in H. injection H as <- <-. right.
        exists ([IAa (rd32 body 12) (rd24 body 16)] ++ it11), (details_of (upd_sc s11 (fun x => set_is_enc x false))).
        cbn [st ring deferred set_ring]. rewrite st_push_event, ring_push_event, deferred_push_event.
        cbn [st ring deferred upd_sc set_sc]. rewrite G1, G2, G3, F1, F2, F3.
        split; [reflexivity|]. split; [reflexivity|]. split; [reflexivity|]. split; [rewrite <- app_assoc; reflexivity|].
        split; [cbn [app forallb nocb_item andb]; exact G4|].
        split; [cbn [app]; unfold has_adv29; cbn [existsb orb]; exact G5|].
        cbn [app]. unfold has_ce29. cbn [existsb orb]. exact G6.
      * injection H as <- <-. left. cbn. repeat split; auto. exists []. reflexivity.
    + injection H as <- <-. left. cbn. repeat split; auto. exists []. reflexivity.
  - unfold handle_adv_timeout in H. injection H as <- <-. left. cbn. repeat split; auto. exists [IAdv (next_adv_channel (adv_ch s))]. reflexivity.
Qed.

(* ========================================================================================== part 6 *)
Lemma adv_V c s hdr0 body s' it :
  do_adv_received c s hdr0 body = Some (s', it) ->
  (st s' = st s /\ V s' = V s) \/ V s' = (GenLL.connection_timeout, 0, false, false, []).
Proof.
  intros H. unfold do_adv_received in H.
  destruct (valid_connect_request c hdr0 body).
  - destruct (ChanMapModel.reset_impl _ _ _) as [ch r].
    destruct r as [[|]| | | |]; try discriminate.
    + destruct (parse_connect body) as [t ok]. destruct ok as [[|]|]; [| |discriminate].
      * match type of H with (do r11 <- setup_next_connection_event ?X; _) = _ => remember X as s10 eqn:E10 end.
        assert (F10 : V s10 = (GenLL.connection_timeout, 0, false, false, [])) by (subst s10; reflexivity).
        clear E10.
        destruct (setup_next_connection_event s10) as [[s11 it11]|] eqn:E11; cbn [obind] in H; [|discriminate].
        unfold flush_events in H. injection H as <- <-. right.
        rewrite <- F10, <- (setup_next_V _ _ _ E11).
        match goal with |- context [push_event c ?X ?e] => pose proof (V_push_event c X e) as E end.
        unfold V in *. cbn [disc_reason proc_timeout pr bf set_ring] . rewrite E. reflexivity.
      * injection H as <- <-. left. split; reflexivity.
    + injection H as <- <-. left. split; reflexivity.
  - unfold handle_adv_timeout in H. injection H as <- <-. left. split; reflexivity.
Qed.

Definition RI (s : lstate_t) (m : mon29) : Prop :=
  ring s = [] /\ l_phase m = ph (st s) /\ (in_connection s = true -> l_link m = true)
  /\ (st s = Connecting -> deferred s = None) /\ (in_connection s = false -> deferred s = None)
  /\ (in_connection s = true -> disc_reason s = w_base (l_why m)) /\ RX (l_why m) s
  /\ (armed s = true -> w_arm (l_why m) = true).

Lemma ring_callbacks_app a b : ring_callbacks (a ++ b) = (ring_callbacks a + ring_callbacks b)%nat.
Proof. unfold ring_callbacks. rewrite filter_app, app_length. reflexivity. Qed.
Lemma ring_callbacks_cbs r : ring_callbacks (map ICb r) = length r.
Proof. unfold ring_callbacks. induction r; simpl; auto. Qed.

Lemma done29_fold m s' it :
  done29 m s' it -> N.of_nat (ring_callbacks it) <? GenLL.max_events = true ->
  exists m1, fold29 m it = (Ok, m1) /\ l_phase m1 = ph (st s') /\ l_link m1 = l_link m /\ l_why m1 = l_why m
             /\ ring s' = [] /\ (st s' = Connecting -> deferred s' = None) /\ (has_adv29 it = true -> in_connection s' = false)
             /\ (in_connection s' = false -> deferred s' = None).
Proof.
  intros (pre & r & -> & N & Rg & W & D & A & DN) Hlt.
  rewrite ring_callbacks_app, ring_callbacks_cbs in Hlt.
  assert (Hr : N.of_nat (length r) <? GenLL.max_events = true) by lia.
  destruct (W Hr) as (m1 & F & P).
  exists m1. rewrite (fold29_nocb m pre _ N), fold29_map. split; [exact F|]. split; [exact P|].
  destruct (foldcb_link _ _ _ F) as [L1 L2]. auto 10.
Qed.

Lemma Wr_nil m p : l_phase m = p -> Wr m [] p.
Proof. intros H _. exists m. auto. Qed.

Lemma ph_idle x : ph x = LIdle -> match x with Initial | Advertising => True | _ => False end.
Proof. destruct x; simpl; intros; try discriminate; exact I. Qed.
Lemma inconn_ph s : in_connection s = false <-> ph (st s) = LIdle.
Proof. unfold in_connection. destruct (st s); simpl; split; intros; try discriminate; reflexivity. Qed.

Definition plain_op (o : lop) : Prop := match o with Adv _ _ | Ev _ _ | Disconnect _ => False | _ => True end.

Lemma fold29_nocb_all m it : forallb nocb_item it = true -> fold29 m it = (Ok, m).
Proof. intros N. rewrite <- (app_nil_r it). rewrite (fold29_nocb m it [] N). reflexivity. Qed.

(* the monitor after it has taken note of the operation *)
Definition noted (m : mon29) (o : lop) : mon29 := set_why m (why_op (l_why m) o).

Lemma known_mono w w' body :
  (w_inst w = true -> w_inst w' = true) -> (forall x, existsb (N.eqb x) (w_terms w) = true -> existsb (N.eqb x) (w_terms w') = true) ->
  known w body -> known w' body.
Proof. intros A B [K1 K2]. split; [intros I; apply A, K1, I|intros x E; apply B, K2, E]. Qed.

Lemma RX_noted m o s : RX (l_why m) s -> RX (l_why (noted m o)) s.
Proof.
  intros HX body Hb. apply (known_mono (l_why m)); [| |apply HX; exact Hb]; destruct o; cbn; auto.
  - intros ->. reflexivity.
  - intros x E. rewrite existsb_app, E. reflexivity.
Qed.
Lemma arm_noted m o : w_arm (l_why m) = true -> w_arm (l_why (noted m o)) = true.
Proof. destruct o; cbn; auto. Qed.

Lemma RI_noted s m o : RI s m -> match o with Disconnect _ => False | _ => True end -> RI s (noted m o).
Proof.
  intros (R1 & R2 & R3 & R4 & R5 & R6 & R7 & R8) Ho. unfold RI.
  split; [exact R1|]. split; [exact R2|]. split; [exact R3|]. split; [exact R4|]. split; [exact R5|].
  split; [|split; [apply RX_noted; exact R7|intros A; apply arm_noted, R8, A]].
  intros I'. rewrite (R6 I'). destruct o; try reflexivity. destruct Ho.
Qed.

(* operations that leave st, ring, deferred and the reason alone and produce no callback *)
Lemma quiet_step c s m o s' it :
  c_cb c = true -> RI s m -> st s' = st s -> ring s' = ring s -> deferred s' = deferred s ->
  disc_reason s' = disc_reason s -> rxq (bf s') = rxq (bf s) -> (armed s' = true -> armed s = true \/ w_arm (l_why (noted m o)) = true) ->
  forallb nocb_item it = true -> has_adv29 it = false -> plain_op o ->
  exists m', mstep29 c m o (OItems it) = (Ok, m') /\ RI s' m'.
Proof.
  intros Hcb HR S1 S2 S3 S4 S5 S6 N A PO.
  assert (Ho : match o with Disconnect _ => False | _ => True end) by (destruct o; auto).
  destruct (RI_noted s m o HR Ho) as (R1 & R2 & R3 & R4 & R5 & R6 & R7 & R8).
  exists (noted m o). unfold mstep29. fold (noted m o). rewrite (fold29_nocb_all _ it N), Hcb. cbn [negb]. rewrite A, andb_false_r.
  split; [destruct o; try reflexivity; destruct PO|].
  unfold RI, RX. rewrite S1, S2, S3, S4, S5, (inconn_st s s' S1).
  split; [exact R1|]. split; [exact R2|]. split; [exact R3|]. split; [exact R4|]. split; [exact R5|]. split; [exact R6|]. split; [exact R7|].
  intros G. destruct (S6 G) as [G1|G1]; [apply R8, G1|exact G1].
Qed.

(* operations outside a connection that stay outside *)
Lemma idle_step c s m o s' it :
  c_cb c = true -> RI s m -> ph (st s) = LIdle -> ph (st s') = LIdle -> ring s' = [] -> deferred s' = None ->
  rxq (bf s') = rxq (bf s) -> armed s' = armed s ->
  forallb nocb_item it = true -> plain_op o ->
  exists m', mstep29 c m o (OItems it) = (Ok, m') /\ RI s' m'.
Proof.
  intros Hcb HR P P' Rg D S5 S6 N PO.
  assert (Ho : match o with Disconnect _ => False | _ => True end) by (destruct o; auto).
  destruct (RI_noted s m o HR Ho) as (R1 & R2 & R3 & R4 & R5 & R6 & R7 & R8).
  unfold mstep29. fold (noted m o). rewrite (fold29_nocb_all _ it N), Hcb. cbn [negb].
  assert (I' : in_connection s' = false) by (apply inconn_ph; exact P').
  assert (C' : st s' <> Connecting) by (intros C; rewrite C in P'; discriminate).
  assert (TL : forall m', l_why m' = l_why (noted m o) -> l_phase m' = LIdle -> RI s' m').
  { intros m' E1 E2. unfold RI, RX. rewrite E1, E2, P', I', S5, S6, Rg, D.
    split; [reflexivity|]. split; [reflexivity|]. split; [discriminate|]. split; [intros C; contradiction|].
    split; [reflexivity|]. split; [discriminate|]. split; [exact R7|exact R8]. }
  destruct (l_link (noted m o) && has_adv29 it).
  - rewrite R2, P. cbn [is_idle29]. eexists. split; [destruct o; try reflexivity; destruct PO|]. apply TL; reflexivity.
  - exists (noted m o). split; [destruct o; try reflexivity; destruct PO|]. apply TL; [reflexivity|rewrite R2; exact P].
Qed.

Lemma radio_exchange_frame29 s rx :
  let '(s1, it, md) := radio_exchange s rx in
  st s1 = st s /\ ring s1 = ring s /\ deferred s1 = deferred s /\ forallb nocb_item it = true /\ has_adv29 it = false /\ ring_callbacks it = O
  /\ disc_reason s1 = disc_reason s /\ armed s1 = armed s
  /\ (forall p, In p (rxq (bf s1)) -> In p (rxq (bf s)) \/ exists l b, rx = Some (l, b) /\ p = (N.land l 3, b)).
Proof.
  unfold radio_exchange.
  assert (Q : forall p, In p (match rx with
            | Some (llid, body) => if negb (N.of_nat (length body) =? 0) && negb (N.land llid 3 =? 0) then rxq (bf s) ++ [(N.land llid 3, body)] else rxq (bf s)
            | None => rxq (bf s) end) -> In p (rxq (bf s)) \/ exists l b, rx = Some (l, b) /\ p = (N.land l 3, b)).
  { intros p. destruct rx as [[l b]|]; [|auto]. destruct (_ && _); [|auto].
    intros Hp. apply in_app_or in Hp. destruct Hp as [Hp|[Hp|[]]]; [auto|]. right. exists l, b. auto. }
  destruct (match fl (bf s) with FHead => tl (txq (bf s)) | _ => txq (bf s) end) as [|[llid body] rest]; cbn; auto 12.
Qed.

Lemma radio_event_frame29 fuel : forall s pdus s1 it,
  radio_event fuel s pdus = (s1, it) ->
  st s1 = st s /\ ring s1 = ring s /\ deferred s1 = deferred s /\ forallb nocb_item it = true /\ has_adv29 it = false /\ ring_callbacks it = O
  /\ disc_reason s1 = disc_reason s /\ armed s1 = armed s
  /\ (forall p, In p (rxq (bf s1)) -> In p (rxq (bf s)) \/ exists l b, In (l, b) pdus /\ p = (N.land l 3, b)).
Proof.
  induction fuel as [|fuel IH]; intros s pdus s1 it H; simpl in H.
  - injection H as <- <-. auto 12.
  - pose proof (radio_exchange_frame29 s (hd_error pdus)) as F.
    destruct (radio_exchange s (hd_error pdus)) as [[sa ita] md]. destruct F as (F1 & F2 & F3 & F4 & F5 & F6 & F7 & F8 & F9).
    assert (F9' : forall p, In p (rxq (bf sa)) -> In p (rxq (bf s)) \/ exists l b, In (l, b) pdus /\ p = (N.land l 3, b)).
    { intros p Hp. destruct (F9 p Hp) as [X|(l & b & X & Y)]; [auto|]. right. exists l, b. split; [|exact Y].
      destruct pdus as [|q t]; [discriminate|]. simpl in X. injection X as ->. left. reflexivity. }
    destruct (match tl pdus with [] => md | _ => true end).
    + destruct (radio_event fuel sa (tl pdus)) as [sb itb] eqn:E. injection H as <- <-.
      destruct (IH _ _ _ _ E) as (G1 & G2 & G3 & G4 & G5 & G6 & G7 & G8 & G9).
      rewrite forallb_app, has_adv29_app, ring_callbacks_app, F4, G4, F5, G5, F6, G6.
      split; [congruence|]. split; [congruence|]. split; [congruence|]. split; [reflexivity|]. split; [reflexivity|]. split; [reflexivity|].
      split; [congruence|]. split; [congruence|].
      intros p Hp. destruct (G9 p Hp) as [X|(l & b & X & Y)]; [apply F9', X|].
      right. exists l, b. split; [|exact Y]. destruct pdus; [destruct X|right; exact X].
    + injection H as <- <-. auto 12.
Qed.

Lemma do_cancel_frame29 c s b us s' it :
  do_cancel c s b us = Some (s', it) ->
  st s' = st s /\ ring s' = ring s /\ deferred s' = deferred s /\ forallb nocb_item it = true /\ has_adv29 it = false /\ V s' = V s.
Proof.
  unfold do_cancel. destruct (_ && _); [|intros H; injection H as <- <-; auto 10].
  destruct b; [|intros H; injection H as <- <-; auto 10].
  destruct (interval (tm s) =? 0); [discriminate|].
  destruct (dt_add _ _) as [sum|]; cbn [obind]; [|discriminate].
  destruct (dt_sub _ _) as [sum1|]; cbn [obind]; [|discriminate].
  destruct (499 <? _); [discriminate|].
  destruct (dt_mul _ _) as [back|]; cbn [obind]; [|discriminate].
  destruct (dt_sub _ _) as [t|]; cbn [obind]; [|discriminate].
  match goal with |- (do r <- ?X; _) = _ -> _ => destruct X as [[s2 it2]|] eqn:E end; cbn [obind]; [|discriminate].
  intros H; injection H as <- <-. destruct (setup_next_frame29 _ _ _ E) as (G1 & G2 & G3 & G4 & G5).
  cbn [forallb nocb_item andb]. unfold has_adv29. cbn [existsb orb]. rewrite G1, G2, G3, (setup_next_V _ _ _ E). auto 10.
Qed.

(* ---- what an operation that stays in the connection keeps: the reason, no new timer source, no new received PDU *)
Definition Keep (s s' : lstate_t) : Prop := Fr s s' /\ (disc_reason s' = disc_reason s \/ in_connection s' = false).
Lemma Keep_V s s' : V s' = V s -> Keep s s'.
Proof. intros E. split; [apply Fr_V; exact E|left; apply (V_dr _ _ E)]. Qed.

Lemma keep_fd c s s' it : force_disconnect c s = (s', it) -> Fr s s' /\ in_connection s' = false.
Proof. intros H. split; [apply Fr_V, (fd_V _ _ _ _ H)|unfold in_connection; rewrite (fd_st _ _ _ _ H); reflexivity]. Qed.
Lemma Keep_fd c s0 s s' it : Fr s0 s -> force_disconnect c s = (s', it) -> Keep s0 s'.
Proof. intros F H. destruct (keep_fd _ _ _ _ H) as [F' I]. split; [apply Fr_trans with s; assumption|right; exact I]. Qed.

Lemma hrd_keep fuel c : forall s s1 it res,
  handle_received_data fuel c s = (s1, it, res) -> Fr s s1 /\ (res = GoAhead -> disc_reason s1 = disc_reason s) /\ st s1 = st s.
Proof.
  induction fuel as [|fuel IH]; intros s s1 it res H; simpl in H.
  - injection H as <- <- <-. split; [apply Fr_refl|auto].
  - destruct (deferred s); [injection H as <- <- <-; split; [apply Fr_refl|auto]|].
    destruct (rxq (bf s)) as [|[llid body] rest] eqn:Erx; [injection H as <- <- <-; split; [apply Fr_refl|auto]|].
    assert (Pop : forall sx, (armed sx = true -> armed s = true) -> rxq (bf sx) = rxq (bf s) -> Fr s (upd_bf sx (fun b => set_rxq b rest))).
    { intros sx A B. split; [exact A|]. intros p Hp. change (In p rest) in Hp. rewrite Erx. right. exact Hp. }
    destruct (llid =? GenLL.ll_control_pdu_code).
    + destruct (tx_buffer_available s); [|injection H as <- <- <-; split; [apply Fr_refl|auto]].
      destruct (handle_ll_control c s body) as [[s1' it1] r1] eqn:E1.
      destruct (hlc_reason c s body s1' it1 r1 E1) as (A1 & A2 & A3). destruct (hlc29 c s body s1' it1 r1 E1) as (S1 & _).
      pose proof (Pop s1' A1 A2) as F2.
      destruct r1.
      * destruct (handle_received_data fuel c (upd_bf s1' (fun b => set_rxq b rest))) as [[s3 it3] r3] eqn:E3. injection H as <- <- <-.
        destruct (IH _ _ _ _ E3) as (B1 & B2 & B3).
        split; [eapply Fr_trans; eauto|]. split; [intros G; rewrite (B2 G); exact A3|rewrite B3; exact S1].
      * injection H as <- <- <-. split; [exact F2|]. split; [discriminate|exact S1].
    + destruct ((llid =? GenLL.lld_data_pdu_code) && negb (lstate_eqb (st s) Disconnecting)); [|injection H as <- <- <-; split; [apply Fr_refl|auto]].
      destruct (if c_enc c then l2cap_reply_enc (is_enc (sc s)) body else l2cap_reply body) as [|r].
      * destruct (IH _ _ _ _ H) as (B1 & B2 & B3). split; [eapply Fr_trans; [apply (Pop s); auto|exact B1]|]. split; [exact B2|exact B3].
      * destruct (tx_buffer_available s); [|injection H as <- <- <-; split; [apply Fr_refl|auto]].
        set (s1c := match r with Some f => commit s (GenLL.lld_data_pdu_code, f) | None => s end) in *.
        assert (Ec : V s1c = V s) by (subst s1c; destruct r; [apply V_commit|reflexivity]).
        assert (Sc : st s1c = st s) by (subst s1c; destruct r; [apply st_commit|reflexivity]).
        destruct (V_dr _ _ Ec) as (X1 & X2 & X3).
        destruct (IH _ _ _ _ H) as (B1 & B2 & B3).
        split; [eapply Fr_trans; [apply (Pop s1c); [rewrite X2; auto|exact X3]|exact B1]|].
        split; [intros G; rewrite (B2 G); exact X1|rewrite B3; exact Sc].
Qed.

Lemma pts_keep c s s' it : pending_then_setup c s = Some (s', it) -> Keep s s'.
Proof.
  unfold pending_then_setup. intros H.
  destruct (handle_pending_ll_control c s) as [[[s1 it1] res]|] eqn:E; cbn [obind] in H; [|discriminate].
  destruct (hpll_V c s s1 it1 res E) as [D F]. destruct res.
  - destruct (setup_next_connection_event s1) as [[s2 it2]|] eqn:E2; cbn [obind] in H; [|discriminate].
    injection H as <- <-. destruct (V_dr _ _ (setup_next_V _ _ _ E2)) as (X1 & X2 & X3).
    split; [apply Fr_trans with s1; [exact F|apply Fr_V, (setup_next_V _ _ _ E2)]|left; congruence].
  - destruct (force_disconnect c s1) as [s2 it2] eqn:E2. injection H as <- <-. apply (Keep_fd c s s1 s2 it2 F E2).
Qed.

Lemma Fr_set_dr s r : Fr s (set_disc_reason s r).
Proof. split; auto. Qed.

Lemma continue_keep c s evts s' it : end_event_continue c s evts = Some (s', it) -> Keep s s'.
Proof.
  unfold end_event_continue. intros H. destruct (procedure_timed_out s).
  - injection H as H. unfold force_disconnect_reason in H. apply (Keep_fd c s _ s' it (Fr_set_dr s _) H).
  - set (s5 := if negb (proc_timeout s =? 0) then set_proc_timeout s (proc_timeout s - tsle (cs s)) else s) in *.
    assert (K5 : Fr s s5 /\ disc_reason s5 = disc_reason s).
    { subst s5. destruct (negb (proc_timeout s =? 0)) eqn:E; [|split; [apply Fr_refl|reflexivity]].
      split; [|reflexivity]. split; [intros _; unfold armed; rewrite E; reflexivity|auto]. }
    destruct K5 as [F5 D5].
    destruct (transmit_pending_security_pdus c s5) as [s6 it6] eqn:E6.
    destruct (plan_next_connection_event c s6 _) as [s7|] eqn:E7; cbn [obind] in H; [|discriminate].
    destruct (pending_then_setup c s7) as [[s8 it8]|] eqn:E8; cbn [obind] in H; [|discriminate].
    injection H as <- <-.
    destruct (V_dr _ _ (tpsp_V _ _ _ _ E6)) as (X1 & X2 & X3). destruct (V_dr _ _ (plan_next_V _ _ _ _ E7)) as (Y1 & Y2 & Y3).
    assert (F7 : Fr s s7) by (apply Fr_trans with s5; [exact F5|]; apply Fr_trans with s6; apply Fr_V; [apply (tpsp_V _ _ _ _ E6)|apply (plan_next_V _ _ _ _ E7)]).
    destruct (pts_keep _ _ _ _ E8) as [F8 D8].
    split; [apply Fr_trans with s7; assumption|]. destruct D8 as [D8|D8]; [left; congruence|right; exact D8].
Qed.

Lemma body_keep c s evts s' it : end_event_body c s evts = Some (s', it) -> Keep s s'.
Proof.
  unfold end_event_body. intros H.
  destruct (lstate_eqb (st s) Disconnecting && term_sent s && negb (pending_outgoing_data_available s)).
  - injection H as H. apply (Keep_fd c s s s' it (Fr_refl s) H).
  - destruct (handle_received_data _ c s) as [[s3 it3] res] eqn:E3.
    destruct (hrd_keep _ c s s3 it3 res E3) as (F3 & D3 & S3).
    destruct res.
    + destruct (end_event_continue c (send_control_pdus s3) evts) as [[s8 it8]|] eqn:E8; cbn [obind] in H; [|discriminate].
      injection H as <- <-. destruct (continue_keep _ _ _ _ _ E8) as [F8 D8]. destruct (V_dr _ _ (scp_V s3)) as (Z1 & Z2 & Z3).
      split; [apply Fr_trans with s3; [exact F3|]; apply Fr_trans with (send_control_pdus s3); [apply Fr_V, scp_V|exact F8]|].
      destruct D8 as [D8|D8]; [left; rewrite D8, Z1; apply D3; reflexivity|right; exact D8].
    + destruct (force_disconnect c s3) as [s4 it4] eqn:E4. injection H as <- <-. apply (Keep_fd c s s3 s4 it4 F3 E4).
Qed.

Lemma dee_keep c s evts s' it : do_end_event c s evts = Some (s', it) -> Keep s s'.
Proof.
  unfold do_end_event. intros H.
  destruct (end_event_body c (end_event_prologue c s) evts) as [[s9 it9]|] eqn:E; cbn [obind] in H; [|discriminate].
  assert (H' : end_event_epilogue c s9 it9 = (s', it)) by congruence.
  destruct (body_keep _ _ _ _ _ E) as [F9 D9]. destruct (V_dr _ _ (prologue_V c s)) as (P1 & P2 & P3).
  unfold end_event_epilogue, flush_events in H'. injection H' as <- _.
  set (s10 := match st s9 with Connected | Connecting => transmit_pending_control_pdus c s9 | _ => s9 end).
  assert (K10 : disc_reason s10 = disc_reason s9 /\ Fr s9 s10 /\ st s10 = st s9).
  { subst s10. destruct (st s9) eqn:Es; try (split; [reflexivity|split; [apply Fr_refl|exact Es]]);
      (destruct (tpcp_V c s9) as [A B]; split; [exact A|split; [exact B|rewrite (proj1 (tpcp_frame29 c s9)); exact Es]]). }
  destruct K10 as (A10 & B10 & C10).
  split.
  - apply Fr_trans with (end_event_prologue c s); [apply Fr_V, prologue_V|]. apply Fr_trans with s9; [exact F9|].
    apply Fr_trans with s10; [exact B10|apply Fr_V; reflexivity].
  - cbn [disc_reason set_ring]. unfold in_connection. cbn [st set_ring]. rewrite A10, C10.
    destruct D9 as [D9|D9]; [left; congruence|right; exact D9].
Qed.

Lemma dt_keep c s s' it : do_timeout c s = Some (s', it) -> Keep s s'.
Proof.
  unfold do_timeout. intros H. set (s0 := set_pending_event s false) in *.
  match type of H with (do r <- ?X; _) = _ => destruct X as [[s2 it2]|] eqn:E end; cbn [obind] in H; [|discriminate].
  unfold flush_events in H. injection H as <- _.
  assert (K2 : Keep s s2).
  { destruct (lstate_eqb (st s0) Disconnecting && term_sent s0 && negb (pending_outgoing_data_available s0)).
    - injection E as E. apply (Keep_fd c s s0 s2 it2 (Fr_V _ _ eq_refl) E).
    - destruct (negb (proc_timeout s0 =? 0) && (proc_timeout s0 <=? tsle (cs s0))).
      + injection E as E. unfold force_disconnect_reason in E.
        apply (Keep_fd c s (set_disc_reason s0 GenLL.connection_ll_response_timeout) s2 it2); [split; auto|exact E].
      + destruct (dt_mul _ _) as [five|]; cbn [obind] in E; [|discriminate].
        match type of E with context [if ?b then _ else _] => destruct b end.
        * unfold plan_after_timeout in E. destruct (dt_add _ _) as [t|]; cbn [obind] in E; [|discriminate].
          apply pts_keep in E. exact E.
        * injection E as E. apply (Keep_fd c s s0 s2 it2 (Fr_V _ _ eq_refl) E). }
  destruct K2 as [F2 D2]. split; [apply Fr_trans with s2; [exact F2|apply Fr_V; reflexivity]|exact D2].
Qed.

(* what the monitor learns from the PDUs of a connection event covers what the radio puts into the receive queue *)
Lemma RX_ev m evts pdus s s1 :
  RX (l_why m) s ->
  (forall p, In p (rxq (bf s1)) -> In p (rxq (bf s)) \/ exists l b, In (l, b) pdus /\ p = (N.land l 3, b)) ->
  RX (l_why (noted m (Ev evts pdus))) s1.
Proof.
  intros HX Hq body Hb. destruct (Hq _ Hb) as [X|(l & b & X & Y)].
  - apply (RX_noted m (Ev evts pdus) s HX). exact X.
  - injection Y as Y1 Y2. subst b. cbn [noted set_why l_why why_op w_inst w_terms]. split.
    + intros I. cbn [w_inst]. apply orb_true_iff. right. apply existsb_exists. exists (l, body). split; [exact X|].
      unfold ctrl_pdu. cbn [fst snd]. rewrite <- Y1, N.eqb_refl, I. reflexivity.
    + intros x Ex. cbn [w_terms]. rewrite existsb_app. apply orb_true_iff. right. apply existsb_exists. exists x. split; [|apply N.eqb_refl].
      apply in_flat_map. exists (l, body). split; [exact X|]. unfold term_codes, ctrl_pdu. cbn [fst snd]. rewrite <- Y1, N.eqb_refl, Ex. left. reflexivity.
Qed.

(* closing an operation inside a connection *)
Lemma conn_step c s m o s' it :
  c_cb c = true -> RI s m -> in_connection s = true -> done29 (noted m o) s' it ->
  N.of_nat (ring_callbacks it) <? GenLL.max_events = true ->
  match o with Adv _ _ | Disconnect _ => False | Ev _ _ => st s' <> Connecting | _ => True end ->
  RX (l_why (noted m o)) s' -> (armed s' = true -> w_arm (l_why (noted m o)) = true) ->
  (disc_reason s' = disc_reason s \/ in_connection s' = false) ->
  exists m', mstep29 c m o (OItems it) = (Ok, m') /\ RI s' m'.
Proof.
  intros Hcb (R1 & R2 & R3 & R4 & R5 & R6 & R7 & R8) Hin Dn Hlt Ho HX HA HD.
  destruct (done29_fold _ s' it Dn Hlt) as (m1 & F & P & L & Y & Rg & D & A & DN).
  assert (L' : l_link m1 = true) by (rewrite L; apply (R3 Hin)).
  assert (B : w_base (l_why m1) = w_base (l_why m)) by (rewrite Y; destruct o; try reflexivity; destruct Ho).
  unfold mstep29. fold (noted m o). rewrite F, Hcb. cbn [negb]. rewrite L'. cbn [andb].
  destruct (has_adv29 it) eqn:Ea.
  - pose proof (A eq_refl) as I'. rewrite P. rewrite (proj1 (inconn_ph s') I'). cbn [is_idle29].
    eexists. split; [destruct o; try reflexivity; destruct Ho|].
    unfold RI. cbn [l_phase l_link l_why]. rewrite (proj1 (inconn_ph s') I'), I', Y.
    split; [exact Rg|]. split; [reflexivity|]. split; [discriminate|]. split; [exact D|]. split; [intros _; apply DN, I'|].
    split; [discriminate|]. split; [exact HX|exact HA].
  - assert (RI s' m1).
    { unfold RI. rewrite L', Y. split; [exact Rg|]. split; [exact P|]. split; [auto|]. split; [exact D|]. split; [exact DN|].
      split; [|split; [exact HX|exact HA]].
      intros I'. rewrite <- Y, B, <- (R6 Hin). destruct HD as [HD|HD]; [exact HD|congruence]. }
    exists m1. split; [|assumption].
    destruct o; try reflexivity; try (destruct Ho; fail).
    rewrite P. destruct (st s') eqn:Es; try reflexivity. exfalso. apply Ho. reflexivity.
Qed.

Lemma Fr_RX w s s' : Fr s s' -> RX w s -> RX w s'.
Proof. intros [_ F] HX body Hb. apply HX, F, Hb. Qed.

Theorem step29 c s m o s' r :
  c_cb c = true -> RI s m -> lstep c s o = (s', r) -> env_step29 m o r = true ->
  exists m', mstep29 c m o r = (Ok, m') /\ RI s' m'.
Proof.
  intros Hcb HR H He.
  assert (PRE : forall r0, (r0 = OPre \/ r0 = OBadOp) -> (s, r0) = (s', r) -> exists m', mstep29 c m o r = (Ok, m') /\ RI s' m').
  { intros r0 [->| ->] E; injection E as <- <-; exists m; split; auto. }
  pose proof HR as (R1 & R2 & R3 & R4 & R5 & R6 & R7 & R8).
  destruct o; cbn [lstep] in H.
  - (* Run *)
    destruct (st s) eqn:Es.
    + injection H as <- <-. apply idle_step with s; auto; rewrite ?Es; reflexivity.
    + injection H as <- <-. apply quiet_step with s; auto. exact I.
    + injection H as <- <-. apply quiet_step with s; auto. exact I.
    + injection H as <- <-. apply quiet_step with s; auto. exact I.
    + injection H as <- <-. apply quiet_step with s; auto. exact I.
    + injection H as <- <-. apply quiet_step with s; auto. exact I.
  - (* AdvTimeout *)
    destruct (st s) eqn:Es; try (apply (PRE OPre); auto; fail).
    injection H as <- <-. apply idle_step with s; auto; cbn [st ring deferred set_adv_ch]; rewrite ?Es; auto.
    + apply R5. unfold in_connection. rewrite Es. reflexivity.
    + exact I.
  - (* Adv *)
    destruct (st s) eqn:Es; try (apply (PRE OPre); auto; fail).
    destruct (255 <? N.of_nat (length body)); [apply (PRE OBadOp); auto|].
    unfold ok_items in H. destruct (do_adv_received c s hdr0 body) as [[s1 it]|] eqn:E; [|injection H as <- <-; discriminate].
    injection H as <- <-.
    assert (Hin : in_connection s = false) by (unfold in_connection; rewrite Es; reflexivity).
    pose proof (RI_noted s m (Adv hdr0 body) HR I) as (N1 & N2 & N3 & N4 & N5 & N6 & N7 & N8).
    destruct (adv_shape c s hdr0 body s1 it E) as [(S1 & S2 & S3 & S4 & S5 & (it1 & S6))|(pre & d & S1 & S2 & S3 & S4 & S5 & S6 & S7)].
    + exists (noted m (Adv hdr0 body)). unfold mstep29. fold (noted m (Adv hdr0 body)). rewrite (fold29_nocb_all _ it S5), Hcb, S4. cbn [negb]. split; [reflexivity|].
      destruct (adv_V c s hdr0 body s1 it E) as [[_ EV]|EV].
      * destruct (V_dr _ _ EV) as (X1 & X2 & X3). unfold RI, RX. rewrite S1, S2, S3, (inconn_st s s1 S1), X1, X2, X3.
        split; [exact N1|]. split; [exact N2|]. split; [exact N3|]. split; [exact N4|]. split; [exact N5|]. split; [exact N6|]. split; [exact N7|exact N8].
      * unfold RI, RX. rewrite S1, S2, S3, (inconn_st s s1 S1), Hin. unfold V in EV. injection EV as X1 X2 X3 X4 X5.
        split; [exact N1|]. split; [exact N2|]. split; [discriminate|]. split; [exact N4|]. split; [intros _; apply N5, Hin|]. split; [discriminate|].
        split; [rewrite X5; intros b []|]. unfold armed. rewrite X2, X3, X4. discriminate.
    + subst it. unfold mstep29. fold (noted m (Adv hdr0 body)). rewrite (fold29_nocb _ pre _ S5), R1.
      unfold pushr. rewrite Hcb. change (N.of_nat (length (@nil cb_event)) <? GenLL.max_events) with true. cbn [app map fold29 cb29].
      rewrite N2, Es. cbn [ph negb].
      rewrite has_ce29_app, S7. cbn [orb l_phase l_closed is_requested29].
      eexists. split; [reflexivity|].
      destruct (adv_V c s hdr0 body s1 _ E) as [[EV _]|EV].
      * exfalso. congruence.
      * unfold V in EV. injection EV as X1 X2 X3 X4 X5.
        assert (I1 : in_connection s1 = true) by (unfold in_connection; rewrite S1; reflexivity).
        unfold RI, RX. cbn [l_phase l_link l_why fresh_why w_base w_arm]. rewrite S1, S2, S3, X1, X5, I1. cbn [ph].
        split; [reflexivity|]. split; [reflexivity|]. split; [reflexivity|]. split; [intros _; apply R5, Hin|]. split; [discriminate|].
        split; [reflexivity|]. split; [intros b []|]. unfold armed. rewrite X2, X3, X4. discriminate.
  - (* Ev *)
    destruct (in_connection s) eqn:Hin; [|apply (PRE OPre); auto].
    match type of H with context [existsb ?f pdus] => destruct (existsb f pdus) end; [apply (PRE OBadOp); auto|].
    destruct (radio_event _ s pdus) as [s1 it1] eqn:E1.
    destruct (do_end_event c s1 evts) as [[s2 it2]|] eqn:E2; [|injection H as <- <-; discriminate].
    injection H as <- <-.
    destruct (radio_event_frame29 _ _ _ _ _ E1) as (F1 & F2 & F3 & F4 & F5 & F6 & F7 & F8 & F9).
    cbn [env_step29] in He. apply andb_true_iff in He. destruct He as [He _].
    set (m0 := noted m (Ev evts pdus)).
    assert (HX1 : RX (l_why m0) s1) by (apply RX_ev with s; assumption).
    assert (HA1 : armed s1 = true -> w_arm (l_why m0) = true) by (rewrite F8; intros G; apply arm_noted, R8, G).
    assert (Ha1 : adm (l_why m0) (disc_reason s1) = true) by (apply adm_base; rewrite F7, (R6 eq_refl); reflexivity).
    destruct (do_end_event29 c m0 s1 evts s2 it2 Hcb) as [Dn NC]; auto.
    + rewrite <- Hin. apply inconn_st. exact F1.
    + rewrite F1, F2, R1. apply Wr_nil. exact R2.
    + destruct (dee_keep _ _ _ _ _ E2) as [K1 K2].
      apply conn_step with s; auto.
      * destruct Dn as (pre & r & -> & N & Rg & W & D & A & DN).
        exists (it1 ++ pre), r. rewrite <- app_assoc. split; [reflexivity|]. split; [rewrite forallb_app, F4, N; reflexivity|].
        split; [exact Rg|]. split; [exact W|]. split; [exact D|]. split; [|exact DN].
        rewrite has_adv29_app, F5. cbn [orb]. exact A.
      * apply (Fr_RX _ s1 s2 K1 HX1).
      * intros G. apply HA1, (proj1 K1), G.
      * rewrite <- F7. exact K2.
  - (* Timeout *)
    destruct (in_connection s) eqn:Hin; [|apply (PRE OPre); auto].
    unfold ok_items in H. destruct (do_timeout c s) as [[s1 it]|] eqn:E; [|injection H as <- <-; discriminate].
    injection H as <- <-. cbn [env_step29] in He. apply andb_true_iff in He. destruct He as [He _].
    set (m0 := noted m Timeout).
    assert (Dn : done29 m0 s1 it).
    { assert (W0 : Wr m0 (ring s) (ph (st s))) by (rewrite R1; apply Wr_nil; exact R2).
      assert (A0 : adm (l_why m0) (disc_reason s) = true) by (apply adm_base; rewrite (R6 eq_refl); reflexivity).
      assert (H0 : armed s = true -> w_arm (l_why m0) = true) by (intros G; apply arm_noted, R8, G).
      exact (do_timeout29 c m0 s s1 it Hcb Hin W0 R4 A0 H0 E). }
    destruct (dt_keep _ _ _ _ E) as [K1 K2].
    apply conn_step with s; auto.
    + apply (Fr_RX _ s s1 K1). apply RX_noted. exact R7.
    + intros G. apply arm_noted, R8, (proj1 K1), G.
  - (* Disconnect *)
    destruct (in_connection s) eqn:Hin; [|apply (PRE OPre); auto].
    match type of H with (let '(s2, it) := reset_encryption c ?X in _) = _ => set (s1 := X) in * end.
    pose proof (reset_encryption_frame29 c s1) as F. destruct (reset_encryption c s1) as [s2 it] eqn:Er.
    destruct F as (F1 & F2 & F3 & F4 & F5 & F6). injection H as <- <-.
    cbn [env_step29] in He. apply andb_true_iff in He. destruct He as [_ He]. apply negb_true_iff in He.
    assert (Fb : rxq (bf s2) = rxq (bf s) /\ True).
    { split; [|exact I]. unfold reset_encryption in Er. destruct (c_enc c); injection Er as <- _; reflexivity. }
    exists (noted m (Disconnect reason)). unfold mstep29. fold (noted m (Disconnect reason)).
    rewrite (fold29_nocb_all _ it F5), Hcb, F6, andb_false_r. cbn [negb]. split; [reflexivity|].
    unfold RI, RX. rewrite F2, F4, F3, (proj1 Fb). unfold in_connection. rewrite F1.
    cbn [st ring deferred disc_reason set_proc_timeout set_disc_reason set_term_sent set_st s1 noted set_why l_phase l_link l_why why_op w_base w_arm].
    split; [exact R1|]. split.
    + rewrite R2. rewrite R2 in He. unfold in_connection in Hin. destruct (st s); simpl in *; try discriminate; reflexivity.
    + split; [intros _; apply R3; reflexivity|]. split; [discriminate|]. split; [discriminate|].
      split; [intros _; destruct reason; reflexivity|]. split; [apply (RX_noted m (Disconnect reason) s R7)|reflexivity].
  - (* Cpu *)
    destruct (in_connection s) eqn:Hin; [|apply (PRE OPre); auto].
    repeat match type of H with context [if ?b then _ else _] => destruct b end; injection H as <- <-;
      (apply quiet_step with s; auto; try exact I; intros _; right; reflexivity).
  - (* Cpr *)
    destruct (in_connection s) eqn:Hin; [|apply (PRE OPre); auto].
    repeat match type of H with context [if ?b then _ else _] => destruct b end; injection H as <- <-;
      (apply quiet_step with s; auto; try exact I; intros _; right; reflexivity).
  - (* PhyReq *)
    destruct (in_connection s) eqn:Hin; [|apply (PRE OPre); auto].
    repeat match type of H with context [if ?b then _ else _] => destruct b end; injection H as <- <-;
      (apply quiet_step with s; auto; exact I).
  - (* VerReq *)
    destruct (in_connection s) eqn:Hin; [|apply (PRE OPre); auto].
    repeat match type of H with context [if ?b then _ else _] => destruct b end; injection H as <- <-;
      (apply quiet_step with s; auto; try exact I; intros _; right; reflexivity).
  - (* TxAvail *)
    injection H as <- <-. apply quiet_step with s; auto. exact I.
  - (* Cancel *)
    unfold ok_items in H. destruct (do_cancel c s b us) as [[s1 it]|] eqn:E; [|injection H as <- <-; discriminate].
    injection H as <- <-. destruct (do_cancel_frame29 _ _ _ _ _ _ E) as (F1 & F2 & F3 & F4 & F5 & F6).
    destruct (V_dr _ _ F6) as (X1 & X2 & X3).
    apply quiet_step with s; auto; [rewrite X2; auto|exact I].
  - (* CprReply *)
    destruct (c_cpr c); try (apply (PRE OBadOp); auto; fail). injection H as <- <-. apply quiet_step with s; auto. exact I.
  - (* CprNeg *)
    destruct (c_cpr c); try (apply (PRE OBadOp); auto; fail). injection H as <- <-. apply quiet_step with s; auto. exact I.
  - (* Key *)
    injection H as <- <-. apply quiet_step with s; auto. exact I.
  - (* St *)
    injection H as <- <-. apply quiet_step with s; auto; try exact I;
    unfold st_item; destruct (in_connection s); reflexivity.
Qed.

Lemma RI_init c : RI (linit c) (minit29 c).
Proof. unfold RI. cbn. repeat split; auto; discriminate. Qed.

Lemma run29 c : c_cb c = true -> forall ops s m,
  RI s m -> env29 c m (lrun c s ops) = true -> exists m', mrun29 c m (lrun c s ops) = (Ok, m').
Proof.
  intros Hcb. induction ops as [|o t IH]; intros s m HR He; simpl.
  - exists m. reflexivity.
  - simpl in He. destruct (lstep c s o) as [s1 r] eqn:E. simpl in He. apply andb_true_iff in He. destruct He as [He1 He2].
    destruct (step29 c s m o s1 r Hcb HR E He1) as (m1 & M1 & HR1).
    simpl. rewrite M1. rewrite M1 in He2. apply (IH s1 m1 HR1 He2).
Qed.

Definition lifecycle_full : Prop :=
  forall (c : cfg) (ops : list lop), c_cb c = true -> accepts29 c (lrun c (linit c) ops).

Theorem lifecycle_partial c ops :
  c_cb c = true -> env29 c (minit29 c) (lrun c (linit c) ops) = true -> accepts29 c (lrun c (linit c) ops).
Proof.
  intros Hcb He. destruct (run29 c Hcb ops (linit c) (minit29 c) (RI_init c) He) as (m' & M).
  unfold accepts29. rewrite M. reflexivity.
Qed.

(* ---------------------------------------------------------------- witnesses *)
Definition cfg29 : cfg := mk_cfg true false 100 CprNone true 31 [71; 17; 8; 21; 15; 192].
Definition connect29 : lop :=
  Adv 197 [60; 28; 98; 146; 240; 72; 71; 17; 8; 21; 15; 192; 90; 179; 154; 175; 8; 129; 246; 3; 11; 0; 24; 0; 0; 0; 72; 0;
           255; 255; 255; 255; 31; 170].
Definition unknown_rsp (o : N) : pdu := (3, [7; o]).
Definition terminate_ind : pdu := (3, [2; 19]).

(* five callback producing PDUs in ONE connection event: ll_connection_closed is lost *)
Definition witness_burst : list lop :=
  [Run; connect29; Ev 0 []; Ev 0 [unknown_rsp 17; unknown_rsp 18; unknown_rsp 19; unknown_rsp 20; terminate_ind]].
Lemma witness_burst_rejected : fst (mrun29 cfg29 (minit29 cfg29) (lrun cfg29 (linit cfg29) witness_burst)) = Bad 3.
Proof. vm_compute. reflexivity. Qed.
Lemma witness_burst_output :
  nth_error (lrun cfg29 (linit cfg29) witness_burst) 3
  = Some (Ev 0 [unknown_rsp 17; unknown_rsp 18; unknown_rsp 19; unknown_rsp 20; terminate_ind],
          OItems [IPhy 1 1; IAa advertising_access_address advertising_crc_init; IAdv 37;
                  ICb (EvUnknown 17); ICb (EvUnknown 18); ICb (EvUnknown 19); ICb (EvUnknown 20)]).
Proof. vm_compute. reflexivity. Qed.

(* the same five PDUs ONE PER connection event, behind a LL_CHANNEL_MAP_IND whose instant is 10: handle_received_data()
   does nothing while the procedure is pending, all five are processed in the event after the instant *)
Definition witness_held : list lop :=
  [Run; connect29; Ev 0 []; Ev 0 [(3, [1; 255; 255; 255; 255; 31; 10; 0])];
   Ev 0 [unknown_rsp 17]; Ev 0 [unknown_rsp 18]; Ev 0 [unknown_rsp 19]; Ev 0 [unknown_rsp 20]; Ev 0 [terminate_ind];
   Ev 0 []; Ev 0 []; Ev 0 []; Ev 0 []].
Lemma witness_held_rejected : fst (mrun29 cfg29 (minit29 cfg29) (lrun cfg29 (linit cfg29) witness_held)) = Bad 3.
Proof. vm_compute. reflexivity. Qed.
Lemma witness_held_one_pdu_per_event :
  forallb (fun o => match o with Ev _ pdus => Nat.leb (length pdus) 1 | _ => true end) witness_held = true.
Proof. reflexivity. Qed.

(* disconnect() before the first connection event: closed without established *)
Definition witness_early_disconnect : list lop := [Run; connect29; Disconnect None; Ev 0 []; Ev 0 []; Ev 0 []].
Lemma witness_early_disconnect_rejected :
  fst (mrun29 cfg29 (minit29 cfg29) (lrun cfg29 (linit cfg29) witness_early_disconnect)) = Bad 7.
Proof. vm_compute. reflexivity. Qed.
Lemma witness_early_disconnect_callbacks :
  flat_map (fun x => match snd x with OItems it => filter (fun i => match i with ICb _ => true | _ => false end) it | _ => [] end)
           (lrun cfg29 (linit cfg29) witness_early_disconnect)
  = [ICb (EvRequested (mk_details 24 0 72 150)); ICb (EvClosed 22)].
Proof. vm_compute. reflexivity. Qed.

Theorem lifecycle_refuted : ~ lifecycle_full.
Proof.
  intros H. specialize (H cfg29 witness_burst eq_refl). unfold accepts29 in H.
  rewrite witness_burst_rejected in H. discriminate.
Qed.

(* non-vacuity of the environment: a session with every kind of callback, two connections, a connection attempt that
   times out *)
Definition session29 : list lop :=
  [Run; connect29; Ev 0 []; Ev 0 [(3, [12; 9; 105; 2; 0; 0]); unknown_rsp 15]; Ev 0 [(3, [8; 255; 0; 0; 0; 0; 0; 0; 0])];
   Ev 0 [(3, [13; 26])]; Ev 0 [(3, [24; 0; 0; 7; 0])]; Ev 0 [terminate_ind];
   connect29; Timeout; Timeout; Timeout; Timeout; Timeout; Timeout;
   connect29; Ev 0 []; Disconnect None; Ev 0 []; Ev 0 []; Ev 0 []].
Lemma session29_env : env29 cfg29 (minit29 cfg29) (lrun cfg29 (linit cfg29) session29) = true.
Proof. vm_compute. reflexivity. Qed.
Lemma session29_callbacks :
  flat_map (fun x => match snd x with OItems it => flat_map (fun i => match i with ICb e => [e] | _ => [] end) it | _ => [] end)
           (lrun cfg29 (linit cfg29) session29)
  = [EvRequested (mk_details 24 0 72 150); EvEstablished (mk_details 24 0 72 150); EvVersion 9 617 0; EvUnknown 15;
     EvFeatures [255; 0; 0; 0; 0; 0; 0; 0]; EvRejected 26; EvPhy 0 0; EvClosed 19;
     EvRequested (mk_details 24 0 72 150); EvAttemptTimeout;
     EvRequested (mk_details 24 0 72 150); EvEstablished (mk_details 24 0 72 150); EvClosed 22].
Proof. vm_compute. reflexivity. Qed.

(* the monitor is not trivially accepting *)
Lemma monitor29_rejects_closed_twice :
  fst (mrun29 cfg29 (minit29 cfg29)
         [(connect29, OItems [ICe 1 2 3 4; ICb (EvRequested (mk_details 24 0 72 150))]); (Ev 0 [], OItems [ICb (EvEstablished (mk_details 24 0 72 150))]);
          (Ev 0 [terminate_ind], OItems [IAdv 37; ICb (EvClosed 19); ICb (EvClosed 19)])]) = Bad 2.
Proof. vm_compute. reflexivity. Qed.
Lemma monitor29_rejects_unrequested :
  fst (mrun29 cfg29 (minit29 cfg29) [(Ev 0 [], OItems [ICb (EvChanged (mk_details 24 0 72 150))])]) = Bad 4.
Proof. vm_compute. reflexivity. Qed.
Lemma monitor29_rejects_established_and_timeout :
  fst (mrun29 cfg29 (minit29 cfg29)
         [(connect29, OItems [ICe 1 2 3 4; ICb (EvRequested (mk_details 24 0 72 150))]); (Ev 0 [], OItems [ICb (EvEstablished (mk_details 24 0 72 150))]);
          (Timeout, OItems [IAdv 37; ICb EvAttemptTimeout])]) = Bad 5.
Proof. vm_compute. reflexivity. Qed.
Lemma monitor29_rejects_missing_requested :
  fst (mrun29 cfg29 (minit29 cfg29) [(connect29, OItems [IAa 1 2; ICe 1 2 3 4])]) = Bad 6.
Proof. vm_compute. reflexivity. Qed.

(* closed with a reason that is none of the causes of THIS connection: the first connection is ended by LL_TERMINATE_IND( 0x13 ),
   the second by the supervision timeout - reported with the stale 0x13 it is rejected, with 0x08 accepted *)
Definition two_connections (last_reason : N) : list (lop * lout) :=
  [(connect29, OItems [ICe 1 2 3 4; ICb (EvRequested (mk_details 24 0 72 150))]); (Ev 0 [], OItems [ICb (EvEstablished (mk_details 24 0 72 150))]);
   (Ev 0 [terminate_ind], OItems [IAdv 37; ICb (EvClosed 19)]);
   (connect29, OItems [ICe 1 2 3 4; ICb (EvRequested (mk_details 24 0 72 150))]); (Ev 0 [], OItems [ICb (EvEstablished (mk_details 24 0 72 150))]);
   (Timeout, OItems [IAdv 37; ICb (EvClosed last_reason)])].
Lemma monitor29_rejects_stale_reason : fst (mrun29 cfg29 (minit29 cfg29) (two_connections 19)) = Bad 9.
Proof. vm_compute. reflexivity. Qed.
Lemma monitor29_accepts_proper_reason : fst (mrun29 cfg29 (minit29 cfg29) (two_connections 8)) = Ok.
Proof. vm_compute. reflexivity. Qed.
(* the model: two connections in one history, five different causes of the end, each reported with its own reason *)
Definition session29_reasons : list lop :=
  [Run; connect29; Ev 0 []; Ev 0 [terminate_ind];
   connect29; Ev 0 []; Disconnect (Some 59); Ev 0 []; Ev 0 []; Ev 0 [];
   connect29; Ev 0 []; Ev 0 [(3, [1; 255; 255; 255; 255; 31; 0; 240])];
   connect29; Ev 0 []] ++ repeat Timeout 30.
Lemma session29_reasons_closed :
  flat_map (fun x => match snd x with OItems it => flat_map (fun i => match i with ICb (EvClosed r) => [r] | _ => [] end) it | _ => [] end)
           (lrun cfg29 (linit cfg29) session29_reasons) = [19; 59; 40; 8]
  /\ fst (mrun29 cfg29 (minit29 cfg29) (lrun cfg29 (linit cfg29) session29_reasons)) = Ok.
Proof. vm_compute. auto. Qed.
