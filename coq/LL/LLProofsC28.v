(* C28: lemmas and theorems. The invariant [R] relates the model's security state (has_key_, encryption_in_progress_,
   is_encrypted, the key store's answer) to the state of the specification monitor (LLSpecC28); [step_ok] shows that one
   operation of the model - whatever it is, with whatever PDUs - keeps it and is accepted by the monitor's decision
   clauses; [run_ok] is the induction over operation histories of any length.
   Only LLModel and LLSpecC28 are used (no lemma of LLProofs.v), so that this file does not depend on C22 / C27. *)
From Coq Require Import Lia ZifyBool NArith List Bool.
From BT Require Import Base.ListX LL.LLModel LL.LLSpec LL.LLSpecC28.
From BT Require gen.GenLL.
Import ListNotations.
Local Open Scope N_scope.

(* ========================================================================================== the invariant *)
Definition secflags_off (s : lstate_t) : Prop :=
  has_key (sc s) = false /\ enc_prog (sc s) = false /\ is_enc (sc s) = false.

Definition R (c : cfg) (s : lstate_t) (m : mon28) : Prop :=
  q_key m = key_known (sc s)
  /\ (is_enc (sc s) = true -> q_enc m = true)
  /\ (has_key (sc s) = true -> q_req m = Some true)
  /\ (has_key (sc s) = true -> enc_prog (sc s) = false -> q_sent m = true)
  /\ (in_connection s = false -> secflags_off s /\ q_enc m = false)
  /\ (c_enc c = false -> secflags_off s /\ q_enc m = false).

(* R only looks at sc, st of the state and q_key, q_req, q_sent, q_enc of the monitor *)
Lemma R_ext c s m s' m' :
  R c s m -> sc s' = sc s -> in_connection s' = in_connection s ->
  q_key m' = q_key m -> q_req m' = q_req m -> q_sent m' = q_sent m -> q_enc m' = q_enc m -> R c s' m'.
Proof.
  unfold R, secflags_off. intros (A & B & C & D & E & F) Hs Hi K1 K2 K3 K4.
  rewrite Hs, Hi, K1, K2, K3, K4. auto 10.
Qed.

Definition post (c : cfg) (m : mon28) (s' : lstate_t) (it : list item) : Prop :=
  exists m', fold28 false m it = (Ok, m') /\ R c s' m'
             /\ (has_adv28 it = true -> in_connection s' = false /\ q_enc m' = false).

Lemma fold28_app air m it1 it2 m1 :
  fold28 air m it1 = (Ok, m1) -> fold28 air m (it1 ++ it2) = fold28 air m1 it2.
Proof.
  revert m. induction it1 as [|i t IH]; intros m H; simpl in *.
  - inversion H. reflexivity.
  - destruct (item28 air m i) as [[|k] m2]; [|discriminate]. apply IH. exact H.
Qed.

Lemma has_adv28_app a b : has_adv28 (a ++ b) = has_adv28 a || has_adv28 b.
Proof. unfold has_adv28. apply existsb_app. Qed.

(* items the core monitor does not look at *)
Definition plain_item (i : item) : bool :=
  match i with IFindKey _ _ | IEncRx _ | IEncTx _ | IAdv _ => false | _ => true end.
Lemma fold28_plain m it : forallb plain_item it = true -> fold28 false m it = (Ok, m) /\ has_adv28 it = false.
Proof.
  induction it as [|i t IH]; simpl; intros H; [auto|].
  apply andb_true_iff in H. destruct H as [Hi Ht]. destruct (IH Ht) as [I1 I2].
  destruct i; simpl in Hi; try discriminate; simpl; auto.
Qed.

Lemma post_plain c m s s' it :
  R c s m -> sc s' = sc s -> in_connection s' = in_connection s -> forallb plain_item it = true -> post c m s' it.
Proof.
  intros HR Hs Hi Hp. destruct (fold28_plain m it Hp) as [F A].
  exists m. split; [exact F|]. split; [eapply R_ext; eauto|]. rewrite A. discriminate.
Qed.

Lemma post_app c m s1 it1 s2 it2 :
  post c m s1 it1 -> has_adv28 it1 = false ->
  (forall m1, R c s1 m1 -> post c m1 s2 it2) -> post c m s2 (it1 ++ it2).
Proof.
  intros (m1 & F1 & R1 & _) A1 H. destruct (H m1 R1) as (m2 & F2 & R2 & A2).
  exists m2. split; [rewrite (fold28_app _ _ _ _ _ F1); exact F2|]. split; [exact R2|].
  rewrite has_adv28_app, A1. exact A2.
Qed.

(* ========================================================================================== handle_ll_control_data *)
Ltac ifs := repeat match goal with |- context [if ?b then _ else _] => destruct b end.

Lemma sc_commit s p : sc (commit s p) = sc s.
Proof. unfold commit. destruct (stopped (bf s)); reflexivity. Qed.
Lemma st_commit s p : st (commit s p) = st s.
Proof. unfold commit. destruct (stopped (bf s)); reflexivity. Qed.
Lemma sc_commit_ctrl s b : sc (commit_ctrl s b) = sc s.
Proof. apply sc_commit. Qed.
Lemma st_commit_ctrl s b : st (commit_ctrl s b) = st s.
Proof. apply st_commit. Qed.
Lemma sc_push_event c s e : sc (push_event c s e) = sc s.
Proof. unfold push_event. ifs; reflexivity. Qed.
Lemma st_push_event c s e : st (push_event c s e) = st s.
Proof. unfold push_event. ifs; reflexivity. Qed.
Lemma sc_handle_reject c s o b : sc (handle_reject c s o b) = sc s.
Proof. unfold handle_reject, clear_cpr_feature. ifs; rewrite ?sc_push_event; reflexivity. Qed.
Lemma st_handle_reject c s o b : st (handle_reject c s o b) = st s.
Proof. unfold handle_reject, clear_cpr_feature. ifs; rewrite ?st_push_event; reflexivity. Qed.
Lemma sc_encryption_changed c s b : sc (encryption_changed c s b) = sc s.
Proof. unfold encryption_changed. destruct b; [apply sc_push_event|reflexivity]. Qed.
Lemma st_encryption_changed c s b : st (encryption_changed c s b) = st s.
Proof. unfold encryption_changed. destruct b; [apply st_push_event|reflexivity]. Qed.

Lemma inconn_st s s' : st s' = st s -> in_connection s' = in_connection s.
Proof. unfold in_connection. intros ->. reflexivity. Qed.

Lemma handle_cpr_plain c s body : forallb plain_item (snd (handle_cpr c s body)) = true.
Proof. unfold handle_cpr. destruct (cpr_params_ok body); simpl; [|reflexivity]. destruct (c_cpr c); simpl; try reflexivity.
  destruct (N.min _ _ <? N.max _ _); reflexivity. ifs; reflexivity. Qed.

Lemma no_enc_kinds c v o z : c_enc c = false ->
  match ctrl_kind c v o z with KEncReq | KStartEncRsp | KPauseEncReq | KPauseEncRsp => False | _ => True end.
Proof.
  intros H. unfold ctrl_kind, ctrl_kind_b. rewrite H. cbn [andb].
  repeat match goal with |- context [if ?b then _ else _] => destruct b; [exact I|] end. exact I.
Qed.

Lemma post_same c m s : R c s m -> post c m s [].
Proof. intros H. exists m. simpl. split; [reflexivity|]. split; [exact H|discriminate]. Qed.

(* handle_ll_control *)
Lemma hlc_post c s m body s1 it res :
  R c s m -> in_connection s = true -> handle_ll_control c s body = (s1, it, res) ->
  post c m s1 it /\ st s1 = st s /\ has_adv28 it = false.
Proof.
  intros HR Hin H. unfold handle_ll_control in H.
  pose proof (no_enc_kinds c (ver_received (pr s)) (if 0 <? N.of_nat (length body) then byte body 0 else 255) (N.of_nat (length body))) as NK.
  destruct (ctrl_kind c (ver_received (pr s)) (if 0 <? N.of_nat (length body) then byte body 0 else 255) (N.of_nat (length body))) eqn:K.
  all: try (
    (* kinds that neither touch the security state nor produce an item the monitor looks at *)
    assert (G : sc s1 = sc s /\ st s1 = st s /\ forallb plain_item it = true);
    [ repeat match type of H with context [if ?b then _ else _] => destruct b end;
      try (destruct (handle_cpr c s body) as [rsp cit] eqn:EC; pose proof (handle_cpr_plain c s body) as PC; rewrite EC in PC; simpl in PC; destruct rsp);
      inversion H; subst; clear H;
      rewrite ?sc_commit_ctrl, ?st_commit_ctrl, ?sc_push_event, ?st_push_event, ?sc_handle_reject, ?st_handle_reject;
      cbn [sc st set_disc_reason set_def_instant set_deferred set_used_features set_proc_timeout upd_pr set_pr];
      rewrite ?sc_push_event, ?st_push_event; auto
    | destruct G as (G1 & G2 & G3); split; [eapply post_plain; eauto using inconn_st|]; split; [exact G2|apply (fold28_plain m it G3)] ]; fail).
  all: destruct (c_enc c) eqn:Eenc; [clear NK|exfalso; apply NK; reflexivity].
  all: destruct HR as (R1 & R2 & R3 & R4 & R5 & R6).
  - (* KEncReq *)
    inversion H; subst; clear H. rewrite st_commit_ctrl. cbn [st upd_sc set_sc].
    split; [|split; reflexivity].
    eexists. split; [reflexivity|]. split; [|discriminate].
    unfold R, secflags_off. rewrite sc_commit_ctrl, (inconn_st s) by (rewrite st_commit_ctrl; reflexivity).
    cbn [sc upd_sc set_sc set_has_key set_enc_prog has_key enc_prog is_enc key_known q_key q_req q_sent q_enc].
    rewrite Hin. repeat split; auto; try (intros; congruence); try discriminate.
  - (* KStartEncRsp *)
    destruct (has_key (sc s) && negb (enc_prog (sc s))) eqn:Eacc.
    + apply andb_true_iff in Eacc. destruct Eacc as [Ek Ep]. apply negb_true_iff in Ep.
      inversion H; subst; clear H. rewrite st_commit_ctrl, st_encryption_changed. cbn [st upd_sc set_sc].
      split; [|split; reflexivity].
      unfold post. cbn [fold28 item28]. rewrite (R3 Ek), (R4 Ek Ep).
      eexists. split; [reflexivity|]. split; [|discriminate].
      unfold R, secflags_off. rewrite sc_commit_ctrl, sc_encryption_changed.
      rewrite (inconn_st s) by (rewrite st_commit_ctrl, st_encryption_changed; reflexivity).
      cbn [sc upd_sc set_sc set_has_key set_is_enc has_key enc_prog is_enc key_known q_key q_req q_sent q_enc].
      rewrite Hin. repeat split; auto; try (intros; congruence); try discriminate.
    + inversion H; subst; clear H. rewrite st_commit_ctrl. split; [|split; reflexivity].
      apply post_plain with s; [unfold R; auto 10|apply sc_commit_ctrl|apply inconn_st, st_commit_ctrl|reflexivity].
  - (* KPauseEncReq *)
    inversion H; subst; clear H. rewrite st_commit_ctrl, st_encryption_changed. cbn [st upd_sc set_sc].
    split; [|split; reflexivity].
    eexists. split; [reflexivity|]. split; [|discriminate].
    unfold R, secflags_off, unenc28. rewrite sc_commit_ctrl, sc_encryption_changed.
    rewrite (inconn_st s) by (rewrite st_commit_ctrl, st_encryption_changed; reflexivity).
    cbn [sc upd_sc set_sc set_has_key set_is_enc has_key enc_prog is_enc key_known q_key q_req q_sent q_enc].
    rewrite Hin. repeat split; auto; try (intros; congruence); try discriminate.
  - (* KPauseEncRsp *)
    inversion H; subst; clear H. rewrite st_encryption_changed. cbn [st upd_sc set_sc].
    split; [|split; reflexivity].
    eexists. split; [reflexivity|]. split; [|discriminate].
    unfold R, secflags_off, unenc28. rewrite sc_encryption_changed.
    rewrite (inconn_st s) by (rewrite st_encryption_changed; reflexivity).
    cbn [sc upd_sc set_sc set_has_key set_is_enc has_key enc_prog is_enc key_known q_key q_req q_sent q_enc].
    rewrite Hin. repeat split; auto; try (intros; congruence); try discriminate.
Qed.

(* ========================================================================================== receive queue, disconnect *)
Lemma post_R c m s s' it :
  post c m s it -> sc s' = sc s -> in_connection s' = in_connection s -> post c m s' it.
Proof.
  intros (m' & F & HR & A) Hs Hi. exists m'. split; [exact F|]. split.
  - eapply R_ext; eauto.
  - rewrite Hi. exact A.
Qed.

Lemma hrd_post fuel c : forall s m s1 it res,
  R c s m -> in_connection s = true -> handle_received_data fuel c s = (s1, it, res) ->
  post c m s1 it /\ st s1 = st s /\ has_adv28 it = false.
Proof.
  induction fuel as [|fuel IH]; intros s m s1 it res HR Hin H; simpl in H.
  - inversion H; subst. split; [apply post_same; exact HR|split; reflexivity].
  - destruct (deferred s); [inversion H; subst; split; [apply post_same; exact HR|split; reflexivity]|].
    destruct (rxq (bf s)) as [|[llid body] rest] eqn:Erx; [inversion H; subst; split; [apply post_same; exact HR|split; reflexivity]|].
    destruct (llid =? GenLL.ll_control_pdu_code).
    + destruct (tx_buffer_available s); [|inversion H; subst; split; [apply post_same; exact HR|split; reflexivity]].
      destruct (handle_ll_control c s body) as [[s1' it1] r1] eqn:E1.
      destruct (hlc_post c s m body s1' it1 r1 HR Hin E1) as (P1 & S1 & A1).
      set (s2 := upd_bf s1' (fun b => set_rxq b rest)) in *.
      assert (P2 : post c m s2 it1) by (apply post_R with s1'; [exact P1|reflexivity|reflexivity]).
      destruct r1.
      * destruct (handle_received_data fuel c s2) as [[s3 it3] r3] eqn:E3. injection H as H1 H2 H3. subst s1 it res.
        assert (Hin2 : in_connection s2 = true) by (rewrite <- Hin; apply inconn_st; exact S1).
        split; [|split].
        -- apply post_app with s2; [exact P2|exact A1|]. intros m1 HR1.
           exact (proj1 (IH s2 m1 s3 it3 r3 HR1 Hin2 E3)).
        -- destruct P2 as (m1 & _ & HR1 & _). rewrite (proj1 (proj2 (IH s2 m1 s3 it3 r3 HR1 Hin2 E3))). exact S1.
        -- destruct P2 as (m1 & _ & HR1 & _). rewrite has_adv28_app, A1, (proj2 (proj2 (IH s2 m1 s3 it3 r3 HR1 Hin2 E3))). reflexivity.
      * injection H as H1 H2 H3. subst s1 it res. split; [exact P2|split; [exact S1|exact A1]].
    + destruct ((llid =? GenLL.lld_data_pdu_code) && negb (lstate_eqb (st s) Disconnecting));
        [|inversion H; subst; split; [apply post_same; exact HR|split; reflexivity]].
      destruct (if c_enc c then l2cap_reply_enc (is_enc (sc s)) body else l2cap_reply body) as [|r].
      * set (s2 := upd_bf s (fun b => set_rxq b rest)) in *.
        assert (HR2 : R c s2 m) by (eapply R_ext; eauto).
        destruct (IH s2 m s1 it res HR2 Hin H) as (Q1 & Q2 & Q3). auto.
      * destruct (tx_buffer_available s); [|inversion H; subst; split; [apply post_same; exact HR|split; reflexivity]].
        set (s1c := match r with Some f => commit s (GenLL.lld_data_pdu_code, f) | None => s end) in *.
        assert (Hs : sc s1c = sc s /\ st s1c = st s) by (subst s1c; destruct r; rewrite ?sc_commit, ?st_commit; auto).
        set (s2 := upd_bf s1c (fun b => set_rxq b rest)) in *.
        assert (HR2 : R c s2 m) by (eapply R_ext; eauto; [apply Hs|apply inconn_st; apply Hs]).
        assert (Hin2 : in_connection s2 = true) by (rewrite <- Hin; apply inconn_st; apply Hs).
        destruct (IH s2 m s1 it res HR2 Hin2 H) as (Q1 & Q2 & Q3).
        split; [exact Q1|split; [rewrite Q2; apply Hs|exact Q3]].
Qed.

(* reset_encryption: afterwards nothing is left of an encryption (procedure) on both sides *)
Lemma reset_encryption_post c s m s1 i1 :
  R c s m -> reset_encryption c s = (s1, i1) ->
  exists m1, fold28 false m i1 = (Ok, m1) /\ has_adv28 i1 = false
             /\ q_key m1 = key_known (sc s1) /\ q_enc m1 = false /\ secflags_off s1 /\ st s1 = st s.
Proof.
  intros (R1 & R2 & R3 & R4 & R5 & R6) H. unfold reset_encryption in H. destruct (c_enc c) eqn:E.
  - inversion H; subst; clear H. eexists. split; [reflexivity|]. split; [reflexivity|].
    unfold secflags_off, unenc28. cbn. auto 10.
  - inversion H; subst; clear H. exists m. split; [reflexivity|]. split; [reflexivity|].
    destruct (R6 eq_refl) as [F Q]. auto.
Qed.

Lemma R_off c s m : q_key m = key_known (sc s) -> q_enc m = false -> secflags_off s -> R c s m.
Proof.
  intros K Q (F1 & F2 & F3). unfold R, secflags_off. rewrite F1, F2, F3, Q.
  repeat split; auto; intros; try discriminate; auto.
Qed.

Definition nonsec_item (i : item) : bool :=
  match i with IFindKey _ _ | IEncRx _ | IEncTx _ => false | _ => true end.
Lemma fold28_nonsec m it : forallb nonsec_item it = true -> fold28 false m it = (Ok, m).
Proof.
  induction it as [|i t IH]; simpl; intros H; [auto|].
  apply andb_true_iff in H. destruct H as [Hi Ht].
  destruct i; simpl in Hi; try discriminate; simpl; auto.
Qed.

Lemma force_disconnect_post c s m s' it :
  R c s m -> force_disconnect c s = (s', it) ->
  exists m', fold28 false m it = (Ok, m') /\ R c s' m' /\ in_connection s' = false /\ q_enc m' = false.
Proof.
  intros HR H. unfold force_disconnect in H.
  destruct (reset_encryption c s) as [s1 i1] eqn:E1.
  destruct (reset_encryption_post c s m s1 i1 HR E1) as (m1 & F1 & A1 & K1 & Q1 & O1 & S1).
  set (s2 := match st s1 with Connecting => push_event c s1 EvAttemptTimeout | _ => push_event c s1 (EvClosed (disc_reason s1)) end) in *.
  assert (Hs2 : sc s2 = sc s1) by (subst s2; destruct (st s1); apply sc_push_event).
  unfold start_advertising_impl, handle_start_advertising in H. inversion H; subst; clear H.
  exists m1. split.
  - rewrite (fold28_app _ _ _ _ _ F1). apply fold28_nonsec.
    unfold reset_phy. destruct (c_phy c); reflexivity.
  - split; [|split; [reflexivity|exact Q1]].
    apply R_off; cbn [sc set_deferred set_st set_adv_ch]; rewrite ?Hs2; auto.
    unfold secflags_off in *. cbn [sc set_deferred set_st set_adv_ch]. rewrite Hs2. exact O1.
Qed.

(* ========================================================================================== end_event *)
Lemma fd_post c s m s' it : R c s m -> force_disconnect c s = (s', it) -> post c m s' it.
Proof.
  intros HR H. destruct (force_disconnect_post c s m s' it HR H) as (m' & F & HR' & I & Q).
  exists m'. auto.
Qed.

Lemma forallb_plain_nonsec it : forallb plain_item it = true -> forallb nonsec_item it = true.
Proof.
  induction it as [|i t IH]; simpl; [auto|]. intros H. apply andb_true_iff in H. destruct H as [A B].
  rewrite (IH B), andb_true_r. destruct i; simpl in *; congruence.
Qed.

Lemma post_then_plain c m s it s' it2 :
  post c m s it -> sc s' = sc s -> in_connection s' = in_connection s -> forallb plain_item it2 = true ->
  post c m s' (it ++ it2).
Proof.
  intros (m' & F & HR & A) Hs Hi Hp. exists m'. split.
  - rewrite (fold28_app _ _ _ _ _ F). apply fold28_nonsec, forallb_plain_nonsec, Hp.
  - split; [eapply R_ext; eauto|]. rewrite has_adv28_app, (proj2 (fold28_plain m' it2 Hp)), orb_false_r, Hi. exact A.
Qed.

Lemma tpsp_post c s m s6 it6 :
  R c s m -> in_connection s = true -> transmit_pending_security_pdus c s = (s6, it6) ->
  post c m s6 it6 /\ st s6 = st s /\ has_adv28 it6 = false.
Proof.
  intros HR Hin H. unfold transmit_pending_security_pdus in H.
  destruct (c_enc c && enc_prog (sc s) && tx_buffer_available s) eqn:E.
  - destruct HR as (R1 & R2 & R3 & R4 & R5 & R6).
    assert (Eenc : c_enc c = true) by (apply andb_true_iff in E; destruct E as [E _]; apply andb_true_iff in E; destruct E as [E _]; exact E).
    destruct (has_key (sc s)) eqn:Ek; injection H as H1 H2; subst s6 it6; rewrite st_commit_ctrl; cbn [st upd_sc set_sc].
    + split; [|split; reflexivity]. unfold post. cbn [fold28 item28]. rewrite (R3 eq_refl).
      eexists. split; [reflexivity|]. split; [|discriminate].
      unfold R, secflags_off. rewrite sc_commit_ctrl, (inconn_st s) by (rewrite st_commit_ctrl; reflexivity).
      cbn [sc upd_sc set_sc set_enc_prog has_key enc_prog is_enc key_known q_key q_req q_sent q_enc].
      rewrite Hin, Ek. repeat split; auto; try (intros; congruence); try discriminate.
    + split; [|split; reflexivity].
      exists m. split; [reflexivity|]. split; [|discriminate].
      unfold R, secflags_off. rewrite sc_commit_ctrl, (inconn_st s) by (rewrite st_commit_ctrl; reflexivity).
      cbn [sc upd_sc set_sc set_enc_prog has_key enc_prog is_enc key_known q_key q_req q_sent q_enc].
      rewrite Hin, Ek. repeat split; auto; try (intros; congruence); try discriminate.
  - injection H as H1 H2; subst s6 it6. split; [apply post_same; exact HR|split; reflexivity].
Qed.

Lemma send_control_pdus_frame s : sc (send_control_pdus s) = sc s /\ st (send_control_pdus s) = st s.
Proof.
  unfold send_control_pdus. destruct (_ && _); [|auto].
  cbn [sc st set_term_sent upd_bf set_bf]. rewrite sc_commit_ctrl, st_commit_ctrl. auto.
Qed.

Lemma plan_next_frame28 c s e s7 : plan_next_connection_event c s e = Some s7 -> sc s7 = sc s /\ st s7 = st s.
Proof.
  unfold plan_next_connection_event. destruct (dt_mul _ _); cbn [obind]; [|discriminate].
  destruct (_ && _); [discriminate|]. intros H. injection H as <-. auto.
Qed.

Lemma setup_next_frame28 s s' it :
  setup_next_connection_event s = Some (s', it) -> sc s' = sc s /\ st s' = st s /\ forallb plain_item it = true.
Proof.
  unfold setup_next_connection_event.
  destruct (if negb (tw_size (tm s) =? 0) then _ else _) as [[ws we]|]; cbn [obind]; [|discriminate].
  intros H. injection H as <- <-. auto.
Qed.

Lemma hpll_frame c s s1 it res :
  handle_pending_ll_control c s = Some (s1, it, res) ->
  sc s1 = sc s /\ (in_connection s = true -> in_connection s1 = true) /\ (st s1 = st s \/ st s1 = ConnChanged) /\ forallb plain_item it = true.
Proof.
  unfold handle_pending_ll_control. destruct (deferred s) as [body|]; [|intros H; injection H as <- <- <-; auto].
  destruct (def_instant s =? evc (cs s)); [|intros H; injection H as <- <- <-; auto].
  destruct (byte body 0 =? GenLL.LL_CHANNEL_MAP_REQ).
  - destruct (ChanMapModel.reset_impl _ _ _) as [ch o]. intros H; injection H as <- <- <-. cbn. auto.
  - destruct (byte body 0 =? GenLL.LL_CONNECTION_UPDATE_IND).
    + destruct (parse_update body) as [t ok]. destruct ok as [[|]|]; [| |discriminate]; intros H; injection H as <- <- <-.
      * rewrite sc_push_event, st_push_event. unfold in_connection. rewrite st_push_event. cbn. auto.
      * cbn. auto.
    + intros H; injection H as <- <- <-. rewrite sc_push_event, st_push_event. unfold in_connection. rewrite st_push_event. cbn. auto.
Qed.

Lemma pending_then_setup_post c s m s' it :
  R c s m -> in_connection s = true -> pending_then_setup c s = Some (s', it) -> post c m s' it.
Proof.
  intros HR Hin H. unfold pending_then_setup in H.
  destruct (handle_pending_ll_control c s) as [[[s1 it1] res]|] eqn:E; cbn [obind] in H; [|discriminate].
  destruct (hpll_frame c s s1 it1 res E) as (F1 & F2 & F3 & F4).
  assert (HR1 : R c s1 m) by (eapply R_ext; eauto; rewrite Hin; auto).
  assert (P1 : post c m s1 it1) by (apply post_plain with s; auto; rewrite Hin; auto).
  destruct res.
  - destruct (setup_next_connection_event s1) as [[s2 it2]|] eqn:E2; cbn [obind] in H; [|discriminate].
    injection H as <- <-. destruct (setup_next_frame28 s1 s2 it2 E2) as (G1 & G2 & G3).
    apply post_then_plain with s1; auto using inconn_st.
  - destruct (force_disconnect c s1) as [s2 it2] eqn:E2. injection H as <- <-.
    apply post_app with s1; [exact P1|apply (fold28_plain m it1 F4)|].
    intros m1 HR1'. apply fd_post with s1; assumption.
Qed.

Lemma tpcp_frame c s : sc (transmit_pending_control_pdus c s) = sc s /\ st (transmit_pending_control_pdus c s) = st s.
Proof.
  unfold transmit_pending_control_pdus.
  repeat match goal with |- context [if ?b then _ else _] => destruct b end;
    rewrite ?sc_commit_ctrl, ?st_commit_ctrl; cbn; auto.
Qed.

Lemma flush_plain s : forallb plain_item (snd (flush_events s)) = true.
Proof. unfold flush_events. cbn [snd]. induction (ring s); simpl; auto. Qed.

Lemma epilogue_post c m s it s' it' :
  post c m s it -> end_event_epilogue c s it = (s', it') -> post c m s' it'.
Proof.
  intros P H. unfold end_event_epilogue in H.
  set (s10 := match st s with Connected | Connecting => transmit_pending_control_pdus c s | _ => s end) in *.
  assert (F : sc s10 = sc s /\ st s10 = st s) by (subst s10; destruct (st s) eqn:Es; rewrite <- ?Es; auto; apply tpcp_frame).
  pose proof (flush_plain s10) as FP. destruct (flush_events s10) as [s11 cbs] eqn:E. injection H as <- <-.
  unfold flush_events in E. injection E as <- <-.
  apply post_then_plain with s; [exact P|cbn; apply F|unfold in_connection; cbn; rewrite (proj2 F); reflexivity|exact FP].
Qed.

Lemma end_event_continue_post c s m evts s' it :
  R c s m -> in_connection s = true -> end_event_continue c s evts = Some (s', it) -> post c m s' it.
Proof.
  intros HR Hin H. unfold end_event_continue in H.
  destruct (procedure_timed_out s).
  - injection H as H. unfold force_disconnect_reason in H. apply fd_post with (set_disc_reason s GenLL.connection_ll_response_timeout); [|exact H].
    eapply R_ext; eauto.
  - set (s5 := if negb (proc_timeout s =? 0) then set_proc_timeout s (proc_timeout s - tsle (cs s)) else s) in *.
    assert (F5 : sc s5 = sc s /\ st s5 = st s) by (subst s5; destruct (negb _); auto).
    destruct (transmit_pending_security_pdus c s5) as [s6 it6] eqn:E6.
    assert (HR5 : R c s5 m) by (eapply R_ext; eauto; [apply F5|apply inconn_st, F5]).
    assert (Hin5 : in_connection s5 = true) by (rewrite <- Hin; apply inconn_st, F5).
    destruct (tpsp_post c s5 m s6 it6 HR5 Hin5 E6) as (P6 & S6 & A6).
    destruct (plan_next_connection_event c s6 _) as [s7|] eqn:E7; cbn [obind] in H; [|discriminate].
    destruct (plan_next_frame28 c s6 _ s7 E7) as (G1 & G2).
    destruct (pending_then_setup c s7) as [[s8 it8]|] eqn:E8; cbn [obind] in H; [|discriminate].
    injection H as <- <-.
    apply post_app with s7; [apply post_R with s6; auto using inconn_st|exact A6|].
    intros m1 HR7. apply pending_then_setup_post with s7; auto.
    rewrite (inconn_st s6 s7 G2), (inconn_st s5 s6 S6). exact Hin5.
Qed.

Lemma prologue_frame28 c s : in_connection s = true ->
  sc (end_event_prologue c s) = sc s /\ in_connection (end_event_prologue c s) = true.
Proof.
  intros Hin. unfold end_event_prologue.
  set (s0 := set_pending_event s false).
  set (s1 := match st s0 with Connecting => push_event c s0 (EvEstablished (details_of s0)) | _ => s0 end).
  assert (F : sc s1 = sc s /\ st s1 = st s) by (subst s1 s0; cbn [st set_pending_event]; destruct (st s) eqn:Es; rewrite ?sc_push_event, ?st_push_event; cbn [sc st set_pending_event]; rewrite ?Es; auto).
  destruct (lstate_eqb (st s1) Disconnecting) eqn:E.
  - split; [apply F|]. rewrite <- Hin. apply inconn_st, F.
  - cbn. split; [apply F|reflexivity].
Qed.

Lemma end_event_body_post c s m evts s' it :
  R c s m -> in_connection s = true -> end_event_body c s evts = Some (s', it) -> post c m s' it.
Proof.
  intros HR Hin H. unfold end_event_body in H.
  destruct (lstate_eqb (st s) Disconnecting && term_sent s && negb (pending_outgoing_data_available s)).
  - injection H as H. apply fd_post with s; assumption.
  - destruct (handle_received_data _ c s) as [[s3 it3] res] eqn:E3.
    destruct (hrd_post _ c s m s3 it3 res HR Hin E3) as (P3 & S3 & A3).
    assert (Hin3 : in_connection s3 = true) by (rewrite <- Hin; apply inconn_st, S3).
    destruct res.
    + destruct (end_event_continue c (send_control_pdus s3) evts) as [[s8 it8]|] eqn:E8; cbn [obind] in H; [|discriminate].
      injection H as <- <-. destruct (send_control_pdus_frame s3) as [G1 G2].
      apply post_app with (send_control_pdus s3); [apply post_R with s3; auto using inconn_st|exact A3|].
      intros m1 HR1. apply end_event_continue_post with (send_control_pdus s3) evts; auto.
      rewrite (inconn_st s3 _ G2). exact Hin3.
    + destruct (force_disconnect c s3) as [s4 it4] eqn:E4. injection H as <- <-.
      apply post_app with s3; [exact P3|exact A3|]. intros m1 HR1. apply fd_post with s3; assumption.
Qed.

Lemma do_end_event_post c s m evts s' it :
  R c s m -> in_connection s = true -> do_end_event c s evts = Some (s', it) -> post c m s' it.
Proof.
  intros HR Hin H. unfold do_end_event in H.
  destruct (prologue_frame28 c s Hin) as [F1 F2].
  destruct (end_event_body c (end_event_prologue c s) evts) as [[s9 it9]|] eqn:E; cbn [obind] in H; [|discriminate].
  assert (H' : end_event_epilogue c s9 it9 = (s', it)) by congruence.
  assert (HR2 : R c (end_event_prologue c s) m) by (eapply R_ext; eauto; congruence).
  pose proof (end_event_body_post c _ m evts s9 it9 HR2 F2 E) as P9.
  apply epilogue_post with s9 it9; assumption.
Qed.

(* ========================================================================================== timeout, adv_received, one operation *)
Lemma do_timeout_post c s m s' it :
  R c s m -> in_connection s = true -> do_timeout c s = Some (s', it) -> post c m s' it.
Proof.
  intros HR Hin H. unfold do_timeout in H.
  set (s0 := set_pending_event s false) in *.
  assert (HR0 : R c s0 m) by (eapply R_ext; eauto).
  assert (Hin0 : in_connection s0 = true) by exact Hin.
  match type of H with (do r <- ?X; _) = _ => destruct X as [[s2 it2]|] eqn:E end; cbn [obind] in H; [|discriminate].
  assert (P2 : post c m s2 it2).
  { destruct (lstate_eqb (st s0) Disconnecting && term_sent s0 && negb (pending_outgoing_data_available s0)).
    - injection E as E. apply fd_post with s0; assumption.
    - destruct (negb (proc_timeout s0 =? 0) && (proc_timeout s0 <=? tsle (cs s0))).
      + injection E as E. unfold force_disconnect_reason in E.
        apply fd_post with (set_disc_reason s0 GenLL.connection_ll_response_timeout); [eapply R_ext; eauto|exact E].
      + destruct (dt_mul _ _) as [five|]; cbn [obind] in E; [|discriminate].
        destruct (_ && _).
        * unfold plan_after_timeout in E. destruct (dt_add _ _) as [t|]; cbn [obind] in E; [|discriminate].
          eapply pending_then_setup_post; [| |exact E]; [eapply R_ext; eauto|exact Hin0].
        * injection E as E. apply fd_post with s0; assumption. }
  pose proof (flush_plain s2) as FP. destruct (flush_events s2) as [s3 cbs] eqn:E3.
  injection H as <- <-. unfold flush_events in E3. injection E3 as <- <-.
  apply post_then_plain with s2; [exact P2|reflexivity|reflexivity|exact FP].
Qed.

Lemma adv_post c s m hdr0 body s' it :
  R c s m -> in_connection s = false -> do_adv_received c s hdr0 body = Some (s', it) ->
  fold28 false m it = (Ok, m) /\ secflags_off s' /\ key_known (sc s') = key_known (sc s).
Proof.
  intros HR Hin H. destruct HR as (R1 & R2 & R3 & R4 & R5 & R6). destruct (R5 Hin) as [(O1 & O2 & O3) Q].
  unfold do_adv_received in H.
  destruct (valid_connect_request c hdr0 body).
  - destruct (ChanMapModel.reset_impl _ _ _) as [ch r].
    destruct r as [[|]| | | |]; try discriminate.
    + destruct (parse_connect body) as [t ok]. destruct ok as [[|]|]; [| |discriminate].
      * match type of H with (do r11 <- ?X; _) = _ => destruct X as [[s11 it11]|] eqn:E11 end; cbn [obind] in H; [|discriminate].
        destruct (setup_next_frame28 _ _ _ E11) as (G1 & G2 & G3).
        injection H as <- <-. split; [|split].
        -- apply fold28_nonsec. cbn [app forallb nonsec_item andb]. rewrite forallb_app.
           rewrite (forallb_plain_nonsec _ G3). cbn [andb].
           apply forallb_plain_nonsec. unfold flush_events. cbn [snd]. induction (ring _); simpl; auto.
        -- unfold secflags_off. cbn [sc set_ring]. rewrite sc_push_event. cbn [sc upd_sc set_sc set_is_enc has_key enc_prog is_enc].
           rewrite G1. cbn. auto.
        -- cbn [sc set_ring]. rewrite sc_push_event. cbn [sc upd_sc set_sc set_is_enc key_known]. rewrite G1. reflexivity.
      * injection H as <- <-. cbn. unfold secflags_off. cbn. auto.
    + injection H as <- <-. cbn. unfold secflags_off. cbn. auto.
  - injection H as <- <-. cbn. unfold secflags_off. cbn. auto.
Qed.

Lemma adv_st c s hdr0 body s' it :
  in_connection s = false -> do_adv_received c s hdr0 body = Some (s', it) -> has_adv28 it = true -> in_connection s' = false.
Proof.
  intros Hin H. unfold do_adv_received in H.
  destruct (valid_connect_request c hdr0 body).
  - destruct (ChanMapModel.reset_impl _ _ _) as [ch r].
    destruct r as [[|]| | | |]; try discriminate.
    + destruct (parse_connect body) as [t ok]. destruct ok as [[|]|]; [| |discriminate].
      * match type of H with (do r11 <- ?X; _) = _ => destruct X as [[s11 it11]|] eqn:E11 end; cbn [obind] in H; [|discriminate].
        destruct (setup_next_frame28 _ _ _ E11) as (G1 & G2 & G3).
        injection H as <- <-. intros A. exfalso. cbn [app has_adv28 existsb orb] in A. unfold has_adv28 in A.
        rewrite existsb_app in A. fold (has_adv28 it11) in A. rewrite (proj2 (fold28_plain (fresh28 false) it11 G3)) in A.
        cbn [orb] in A. unfold flush_events in A. cbn [snd] in A. induction (ring _); simpl in A; [discriminate|auto].
      * injection H as <- <-. intros _. exact Hin.
    + injection H as <- <-. intros _. exact Hin.
  - injection H as <- <-. intros _. exact Hin.
Qed.

Lemma radio_exchange_frame28 s rx :
  let '(s1, it, md) := radio_exchange s rx in sc s1 = sc s /\ st s1 = st s /\ forallb plain_item it = true.
Proof.
  unfold radio_exchange.
  destruct (match fl (bf s) with FHead => tl (txq (bf s)) | _ => txq (bf s) end) as [|[llid body] rest]; cbn; auto.
Qed.

Lemma radio_event_frame28 fuel : forall s pdus s1 it,
  radio_event fuel s pdus = (s1, it) -> sc s1 = sc s /\ st s1 = st s /\ forallb plain_item it = true.
Proof.
  induction fuel as [|fuel IH]; intros s pdus s1 it H; simpl in H.
  - injection H as <- <-. auto.
  - pose proof (radio_exchange_frame28 s (hd_error pdus)) as F.
    destruct (radio_exchange s (hd_error pdus)) as [[sa ita] md]. destruct F as (F1 & F2 & F3).
    destruct (match tl pdus with [] => md | _ => true end).
    + destruct (radio_event fuel sa (tl pdus)) as [sb itb] eqn:E. injection H as <- <-.
      destruct (IH _ _ _ _ E) as (G1 & G2 & G3). rewrite forallb_app, F3, G3. split; [congruence|split; [congruence|reflexivity]].
    + injection H as <- <-. auto.
Qed.

Lemma do_cancel_frame28 c s b us s' it :
  do_cancel c s b us = Some (s', it) -> sc s' = sc s /\ st s' = st s /\ forallb plain_item it = true.
Proof.
  unfold do_cancel. destruct (_ && _); [|intros H; injection H as <- <-; auto].
  destruct b; [|intros H; injection H as <- <-; auto].
  destruct (interval (tm s) =? 0); [discriminate|].
  destruct (dt_add _ _) as [sum|]; cbn [obind]; [|discriminate].
  destruct (dt_sub _ _) as [sum1|]; cbn [obind]; [|discriminate].
  destruct (499 <? _); [discriminate|].
  destruct (dt_mul _ _) as [back|]; cbn [obind]; [|discriminate].
  destruct (dt_sub _ _) as [t|]; cbn [obind]; [|discriminate].
  match goal with |- (do r <- ?X; _) = _ -> _ => destruct X as [[s2 it2]|] eqn:E end; cbn [obind]; [|discriminate].
  intros H; injection H as <- <-. destruct (setup_next_frame28 _ _ _ E) as (G1 & G2 & G3).
  cbn [forallb plain_item andb]. rewrite G1, G2. auto.
Qed.

Lemma finish_ev c m0 s' it :
  post c m0 s' it ->
  exists m', (match fold28 false m0 it with
              | (Bad t, mb) => (Bad t, mb)
              | (Ok, m1) =>
                  if false && q_rej m1 then (Bad 3, m1)
                  else if has_adv28 it then (if q_enc m1 then (Bad 4, m1) else (Ok, fresh28 (q_key m1)))
                  else (Ok, mk28 (q_key m1) (q_req m1) (q_sent m1) (q_enc m1) (q_was m1) (q_cur m1) (q_cur m1) (q_due5 m1) (q_unk m1)
                                 (q_unk m1 && negb (q_disc m1)) (q_disc m1))
              end) = (Ok, m') /\ R c s' m'.
Proof.
  intros (m1 & F & HR & A). rewrite F. cbn [andb]. destruct (has_adv28 it).
  - destruct (A eq_refl) as [I Q]. rewrite Q. eexists. split; [reflexivity|].
    destruct HR as (R1 & R2 & R3 & R4 & R5 & R6). apply R_off; [exact R1|reflexivity|apply (R5 I)].
  - eexists. split; [reflexivity|]. eapply R_ext; [exact HR|..]; reflexivity.
Qed.

(* closing an operation of the generic kind *)
Lemma finish_generic c m0 s' it :
  post c m0 s' it ->
  exists m', (match fold28 false m0 it with
              | (Bad t, mb) => (Bad t, mb)
              | (Ok, m1) => if has_adv28 it then (if q_enc m1 then (Bad 4, m1) else (Ok, fresh28 (q_key m1))) else (Ok, m1)
              end) = (Ok, m') /\ R c s' m'.
Proof.
  intros (m1 & F & HR & A). rewrite F. destruct (has_adv28 it).
  - destruct (A eq_refl) as [I Q]. rewrite Q. eexists. split; [reflexivity|].
    destruct HR as (R1 & R2 & R3 & R4 & R5 & R6). apply R_off; [exact R1|reflexivity|apply (R5 I)].
  - exists m1. auto.
Qed.

Lemma R_begin c s m o : R c s m -> R c s (begin28 m o).
Proof. intros H. destruct o; (eapply R_ext; [exact H|..]); reflexivity. Qed.

Lemma ret_post c s m b : R c s m -> post c m s [IRet b].
Proof. intros H. apply post_plain with s; auto. Qed.

Theorem step_ok c s m o s' r :
  R c s m -> lstep c s o = (s', r) -> r <> OCrash ->
  exists m', mstep28g false c m o r = (Ok, m') /\ R c s' m'.
Proof.
  intros HR H Hr.
  assert (Same : forall m0, R c s m0 -> exists m', (Ok, m0) = (Ok, m') /\ R c s m') by (intros m0 H0; exists m0; auto).
  destruct o; cbn [lstep] in H.
  - (* Run *)
    destruct (st s) eqn:Es;
      try (injection H as <- <-; cbn [mstep28g]; apply (finish_generic c _ s []), post_same, R_begin, HR).
    injection H as <- <-. cbn [mstep28g].
    apply (finish_generic c (begin28 m Run)).
    exists (begin28 m Run). split; [reflexivity|]. split.
    + eapply R_ext; [exact HR|..]; try reflexivity. unfold in_connection. cbn. rewrite Es. reflexivity.
    + intros _. split; [reflexivity|]. destruct HR as (R1 & R2 & R3 & R4 & R5 & R6). apply R5. unfold in_connection. rewrite Es. reflexivity.
  - (* AdvTimeout *)
    destruct (st s) eqn:Es; try solve [injection H as <- <-; exists m; split; [reflexivity|exact HR]].
    injection H as <- <-. cbn [mstep28g].
    apply (finish_generic c (begin28 m AdvTimeout)).
    exists (begin28 m AdvTimeout). split; [reflexivity|]. split.
    + eapply R_ext; [exact HR|..]; try reflexivity.
    + intros _. split; [unfold in_connection; cbn; rewrite Es; reflexivity|].
      destruct HR as (R1 & R2 & R3 & R4 & R5 & R6). apply R5. unfold in_connection. rewrite Es. reflexivity.
  - (* Adv *)
    destruct (st s) eqn:Es; try solve [injection H as <- <-; exists m; split; [reflexivity|exact HR]].
    destruct (255 <? N.of_nat (length body)); [injection H as <- <-; exists m; split; [reflexivity|exact HR]|].
    unfold ok_items in H. destruct (do_adv_received c s hdr0 body) as [[s1 it]|] eqn:E; [|injection H as <- <-; congruence].
    injection H as <- <-.
    assert (Hin : in_connection s = false) by (unfold in_connection; rewrite Es; reflexivity).
    assert (HRb : R c s (begin28 m (Adv hdr0 body))) by (apply R_begin, HR).
    destruct (adv_post c s _ hdr0 body s1 it HRb Hin E) as (F & O & K).
    cbn [mstep28g]. rewrite F. eexists. split; [reflexivity|].
    destruct HRb as (R1 & R2 & R3 & R4 & R5 & R6).
    apply R_off; [|destruct (has_ce28 it); [reflexivity|apply (R5 Hin)]|exact O].
    destruct (has_ce28 it); cbn [q_key fresh28]; congruence.
  - (* Ev *)
    destruct (in_connection s) eqn:Hin; [|injection H as <- <-; exists m; split; [reflexivity|exact HR]].
    match type of H with context [existsb ?f pdus] => destruct (existsb f pdus) end; [injection H as <- <-; exists m; split; [reflexivity|exact HR]|].
    destruct (radio_event _ s pdus) as [s1 it1] eqn:E1.
    destruct (do_end_event c s1 evts) as [[s2 it2]|] eqn:E2; [|injection H as <- <-; congruence].
    injection H as <- <-. cbn [mstep28g]. apply finish_ev.
    destruct (radio_event_frame28 _ _ _ _ _ E1) as (F1 & F2 & F3).
    apply post_app with s1.
    + apply post_plain with s; [apply R_begin, HR|exact F1|apply inconn_st, F2|exact F3].
    + apply (fold28_plain m it1 F3).
    + intros m1 HR1. apply do_end_event_post with s1 evts; [exact HR1|rewrite (inconn_st s s1 F2); exact Hin|exact E2].
  - (* Timeout *)
    destruct (in_connection s) eqn:Hin; [|injection H as <- <-; exists m; split; [reflexivity|exact HR]].
    unfold ok_items in H. destruct (do_timeout c s) as [[s1 it]|] eqn:E; [|injection H as <- <-; congruence].
    injection H as <- <-. cbn [mstep28g]. apply finish_generic.
    apply do_timeout_post with s; [apply R_begin, HR|exact Hin|exact E].
  - (* Disconnect *)
    destruct (in_connection s) eqn:Hin; [|injection H as <- <-; exists m; split; [reflexivity|exact HR]].
    match type of H with (let '(s2, it) := reset_encryption c ?X in _) = _ => set (s1 := X) in * end.
    destruct (reset_encryption c s1) as [s2 it] eqn:E. injection H as <- <-.
    assert (HR1 : R c s1 (begin28 m (Disconnect reason))) by (eapply R_ext; [exact HR|..]; try reflexivity; rewrite Hin; reflexivity).
    destruct (reset_encryption_post c s1 _ s2 it HR1 E) as (m1 & F1 & A1 & K1 & Q1 & O1 & S1).
    cbn [mstep28g]. rewrite F1, Q1. eexists. split; [reflexivity|].
    apply R_off; [exact K1|reflexivity|exact O1].
  - (* Cpu *)
    destruct (in_connection s) eqn:Hin; [|injection H as <- <-; exists m; split; [reflexivity|exact HR]].
    repeat match type of H with context [if ?b then _ else _] => destruct b end; injection H as <- <-; cbn [mstep28g];
      apply finish_generic; (apply post_plain with s; [apply R_begin, HR|reflexivity|reflexivity|reflexivity]).
  - (* Cpr *)
    destruct (in_connection s) eqn:Hin; [|injection H as <- <-; exists m; split; [reflexivity|exact HR]].
    repeat match type of H with context [if ?b then _ else _] => destruct b end; injection H as <- <-; cbn [mstep28g];
      apply finish_generic; (apply post_plain with s; [apply R_begin, HR|reflexivity|reflexivity|reflexivity]).
  - (* PhyReq *)
    destruct (in_connection s) eqn:Hin; [|injection H as <- <-; exists m; split; [reflexivity|exact HR]].
    repeat match type of H with context [if ?b then _ else _] => destruct b end; injection H as <- <-; cbn [mstep28g];
      apply finish_generic; (apply post_plain with s; [apply R_begin, HR|reflexivity|reflexivity|reflexivity]).
  - (* VerReq *)
    destruct (in_connection s) eqn:Hin; [|injection H as <- <-; exists m; split; [reflexivity|exact HR]].
    repeat match type of H with context [if ?b then _ else _] => destruct b end; injection H as <- <-; cbn [mstep28g];
      apply finish_generic; (apply post_plain with s; [apply R_begin, HR|reflexivity|reflexivity|reflexivity]).
  - (* TxAvail *)
    injection H as <- <-. cbn [mstep28g]. apply finish_generic. apply post_plain with s; [apply R_begin, HR|reflexivity|reflexivity|reflexivity].
  - (* Cancel *)
    unfold ok_items in H. destruct (do_cancel c s b us) as [[s1 it]|] eqn:E; [|injection H as <- <-; congruence].
    injection H as <- <-. destruct (do_cancel_frame28 _ _ _ _ _ _ E) as (F1 & F2 & F3).
    cbn [mstep28g]. apply finish_generic. apply post_plain with s; [apply R_begin, HR|exact F1|apply inconn_st, F2|exact F3].
  - (* CprReply *)
    destruct (c_cpr c); injection H as <- <-; try solve [exists m; split; [reflexivity|exact HR]];
      cbn [mstep28g]; apply finish_generic; apply post_plain with s; [apply R_begin, HR|reflexivity|reflexivity|reflexivity].
  - (* CprNeg *)
    destruct (c_cpr c); injection H as <- <-; try solve [exists m; split; [reflexivity|exact HR]];
      cbn [mstep28g]; apply finish_generic; apply post_plain with s; [apply R_begin, HR|reflexivity|reflexivity|reflexivity].
  - (* Key *)
    injection H as <- <-. cbn [mstep28g]. eexists. split; [reflexivity|].
    destruct HR as (R1 & R2 & R3 & R4 & R5 & R6). unfold R, secflags_off, set_q_key. cbn. auto 10.
  - (* St *)
    injection H as <- <-. cbn [mstep28g]. apply finish_generic. apply post_plain with s; [apply R_begin, HR|reflexivity|reflexivity|].
    unfold st_item. destruct (in_connection s); reflexivity.
Qed.

(* ========================================================================================== histories of any length *)
Lemma R_init c : R c (linit c) (minit28 c).
Proof. apply R_off; [reflexivity|reflexivity|unfold secflags_off; cbn; auto]. Qed.

Lemma run_ok c : forall ops s m,
  R c s m -> no_crash (lrun c s ops) ->
  exists m', mrun28g false c m (lrun c s ops) = (Ok, m') /\ R c (lfinal c s ops) m'.
Proof.
  induction ops as [|o t IH]; intros s m HR NC; simpl.
  - exists m. auto.
  - simpl in NC. destruct (lstep c s o) as [s1 r] eqn:E.
    assert (Hr : r <> OCrash) by (intros ->; apply (NC o); left; reflexivity).
    destruct (step_ok c s m o s1 r HR E Hr) as (m1 & M1 & HR1).
    simpl. rewrite M1. apply IH; [exact HR1|].
    intros o' Hin. apply (NC o'). right. exact Hin.
Qed.

Theorem core_monitor_accepts c ops :
  no_crash (lrun c (linit c) ops) -> accepts28_core c (lrun c (linit c) ops).
Proof.
  intros NC. destruct (run_ok c ops (linit c) (minit28 c) (R_init c) NC) as (m' & M & _).
  unfold accepts28_core. rewrite M. reflexivity.
Qed.

Theorem encrypted_only_with_key c ops :
  no_crash (lrun c (linit c) ops) ->
  is_enc (sc (lfinal c (linit c) ops)) = true -> spec_encrypted c (lrun c (linit c) ops) = true.
Proof.
  intros NC He. destruct (run_ok c ops (linit c) (minit28 c) (R_init c) NC) as (m' & M & HR).
  unfold spec_encrypted. rewrite M. destruct HR as (_ & R2 & _). exact (R2 He).
Qed.

(* the model's has_key_ && !encryption_in_progress_ ("LL_START_ENC_REQ sent, answer awaited") is the specification's *)
Theorem start_pending_only_with_key c ops :
  no_crash (lrun c (linit c) ops) ->
  has_key (sc (lfinal c (linit c) ops)) = true ->
  let m := snd (mrun28g false c (minit28 c) (lrun c (linit c) ops)) in
  q_req m = Some true /\ (enc_prog (sc (lfinal c (linit c) ops)) = false -> q_sent m = true).
Proof.
  intros NC Hk. destruct (run_ok c ops (linit c) (minit28 c) (R_init c) NC) as (m' & M & HR).
  cbn zeta. rewrite M. destruct HR as (_ & _ & R3 & R4 & _). split; [exact (R3 Hk)|exact (R4 Hk)].
Qed.

(* ========================================================================================== witnesses and examples *)
Definition no_crashb (tr : list (lop * lout)) : bool :=
  forallb (fun x => match snd x with OCrash => false | _ => true end) tr.
Lemma no_crashb_ok tr : no_crashb tr = true -> no_crash tr.
Proof.
  unfold no_crashb, no_crash. intros H o Hin. rewrite forallb_forall in H. specialize (H _ Hin). discriminate.
Qed.

Definition monitor28_accepts_full : Prop :=
  forall (c : cfg) (ops : list lop), no_crash (lrun c (linit c) ops) -> accepts28 c (lrun c (linit c) ops).

Definition cfg28 : cfg := mk_cfg true true 500 CprNone true 31 [71; 17; 8; 21; 15; 192].
Definition connect28 : lop :=
  Adv 197 [60; 28; 98; 146; 240; 72; 71; 17; 8; 21; 15; 192; 90; 179; 154; 175; 8; 129; 246; 3; 11; 0; 24; 0; 0; 0; 72; 0;
           255; 255; 255; 255; 31; 170].
Definition enc_req : pdu := (3, [3; 136; 119; 102; 85; 68; 51; 34; 17; 52; 18; 160; 161; 162; 163; 164; 165; 166; 167; 176; 177; 178; 179]).
Definition start_enc_rsp : pdu := (3, [6]).
Definition pause_enc_req : pdu := (3, [10]).
Definition pause_enc_rsp : pdu := (3, [11]).
Definition read_secret : pdu := (2, att_read_secret).

(* a complete session: start of encryption with a known key, protected read, pause, protected read refused, restart
   with an unknown key refused, local disconnect *)
Definition session28 : list lop :=
  [Run; connect28; Ev 0 []; Key true; Ev 0 [enc_req]; Ev 0 []; Ev 0 [start_enc_rsp]; Ev 0 [read_secret]; Ev 0 [];
   Ev 0 [pause_enc_req]; Ev 0 [pause_enc_rsp]; Ev 0 [read_secret]; Ev 0 []; Key false; Ev 0 [enc_req]; Ev 0 []; Ev 0 [start_enc_rsp];
   Ev 0 [read_secret]; Ev 0 []; Disconnect None; Ev 0 []; Ev 0 []; Ev 0 []].
Lemma session28_accepted : fst (mrun28g true cfg28 (minit28 cfg28) (lrun cfg28 (linit cfg28) session28)) = Ok.
Proof. vm_compute. reflexivity. Qed.
Lemma session28_no_crash : no_crash (lrun cfg28 (linit cfg28) session28).
Proof. apply no_crashb_ok. vm_compute. reflexivity. Qed.
(* what is on air in it: LL_ENC_RSP + LL_START_ENC_REQ, LL_START_ENC_RSP, the value, LL_PAUSE_ENC_RSP, the error response,
   LL_ENC_RSP + LL_REJECT_EXT_IND( pin or key missing ), LL_UNKNOWN_RSP( LL_START_ENC_RSP ), the error response, LL_TERMINATE_IND *)
Lemma session28_on_air :
  flat_map (fun x => match snd x with OItems it => flat_map (fun i => match i with ITx l b => [(l, b)] | _ => [] end) it | _ => [] end)
           (lrun cfg28 (linit cfg28) session28)
  = [(3, 4 :: skds_bytes ++ ivs_bytes); (3, [5]); (3, [6]); (2, [2; 0; 4; 0; 11; 23]); (3, [11]); (2, [5; 0; 4; 0; 1; 10; 3; 0; 5]);
     (3, 4 :: skds_bytes ++ ivs_bytes); (3, [17; 3; 6]); (3, [7; 6]); (2, [5; 0; 4; 0; 1; 10; 3; 0; 5]); (3, [2; 22])].
Proof. vm_compute. reflexivity. Qed.
(* the invariant theorem is not vacuous: after the first seven operations the link is encrypted *)
Lemma session28_reaches_encrypted :
  is_enc (sc (lfinal cfg28 (linit cfg28) (firstn 7 session28))) = true
  /\ spec_encrypted cfg28 (lrun cfg28 (linit cfg28) (firstn 7 session28)) = true.
Proof. vm_compute. auto. Qed.

(* the witnesses of defect #24 (before the repair each of them ended with enc:t+ / is_encrypted): the repaired model
   answers LL_UNKNOWN_RSP and stays unencrypted *)
Definition witness_lone : list lop := [Run; connect28; Ev 0 [start_enc_rsp]; Ev 0 [read_secret]; Ev 0 []; Ev 0 []].
Definition witness_early : list lop := [Run; connect28; Key true; Ev 0 [enc_req; start_enc_rsp]; Ev 0 [read_secret]; Ev 0 []; Ev 0 []].
Definition witness_unknown : list lop := [Run; connect28; Ev 0 []; Key false; Ev 0 [enc_req]; Ev 0 [start_enc_rsp]; Ev 0 [read_secret]; Ev 0 []; Ev 0 []].
Definition never_encrypted (c : cfg) (ops : list lop) : bool :=
  forallb (fun x => match snd x with
                    | OItems it => negb (existsb (fun i => match i with IEncTx true => true | ITx 2 [2; 0; 4; 0; 11; 23] => true | _ => false end) it)
                    | _ => true end) (lrun c (linit c) ops)
  && negb (is_enc (sc (lfinal c (linit c) ops))).
Lemma witnesses_refused :
  never_encrypted cfg28 witness_lone = true /\ never_encrypted cfg28 witness_early = true /\ never_encrypted cfg28 witness_unknown = true
  /\ fst (mrun28g true cfg28 (minit28 cfg28) (lrun cfg28 (linit cfg28) witness_lone)) = Ok
  /\ fst (mrun28g true cfg28 (minit28 cfg28) (lrun cfg28 (linit cfg28) witness_early)) = Ok
  /\ fst (mrun28g true cfg28 (minit28 cfg28) (lrun cfg28 (linit cfg28) witness_unknown)) = Ok.
Proof. vm_compute. auto 10. Qed.

(* the monitor is not trivially accepting: what the code did before the repair, and other violations, as observed traces *)
Definition d28 : details := mk_details 24 0 72 550.
Definition started28 : list (lop * lout) :=
  [(Run, OItems [IAa advertising_access_address advertising_crc_init; IAdv 37]);
   (connect28, OItems [IAa 1 2; ICe 10 1 2 30000; ICb (EvRequested d28)]); (Ev 0 [], OItems [ICe 20 1 2 30000; ICb (EvEstablished d28)])].
Lemma monitor28_rejects_lone_start_enc_rsp :
  fst (mrun28g true cfg28 (minit28 cfg28) (started28 ++ [(Ev 0 [start_enc_rsp], OItems [IEncTx true; ICe 30 1 2 30000; ICb (EvChanged d28)])])) = Bad 1.
Proof. vm_compute. reflexivity. Qed.
Lemma monitor28_rejects_start_before_request_sent :
  fst (mrun28g true cfg28 (minit28 cfg28)
         (started28 ++ [(Key true, OItems []);
                        (Ev 0 [enc_req; start_enc_rsp], OItems [IFindKey 4660 1; ISetup toy_key 2 3; IEncTx true; IEncRx true; ICe 30 1 2 30000])])) = Bad 2.
Proof. vm_compute. reflexivity. Qed.
Lemma monitor28_rejects_start_for_unknown_key :
  fst (mrun28g true cfg28 (minit28 cfg28)
         (started28 ++ [(Ev 0 [enc_req], OItems [IFindKey 4660 1; ISetup zero_key 2 3; IEncRx true; ICe 30 1 2 30000])])) = Bad 3.
Proof. vm_compute. reflexivity. Qed.
Lemma monitor28_rejects_missing_reject :
  fst (mrun28g true cfg28 (minit28 cfg28)
         (started28 ++ [(Ev 0 [enc_req], OItems [IFindKey 4660 1; ISetup zero_key 2 3; ICe 30 1 2 30000]);
                        (Ev 0 [], OItems [ITx 3 (4 :: skds_bytes ++ ivs_bytes); ICe 3 1 2 30000])])) = Bad 3.
Proof. vm_compute. reflexivity. Qed.
Definition encrypted28 : list (lop * lout) :=
  started28 ++ [(Key true, OItems []); (Ev 0 [enc_req], OItems [IFindKey 4660 1; ISetup toy_key 2 3; IEncRx true; ICe 30 1 2 30000]);
                (Ev 0 [], OItems [ITx 3 (4 :: skds_bytes ++ ivs_bytes); ITx 3 [5]; ICe 3 1 2 30000]);
                (Ev 0 [start_enc_rsp], OItems [IEncTx true; ICe 13 1 2 30000; ICb (EvChanged d28)])].
Lemma monitor28_accepts_proper_start : fst (mrun28g true cfg28 (minit28 cfg28) encrypted28) = Ok.
Proof. vm_compute. reflexivity. Qed.
Lemma monitor28_rejects_encrypted_after_disconnect :
  fst (mrun28g true cfg28 (minit28 cfg28) (encrypted28 ++ [(Disconnect None, OItems [])])) = Bad 4.
Proof. vm_compute. reflexivity. Qed.
Lemma monitor28_rejects_readable_after_pause :
  fst (mrun28g true cfg28 (minit28 cfg28)
         (encrypted28 ++ [(Ev 0 [pause_enc_req], OItems [ITx 3 [6]; IEncRx false; ICe 23 1 2 30000; ICb (EvChanged d28)]);
                          (Ev 0 [read_secret], OItems [ITx 3 [11]; ICe 33 1 2 30000]);
                          (Ev 0 [], OItems [ITx 2 [2; 0; 4; 0; 11; 23]; ICe 6 1 2 30000])])) = Bad 4.
Proof. vm_compute. reflexivity. Qed.
Lemma monitor28_rejects_readable_unencrypted :
  fst (mrun28g true cfg28 (minit28 cfg28)
         (started28 ++ [(Ev 0 [read_secret], OItems [ICe 30 1 2 30000]); (Ev 0 [], OItems [ITx 2 [2; 0; 4; 0; 11; 23]; ICe 3 1 2 30000])])) = Bad 5.
Proof. vm_compute. reflexivity. Qed.
