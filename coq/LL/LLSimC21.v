(* C21  The specification monitor of LLSpecC21 never raises one of the clauses 1 - 6 of the property on a trace of the
   model: simulation between the link layer model's state (LLModel) and the monitor's state (LLSpecC21.mon21), for operation
   sequences of any length, in the environment [env_run] (fewer than 4 callbacks per operation; the number of events the
   monitor derives from the window timing is the number of events the counter moved).

   Contents: what the monitor reads off a result (views of item lists); the radio's part of an event ([radio_event_spec]);
   control PDUs that only answer ([ctlk], [hlc_other]) and those with an instant ([accept_full]); the receive queue on both
   sides ([hrd_sim]); exact results of force_disconnect() and of the instant step ([fd_exact], [pts_case], [pts_exact]); the
   channel map relation (ChanMapProofs.reset_result, C20); the monitor's planning step ([plan21_sound]); end_event() of a
   judged connection ([end_event_live]); the relation [Sim], the environment [env_run], one lemma per operation
   ([sim_simple], [sim_adv], [sim_timeout], [sim_cancel], [sim_ev]) and the theorem [monitor_accepts_partial]. *)
From Coq Require Import NArith List Bool Lia ZifyBool.
From BT Require Import Base.ListX LL.LLModel LL.LLSpec LL.LLSpecC21 LL.LLProofsC21.
From BT Require gen.GenLL ChanMap.ChanMapModel ChanMap.ChanMapSpec ChanMap.ChanMapProofs.
Import ListNotations.
Local Open Scope N_scope.

(* ========================================================================================== what the monitor reads off a result *)
Definition is_cb (i : item) : bool := match i with ICb _ => true | _ => false end.
Definition cb_count (it : list item) : N := N.of_nat (length (filter is_cb it)).

Lemma find_ce21_app a b :
  find_ce21 (a ++ b) = match find_ce21 b with Some x => Some x | None => find_ce21 a end.
Proof.
  unfold find_ce21. rewrite fold_left_app. generalize (fold_left (fun a0 i => match i with ICe ch s e iv => Some (ch, s, e, iv) | _ => a0 end) a None).
  induction b as [|i b IH]; intros o; cbn [fold_left].
  - destruct o; reflexivity.
  - destruct i; try apply IH. rewrite IH.
    destruct (fold_left _ b None); reflexivity.
Qed.

Lemma changed21_app a b :
  changed21 (a ++ b) = match changed21 b with Some x => Some x | None => changed21 a end.
Proof.
  unfold changed21. rewrite fold_left_app. generalize (fold_left (fun a0 i => match i with ICb (EvChanged d) => Some d | _ => a0 end) a None).
  induction b as [|i b IH]; intros o; cbn [fold_left].
  - destruct o; reflexivity.
  - destruct i; try apply IH. destruct e; try apply IH. rewrite IH.
    destruct (fold_left _ b None); reflexivity.
Qed.

Lemma has_adv21_app a b : has_adv21 (a ++ b) = has_adv21 a || has_adv21 b.
Proof. apply existsb_app. Qed.
Lemma has_closed21_app a b r : has_closed21 (a ++ b) r = has_closed21 a r || has_closed21 b r.
Proof. apply existsb_app. Qed.
Lemma has_disarm21_app a b : has_disarm21 (a ++ b) = has_disarm21 a || has_disarm21 b.
Proof. apply existsb_app. Qed.
Lemma phys21_app a b : phys21 (a ++ b) = phys21 a ++ phys21 b.
Proof. apply flat_map_app. Qed.
Lemma att_on_air_app a b : att_on_air (a ++ b) = att_on_air a ++ att_on_air b.
Proof. apply flat_map_app. Qed.
Lemma cb_count_app a b : cb_count (a ++ b) = cb_count a + cb_count b.
Proof. unfold cb_count. rewrite filter_app, app_length. lia. Qed.

(* a list the monitor reads nothing from: no event scheduled, no advertising, no PHY, no PDU on air, no changed / closed *)
Definition quiet_item (i : item) : bool :=
  match i with
  | IAdv _ | ICe _ _ _ _ | IPhy _ _ | ITx _ _ | IDisarm => false
  | ICb (EvChanged _) | ICb (EvClosed _) => false
  | _ => true
  end.
Definition quiet_items (it : list item) : Prop := forallb quiet_item it = true.

Lemma quiet_one i : quiet_item i = true ->
  find_ce21 [i] = None /\ changed21 [i] = None /\ has_adv21 [i] = false /\ (forall r, has_closed21 [i] r = false)
  /\ has_disarm21 [i] = false /\ phys21 [i] = [] /\ att_on_air [i] = [].
Proof.
  destruct i; try discriminate; try (intros _; cbn; repeat (split || intro); reflexivity).
  destruct e; try discriminate; intros _; cbn; repeat (split || intro); reflexivity.
Qed.

Lemma quiet_views it : quiet_items it ->
  find_ce21 it = None /\ changed21 it = None /\ has_adv21 it = false /\ (forall r, has_closed21 it r = false)
  /\ has_disarm21 it = false /\ phys21 it = [] /\ att_on_air it = [].
Proof.
  unfold quiet_items. induction it as [|i it IH]; cbn [forallb]; intros H.
  - repeat (split || intro); reflexivity.
  - apply andb_prop in H. destruct H as (Hi & H). destruct (IH H) as (A1 & A2 & A3 & A4 & A5 & A6 & A7).
    destruct (quiet_one i Hi) as (B1 & B2 & B3 & B4 & B5 & B6 & B7).
    change (i :: it) with ([i] ++ it).
    rewrite find_ce21_app, changed21_app, has_adv21_app, has_disarm21_app, phys21_app, att_on_air_app, A1, A2, A3, A5, A6, A7, B1, B2, B3, B5, B6, B7.
    repeat (split || intro); try reflexivity. rewrite has_closed21_app, A4, B4. reflexivity.
Qed.

Lemma quiet_app a b : quiet_items a -> quiet_items b -> quiet_items (a ++ b).
Proof. unfold quiet_items. rewrite forallb_app. intros -> ->. reflexivity. Qed.

(* the PDUs the radio put on air *)
Definition tx_items (l : list pdu) : list item := map (fun p => ITx (fst p) (snd p)) l.
Lemma tx_views l :
  find_ce21 (tx_items l) = None /\ changed21 (tx_items l) = None /\ has_adv21 (tx_items l) = false
  /\ (forall r, has_closed21 (tx_items l) r = false) /\ has_disarm21 (tx_items l) = false /\ phys21 (tx_items l) = []
  /\ cb_count (tx_items l) = 0
  /\ att_on_air (tx_items l) = map snd (filter (fun p => fst p =? 2) l).
Proof.
  induction l as [|[ll b] l IH]; [repeat (split || intro); reflexivity|].
  destruct IH as (A1 & A2 & A3 & A4 & A5 & A6 & A7 & A8).
  change (tx_items ((ll, b) :: l)) with ([ITx ll b] ++ tx_items l).
  rewrite find_ce21_app, changed21_app, has_adv21_app, has_disarm21_app, phys21_app, cb_count_app, att_on_air_app, A1, A2, A3, A5, A6, A7, A8.
  split; [reflexivity|]. split; [reflexivity|]. split; [reflexivity|]. split; [intros r; rewrite has_closed21_app, A4; reflexivity|].
  split; [reflexivity|]. split; [reflexivity|]. split; [reflexivity|].
  - cbn [filter fst snd]. cbn [att_on_air flat_map app].
    destruct ll as [|[p|p|]]; try reflexivity; destruct p; reflexivity.
Qed.

(* the callbacks delivered at the end of an operation *)
Definition cb_items (r : list cb_event) : list item := map ICb r.
Definition last_changed (r : list cb_event) : option details :=
  fold_left (fun a e => match e with EvChanged d => Some d | _ => a end) r None.
Lemma cb_views r :
  find_ce21 (cb_items r) = None /\ changed21 (cb_items r) = last_changed r /\ has_adv21 (cb_items r) = false
  /\ (forall x, has_closed21 (cb_items r) x = existsb (fun e => match e with EvClosed y => y =? x | _ => false end) r)
  /\ has_disarm21 (cb_items r) = false /\ phys21 (cb_items r) = [] /\ att_on_air (cb_items r) = []
  /\ cb_count (cb_items r) = N.of_nat (length r).
Proof.
  unfold cb_items. split; [|split; [|split; [|split; [|split; [|split; [|split]]]]]].
  - unfold find_ce21. generalize (@None (N * N * N * N)). induction r; intros o; cbn; auto.
  - unfold changed21, last_changed. generalize (@None details). induction r as [|e r IH]; intros o; cbn [map fold_left]; [reflexivity|].
    destruct e; apply IH.
  - unfold has_adv21. induction r; cbn; auto.
  - intros x. unfold has_closed21. induction r as [|e r IH]; cbn [map existsb]; [reflexivity|]. rewrite IH. reflexivity.
  - unfold has_disarm21. induction r; cbn; auto.
  - unfold phys21. induction r; cbn; auto.
  - unfold att_on_air. induction r; cbn; auto.
  - unfold cb_count. induction r as [|e r IH]; cbn [map filter is_cb length]; [reflexivity|]. cbn [length] in *. lia.
Qed.

(* ========================================================================================== the radio's part of an event *)
(* committed, not yet on air *)
Definition unsent_b (b : bufs) : list pdu := match fl b with FHead => tl (txq b) | _ => txq b end.
Definition unsent (s : lstate_t) : list pdu := unsent_b (bf s).

Definition norm1 (p : pdu) : list pdu :=
  if negb (N.of_nat (length (snd p)) =? 0) && negb (N.land (fst p) 3 =? 0) then [(N.land (fst p) 3, snd p)] else [].
Lemma normalise21_cons p l : normalise21 (p :: l) = norm1 p ++ normalise21 l.
Proof.
  unfold normalise21, norm1. cbn [map filter fst snd].
  replace (N.land (N.land (fst p) 3) 3) with (N.land (fst p) 3) by (rewrite <- N.land_assoc; reflexivity).
  destruct (negb _ && negb _); reflexivity.
Qed.

Lemma radio_exchange_spec s rx :
  exists b', fst (fst (radio_exchange s rx)) = set_bf s b'
    /\ stopped b' = stopped (bf s) /\ tx_avail b' = tx_avail (bf s)
    /\ rxq b' = rxq (bf s) ++ match rx with Some p => norm1 p | None => [] end
    /\ unsent_b b' = tl (unsent s)
    /\ (fl b' = FHead -> txq b' <> [])
    /\ snd (fst (radio_exchange s rx)) = tx_items (firstn 1 (unsent s))
    /\ snd (radio_exchange s rx) = negb (match tl (unsent s) with [] => true | _ => false end).
Proof.
  unfold radio_exchange, unsent. fold (unsent_b (bf s)).
  set (rq := match rx with Some (llid, body) => _ | None => rxq (bf s) end).
  assert (Hrq : rq = rxq (bf s) ++ match rx with Some p => norm1 p | None => [] end).
  { subst rq. destruct rx as [[llid body]|]; [|rewrite app_nil_r; reflexivity]. unfold norm1. cbn [fst snd].
    destruct (negb _ && negb _); [reflexivity|rewrite app_nil_r; reflexivity]. }
  clearbody rq. cbn zeta.
  destruct (unsent_b (bf s)) as [|[l b] rest] eqn:U; cbn [fst snd].
  - eexists. split; [reflexivity|]. cbn [stopped tx_avail rxq fl txq unsent_b]. repeat split; auto. discriminate.
  - eexists. split; [reflexivity|]. cbn [stopped tx_avail rxq fl txq unsent_b tl firstn]. repeat split; auto.
    + discriminate.
    + destruct rest; reflexivity.
Qed.

Lemma radio_event_spec : forall fuel s pdus,
  (length pdus + length (unsent s) <= fuel)%nat -> (1 <= fuel)%nat ->
  exists b', fst (radio_event fuel s pdus) = set_bf s b'
    /\ stopped b' = stopped (bf s) /\ tx_avail b' = tx_avail (bf s)
    /\ rxq b' = rxq (bf s) ++ normalise21 pdus
    /\ unsent_b b' = []
    /\ (fl b' = FHead -> txq b' <> [])
    /\ snd (radio_event fuel s pdus) = tx_items (unsent s).
Proof.
  induction fuel as [|fuel IH]; intros s pdus Hf H1; [lia|].
  cbn [radio_event].
  destruct (radio_exchange_spec s (hd_error pdus)) as (b1 & E1 & E2 & E3 & E4 & E5 & E8 & E6 & E7).
  destruct (radio_exchange s (hd_error pdus)) as [[s1 it] md]. cbn [fst snd] in *. subst s1 it md.
  assert (Hn : normalise21 pdus = match hd_error pdus with Some p => norm1 p | None => [] end ++ normalise21 (tl pdus)).
  { destruct pdus as [|p r]; [reflexivity|]. cbn [hd_error tl]. apply normalise21_cons. }
  destruct (tl pdus) as [|p2 r2] eqn:T.
  - destruct (tl (unsent s)) as [|u2 ur] eqn:TU; cbn [negb].
    + (* the event ends here *)
      cbn [fst snd]. exists b1. rewrite Hn, E4, E5. cbn [normalise21 map filter]. rewrite app_nil_r.
      repeat split; auto. destruct (unsent s) as [|u r]; [reflexivity|]. cbn [tl] in TU. subst r. reflexivity.
    + (* more data of the peripheral *)
      specialize (IH (set_bf s b1) []).
      assert (U1 : unsent (set_bf s b1) = u2 :: ur) by (unfold unsent; cbn [bf set_bf]; exact E5).
      destruct IH as (b2 & F1 & F2 & F3 & F4 & F5 & F8 & F6).
      { rewrite U1. destruct (unsent s) as [|u r]; [discriminate|]. cbn [tl] in TU. subst r. cbn [length] in *. lia. }
      { destruct (unsent s) as [|u r]; [discriminate|]. cbn [tl] in TU. subst r. cbn [length] in *. lia. }
      destruct (radio_event fuel (set_bf s b1) []) as [s2 it2]. cbn [fst snd] in *. subst s2 it2.
      exists b2. cbn [bf set_bf] in *. split; [reflexivity|]. rewrite F2, F3, F4, E2, E3, E4, Hn, U1. cbn [normalise21 map filter]. rewrite !app_nil_r.
      repeat split; auto. destruct (unsent s) as [|u r]; [discriminate|]. cbn [tl] in TU. subst r. reflexivity.
  - (* more PDUs of the central *)
    specialize (IH (set_bf s b1) (p2 :: r2)).
    assert (U1 : unsent (set_bf s b1) = tl (unsent s)) by (unfold unsent; cbn [bf set_bf]; exact E5).
    destruct IH as (b2 & F1 & F2 & F3 & F4 & F5 & F8 & F6).
    { rewrite U1. destruct pdus as [|p r]; [discriminate|]. cbn [tl] in T. subst r. cbn [length] in *.
      destruct (unsent s); cbn [tl length] in *; lia. }
    { destruct pdus as [|p r]; [discriminate|]. cbn [tl] in T. subst r. cbn [length] in *. lia. }
    destruct (radio_event fuel (set_bf s b1) (p2 :: r2)) as [s2 it2]. cbn [fst snd] in *. subst s2 it2.
    exists b2. cbn [bf set_bf] in *. split; [reflexivity|]. rewrite F2, F3, F4, E2, E3, E4, Hn, U1, app_assoc.
    repeat split; auto. destruct (unsent s) as [|u r]; reflexivity.
Qed.

(* ========================================================================================== a step that only answers *)
Definition att_of (l : list pdu) : list (list N) := map snd (filter (fun p => fst p =? 2) l).
Lemma att_of_app a b : att_of (a ++ b) = att_of a ++ att_of b.
Proof. unfold att_of. rewrite filter_app, map_app. reflexivity. Qed.

Definition benign (e : cb_event) : bool := match e with EvChanged _ | EvClosed _ => false | _ => true end.

(* [ctlk k s s']: the connection state is untouched, k ATT answers (and any number of control PDUs) were committed, only
   callbacks other than changed / closed were queued *)
Record ctlk (k : nat) (s s' : lstate_t) : Prop := mk_ctlk {
  ck_keep : keep s s';
  ck_fl : fl (bf s') = fl (bf s);
  ck_stopped : stopped (bf s') = stopped (bf s);
  ck_txa : tx_avail (bf s') = tx_avail (bf s);
  ck_txq : exists l, txq (bf s') = txq (bf s) ++ l /\ att_of l = repeat att_mtu_response k;
  ck_ring : exists evs, ring s' = ring s ++ evs /\ forallb benign evs = true;
  ck_disc : disc_reason s' = disc_reason s \/ True
}.

Lemma ctlk_refl s : ctlk 0 s s.
Proof.
  split; try reflexivity; [apply keep_refl|exists []; rewrite app_nil_r; split; reflexivity|exists []; rewrite app_nil_r; split; reflexivity|auto].
Qed.

Lemma ctlk_trans a b s s1 s2 : ctlk a s s1 -> ctlk b s1 s2 -> ctlk (a + b) s s2.
Proof.
  intros [A1 A2 A3 A4 (l1 & A5 & A6) (e1 & A7 & A8) _] [B1 B2 B3 B4 (l2 & B5 & B6) (e2 & B7 & B8) _].
  split; try congruence; [eapply keep_trans; eassumption| | |auto].
  - exists (l1 ++ l2). rewrite B5, A5, app_assoc, att_of_app, A6, B6, repeat_app. split; reflexivity.
  - exists (e1 ++ e2). rewrite B7, A7, app_assoc, forallb_app, A8, B8. split; reflexivity.
Qed.

Lemma ctlk_trans0 s s1 s2 : ctlk 0 s s1 -> ctlk 0 s1 s2 -> ctlk 0 s s2.
Proof. intros A B. exact (ctlk_trans 0 0 s s1 s2 A B). Qed.

(* setters that touch none of the fields named above *)
Ltac ck0 := split; try reflexivity; [kp|exists []; rewrite app_nil_r; split; reflexivity|exists []; rewrite app_nil_r; split; reflexivity|auto].

Lemma ctlk_push c s e : benign e = true -> ctlk 0 s (push_event c s e).
Proof.
  intros B. unfold push_event. destruct (c_cb c); [destruct (_ <? _)|]; try apply ctlk_refl.
  split; try reflexivity; [kp|exists []; rewrite app_nil_r; split; reflexivity| |auto].
  exists [e]. cbn [ring set_ring forallb]. rewrite B. split; reflexivity.
Qed.

Lemma ctlk_commit_ctrl s b : ctlk 0 s (commit_ctrl s b).
Proof.
  unfold commit_ctrl, commit. destruct (stopped (bf s)) eqn:S; [apply ctlk_refl|].
  split; try reflexivity; [kp| |exists []; rewrite app_nil_r; split; reflexivity|auto].
  exists [(GenLL.ll_control_pdu_code, b)]. split; reflexivity.
Qed.

Lemma ctlk_commit_att s : stopped (bf s) = false -> ctlk 1 s (commit s (GenLL.lld_data_pdu_code, att_mtu_response)).
Proof.
  intros S. unfold commit. rewrite S.
  split; try reflexivity; [kp| |exists []; rewrite app_nil_r; split; reflexivity|auto].
  exists [(GenLL.lld_data_pdu_code, att_mtu_response)]. split; reflexivity.
Qed.

Lemma ctlk_handle_reject c s o b : ctlk 0 s (handle_reject c s o b).
Proof.
  unfold handle_reject.
  destruct (negb (o =? GenLL.LL_UNKNOWN_RSP));
    (eapply ctlk_trans0; [|apply ctlk_push; reflexivity]);
    destruct (negb _ || _); try apply ctlk_refl;
    destruct (cpr_running _ && _); destruct (o =? GenLL.LL_UNKNOWN_RSP); ck0.
Qed.

(* ========================================================================================== which branch *)
Lemma ctrl_kind_b_inv phy enc v o z k :
  ctrl_kind_b phy enc v o z = k ->
  match k with
  | KUpdate => o = 0 /\ z = 12
  | KTerminate => o = 2 /\ z = 2
  | KChannelMap => o = 1 /\ z = 8
  | KPhyUpdate => phy = true /\ o = 24 /\ z = 5
  | KEncReq | KStartEncRsp | KPauseEncReq | KPauseEncRsp => enc = true
  | _ => True
  end.
Proof.
  unfold ctrl_kind_b.
  repeat match goal with |- context [if ?c then _ else _] => destruct c eqn:? end; intros <-; try exact I;
    repeat match goal with H : _ && _ = true |- _ => apply andb_prop in H; destruct H end;
    repeat match goal with H : (_ =? _) = true |- _ => apply N.eqb_eq in H end;
    unfold GenLL.LL_CONNECTION_UPDATE_IND, GenLL.LL_TERMINATE_IND, GenLL.LL_CHANNEL_MAP_REQ, GenLL.LL_PHY_UPDATE_IND in *;
    repeat split; try assumption; try reflexivity.
Qed.

(* everything but the deferred PDU, its instant and the disconnect reason is as before *)
Definition same_conn (s s' : lstate_t) : Prop :=
  st s' = st s /\ cs s' = cs s /\ tm s' = tm s /\ chan s' = chan s /\ bf s' = bf s /\ ring s' = ring s.

(* an indication with an instant: [accept_spec] with the frame *)
Lemma accept_full c s body pr inst :
  classify21 (c_phy c) (3, body) = Some (pr, inst) ->
  let r := handle_ll_control c s body in
  snd (fst r) = [] /\ same_conn s (fst (fst r)) /\
  (   (refused pr inst (evc (cs s)) = true /\ snd r = DoDisconnect /\ disc_reason (fst (fst r)) = 40)
   \/ (refused pr inst (evc (cs s)) = false /\ snd r = GoAhead /\ deferred (fst (fst r)) = Some body /\ def_instant (fst (fst r)) = inst)).
Proof.
  unfold classify21. cbn [N.eqb Pos.eqb negb].
  destruct ((N.of_nat (length body) =? 12) && (byte body 0 =? 0)) eqn:U.
  { intros H. inversion H; subst pr inst. clear H. apply andb_prop in U. destruct U as (U1 & U2).
    apply N.eqb_eq in U1. apply N.eqb_eq in U2.
    unfold handle_ll_control, refused. rewrite U1. cbn [N.ltb N.compare]. rewrite U2.
    replace (ctrl_kind c (ver_received (pr s)) 0 12) with KUpdate by reflexivity.
    unfold instant_passed_update. cbn zeta.
    destruct (instant_passed (rd16 body 10) (evc (cs s)) || (rd16 body 10 =? evc (cs s) + 1)); cbn [fst snd];
      (split; [reflexivity|]; split; [repeat split; reflexivity|]); [left|right]; repeat split; reflexivity. }
  destruct ((N.of_nat (length body) =? 8) && (byte body 0 =? 1)) eqn:M.
  { intros H. inversion H; subst pr inst. clear H. apply andb_prop in M. destruct M as (U1 & U2).
    apply N.eqb_eq in U1. apply N.eqb_eq in U2.
    unfold handle_ll_control, refused. rewrite U1. cbn [N.ltb N.compare]. rewrite U2.
    replace (ctrl_kind c (ver_received (pr s)) 1 8) with KChannelMap by (unfold ctrl_kind; destruct (ver_received (pr s)); reflexivity).
    unfold instant_passed_map. cbn zeta. rewrite orb_false_r.
    destruct (instant_passed (rd16 body 6) (evc (cs s))); cbn [fst snd];
      (split; [reflexivity|]; split; [repeat split; reflexivity|]); [left|right]; repeat split; reflexivity. }
  match goal with |- context [if ?x then _ else _] => destruct x eqn:P end; [|discriminate].
  intros H. inversion H; subst pr inst. clear H.
  repeat (apply andb_prop in P; destruct P as (P & ?)).
  apply N.eqb_eq in H2. apply N.eqb_eq in H3.
  unfold handle_ll_control, refused. rewrite H3. cbn [N.ltb N.compare]. rewrite H2.
  replace (ctrl_kind c (ver_received (LLModel.pr s)) 24 5) with KPhyUpdate
    by (unfold ctrl_kind; rewrite P; destruct (c_enc c); destruct (ver_received (LLModel.pr s)); reflexivity).
  unfold valid_phy_encoding. unfold phy_code_ok in H0, H1. rewrite H0, H1. cbn [andb]. rewrite orb_false_r.
  apply negb_true_iff in H. rewrite H. cbn zeta.
  destruct (instant_passed (rd16 body 3) (evc (cs s))); cbn [fst snd];
    (split; [reflexivity|]; split; [repeat split; reflexivity|]); [left|right]; repeat split; reflexivity.
Qed.

Lemma classify_not_terminate phy b pr inst : classify21 phy (3, b) = Some (pr, inst) -> is_terminate (3, b) = false.
Proof.
  unfold classify21, is_terminate. cbn [N.eqb Pos.eqb negb andb].
  destruct (N.of_nat (length b) =? 2) eqn:Z; [|reflexivity]. apply N.eqb_eq in Z. rewrite Z. cbn [N.eqb Pos.eqb andb].
  rewrite !andb_false_r. cbn. discriminate.
Qed.

Lemma terminate_kind c v body :
  is_terminate (3, body) = true ->
  ctrl_kind c v (if 0 <? N.of_nat (length body) then byte body 0 else 255) (N.of_nat (length body)) = KTerminate.
Proof.
  unfold is_terminate. cbn [N.eqb Pos.eqb andb]. intros H. apply andb_prop in H. destruct H as (H1 & H2).
  apply N.eqb_eq in H1. apply N.eqb_eq in H2. rewrite H1. cbn [N.ltb N.compare]. rewrite H2. reflexivity.
Qed.

Lemma ctlk_set_proc_timeout s v : ctlk 0 s (set_proc_timeout s v). Proof. ck0. Qed.
Lemma ctlk_clear_cpr s : ctlk 0 s (clear_cpr_feature s). Proof. ck0. Qed.
Lemma ctlk_upd_pr s f : ctlk 0 s (upd_pr s f). Proof. ck0. Qed.
Lemma ctlk_set_used s v : ctlk 0 s (set_used_features s v). Proof. ck0. Qed.

(* every other control PDU: terminate ends the link, the rest is answered (or ignored) and changes nothing of the connection *)
Lemma hlc_other c s body :
  c_enc c = false -> classify21 (c_phy c) (3, body) = None ->
  let r := handle_ll_control c s body in
  quiet_items (snd (fst r)) /\
  if is_terminate (3, body)
  then snd r = DoDisconnect /\ same_conn s (fst (fst r)) /\ deferred (fst (fst r)) = deferred s
  else snd r = GoAhead /\ ctlk 0 s (fst (fst r)).
Proof.
  intros Enc Cl. unfold handle_ll_control.
  pose proof (terminate_kind c (ver_received (pr s)) body) as TK.
  set (size := N.of_nat (length body)) in *.
  set (opcode := if 0 <? size then byte body 0 else 255) in *.
  destruct (ctrl_kind c (ver_received (pr s)) opcode size) eqn:K;
    pose proof (ctrl_kind_b_inv _ _ _ _ _ _ K) as KI; cbn beta iota in KI; cbn zeta;
    try (destruct (is_terminate (3, body)) eqn:T; [specialize (TK eq_refl); discriminate|clear TK]).
  - (* KUpdate: classified *)
    exfalso. destruct KI as (K1 & K2). unfold classify21 in Cl. fold size in Cl. rewrite K2 in Cl. subst opcode. rewrite K2 in K1.
    cbn [N.ltb N.compare] in K1. rewrite K1 in Cl. cbn in Cl. discriminate.
  - (* KTerminate *)
    destruct KI as (K1 & K2). unfold is_terminate. fold size. rewrite K2. subst opcode. rewrite K2 in K1. cbn [N.ltb N.compare] in K1. rewrite K1.
    cbn [N.eqb Pos.eqb andb fst snd]. split; [reflexivity|]. split; [reflexivity|]. split; [repeat split; reflexivity|reflexivity].
  - (* KVersion *)
    cbn [fst snd]. split; [reflexivity|]. split; [reflexivity|].
    eapply ctlk_trans0; [|apply ctlk_commit_ctrl]. eapply ctlk_trans0; [|apply ctlk_upd_pr].
    eapply ctlk_trans0; [|apply ctlk_push; reflexivity].
    destruct (_ <=? _); [eapply ctlk_trans0; [apply ctlk_set_proc_timeout|apply ctlk_clear_cpr]|apply ctlk_set_proc_timeout].
  - (* KChannelMap: classified *)
    exfalso. destruct KI as (K1 & K2). unfold classify21 in Cl. fold size in Cl. rewrite K2 in Cl. subst opcode. rewrite K2 in K1.
    cbn [N.ltb N.compare] in K1. rewrite K1 in Cl. cbn in Cl. discriminate.
  - (* KPing *) cbn [fst snd]. split; [reflexivity|]. split; [reflexivity|apply ctlk_commit_ctrl].
  - (* KFeature *) cbn [fst snd]. split; [reflexivity|]. split; [reflexivity|].
    eapply ctlk_trans0; [|apply ctlk_commit_ctrl]. eapply ctlk_trans0; [apply ctlk_set_used|apply ctlk_push; reflexivity].
  - cbn [fst snd]. split; [reflexivity|]. split; [reflexivity|apply ctlk_handle_reject].
  - cbn [fst snd]. split; [reflexivity|]. split; [reflexivity|apply ctlk_handle_reject].
  - cbn [fst snd]. split; [reflexivity|]. split; [reflexivity|apply ctlk_handle_reject].
  - (* KCpr *)
    assert (Q : quiet_items (snd (handle_cpr c s body))).
    { unfold handle_cpr. destruct (negb _); [reflexivity|]. destruct (c_cpr c); try reflexivity.
      - destruct (N.min _ _ <? N.max _ _); reflexivity.
      - destruct (_ && _); reflexivity. }
    destruct (handle_cpr c s body) as [rsp it]. cbn [fst snd] in *. split; [exact Q|]. split; [reflexivity|].
    destruct rsp; [apply ctlk_commit_ctrl|apply ctlk_refl].
  - congruence.
  - congruence.
  - congruence.
  - congruence.
  - (* KPhyReq *) cbn [fst snd]. split; [reflexivity|]. split; [reflexivity|apply ctlk_commit_ctrl].
  - (* KPhyUpdate, not classified: an encoding is invalid or nothing changes *)
    destruct KI as (K0 & K1 & K2).
    assert (B0 : opcode = byte body 0) by (subst opcode; rewrite K2; reflexivity).
    unfold classify21 in Cl. fold size in Cl. rewrite K2, K0 in Cl. rewrite <- B0, K1 in Cl. cbn [N.eqb Pos.eqb negb andb] in Cl.
    unfold valid_phy_encoding. unfold phy_code_ok in Cl.
    destruct (((byte body 1 =? 0) || (byte body 1 =? 1) || (byte body 1 =? 2)) && ((byte body 2 =? 0) || (byte body 2 =? 1) || (byte body 2 =? 2))) eqn:V.
    + cbn [andb] in Cl. destruct ((byte body 1 =? 0) && (byte body 2 =? 0)) eqn:Z; [|cbn in Cl; discriminate].
      cbn [fst snd]. split; [reflexivity|]. split; [reflexivity|apply ctlk_push; reflexivity].
    + cbn [fst snd]. split; [reflexivity|]. split; [reflexivity|apply ctlk_commit_ctrl].
  - (* KUnknown *) cbn [fst snd]. split; [reflexivity|]. split; [reflexivity|apply ctlk_commit_ctrl].
  - (* KIgnore *) cbn [fst snd]. split; [reflexivity|]. split; [reflexivity|apply ctlk_refl].
Qed.

(* ========================================================================================== the receive queue, both sides *)
(* what looking at the receive queue may do to the link layer's state *)
Record ctlq (k : nat) (s s' : lstate_t) : Prop := mk_ctlq {
  cq_st : st s' = st s; cq_cs : cs s' = cs s; cq_tm : tm s' = tm s; cq_chan : chan s' = chan s;
  cq_fl : fl (bf s') = fl (bf s); cq_stopped : stopped (bf s') = stopped (bf s); cq_txa : tx_avail (bf s') = tx_avail (bf s);
  cq_txq : exists l, txq (bf s') = txq (bf s) ++ l /\ att_of l = repeat att_mtu_response k;
  cq_ring : exists evs, ring s' = ring s ++ evs /\ forallb benign evs = true
}.

Lemma ctlq_refl s : ctlq 0 s s.
Proof. split; try reflexivity; exists []; rewrite app_nil_r; split; reflexivity. Qed.
Lemma ctlq_trans a b s s1 s2 : ctlq a s s1 -> ctlq b s1 s2 -> ctlq (a + b) s s2.
Proof.
  intros [A1 A2 A3 A4 A5 A6 A7 (l1 & A8 & A9) (e1 & A10 & A11)] [B1 B2 B3 B4 B5 B6 B7 (l2 & B8 & B9) (e2 & B10 & B11)].
  split; try congruence.
  - exists (l1 ++ l2). rewrite B8, A8, app_assoc, att_of_app, A9, B9, repeat_app. split; reflexivity.
  - exists (e1 ++ e2). rewrite B10, A10, app_assoc, forallb_app, A11, B11. split; reflexivity.
Qed.
Lemma ctlk_ctlq k s s' : ctlk k s s' -> ctlq k s s'.
Proof. intros [(K1 & K2 & K3 & K4 & K5 & K6 & K7) A2 A3 A4 A5 A6 _]. split; auto. Qed.
Lemma same_conn_ctlq s s' : same_conn s s' -> ctlq 0 s s'.
Proof.
  intros (A1 & A2 & A3 & A4 & A5 & A6). split; try congruence; [exists []|exists []]; rewrite app_nil_r; split; congruence || reflexivity.
Qed.
Lemma pop_ctlq s rest : ctlq 0 s (upd_bf s (fun b => set_rxq b rest)).
Proof. split; try reflexivity; exists []; rewrite app_nil_r; split; reflexivity. Qed.

Definition pend_rel (c : cfg) (s : lstate_t) (m : mon21) : Prop :=
  match q_pend m with
  | None => deferred s = None
  | Some (pr, inst) => exists b, deferred s = Some b /\ classify21 (c_phy c) (3, b) = Some (pr, inst) /\ def_instant s = inst /\ bytes_ok b
  end.

Record qrel (c : cfg) (s : lstate_t) (m : mon21) : Prop := mk_qrel {
  qr_rx : q_rx m = rxq (bf s);
  qr_txa : q_txa m = tx_avail (bf s);
  qr_n : q_n m = evc (cs s);
  qr_pend : pend_rel c s m
}.

(* the monitor's fields that looking at the queue does not touch *)
Definition msame (m m' : mon21) : Prop :=
  q_conn m' = q_conn m /\ q_stop m' = q_stop m /\ q_txa m' = q_txa m /\ q_n m' = q_n m /\ q_idx m' = q_idx m /\ q_iv m' = q_iv m
  /\ q_t m' = q_t m /\ q_map m' = q_map m /\ q_hop m' = q_hop m /\ q_applied m' = q_applied m.
Lemma msame_refl m : msame m m. Proof. repeat split. Qed.
Lemma msame_trans a b d : msame a b -> msame b d -> msame a d.
Proof. unfold msame. intuition congruence. Qed.

Lemma l2cap_reply_some body f : l2cap_reply body = L2Reply (Some f) -> f = att_mtu_response.
Proof.
  unfold l2cap_reply. destruct (_ <? 4); [discriminate|]. destruct (negb _); [discriminate|].
  destruct (_ && _); intros H; inversion H; reflexivity.
Qed.

Lemma hrd_sim c (Enc : c_enc c = false) : forall fuel s m,
  qrel c s m -> lstate_eqb (st s) Disconnecting = false -> stopped (bf s) = false -> evc (cs s) < 65536 -> pdus_ok (rxq (bf s)) ->
  let r := handle_received_data fuel c s in
  let s' := fst (fst r) in
  let pm := process21 fuel c m in
  let m' := fst pm in
  quiet_items (snd (fst r)) /\ msame m m' /\
  exists k, ctlq k s s' /\
  match snd pm with
  | QGo => (snd r = GoAhead /\ qrel c s' m' /\ q_owed m' = q_owed m + N.of_nat k)
           \/ (snd r = DoDisconnect /\ disc_reason s' = 40 /\ q_pend m = None /\ q_pend m' <> None)
  | QClosed => snd r = DoDisconnect
  | QPassed => snd r = DoDisconnect /\ disc_reason s' = 40
  | QStop => True
  end.
Proof.
  induction fuel as [|fuel IH]; intros s m Q Hst Hsp He Hrx; cbn [handle_received_data process21].
  { cbn [fst snd]. split; [reflexivity|]. split; [apply msame_refl|]. exists 0%nat. split; [apply ctlq_refl|]. left. rewrite N.add_0_r. auto. }
  destruct Q as [Q1 Q2 Q3 Q4]. unfold pend_rel in Q4.
  destruct (q_pend m) as [[pr0 inst0]|] eqn:QP.
  { pose proof Q4 as (b & D & _). rewrite D. cbn [fst snd]. split; [reflexivity|]. split; [apply msame_refl|].
    exists 0%nat. split; [apply ctlq_refl|]. left. rewrite N.add_0_r. split; [reflexivity|]. split; [|reflexivity].
    split; auto. unfold pend_rel. rewrite QP. exact Q4. }
  rewrite Q4. rewrite Q1. destruct (rxq (bf s)) as [|[llid body] rest] eqn:RX.
  { cbn [fst snd]. split; [reflexivity|]. split; [apply msame_refl|]. exists 0%nat. split; [apply ctlq_refl|]. left.
    rewrite N.add_0_r. split; [reflexivity|]. split; [|reflexivity]. (split; [congruence|congruence|congruence|unfold pend_rel; rewrite QP; exact Q4]). }
  assert (Hb : bytes_ok body /\ pdus_ok rest) by (inversion Hrx; auto). destruct Hb as (Hb & Hrest).
  change GenLL.ll_control_pdu_code with 3. change GenLL.lld_data_pdu_code with 2.
  unfold tx_buffer_available. rewrite <- Q2.
  destruct (llid =? 3) eqn:L3.
  - (* a control PDU *)
    apply N.eqb_eq in L3. subst llid.
    destruct (q_txa m) eqn:TA.
    2:{ cbn [negb fst snd]. split; [reflexivity|]. split; [apply msame_refl|]. exists 0%nat. split; [apply ctlq_refl|]. left.
        rewrite N.add_0_r. split; [reflexivity|]. split; [|reflexivity]. (split; [congruence|congruence|congruence|unfold pend_rel; rewrite QP; exact Q4]). }
    cbn [negb].
    destruct (classify21 (c_phy c) (3, body)) as [[pr inst]|] eqn:CL.
    + (* with an instant *)
      rewrite (classify_not_terminate _ _ _ _ CL).
      pose proof (accept_full c s body pr inst CL) as A. cbn zeta in A.
      destruct (handle_ll_control c s body) as [[s1 it1] r1]. cbn [fst snd] in A. destruct A as (A1 & A2 & A3). subst it1.
      pose proof (classify_instant_lt _ _ _ _ CL Hb) as Hi.
      assert (RS : refused pr inst (evc (cs s)) = negb (reachable inst (q_n m)) || match pr with PUpdate _ _ _ _ _ => inst =? evc (cs s) + 1 | _ => false end)
        by (rewrite Q3; apply refused_spec; assumption).
      assert (CQ : ctlq 0 s (upd_bf s1 (fun b => set_rxq b rest))).
      { replace 0%nat with (0 + 0)%nat by reflexivity. eapply ctlq_trans; [apply same_conn_ctlq; exact A2|apply pop_ctlq]. }
      destruct A3 as [(R1 & R2 & R3)|(R1 & R2 & R3 & R4)].
      * (* refused *)
        subst r1. cbn [fst snd].
        destruct (reachable inst (q_n m)) eqn:RE; cbn [fst snd].
        -- split; [reflexivity|]. split; [repeat split|]. exists 0%nat. split; [exact CQ|]. right.
           split; [reflexivity|]. split; [exact R3|]. split; [reflexivity|]. cbn [q_pend set_q_pend]. discriminate.
        -- split; [reflexivity|]. split; [repeat split|]. exists 0%nat. split; [exact CQ|]. split; [reflexivity|exact R3].
      * (* deferred *)
        subst r1. rewrite RS in R1. destruct (reachable inst (q_n m)) eqn:RE; [|cbn in R1; discriminate].
        assert (D2 : deferred (upd_bf s1 (fun b => set_rxq b rest)) = Some body) by exact R3.
        assert (HR : handle_received_data fuel c (upd_bf s1 (fun b => set_rxq b rest)) = ((upd_bf s1 (fun b => set_rxq b rest)), [], GoAhead)).
        { destruct fuel; cbn [handle_received_data]; [reflexivity|]. rewrite D2. reflexivity. }
        rewrite HR. cbn [fst snd app].
        split; [reflexivity|]. split; [repeat split|]. exists 0%nat. split; [exact CQ|]. left.
        split; [reflexivity|]. rewrite N.add_0_r. split; [|reflexivity].
        destruct A2 as (B1 & B2 & B3 & B4 & B5 & B6).
        split; cbn [q_rx q_txa q_n set_q_pend set_q_rx]; cbn [bf cs upd_bf set_bf rxq set_rxq tx_avail].
        -- reflexivity.
        -- rewrite B5. congruence.
        -- rewrite B2. congruence.
        -- unfold pend_rel. cbn [q_pend set_q_pend set_q_rx]. exists body. cbn [deferred def_instant upd_bf set_bf]. auto.
    + (* without *)
      pose proof (hlc_other c s body Enc CL) as O. cbn zeta in O.
      destruct (handle_ll_control c s body) as [[s1 it1] r1]. cbn [fst snd] in O. destruct O as (O1 & O2).
      destruct (is_terminate (3, body)) eqn:T.
      * destruct O2 as (O2 & O3 & O4). subst r1. cbn [fst snd].
        split; [exact O1|]. split; [repeat split|]. exists 0%nat. split; [|reflexivity].
        replace 0%nat with (0 + 0)%nat by reflexivity. eapply ctlq_trans; [apply same_conn_ctlq; exact O3|apply pop_ctlq].
      * destruct O2 as (O2 & O3). subst r1.
        pose proof O3 as [(K1 & K2 & K3 & K4 & K5 & K6 & K7) F1 F2 F3 F4 F5 _].
        assert (QR : qrel c (upd_bf s1 (fun b => set_rxq b rest)) (set_q_rx m rest)).
        { split; cbn [q_rx q_txa q_n set_q_rx bf cs upd_bf set_bf rxq set_rxq tx_avail]; try congruence.
          unfold pend_rel. cbn [q_pend set_q_rx]. rewrite QP. cbn [deferred upd_bf set_bf]. congruence. }
        specialize (IH (upd_bf s1 (fun b => set_rxq b rest)) (set_q_rx m rest) QR).
        assert (P1 : lstate_eqb (st (upd_bf s1 (fun b => set_rxq b rest))) Disconnecting = false) by (cbn [st upd_bf set_bf]; rewrite K1; exact Hst).
        assert (P2 : stopped (bf (upd_bf s1 (fun b => set_rxq b rest))) = false) by (cbn [bf upd_bf set_bf stopped set_rxq]; congruence).
        assert (P3 : evc (cs (upd_bf s1 (fun b => set_rxq b rest))) < 65536) by (cbn [cs upd_bf set_bf]; rewrite K2; exact He).
        assert (P4 : pdus_ok (rxq (bf (upd_bf s1 (fun b => set_rxq b rest))))) by (cbn [bf upd_bf set_bf rxq set_rxq]; exact Hrest).
        specialize (IH P1 P2 P3 P4). cbn zeta in IH.
        destruct (handle_received_data fuel c (upd_bf s1 (fun b => set_rxq b rest))) as [[s3 it3] r3].
        destruct (process21 fuel c (set_q_rx m rest)) as [m3 p3]. cbn [fst snd] in IH |- *.
        destruct IH as (I1 & I2 & k & I3 & I4).
        split; [apply quiet_app; assumption|]. split; [eapply msame_trans; [|exact I2]; repeat split|].
        exists k. split.
        { replace k with (0 + (0 + k))%nat by reflexivity. eapply ctlq_trans; [apply ctlk_ctlq; exact O3|].
          eapply ctlq_trans; [apply pop_ctlq|exact I3]. }
        destruct p3; auto; try exact I4.
        destruct I4 as [J|(J1 & J2 & J3 & J4)]; [left; exact J|right; split; [exact J1|]; split; [exact J2|]; split; [reflexivity|exact J4]].
  - destruct (llid =? 2) eqn:L2.
    + (* a data PDU *)
      rewrite Hst. cbn [negb andb]. rewrite Enc.
      destruct (l2cap_reply body) as [|rp] eqn:LR.
      * (* dropped *)
        assert (QR : qrel c (upd_bf s (fun b => set_rxq b rest)) (set_q_rx m rest)).
        { split; cbn [q_rx q_txa q_n set_q_rx bf cs upd_bf set_bf rxq set_rxq tx_avail]; try congruence.
          unfold pend_rel. cbn [q_pend set_q_rx]. rewrite QP. exact Q4. }
        specialize (IH (upd_bf s (fun b => set_rxq b rest)) (set_q_rx m rest) QR Hst Hsp He Hrest). cbn zeta in IH.
        destruct (handle_received_data fuel c (upd_bf s (fun b => set_rxq b rest))) as [[s3 it3] r3].
        destruct (process21 fuel c (set_q_rx m rest)) as [m3 p3]. cbn [fst snd] in IH |- *.
        destruct IH as (I1 & I2 & k & I3 & I4).
        split; [exact I1|]. split; [eapply msame_trans; [|exact I2]; repeat split|].
        exists k. split; [replace k with (0 + k)%nat by reflexivity; eapply ctlq_trans; [apply pop_ctlq|exact I3]|].
        destruct p3; auto; try exact I4.
        destruct I4 as [J|(J1 & J2 & J3 & J4)]; [left; exact J|right; split; [exact J1|]; split; [exact J2|]; split; [reflexivity|exact J4]].
      * destruct (q_txa m) eqn:TA.
        2:{ cbn [negb fst snd]. split; [reflexivity|]. split; [apply msame_refl|]. exists 0%nat. split; [apply ctlq_refl|]. left.
            rewrite N.add_0_r. split; [reflexivity|]. split; [|reflexivity]. (split; [congruence|congruence|congruence|unfold pend_rel; rewrite QP; exact Q4]). }
        cbn [negb].
        set (s1 := match rp with Some f => commit s (2, f) | None => s end).
        set (k1 := match rp with Some _ => 1%nat | None => 0%nat end).
        assert (C1 : ctlk k1 s s1).
        { subst s1 k1. destruct rp as [f|]; [|apply ctlk_refl]. rewrite (l2cap_reply_some body f LR). apply (ctlk_commit_att s Hsp). }
        pose proof C1 as [(K1 & K2 & K3 & K4 & K5 & K6 & K7) F1 F2 F3 F4 F5 _].
        set (m1 := set_q_owed (set_q_rx m rest) (q_owed m + match rp with Some _ => 1 | None => 0 end)).
        assert (QR : qrel c (upd_bf s1 (fun b => set_rxq b rest)) m1).
        { split; subst m1; cbn [q_rx q_txa q_n set_q_rx set_q_owed bf cs upd_bf set_bf rxq set_rxq tx_avail]; try congruence.
          unfold pend_rel. cbn [q_pend set_q_rx set_q_owed]. rewrite QP. cbn [deferred upd_bf set_bf]. congruence. }
        specialize (IH (upd_bf s1 (fun b => set_rxq b rest)) m1 QR).
        assert (P1 : lstate_eqb (st (upd_bf s1 (fun b => set_rxq b rest))) Disconnecting = false) by (cbn [st upd_bf set_bf]; rewrite K1; exact Hst).
        assert (P2 : stopped (bf (upd_bf s1 (fun b => set_rxq b rest))) = false) by (cbn [bf upd_bf set_bf stopped set_rxq]; congruence).
        assert (P3 : evc (cs (upd_bf s1 (fun b => set_rxq b rest))) < 65536) by (cbn [cs upd_bf set_bf]; rewrite K2; exact He).
        assert (P4 : pdus_ok (rxq (bf (upd_bf s1 (fun b => set_rxq b rest))))) by (cbn [bf upd_bf set_bf rxq set_rxq]; exact Hrest).
        specialize (IH P1 P2 P3 P4). cbn zeta in IH.
        destruct (handle_received_data fuel c (upd_bf s1 (fun b => set_rxq b rest))) as [[s3 it3] r3].
        destruct (process21 fuel c m1) as [m3 p3]. cbn [fst snd] in IH |- *.
        destruct IH as (I1 & I2 & k & I3 & I4).
        split; [exact I1|]. split; [eapply msame_trans; [|exact I2]; repeat split|].
        exists (k1 + k)%nat. split.
        { replace (k1 + k)%nat with (k1 + (0 + k))%nat by lia. eapply ctlq_trans; [apply ctlk_ctlq; exact C1|].
          eapply ctlq_trans; [apply pop_ctlq|exact I3]. }
        destruct p3; auto; try exact I4.
        destruct I4 as [(J1 & J2 & J3)|(J1 & J2 & J3 & J4)]; [left|right; split; [exact J1|]; split; [exact J2|]; split; [reflexivity|exact J4]].
        split; [exact J1|]. split; [exact J2|].
        rewrite J3. subst m1 k1. cbn [q_owed set_q_owed set_q_rx]. destruct rp; lia.
    + (* neither: nothing is looked at *)
      cbn [andb fst snd]. split; [reflexivity|]. split; [apply msame_refl|]. exists 0%nat. split; [apply ctlq_refl|exact I].
Qed.

(* ========================================================================================== exact results of the building blocks *)
(* ---- the channel map object *)
Lemma fill_length map used count hop : forall rem index channel t t',
  ChanMapModel.fill map used count hop rem index channel t = Some t' -> length t' = length t.
Proof.
  induction rem as [|rem IH]; intros index channel t t'; cbn [ChanMapModel.fill]; [intros H; inversion H; reflexivity|].
  destruct (ChanMapModel.in_map map channel) as [[|]|]; [| |discriminate].
  - unfold ChanMapModel.wr. destruct (index <? length t)%nat; [|discriminate]. intros H. apply IH in H. rewrite H. apply upd_length.
  - destruct (nth _ used None); [|discriminate]. unfold ChanMapModel.wr. destruct (index <? length t)%nat; [|discriminate].
    intros H. apply IH in H. rewrite H. apply upd_length.
Qed.

Lemma reset_length st map hop : length (ChanMapModel.tbl (fst (ChanMapModel.reset_impl st map hop))) = length (ChanMapModel.tbl st).
Proof.
  unfold ChanMapModel.reset_impl. destruct (_ || _); [reflexivity|].
  destruct (ChanMapModel.build_used _ _ _ _ _) as [[used count]|]; [|reflexivity].
  destruct (count <? 2)%nat; [reflexivity|].
  destruct (ChanMapModel.fill _ _ _ _ _ _ _ _) as [t|] eqn:F; [|reflexivity].
  cbn [fst ChanMapModel.tbl]. exact (fill_length _ _ _ _ _ _ _ _ _ F).
Qed.

(* ---- force_disconnect(), without encryption support *)
Definition fd_items (c : cfg) (s : lstate_t) : list item :=
  reset_phy c ++ [IAa advertising_access_address advertising_crc_init; IAdv GenLL.first_advertising_channel].
Definition fd_event (s : lstate_t) : cb_event :=
  match st s with Connecting => EvAttemptTimeout | _ => EvClosed (disc_reason s) end.

Lemma fd_exact c s : c_enc c = false ->
  force_disconnect c s = (set_adv_ch (set_deferred (set_st (push_event c s (fd_event s)) Advertising) None) GenLL.first_advertising_channel, fd_items c s).
Proof.
  intros Enc. unfold force_disconnect, reset_encryption. rewrite Enc.
  unfold start_advertising_impl, handle_start_advertising, fd_items, fd_event. cbn [app].
  destruct (st s); f_equal; f_equal;
    unfold push_event; destruct (c_cb c); try reflexivity; destruct (_ <? _); reflexivity.
Qed.

Lemma fd_items_views c s :
  find_ce21 (fd_items c s) = None /\ has_adv21 (fd_items c s) = true /\ changed21 (fd_items c s) = None
  /\ (forall r, has_closed21 (fd_items c s) r = false) /\ att_on_air (fd_items c s) = [] /\ cb_count (fd_items c s) = 0.
Proof. unfold fd_items, reset_phy. destruct (c_phy c); cbn; repeat (split || intro); reflexivity. Qed.

(* ---- send_control_pdus() outside the disconnecting state; transmit_pending_*_pdus() *)
Lemma send_control_noop s : lstate_eqb (st s) Disconnecting = false -> send_control_pdus s = s.
Proof. intros H. unfold send_control_pdus. rewrite H. reflexivity. Qed.

Lemma tpsp_noenc c s : c_enc c = false -> transmit_pending_security_pdus c s = (s, []).
Proof. intros Enc. unfold transmit_pending_security_pdus. rewrite Enc. reflexivity. Qed.

Lemma ctlk_tpcp c s : ctlk 0 s (transmit_pending_control_pdus c s).
Proof.
  unfold transmit_pending_control_pdus.
  repeat match goal with |- context [if ?b then _ else _] => destruct b end;
    try apply ctlk_refl; (eapply ctlk_trans0; [|apply ctlk_commit_ctrl]); ck0.
Qed.

(* ---- handle_pending_ll_control() + setup_next_connection_event(): state and items, case by case *)
Inductive pts_case (c : cfg) (s : lstate_t) : lstate_t -> list item -> Prop :=
| PtsPlain ws we :
    (deferred s = None \/ def_instant s <> evc (cs s)) ->
    pts_case c s (set_pending_event s true) [ICe (data_channel s) ws we (interval (tm s))]
| PtsMap b ws we :
    deferred s = Some b -> def_instant s = evc (cs s) -> byte b 0 = 1 ->
    let s1 := set_chan (after_apply c s) (fst (ChanMapModel.reset_impl (chan s) (slice b 1 5) (ChanMapModel.hop_ (chan s)))) in
    pts_case c s (set_pending_event s1 true) [ICe (data_channel s1) ws we (interval (tm s))]
| PtsUpdate b t ws we :
    deferred s = Some b -> def_instant s = evc (cs s) -> byte b 0 = 0 -> parse_update b = (t, Some true) ->
    let s1 := set_st (set_tm (set_proc_timeout (after_apply c s) 0) t) ConnChanged in
    let s2 := push_event c s1 (EvChanged (details_of s1)) in
    pts_case c s (set_pending_event s2 true) [ICe (data_channel s) ws we (interval t)]
| PtsRefused b t :
    deferred s = Some b -> def_instant s = evc (cs s) -> byte b 0 = 0 -> parse_update b = (t, Some false) ->
    let sx := set_tm (set_proc_timeout (after_apply c s) 0) t in
    pts_case c s (fst (force_disconnect c sx)) (snd (force_disconnect c sx))
| PtsPhy b ws we :
    deferred s = Some b -> def_instant s = evc (cs s) -> byte b 0 <> 1 -> byte b 0 <> 0 ->
    let s1 := push_event c (after_apply c s) (EvPhy (byte b 1) (byte b 2)) in
    pts_case c s (set_pending_event s1 true) [IPhy (byte b 1) (byte b 2); ICe (data_channel s) ws we (interval (tm s))].

Lemma data_channel_cs_chan s s' : ch_idx (cs s') = ch_idx (cs s) -> chan s' = chan s -> data_channel s' = data_channel s.
Proof. unfold data_channel. intros -> ->. reflexivity. Qed.

Lemma pts_exact c s s' it : pending_then_setup c s = Some (s', it) -> pts_case c s s' it.
Proof.
  intros H.
  destruct (deferred s) as [b|] eqn:D.
  2:{ destruct (pending_not_yet c s s' it H (or_introl D)) as [-> (ws & we & ->)]. apply PtsPlain. left. exact D. }
  destruct (N.eq_dec (def_instant s) (evc (cs s))) as [E|E].
  2:{ destruct (pending_not_yet c s s' it H (or_intror E)) as [-> (ws & we & ->)]. apply PtsPlain. right. exact E. }
  unfold pending_then_setup, handle_pending_ll_control in H. rewrite D in H.
  replace (def_instant s =? evc (cs s)) with true in H by lia.
  fold (after_apply c s) in H.
  change GenLL.LL_CHANNEL_MAP_REQ with 1 in H. change GenLL.LL_CONNECTION_UPDATE_IND with 0 in H.
  destruct (byte b 0 =? 1) eqn:O1.
  - apply N.eqb_eq in O1.
    change (chan (after_apply c s)) with (chan s) in H.
    destruct (ChanMapModel.reset_impl (chan s) (slice b 1 5) (ChanMapModel.hop_ (chan s))) as [ch o] eqn:R.
    cbn [obind] in H.
    destruct (setup_next_connection_event (set_chan (after_apply c s) ch)) as [[s2 it2]|] eqn:E2; cbn [obind] in H; [|discriminate].
    inversion H; subst s' it. clear H. cbn [app].
    destruct (setup_next_spec _ _ _ E2) as [-> (ws & we & ->)].
    pose proof (PtsMap c s b ws we D E O1) as P. cbn zeta in P. rewrite R in P. cbn [fst] in P. exact P.
  - apply N.eqb_neq in O1. destruct (byte b 0 =? 0) eqn:O2.
    + apply N.eqb_eq in O2. destruct (parse_update b) as [t ok] eqn:P.
      destruct ok as [[|]|]; cbn [obind] in H; [| |discriminate].
      * match type of H with context [push_event c ?x ?y] => set (s3 := push_event c x y) in H end.
        destruct (setup_next_connection_event s3) as [[s4 it4]|] eqn:E4; cbn [obind] in H; [|discriminate].
        inversion H; subst s' it. clear H. cbn [app].
        destruct (setup_next_spec _ _ _ E4) as [-> (ws & we & ->)].
        pose proof (PtsUpdate c s b t ws we D E O2 P) as Q. cbn zeta in Q. fold s3 in Q.
        assert (K : keep (set_st (set_tm (set_proc_timeout (after_apply c s) 0) t) ConnChanged) s3) by (subst s3; apply keep_push_event).
        destruct K as (_ & K2 & _ & _ & K5 & K6 & _).
        replace (data_channel s3) with (data_channel s).
        2:{ symmetry. apply data_channel_cs_chan; [rewrite K2|rewrite K6]; unfold after_apply; destruct (disarmable c); reflexivity. }
        replace (interval (tm s3)) with (interval t) by (rewrite K5; reflexivity).
        exact Q.
      * destruct (force_disconnect c (set_tm (set_proc_timeout (after_apply c s) 0) t)) as [s5 it5] eqn:F.
        inversion H; subst s' it. clear H. cbn [app].
        pose proof (PtsRefused c s b t D E O2 P) as Q. cbn zeta in Q. rewrite F in Q. exact Q.
    + apply N.eqb_neq in O2. cbn [obind] in H.
      match type of H with context [push_event c ?x ?y] => set (s3 := push_event c x y) in H end.
      destruct (setup_next_connection_event s3) as [[s4 it4]|] eqn:E4; cbn [obind] in H; [|discriminate].
      inversion H; subst s' it. clear H.
      destruct (setup_next_spec _ _ _ E4) as [-> (ws & we & ->)]. cbn [app].
      pose proof (PtsPhy c s b ws we D E O1 O2) as Q. cbn zeta in Q. fold s3 in Q.
      assert (K : keep (after_apply c s) s3) by (subst s3; apply keep_push_event).
      destruct K as (_ & K2 & _ & _ & K5 & K6 & _).
      replace (data_channel s3) with (data_channel s).
      2:{ symmetry. apply data_channel_cs_chan; [rewrite K2|rewrite K6]; unfold after_apply; destruct (disarmable c); reflexivity. }
      replace (interval (tm s3)) with (interval (tm s)) by (rewrite K5; unfold after_apply; destruct (disarmable c); reflexivity).
      exact Q.
Qed.

(* ========================================================================================== the monitor's planning step *)
Definition chan_rel (s : lstate_t) (m : mon21) : Prop :=
  length (ChanMapModel.tbl (chan s)) = 37%nat /\ ChanMapModel.hop_ (chan s) = q_hop m /\ ChanMapSpec.valid_hop (q_hop m) = true
  /\ ChanMapModel.tbl (chan s) = ChanMapSpec.csa1_table (q_map m) (N.to_nat (q_hop m)).

Lemma chan_channel s m : chan_rel s m -> ch_idx (cs s) < 37 ->
  data_channel s = csa1_channel (q_map m) (q_hop m) (ch_idx (cs s)).
Proof.
  intros (_ & _ & _ & T) H. unfold data_channel, csa1_channel. rewrite T. apply ChanMapProofs.csa1_table_nth. lia.
Qed.

Lemma fold_changed_benign : forall r o, forallb benign r = true ->
  fold_left (fun a e => match e with EvChanged d => Some d | _ => a end) r o = o.
Proof.
  induction r as [|e r IH]; intros o H; [reflexivity|]. cbn [forallb] in H. apply andb_prop in H. destruct H as (He & H).
  cbn [fold_left]. destruct e; try discriminate; apply IH; exact H.
Qed.
Lemma last_changed_benign r : forallb benign r = true -> last_changed r = None.
Proof. intros H. unfold last_changed. apply fold_changed_benign. exact H. Qed.
Lemma last_changed_snoc r d : last_changed (r ++ [EvChanged d]) = Some d.
Proof. unfold last_changed. rewrite fold_left_app. reflexivity. Qed.

(* the state relation the monitor's account has to the link layer's state, as far as planning goes *)
Record plan_rel (c : cfg) (s : lstate_t) (m : mon21) : Prop := mk_plan_rel {
  pl_n : q_n m = evc (cs s);
  pl_idx : q_idx m = ch_idx (cs s);
  pl_iv : q_iv m = interval (tm s);
  pl_chan : chan_rel s m;
  pl_pend : pend_rel c s m
}.

(* the monitor's fields that planning does not touch *)
Definition pframe (m m' : mon21) : Prop :=
  q_conn m' = q_conn m /\ q_stop m' = q_stop m /\ q_txa m' = q_txa m /\ q_rx m' = q_rx m /\ q_owed m' = q_owed m /\ q_hop m' = q_hop m.

Definition plan_post (c : cfg) (s8 : lstate_t) (m m' : mon21) (t' : N) : Prop :=
  (m' = stop21 m)
  \/ (plan_rel c s8 m' /\ pframe m m' /\ q_t m' = t' /\ (q_applied m' = true -> disarmable c = true -> last_lat (cs s8) = 1)).

Lemma dist_distance s m : def_instant s < 65536 -> q_n m = evc (cs s) -> distance (def_instant s) (q_n m) = dist s.
Proof. intros _ ->. reflexivity. Qed.

Lemma instant_iff e i l : e < 65536 -> i < 65536 -> 1 <= l -> l <= u16 (i + 65536 - e) -> (i = u16 (e + l) <-> l = u16 (i + 65536 - e)).
Proof. unfold u16. intros He Hi Hl Hd. split; intros H; nlia. Qed.

Ltac cl_split H :=
  unfold classify21 in H; cbn [N.eqb Pos.eqb negb] in H;
  destruct ((N.of_nat (length _) =? 12) && (byte _ 0 =? 0)) eqn:U in H;
  [|destruct ((N.of_nat (length _) =? 8) && (byte _ 0 =? 1)) eqn:M in H;
    [|match type of H with (if ?x then _ else _) = _ => destruct x eqn:P; [|discriminate] end]].

Lemma classify_cases b phy pr inst : classify21 phy (3, b) = Some (pr, inst) ->
  (byte b 0 = 0 /\ length b = 12%nat /\ pr = PUpdate (byte b 1) (rd16 b 2) (rd16 b 4) (rd16 b 6) (rd16 b 8))
  \/ (byte b 0 = 1 /\ length b = 8%nat /\ pr = PMap (slice b 1 5))
  \/ (byte b 0 = 24 /\ pr = PPhy (byte b 1) (byte b 2)).
Proof.
  intros H. unfold classify21 in H. cbn [N.eqb Pos.eqb negb] in H.
  destruct ((N.of_nat (length b) =? 12) && (byte b 0 =? 0)) eqn:U.
  { left. apply andb_prop in U. destruct U as (U1 & U2). apply N.eqb_eq in U1. apply N.eqb_eq in U2. inversion H. repeat split; auto; lia. }
  destruct ((N.of_nat (length b) =? 8) && (byte b 0 =? 1)) eqn:M.
  { right. left. apply andb_prop in M. destruct M as (U1 & U2). apply N.eqb_eq in U1. apply N.eqb_eq in U2. inversion H. repeat split; auto; lia. }
  match type of H with (if ?x then _ else _) = _ => destruct x eqn:P; [|discriminate] end.
  right. right. inversion H. split; [|reflexivity].
  repeat (apply andb_prop in P; destruct P as (P & ?)).
  match goal with H : (byte b 0 =? 24) = true |- _ => apply N.eqb_eq in H; exact H end.
Qed.

Lemma classify_map b phy pr inst : classify21 phy (3, b) = Some (pr, inst) -> byte b 0 = 1 ->
  pr = PMap (slice b 1 5) /\ length b = 8%nat.
Proof. intros H B. destruct (classify_cases _ _ _ _ H) as [(A & _)|[(A1 & A2 & A3)|(A & _)]]; [lia|auto|lia]. Qed.
Lemma classify_update b phy pr inst : classify21 phy (3, b) = Some (pr, inst) -> byte b 0 = 0 ->
  pr = PUpdate (byte b 1) (rd16 b 2) (rd16 b 4) (rd16 b 6) (rd16 b 8).
Proof. intros H B. destruct (classify_cases _ _ _ _ H) as [(A1 & A2 & A3)|[(A & _)|(A & _)]]; [auto|lia|lia]. Qed.
Lemma classify_phy b phy pr inst : classify21 phy (3, b) = Some (pr, inst) -> byte b 0 <> 1 -> byte b 0 <> 0 ->
  pr = PPhy (byte b 1) (byte b 2).
Proof. intros H B1 B0. destruct (classify_cases _ _ _ _ H) as [(A & _)|[(A & _)|(A1 & A2)]]; [lia|lia|auto]. Qed.

Lemma mod37_lt x : x mod 37 < 37. Proof. apply N.mod_lt. discriminate. Qed.

Lemma us_per_digits_1250 : GenLL.us_per_digits = 1250. Proof. reflexivity. Qed.

Lemma push_event_ring c s e :
  ring (push_event c s e) = if c_cb c && (N.of_nat (length (ring s)) <? GenLL.max_events) then ring s ++ [e] else ring s.
Proof. unfold push_event. destruct (c_cb c); [destruct (_ <? _)|]; reflexivity. Qed.

Lemma push_event_pushed c s e : (length (ring (push_event c s e)) < 4)%nat ->
  ring (push_event c s e) = if c_cb c then ring s ++ [e] else ring s.
Proof.
  rewrite push_event_ring. change GenLL.max_events with 4. destruct (c_cb c); cbn [andb]; [|reflexivity].
  destruct (N.of_nat (length (ring s)) <? 4) eqn:L; [reflexivity|]. intros H. lia.
Qed.

Lemma slice_1_5 (b : list N) : length b = 8%nat -> length (slice b 1 5) = 5%nat.
Proof. intros H. unfold slice. rewrite firstn_length, skipn_length, H. reflexivity. Qed.

Lemma parse_update_fields b t ok : parse_update b = (t, ok) ->
  interval t = rd16 b 4 * 1250 /\ latency t = rd16 b 6 /\ timeout_value t = rd16 b 8.
Proof. unfold parse_update. cbn zeta. intros H. inversion H. repeat split. Qed.

Lemma plan21_sound c m s5 l t ll s8 it8 it t' :
  pts_case c (set_cs s5 (mk_cstate ((ch_idx (cs s5) + l) mod 37) (u16 (evc (cs s5) + l)) t ll)) s8 it8 ->
  st s8 <> Advertising ->
  plan_rel c s5 m -> evc (cs s5) < 65536 -> 1 <= l -> l < 65536 ->
  (forall b, deferred s5 = Some b -> def_instant s5 < 65536 /\ l <= dist s5) ->
  forallb benign (ring s5) = true -> (length (ring s8) < 4)%nat ->
  find_ce21 it = find_ce21 it8 -> phys21 it = phys21 it8 -> changed21 it = last_changed (ring s8) ->
  forall ch ws we iv', find_ce21 it = Some (ch, ws, we, iv') ->
  match plan21 c m it l ch iv' t' with
  | (Ok, m') => plan_post c s8 m m' t'
  | (Bad k, _) => (k = 7 \/ 8 <= k)%nat
  end.
Proof.
  set (s7 := set_cs s5 _).
  intros Hp Hadv [R1 R2 R3 R4 R5] He Hl1 Hl2 Hpend Hben Hring V1 V2 V3 ch ws we iv' Hce.
  assert (N7 : (q_n m + l) mod 65536 = evc (cs s7)) by (rewrite R1; reflexivity).
  assert (I7 : (q_idx m + l) mod 37 = ch_idx (cs s7)) by (rewrite R2; reflexivity).
  assert (C7 : chan_rel s7 m) by exact R4.
  assert (CH7 : data_channel s7 = csa1_channel (q_map m) (q_hop m) ((q_idx m + l) mod 37)).
  { rewrite I7. apply chan_channel; [exact C7|]. subst s7. cbn [cs ch_idx set_cs]. apply mod37_lt. }
  rewrite V1 in Hce. unfold plan21. rewrite V2, V3.
  unfold pend_rel in R5.
  destruct Hp as [ws0 we0 Hn | b ws0 we0 D E B | b tt ws0 we0 D E B P | b tt D E B P | b ws0 we0 D E B1 B0].
  - (* nothing is applied *)
    cbn [find_ce21 fold_left] in Hce. inversion Hce; subst ch ws0 we0 iv'. clear Hce.
    cbn [ring set_pending_event phys21 flat_map app].
    replace (last_changed (ring s7)) with (@None details) by (symmetry; apply last_changed_benign; exact Hben).
    replace (interval (tm s5)) with (q_iv m) by (symmetry; exact R3).
    rewrite N.eqb_refl. cbn [negb orb]. rewrite CH7, N.eqb_refl.
    destruct (q_pend m) as [[pr inst]|] eqn:QP.
    + destruct R5 as (b & D & CL & DI & BO). destruct (Hpend b D) as (Hi & Hd).
      assert (DD : distance inst (q_n m) = dist s5) by (rewrite <- DI, R1; reflexivity).
      rewrite DD.
      destruct Hn as [Hn|Hn]; [change (deferred s7) with (deferred s5) in Hn; congruence|].
      assert (Hlt : l < dist s5).
      { destruct (N.eq_dec l (dist s5)) as [Q|Q]; [|lia]. exfalso. apply Hn.
        change (def_instant s7) with (def_instant s5). change (evc (cs s7)) with (u16 (evc (cs s5) + l)).
        apply instant_iff; auto. }
      replace (dist s5 <? l) with false by lia. replace (l <? dist s5) with true by lia.
      destruct pr; (right; split; [|split; [repeat split|split; [reflexivity|intros F; discriminate F]]];
        split; cbn [q_n q_idx q_iv q_pend planned21 set_pending_event cs tm]; auto;
        unfold pend_rel; cbn [q_pend planned21]; exists b; auto).
    + right. split; [|split; [repeat split|split; [reflexivity|intros F; discriminate F]]].
      split; cbn [q_n q_idx q_iv q_pend planned21 set_pending_event cs tm]; auto;
        try (unfold pend_rel; cbn [q_pend planned21]; exact R5).
  - (* channel map at its instant *)
    subst s1.
    change (deferred s7) with (deferred s5) in D. change (def_instant s7) with (def_instant s5) in E.
    change (evc (cs s7)) with (u16 (evc (cs s5) + l)) in E.
    destruct (q_pend m) as [[pr inst]|] eqn:QP; [|congruence].
    destruct R5 as (b' & D' & CL & DI & BO). assert (b' = b) by congruence. subst b'.
    destruct (Hpend b D) as (Hi & Hd).
    destruct (classify_map _ _ _ _ CL B) as (-> & Lb).
    assert (DD : distance inst (q_n m) = dist s5) by (rewrite <- DI, R1; reflexivity). rewrite DD.
    assert (Hle : l = dist s5) by (apply instant_iff; auto).
    replace (dist s5 <? l) with false by lia. replace (l <? dist s5) with false by lia.
    destruct (map_valid (slice b 1 5)) eqn:MV; cbn [negb]; [|left; reflexivity].
    change (chan s7) with (chan s5) in *.
    destruct R4 as (T1 & T2 & T3 & T4).
    pose proof (ChanMapProofs.reset_result (chan s5) (slice b 1 5) (ChanMapModel.hop_ (chan s5)) (slice_1_5 b Lb) T1) as RR.
    destruct (ChanMapModel.reset_impl (chan s5) (slice b 1 5) (ChanMapModel.hop_ (chan s5))) as [st' r'] eqn:RI.
    cbn [fst] in *. destruct RR as (_ & _ & RL & RH & RT).
    rewrite T2, T3 in RH, RT. unfold map_valid in MV. unfold ChanMapSpec.valid_map in RT. rewrite MV in RT. cbn [andb] in RT.
    cbn [find_ce21 fold_left] in Hce. inversion Hce; subst ch ws0 we0 iv'. clear Hce.
    cbn [ring set_pending_event set_chan phys21 flat_map app].
    replace (ring (after_apply c s7)) with (ring s5) by (unfold after_apply; destruct (disarmable c); reflexivity).
    rewrite (last_changed_benign _ Hben).
    replace (interval (tm s5)) with (q_iv m) by (symmetry; exact R3). rewrite N.eqb_refl. cbn [negb orb].
    assert (CH : data_channel (set_chan (after_apply c s7) st') = csa1_channel (slice b 1 5) (q_hop m) ((q_idx m + l) mod 37)).
    { unfold data_channel, csa1_channel. cbn [chan set_chan]. rewrite RT.
      replace (ch_idx (cs (set_chan (after_apply c s7) st'))) with ((q_idx m + l) mod 37)
        by (rewrite I7; unfold after_apply; destruct (disarmable c); reflexivity).
      apply ChanMapProofs.csa1_table_nth. pose proof (mod37_lt (q_idx m + l)). lia. }
    rewrite CH, N.eqb_refl.
    right. split; [|split; [repeat split|split; [reflexivity|]]].
    + split; cbn [q_n q_idx q_iv q_pend q_map q_hop planned21 set_pending_event set_chan cs tm chan].
      * rewrite N7. unfold after_apply. destruct (disarmable c); reflexivity.
      * rewrite I7. unfold after_apply. destruct (disarmable c); reflexivity.
      * rewrite R3. unfold after_apply. destruct (disarmable c); reflexivity.
      * unfold chan_rel. cbn [q_map q_hop planned21 chan set_pending_event set_chan]. auto.
      * unfold pend_rel. cbn [q_pend planned21 deferred set_pending_event set_chan]. unfold after_apply. destruct (disarmable c); reflexivity.
    + intros _ Hd'. cbn [cs set_pending_event set_chan]. unfold after_apply. rewrite Hd'. reflexivity.
  - (* connection update at its instant *)
    subst s2 s1.
    change (deferred s7) with (deferred s5) in D. change (def_instant s7) with (def_instant s5) in E.
    change (evc (cs s7)) with (u16 (evc (cs s5) + l)) in E.
    destruct (q_pend m) as [[pr inst]|] eqn:QP; [|congruence].
    destruct R5 as (b' & D' & CL & DI & BO). assert (b' = b) by congruence. subst b'.
    destruct (Hpend b D) as (Hi & Hd).
    rewrite (classify_update _ _ _ _ CL B).
    assert (DD : distance inst (q_n m) = dist s5) by (rewrite <- DI, R1; reflexivity). rewrite DD.
    assert (Hle : l = dist s5) by (apply instant_iff; auto).
    replace (dist s5 <? l) with false by lia. replace (l <? dist s5) with false by lia.
    destruct (update_valid (byte b 1) (rd16 b 2) (rd16 b 4) (rd16 b 6) (rd16 b 8)) eqn:UV; cbn [negb]; [|left; reflexivity].
    destruct (parse_update_fields b tt _ P) as (F1 & F2 & F3).
    cbn [find_ce21 fold_left] in Hce. inversion Hce; subst ch ws0 we0 iv'. clear Hce.
    cbn [ring set_pending_event phys21 flat_map app] in *.
    set (s1' := set_st (set_tm (set_proc_timeout (after_apply c s7) 0) tt) ConnChanged) in *.
    rewrite (push_event_pushed c s1' _ Hring).
    replace (ring s1') with (ring s5) by (subst s1'; unfold after_apply; destruct (disarmable c); reflexivity).
    assert (DET : same_details (details_of s1') (rd16 b 4) (rd16 b 6) (rd16 b 8) = true).
    { unfold same_details, details_of. subst s1'. cbn [d_interval d_latency d_timeout tm set_st set_tm].
      rewrite F1, F2, F3, us_per_digits_1250, N.div_mul by discriminate. rewrite !N.eqb_refl. reflexivity. }
    rewrite F1, N.eqb_refl. cbn [negb].
    rewrite CH7, N.eqb_refl.
    assert (POST : plan_post c (set_pending_event (push_event c s1' (EvChanged (details_of s1'))) true) m
                     (planned21 m ((q_n m + l) mod 65536) ((q_idx m + l) mod 37) (rd16 b 4 * 1250) t' (q_map m) None true) t').
    { right. split; [|split; [repeat split|split; [reflexivity|]]].
      - destruct (keep_push_event c s1' (EvChanged (details_of s1'))) as (K1 & K2 & K3 & K4 & K5 & K6 & K7).
        split; cbn [q_n q_idx q_iv q_pend q_map q_hop planned21 set_pending_event cs tm chan].
        + rewrite K2, N7. subst s1'. unfold after_apply. destruct (disarmable c); reflexivity.
        + rewrite K2, I7. subst s1'. unfold after_apply. destruct (disarmable c); reflexivity.
        + rewrite K5. subst s1'. cbn [tm set_st set_tm]. symmetry. exact F1.
        + unfold chan_rel. cbn [q_map q_hop planned21 chan set_pending_event]. rewrite K6.
          replace (chan s1') with (chan s5) by (subst s1'; unfold after_apply; destruct (disarmable c); reflexivity). exact R4.
        + unfold pend_rel. cbn [q_pend planned21 deferred set_pending_event]. rewrite K3. subst s1'. unfold after_apply. destruct (disarmable c); reflexivity.
      - intros _ Hd'. cbn [cs set_pending_event]. rewrite (proj1 (proj2 (keep_push_event c s1' (EvChanged (details_of s1'))))).
        subst s1'. unfold after_apply. rewrite Hd'. reflexivity. }
    destruct (c_cb c).
    + rewrite last_changed_snoc, DET. cbn [negb]. rewrite andb_false_r. exact POST.
    + rewrite (last_changed_benign _ Hben). cbn [negb]. rewrite andb_false_r. cbn [andb]. exact POST.
  - exfalso. apply Hadv. apply (proj1 (force_disconnect_frame c _)).
  - (* PHY update at its instant *)
    subst s1.
    change (deferred s7) with (deferred s5) in D. change (def_instant s7) with (def_instant s5) in E.
    change (evc (cs s7)) with (u16 (evc (cs s5) + l)) in E.
    destruct (q_pend m) as [[pr inst]|] eqn:QP; [|congruence].
    destruct R5 as (b' & D' & CL & DI & BO). assert (b' = b) by congruence. subst b'.
    destruct (Hpend b D) as (Hi & Hd).
    rewrite (classify_phy _ _ _ _ CL B1 B0).
    assert (DD : distance inst (q_n m) = dist s5) by (rewrite <- DI, R1; reflexivity). rewrite DD.
    assert (Hle : l = dist s5) by (apply instant_iff; auto).
    replace (dist s5 <? l) with false by lia. replace (l <? dist s5) with false by lia.
    cbn [find_ce21 fold_left] in Hce. inversion Hce; subst ch ws0 we0 iv'. clear Hce.
    cbn [ring set_pending_event phys21 flat_map app] in *.
    rewrite (push_event_pushed c (after_apply c s7) _ Hring).
    replace (ring (after_apply c s7)) with (ring s5) by (unfold after_apply; destruct (disarmable c); reflexivity).
    replace (last_changed (if c_cb c then ring s5 ++ [EvPhy (byte b 1) (byte b 2)] else ring s5)) with (@None details).
    2:{ symmetry. apply last_changed_benign. destruct (c_cb c); [rewrite forallb_app, Hben; reflexivity|exact Hben]. }
    replace (interval (tm s5)) with (q_iv m) by (symmetry; exact R3). rewrite N.eqb_refl. cbn [negb orb].
    rewrite CH7, !N.eqb_refl. cbn [negb andb].
    right. split; [|split; [repeat split|split; [reflexivity|]]].
    + destruct (keep_push_event c (after_apply c s7) (EvPhy (byte b 1) (byte b 2))) as (K1 & K2 & K3 & K4 & K5 & K6 & K7).
      split; cbn [q_n q_idx q_iv q_pend q_map q_hop planned21 set_pending_event cs tm chan].
      * rewrite K2, N7. unfold after_apply. destruct (disarmable c); reflexivity.
      * rewrite K2, I7. unfold after_apply. destruct (disarmable c); reflexivity.
      * rewrite K5, R3. unfold after_apply. destruct (disarmable c); reflexivity.
      * unfold chan_rel. cbn [q_map q_hop planned21 chan set_pending_event]. rewrite K6.
        replace (chan (after_apply c s7)) with (chan s5) by (unfold after_apply; destruct (disarmable c); reflexivity). exact R4.
      * unfold pend_rel. cbn [q_pend planned21 deferred set_pending_event]. rewrite K3. unfold after_apply. destruct (disarmable c); reflexivity.
    + intros _ Hd'. cbn [cs set_pending_event]. rewrite (proj1 (proj2 (keep_push_event c (after_apply c s7) (EvPhy (byte b 1) (byte b 2))))).
      unfold after_apply. rewrite Hd'. reflexivity.
Qed.

(* ========================================================================================== what every operation keeps *)
Definition gframe (s s' : lstate_t) : Prop :=
  tx_avail (bf s') = tx_avail (bf s) /\ length (ChanMapModel.tbl (chan s')) = length (ChanMapModel.tbl (chan s)).
Lemma gframe_refl s : gframe s s. Proof. split; reflexivity. Qed.
Lemma gframe_trans a b d : gframe a b -> gframe b d -> gframe a d.
Proof. intros (A1 & A2) (B1 & B2). split; congruence. Qed.
Lemma ctlk_gframe k s s' : ctlk k s s' -> gframe s s'.
Proof. intros [(K1 & K2 & K3 & K4 & K5 & K6 & K7) _ _ T _ _ _]. split; [exact T|rewrite K6; reflexivity]. Qed.
Lemma ctlq_gframe k s s' : ctlq k s s' -> gframe s s'.
Proof. intros [_ _ _ C _ _ T _ _]. split; [exact T|rewrite C; reflexivity]. Qed.

Lemma fd_general c s : c_enc c = false ->
  gframe s (fst (force_disconnect c s)) /\ in_connection (fst (force_disconnect c s)) = false
  /\ has_adv21 (snd (force_disconnect c s)) = true.
Proof.
  intros Enc. rewrite (fd_exact c s Enc). cbn [fst snd]. split; [|split; [reflexivity|exact (proj1 (proj2 (fd_items_views c s)))]].
  destruct (keep_push_event c s (fd_event s)) as (K1 & K2 & K3 & K4 & K5 & K6 & K7).
  split; cbn [bf chan set_deferred set_st set_adv_ch]; [|rewrite K6; reflexivity].
  unfold push_event. destruct (c_cb c); [destruct (_ <? _)|]; reflexivity.
Qed.

(* the receive queue, link layer only: the transmit buffer switch and the channel map object are not touched, nothing
   the monitor reads is emitted *)
Lemma hrd_general c (Enc : c_enc c = false) : forall fuel s,
  let r := handle_received_data fuel c s in
  gframe s (fst (fst r)) /\ st (fst (fst r)) = st s /\ quiet_items (snd (fst r)).
Proof.
  induction fuel as [|fuel IH]; intros s; cbn [handle_received_data].
  { cbn [fst snd]. split; [apply gframe_refl|]. split; reflexivity. }
  destruct (deferred s); [cbn [fst snd]; split; [apply gframe_refl|split; reflexivity]|].
  destruct (rxq (bf s)) as [|[llid body] rest]; [cbn [fst snd]; split; [apply gframe_refl|split; reflexivity]|].
  destruct (llid =? GenLL.ll_control_pdu_code).
  - destruct (tx_buffer_available s); [|cbn [fst snd]; split; [apply gframe_refl|split; reflexivity]].
    assert (H : let r := handle_ll_control c s body in gframe s (fst (fst r)) /\ st (fst (fst r)) = st s /\ quiet_items (snd (fst r))).
    { destruct (classify21 (c_phy c) (3, body)) as [[pr inst]|] eqn:CL.
      - destruct (accept_full c s body pr inst CL) as (A1 & (B1 & B2 & B3 & B4 & B5 & B6) & _). cbn zeta.
        split; [split; [rewrite B5|rewrite B4]; reflexivity|]. split; [exact B1|rewrite A1; reflexivity].
      - pose proof (hlc_other c s body Enc CL) as (O1 & O2). cbn zeta. destruct (is_terminate (3, body)).
        + destruct O2 as (_ & (B1 & B2 & B3 & B4 & B5 & B6) & _). split; [split; [rewrite B5|rewrite B4]; reflexivity|]. split; [exact B1|exact O1].
        + destruct O2 as (_ & O2). split; [exact (ctlk_gframe _ _ _ O2)|]. split; [exact (proj1 (ck_keep _ _ _ O2))|exact O1]. }
    cbn zeta in H. destruct (handle_ll_control c s body) as [[s1 it1] r1]. cbn [fst snd] in H. destruct H as (H1 & H2 & H3).
    set (s2 := upd_bf s1 (fun b => set_rxq b rest)).
    assert (G2 : gframe s s2 /\ st s2 = st s) by (split; [eapply gframe_trans; [exact H1|split; reflexivity]|exact H2]).
    destruct r1.
    + specialize (IH s2). cbn zeta in IH. destruct (handle_received_data fuel c s2) as [[s3 it3] r3]. cbn [fst snd] in *.
      destruct IH as (I1 & I2 & I3). destruct G2 as (G2 & G3).
      split; [eapply gframe_trans; eassumption|]. split; [congruence|apply quiet_app; assumption].
    + cbn [fst snd]. destruct G2 as (G2 & G3). auto.
  - destruct ((llid =? GenLL.lld_data_pdu_code) && _); [|cbn [fst snd]; split; [apply gframe_refl|split; reflexivity]].
    match goal with |- context [match ?x with L2Drop => _ | L2Reply _ => _ end] => destruct x as [|rp] end.
    + set (s2 := upd_bf s (fun b => set_rxq b rest)).
      specialize (IH s2). cbn zeta in IH. destruct (handle_received_data fuel c s2) as [[s3 it3] r3]. cbn [fst snd] in *.
      destruct IH as (I1 & I2 & I3). split; [eapply gframe_trans; [split; reflexivity|exact I1]|]. split; [exact I2|exact I3].
    + destruct (tx_buffer_available s); [|cbn [fst snd]; split; [apply gframe_refl|split; reflexivity]].
      set (s1 := match rp with Some f => commit s (GenLL.lld_data_pdu_code, f) | None => s end).
      assert (K1 : keep s s1 /\ tx_avail (bf s1) = tx_avail (bf s)).
      { subst s1. destruct rp; [|split; [apply keep_refl|reflexivity]]. split; [apply keep_commit|].
        unfold commit. destruct (stopped (bf s)); reflexivity. }
      set (s2 := upd_bf s1 (fun b => set_rxq b rest)).
      specialize (IH s2). cbn zeta in IH. destruct (handle_received_data fuel c s2) as [[s3 it3] r3]. cbn [fst snd] in *.
      destruct IH as (I1 & I2 & I3). destruct K1 as ((A1 & A2 & A3 & A4 & A5 & A6 & A7) & A8).
      assert (G2 : gframe s s2) by (subst s2; split; cbn [bf chan upd_bf set_bf tx_avail set_rxq]; [exact A8|rewrite A6; reflexivity]).
      split; [eapply gframe_trans; [exact G2|exact I1]|].
      split; [rewrite I2; subst s2; exact A1|exact I3].
Qed.

Lemma send_control_general s : gframe s (send_control_pdus s) /\ st (send_control_pdus s) = st s.
Proof.
  unfold send_control_pdus. destruct (_ && _ && _); [|split; [apply gframe_refl|reflexivity]].
  pose proof (ctlk_commit_ctrl s [GenLL.LL_TERMINATE_IND; disc_reason s]) as C.
  destruct (ctlk_gframe _ _ _ C) as (G1 & G2). destruct (ck_keep _ _ _ C) as (K1 & _).
  split; [split; cbn [bf chan set_term_sent upd_bf set_bf tx_avail set_stopped]; assumption|exact K1].
Qed.

Lemma after_apply_frame c s :
  st (after_apply c s) = st s /\ tm (after_apply c s) = tm s /\ chan (after_apply c s) = chan s /\ bf (after_apply c s) = bf s
  /\ ring (after_apply c s) = ring s /\ deferred (after_apply c s) = None.
Proof. unfold after_apply. destruct (disarmable c); repeat split; reflexivity. Qed.

(* the instant step, link layer only *)
Lemma pts_general c s s' it : c_enc c = false -> in_connection s = true -> pts_case c s s' it ->
  gframe s s' /\ has_adv21 it = negb (in_connection s').
Proof.
  intros Enc C [ws we Hn | b ws we D E B | b t ws we D E B P | b t D E B P | b ws we D E B1 B0].
  - split; [split; reflexivity|]. change (in_connection (set_pending_event s true)) with (in_connection s). rewrite C. reflexivity.
  - subst s1. destruct (after_apply_frame c s) as (A1 & A2 & A3 & A4 & A5 & A6).
    split; [split; cbn [bf chan set_pending_event set_chan]; [rewrite A4; reflexivity|apply reset_length]|].
    unfold in_connection. cbn [st set_pending_event set_chan]. rewrite A1. fold (in_connection s). rewrite C. reflexivity.
  - subst s2 s1. destruct (after_apply_frame c s) as (A1 & A2 & A3 & A4 & A5 & A6).
    match goal with |- context [push_event c ?x ?e] => destruct (keep_push_event c x e) as (K1 & K2 & K3 & K4 & K5 & K6 & K7);
      assert (T : tx_avail (bf (push_event c x e)) = tx_avail (bf x)) by (unfold push_event; destruct (c_cb c); [destruct (_ <? _)|]; reflexivity) end.
    split; [split; cbn [bf chan set_pending_event]; [rewrite T; cbn [bf set_st set_tm set_proc_timeout]; rewrite A4; reflexivity|
                                                     rewrite K6; cbn [chan set_st set_tm set_proc_timeout]; rewrite A3; reflexivity]|].
    unfold in_connection. cbn [st set_pending_event]. rewrite K1. reflexivity.
  - subst sx. destruct (after_apply_frame c s) as (A1 & A2 & A3 & A4 & A5 & A6).
    destruct (fd_general c (set_tm (set_proc_timeout (after_apply c s) 0) t) Enc) as ((G1 & G2) & G3 & G4).
    split; [split; [rewrite G1; cbn [bf set_tm set_proc_timeout]; rewrite A4; reflexivity|rewrite G2; cbn [chan set_tm set_proc_timeout]; rewrite A3; reflexivity]|].
    rewrite G3, G4. reflexivity.
  - subst s1. destruct (after_apply_frame c s) as (A1 & A2 & A3 & A4 & A5 & A6).
    match goal with |- context [push_event c ?x ?e] => destruct (keep_push_event c x e) as (K1 & K2 & K3 & K4 & K5 & K6 & K7);
      assert (T : tx_avail (bf (push_event c x e)) = tx_avail (bf x)) by (unfold push_event; destruct (c_cb c); [destruct (_ <? _)|]; reflexivity) end.
    split; [split; cbn [bf chan set_pending_event]; [rewrite T, A4; reflexivity|rewrite K6, A3; reflexivity]|].
    unfold in_connection. cbn [st set_pending_event]. rewrite K1, A1. fold (in_connection s). rewrite C. reflexivity.
Qed.

Lemma plan_frame c s e s' : plan_next_connection_event c s e = Some s' -> exists k, s' = set_cs s k.
Proof.
  unfold plan_next_connection_event. intros H.
  destruct (dt_mul _ _) as [t|]; cbn [obind] in H; [|discriminate].
  destruct (disarmable c && _); [discriminate|]. inversion H. eexists; reflexivity.
Qed.

Lemma continue_general c s evts s8 it8 : c_enc c = false -> in_connection s = true ->
  end_event_continue c s evts = Some (s8, it8) ->
  gframe s s8 /\ has_adv21 it8 = negb (in_connection s8).
Proof.
  intros Enc C H. unfold end_event_continue in H.
  destruct (procedure_timed_out s).
  { unfold force_disconnect_reason in H. inversion H as [H1].
    destruct (fd_general c (set_disc_reason s GenLL.connection_ll_response_timeout) Enc) as (G & G3 & G4).
    rewrite H1 in *. cbn [fst snd] in *. split; [exact G|rewrite G3, G4; reflexivity]. }
  set (s5 := if negb (proc_timeout s =? 0) then _ else s) in H.
  assert (K5 : gframe s s5 /\ in_connection s5 = true) by (subst s5; destruct (negb _); split; try exact C; split; reflexivity).
  rewrite (tpsp_noenc c s5 Enc) in H.
  match type of H with context [plan_next_connection_event c s5 ?e] => destruct (plan_next_connection_event c s5 e) as [s7|] eqn:E7 end;
    cbn [obind] in H; [|discriminate].
  destruct (pending_then_setup c s7) as [[s8' it8']|] eqn:E8; cbn [obind] in H; [|discriminate].
  inversion H; subst s8' it8. clear H. cbn [app].
  destruct (plan_frame c s5 _ s7 E7) as (k & ->).
  destruct K5 as (K5 & C5).
  destruct (pts_general c (set_cs s5 k) s8 it8' Enc C5 (pts_exact c _ s8 it8' E8)) as (G & A).
  split; [eapply gframe_trans; [exact K5|eapply gframe_trans; [|exact G]; split; reflexivity]|exact A].
Qed.

Lemma in_connection_true_st s : in_connection s = true -> st s <> Advertising /\ st s <> Initial.
Proof. unfold in_connection. destruct (st s); intros H; split; discriminate. Qed.

(* end_event(), link layer only: advertising is restarted exactly when the connection ends; callbacks are delivered *)
Lemma end_event_general c s evts s' it : c_enc c = false -> in_connection s = true ->
  do_end_event c s evts = Some (s', it) ->
  gframe s s' /\ ring s' = [] /\ has_adv21 it = negb (in_connection s').
Proof.
  intros Enc C H. unfold do_end_event in H.
  destruct (end_event_body c (end_event_prologue c s) evts) as [[s9 it9]|] eqn:B; cbn [obind] in H; [|discriminate].
  assert (E' : s' = fst (end_event_epilogue c s9 it9) /\ it = snd (end_event_epilogue c s9 it9)) by (inversion H; split; reflexivity).
  destruct E' as (-> & ->). clear H.
  assert (EP : exists s10, ctlk 0 s9 s10 /\ end_event_epilogue c s9 it9 = (set_ring s10 [], it9 ++ cb_items (ring s10))).
  { unfold end_event_epilogue. eexists. split; [|unfold flush_events; reflexivity].
    destruct (st s9); try apply ctlk_refl; apply ctlk_tpcp. }
  destruct EP as (s10 & K & ->). cbn [fst snd].
  assert (BG : gframe (end_event_prologue c s) s9 /\ has_adv21 it9 = negb (in_connection s9)).
  { destruct (prologue_frame c s C) as (P1 & _).
    set (sP := end_event_prologue c s) in *. clearbody sP. unfold end_event_body in B.
    destruct (lstate_eqb (st sP) Disconnecting && term_sent sP && negb (pending_outgoing_data_available sP)).
    { inversion B as [B']. destruct (fd_general c sP Enc) as (G & G3 & G4). rewrite B' in *. cbn [fst snd] in *.
      split; [exact G|rewrite G3, G4; reflexivity]. }
    pose proof (hrd_general c Enc (S (length (rxq (bf sP)))) sP) as R. cbn zeta in R.
    destruct (handle_received_data (S (length (rxq (bf sP)))) c sP) as [[s3 it3] res]. cbn [fst snd] in R.
    destruct R as (R1 & R2 & R3). destruct (quiet_views it3 R3) as (_ & _ & QA & _).
    destruct res.
    - destruct (end_event_continue c (send_control_pdus s3) evts) as [[s8 it8]|] eqn:E; cbn [obind] in B; [|discriminate].
      inversion B; subst s9 it9. clear B.
      destruct (send_control_general s3) as (S1 & S2).
      assert (C4 : in_connection (send_control_pdus s3) = true) by (rewrite (in_connection_st s3 _ S2), (in_connection_st sP s3 R2); exact P1).
      destruct (continue_general c _ evts s8 it8 Enc C4 E) as (G & A).
      split; [eapply gframe_trans; [exact R1|eapply gframe_trans; [exact S1|exact G]]|].
      rewrite has_adv21_app, QA. exact A.
    - destruct (force_disconnect c s3) as [s4 it4] eqn:F. inversion B; subst s9 it9. clear B.
      destruct (fd_general c s3 Enc) as (G & G3 & G4). rewrite F in *. cbn [fst snd] in *.
      split; [eapply gframe_trans; [exact R1|exact G]|]. rewrite has_adv21_app, QA, G3, G4. reflexivity. }
  destruct BG as (BG & BA).
  assert (PG : gframe s (end_event_prologue c s)).
  { destruct (prologue_frame c s C) as (_ & _ & _ & _ & _ & _ & P7). split; [|rewrite P7; reflexivity].
    unfold end_event_prologue. set (x := match st (set_pending_event s false) with Connecting => _ | _ => _ end).
    assert (T : tx_avail (bf x) = tx_avail (bf s)).
    { subst x. destruct (st (set_pending_event s false)); try reflexivity. unfold push_event. destruct (c_cb c); [destruct (_ <? _)|]; reflexivity. }
    destruct (lstate_eqb (st x) Disconnecting); [exact T|]. cbn [bf upd_tm set_tm set_st]. exact T. }
  destruct (ctlk_gframe _ _ _ K) as (G1 & G2). destruct (ck_keep _ _ _ K) as (K1 & _).
  split; [|split; [reflexivity|]].
  - eapply gframe_trans; [exact PG|]. eapply gframe_trans; [exact BG|]. split; cbn [bf chan set_ring]; assumption.
  - destruct (cb_views (ring s10)) as (_ & _ & CA & _). rewrite has_adv21_app, CA, orb_false_r, BA.
    unfold in_connection. cbn [st set_ring]. rewrite K1. reflexivity.
Qed.

(* ========================================================================================== timeout(), link layer only *)
Lemma timeout_general c s s' it : c_enc c = false -> in_connection s = true ->
  do_timeout c s = Some (s', it) ->
  gframe s s' /\ ring s' = [] /\ has_adv21 it = negb (in_connection s').
Proof.
  intros Enc C H. unfold do_timeout in H.
  set (s0 := set_pending_event s false) in H.
  assert (G0 : gframe s s0 /\ in_connection s0 = true) by (subst s0; split; [split; reflexivity|exact C]).
  destruct G0 as (G0 & C0). clearbody s0.
  match type of H with (do r <- ?x; _) = _ => destruct x as [[s2 it2]|] eqn:B end; cbn [obind] in H; [|discriminate].
  unfold flush_events in H. inversion H; subst s' it. clear H.
  assert (BG : gframe s0 s2 /\ has_adv21 it2 = negb (in_connection s2)).
  { destruct (lstate_eqb (st s0) Disconnecting && term_sent s0 && negb (pending_outgoing_data_available s0)).
    { inversion B as [B']. destruct (fd_general c s0 Enc) as (G & G3 & G4). rewrite B' in *. cbn [fst snd] in *. split; [exact G|rewrite G3, G4; reflexivity]. }
    destruct (negb (proc_timeout s0 =? 0) && (proc_timeout s0 <=? tsle (cs s0))).
    { inversion B as [B']. unfold force_disconnect_reason in B'.
      destruct (fd_general c (set_disc_reason s0 GenLL.connection_ll_response_timeout) Enc) as (G & G3 & G4). rewrite B' in *. cbn [fst snd] in *.
      split; [exact G|rewrite G3, G4; reflexivity]. }
    destruct (dt_mul _ _) as [five|]; cbn [obind] in B; [|discriminate].
    destruct ((tsle (cs s0) <? conn_timeout (tm s0)) && _).
    2:{ inversion B as [B']. destruct (fd_general c s0 Enc) as (G & G3 & G4). rewrite B' in *. cbn [fst snd] in *. split; [exact G|rewrite G3, G4; reflexivity]. }
    destruct (plan_after_timeout s0) as [s1|] eqn:E1; cbn [obind] in B; [|discriminate].
    unfold plan_after_timeout in E1. destruct (dt_add _ _) as [t|]; cbn [obind] in E1; [|discriminate]. inversion E1 as [E1']. subst s1.
    match type of B with pending_then_setup c ?x = _ => destruct (pts_general c x s2 it2 Enc C0 (pts_exact c x s2 it2 B)) as (G & A) end.
    split; [eapply gframe_trans; [|exact G]; split; reflexivity|exact A]. }
  destruct BG as (BG & BA).
  split; [eapply gframe_trans; [exact G0|eapply gframe_trans; [exact BG|split; reflexivity]]|]. split; [reflexivity|].
  destruct (cb_views (ring s2)) as (_ & _ & CA & _). fold (cb_items (ring s2)). rewrite has_adv21_app, CA, orb_false_r, BA. reflexivity.
Qed.

Lemma bf_push_event' c s e : bf (push_event c s e) = bf s.
Proof. unfold push_event. destruct (c_cb c); [destruct (_ <? _)|]; reflexivity. Qed.

(* ========================================================================================== adv_received(), link layer only *)
Lemma slice_28_5 (b : list N) : length b = 34%nat -> length (slice b 28 5) = 5%nat.
Proof. intros H. unfold slice. rewrite firstn_length, skipn_length, H. reflexivity. Qed.

Lemma connect_items_views a b ch ws we iv r :
  find_ce21 (IAa a b :: ICe ch ws we iv :: map ICb r) = Some (ch, ws, we, iv)
  /\ has_adv21 (IAa a b :: ICe ch ws we iv :: map ICb r) = false.
Proof.
  change (IAa a b :: ICe ch ws we iv :: map ICb r) with ([IAa a b; ICe ch ws we iv] ++ cb_items r).
  destruct (cb_views r) as (C1 & _ & C3 & _). rewrite find_ce21_app, has_adv21_app, C1, C3. split; reflexivity.
Qed.

Definition connected_by (c : cfg) (s : lstate_t) (body : list N) (s' : lstate_t) (it : list item) : Prop :=
  exists t ws we,
    length body = 34%nat /\ parse_connect body = (t, Some true)
    /\ st s' = Connecting /\ cs s' = mk_cstate 0 0 0 1 /\ deferred s' = deferred s /\ tm s' = t
    /\ bf s' = mk_bufs [] [] FNone false (tx_avail (bf s)) /\ ring s' = []
    /\ ChanMapModel.reset_impl (chan s) (slice body 28 5) (N.land (byte body 33) 31) = (chan s', ChanMapModel.OBool true)
    /\ find_ce21 it = Some (data_channel s', ws, we, interval t) /\ has_adv21 it = false.

Lemma adv_exact c s hdr0 body :
  match do_adv_received c s hdr0 body with
  | Some (s', it) =>
      connected_by c s body s' it
      \/ (st s' = st s /\ cs s' = cs s /\ deferred s' = deferred s /\ bf s' = bf s /\ ring s' = ring s /\ find_ce21 it = None
          /\ length (ChanMapModel.tbl (chan s')) = length (ChanMapModel.tbl (chan s)))
  | None => True
  end.
Proof.
  unfold do_adv_received.
  destruct (valid_connect_request c hdr0 body) eqn:V; [|cbn; right; repeat split; reflexivity].
  assert (L : length body = 34%nat).
  { unfold valid_connect_request in V. repeat (apply andb_prop in V; destruct V as (V & ?)). apply N.eqb_eq in V. lia. }
  pose proof (reset_length (chan s) (slice body 28 5) (N.land (byte body 33) 31)) as RL.
  destruct (ChanMapModel.reset_impl _ _ _) as [ch r] eqn:RI. cbn [fst] in RL.
  destruct r as [[|]| | | |]; try exact I; [|cbn; right; repeat split; try reflexivity; exact RL].
  destruct (parse_connect body) as [t ok] eqn:P.
  destruct ok as [[|]|]; try exact I; [|cbn; right; repeat split; try reflexivity; exact RL].
  cbn zeta.
  match goal with |- context [setup_next_connection_event ?x] => generalize (setup_next_spec x); destruct (setup_next_connection_event x) as [[s11 it11]|] end;
    cbn [obind]; [|intros _; exact I].
  intros G. destruct (G s11 it11 eq_refl) as [-> (ws & we & ->)]. clear G.
  unfold flush_events. left. exists t, ws, we.
  match goal with |- context [set_ring (push_event c ?x ?e) []] => pose proof (keep_push_event c x e) as K; pose proof (bf_push_event' c x e) as T end.
  destruct K as (K1 & K2 & K3 & K4 & K5 & K6 & K7).
  split; [exact L|]. split; [exact P|].
  cbn [st cs deferred bf tm ring chan set_ring]. rewrite K1, K2, K3, K5, K6, T.
  split; [vm_compute; reflexivity|]. split; [vm_compute; reflexivity|]. split; [vm_compute; reflexivity|]. split; [vm_compute; reflexivity|].
  split; [vm_compute; reflexivity|]. split; [reflexivity|]. split; [rewrite RI; apply f_equal2; [vm_compute; reflexivity|reflexivity]|].
  cbn [app].
  match goal with |- find_ce21 (IAa ?a ?b :: ICe ?ch ?ws ?we ?iv :: map ICb ?r) = _ /\ _ =>
    destruct (connect_items_views a b ch ws we iv r) as (F1 & F2) end.
  split; [rewrite F1|exact F2].
  unfold data_channel. cbn [cs chan set_ring]. rewrite K2, K6. vm_compute. reflexivity.
Qed.

(* ========================================================================================== end_event() of a judged connection *)
Lemma prologue_live c s :
  lstate_eqb (st s) Disconnecting = false -> in_connection s = true -> ring s = [] ->
  let sP := end_event_prologue c s in
  st sP = Connected /\ cs sP = cs s /\ deferred sP = deferred s /\ def_instant sP = def_instant s /\ chan sP = chan s
  /\ bf sP = bf s /\ interval (tm sP) = interval (tm s) /\ latency (tm sP) = latency (tm s)
  /\ forallb benign (ring sP) = true.
Proof.
  intros Hd C R. unfold end_event_prologue.
  set (s0 := set_pending_event s false).
  set (s1 := match st s0 with Connecting => _ | _ => s0 end).
  assert (K : keep s s1 /\ bf s1 = bf s /\ forallb benign (ring s1) = true).
  { subst s1. change (st s0) with (st s). destruct (st s) eqn:S; try (split; [subst s0; kp|split; [reflexivity|subst s0; cbn [ring set_pending_event]; rewrite R; reflexivity]]).
    split; [apply keep_trans with s0; [subst s0; kp|apply keep_push_event]|]. split; [rewrite bf_push_event'; reflexivity|].
    rewrite push_event_ring. subst s0. cbn [ring set_pending_event]. rewrite R. destruct (_ && _); reflexivity. }
  destruct K as ((K1 & K2 & K3 & K4 & K5 & K6 & K7) & K8 & K9). clearbody s1.
  rewrite K1, Hd. cbn [st cs deferred def_instant chan bf tm ring upd_tm set_tm set_st interval latency set_tw_size].
  rewrite K2, K3, K4, K5, K6, K8. repeat split; auto.
Qed.

Lemma pts_live c s7 s8 it8 : c_enc c = false -> pts_case c s7 s8 it8 ->
  in_connection s8 = false
  \/ ((st s8 = st s7 \/ st s8 = ConnChanged) /\ bf s8 = bf s7).
Proof.
  intros Enc [ws we Hn | b ws we D E B | b t ws we D E B P | b t D E B P | b ws we D E B1 B0].
  - right. split; [left; reflexivity|reflexivity].
  - subst s1. destruct (after_apply_frame c s7) as (A1 & A2 & A3 & A4 & A5 & A6). right.
    cbn [st bf set_pending_event set_chan]. rewrite A1, A4. auto.
  - subst s2 s1. destruct (after_apply_frame c s7) as (A1 & A2 & A3 & A4 & A5 & A6). right.
    cbn [st bf set_pending_event]. rewrite bf_push_event'.
    match goal with |- context [push_event c ?x ?e] => rewrite (proj1 (keep_push_event c x e)) end.
    cbn [st bf set_st set_tm set_proc_timeout]. rewrite A4. auto.
  - left. subst sx. exact (proj1 (proj2 (fd_general c _ Enc))).
  - subst s1. destruct (after_apply_frame c s7) as (A1 & A2 & A3 & A4 & A5 & A6). right.
    cbn [st bf set_pending_event]. rewrite bf_push_event'.
    match goal with |- context [push_event c ?x ?e] => rewrite (proj1 (keep_push_event c x e)) end.
    rewrite A1, A4. auto.
Qed.

Definition cont_facts (c : cfg) (s1 : lstate_t) (m2 : mon21) (s2 : lstate_t) (it2 : list item) : Prop :=
  exists s5 l t ll s8 it3 it8 s10,
    plan_rel c s5 m2 /\ cs s5 = cs s1 /\ evc (cs s5) < 65536 /\ 1 <= l /\ l < 65536
    /\ (forall b, deferred s5 = Some b -> def_instant s5 < 65536 /\ l <= dist s5)
    /\ forallb benign (ring s5) = true
    /\ pts_case c (set_cs s5 (mk_cstate ((ch_idx (cs s5) + l) mod 37) (u16 (evc (cs s5) + l)) t ll)) s8 it8
    /\ (st s8 = Connected \/ st s8 = ConnChanged)
    /\ quiet_items it3 /\ ctlk 0 s8 s10 /\ s2 = set_ring s10 [] /\ it2 = it3 ++ it8 ++ cb_items (ring s10)
    /\ att_of (unsent s8) = repeat att_mtu_response (N.to_nat (q_owed m2))
    /\ stopped (bf s8) = false /\ rxq (bf s8) = q_rx m2 /\ tx_avail (bf s8) = tx_avail (bf s1)
    /\ (fl (bf s8) = FHead -> txq (bf s8) <> []).

Lemma unsent_after (s s' : lstate_t) l :
  unsent s = [] -> (fl (bf s) = FHead -> txq (bf s) <> []) -> fl (bf s') = fl (bf s) -> txq (bf s') = txq (bf s) ++ l ->
  unsent s' = l.
Proof.
  unfold unsent, unsent_b. intros U H F T. rewrite F, T. destruct (fl (bf s)); try (rewrite U; reflexivity).
  destruct (txq (bf s)) as [|x r]; [exfalso; apply H; reflexivity|]. cbn [tl] in U. subst r. reflexivity.
Qed.

Lemma end_event_live c s1 m1 evts s2 it2 :
  c_enc c = false ->
  lstate_eqb (st s1) Disconnecting = false -> in_connection s1 = true -> ring s1 = [] -> Inv c s1 ->
  qrel c s1 m1 -> plan_rel c s1 m1 -> stopped (bf s1) = false -> q_owed m1 = 0 ->
  unsent s1 = [] -> (fl (bf s1) = FHead -> txq (bf s1) <> []) ->
  do_end_event c s1 evts = Some (s2, it2) ->
  let pm := process21 (S (length (rxq (bf s1)))) c m1 in
  let m2 := fst pm in
  msame m1 m2 /\
  match snd pm with
  | QClosed => in_connection s2 = false
  | QPassed => in_connection s2 = false /\ (c_cb c = true -> cb_count it2 < 4 -> has_closed21 it2 40 = true)
  | QStop => True
  | QGo => in_connection s2 = false \/ cont_facts c s1 m2 s2 it2
  end.
Proof.
  intros Enc Hd C R I Q PR Hsp Ow U FH H.
  destruct (prologue_live c s1 Hd C R) as (P1 & P2 & P3 & P4 & P5 & P6 & P7 & P8 & P9).
  destruct (end_event_general c s1 evts s2 it2 Enc C H) as (GF & _ & GA).
  unfold do_end_event in H.
  set (sP := end_event_prologue c s1) in *. clearbody sP.
  destruct (end_event_body c sP evts) as [[s9 it9]|] eqn:B; cbn [obind] in H; [|discriminate].
  assert (EP : exists s10, ctlk 0 s9 s10 /\ (st s9 = Advertising -> s10 = s9) /\ s2 = set_ring s10 [] /\ it2 = it9 ++ cb_items (ring s10)).
  { unfold end_event_epilogue, flush_events in H. inversion H. eexists. split; [|split; [|split; reflexivity]].
    - destruct (st s9); try apply ctlk_refl; apply ctlk_tpcp.
    - intros ->. reflexivity. }
  clear H. destruct EP as (s10 & K10 & KA & -> & ->).
  destruct I as (I1 & I2 & I3 & I4 & I5).
  destruct Q as [Q1 Q2 Q3 Q4].
  assert (QP : qrel c sP m1).
  { split; [rewrite P6; exact Q1|rewrite P6; exact Q2|rewrite P2; exact Q3|].
    unfold pend_rel in *. destruct (q_pend m1) as [[pr inst]|]; [|congruence].
    destruct Q4 as (b & A1 & A2 & A3 & A4). exists b. repeat split; congruence. }
  unfold end_event_body in B. rewrite P1 in B. cbn [lstate_eqb andb] in B.
  assert (HS : lstate_eqb (st sP) Disconnecting = false) by (rewrite P1; reflexivity).
  pose proof (hrd_sim c Enc (S (length (rxq (bf sP)))) sP m1 QP HS) as HR.
  rewrite P6 in HR. specialize (HR Hsp). rewrite P2 in HR. specialize (HR I1 I5). cbn zeta in HR.
  pose proof (hrd_cases c (S (length (rxq (bf sP)))) sP) as HC. cbn zeta in HC.
  rewrite P6 in B, HC.
  destruct (handle_received_data (S (length (rxq (bf s1)))) c sP) as [[s3 it3] res].
  destruct (process21 (S (length (rxq (bf s1)))) c m1) as [m2 pres]. cbn [fst snd] in *.
  destruct HR as (Q3q & MS & k & CQ & HR). split; [exact MS|].
  destruct CQ as [C1 C2 C3 C4 C5 C6 C7 (lq & C8 & C9) (evs & C10 & C11)].
  (* the link is dropped after the receive queue was looked at *)
  assert (DROP : res = DoDisconnect -> in_connection (set_ring s10 []) = false /\
            (disc_reason s3 = 40 -> c_cb c = true -> cb_count (it9 ++ cb_items (ring s10)) < 4 -> has_closed21 (it9 ++ cb_items (ring s10)) 40 = true)).
  { intros ->. rewrite (fd_exact c s3 Enc) in B. inversion B; subst s9 it9. clear B.
    rewrite (KA eq_refl) in *. split; [reflexivity|]. intros D40 CB CNT.
    cbn [ring set_deferred set_st set_adv_ch] in *. unfold fd_event in *. rewrite C1, P1 in *. rewrite D40 in *.
    rewrite !has_closed21_app. destruct (cb_views (ring (push_event c s3 (EvClosed 40)))) as (_ & _ & _ & CC & _ & _ & _ & CN).
    rewrite CC. rewrite !cb_count_app, CN in CNT.
    assert (LT : (length (ring (push_event c s3 (EvClosed 40))) < 4)%nat) by (clear - CNT; lia).
    rewrite (push_event_pushed c s3 _ LT). rewrite CB, existsb_app. cbn [existsb]. rewrite N.eqb_refl. rewrite !orb_true_r. reflexivity. }
  destruct pres.
  - (* QGo *)
    destruct HR as [(HR1 & HR2 & HR3)|(HR1 & _)]; [|left; exact (proj1 (DROP HR1))].
    subst res. rewrite (send_control_noop s3) in B by (rewrite C1; exact HS).
    destruct (end_event_continue c s3 evts) as [[s8 it8f]|] eqn:E; cbn [obind] in B; [|discriminate].
    inversion B; subst s9 it9. clear B DROP.
    assert (C3' : in_connection s3 = true) by (unfold in_connection; rewrite C1, P1; reflexivity).
    unfold end_event_continue in E.
    destruct (procedure_timed_out s3).
    { left. unfold force_disconnect_reason in E. inversion E as [E1].
      destruct (fd_general c (set_disc_reason s3 GenLL.connection_ll_response_timeout) Enc) as (_ & G3 & _). rewrite E1 in G3. cbn [fst] in G3.
      unfold in_connection in *. cbn [st set_ring]. rewrite (proj1 (ck_keep _ _ _ K10)). exact G3. }
    set (s5 := if negb (proc_timeout s3 =? 0) then _ else s3) in E.
    assert (K5 : st s5 = st s3 /\ cs s5 = cs s3 /\ deferred s5 = deferred s3 /\ def_instant s5 = def_instant s3 /\ tm s5 = tm s3
                 /\ chan s5 = chan s3 /\ bf s5 = bf s3 /\ ring s5 = ring s3) by (subst s5; destruct (negb _); repeat split; reflexivity).
    destruct K5 as (K51 & K52 & K53 & K54 & K55 & K56 & K57 & K58). clearbody s5.
    rewrite (tpsp_noenc c s5 Enc) in E.
    match type of E with context [plan_next_connection_event c s5 ?e] => destruct (plan_next_connection_event c s5 e) as [s7|] eqn:E7 end;
      cbn [obind] in E; [|discriminate].
    destruct (pending_then_setup c s7) as [[s8' it8]|] eqn:E8; cbn [obind] in E; [|discriminate].
    inversion E; subst s8' it8f. clear E. cbn [app] in *.
    assert (He5 : evc (cs s5) < 65536) by (rewrite K52, C2, P2; exact I1).
    assert (Hl5 : latency (tm s5) <= 499) by (rewrite K55, C3, P8; apply I3; exact C).
    destruct (plan_spec c s5 _ s7 E7 He5 Hl5) as (l & t & ll & -> & Hl1 & _ & _ & Hl2).
    pose proof (pts_exact c _ s8 it8 E8) as PT.
    destruct (pts_live c _ s8 it8 Enc PT) as [PL|(PL1 & PL2)].
    { left. unfold in_connection in *. cbn [st set_ring]. rewrite (proj1 (ck_keep _ _ _ K10)). exact PL. }
    right. cbn [bf st set_cs] in PL1, PL2. rewrite K51, C1, P1 in PL1.
    (* what waits before planning: it waited before this event, or it was accepted in it *)
    assert (W : forall b, deferred s5 = Some b -> def_instant s5 < 65536 /\ 1 <= dist s5).
    { intros b D. unfold dist. rewrite K54, K52, K53 in *.
      destruct HC as (R1 & R2 & R3 & R4 & R5 & R6).
      destruct R6 as [(Ra & Rb)|[Ra|(Ra & Rb & b' & Rc & (i & Rd) & lx & Re)]]; [| discriminate |].
      - rewrite Ra, P3 in D. destruct (I4 b D) as [W1 W2 W3 W4]. unfold dist in *. rewrite Rb, R2, P4, P2. auto.
      - split.
        + rewrite Rd. apply rd16_lt. unfold pdus_ok in I5. rewrite Forall_forall in I5. apply (I5 (lx, b')). exact Re.
        + rewrite R2. apply (instant_not_passed _ _ Rb). }
    destruct HR2 as [H21 H22 H23 H24].
    exists s5, l, t, ll, s8, it3, it8, s10.
    split.
    { split; [rewrite (proj1 (proj2 (proj2 (proj2 MS)))), K52, C2, P2; exact (pl_n _ _ _ PR)
             |rewrite (proj1 (proj2 (proj2 (proj2 (proj2 MS))))), K52, C2, P2; exact (pl_idx _ _ _ PR)
             |rewrite (proj1 (proj2 (proj2 (proj2 (proj2 (proj2 MS)))))), K55, C3, P7; exact (pl_iv _ _ _ PR)| |].
      - destruct (pl_chan _ _ _ PR) as (T1 & T2 & T3 & T4). destruct MS as (_ & _ & _ & _ & _ & _ & _ & M8 & M9 & _).
        unfold chan_rel. rewrite K56, C4, P5, M8, M9. auto.
      - unfold pend_rel in *. destruct (q_pend m2) as [[pr inst]|]; [|congruence].
        destruct H24 as (b & A1 & A2 & A3 & A4). exists b. repeat split; congruence. }
    split; [congruence|]. split; [exact He5|]. split; [exact (proj1 Hl1)|]. split; [clear - Hl1 Hl5; lia|].
    split; [intros b D; destruct (W b D) as (W1 & W2); split; [exact W1|apply (Hl2 b D W1 W2)]|].
    split; [rewrite K58, C10, forallb_app, P9, C11; reflexivity|].
    split; [exact PT|]. split; [exact PL1|]. split; [exact Q3q|]. split; [exact K10|]. split; [reflexivity|]. split; [rewrite app_assoc; reflexivity|].
    assert (U3 : unsent s3 = lq).
    { apply (unsent_after sP s3 lq); [unfold unsent; rewrite P6; exact U|rewrite P6; exact FH|exact C5|exact C8]. }
    split; [unfold unsent; rewrite PL2, K57; fold (unsent s3); rewrite U3, C9, HR3, Ow, N.add_0_l, Nnat.Nat2N.id; reflexivity|].
    split; [rewrite PL2, K57, C6, P6; exact Hsp|]. split; [rewrite PL2, K57; symmetry; exact H21|].
    split; [rewrite PL2, K57, C7, P6; reflexivity|].
    rewrite PL2, K57, C5, C8, P6. intros F X. apply app_eq_nil in X. destruct X as (X & _). exact (FH F X).
  - (* QStop *) exact Logic.I.
  - (* QClosed *) exact (proj1 (DROP HR)).
  - (* QPassed *) destruct HR as (HR1 & HR2). destruct (DROP HR1) as (D1 & D2). split; [exact D1|]. intros CB CNT. exact (D2 HR2 CB CNT).
Qed.

(* ========================================================================================== the simulation relation *)
Record live (c : cfg) (s : lstate_t) (m : mon21) : Prop := mk_live {
  lv_nd : lstate_eqb (st s) Disconnecting = false;
  lv_plan : plan_rel c s m;
  lv_rx : q_rx m = rxq (bf s);
  lv_owed : att_of (unsent s) = repeat att_mtu_response (N.to_nat (q_owed m));
  lv_stopped : stopped (bf s) = false;
  lv_applied : q_applied m = true -> disarmable c = true -> last_lat (cs s) = 1
}.

Definition phase (c : cfg) (s : lstate_t) (m : mon21) : Prop :=
  (q_conn m = false /\ in_connection s = false)
  \/ (q_conn m = true /\ q_stop m = true /\ in_connection s = true)
  \/ (q_conn m = true /\ q_stop m = false /\ in_connection s = true /\ live c s m).

Definition Sim (c : cfg) (s : lstate_t) (m : mon21) : Prop :=
  Inv c s /\ ring s = [] /\ q_txa m = tx_avail (bf s) /\ length (ChanMapModel.tbl (chan s)) = 37%nat /\ phase c s m.

Lemma Sim_init c : Sim c (linit c) (minit21 c).
Proof.
  split; [apply Inv_init|]. split; [reflexivity|]. split; [reflexivity|]. split; [reflexivity|]. left. split; reflexivity.
Qed.

(* a state that differs only in fields neither the invariant nor the relation looks at *)
Definition same_rel (s s' : lstate_t) : Prop :=
  st s' = st s /\ cs s' = cs s /\ tm s' = tm s /\ chan s' = chan s /\ deferred s' = deferred s /\ def_instant s' = def_instant s
  /\ bf s' = bf s /\ ring s' = ring s.

Lemma live_same c s s' m : same_rel s s' -> live c s m -> live c s' m.
Proof.
  intros (A1 & A2 & A3 & A4 & A5 & A6 & A7 & A8) [L1 [P1 P2 P3 (T1 & T2 & T3 & T4) P5] L3 L4 L5 L6].
  split; try (unfold unsent; rewrite ?A1, ?A2, ?A7; assumption).
  split; rewrite ?A2, ?A3; auto.
  - unfold chan_rel. rewrite A4. auto.
  - unfold pend_rel in *. rewrite A5, A6. exact P5.
Qed.

Lemma Sim_same c s s' m : same_rel s s' -> Inv c s' -> Sim c s m -> Sim c s' m.
Proof.
  intros SR I' (_ & R & T & L & PH). pose proof SR as (A1 & A2 & A3 & A4 & A5 & A6 & A7 & A8).
  split; [exact I'|]. split; [congruence|]. split; [rewrite A7; exact T|]. split; [rewrite A4; exact L|].
  unfold phase in *. rewrite (in_connection_st s s' A1).
  destruct PH as [P|[P|(P1 & P2 & P3 & P4)]]; [left; exact P|right; left; exact P|right; right].
  split; [exact P1|]. split; [exact P2|]. split; [exact P3|exact (live_same c s s' m SR P4)].
Qed.

(* ========================================================================================== the environment *)
Definition ev_derived (c : cfg) (m : mon21) (pdus : list pdu) (it : list item) : option N :=
  let rx := q_rx m ++ normalise21 pdus in
  let m2 := fst (process21 (S (length rx)) c (set_q_owed (set_q_rx m rx) 0)) in
  match find_ce21 it with Some (ch, s, e, iv') => skip_of m2 it s e iv' | None => None end.

Definition cancel_derived (m : mon21) (it : list item) : option N :=
  match find_ce21 it with
  | Some (ch, s, e, iv') => if q_iv m =? 0 then None else Some ((q_t m - (s + e) / 2) / q_iv m)
  | None => None
  end.

(* the assumptions about one operation: fewer than 4 callbacks were delivered (the event ring of 4 entries did not
   overflow: C29), and the number of events the monitor derives from the window handed to the radio is the number of
   events the link layer's counter moved (C22 / C23: the timing derivation itself is not verified here) *)
Definition step_env (c : cfg) (s : lstate_t) (m : mon21) (o : lop) (r : lout) (s' : lstate_t) : bool :=
  match r with
  | OItems it =>
      (cb_count it <? 4)
      && match o with
         | Ev _ pdus =>
             match ev_derived c m pdus it with
             | Some k => k =? u16 (evc (cs s') + 65536 - evc (cs s))
             | None => true
             end
         | Cancel _ _ =>
             match cancel_derived m it with
             | Some b => b =? u16 (evc (cs s) + 65536 - evc (cs s'))
             | None => true
             end
         | _ => true
         end
  | _ => true
  end.

Fixpoint env_run (c : cfg) (s : lstate_t) (m : mon21) (ops : list lop) : bool :=
  match ops with
  | [] => true
  | o :: t =>
      let '(s', r) := lstep c s o in
      step_env c s m o r s'
      && match mstep21 c m o r with
         | (Ok, m') => env_run c s' m' t
         | (Bad _, _) => true
         end
  end.

Definition acceptable (v : verdict * mon21) (P : mon21 -> Prop) : Prop :=
  match v with
  | (Ok, m') => P m'
  | (Bad k, _) => (k = 7 \/ 8 <= k)%nat
  end.

(* ========================================================================================== operations outside connection events *)
Lemma noenc_mstep c m o r : c_enc c = false -> mstep21 c m o r =
  match r with
  | OCrash => (Bad 8, m)
  | OPre | OBadOp => (Ok, m)
  | OItems it => mstep21 c m o (OItems it)
  end.
Proof. intros Enc. destruct r; unfold mstep21; rewrite Enc; reflexivity. Qed.

Lemma sim_simple c s m o :
  c_enc c = false -> Sim c s m -> op_ok o ->
  match o with Ev _ _ | Timeout | Cancel _ _ | Adv _ _ => False | _ => True end ->
  acceptable (mstep21 c m o (snd (lstep c s o))) (Sim c (fst (lstep c s o))).
Proof.
  intros Enc S Ho Hk. pose proof (lstep_inv c s o (proj1 S) Ho) as I'.
  destruct S as (I & R & T & L & PH).
  destruct o; try contradiction; cbn [lstep] in *; unfold mstep21; rewrite Enc.
  - (* Run *)
    destruct (st s) eqn:S0; cbn [fst snd acceptable] in *;
      try (split; [exact I|split; [exact R|split; [exact T|split; [exact L|exact PH]]]]).
    unfold start_advertising_impl, handle_start_advertising in *. cbn [fst snd acceptable] in *.
    split; [exact I'|]. split; [exact R|]. split; [exact T|]. split; [exact L|].
    assert (C0 : in_connection s = false) by (unfold in_connection; rewrite S0; reflexivity).
    destruct PH as [P|[(P1 & P2 & P3)|(P1 & P2 & P3 & _)]]; [left; destruct P; split; auto|congruence|congruence].
  - (* AdvTimeout *)
    destruct (st s) eqn:S0; cbn [fst snd acceptable] in *;
      try (split; [exact I|split; [exact R|split; [exact T|split; [exact L|exact PH]]]]).
    unfold handle_adv_timeout in *. cbn [fst snd acceptable] in *.
    apply (Sim_same c s); [repeat split; reflexivity|exact I'|]. split; [exact I|split; [exact R|split; [exact T|split; [exact L|exact PH]]]].
  - (* Disconnect *)
    destruct (in_connection s) eqn:C0; cbn [fst snd acceptable] in *;
      [|split; [exact I|split; [exact R|split; [exact T|split; [exact L|exact PH]]]]].
    unfold reset_encryption in *. rewrite Enc in *. cbn [fst snd acceptable] in *.
    assert (QC : q_conn m = true) by (destruct PH as [(P1 & P2)|[(P1 & _)|(P1 & _)]]; congruence).
    rewrite QC. split; [exact I'|]. split; [exact R|]. split; [exact T|]. split; [exact L|].
    right. left. repeat split; reflexivity.
  - (* Cpu *)
    destruct (in_connection s); cbn [fst snd acceptable] in *; [|split; [exact I|split; [exact R|split; [exact T|split; [exact L|exact PH]]]]].
    destruct (bit _ _); [destruct (cpr_pending (pr s))|]; cbn [fst snd acceptable] in *;
      (apply (Sim_same c s); [repeat split; reflexivity|exact I'|]; split; [exact I|split; [exact R|split; [exact T|split; [exact L|exact PH]]]]).
  - (* Cpr *)
    destruct (in_connection s); cbn [fst snd acceptable] in *; [|split; [exact I|split; [exact R|split; [exact T|split; [exact L|exact PH]]]]].
    destruct (_ || _); cbn [fst snd acceptable] in *;
      (apply (Sim_same c s); [repeat split; reflexivity|exact I'|]; split; [exact I|split; [exact R|split; [exact T|split; [exact L|exact PH]]]]).
  - (* PhyReq *)
    destruct (in_connection s); cbn [fst snd acceptable] in *; [|split; [exact I|split; [exact R|split; [exact T|split; [exact L|exact PH]]]]].
    destruct (phy_pending (pr s)); cbn [fst snd acceptable] in *;
      (apply (Sim_same c s); [repeat split; reflexivity|exact I'|]; split; [exact I|split; [exact R|split; [exact T|split; [exact L|exact PH]]]]).
  - (* VerReq *)
    destruct (in_connection s); cbn [fst snd acceptable] in *; [|split; [exact I|split; [exact R|split; [exact T|split; [exact L|exact PH]]]]].
    destruct (_ || _); cbn [fst snd acceptable] in *;
      (apply (Sim_same c s); [repeat split; reflexivity|exact I'|]; split; [exact I|split; [exact R|split; [exact T|split; [exact L|exact PH]]]]).
  - (* TxAvail *)
    cbn [fst snd acceptable] in *. split; [exact I'|]. split; [exact R|]. split; [reflexivity|]. split; [exact L|].
    unfold phase in *. change (in_connection (upd_bf s (fun x => set_tx_avail x b))) with (in_connection s).
    change (q_conn (set_q_txa m b)) with (q_conn m). change (q_stop (set_q_txa m b)) with (q_stop m).
    destruct PH as [P|[P|(P1 & P2 & P3 & [L1 [A1 A2 A3 A4 A5] L3 L4 L5 L6])]]; [left; exact P|right; left; exact P|right; right].
    split; [exact P1|]. split; [exact P2|]. split; [exact P3|]. split; auto. split; auto.
  - (* CprReply *)
    destruct (c_cpr c); cbn [fst snd acceptable] in *; try (split; [exact I|split; [exact R|split; [exact T|split; [exact L|exact PH]]]]).
    apply (Sim_same c s); [repeat split; reflexivity|exact I'|]. split; [exact I|split; [exact R|split; [exact T|split; [exact L|exact PH]]]].
  - (* CprNeg *)
    destruct (c_cpr c); cbn [fst snd acceptable] in *; try (split; [exact I|split; [exact R|split; [exact T|split; [exact L|exact PH]]]]).
    apply (Sim_same c s); [repeat split; reflexivity|exact I'|]. split; [exact I|split; [exact R|split; [exact T|split; [exact L|exact PH]]]].
  - (* Key *)
    cbn [fst snd acceptable] in *. apply (Sim_same c s); [repeat split; reflexivity|exact I'|]. split; [exact I|split; [exact R|split; [exact T|split; [exact L|exact PH]]]].
  - (* St *)
    cbn [fst snd acceptable] in *. destruct (q_conn m && negb (q_stop m)); [destruct (judge_st m [st_item s]) eqn:J|]; cbn [acceptable];
      try (split; [exact I|split; [exact R|split; [exact T|split; [exact L|exact PH]]]]).
    unfold judge_st in J. unfold st_item in J.
    destruct (in_connection s); repeat match type of J with (if ?x then _ else _) = _ => destruct x end;
      repeat match type of J with match ?x with _ => _ end = _ => destruct x end; inversion J; right; repeat constructor.
Qed.

Lemma parse_connect_interval body t ok : parse_connect body = (t, ok) -> interval t = rd16 body 22 * 1250.
Proof. unfold parse_connect. cbn zeta. intros H. inversion H. reflexivity. Qed.

(* ========================================================================================== a connect request *)
Lemma sim_adv c s m hdr0 body :
  c_enc c = false -> Sim c s m ->
  acceptable (mstep21 c m (Adv hdr0 body) (snd (lstep c s (Adv hdr0 body)))) (Sim c (fst (lstep c s (Adv hdr0 body)))).
Proof.
  intros Enc S. pose proof (lstep_inv c s (Adv hdr0 body) (proj1 S) Logic.I) as I'.
  destruct S as (I & R & T & L & PH).
  assert (SAME : Sim c s m) by (split; [exact I|split; [exact R|split; [exact T|split; [exact L|exact PH]]]]).
  cbn [lstep] in *. unfold mstep21. rewrite Enc.
  destruct (st s) eqn:S0; cbn [fst snd acceptable] in *; try exact SAME.
  destruct (255 <? _); cbn [fst snd acceptable] in *; [exact SAME|].
  assert (C0 : in_connection s = false) by (unfold in_connection; rewrite S0; reflexivity).
  assert (QC : q_conn m = false) by (destruct PH as [(P1 & _)|[(_ & _ & P3)|(_ & _ & P3 & _)]]; congruence).
  pose proof (adv_exact c s hdr0 body) as A.
  destruct (do_adv_received c s hdr0 body) as [[s' it]|]; cbn [ok_items fst snd acceptable] in *; [|right; repeat constructor].
  rewrite QC.
  destruct A as [(t & ws & we & A1 & A2 & A3 & A4 & A5 & A6 & A7 & A8 & A9 & A10 & A11)|(A1 & A2 & A3 & A4 & A5 & A6 & A7)].
  - (* connected *)
    rewrite A10.
    pose proof (ChanMapProofs.reset_result (chan s) (slice body 28 5) (N.land (byte body 33) 31) (slice_28_5 body A1) L) as RR.
    rewrite A9 in RR. destruct RR as (RR1 & _ & RR3 & RR4 & RR5).
    assert (V : ChanMapSpec.valid_hop (N.land (byte body 33) 31) && ChanMapSpec.valid_map (slice body 28 5) = true) by (inversion RR1; reflexivity).
    rewrite V in RR5. apply andb_prop in V. destruct V as (V1 & V2). rewrite V1 in RR4.
    destruct (data_channel s' =? _) eqn:CH; cbn [acceptable]; [|right; repeat constructor].
    split; [exact I'|]. split; [exact A8|]. split; [rewrite A7; exact T|]. split; [exact RR3|].
    right. right. split; [reflexivity|]. split; [reflexivity|]. split; [unfold in_connection; rewrite A3; reflexivity|].
    split; cbn [q_rx q_owed q_applied].
    + rewrite A3. reflexivity.
    + split; cbn [q_n q_idx q_iv q_map q_hop q_pend]; try (rewrite A4; reflexivity).
      * rewrite A6. symmetry. exact (parse_connect_interval body t _ A2).
      * unfold chan_rel. cbn [q_map q_hop]. auto.
      * unfold pend_rel. cbn [q_pend]. rewrite A5. apply (proj1 (proj2 I)). exact C0.
    + rewrite A7. reflexivity.
    + unfold unsent, unsent_b. rewrite A7. reflexivity.
    + rewrite A7. reflexivity.
    + discriminate.
  - (* not connected *)
    rewrite A6. cbn [acceptable].
    split; [exact I'|]. split; [congruence|]. split; [rewrite A4; exact T|]. split; [congruence|].
    left. split; [exact QC|]. unfold in_connection. rewrite A1, S0. reflexivity.
Qed.

(* ========================================================================================== from the planning step back to the relation *)
Lemma phase_after_plan c s8 sF m m' t' :
  plan_post c s8 m m' t' -> q_conn m = true -> q_stop m = false ->
  in_connection sF = true -> lstate_eqb (st sF) Disconnecting = false ->
  cs sF = cs s8 -> tm sF = tm s8 -> chan sF = chan s8 -> deferred sF = deferred s8 -> def_instant sF = def_instant s8 ->
  q_rx m = rxq (bf sF) -> att_of (unsent sF) = repeat att_mtu_response (N.to_nat (q_owed m)) -> stopped (bf sF) = false ->
  phase c sF m' /\ q_txa m' = q_txa m.
Proof.
  intros [->|([P1 P2 P3 (T1 & T2 & T3 & T4) P5] & (F1 & F2 & F3 & F4 & F5 & F6) & PT & PA)] QC QS C ND A1 A2 A3 A4 A5 RX OW SP.
  - split; [|reflexivity]. right. left. repeat split; auto.
  - split; [|exact F3]. right. right. split; [congruence|]. split; [congruence|]. split; [exact C|].
    split; [exact ND| |congruence|congruence|exact SP|rewrite A1; exact PA].
    split; rewrite ?A1, ?A2; auto.
    + unfold chan_rel. rewrite A3. auto.
    + unfold pend_rel in *. rewrite A4, A5. exact P5.
Qed.

Lemma cb_count_ge_ring it r : N.of_nat (length r) <= cb_count (it ++ cb_items r).
Proof. rewrite cb_count_app. destruct (cb_views r) as (_ & _ & _ & _ & _ & _ & _ & CN). rewrite CN. lia. Qed.

Lemma pts_items_views c s7 s8 it8 r : pts_case c s7 s8 it8 -> in_connection s8 = true ->
  find_ce21 (it8 ++ cb_items r) = find_ce21 it8 /\ phys21 (it8 ++ cb_items r) = phys21 it8
  /\ changed21 (it8 ++ cb_items r) = last_changed r /\ att_on_air (it8 ++ cb_items r) = [].
Proof.
  intros P C. destruct (cb_views r) as (C1 & C2 & _ & _ & _ & C6 & C7 & _).
  rewrite find_ce21_app, phys21_app, changed21_app, att_on_air_app, C1, C2, C6, C7, !app_nil_r.
  destruct P as [ws we Hn | b ws we D E B | b t ws we D E B P | b t D E B P | b ws we D E B1 B0]; cbn;
    try (destruct (last_changed r); repeat split; reflexivity).
  exfalso. subst sx. unfold in_connection in C. rewrite (proj1 (force_disconnect_frame c _)) in C. discriminate C.
Qed.

(* ========================================================================================== a missed event *)
(* timeout() that keeps the link: the planning is one event ahead *)
Lemma timeout_decomp c s s' it : c_enc c = false -> do_timeout c s = Some (s', it) -> in_connection s' = true ->
  exists t s2 it2,
    pts_case c (set_cs (set_pending_event s false) (mk_cstate ((ch_idx (cs s) + 1) mod 37) (u16 (evc (cs s) + 1)) t (last_lat (cs s)))) s2 it2
    /\ s' = set_ring s2 [] /\ it = it2 ++ cb_items (ring s2).
Proof.
  intros Enc H C. unfold do_timeout in H.
  set (s0 := set_pending_event s false) in H.
  match type of H with (do r <- ?x; _) = _ => destruct x as [[s2 it2]|] eqn:B end; cbn [obind] in H; [|discriminate].
  unfold flush_events in H. inversion H; subst s' it. clear H.
  assert (ND : forall sx, force_disconnect c sx = (s2, it2) -> False).
  { intros sx F. destruct (fd_general c sx Enc) as (_ & G & _). rewrite F in G. cbn [fst] in G.
    unfold in_connection in *. cbn [st set_ring] in C. congruence. }
  destruct (lstate_eqb (st s0) Disconnecting && term_sent s0 && negb (pending_outgoing_data_available s0)).
  { inversion B as [B']. destruct (ND _ B'). }
  destruct (negb (proc_timeout s0 =? 0) && (proc_timeout s0 <=? tsle (cs s0))).
  { inversion B as [B']. destruct (ND _ B'). }
  destruct (dt_mul _ _) as [five|]; cbn [obind] in B; [|discriminate].
  destruct ((tsle (cs s0) <? conn_timeout (tm s0)) && _).
  2:{ inversion B as [B']. destruct (ND _ B'). }
  destruct (plan_after_timeout s0) as [s1|] eqn:E1; cbn [obind] in B; [|discriminate].
  unfold plan_after_timeout in E1. destruct (dt_add _ _) as [t|]; cbn [obind] in E1; [|discriminate]. inversion E1 as [E1']. subst s1.
  exists t, s2, it2. split; [|split; reflexivity]. exact (pts_exact c _ s2 it2 B).
Qed.

Lemma ended_sim c s s' m : Sim c s m -> Inv c s' -> gframe s s' -> ring s' = [] -> in_connection s' = false ->
  Sim c s' (ended21 m).
Proof.
  intros (_ & _ & T & L & _) I' (G1 & G2) R C.
  split; [exact I'|]. split; [exact R|]. split; [cbn [q_txa ended21]; congruence|]. split; [congruence|]. left. split; [reflexivity|exact C].
Qed.

Lemma stopped_sim c s s' m m' : Sim c s m -> Inv c s' -> gframe s s' -> ring s' = [] -> in_connection s' = true ->
  q_conn m' = true -> q_stop m' = true -> q_txa m' = q_txa m -> Sim c s' m'.
Proof.
  intros (_ & _ & T & L & _) I' (G1 & G2) R C Q1 Q2 Q3.
  split; [exact I'|]. split; [exact R|]. split; [congruence|]. split; [congruence|]. right. left. auto.
Qed.

Lemma sim_timeout c s m :
  c_enc c = false -> Sim c s m ->
  step_env c s m Timeout (snd (lstep c s Timeout)) (fst (lstep c s Timeout)) = true ->
  acceptable (mstep21 c m Timeout (snd (lstep c s Timeout))) (Sim c (fst (lstep c s Timeout))).
Proof.
  intros Enc S ENV. pose proof (lstep_inv c s Timeout (proj1 S) Logic.I) as I'.
  pose proof S as (I & R & T & L & PH).
  cbn [lstep] in *. unfold mstep21. rewrite Enc.
  destruct (in_connection s) eqn:C0; cbn [fst snd acceptable] in *; [|exact S].
  destruct (do_timeout c s) as [[s' it]|] eqn:E; cbn [ok_items fst snd acceptable] in *; [|right; repeat constructor].
  assert (QC : q_conn m = true) by (destruct PH as [(_ & P)|[(P & _)|(P & _)]]; congruence).
  rewrite QC. cbn [negb].
  destruct (timeout_general c s s' it Enc C0 E) as (G & R' & A).
  destruct (in_connection s') eqn:C'; cbn [negb] in A; rewrite A.
  2:{ exact (ended_sim c s s' m S I' G R' C'). }
  destruct (q_stop m) eqn:QS.
  { exact (stopped_sim c s s' m m S I' G R' C' QC QS eq_refl). }
  destruct PH as [(P & _)|[(_ & P & _)|(_ & _ & _ & LV)]]; try congruence.
  destruct LV as [L1 PR L3 L4 L5 L6].
  destruct (timeout_decomp c s s' it Enc E C') as (t & s2 & it2 & PT & -> & ->).
  assert (C2 : in_connection s2 = true) by exact C'.
  destruct (pts_items_views c _ s2 it2 (ring s2) PT C2) as (V1 & V2 & V3 & V4).
  apply andb_prop in ENV. destruct ENV as (CNT & _). apply N.ltb_lt in CNT.
  pose proof (cb_count_ge_ring it2 (ring s2)) as GE.
  destruct (find_ce21 (it2 ++ cb_items (ring s2))) as [[[[ch ws] we] iv']|] eqn:FC; [|right; repeat constructor].
  destruct I as (I1 & I2 & I3 & I4 & I5).
  set (s0 := set_pending_event s false) in *.
  assert (PR0 : plan_rel c s0 m) by (destruct PR as [A1 A2 A3 A4 A5]; split; auto).
  pose proof (plan21_sound c m s0 1 t (last_lat (cs s)) s2 it2 (it2 ++ cb_items (ring s2)) (q_t m + q_iv m) PT) as PS.
  assert (NA : st s2 <> Advertising) by (intros F; unfold in_connection in C2; rewrite F in C2; discriminate).
  specialize (PS NA PR0 I1 (N.le_refl 1) (eq_refl : 1 < 65536)).
  assert (PB : forall b, deferred s0 = Some b -> def_instant s0 < 65536 /\ 1 <= dist s0).
  { intros b D. destruct (I4 b D) as [W1 W2 W3 W4]. split; assumption. }
  assert (HB : forallb benign (ring s0) = true) by (unfold s0; cbn [ring set_pending_event]; rewrite R; reflexivity).
  specialize (PS PB HB).
  assert (LR : (length (ring s2) < 4)%nat) by (clear - CNT GE; lia).
  specialize (PS LR (eq_trans FC V1) V2 V3 ch ws we iv' FC).
  destruct (plan21 c m (it2 ++ cb_items (ring s2)) 1 ch iv' (q_t m + q_iv m)) as [[|k] m']; cbn [acceptable]; [|exact PS].
  destruct (pts_live c _ s2 it2 Enc PT) as [PL|(PL1 & PL2)]; [congruence|]. cbn [st bf set_cs set_pending_event] in PL1, PL2.
  assert (ND : lstate_eqb (st s2) Disconnecting = false) by (destruct PL1 as [->| ->]; [exact L1|reflexivity]).
  destruct (phase_after_plan c s2 (set_ring s2 []) m m' _ PS QC QS C' ND eq_refl eq_refl eq_refl eq_refl eq_refl) as (PH' & TX).
  - cbn [bf set_ring]. rewrite PL2. exact L3.
  - unfold unsent. cbn [bf set_ring]. rewrite PL2. exact L4.
  - cbn [bf set_ring]. rewrite PL2. exact L5.
  - split; [exact I'|]. split; [reflexivity|]. split; [rewrite TX; cbn [bf set_ring]; rewrite PL2; exact T|].
    split; [destruct G as (_ & G2); cbn [chan set_ring] in *; congruence|exact PH'].
Qed.

(* ========================================================================================== try_event_cancelation() *)
Lemma cancel_shape c s bb us s' it : do_cancel c s bb us = Some (s', it) ->
  (s' = s /\ (it = [] \/ it = [IDisarm]))
  \/ (exists count t ws we,
        let s1 := set_cs s (mk_cstate ((ch_idx (cs s) + 518 - count) mod 37) (u16 (evc (cs s) + 65536 - count)) t 1) in
        s' = set_pending_event s1 true /\ it = [IDisarm; ICe (data_channel s1) ws we (interval (tm s))]
        /\ count <= 499 /\ disarmable c = true /\ last_lat (cs s) <> 1).
Proof.
  intros H. unfold do_cancel in H.
  destruct ((lstate_eqb (st s) Connected || lstate_eqb (st s) Connecting) && pending_event s && disarmable c && negb (last_lat (cs s) =? 1)) eqn:G;
    [|inversion H; left; auto].
  destruct bb; [|inversion H; left; auto].
  destruct (interval (tm s) =? 0); [discriminate|].
  destruct (dt_add us (interval (tm s))) as [sum|]; cbn [obind] in H; [|discriminate].
  destruct (dt_sub sum 1) as [sum1|]; cbn [obind] in H; [|discriminate].
  set (count := last_lat (cs s) - N.min (N.max 1 (sum1 / interval (tm s))) (last_lat (cs s))) in H.
  destruct (499 <? count) eqn:G499; [discriminate|].
  destruct (dt_mul _ count) as [back|]; cbn [obind] in H; [|discriminate].
  destruct (dt_sub _ back) as [t|]; cbn [obind] in H; [|discriminate].
  match type of H with context [setup_next_connection_event ?x] => destruct (setup_next_connection_event x) as [[s2 it2]|] eqn:E2 end;
    cbn [obind] in H; [|discriminate].
  inversion H; subst s' it. clear H.
  destruct (setup_next_spec _ _ _ E2) as [-> (ws & we & ->)].
  right. exists count, t, ws, we. cbn zeta.
  apply andb_prop in G. destruct G as (G & G4). apply andb_prop in G. destruct G as (G & G3).
  split; [reflexivity|]. split; [reflexivity|]. split; [lia|]. split; [exact G3|]. apply negb_true_iff in G4. lia.
Qed.

Lemma back_arith e count : e < 65536 -> count <= 499 -> u16 (e + 65536 - u16 (e + 65536 - count)) = count.
Proof. unfold u16. intros He Hc. nlia. Qed.

Lemma sim_cancel c s m bb us :
  c_enc c = false -> Sim c s m ->
  step_env c s m (Cancel bb us) (snd (lstep c s (Cancel bb us))) (fst (lstep c s (Cancel bb us))) = true ->
  acceptable (mstep21 c m (Cancel bb us) (snd (lstep c s (Cancel bb us)))) (Sim c (fst (lstep c s (Cancel bb us)))).
Proof.
  intros Enc S ENV. pose proof (lstep_inv c s (Cancel bb us) (proj1 S) Logic.I) as I'.
  pose proof S as (I & R & T & L & PH).
  cbn [lstep] in *. unfold mstep21. rewrite Enc.
  destruct (do_cancel c s bb us) as [[s' it]|] eqn:E; cbn [ok_items fst snd acceptable] in *; [|right; repeat constructor].
  destruct (cancel_shape c s bb us s' it E) as [(-> & _)|(count & t & ws & we & CS)].
  { (* nothing moved *)
    assert (X : forall v, (v = (Ok, m) \/ exists k, fst v = Bad k /\ (k = 7 \/ 8 <= k)%nat) -> acceptable v (Sim c s)).
    { intros [[|k] m'] [Hv|(k' & Hv & Hk)]; cbn [acceptable fst] in *; try (inversion Hv; subst; auto); discriminate. }
    apply X. destruct (negb (q_conn m) || q_stop m); [left; reflexivity|]. destruct (negb (has_disarm21 it)); [left; reflexivity|].
    destruct (cancel_shape c s bb us s it E) as [(_ & [->| ->])|(count & t & ws & we & CS)]; [left; reflexivity|left; reflexivity|].
    cbn zeta in CS. destruct CS as (CS1 & _ & _ & _ & CS5). exfalso.
    assert (F2 : last_lat (cs s) = 1) by (rewrite CS1; reflexivity). contradiction. }
  cbn zeta in CS. destruct CS as (-> & -> & C1 & C2 & C3).
  set (s1 := set_cs s (mk_cstate ((ch_idx (cs s) + 518 - count) mod 37) (u16 (evc (cs s) + 65536 - count)) t 1)) in *.
  assert (SR : st (set_pending_event s1 true) = st s /\ tm (set_pending_event s1 true) = tm s /\ chan (set_pending_event s1 true) = chan s
               /\ deferred (set_pending_event s1 true) = deferred s /\ def_instant (set_pending_event s1 true) = def_instant s
               /\ bf (set_pending_event s1 true) = bf s /\ ring (set_pending_event s1 true) = ring s) by (repeat split; reflexivity).
  destruct SR as (A1 & A2 & A3 & A4 & A5 & A6 & A7).
  destruct (negb (q_conn m) || q_stop m) eqn:QQ; cbn [acceptable].
  { (* not judged *)
    split; [exact I'|]. split; [rewrite A7; exact R|]. split; [rewrite A6; exact T|]. split; [rewrite A3; exact L|].
    unfold phase in *. rewrite (in_connection_st _ _ A1).
    destruct PH as [P|[P|(P1 & P2 & _)]]; [left; exact P|right; left; exact P|]. rewrite P1, P2 in QQ. discriminate. }
  destruct PH as [(P1 & _)|[(P1 & P2 & _)|(P1 & P2 & P3 & LV)]]; try (rewrite P1 in QQ; discriminate QQ); try (rewrite P1, P2 in QQ; discriminate QQ).
  destruct LV as [L1 [R1 R2 R3 R4 R5] L3 L4 L5 L6].
  cbn [has_disarm21 existsb negb orb]. cbn [find_ce21 fold_left].
  (* the monitor's derivation *)
  apply andb_prop in ENV. destruct ENV as (_ & ENV). unfold cancel_derived in ENV. cbn [find_ce21 fold_left] in ENV.
  destruct (q_iv m =? 0) eqn:Z; cbn [orb]; [right; repeat constructor|].
  apply N.eqb_eq in ENV. cbn [cs evc set_pending_event] in ENV. unfold s1 in ENV at 1. cbn [cs evc set_cs] in ENV.
  destruct I as (I1 & _). rewrite (back_arith _ _ I1 C1) in ENV.
  set (centre := (ws + we) / 2) in *. rewrite ENV.
  destruct (negb (interval (tm s) =? q_iv m) || (q_t m <? centre) || negb ((q_t m - centre) mod q_iv m =? 0)); [right; repeat constructor|].
  destruct (518 <? count); [right; repeat constructor|].
  assert (QA : q_applied m = false).
  { destruct (q_applied m) eqn:QA; [|reflexivity]. exfalso. apply C3. apply L6; auto. }
  rewrite QA, andb_false_r.
  destruct (negb (data_channel s1 =? _)); cbn [acceptable]; [right; repeat constructor|].
  split; [exact I'|]. split; [rewrite A7; exact R|]. split; [rewrite A6; exact T|]. split; [rewrite A3; exact L|].
  right. right. split; [exact P1|]. split; [exact P2|]. split; [rewrite (in_connection_st _ _ A1); exact P3|].
  split; cbn [q_rx q_owed q_applied planned21].
  - rewrite A1. exact L1.
  - split; cbn [q_n q_idx q_iv q_map q_hop q_pend planned21 cs tm set_pending_event].
    + rewrite R1. reflexivity.
    + rewrite R2. reflexivity.
    + exact R3.
    + unfold chan_rel. cbn [q_map q_hop planned21]. rewrite A3. exact R4.
    + unfold pend_rel in *. cbn [q_pend planned21]. rewrite A4, A5. exact R5.
  - rewrite A6. exact L3.
  - unfold unsent. rewrite A6. exact L4.
  - rewrite A6. exact L5.
  - intros F. discriminate F.
Qed.

(* ========================================================================================== a connection event *)
Lemma pts_evc c s7 s8 it8 : pts_case c s7 s8 it8 -> in_connection s8 = true -> evc (cs s8) = evc (cs s7).
Proof.
  intros [ws we Hn | b ws we D E B | b t ws we D E B P | b t D E B P | b ws we D E B1 B0] C.
  - reflexivity.
  - subst s1. cbn [cs set_pending_event set_chan]. unfold after_apply. destruct (disarmable c); reflexivity.
  - subst s2 s1. cbn [cs set_pending_event]. rewrite (proj1 (proj2 (keep_push_event c _ _))).
    cbn [cs set_st set_tm set_proc_timeout]. unfold after_apply. destruct (disarmable c); reflexivity.
  - exfalso. subst sx. unfold in_connection in C. rewrite (proj1 (force_disconnect_frame c _)) in C. discriminate C.
  - subst s1. cbn [cs set_pending_event]. rewrite (proj1 (proj2 (keep_push_event c _ _))).
    unfold after_apply. destruct (disarmable c); reflexivity.
Qed.

Lemma step_arith e l : e < 65536 -> l < 65536 -> u16 (u16 (e + l) + 65536 - e) = l.
Proof. unfold u16. intros He Hl. nlia. Qed.

Lemma unsent_ctlk s8 s10 : ctlk 0 s8 s10 -> (fl (bf s8) = FHead -> txq (bf s8) <> []) -> att_of (unsent s10) = att_of (unsent s8).
Proof.
  intros [_ F _ _ (l & T & A) _ _] H. unfold unsent, unsent_b. rewrite F, T.
  destruct (fl (bf s8)); try (rewrite att_of_app, A, app_nil_r; reflexivity).
  destruct (txq (bf s8)) as [|x r]; [exfalso; apply H; reflexivity|]. cbn [tl app]. rewrite att_of_app, A, app_nil_r. reflexivity.
Qed.

Lemma owed_le a n : (N.of_nat (N.to_nat a + n) <? a) = false.
Proof. lia. Qed.

Lemma sim_ev c s m evts pdus :
  c_enc c = false -> Sim c s m -> pdus_ok pdus ->
  step_env c s m (Ev evts pdus) (snd (lstep c s (Ev evts pdus))) (fst (lstep c s (Ev evts pdus))) = true ->
  acceptable (mstep21 c m (Ev evts pdus) (snd (lstep c s (Ev evts pdus)))) (Sim c (fst (lstep c s (Ev evts pdus)))).
Proof.
  intros Enc SM Hp ENV. pose proof (lstep_inv c s (Ev evts pdus) (proj1 SM) Hp) as I'.
  pose proof SM as (I & R & T & L & PH).
  cbn [lstep] in *. unfold mstep21. rewrite Enc.
  destruct (in_connection s) eqn:C0; cbn [fst snd acceptable] in *; [|exact SM].
  match goal with |- context [existsb ?f pdus] => destruct (existsb f pdus) end; cbn [fst snd acceptable] in *; [exact SM|].
  (* the radio's part *)
  assert (FU : (length pdus + length (unsent s) <= S (length pdus + length (txq (bf s))))%nat).
  { unfold unsent, unsent_b. destruct (fl (bf s)); try lia. destruct (txq (bf s)); cbn [tl length]; lia. }
  destruct (radio_event_spec (S (length pdus + length (txq (bf s)))) s pdus FU (le_n_S _ _ (Nat.le_0_l _))) as (b' & E1 & E2 & E3 & E4 & E5 & E6 & E7).
  pose proof (radio_event_frame (S (length pdus + length (txq (bf s)))) s pdus Hp (proj2 (proj2 (proj2 (proj2 I))))) as RF. cbn zeta in RF.
  destruct (radio_event (S (length pdus + length (txq (bf s)))) s pdus) as [s1 it1]. cbn [fst snd] in *. subst s1 it1.
  destruct RF as (RF1 & RF2). pose proof (Inv_same6 c s (set_bf s b') RF1 RF2 I) as I1.
  set (s1 := set_bf s b') in *.
  assert (C1 : in_connection s1 = true) by exact C0.
  destruct (do_end_event c s1 evts) as [[s2 it2]|] eqn:E; cbn [fst snd acceptable] in *; [|right; repeat constructor].
  assert (QC : q_conn m = true) by (destruct PH as [(_ & P)|[(P & _)|(P & _)]]; congruence).
  rewrite QC. cbn [negb].
  destruct (end_event_general c s1 evts s2 it2 Enc C1 E) as (G & R' & A).
  assert (G0 : gframe s s2) by (eapply gframe_trans; [|exact G]; split; [exact E3|reflexivity]).
  destruct (tx_views (unsent s)) as (X1 & X2 & X3 & X4 & X5 & X6 & X7 & X8).
  assert (HA : has_adv21 (tx_items (unsent s) ++ it2) = negb (in_connection s2)) by (rewrite has_adv21_app, X3; exact A).
  destruct (q_stop m) eqn:QS.
  { (* not judged any more *)
    rewrite HA. destruct (in_connection s2) eqn:C2; cbn [negb acceptable].
    - exact (stopped_sim c s s2 m m SM I' G0 R' C2 QC QS eq_refl).
    - exact (ended_sim c s s2 m SM I' G0 R' C2). }
  destruct PH as [(P & _)|[(_ & P & _)|(_ & _ & _ & LV)]]; try congruence.
  destruct LV as [L1 PR L3 L4 L5 L6].
  (* 1. what is on air *)
  rewrite att_on_air_app, X8. fold (att_of (unsent s)). rewrite L4, app_length, repeat_length.
  rewrite owed_le.
  match goal with |- context [if ?x then (Bad 11, m) else _] => destruct x end; [right; repeat constructor|].
  (* 2. the receive queue *)
  set (rx := q_rx m ++ normalise21 pdus).
  assert (RX : rx = rxq (bf s1)) by (subst rx s1; cbn [bf set_bf]; rewrite E4, L3; reflexivity).
  set (m1 := set_q_owed (set_q_rx m rx) 0).
  assert (Q1 : qrel c s1 m1).
  { destruct PR as [A1 A2 A3 A4 A5]. split; subst m1 s1; cbn [q_rx q_txa q_n set_q_owed set_q_rx bf cs set_bf]; auto; try congruence;
      try (unfold pend_rel in *; cbn [q_pend set_q_owed set_q_rx deferred def_instant set_bf]; exact A5). }
  assert (PR1 : plan_rel c s1 m1) by (destruct PR as [A1 A2 A3 A4 A5]; split; auto).
  pose proof (end_event_live c s1 m1 evts s2 it2 Enc L1 C1 R I1 Q1 PR1) as EL.
  assert (SP1 : stopped (bf s1) = false) by (subst s1; cbn [bf set_bf]; congruence).
  specialize (EL SP1 eq_refl E5 E6 E). cbn zeta in EL. rewrite <- RX in EL.
  destruct (process21 (S (length rx)) c m1) as [m2 res] eqn:HP. cbn [fst snd] in *. destruct EL as (MS & EL).
  assert (TX2 : q_txa m2 = q_txa m) by (destruct MS as (_ & _ & M & _); exact M).
  apply andb_prop in ENV. destruct ENV as (CNT & ENV). apply N.ltb_lt in CNT. rewrite cb_count_app, X7, N.add_0_l in CNT.
  assert (ENDED : in_connection s2 = false -> Sim c s2 (ended21 m2)).
  { intros C2. destruct (ended_sim c s s2 m SM I' G0 R' C2) as (B1 & B2 & B3 & B4 & B5).
    split; [exact B1|]. split; [exact B2|]. split; [cbn [q_txa ended21] in *; congruence|]. split; [exact B4|]. left. split; [reflexivity|exact C2]. }
  destruct res.
  - (* QGo *)
    rewrite HA. destruct (in_connection s2) eqn:C2; cbn [negb].
    2:{ destruct (has_closed21 _ 40); [destruct (q_pend m2); [destruct (q_pend m)|]; cbn [acceptable]; first [left; reflexivity|right; repeat constructor]|exact (ENDED eq_refl)]. }
    destruct EL as [EL|EL]; [discriminate|].
    destruct EL as (s5 & l & t & ll & s8 & it3 & it8 & s10 & F1 & F2 & F3 & F4 & F5 & F6 & F7 & F8 & F9 & F10 & F11 & F12 & F13 & F14 & F15 & F16 & F17 & F18).
    subst s2 it2.
    assert (C8 : in_connection s8 = true) by (unfold in_connection; destruct F9 as [-> | ->]; reflexivity).
    destruct (quiet_views it3 F10) as (Y1 & Y2 & Y3 & Y4 & Y5 & Y6 & Y7).
    destruct (pts_items_views c _ s8 it8 (ring s10) F8 C8) as (V1 & V2 & V3 & V4).
    destruct F11 as [(K1 & K2 & K3 & K4 & K5 & K6 & K7) KF KS KT KQ (evs & KR1 & KR2) KD].
    (* the views of the whole result *)
    set (it := tx_items (unsent s) ++ it3 ++ it8 ++ cb_items (ring s10)).
    assert (W1 : find_ce21 it = find_ce21 it8).
    { subst it. rewrite (find_ce21_app (tx_items (unsent s))), (find_ce21_app it3), V1, Y1, X1. destruct (find_ce21 it8); reflexivity. }
    assert (W2 : phys21 it = phys21 it8) by (subst it; rewrite (phys21_app (tx_items (unsent s))), (phys21_app it3), V2, Y6, X6; reflexivity).
    assert (W3 : changed21 it = last_changed (ring s8)).
    { subst it. rewrite (changed21_app (tx_items (unsent s))), (changed21_app it3), V3, Y2, X2. rewrite KR1. unfold last_changed. rewrite fold_left_app, (fold_changed_benign evs _ KR2).
      destruct (fold_left _ (ring s8) None); reflexivity. }
    assert (LR : (length (ring s8) < 4)%nat).
    { pose proof (cb_count_ge_ring (it3 ++ it8) (ring s10)) as GE. rewrite <- app_assoc in GE.
      assert (LE : (length (ring s8) <= length (ring s10))%nat) by (rewrite KR1, app_length; clear; lia). clear - GE CNT LE. lia. }
    fold it in ENV |- *.
    destruct (find_ce21 it) as [[[[ch ws] we] iv']|] eqn:FC; [|right; repeat constructor].
    destruct (skip_of m2 it ws we iv') as [k|] eqn:SK; [|right; repeat constructor].
    unfold ev_derived in ENV. fold rx in ENV. fold m1 in ENV. rewrite HP in ENV. cbn [fst] in ENV. rewrite FC, SK in ENV.
    apply N.eqb_eq in ENV.
    assert (TS : u16 (evc (cs (set_ring s10 [])) + 65536 - evc (cs s)) = l).
    { cbn [cs set_ring]. rewrite K2, (pts_evc c _ s8 it8 F8 C8). cbn [cs evc set_cs].
      replace (evc (cs s)) with (evc (cs s5)) by (rewrite F2; reflexivity). apply step_arith; assumption. }
    rewrite TS in ENV. subst k.
    replace (l =? 0) with false by (clear - F4; lia).
    assert (NA : st s8 <> Advertising) by (destruct F9 as [-> | ->]; discriminate).
    pose proof (plan21_sound c m2 s5 l t ll s8 it8 it (l * q_iv m2) F8 NA F1 F3 F4 F5 F6 F7 LR (eq_trans FC W1) W2 W3 ch ws we iv' FC) as PS.
    destruct (plan21 c m2 it l ch iv' (l * q_iv m2)) as [[|k] m']; cbn [acceptable]; [|exact PS].
    destruct MS as (M1 & M2 & M3 & _).
    assert (ND : lstate_eqb (st (set_ring s10 [])) Disconnecting = false) by (cbn [st set_ring]; rewrite K1; destruct F9 as [-> | ->]; reflexivity).
    assert (QC2 : q_conn m2 = true) by (rewrite M1; exact QC). assert (QS2 : q_stop m2 = false) by (rewrite M2; exact QS).
    assert (OW : att_of (unsent (set_ring s10 [])) = repeat att_mtu_response (N.to_nat (q_owed m2))).
    { unfold unsent. cbn [bf set_ring]. fold (unsent s10). rewrite (unsent_ctlk s8 s10); [exact F14| |exact F18].
      split; auto; [repeat split; assumption|exists evs; auto]. }
    assert (RXF : q_rx m2 = rxq (bf (set_ring s10 []))) by (cbn [bf set_ring]; congruence).
    assert (SPF : stopped (bf (set_ring s10 [])) = false) by (cbn [bf set_ring]; congruence).
    destruct (phase_after_plan c s8 (set_ring s10 []) m2 m' _ PS QC2 QS2 C2 ND K2 K5 K6 K3 K4 RXF OW SPF) as (PH' & TX).
    split; [exact I'|]. split; [reflexivity|]. split; [|split; [destruct G0 as (_ & G2); cbn [chan set_ring] in *; congruence|exact PH']].
    rewrite TX, TX2. cbn [bf set_ring]. rewrite KT, F17. subst s1. cbn [bf set_bf]. rewrite E3. exact T.
  - (* QStop *)
    rewrite HA. destruct (in_connection s2) eqn:C2; cbn [negb acceptable]; [|exact (ENDED eq_refl)].
    apply (stopped_sim c s s2 m (stop21 m2) SM I' G0 R' C2); try reflexivity. exact TX2.
  - (* QClosed *) cbn [acceptable]. exact (ENDED EL).
  - (* QPassed *)
    destruct EL as (EL1 & EL2). rewrite HA, EL1. cbn [negb andb].
    assert (CL : has_closed21 (tx_items (unsent s) ++ it2) 40 || negb (c_cb c) = true).
    { destruct (c_cb c) eqn:CB; [|apply orb_true_r]. rewrite has_closed21_app, (EL2 eq_refl CNT). apply orb_true_l || (rewrite orb_true_r; reflexivity). }
    rewrite CL. cbn [acceptable]. exact (ENDED EL1).
Qed.

(* ========================================================================================== every operation, every history *)
Theorem sim_step c s m o :
  c_enc c = false -> Sim c s m -> op_ok o ->
  step_env c s m o (snd (lstep c s o)) (fst (lstep c s o)) = true ->
  acceptable (mstep21 c m o (snd (lstep c s o))) (Sim c (fst (lstep c s o))).
Proof.
  intros Enc SM Ho ENV.
  destruct o; try (apply sim_simple; [exact Enc|exact SM|exact Ho|exact Logic.I]).
  - apply sim_adv; assumption.
  - apply sim_ev; assumption.
  - apply sim_timeout; assumption.
  - apply sim_cancel; assumption.
Qed.

Lemma mrun21_enc c : c_enc c = true -> forall tr m, mrun21 c m tr = Ok.
Proof.
  intros Enc. induction tr as [|[o r] t IH]; intros m; cbn [mrun21]; [reflexivity|].
  unfold mstep21. rewrite Enc. apply IH.
Qed.

Theorem monitor_accepts_sim c : c_enc c = false -> forall ops s m,
  Sim c s m -> Forall op_ok ops -> env_run c s m ops = true ->
  forall k, mrun21 c m (lrun c s ops) = Bad k -> (k = 7 \/ 8 <= k)%nat.
Proof.
  intros Enc. induction ops as [|o t IH]; intros s m SM Hops ENV k H; cbn [lrun mrun21] in *; [discriminate|].
  inversion Hops as [|? ? Ho Ht]; subst.
  cbn [env_run] in ENV.
  pose proof (sim_step c s m o Enc SM Ho) as ST.
  destruct (lstep c s o) as [s' r]. cbn [fst snd] in *. cbn [mrun21] in H.
  apply andb_prop in ENV. destruct ENV as (E1 & E2). specialize (ST E1).
  destruct (mstep21 c m o r) as [[|k'] m']; cbn [acceptable] in ST.
  - exact (IH s' m' ST Ht E2 k H).
  - inversion H; subst. exact ST.
Qed.

(* The monitor raises none of the clauses 1 - 6 of the property (applied_at_instant, applied_params,
   instant_passed_terminates, accepted_but_never_applied, data_blocked_beyond_instant, instant_skipped) on any trace of the
   model, for operation sequences of any length, in the environment [env_run]:
     - fewer than 4 callbacks per operation (the ring of 4 callback events did not overflow - property C29), and
     - in every connection event / event cancelation the number of events the monitor derives from the window handed to
       the radio equals the number of events the link layer's counter moved (the timing derivation - ppm widening,
       32 bit microsecond arithmetic - is property C22 / C23's; here it is checked on every run by the clause `counter`).
   Tag 7 (reachable_instant_refused) is the known finding; tags >= 8 are not clauses of this property. *)
Theorem monitor_accepts_partial c ops :
  Forall op_ok ops -> env_run c (linit c) (minit21 c) ops = true ->
  forall k, mrun21 c (minit21 c) (lrun c (linit c) ops) = Bad k -> (k = 7 \/ 8 <= k)%nat.
Proof.
  intros Hops ENV k H. destruct (c_enc c) eqn:Enc.
  - rewrite (mrun21_enc c Enc) in H. discriminate.
  - exact (monitor_accepts_sim c Enc ops (linit c) (minit21 c) (Sim_init c) Hops ENV k H).
Qed.

(* the environment is met by the example sessions *)
Lemma env_session21 : env_run cfg21 (linit cfg21) (minit21 cfg21) session21 = true.
Proof. vm_compute. reflexivity. Qed.
Lemma env_cancel_session :
  env_run cfg21 (linit cfg21) (minit21 cfg21)
    [Run; connect21 3; Ev 0 []; Ev 2 [map_pdu 20]; Ev 0 []; Cancel true 100; St; Ev 0 []; Ev 0 []; Ev 0 []; Cancel true 100; St; Ev 0 []] = true.
Proof. vm_compute. reflexivity. Qed.

(* without the environment the statement is false: four callbacks fill the ring of callback events, the `closed( 0x28 )`
   callback of a refused indication is lost (C29, DESIGN section 7 #25) and the monitor misses it *)
Definition monitor_accepts_rest_full : Prop :=
  forall c ops, Forall op_ok ops ->
    forall k, mrun21 c (minit21 c) (lrun c (linit c) ops) = Bad k -> (k = 7 \/ 8 <= k)%nat.
Definition rej_pdu : pdu := (3, [13; 6]).
Definition witness_ring_overflow : list lop := pre21 ++ [Ev 0 [rej_pdu; rej_pdu; rej_pdu; rej_pdu; upd_pdu 40 2]].
Lemma witness_ring_overflow_rejected :
  verdict21 (trace21 witness_ring_overflow) = Bad 3 /\ env_run cfg21 (linit cfg21) (minit21 cfg21) witness_ring_overflow = false.
Proof. vm_compute. split; reflexivity. Qed.
Lemma monitor_accepts_rest_refuted : ~ monitor_accepts_rest_full.
Proof.
  intros F. specialize (F cfg21 witness_ring_overflow).
  assert (H : Forall op_ok witness_ring_overflow) by (repeat constructor).
  specialize (F H 3%nat (proj1 witness_ring_overflow_rejected)). destruct F as [F|F]; [discriminate|]. repeat (apply le_S_n in F). inversion F.
Qed.
