(* C21  Instant-based procedures apply at their instant or end the link: specification and monitor.

   Specification level notions (Core Vol 6 Part B 5.1.1 connection update, 5.1.2 channel map update, 5.1.10 PHY update):
     distance I c      = ( I - c ) mod 65536, c = the counter of the connection event at whose end the PDU is looked at
     reachable I c     = 1 <= distance <= 32766.  distance >= 32767: "the instant is in the past"; distance = 0: the event
                         that would have been the instant is the one that just ended - it can not be met either.
     A reachable procedure is applied - with the values the PDU carried - when the connection event with counter I is
     scheduled, not before and not later; every other one ends the link with error 0x28 "instant passed" in the very
     event that looked at it. While a procedure waits, received PDUs wait too (they are queued); they are looked at again
     from the connection event I on.

   The monitor [mstep21] judges an OBSERVED trace (operations and result items). It keeps its own account of
     - the counter and channel index of the connection event that is scheduled, derived from the TIMING handed to the
       radio ( centre of the receive window / interval = number of events planned ahead; a missed event = 1; a pulled
       back event = the difference of the centres ), never from the link layer's own counter; an `st` readout, when the
       trace has one, must agree with that account (tag counter);
     - the receive queue: which PDU is looked at in which event (a control PDU needs a transmit buffer - `txavail`);
     - the channel map in force (CSA#1, ChanMapSpec.csa1), the interval in force;
     - the ATT answers that are owed (ATT Exchange MTU requests are the probe for "reception goes on").
   Clauses (tags):
      1 applied_at_instant           a procedure takes effect in an event other than its instant: evidence of the new
                                     parameters before the instant, without a procedure, or the scheduled event is moved back
                                     in front of the instant after the procedure was applied
      2 applied_params               what is applied at the instant is not what the PDU carried
      3 instant_passed_terminates    an instant that can not be met is not answered by ending the link with 0x28 in that event
      4 accepted_but_never_applied   the event with the counter of the instant is scheduled and nothing was applied
      5 data_blocked_beyond_instant  an ATT request that was due for an answer got none (reception stays blocked)
      6 instant_skipped              the planned event lies behind the instant of a waiting procedure
      7 reachable_instant_refused    link ended with 0x28 although the instant could be met
      8 fault                        assert / sanitizer abort
      9 counter                      `st` disagrees with the monitor's account (counter, channel index, waiting procedure)
     10 channel                      a connection event on a channel that is neither the old nor the new map's
     11 shape                        timing that is no whole number of intervals, no event scheduled, unexpected ATT PDU
   Out of scope (stops judging until the next connection): disconnect(), LLID 1 fragments (C27 finding), encryption
   (configurations with c_enc are not judged at all), a connection update whose parameters are outside the Core ranges,
   a channel map with fewer than two used channels. *)
From BT Require Import Base.ListX LL.LLModel LL.LLSpec.
From BT Require ChanMap.ChanMapSpec.
Import ListNotations.
Local Open Scope N_scope.

(* ------------------------------------------------------------------------------------------ the Core's rule *)
Definition distance (inst c : N) : N := (inst + 65536 - c) mod 65536.
Definition reachable (inst c : N) : bool := (1 <=? distance inst c) && (distance inst c <=? 32766).

Inductive proc21 :=
| PUpdate (wsz woff ivl lat tmo : N)       (* units of the PDU: 1.25 ms, 1.25 ms, 1.25 ms, events, 10 ms *)
| PMap (chm : list N)
| PPhy (c_to_p p_to_c : N).

Definition phy_code_ok (x : N) : bool := (x =? 0) || (x =? 1) || (x =? 2).

(* which received PDUs start a procedure with an instant: ( procedure, instant ) *)
Definition classify21 (phy : bool) (p : pdu) : option (proc21 * N) :=
  let '(llid, b) := p in
  let size := N.of_nat (length b) in
  if negb (llid =? 3) then None
  else if (size =? 12) && (byte b 0 =? 0) then Some (PUpdate (byte b 1) (rd16 b 2) (rd16 b 4) (rd16 b 6) (rd16 b 8), rd16 b 10)
  else if (size =? 8) && (byte b 0 =? 1) then Some (PMap (slice b 1 5), rd16 b 6)
  else if phy && (size =? 5) && (byte b 0 =? 24) && phy_code_ok (byte b 1) && phy_code_ok (byte b 2)
          && negb ((byte b 1 =? 0) && (byte b 2 =? 0)) then Some (PPhy (byte b 1) (byte b 2), rd16 b 3)
  else None.

Definition is_terminate (p : pdu) : bool :=
  let '(llid, b) := p in (llid =? 3) && (N.of_nat (length b) =? 2) && (byte b 0 =? 2).

(* the ranges of the Core specification for the parameters of a connection update *)
Definition update_valid (wsz woff ivl lat tmo : N) : bool :=
  (6 <=? ivl) && (ivl <=? 3200) && (lat <=? 499) && (10 <=? tmo) && (tmo <=? 3200)
  && ((1 + lat) * ivl * 2 * 1250 <? tmo * 10000)
  && (1 <=? wsz) && (wsz <=? 8) && (wsz <=? ivl) && (woff <=? ivl).

Definition map_valid (chm : list N) : bool := (2 <=? ChanMapSpec.num_used chm)%nat.

Definition csa1_channel (chm : list N) (hop idx : N) : N :=
  N.of_nat (ChanMapSpec.csa1 chm (N.to_nat hop) (N.to_nat idx)).

Definition att_mtu_response : list N := [3; 0; 4; 0; 3; 23; 0].

(* ------------------------------------------------------------------------------------------ the monitor *)
Record mon21 := mk21 {
  q_conn : bool;                 (* in a connection that is judged *)
  q_stop : bool;                 (* ... but out of scope until it ends *)
  q_txa : bool;                  (* transmit buffers available (`txavail`) *)
  q_n : N;                       (* counter of the scheduled connection event *)
  q_idx : N;                     (* its channel index = number of the event mod 37 *)
  q_iv : N;                      (* interval in force, us *)
  q_t : N;                       (* time from the last anchor to the scheduled event, us *)
  q_map : list N;                (* channel map in force *)
  q_hop : N;
  q_rx : list pdu;               (* received, not yet looked at *)
  q_owed : N;                    (* ATT answers committed, due on air in the next event *)
  q_pend : option (proc21 * N);  (* the procedure that waits for its instant *)
  q_applied : bool               (* the scheduled event is the instant of a procedure that was applied when it was planned *)
}.

Definition minit21 (c : cfg) : mon21 := mk21 false false true 0 0 0 0 [] 0 [] 0 None false.
Definition ended21 (m : mon21) : mon21 := mk21 false false (q_txa m) 0 0 0 0 [] 0 [] 0 None false.
Definition stop21 (m : mon21) : mon21 := mk21 true true (q_txa m) 0 0 0 0 [] 0 [] 0 None false.
Definition set_q_txa (m : mon21) (v : bool) : mon21 :=
  mk21 (q_conn m) (q_stop m) v (q_n m) (q_idx m) (q_iv m) (q_t m) (q_map m) (q_hop m) (q_rx m) (q_owed m) (q_pend m) (q_applied m).
Definition set_q_rx (m : mon21) (v : list pdu) : mon21 :=
  mk21 (q_conn m) (q_stop m) (q_txa m) (q_n m) (q_idx m) (q_iv m) (q_t m) (q_map m) (q_hop m) v (q_owed m) (q_pend m) (q_applied m).
Definition set_q_owed (m : mon21) (v : N) : mon21 :=
  mk21 (q_conn m) (q_stop m) (q_txa m) (q_n m) (q_idx m) (q_iv m) (q_t m) (q_map m) (q_hop m) (q_rx m) v (q_pend m) (q_applied m).
Definition set_q_pend (m : mon21) (v : option (proc21 * N)) : mon21 :=
  mk21 (q_conn m) (q_stop m) (q_txa m) (q_n m) (q_idx m) (q_iv m) (q_t m) (q_map m) (q_hop m) (q_rx m) (q_owed m) v (q_applied m).
(* the outcome of planning: counter, channel index, interval, time, map, waiting procedure, applied *)
Definition planned21 (m : mon21) (n idx iv t : N) (chm : list N) (pend : option (proc21 * N)) (applied : bool) : mon21 :=
  mk21 (q_conn m) (q_stop m) (q_txa m) n idx iv t chm (q_hop m) (q_rx m) (q_owed m) pend applied.

(* ---- reading the result items *)
Definition find_ce21 (it : list item) : option (N * N * N * N) :=
  fold_left (fun a i => match i with ICe ch s e iv => Some (ch, s, e, iv) | _ => a end) it None.
Definition has_adv21 (it : list item) : bool := existsb (fun i => match i with IAdv _ => true | _ => false end) it.
Definition has_closed21 (it : list item) (r : N) : bool :=
  existsb (fun i => match i with ICb (EvClosed x) => x =? r | _ => false end) it.
Definition changed21 (it : list item) : option details :=
  fold_left (fun a i => match i with ICb (EvChanged d) => Some d | _ => a end) it None.
Definition phys21 (it : list item) : list (N * N) :=
  flat_map (fun i => match i with IPhy a b => [(a, b)] | _ => [] end) it.
Definition att_on_air (it : list item) : list (list N) :=
  flat_map (fun i => match i with ITx 2 b => [b] | _ => [] end) it.
Definition has_disarm21 (it : list item) : bool := existsb (fun i => match i with IDisarm => true | _ => false end) it.

(* ---- the receive queue: what the link layer has to look at at the end of the event with counter q_n *)
Inductive pres21 := QGo | QStop | QClosed | QPassed.

Fixpoint process21 (fuel : nat) (c : cfg) (m : mon21) : mon21 * pres21 :=
  match fuel with
  | O => (m, QGo)
  | S fuel' =>
      match q_pend m with
      | Some _ => (m, QGo)
      | None =>
          match q_rx m with
          | [] => (m, QGo)
          | p :: rest =>
              let pop (x : mon21) := set_q_rx x rest in
              let '(llid, body) := p in
              if llid =? 3 then
                if negb (q_txa m) then (m, QGo)
                else if is_terminate p then (pop m, QClosed)
                else
                  match classify21 (c_phy c) p with
                  | Some (pr, inst) =>
                      if reachable inst (q_n m) then (set_q_pend (pop m) (Some (pr, inst)), QGo)
                      else (pop m, QPassed)
                  | None => process21 fuel' c (pop m)
                  end
              else if llid =? 2 then
                match l2cap_reply body with
                | L2Drop => process21 fuel' c (pop m)
                | L2Reply r =>
                    if q_txa m
                    then process21 fuel' c (set_q_owed (pop m) (q_owed m + match r with Some _ => 1 | None => 0 end))
                    else (m, QGo)
                end
              else (m, QStop)
          end
      end
  end.

(* ---- planning: the connection event scheduled by this operation lies k events after the one scheduled before *)
Definition same_details (d : details) (ivl lat tmo : N) : bool :=
  (d_interval d =? ivl) && (d_latency d =? lat) && (d_timeout d =? tmo).

Definition plan21 (c : cfg) (m : mon21) (it : list item) (k ch iv' t' : N) : verdict * mon21 :=
  let n' := (q_n m + k) mod 65536 in
  let idx' := (q_idx m + k) mod 37 in
  let upd_evidence := negb (iv' =? q_iv m) || match changed21 it with Some _ => true | None => false end in
  let old_ch := csa1_channel (q_map m) (q_hop m) idx' in
  let nothing_applied (new_map : option (list N)) : verdict :=
    if upd_evidence then Bad 1
    else match phys21 it with
         | _ :: _ => Bad 1
         | [] =>
             if ch =? old_ch then Ok
             else match new_map with
                  | Some nm => if ch =? csa1_channel nm (q_hop m) idx' then Bad 1 else Bad 10
                  | None => Bad 10
                  end
         end in
  match q_pend m with
  | None =>
      match nothing_applied None with
      | Ok => (Ok, planned21 m n' idx' (q_iv m) t' (q_map m) None false)
      | bad => (bad, m)
      end
  | Some (pr, inst) =>
      let d := distance inst (q_n m) in
      if d <? k then (Bad 6, m)
      else if k <? d then
        match nothing_applied (match pr with PMap nm => Some nm | _ => None end) with
        | Ok => (Ok, planned21 m n' idx' (q_iv m) t' (q_map m) (q_pend m) false)
        | bad => (bad, m)
        end
      else
        (* the scheduled event is the instant *)
        match pr with
        | PUpdate wsz woff ivl lat tmo =>
            if negb (update_valid wsz woff ivl lat tmo) then (Ok, stop21 m)
            else
              let cb_ok := match changed21 it with Some dt => same_details dt ivl lat tmo | None => true end in
              if negb cb_ok then (Bad 2, m)
              else if negb (iv' =? ivl * 1250) then (if iv' =? q_iv m then (Bad 4, m) else (Bad 2, m))
              else if (ivl * 1250 =? q_iv m) && c_cb c && match changed21 it with None => true | Some _ => false end then (Bad 4, m)
              else match phys21 it with
                   | _ :: _ => (Bad 1, m)
                   | [] => if ch =? old_ch then (Ok, planned21 m n' idx' (ivl * 1250) t' (q_map m) None true) else (Bad 10, m)
                   end
        | PMap nm =>
            if negb (map_valid nm) then (Ok, stop21 m)
            else if upd_evidence then (Bad 1, m)
            else match phys21 it with
                 | _ :: _ => (Bad 1, m)
                 | [] =>
                     if ch =? csa1_channel nm (q_hop m) idx' then (Ok, planned21 m n' idx' (q_iv m) t' nm None true)
                     else if ch =? old_ch then (Bad 4, m) else (Bad 2, m)
                 end
        | PPhy a b =>
            if upd_evidence then (Bad 1, m)
            else if negb (ch =? old_ch) then (Bad 10, m)
            else match phys21 it with
                 | [] => (Bad 4, m)
                 | [(a', b')] => if (a' =? a) && (b' =? b) then (Ok, planned21 m n' idx' (q_iv m) t' (q_map m) None true) else (Bad 2, m)
                 | _ => (Bad 2, m)
                 end
        end
  end.

(* number of events planned ahead, from the window handed to the radio after a connection event took place *)
Definition skip_of (m : mon21) (it : list item) (s e iv' : N) : option N :=
  let centre := (s + e) / 2 in
  let upd_evidence := negb (iv' =? q_iv m) || match changed21 it with Some _ => true | None => false end in
  if q_iv m =? 0 then None
  else
    match q_pend m with
    | Some (PUpdate wsz woff _ _ _, _) =>
        (* the transmit window of the update: seen by the new interval / the callback, or - without callbacks and with an
           unchanged interval - by a window that is no whole number of intervals from the anchor *)
        if upd_evidence || negb (centre mod q_iv m =? 0)
        then Some ((centre + q_iv m / 2 - woff * 1250 - wsz * 1250 / 2) / q_iv m)
        else Some (centre / q_iv m)
    | _ => if centre mod q_iv m =? 0 then Some (centre / q_iv m) else None
    end.

Definition judge_st (m : mon21) (it : list item) : verdict :=
  match it with
  | [ISt _ evc chidx _ _ _ defop inst _] =>
      if negb ((evc =? q_n m) && (chidx =? q_idx m)) then Bad 9
      else match q_pend m, defop with
           | None, None => Ok
           | Some (pr, i), Some o =>
               if (i =? inst) && (o =? match pr with PUpdate _ _ _ _ _ => 0 | PMap _ => 1 | PPhy _ _ => 24 end) then Ok else Bad 9
           | _, _ => Bad 9
           end
  | _ => Ok
  end.

Definition normalise21 (pdus : list pdu) : list pdu :=
  filter (fun p => negb (N.of_nat (length (snd p)) =? 0) && negb (N.land (fst p) 3 =? 0))
         (map (fun p => (N.land (fst p) 3, snd p)) pdus).

Definition mstep21 (c : cfg) (m : mon21) (o : lop) (r : lout) : verdict * mon21 :=
  if c_enc c then (Ok, m) else
  match r with
  | OCrash => (Bad 8, m)
  | OPre | OBadOp => (Ok, m)
  | OItems it =>
      match o with
      | TxAvail b => (Ok, set_q_txa m b)
      | Adv _ body =>
          if q_conn m then (Ok, m)
          else match find_ce21 it with
               | Some (ch, s, e, iv) =>
                   let chm := slice body 28 5 in
                   let hop := N.land (byte body 33) 31 in
                   if ch =? csa1_channel chm hop 0
                   then (Ok, mk21 true false (q_txa m) 0 0 (rd16 body 22 * 1250) 0 chm hop [] 0 None false)
                   else (Bad 10, m)
               | None => (Ok, m)
               end
      | Run | AdvTimeout | Key _ | Cpu _ _ _ _ | Cpr _ _ _ _ | PhyReq _ _ | VerReq | CprReply _ _ _ _ | CprNeg _ => (Ok, m)
      | St => if q_conn m && negb (q_stop m) then (judge_st m it, m) else (Ok, m)
      | Disconnect _ => if q_conn m then (Ok, stop21 m) else (Ok, m)
      | Cancel _ _ =>
          if negb (q_conn m) || q_stop m then (Ok, m)
          else if negb (has_disarm21 it) then (Ok, m)
          else
            match find_ce21 it with
            | None => (Ok, m)
            | Some (ch, s, e, iv') =>
                let centre := (s + e) / 2 in
                if (q_iv m =? 0) || negb (iv' =? q_iv m) || (q_t m <? centre) || negb ((q_t m - centre) mod q_iv m =? 0) then (Bad 11, m)
                else
                  let back := (q_t m - centre) / q_iv m in
                  if 518 <? back then (Bad 11, m)
                  else if (0 <? back) && q_applied m then (Bad 1, m)
                  else
                    let idx' := (q_idx m + 518 - back) mod 37 in
                    if negb (ch =? csa1_channel (q_map m) (q_hop m) idx') then (Bad 10, m)
                    else (Ok, planned21 m ((q_n m + 65536 - back) mod 65536) idx' (q_iv m) centre (q_map m) (q_pend m) (q_applied m))
            end
      | Timeout =>
          if negb (q_conn m) then (Ok, m)
          else if has_adv21 it then (Ok, ended21 m)
          else if q_stop m then (Ok, m)
          else
            match find_ce21 it with
            | None => (Bad 11, m)
            | Some (ch, s, e, iv') => plan21 c m it 1 ch iv' (q_t m + q_iv m)
            end
      | Ev _ pdus =>
          if negb (q_conn m) then (Ok, m)
          else if q_stop m then (Ok, if has_adv21 it then ended21 m else m)
          else
            (* 1. the ATT answers that are due are on air *)
            let air := att_on_air it in
            if N.of_nat (length air) <? q_owed m then (Bad 5, m)
            else if negb (N.of_nat (length air) =? q_owed m) || negb (forallb (fun b => bytes_eqb b att_mtu_response) air) then (Bad 11, m)
            else
              (* 2. delivery, and what is looked at at the end of this event *)
              let rx := q_rx m ++ normalise21 pdus in
              let '(m2, res) := process21 (S (length rx)) c (set_q_owed (set_q_rx m rx) 0) in
              match res with
              | QClosed => (Ok, ended21 m2)
              | QStop => (Ok, if has_adv21 it then ended21 m2 else stop21 m2)
              | QPassed =>
                  if has_adv21 it && (has_closed21 it 40 || negb (c_cb c)) then (Ok, ended21 m2) else (Bad 3, m2)
              | QGo =>
                  if has_adv21 it then
                    if has_closed21 it 40 then (match q_pend m2, q_pend m with Some _, None => Bad 7 | _, _ => Bad 11 end, m2)
                    else (Ok, ended21 m2)
                  else
                    (* 3. the next connection event *)
                    match find_ce21 it with
                    | None => (Bad 11, m2)
                    | Some (ch, s, e, iv') =>
                        match skip_of m2 it s e iv' with
                        | None => (Bad 11, m2)
                        | Some k => if k =? 0 then (Bad 11, m2) else plan21 c m2 it k ch iv' (k * q_iv m2)
                        end
                    end
              end
      end
  end.

Fixpoint mrun21 (c : cfg) (m : mon21) (tr : list (lop * lout)) : verdict :=
  match tr with
  | [] => Ok
  | (o, r) :: t => match mstep21 c m o r with (Ok, m') => mrun21 c m' t | (Bad k, _) => Bad k end
  end.

Definition accepts21 (c : cfg) (tr : list (lop * lout)) : Prop := mrun21 c (minit21 c) tr = Ok.

(* ------------------------------------------------------------------------------------------ the comparisons before the repair *)
(* handle_ll_control_data() as it was before fix/C21-instant-checks (DESIGN.md section 7 #18), kept to state what was wrong *)
Definition old_update_check (inst evc : N) : bool :=
  bit (u16 (inst + 65536 - evc + 1)) 32768 || (inst =? evc + 1).
Definition old_map_check (inst evc : N) : bool := bit (u16 (inst + 65536 - evc)) 32768.
Definition old_phy_check (inst evc : N) : bool := false.
