(* C27: the specification monitor (LLSpecC27.mstep27) accepts every trace of the model that stays inside the environment
   [env27] - operation histories of any length that avoid the three known findings (phy_update_request(),
   remote_versions_request(), LLID 1 fragments), in which PDU bytes are bytes and no delta_time assert fails - for every
   configuration without asynchronous_connection_parameter_request<> (and well formed desired_connection_parameters<>).

   Structure: a coupling [Tight] between model state and monitor state while the monitor judges a connection; outside
   (not connected, or the monitor has stopped judging: instant based procedures, encryption, disconnect(), cancelation)
   only three global facts are kept: the scripted transmit buffer availability, property C21's invariant (no deferred
   PDU outside a connection) and property C28's invariant (security flags off outside a connection) - both reused from
   LLProofsC21 / LLProofsC28 through their step lemmas. The radio's part of an event reuses LLProofsC28Air.radio_event_air. *)
From Coq Require Import Lia ZifyBool NArith List Bool.
From BT Require Import Base.ListX Base.Bits2 LL.LLModel LL.LLSpec LL.LLSpecC27 LL.LLSpecC22 LL.LLProofs.
From BT Require LL.LLProofsC21 LL.LLProofsC28 LL.LLProofsC28Air LL.LLSpecC28.
From BT Require gen.GenLL.
Import ListNotations.
Local Open Scope N_scope.

Ltac nlia := zify; Z.to_euclidean_division_equations; lia.

(* ========================================================================================== the environment *)
Definition pdu_ok27 (p : pdu) : bool :=
  forallb (fun b => b <? 256) (snd p)
  && negb ((N.land (fst p) 3 =? 1) && negb (N.of_nat (length (snd p)) =? 0)).      (* no LLID 1 fragment *)

Definition op_ok27 (o : lop) : bool :=
  match o with
  | PhyReq _ _ | VerReq => false
  | Ev _ pdus => forallb pdu_ok27 pdus
  | _ => true
  end.

Definition cfg_ok27 (c : cfg) : bool :=
  match c_cpr c with
  | CprAsync => false
  | CprDesired imin imax lmin lmax tmin tmax =>
      (imin <=? imax) && (imax <? 65536) && (lmin <=? lmax) && (lmax <? 65536) && (tmin <=? tmax) && (tmax <? 65536)
  | CprNone => true
  end.

Definition is_crash (r : lout) : bool := match r with OCrash => true | _ => false end.

Fixpoint env27 (c : cfg) (s : lstate_t) (ops : list lop) : bool :=
  match ops with
  | [] => true
  | o :: r => op_ok27 o && negb (is_crash (snd (lstep c s o))) && env27 c (fst (lstep c s o)) r
  end.

(* ========================================================================================== small facts *)
Lemma bytes_eqb_refl a : bytes_eqb a a = true.
Proof. induction a; simpl; [reflexivity|]. rewrite N.eqb_refl. exact IHa. Qed.
Lemma bytes_eqb_eq a b : bytes_eqb a b = true -> a = b.
Proof. apply LLProofsC28Air.bytes_eqb_eq. Qed.

Lemma dt_add_exact a b r : dt_add a b = Some r -> r = a + b.
Proof.
  unfold dt_add, u32. destruct (_ && _) eqn:E; [|discriminate]. intros H. inversion H. clear H H1. nlia.
Qed.
Lemma dt_sub_exact a b r : dt_sub a b = Some r -> r = a - b /\ b <= a.
Proof. unfold dt_sub. destruct (b <=? a) eqn:E; [|discriminate]. intros H. inversion H. lia. Qed.

Definition noce (i : item) : bool := match i with ICe _ _ _ _ => false | _ => true end.
Lemma last_ce_pick a ch ws we iv b : forallb noce b = true -> last_ce (a ++ ICe ch ws we iv :: b) = Some (ws, we).
Proof.
  intros H. unfold last_ce. rewrite fold_left_app. cbn [fold_left].
  generalize (Some (ws, we)) as o. induction b as [|i b IH]; intros o; [reflexivity|].
  simpl in H. apply andb_prop in H. destruct H as [H1 H2]. destruct i; try discriminate; simpl; apply IH; exact H2.
Qed.
Lemma last_ce_none a : forallb noce a = true -> last_ce a = None.
Proof.
  unfold last_ce. generalize (@None (N * N)) as o. induction a as [|i a IH]; intros o H; [reflexivity|].
  simpl in H. apply andb_prop in H. destruct H as [H1 H2]. destruct i; try discriminate; simpl; apply IH; exact H2.
Qed.

(* ========================================================================================== the radio's part of an event *)
Notation unaired := LLProofsC28Air.unaired.
Notation WFb := LLProofsC28Air.WFb.

Definition deliver (pdus : list pdu) : list pdu :=
  filter (fun p => negb (N.of_nat (length (snd p)) =? 0) && negb (N.land (fst p) 3 =? 0))
         (map (fun p => (N.land (fst p) 3, snd p)) pdus).

Lemma radio_exchange_rx s rx :
  exists b, fst (fst (radio_exchange s rx)) = set_bf s b
    /\ rxq b = rxq (bf s) ++ deliver (match rx with Some p => [p] | None => [] end).
Proof.
  unfold radio_exchange, deliver.
  assert (E : (match rx with
               | Some (llid, body) =>
                   if negb (N.of_nat (length body) =? 0) && negb (N.land llid 3 =? 0) then rxq (bf s) ++ [(N.land llid 3, body)] else rxq (bf s)
               | None => rxq (bf s)
               end) = rxq (bf s) ++ filter (fun p => negb (N.of_nat (length (snd p)) =? 0) && negb (N.land (fst p) 3 =? 0))
                                    (map (fun p => (N.land (fst p) 3, snd p)) (match rx with Some p => [p] | None => [] end))).
  { destruct rx as [[llid body]|]; cbn [map filter fst snd]; [|rewrite app_nil_r; reflexivity].
    replace (N.land (N.land llid 3) 3) with (N.land llid 3) by (rewrite <- N.land_assoc; reflexivity).
    destruct (negb _ && negb _); [reflexivity|rewrite app_nil_r; reflexivity]. }
  rewrite E.
  destruct (match fl (bf s) with FHead => tl (txq (bf s)) | _ => txq (bf s) end) as [|[l bd] rest];
    cbn [fst]; eexists; split; reflexivity.
Qed.

Lemma deliver_cons p l : deliver (p :: l) = deliver [p] ++ deliver l.
Proof. unfold deliver. cbn [map filter]. destruct (negb _ && negb _); reflexivity. Qed.

Lemma radio_event_rx fuel : forall s pdus s1 it,
  (length pdus + length (unaired s) < fuel)%nat -> WFb s -> radio_event fuel s pdus = (s1, it) ->
  exists b, s1 = set_bf s b /\ rxq b = rxq (bf s) ++ deliver pdus.
Proof.
  induction fuel as [|fuel IH]; intros s pdus s1 it Hf W H; [lia|]. simpl in H.
  pose proof (LLProofsC28Air.radio_exchange_air s (hd_error pdus) W) as X.
  destruct (radio_exchange_rx s (hd_error pdus)) as (ba & Ea & Ra).
  destruct (radio_exchange s (hd_error pdus)) as [[sa ita] md]. cbn [fst] in Ea.
  destruct X as (X1 & X2 & X3 & X4 & _).
  destruct (match tl pdus with [] => md | _ => true end) eqn:Ec.
  - destruct (radio_event fuel sa (tl pdus)) as [sb itb] eqn:E. injection H as <- <-.
    assert (Hf' : (length (tl pdus) + length (unaired sa) < fuel)%nat).
    { rewrite X2. destruct pdus as [|p1 [|p2 pt]]; destruct (unaired s) as [|u1 [|u2 ut]]; simpl in *; subst md; try discriminate; lia. }
    destruct (IH sa (tl pdus) sb itb Hf' X3 E) as (b & Eb & Rb).
    exists b. subst sa. split; [rewrite Eb; reflexivity|].
    rewrite Rb. cbn [bf set_bf]. rewrite Ra, <- app_assoc. f_equal.
    destruct pdus as [|p pt]; cbn [hd_error tl]; [reflexivity|]. symmetry. apply deliver_cons.
  - injection H as <- <-. exists ba. split; [exact Ea|]. rewrite Ra. f_equal.
    destruct pdus as [|p [|p2 pt]]; cbn [hd_error]; try reflexivity. discriminate.
Qed.

(* ========================================================================================== what is on air against what is due *)
Definition is_ver_e (e : expect) : bool := match e with EExact b => byte b 0 =? 12 | _ => false end.
Definition nver (l : list expect) : nat := length (filter is_ver_e l).
Definition Matches (c : cfg) (due : list expect) (air : list (list N)) : Prop := Forall2 (fun e b => matches c e b = true) due air.

Lemma matches_ver c e b : matches c e b = true -> (byte b 0 =? 12) = is_ver_e e.
Proof.
  destruct e as [x|b0|req]; cbn [matches is_ver_e]; intros H.
  - apply bytes_eqb_eq in H. subst. reflexivity.
  - apply bytes_eqb_eq in H. subst. reflexivity.
  - unfold cpr_answer_ok in H. destruct (negb (cpr_params_ok req)).
    + apply bytes_eqb_eq in H. subst. reflexivity.
    + destruct (c_cpr c).
      * apply bytes_eqb_eq in H. subst. reflexivity.
      * destruct (byte b 0 =? 16) eqn:E; [apply N.eqb_eq in E; rewrite E; reflexivity|].
        rewrite !andb_false_r in H. cbn in H. rewrite ?andb_false_r in H. discriminate.
      * apply bytes_eqb_eq in H. subst. reflexivity.
Qed.

Lemma nver_zero_existsb l : nver l = 0%nat <-> existsb is_ver_e l = false.
Proof.
  unfold nver. induction l as [|e l IH]; simpl; [tauto|]. destruct (is_ver_e e); simpl; [split; discriminate|exact IH].
Qed.

Lemma judge_air_ok c : forall due air vs,
  Matches c due air -> (vs = true -> nver due = 0%nat) -> (nver due <= 1)%nat ->
  judge_air c due air vs = (None, vs || negb (Nat.eqb (nver due) 0)).
Proof.
  intros due air vs M. revert vs. induction M as [|e b due air Hm M IH]; intros vs Hv Hn; cbn [judge_air].
  - cbn. rewrite orb_false_r. reflexivity.
  - rewrite (matches_ver c e b Hm), Hm.
    unfold nver in *. cbn [filter] in *. destruct (is_ver_e e) eqn:Ev; cbn [length] in *.
    + destruct vs; [specialize (Hv eq_refl); discriminate|]. cbn [andb orb].
      rewrite IH; [|intros _; lia|lia]. cbn [orb]. assert (length (filter is_ver_e due) = 0%nat) as -> by lia. reflexivity.
    + rewrite andb_false_l, orb_false_r. apply IH; assumption.
Qed.

Lemma nver_app a b : nver (a ++ b) = (nver a + nver b)%nat.
Proof. unfold nver. rewrite filter_app, app_length. reflexivity. Qed.

(* the control PDUs among the PDUs handed to the air *)
Definition ctrl (l : list pdu) : list (list N) := flat_map (fun p => if fst p =? 3 then [snd p] else []) l.
Lemma ctrl_app a b : ctrl (a ++ b) = ctrl a ++ ctrl b.
Proof. unfold ctrl. apply flat_map_app. Qed.
Lemma tx3_app a b : tx3 (a ++ b) = tx3 a ++ tx3 b.
Proof. unfold tx3. apply flat_map_app. Qed.
Lemma tx3_air l : tx3 (map LLProofsC28Air.air_item l) = ctrl l.
Proof.
  unfold tx3, ctrl. induction l as [|[ll b] l IH]; [reflexivity|]. cbn [map flat_map LLProofsC28Air.air_item fst snd].
  rewrite IH. destruct (N.eqb_spec ll 3) as [->|Hn]; [reflexivity|].
  destruct ll as [|[[q|q|]|q|]]; try reflexivity. congruence.
Qed.
Definition notx (i : item) : bool := match i with ITx _ _ => false | _ => true end.
Lemma tx3_notx it : forallb notx it = true -> tx3 it = [].
Proof.
  unfold tx3. induction it as [|i it IH]; [reflexivity|]. cbn [forallb flat_map]. intros H. apply andb_prop in H. destruct H as [H1 H2].
  rewrite (IH H2). destruct i; try reflexivity. discriminate.
Qed.

(* ========================================================================================== the scripted buffer availability *)
(* no operation but `txavail` changes what allocate_transmit_buffer() answers *)
Definition txa (s : lstate_t) : bool := tx_avail (bf s).

Lemma txa_commit s p : txa (commit s p) = txa s.
Proof. apply LLProofsC28Air.tx_avail_commit. Qed.
Lemma txa_bf s s' : bf s' = bf s -> txa s' = txa s.
Proof. unfold txa. intros ->. reflexivity. Qed.
Lemma txa_push c s e : txa (push_event c s e) = txa s.
Proof. apply txa_bf, LLProofsC28Air.bf_push_event. Qed.

Ltac txa_simp :=
  repeat first [ rewrite txa_commit | rewrite txa_push
               | rewrite (txa_bf _ _ (LLProofsC28Air.bf_handle_reject _ _ _ _))
               | rewrite (txa_bf _ _ (LLProofsC28Air.bf_encryption_changed _ _ _))
               | progress change (txa (upd_pr ?x ?f)) with (txa x)
               | progress change (txa (upd_sc ?x ?f)) with (txa x)
               | progress change (txa (clear_cpr_feature ?x)) with (txa x)
               | progress change (txa (set_proc_timeout ?x ?v)) with (txa x)
               | progress change (txa (set_used_features ?x ?v)) with (txa x)
               | progress change (txa (set_disc_reason ?x ?v)) with (txa x)
               | progress change (txa (set_def_instant ?x ?v)) with (txa x)
               | progress change (txa (set_deferred ?x ?v)) with (txa x) ];
  try reflexivity.

Lemma hlc_txa c s body : txa (fst (fst (handle_ll_control c s body))) = txa s.
Proof.
  unfold handle_ll_control.
  destruct (ctrl_kind c _ _ _); cbn [fst]; try (destruct (handle_cpr c s body) as [[r|] it]);
    repeat match goal with |- context [if ?b then _ else _] => destruct b end; cbn [fst]; unfold commit_ctrl; txa_simp.
Qed.

Lemma hrd_txa c : forall fuel s, txa (fst (fst (handle_received_data fuel c s))) = txa s.
Proof.
  induction fuel as [|fuel IH]; intros s; cbn [handle_received_data]; [reflexivity|].
  destruct (deferred s); [reflexivity|]. destruct (rxq (bf s)) as [|[llid body] rest]; [reflexivity|].
  destruct (llid =? _).
  - destruct (tx_buffer_available s); [|reflexivity].
    pose proof (hlc_txa c s body) as X. destruct (handle_ll_control c s body) as [[s1 it] r]. cbn [fst] in X.
    destruct r.
    + specialize (IH (upd_bf s1 (fun b => set_rxq b rest))).
      destruct (handle_received_data fuel c _) as [[s3 it3] r3]. cbn [fst] in *. rewrite IH. exact X.
    + cbn [fst]. exact X.
  - destruct (_ && _); [|reflexivity].
    destruct (if c_enc c then _ else _) as [|r].
    + rewrite IH. reflexivity.
    + destruct (tx_buffer_available s); [|reflexivity]. rewrite IH. destruct r; [|reflexivity].
      change (txa (commit s (GenLL.lld_data_pdu_code, l)) = txa s). apply txa_commit.
Qed.

Lemma fd_bf c s : bf (fst (force_disconnect c s)) = bf s.
Proof.
  unfold force_disconnect, reset_encryption. destruct (c_enc c); cbn [fst snd];
    destruct (st _); cbn [start_advertising_impl handle_start_advertising fst bf set_deferred set_st];
    rewrite LLProofsC28Air.bf_push_event; reflexivity.
Qed.

Lemma pts_txa c s s' it : pending_then_setup c s = Some (s', it) -> txa s' = txa s.
Proof.
  unfold pending_then_setup. intros H.
  destruct (handle_pending_ll_control c s) as [[[s1 it1] res]|] eqn:E; cbn [obind] in H; [|discriminate].
  apply LLProofsC28Air.hpll_bf in E. destruct E as [E _].
  destruct res.
  - destruct (setup_next_connection_event s1) as [[s2 it2]|] eqn:E2; cbn [obind] in H; [|discriminate].
    inversion H; subst. apply LLProofsC28Air.setup_next_bf in E2. destruct E2 as [E2 _]. apply txa_bf. congruence.
  - pose proof (fd_bf c s1) as F. destruct (force_disconnect c s1) as [s2 it2]. inversion H; subst. apply txa_bf. cbn [fst] in F. congruence.
Qed.

Lemma tpcp_txa c s : txa (transmit_pending_control_pdus c s) = txa s.
Proof.
  unfold transmit_pending_control_pdus.
  repeat match goal with |- context [if ?b then _ else _] => destruct b end; unfold commit_ctrl; txa_simp.
Qed.

Lemma tpsp_txa c s : txa (fst (transmit_pending_security_pdus c s)) = txa s.
Proof.
  unfold transmit_pending_security_pdus. destruct (_ && _ && _); [|reflexivity].
  destruct (has_key (sc s)); cbn [fst]; unfold commit_ctrl; txa_simp.
Qed.

Lemma continue_txa c s e s' it : end_event_continue c s e = Some (s', it) -> txa s' = txa s.
Proof.
  unfold end_event_continue, force_disconnect_reason. intros H.
  destruct (procedure_timed_out s).
  - inversion H. pose proof (fd_bf c (set_disc_reason s GenLL.connection_ll_response_timeout)) as F.
    destruct (force_disconnect c _) as [s5 it5]. inversion H1; subst. apply txa_bf. exact F.
  - set (s5 := if negb (proc_timeout s =? 0) then _ else s) in H.
    assert (T5 : txa s5 = txa s) by (subst s5; destruct (negb _); reflexivity).
    pose proof (tpsp_txa c s5) as T6.
    destruct (transmit_pending_security_pdus c s5) as [s6' it6]. cbn [fst] in T6.
    destruct (plan_next_connection_event c s6' _) as [s7|] eqn:E7; cbn [obind] in H; [|discriminate].
    apply LLProofsC28Air.plan_next_bf in E7.
    destruct (pending_then_setup c s7) as [[s8 it8]|] eqn:E8; cbn [obind] in H; [|discriminate].
    apply pts_txa in E8. inversion H; subst. rewrite E8, (txa_bf _ _ E7). congruence.
Qed.

Lemma prologue_txa c s : txa (end_event_prologue c s) = txa s.
Proof.
  unfold end_event_prologue.
  assert (X : forall x, txa (if lstate_eqb (st x) Disconnecting then x else upd_tm (set_st x Connected) (fun t => set_tw_size t 0)) = txa x)
    by (intros x; destruct (lstate_eqb _ _); reflexivity).
  rewrite X. destruct (st (set_pending_event s false)); txa_simp.
Qed.

Lemma body_txa c s e s' it : end_event_body c s e = Some (s', it) -> txa s' = txa s.
Proof.
  unfold end_event_body. intros H.
  destruct (_ && _ && _).
  - inversion H. pose proof (fd_bf c s) as F. destruct (force_disconnect c s) as [s5 it5]. inversion H1; subst. apply txa_bf. exact F.
  - pose proof (hrd_txa c (S (length (rxq (bf s)))) s) as X.
    destruct (handle_received_data _ c s) as [[s3 it3] res]. cbn [fst] in X. destruct res.
    + assert (T4 : txa (send_control_pdus s3) = txa s3).
      { unfold send_control_pdus. destruct (_ && _ && _); [|reflexivity]. unfold commit_ctrl. 
        change (txa (commit s3 (GenLL.ll_control_pdu_code, [GenLL.LL_TERMINATE_IND; disc_reason s3])) = txa s3). apply txa_commit. }
      destruct (end_event_continue c (send_control_pdus s3) e) as [[s8 it8]|] eqn:E8; cbn [obind] in H; [|discriminate].
      apply continue_txa in E8. inversion H; subst. congruence.
    + pose proof (fd_bf c s3) as F. destruct (force_disconnect c s3) as [s4 it4]. cbn [fst] in F. inversion H; subst. rewrite (txa_bf _ _ F). exact X.
Qed.

Lemma end_event_txa c s e s' it : do_end_event c s e = Some (s', it) -> txa s' = txa s.
Proof.
  unfold do_end_event. intros H.
  destruct (end_event_body c (end_event_prologue c s) e) as [[s9 it9]|] eqn:E; cbn [obind] in H; [|discriminate].
  apply body_txa in E. rewrite prologue_txa in E. inversion H. clear H. unfold end_event_epilogue.
  assert (T : txa (match st s9 with Connected | Connecting => transmit_pending_control_pdus c s9 | _ => s9 end) = txa s9)
    by (destruct (st s9); try reflexivity; apply tpcp_txa).
  rewrite <- E, <- T. reflexivity.
Qed.

Lemma timeout_txa c s s' it : do_timeout c s = Some (s', it) -> txa s' = txa s.
Proof.
  unfold do_timeout, force_disconnect_reason. intros H.
  match type of H with (do r <- ?X; _) = _ => destruct X as [[s2 it2]|] eqn:E; cbn [obind] in H; [|discriminate] end.
  inversion H. clear H. change (txa s2 = txa s).
  destruct (_ && _ && _) in E.
  - inversion E. pose proof (fd_bf c (set_pending_event s false)) as F. destruct (force_disconnect c _) as [sa ia]. inversion H0; subst. apply txa_bf. exact F.
  - destruct (_ && _) in E.
    + inversion E. pose proof (fd_bf c (set_disc_reason (set_pending_event s false) GenLL.connection_ll_response_timeout)) as F.
      destruct (force_disconnect c _) as [sa ia]. inversion H0; subst. apply txa_bf. exact F.
    + destruct (dt_mul _ _); cbn [obind] in E; [|discriminate]. destruct (_ && _) in E.
      * destruct (plan_after_timeout _) as [s1|] eqn:E1; cbn [obind] in E; [|discriminate].
        apply pts_txa in E. rewrite E. unfold plan_after_timeout in E1. destruct (dt_add _ _); cbn [obind] in E1; [|discriminate].
        inversion E1. reflexivity.
      * inversion E. pose proof (fd_bf c (set_pending_event s false)) as F. destruct (force_disconnect c _) as [sa ia]. inversion H0; subst. apply txa_bf. exact F.
Qed.

Lemma setup_next_txa s s' it : setup_next_connection_event s = Some (s', it) -> txa s' = txa s.
Proof. intros H. apply LLProofsC28Air.setup_next_bf in H. destruct H as [H _]. apply txa_bf. exact H. Qed.

Lemma adv_txa c s hdr0 body s' it : do_adv_received c s hdr0 body = Some (s', it) -> txa s' = txa s.
Proof.
  unfold do_adv_received. intros H.
  destruct (valid_connect_request c hdr0 body); [|inversion H; reflexivity].
  destruct (ChanMapModel.reset_impl _ _ _) as [ch r]. destruct r as [[|]| | | |]; try discriminate; [|inversion H; reflexivity].
  destruct (parse_connect body) as [t ok]. destruct ok as [[|]|]; try discriminate; [|inversion H; reflexivity].
  match type of H with (do r11 <- setup_next_connection_event ?X; _) = _ => destruct (setup_next_connection_event X) as [[s11 it11]|] eqn:E end;
    cbn [obind] in H; [|discriminate].
  apply setup_next_txa in E. inversion H. clear H. 
  change (txa (push_event c (upd_sc s11 (fun x => set_is_enc x false)) (EvRequested (details_of (upd_sc s11 (fun x => set_is_enc x false))))) = txa s).
  rewrite txa_push. change (txa s11 = txa s). rewrite E. reflexivity.
Qed.

Lemma cancel_txa c s b us s' it : do_cancel c s b us = Some (s', it) -> txa s' = txa s.
Proof.
  unfold do_cancel. intros H. destruct (_ && _ && _ && _); [|inversion H; reflexivity].
  destruct b; [|inversion H; reflexivity]. destruct (_ =? 0); [discriminate|].
  destruct (dt_add _ _); cbn [obind] in H; [|discriminate]. destruct (dt_sub _ _); cbn [obind] in H; [|discriminate].
  destruct (499 <? _); [discriminate|]. destruct (dt_mul _ _); cbn [obind] in H; [|discriminate].
  destruct (dt_sub _ _); cbn [obind] in H; [|discriminate].
  match type of H with (do r <- setup_next_connection_event ?X; _) = _ => destruct (setup_next_connection_event X) as [[s2 it2]|] eqn:E end;
    cbn [obind] in H; [|discriminate].
  apply setup_next_txa in E. inversion H; subst. rewrite E. reflexivity.
Qed.

Definition wfb_conn (s : lstate_t) : Prop := in_connection s = true -> WFb s.

Lemma lstep_txa c s o : wfb_conn s ->
  txa (fst (lstep c s o)) = match o with TxAvail b => b | _ => txa s end.
Proof.
  intros W. destruct o; cbn [lstep].
  - destruct (st s); reflexivity.
  - destruct (st s); reflexivity.
  - destruct (st s); try reflexivity. destruct (255 <? _); [reflexivity|].
    destruct (do_adv_received c s hdr0 body) as [[s' it]|] eqn:E; cbn [ok_items fst]; [|reflexivity]. eapply adv_txa; eauto.
  - destruct (in_connection s) eqn:I; [|reflexivity]. destruct (existsb _ _); [reflexivity|].
    destruct (radio_event _ s pdus) as [s1 it1] eqn:E1.
    assert (Hf : (length pdus + length (unaired s) < S (length pdus + length (txq (bf s))))%nat)
      by (pose proof (LLProofsC28Air.unaired_le_txq s); lia).
    destruct (LLProofsC28Air.radio_event_air _ s pdus s1 it1 Hf (W I) E1) as (_ & _ & _ & _ & _ & _ & T1).
    destruct (do_end_event c s1 evts) as [[s2 it2]|] eqn:E2; cbn [fst]; [|exact T1].
    apply end_event_txa in E2. unfold txa in *. congruence.
  - destruct (in_connection s); [|reflexivity].
    destruct (do_timeout c s) as [[s' it]|] eqn:E; cbn [ok_items fst]; [|reflexivity]. eapply timeout_txa; eauto.
  - destruct (in_connection s); [|reflexivity]. destruct (reset_encryption c _) as [s2 it] eqn:E. cbn [fst].
    unfold reset_encryption in E. destruct (c_enc c); inversion E; reflexivity.
  - destruct (in_connection s); [|reflexivity]. destruct (bit _ _); [destruct (cpr_pending _)|]; reflexivity.
  - destruct (in_connection s); [|reflexivity]. destruct (_ || _); reflexivity.
  - destruct (in_connection s); [|reflexivity]. destruct (phy_pending _); reflexivity.
  - destruct (in_connection s); [|reflexivity]. destruct (_ || _); reflexivity.
  - reflexivity.
  - destruct (do_cancel c s b us) as [[s' it]|] eqn:E; cbn [ok_items fst]; [|reflexivity]. eapply cancel_txa; eauto.
  - destruct (c_cpr c); reflexivity.
  - destruct (c_cpr c); reflexivity.
  - reflexivity.
  - reflexivity.
Qed.

(* ========================================================================================== the coupling while PDUs are processed *)
Definition rx_ok (l : list pdu) : Prop :=
  Forall (fun p => ((fst p =? 2) || (fst p =? 3)) = true /\ snd p <> [] /\ bytes_ok (snd p)) l.

Definition PR (c : cfg) (s : lstate_t) (m : mon27) : Prop :=
  m_rx m = rxq (bf s) /\ m_txa m = txa s /\ m_ver_rcv m = ver_received (pr s)
  /\ (ver_received (pr s) = false -> m_ver_sent m = false)
  /\ m_used m = used_features s /\ m_timer m = proc_timeout s /\ (m_owner m =? 22) = false
  /\ deferred s = None /\ lstate_eqb (st s) Disconnecting = false
  /\ stopped (bf s) = false /\ WFb s /\ rx_ok (rxq (bf s)).

(* what processing leaves alone: in the model ... *)
Definition sframe (s s' : lstate_t) : Prop :=
  st s' = st s /\ cs s' = cs s /\ tm s' = tm s /\ disc_reason s' = disc_reason s /\ sc s' = sc s /\ ac s' = ac s
  /\ cpr_pending (pr s') = cpr_pending (pr s) /\ phy_pending (pr s') = phy_pending (pr s) /\ ver_pending (pr s') = ver_pending (pr s)
  /\ prop_min (pr s') = prop_min (pr s) /\ prop_max (pr s') = prop_max (pr s) /\ prop_lat (pr s') = prop_lat (pr s)
  /\ prop_to (pr s') = prop_to (pr s) /\ chan s' = chan s /\ sca s' = sca s.
(* ... and in the monitor *)
Definition mframe (m m' : mon27) : Prop :=
  m_conn m' = m_conn m /\ m_stop m' = m_stop m /\ m_exp m' = m_exp m /\ m_ver_sent m' = m_ver_sent m
  /\ m_cpr m' = m_cpr m /\ m_phy m' = m_phy m /\ m_ver m' = m_ver m /\ m_acpr m' = m_acpr m /\ m_owner m' = m_owner m /\ m_t m' = m_t m.

Lemma sframe_refl s : sframe s s. Proof. unfold sframe. repeat split; reflexivity. Qed.
Lemma sframe_trans a b d : sframe a b -> sframe b d -> sframe a d.
Proof. unfold sframe. intros H1 H2. decompose [and] H1. decompose [and] H2. repeat split; congruence. Qed.
Lemma mframe_refl m : mframe m m. Proof. unfold mframe. repeat split; reflexivity. Qed.
Lemma mframe_trans a b d : mframe a b -> mframe b d -> mframe a d.
Proof. unfold mframe. intros H1 H2. decompose [and] H1. decompose [and] H2. repeat split; congruence. Qed.

Lemma push_event_form c s e : exists r, push_event c s e = set_ring s r.
Proof.
  unfold push_event. destruct (c_cb c); [destruct (_ <? _)|]; [eexists; reflexivity| |]; exists (ring s); destruct s; reflexivity.
Qed.

Lemma commit_eq s p : stopped (bf s) = false -> commit s p = upd_bf s (fun q => set_txq q (txq q ++ [p])).
Proof. unfold commit. intros ->. reflexivity. Qed.

Definition vok (s : lstate_t) (accn : list expect) : Prop :=
  (nver accn <= 1)%nat /\ (nver accn = 1%nat -> ver_received (pr s) = false).

Lemma opc_nonempty body : body <> [] -> (if 0 <? N.of_nat (length body) then byte body 0 else 255) = byte body 0.
Proof. destruct body; [congruence|]. intros _. cbn [length]. replace (0 <? N.of_nat (S (length body))) with true by lia. reflexivity. Qed.

Lemma l2class_enc e body : match l2cap_reply_enc e body with L2Drop => true | L2Reply _ => false end
                           = match l2cap_reply body with L2Drop => true | L2Reply _ => false end.
Proof.
  unfold l2cap_reply_enc. destruct (bytes_eqb body att_read_secret) eqn:E; [|reflexivity].
  apply bytes_eqb_eq in E. subst. reflexivity.
Qed.

(* ========================================================================================== the connection parameter answer *)
Lemma lo_hi x : lo8 x + 256 * hi8 x = x mod 65536.
Proof. unfold lo8, hi8. nlia. Qed.

Lemma in_range_true lo x hi : lo <= x -> x <= hi -> in_range lo x hi = true.
Proof. unfold in_range. lia. Qed.

Lemma clamp_mid lo hi x : lo <= hi -> lo <= (if (x <? lo) || (hi <? x) then (lo + hi) / 2 else x) /\ (if (x <? lo) || (hi <? x) then (lo + hi) / 2 else x) <= hi.
Proof. intros H. destruct (_ || _) eqn:E; [nlia|lia]. Qed.

Lemma cpr_answer c s body :
  cfg_ok27 c = true -> length body = 24%nat ->
  exists r, handle_cpr c s body = (Some r, []) /\ cpr_answer_ok c body r = true.
Proof.
  intros Hc Hl. unfold handle_cpr, cpr_answer_ok, cfg_ok27 in *.
  destruct (cpr_params_ok body); cbn [negb].
  2:{ destruct (c_cpr c); try discriminate; (eexists; split; [reflexivity|apply bytes_eqb_refl]). }
  destruct (c_cpr c) as [|imin imax lmin lmax tmin tmax|]; [| |discriminate].
  - eexists; split; [reflexivity|apply bytes_eqb_refl].
  - cbv beta iota in Hc.
    assert (W : imin <= imax /\ imax < 65536 /\ lmin <= lmax /\ lmax < 65536 /\ tmin <= tmax /\ tmax < 65536) by lia.
    clear Hc. destruct W as (W1 & W2 & W3 & W4 & W5 & W6).
    set (mi0 := N.max (rd16 body 1) imin). set (ma0 := N.min (rd16 body 3) imax).
    destruct (ma0 <? mi0) eqn:Em.
    + set (la := if (rd16 body 5 <? lmin) || (lmax <? rd16 body 5) then (lmin + lmax) / 2 else rd16 body 5).
      set (tmo := if (rd16 body 7 <? tmin) || (tmax <? rd16 body 7) then (tmin + tmax) / 2 else rd16 body 7).
      eexists; split; [reflexivity|].
      assert (La : lmin <= la /\ la <= lmax) by (subst la; apply clamp_mid; assumption).
      assert (Lt : tmin <= tmo /\ tmo <= tmax) by (subst tmo; apply clamp_mid; assumption).
      cbn [app length]. unfold slice at 1. rewrite firstn_length, skipn_length, Hl.
      unfold rd16 at 1 2 3 4 5 6. cbn [byte nth app]. rewrite !lo_hi.
      rewrite !N.mod_small by lia.
      rewrite !in_range_true by lia.
      replace (imin <=? imax) with true by lia.
      unfold slice at 1. cbn [skipn app]. fold (slice body 9 15). unfold slice. rewrite firstn_firstn. cbn [Nat.min].
      rewrite bytes_eqb_refl. reflexivity.
    + set (la := if (rd16 body 5 <? lmin) || (lmax <? rd16 body 5) then (lmin + lmax) / 2 else rd16 body 5).
      set (tmo := if (rd16 body 7 <? tmin) || (tmax <? rd16 body 7) then (tmin + tmax) / 2 else rd16 body 7).
      eexists; split; [reflexivity|].
      assert (La : lmin <= la /\ la <= lmax) by (subst la; apply clamp_mid; assumption).
      assert (Lt : tmin <= tmo /\ tmo <= tmax) by (subst tmo; apply clamp_mid; assumption).
      assert (Lm : imin <= mi0 /\ mi0 <= ma0 /\ ma0 <= imax) by (subst mi0 ma0; lia).
      cbn [app length]. unfold slice at 1. rewrite firstn_length, skipn_length, Hl.
      unfold rd16 at 1 2 3 4 5 6. cbn [byte nth app]. rewrite !lo_hi.
      rewrite !N.mod_small by lia.
      rewrite !in_range_true by lia.
      replace (mi0 <=? ma0) with true by lia.
      unfold slice at 1. cbn [skipn app]. unfold slice. rewrite firstn_firstn. cbn [Nat.min].
      rewrite bytes_eqb_refl. reflexivity.
Qed.
