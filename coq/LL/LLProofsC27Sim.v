(* C27: the specification monitor (LLSpecC27.mstep27) accepts every trace of the model that stays inside the environment
   [env27] - operation histories of any length that avoid the three known findings (phy_update_request(),
   remote_versions_request(), LLID 1 fragments), in which PDU bytes are bytes and no delta_time assert fails - for every
   configuration without asynchronous_connection_parameter_request<> (and well formed desired_connection_parameters<>).

   Structure: a coupling [Tight] between model state and monitor state while the monitor judges a connection; outside
   (not connected, or the monitor has stopped judging: instant based procedures, encryption, disconnect(), cancelation)
   only three global facts are kept: the scripted transmit buffer availability, property C21's invariant (no deferred
   PDU outside a connection) and property C28's invariant (security flags off outside a connection) - both reused from
   LLProofsC21 / LLProofsC28 through their step lemmas. The radio's part of an event reuses LLProofsC28Air.radio_event_air. *)
From Coq Require Import Lia ZifyBool NArith List Bool.
From BT Require Import Base.ListX Base.Bits2 LL.LLModel LL.LLSpec LL.LLSpecC27 LL.LLSpecC22 LL.LLProofs.
From BT Require LL.LLProofsC21 LL.LLProofsC28 LL.LLProofsC28Air LL.LLSpecC28.
From BT Require gen.GenLL.
Import ListNotations.
Local Open Scope N_scope.

Ltac nlia := zify; Z.to_euclidean_division_equations; lia.

(* ========================================================================================== the environment *)
Definition pdu_ok27 (p : pdu) : bool :=
  forallb (fun b => b <? 256) (snd p)
  && negb ((N.land (fst p) 3 =? 1) && negb (N.of_nat (length (snd p)) =? 0)).      (* no LLID 1 fragment *)

Definition op_ok27 (o : lop) : bool :=
  match o with
  | PhyReq _ _ | VerReq => false
  | Ev _ pdus => forallb pdu_ok27 pdus
  | _ => true
  end.

Definition cfg_ok27 (c : cfg) : bool :=
  match c_cpr c with
  | CprAsync => false
  | CprDesired imin imax lmin lmax tmin tmax =>
      (imin <=? imax) && (imax <? 65536) && (lmin <=? lmax) && (lmax <? 65536) && (tmin <=? tmax) && (tmax <? 65536)
  | CprNone => true
  end.

Definition is_crash (r : lout) : bool := match r with OCrash => true | _ => false end.

Fixpoint env27 (c : cfg) (s : lstate_t) (ops : list lop) : bool :=
  match ops with
  | [] => true
  | o :: r => op_ok27 o && negb (is_crash (snd (lstep c s o))) && env27 c (fst (lstep c s o)) r
  end.

(* ========================================================================================== small facts *)
Lemma bytes_eqb_refl a : bytes_eqb a a = true.
Proof. induction a; simpl; [reflexivity|]. rewrite N.eqb_refl. exact IHa. Qed.
Lemma bytes_eqb_eq a b : bytes_eqb a b = true -> a = b.
Proof. apply LLProofsC28Air.bytes_eqb_eq. Qed.

Lemma dt_add_exact a b r : dt_add a b = Some r -> r = a + b.
Proof.
  unfold dt_add, u32. destruct (_ && _) eqn:E; [|discriminate]. intros H. inversion H. clear H H1. nlia.
Qed.
Lemma dt_sub_exact a b r : dt_sub a b = Some r -> r = a - b /\ b <= a.
Proof. unfold dt_sub. destruct (b <=? a) eqn:E; [|discriminate]. intros H. inversion H. lia. Qed.

Definition noce (i : item) : bool := match i with ICe _ _ _ _ => false | _ => true end.
Lemma last_ce_pick a ch ws we iv b : forallb noce b = true -> last_ce (a ++ ICe ch ws we iv :: b) = Some (ws, we).
Proof.
  intros H. unfold last_ce. rewrite fold_left_app. cbn [fold_left].
  generalize (Some (ws, we)) as o. induction b as [|i b IH]; intros o; [reflexivity|].
  simpl in H. apply andb_prop in H. destruct H as [H1 H2]. destruct i; try discriminate; simpl; apply IH; exact H2.
Qed.
Lemma last_ce_none a : forallb noce a = true -> last_ce a = None.
Proof.
  unfold last_ce. generalize (@None (N * N)) as o. induction a as [|i a IH]; intros o H; [reflexivity|].
  simpl in H. apply andb_prop in H. destruct H as [H1 H2]. destruct i; try discriminate; simpl; apply IH; exact H2.
Qed.

(* ========================================================================================== the radio's part of an event *)
Notation unaired := LLProofsC28Air.unaired.
Notation WFb := LLProofsC28Air.WFb.

Definition deliver (pdus : list pdu) : list pdu :=
  filter (fun p => negb (N.of_nat (length (snd p)) =? 0) && negb (N.land (fst p) 3 =? 0))
         (map (fun p => (N.land (fst p) 3, snd p)) pdus).

Lemma radio_exchange_rx s rx :
  exists b, fst (fst (radio_exchange s rx)) = set_bf s b
    /\ rxq b = rxq (bf s) ++ deliver (match rx with Some p => [p] | None => [] end).
Proof.
  unfold radio_exchange, deliver.
  assert (E : (match rx with
               | Some (llid, body) =>
                   if negb (N.of_nat (length body) =? 0) && negb (N.land llid 3 =? 0) then rxq (bf s) ++ [(N.land llid 3, body)] else rxq (bf s)
               | None => rxq (bf s)
               end) = rxq (bf s) ++ filter (fun p => negb (N.of_nat (length (snd p)) =? 0) && negb (N.land (fst p) 3 =? 0))
                                    (map (fun p => (N.land (fst p) 3, snd p)) (match rx with Some p => [p] | None => [] end))).
  { destruct rx as [[llid body]|]; cbn [map filter fst snd]; [|rewrite app_nil_r; reflexivity].
    replace (N.land (N.land llid 3) 3) with (N.land llid 3) by (rewrite <- N.land_assoc; reflexivity).
    destruct (negb _ && negb _); [reflexivity|rewrite app_nil_r; reflexivity]. }
  rewrite E.
  destruct (match fl (bf s) with FHead => tl (txq (bf s)) | _ => txq (bf s) end) as [|[l bd] rest];
    cbn [fst]; eexists; split; reflexivity.
Qed.

Lemma deliver_cons p l : deliver (p :: l) = deliver [p] ++ deliver l.
Proof. unfold deliver. cbn [map filter]. destruct (negb _ && negb _); reflexivity. Qed.

Lemma radio_event_rx fuel : forall s pdus s1 it,
  (length pdus + length (unaired s) < fuel)%nat -> WFb s -> radio_event fuel s pdus = (s1, it) ->
  exists b, s1 = set_bf s b /\ rxq b = rxq (bf s) ++ deliver pdus.
Proof.
  induction fuel as [|fuel IH]; intros s pdus s1 it Hf W H; [lia|]. simpl in H.
  pose proof (LLProofsC28Air.radio_exchange_air s (hd_error pdus) W) as X.
  destruct (radio_exchange_rx s (hd_error pdus)) as (ba & Ea & Ra).
  destruct (radio_exchange s (hd_error pdus)) as [[sa ita] md]. cbn [fst] in Ea.
  destruct X as (X1 & X2 & X3 & X4 & _).
  destruct (match tl pdus with [] => md | _ => true end) eqn:Ec.
  - destruct (radio_event fuel sa (tl pdus)) as [sb itb] eqn:E. injection H as <- <-.
    assert (Hf' : (length (tl pdus) + length (unaired sa) < fuel)%nat).
    { rewrite X2. destruct pdus as [|p1 [|p2 pt]]; destruct (unaired s) as [|u1 [|u2 ut]]; simpl in *; subst md; try discriminate; lia. }
    destruct (IH sa (tl pdus) sb itb Hf' X3 E) as (b & Eb & Rb).
    exists b. subst sa. split; [rewrite Eb; reflexivity|].
    rewrite Rb. cbn [bf set_bf]. rewrite Ra, <- app_assoc. f_equal.
    destruct pdus as [|p pt]; cbn [hd_error tl]; [reflexivity|]. symmetry. apply deliver_cons.
  - injection H as <- <-. exists ba. split; [exact Ea|]. rewrite Ra. f_equal.
    destruct pdus as [|p [|p2 pt]]; cbn [hd_error]; try reflexivity. discriminate.
Qed.

(* ========================================================================================== what is on air against what is due *)
Definition is_ver_e (e : expect) : bool := match e with EExact b => byte b 0 =? 12 | _ => false end.
Definition nver (l : list expect) : nat := length (filter is_ver_e l).
Definition Matches (c : cfg) (due : list expect) (air : list (list N)) : Prop := Forall2 (fun e b => matches c e b = true) due air.

Lemma matches_ver c e b : matches c e b = true -> (byte b 0 =? 12) = is_ver_e e.
Proof.
  destruct e as [x|b0|req]; cbn [matches is_ver_e]; intros H.
  - apply bytes_eqb_eq in H. subst. reflexivity.
  - apply bytes_eqb_eq in H. subst. reflexivity.
  - unfold cpr_answer_ok in H. destruct (negb (cpr_params_ok req)).
    + apply bytes_eqb_eq in H. subst. reflexivity.
    + destruct (c_cpr c).
      * apply bytes_eqb_eq in H. subst. reflexivity.
      * destruct (byte b 0 =? 16) eqn:E; [apply N.eqb_eq in E; rewrite E; reflexivity|].
        rewrite !andb_false_r in H. cbn in H. rewrite ?andb_false_r in H. discriminate.
      * apply bytes_eqb_eq in H. subst. reflexivity.
Qed.

Lemma nver_zero_existsb l : nver l = 0%nat <-> existsb is_ver_e l = false.
Proof.
  unfold nver. induction l as [|e l IH]; simpl; [tauto|]. destruct (is_ver_e e); simpl; [split; discriminate|exact IH].
Qed.

Lemma judge_air_ok c : forall due air vs,
  Matches c due air -> (vs = true -> nver due = 0%nat) -> (nver due <= 1)%nat ->
  judge_air c due air vs = (None, vs || negb (Nat.eqb (nver due) 0)).
Proof.
  intros due air vs M. revert vs. induction M as [|e b due air Hm M IH]; intros vs Hv Hn; cbn [judge_air].
  - cbn. rewrite orb_false_r. reflexivity.
  - rewrite (matches_ver c e b Hm), Hm.
    unfold nver in *. cbn [filter] in *. destruct (is_ver_e e) eqn:Ev; cbn [length] in *.
    + destruct vs; [specialize (Hv eq_refl); discriminate|]. cbn [andb orb].
      rewrite IH; [|intros _; lia|lia]. cbn [orb]. assert (length (filter is_ver_e due) = 0%nat) as -> by lia. reflexivity.
    + rewrite andb_false_l, orb_false_r. apply IH; assumption.
Qed.

Lemma nver_app a b : nver (a ++ b) = (nver a + nver b)%nat.
Proof. unfold nver. rewrite filter_app, app_length. reflexivity. Qed.

(* the control PDUs among the PDUs handed to the air *)
Definition ctrl (l : list pdu) : list (list N) := flat_map (fun p => if fst p =? 3 then [snd p] else []) l.
Lemma ctrl_app a b : ctrl (a ++ b) = ctrl a ++ ctrl b.
Proof. unfold ctrl. apply flat_map_app. Qed.
Lemma tx3_app a b : tx3 (a ++ b) = tx3 a ++ tx3 b.
Proof. unfold tx3. apply flat_map_app. Qed.
Lemma tx3_air l : tx3 (map LLProofsC28Air.air_item l) = ctrl l.
Proof.
  unfold tx3, ctrl. induction l as [|[ll b] l IH]; [reflexivity|]. cbn [map flat_map LLProofsC28Air.air_item fst snd].
  rewrite IH. destruct (N.eqb_spec ll 3) as [->|Hn]; [reflexivity|].
  destruct ll as [|[[q|q|]|q|]]; try reflexivity. congruence.
Qed.
Definition notx (i : item) : bool := match i with ITx _ _ => false | _ => true end.
Lemma tx3_notx it : forallb notx it = true -> tx3 it = [].
Proof.
  unfold tx3. induction it as [|i it IH]; [reflexivity|]. cbn [forallb flat_map]. intros H. apply andb_prop in H. destruct H as [H1 H2].
  rewrite (IH H2). destruct i; try reflexivity. discriminate.
Qed.

(* ========================================================================================== the scripted buffer availability *)
(* no operation but `txavail` changes what allocate_transmit_buffer() answers *)
Definition txa (s : lstate_t) : bool := tx_avail (bf s).

Lemma txa_commit s p : txa (commit s p) = txa s.
Proof. apply LLProofsC28Air.tx_avail_commit. Qed.
Lemma txa_bf s s' : bf s' = bf s -> txa s' = txa s.
Proof. unfold txa. intros ->. reflexivity. Qed.
Lemma txa_push c s e : txa (push_event c s e) = txa s.
Proof. apply txa_bf, LLProofsC28Air.bf_push_event. Qed.

Ltac txa_simp :=
  repeat first [ rewrite txa_commit | rewrite txa_push
               | rewrite (txa_bf _ _ (LLProofsC28Air.bf_handle_reject _ _ _ _))
               | rewrite (txa_bf _ _ (LLProofsC28Air.bf_encryption_changed _ _ _))
               | progress change (txa (upd_pr ?x ?f)) with (txa x)
               | progress change (txa (upd_sc ?x ?f)) with (txa x)
               | progress change (txa (clear_cpr_feature ?x)) with (txa x)
               | progress change (txa (set_proc_timeout ?x ?v)) with (txa x)
               | progress change (txa (set_used_features ?x ?v)) with (txa x)
               | progress change (txa (set_disc_reason ?x ?v)) with (txa x)
               | progress change (txa (set_def_instant ?x ?v)) with (txa x)
               | progress change (txa (set_deferred ?x ?v)) with (txa x) ];
  try reflexivity.

Lemma hlc_txa c s body : txa (fst (fst (handle_ll_control c s body))) = txa s.
Proof.
  unfold handle_ll_control.
  destruct (ctrl_kind c _ _ _); cbn [fst]; try (destruct (handle_cpr c s body) as [[r|] it]);
    repeat match goal with |- context [if ?b then _ else _] => destruct b end; cbn [fst]; unfold commit_ctrl; txa_simp.
Qed.

Lemma hrd_txa c : forall fuel s, txa (fst (fst (handle_received_data fuel c s))) = txa s.
Proof.
  induction fuel as [|fuel IH]; intros s; cbn [handle_received_data]; [reflexivity|].
  destruct (deferred s); [reflexivity|]. destruct (rxq (bf s)) as [|[llid body] rest]; [reflexivity|].
  destruct (llid =? _).
  - destruct (tx_buffer_available s); [|reflexivity].
    pose proof (hlc_txa c s body) as X. destruct (handle_ll_control c s body) as [[s1 it] r]. cbn [fst] in X.
    destruct r.
    + specialize (IH (upd_bf s1 (fun b => set_rxq b rest))).
      destruct (handle_received_data fuel c _) as [[s3 it3] r3]. cbn [fst] in *. rewrite IH. exact X.
    + cbn [fst]. exact X.
  - destruct (_ && _); [|reflexivity].
    destruct (if c_enc c then _ else _) as [|r].
    + rewrite IH. reflexivity.
    + destruct (tx_buffer_available s); [|reflexivity]. rewrite IH. destruct r; [|reflexivity].
      change (txa (commit s (GenLL.lld_data_pdu_code, l)) = txa s). apply txa_commit.
Qed.

Lemma fd_bf c s : bf (fst (force_disconnect c s)) = bf s.
Proof.
  unfold force_disconnect, reset_encryption. destruct (c_enc c); cbn [fst snd];
    destruct (st _); cbn [start_advertising_impl handle_start_advertising fst bf set_deferred set_st set_adv_ch];
    rewrite LLProofsC28Air.bf_push_event; reflexivity.
Qed.

Lemma pts_txa c s s' it : pending_then_setup c s = Some (s', it) -> txa s' = txa s.
Proof.
  unfold pending_then_setup. intros H.
  destruct (handle_pending_ll_control c s) as [[[s1 it1] res]|] eqn:E; cbn [obind] in H; [|discriminate].
  apply LLProofsC28Air.hpll_bf in E. destruct E as [E _].
  destruct res.
  - destruct (setup_next_connection_event s1) as [[s2 it2]|] eqn:E2; cbn [obind] in H; [|discriminate].
    inversion H; subst. apply LLProofsC28Air.setup_next_bf in E2. destruct E2 as [E2 _]. apply txa_bf. congruence.
  - pose proof (fd_bf c s1) as F. destruct (force_disconnect c s1) as [s2 it2]. inversion H; subst. apply txa_bf. cbn [fst] in F. congruence.
Qed.

Lemma tpcp_txa c s : txa (transmit_pending_control_pdus c s) = txa s.
Proof.
  unfold transmit_pending_control_pdus.
  repeat match goal with |- context [if ?b then _ else _] => destruct b end; unfold commit_ctrl; txa_simp.
Qed.

Lemma tpsp_txa c s : txa (fst (transmit_pending_security_pdus c s)) = txa s.
Proof.
  unfold transmit_pending_security_pdus. destruct (_ && _ && _); [|reflexivity].
  destruct (has_key (sc s)); cbn [fst]; unfold commit_ctrl; txa_simp.
Qed.

Lemma continue_txa c s e s' it : end_event_continue c s e = Some (s', it) -> txa s' = txa s.
Proof.
  unfold end_event_continue, force_disconnect_reason. intros H.
  destruct (procedure_timed_out s).
  - inversion H. pose proof (fd_bf c (set_disc_reason s GenLL.connection_ll_response_timeout)) as F.
    destruct (force_disconnect c _) as [s5 it5]. inversion H1; subst. apply txa_bf. exact F.
  - set (s5 := if negb (proc_timeout s =? 0) then _ else s) in H.
    assert (T5 : txa s5 = txa s) by (subst s5; destruct (negb _); reflexivity).
    pose proof (tpsp_txa c s5) as T6.
    destruct (transmit_pending_security_pdus c s5) as [s6' it6]. cbn [fst] in T6.
    destruct (plan_next_connection_event c s6' _) as [s7|] eqn:E7; cbn [obind] in H; [|discriminate].
    apply LLProofsC28Air.plan_next_bf in E7.
    destruct (pending_then_setup c s7) as [[s8 it8]|] eqn:E8; cbn [obind] in H; [|discriminate].
    apply pts_txa in E8. inversion H; subst. rewrite E8, (txa_bf _ _ E7). congruence.
Qed.

Lemma prologue_txa c s : txa (end_event_prologue c s) = txa s.
Proof.
  unfold end_event_prologue.
  assert (X : forall x, txa (if lstate_eqb (st x) Disconnecting then x else upd_tm (set_st x Connected) (fun t => set_tw_size t 0)) = txa x)
    by (intros x; destruct (lstate_eqb _ _); reflexivity).
  rewrite X. destruct (st (set_pending_event s false)); txa_simp.
Qed.

Lemma body_txa c s e s' it : end_event_body c s e = Some (s', it) -> txa s' = txa s.
Proof.
  unfold end_event_body. intros H.
  destruct (_ && _ && _).
  - inversion H. pose proof (fd_bf c s) as F. destruct (force_disconnect c s) as [s5 it5]. inversion H1; subst. apply txa_bf. exact F.
  - pose proof (hrd_txa c (S (length (rxq (bf s)))) s) as X.
    destruct (handle_received_data _ c s) as [[s3 it3] res]. cbn [fst] in X. destruct res.
    + assert (T4 : txa (send_control_pdus s3) = txa s3).
      { unfold send_control_pdus. destruct (_ && _ && _); [|reflexivity]. unfold commit_ctrl. 
        change (txa (commit s3 (GenLL.ll_control_pdu_code, [GenLL.LL_TERMINATE_IND; disc_reason s3])) = txa s3). apply txa_commit. }
      destruct (end_event_continue c (send_control_pdus s3) e) as [[s8 it8]|] eqn:E8; cbn [obind] in H; [|discriminate].
      apply continue_txa in E8. inversion H; subst. congruence.
    + pose proof (fd_bf c s3) as F. destruct (force_disconnect c s3) as [s4 it4]. cbn [fst] in F. inversion H; subst. rewrite (txa_bf _ _ F). exact X.
Qed.

Lemma end_event_txa c s e s' it : do_end_event c s e = Some (s', it) -> txa s' = txa s.
Proof.
  unfold do_end_event. intros H.
  destruct (end_event_body c (end_event_prologue c s) e) as [[s9 it9]|] eqn:E; cbn [obind] in H; [|discriminate].
  apply body_txa in E. rewrite prologue_txa in E. inversion H. clear H. unfold end_event_epilogue.
  assert (T : txa (match st s9 with Connected | Connecting => transmit_pending_control_pdus c s9 | _ => s9 end) = txa s9)
    by (destruct (st s9); try reflexivity; apply tpcp_txa).
  rewrite <- E, <- T. reflexivity.
Qed.

Lemma timeout_txa c s s' it : do_timeout c s = Some (s', it) -> txa s' = txa s.
Proof.
  unfold do_timeout, force_disconnect_reason. intros H.
  match type of H with (do r <- ?X; _) = _ => destruct X as [[s2 it2]|] eqn:E; cbn [obind] in H; [|discriminate] end.
  inversion H. clear H. change (txa s2 = txa s).
  destruct (_ && _ && _) in E.
  - inversion E. pose proof (fd_bf c (set_pending_event s false)) as F. destruct (force_disconnect c _) as [sa ia]. inversion H0; subst. apply txa_bf. exact F.
  - destruct (_ && _) in E.
    + inversion E. pose proof (fd_bf c (set_disc_reason (set_pending_event s false) GenLL.connection_ll_response_timeout)) as F.
      destruct (force_disconnect c _) as [sa ia]. inversion H0; subst. apply txa_bf. exact F.
    + destruct (dt_mul _ _); cbn [obind] in E; [|discriminate]. destruct (_ && _) in E.
      * destruct (plan_after_timeout _) as [s1|] eqn:E1; cbn [obind] in E; [|discriminate].
        apply pts_txa in E. rewrite E. unfold plan_after_timeout in E1. destruct (dt_add _ _); cbn [obind] in E1; [|discriminate].
        inversion E1. reflexivity.
      * inversion E. pose proof (fd_bf c (set_pending_event s false)) as F. destruct (force_disconnect c _) as [sa ia]. inversion H0; subst. apply txa_bf. exact F.
Qed.

Lemma setup_next_txa s s' it : setup_next_connection_event s = Some (s', it) -> txa s' = txa s.
Proof. intros H. apply LLProofsC28Air.setup_next_bf in H. destruct H as [H _]. apply txa_bf. exact H. Qed.

Lemma adv_txa c s hdr0 body s' it : do_adv_received c s hdr0 body = Some (s', it) -> txa s' = txa s.
Proof.
  unfold do_adv_received. intros H.
  destruct (valid_connect_request c hdr0 body); [|inversion H; reflexivity].
  destruct (ChanMapModel.reset_impl _ _ _) as [ch r]. destruct r as [[|]| | | |]; try discriminate; [|inversion H; reflexivity].
  destruct (parse_connect body) as [t ok]. destruct ok as [[|]|]; try discriminate; [|inversion H; reflexivity].
  match type of H with (do r11 <- setup_next_connection_event ?X; _) = _ => destruct (setup_next_connection_event X) as [[s11 it11]|] eqn:E end;
    cbn [obind] in H; [|discriminate].
  apply setup_next_txa in E. inversion H. clear H. 
  change (txa (push_event c (upd_sc s11 (fun x => set_is_enc x false)) (EvRequested (details_of (upd_sc s11 (fun x => set_is_enc x false))))) = txa s).
  rewrite txa_push. change (txa s11 = txa s). rewrite E. reflexivity.
Qed.

Lemma cancel_txa c s b us s' it : do_cancel c s b us = Some (s', it) -> txa s' = txa s.
Proof.
  unfold do_cancel. intros H. destruct (_ && _ && _ && _); [|inversion H; reflexivity].
  destruct b; [|inversion H; reflexivity]. destruct (_ =? 0); [discriminate|].
  destruct (dt_add _ _); cbn [obind] in H; [|discriminate]. destruct (dt_sub _ _); cbn [obind] in H; [|discriminate].
  destruct (499 <? _); [discriminate|]. destruct (dt_mul _ _); cbn [obind] in H; [|discriminate].
  destruct (dt_sub _ _); cbn [obind] in H; [|discriminate].
  match type of H with (do r <- setup_next_connection_event ?X; _) = _ => destruct (setup_next_connection_event X) as [[s2 it2]|] eqn:E end;
    cbn [obind] in H; [|discriminate].
  apply setup_next_txa in E. inversion H; subst. rewrite E. reflexivity.
Qed.

Definition wfb_conn (s : lstate_t) : Prop := in_connection s = true -> WFb s.

Lemma lstep_txa c s o : wfb_conn s ->
  txa (fst (lstep c s o)) = match o with TxAvail b => b | _ => txa s end.
Proof.
  intros W. destruct o; cbn [lstep].
  - destruct (st s); reflexivity.
  - destruct (st s); reflexivity.
  - destruct (st s); try reflexivity. destruct (255 <? _); [reflexivity|].
    destruct (do_adv_received c s hdr0 body) as [[s' it]|] eqn:E; cbn [ok_items fst]; [|reflexivity]. eapply adv_txa; eauto.
  - destruct (in_connection s) eqn:I; [|reflexivity]. destruct (existsb _ _); [reflexivity|].
    destruct (radio_event _ s pdus) as [s1 it1] eqn:E1.
    assert (Hf : (length pdus + length (unaired s) < S (length pdus + length (txq (bf s))))%nat)
      by (pose proof (LLProofsC28Air.unaired_le_txq s); lia).
    destruct (LLProofsC28Air.radio_event_air _ s pdus s1 it1 Hf (W I) E1) as (_ & _ & _ & _ & _ & _ & T1).
    destruct (do_end_event c s1 evts) as [[s2 it2]|] eqn:E2; cbn [fst]; [|exact T1].
    apply end_event_txa in E2. unfold txa in *. congruence.
  - destruct (in_connection s); [|reflexivity].
    destruct (do_timeout c s) as [[s' it]|] eqn:E; cbn [ok_items fst]; [|reflexivity]. eapply timeout_txa; eauto.
  - destruct (in_connection s); [|reflexivity]. destruct (reset_encryption c _) as [s2 it] eqn:E. cbn [fst].
    unfold reset_encryption in E. destruct (c_enc c); inversion E; reflexivity.
  - destruct (in_connection s); [|reflexivity]. destruct (bit _ _); [destruct (cpr_pending _)|]; reflexivity.
  - destruct (in_connection s); [|reflexivity]. destruct (_ || _); reflexivity.
  - destruct (in_connection s); [|reflexivity]. destruct (phy_pending _); reflexivity.
  - destruct (in_connection s); [|reflexivity]. destruct (_ || _); reflexivity.
  - reflexivity.
  - destruct (do_cancel c s b us) as [[s' it]|] eqn:E; cbn [ok_items fst]; [|reflexivity]. eapply cancel_txa; eauto.
  - destruct (c_cpr c); reflexivity.
  - destruct (c_cpr c); reflexivity.
  - reflexivity.
  - reflexivity.
Qed.

(* ========================================================================================== the coupling while PDUs are processed *)
Definition rx_ok (l : list pdu) : Prop :=
  Forall (fun p => ((fst p =? 2) || (fst p =? 3)) = true /\ snd p <> [] /\ bytes_ok (snd p)) l.

Definition PR (c : cfg) (s : lstate_t) (m : mon27) : Prop :=
  m_rx m = rxq (bf s) /\ m_txa m = txa s /\ m_ver_rcv m = ver_received (pr s)
  /\ (ver_received (pr s) = false -> m_ver_sent m = false)
  /\ m_used m = used_features s /\ m_timer m = proc_timeout s /\ (m_owner m =? 22) = false
  /\ deferred s = None /\ lstate_eqb (st s) Disconnecting = false
  /\ stopped (bf s) = false /\ WFb s /\ rx_ok (rxq (bf s)).

(* what processing leaves alone: in the model ... *)
Definition sframe (s s' : lstate_t) : Prop :=
  st s' = st s /\ cs s' = cs s /\ tm s' = tm s /\ disc_reason s' = disc_reason s /\ sc s' = sc s /\ ac s' = ac s
  /\ cpr_pending (pr s') = cpr_pending (pr s) /\ phy_pending (pr s') = phy_pending (pr s) /\ ver_pending (pr s') = ver_pending (pr s)
  /\ prop_min (pr s') = prop_min (pr s) /\ prop_max (pr s') = prop_max (pr s) /\ prop_lat (pr s') = prop_lat (pr s)
  /\ prop_to (pr s') = prop_to (pr s) /\ chan s' = chan s /\ sca s' = sca s.
(* ... and in the monitor *)
Definition mframe (m m' : mon27) : Prop :=
  m_conn m' = m_conn m /\ m_stop m' = m_stop m /\ m_exp m' = m_exp m /\ m_ver_sent m' = m_ver_sent m
  /\ m_cpr m' = m_cpr m /\ m_phy m' = m_phy m /\ m_ver m' = m_ver m /\ m_acpr m' = m_acpr m /\ m_owner m' = m_owner m /\ m_t m' = m_t m.

Lemma sframe_refl s : sframe s s. Proof. unfold sframe. repeat split; reflexivity. Qed.
Lemma sframe_trans a b d : sframe a b -> sframe b d -> sframe a d.
Proof. unfold sframe. intros H1 H2. decompose [and] H1. decompose [and] H2. repeat split; congruence. Qed.
Lemma mframe_refl m : mframe m m. Proof. unfold mframe. repeat split; reflexivity. Qed.
Lemma mframe_trans a b d : mframe a b -> mframe b d -> mframe a d.
Proof. unfold mframe. intros H1 H2. decompose [and] H1. decompose [and] H2. repeat split; congruence. Qed.

Lemma push_event_form c s e : exists r, push_event c s e = set_ring s r.
Proof.
  unfold push_event. destruct (c_cb c); [destruct (_ <? _)|]; [eexists; reflexivity| |]; exists (ring s); destruct s; reflexivity.
Qed.

Lemma commit_eq s p : stopped (bf s) = false -> commit s p = upd_bf s (fun q => set_txq q (txq q ++ [p])).
Proof. unfold commit. intros ->. reflexivity. Qed.

Definition vok (s : lstate_t) (accn : list expect) : Prop :=
  (nver accn <= 1)%nat /\ (nver accn = 1%nat -> ver_received (pr s) = false).

Lemma opc_nonempty body : body <> [] -> (if 0 <? N.of_nat (length body) then byte body 0 else 255) = byte body 0.
Proof. destruct body; [congruence|]. intros _. cbn [length]. replace (0 <? N.of_nat (S (length body))) with true by lia. reflexivity. Qed.

Lemma l2class_enc e body : match l2cap_reply_enc e body with L2Drop => true | L2Reply _ => false end
                           = match l2cap_reply body with L2Drop => true | L2Reply _ => false end.
Proof.
  unfold l2cap_reply_enc. destruct (bytes_eqb body att_read_secret) eqn:E; [|reflexivity].
  apply bytes_eqb_eq in E. subst. reflexivity.
Qed.

(* ========================================================================================== the connection parameter answer *)
Lemma lo_hi x : lo8 x + 256 * hi8 x = x mod 65536.
Proof. unfold lo8, hi8. nlia. Qed.

Lemma in_range_true lo x hi : lo <= x -> x <= hi -> in_range lo x hi = true.
Proof. unfold in_range. lia. Qed.

Lemma clamp_mid lo hi x : lo <= hi -> lo <= (if (x <? lo) || (hi <? x) then (lo + hi) / 2 else x) /\ (if (x <? lo) || (hi <? x) then (lo + hi) / 2 else x) <= hi.
Proof. intros H. destruct (_ || _) eqn:E; [nlia|lia]. Qed.

Lemma cpr_answer c s body :
  cfg_ok27 c = true -> length body = 24%nat ->
  exists r, handle_cpr c s body = (Some r, []) /\ cpr_answer_ok c body r = true.
Proof.
  intros Hc Hl. unfold handle_cpr, cpr_answer_ok, cfg_ok27 in *.
  destruct (cpr_params_ok body); cbn [negb].
  2:{ destruct (c_cpr c); try discriminate; (eexists; split; [reflexivity|apply bytes_eqb_refl]). }
  destruct (c_cpr c) as [|imin imax lmin lmax tmin tmax|]; [| |discriminate].
  - eexists; split; [reflexivity|apply bytes_eqb_refl].
  - cbv beta iota in Hc.
    assert (W : imin <= imax /\ imax < 65536 /\ lmin <= lmax /\ lmax < 65536 /\ tmin <= tmax /\ tmax < 65536) by lia.
    clear Hc. destruct W as (W1 & W2 & W3 & W4 & W5 & W6).
    set (mi0 := N.max (rd16 body 1) imin). set (ma0 := N.min (rd16 body 3) imax).
    destruct (ma0 <? mi0) eqn:Em.
    + set (la := if (rd16 body 5 <? lmin) || (lmax <? rd16 body 5) then (lmin + lmax) / 2 else rd16 body 5).
      set (tmo := if (rd16 body 7 <? tmin) || (tmax <? rd16 body 7) then (tmin + tmax) / 2 else rd16 body 7).
      eexists; split; [reflexivity|].
      assert (La : lmin <= la /\ la <= lmax) by (subst la; apply clamp_mid; assumption).
      assert (Lt : tmin <= tmo /\ tmo <= tmax) by (subst tmo; apply clamp_mid; assumption).
      cbn [app length]. unfold slice at 1. rewrite firstn_length, skipn_length, Hl.
      unfold rd16 at 1 2 3 4 5 6. cbn [byte nth app]. rewrite !lo_hi.
      rewrite !N.mod_small by lia.
      rewrite !in_range_true by lia.
      replace (imin <=? imax) with true by lia.
      unfold slice at 1. cbn [skipn app]. fold (slice body 9 15). unfold slice. rewrite firstn_firstn. cbn [Nat.min].
      rewrite bytes_eqb_refl. reflexivity.
    + set (la := if (rd16 body 5 <? lmin) || (lmax <? rd16 body 5) then (lmin + lmax) / 2 else rd16 body 5).
      set (tmo := if (rd16 body 7 <? tmin) || (tmax <? rd16 body 7) then (tmin + tmax) / 2 else rd16 body 7).
      eexists; split; [reflexivity|].
      assert (La : lmin <= la /\ la <= lmax) by (subst la; apply clamp_mid; assumption).
      assert (Lt : tmin <= tmo /\ tmo <= tmax) by (subst tmo; apply clamp_mid; assumption).
      assert (Lm : imin <= mi0 /\ mi0 <= ma0 /\ ma0 <= imax) by (subst mi0 ma0; lia).
      cbn [app length]. unfold slice at 1. rewrite firstn_length, skipn_length, Hl.
      unfold rd16 at 1 2 3 4 5 6. cbn [byte nth app]. rewrite !lo_hi.
      rewrite !N.mod_small by lia.
      rewrite !in_range_true by lia.
      replace (mi0 <=? ma0) with true by lia.
      unfold slice at 1. cbn [skipn app]. unfold slice. rewrite firstn_firstn. cbn [Nat.min].
      rewrite bytes_eqb_refl. reflexivity.
Qed.

(* ========================================================================================== processing the receive queue *)
(* facts about the class that was selected *)
Lemma kind_facts phy enc ver o z k : ctrl_kind_b phy enc ver o z = k ->
  match k with
  | KVersion => ver = false
  | KUnknownRsp => o = 7
  | KRejectInd => o = 13
  | KRejectExt => o = 17
  | KCpr => z = 24
  | _ => True
  end.
Proof.
  unfold ctrl_kind_b. intros <-.
  repeat match goal with |- context [if ?b then _ else _] => let E := fresh "E" in destruct b eqn:E end; try exact I;
    change GenLL.LL_UNKNOWN_RSP with 7 in *; change GenLL.LL_REJECT_IND with 13 in *; change GenLL.LL_REJECT_EXT_IND with 17 in *;
    try lia; destruct ver; try reflexivity; lia.
Qed.

Definition pr_same (p q : procs) : Prop :=
  cpr_pending q = cpr_pending p /\ phy_pending q = phy_pending p /\ ver_pending q = ver_pending p /\ ver_received q = ver_received p
  /\ prop_min q = prop_min p /\ prop_max q = prop_max p /\ prop_lat q = prop_lat p /\ prop_to q = prop_to p.

Lemma handle_reject_form c s o b : o = 7 \/ o = 13 \/ o = 17 ->
  exists r prx,
    handle_reject c s o b =
      set_ring (set_pr (set_used_features (set_proc_timeout s (if (o =? 13) || (byte b 1 =? 15) then 0 else proc_timeout s))
                                          (if (o =? 7) && (byte b 1 =? 15) then N.land (used_features s) (65535 - cpr_feature) else used_features s))
                       prx) r
    /\ pr_same (pr s) prx.
Proof.
  intros Ho. unfold handle_reject, clear_cpr_feature, cpr_feature.
  change GenLL.LL_UNKNOWN_RSP with 7. change GenLL.LL_REJECT_IND with 13. change GenLL.LL_REJECT_EXT_IND with 17.
  change GenLL.LL_CONNECTION_PARAM_REQ with 15.
  destruct Ho as [-> | [-> | ->]]; cbn [N.eqb Pos.eqb negb orb andb];
    destruct (byte b 1 =? 15); cbn [negb orb andb];
    try change (pr (set_proc_timeout s 0)) with (pr s);
    try destruct (cpr_running (pr s) && cpr_sig (pr s)) eqn:ER;
    match goal with |- context [push_event c ?X ?e] => destruct (push_event_form c X e) as [r ->] end;
    exists r;
    first [ exists (set_cpr_running (set_cpr_sig (pr s) false) false); split; [reflexivity | unfold pr_same; cbn; repeat split; reflexivity]
          | exists (pr s); split; [reflexivity | unfold pr_same; repeat split; reflexivity] ].
Qed.

Definition Post (c : cfg) (s : lstate_t) (m : mon27) (acc : list expect)
                (s' : lstate_t) (it : list item) (res : ll_result) (m' : mon27) (acc' : list expect) (p : pres) : Prop :=
  match p with
  | PStop => True
  | PClosed => res = DoDisconnect
  | PGo => res = GoAhead /\ it = [] /\ PR c s' m' /\ sframe s s' /\ mframe m m'
           /\ (ver_received (pr s) = true -> ver_received (pr s') = true)
           /\ (proc_timeout s' = proc_timeout s \/ proc_timeout s' = 0)
           /\ exists new accn, unaired s' = unaired s ++ new /\ acc' = acc ++ accn /\ Matches c accn (ctrl new) /\ vok s accn
                               /\ (nver accn = 1%nat -> ver_received (pr s') = true)
  end.

Lemma Post_here c s m acc : PR c s m -> Post c s m acc s [] GoAhead m acc PGo.
Proof.
  intros H. cbn. split; [reflexivity|]. split; [reflexivity|]. split; [exact H|]. split; [apply sframe_refl|]. split; [apply mframe_refl|].
  split; [auto|]. split; [left; reflexivity|].
  exists [], []. rewrite !app_nil_r. split; [reflexivity|]. split; [reflexivity|]. split; [constructor|].
  unfold vok. cbn. split; [split; [lia|discriminate]|discriminate].
Qed.

(* one PDU was processed (state s2, monitor m2, expectations ek for the PDUs newk), the rest is processed from there *)
Lemma Post_compose c s m acc s2 m2 ek newk s' it res m' acc' p :
  sframe s s2 -> mframe m m2 -> unaired s2 = unaired s ++ newk -> Matches c ek (ctrl newk) ->
  ((nver ek = 0%nat /\ ver_received (pr s2) = ver_received (pr s)) \/ (nver ek = 1%nat /\ ver_received (pr s) = false /\ ver_received (pr s2) = true)) ->
  (proc_timeout s2 = proc_timeout s \/ proc_timeout s2 = 0) ->
  Post c s2 m2 (acc ++ ek) s' it res m' acc' p -> Post c s m acc s' it res m' acc' p.
Proof.
  intros F1 F2 U M V T H. destruct p; cbn in *; auto.
  destruct H as (H1 & H2 & H3 & H4 & H5 & Hmono & Ht & new & accn & H6 & H7 & H8 & (H9 & H10) & H11).
  split; [exact H1|]. split; [exact H2|]. split; [exact H3|]. split; [eapply sframe_trans; eauto|]. split; [eapply mframe_trans; eauto|].
  split; [|split].
  - intros E. apply Hmono. destruct V as [[V1 V2]|(V1 & V2 & V3)]; congruence.
  - destruct Ht as [Ht|Ht]; [|right; exact Ht]. destruct T as [T|T]; [left|right]; congruence.
  - exists (newk ++ new), (ek ++ accn). rewrite H6, U, H7, !app_assoc. split; [reflexivity|]. split; [reflexivity|]. unfold vok in *. split; [|split; [split|]].
    + unfold Matches. rewrite ctrl_app. apply Forall2_app; assumption.
    + rewrite nver_app. destruct V as [[V1 V2]|(V1 & V2 & V3)]; [lia|].
      destruct (Nat.eq_dec (nver accn) 1) as [E|E]; [specialize (H10 E); congruence|lia].
    + rewrite nver_app. intros E. destruct V as [[V1 V2]|(V1 & V2 & V3)]; [|exact V2].
      rewrite <- V2. apply H10. lia.
    + rewrite nver_app. intros E. destruct V as [[V1 V2]|(V1 & V2 & V3)]; [apply H11; lia|apply Hmono; exact V3].
Qed.

Definition popS (s : lstate_t) (rest : list pdu) : lstate_t := upd_bf s (fun b => set_rxq b rest).

Lemma after_nocommit sX rest :
  stopped (bf sX) = false -> WFb sX ->
  let s2 := popS sX rest in
  s2 = set_bf sX (bf s2) /\ rxq (bf s2) = rest /\ txa s2 = txa sX /\ stopped (bf s2) = false /\ WFb s2 /\ unaired s2 = unaired sX.
Proof. intros St W. cbn zeta. unfold popS. repeat split; try reflexivity; assumption. Qed.

Lemma after_commit sX p rest :
  stopped (bf sX) = false -> WFb sX ->
  let s2 := popS (commit sX p) rest in
  s2 = set_bf sX (bf s2) /\ rxq (bf s2) = rest /\ txa s2 = txa sX /\ stopped (bf s2) = false /\ WFb s2 /\ unaired s2 = unaired sX ++ [p].
Proof.
  intros St W. cbn zeta. destruct (LLProofsC28Air.unaired_commit sX p W St) as (U & W2 & S2 & T2).
  unfold popS. rewrite (commit_eq sX p St) in *. repeat split; try reflexivity; assumption.
Qed.

Lemma rx_ok_tail p l : rx_ok (p :: l) -> rx_ok l.
Proof. intros H. inversion H; assumption. Qed.
Lemma rx_ok_head llid body l : rx_ok ((llid, body) :: l) -> (llid = 2 \/ llid = 3) /\ body <> [] /\ bytes_ok body.
Proof. intros H. inversion H as [|? ? [H1 [H2 H3]] ?]; subst. cbn [fst snd] in *. repeat split; auto. lia. Qed.

Lemma spec_is_ctrl c ver body :
  bytes_ok body -> spec_kind (c_phy c) (c_enc c) ver (byte body 0) (N.of_nat (length body))
                   = ctrl_kind_b (c_phy c) (c_enc c) ver (byte body 0) (N.of_nat (length body)).
Proof. intros B. symmetry. apply (ctrl_kind_is_spec c). apply LLProofsC21.byte_lt. exact B. Qed.

Section Sim.
Variable c : cfg.
Hypothesis Hc : cfg_ok27 c = true.

Lemma process_sim : forall fuel s m cbs acc s' it res m' acc' p,
  PR c s m ->
  handle_received_data fuel c s = (s', it, res) -> process27 fuel c m cbs acc = (m', acc', p) ->
  Post c s m acc s' it res m' acc' p.
Proof.
  induction fuel as [|fuel IH]; intros s m cbs acc s' it res m' acc' p HPR Hs Hp.
  { cbn in Hs, Hp. inversion Hs; inversion Hp; subst. apply Post_here. exact HPR. }
  pose proof HPR as (P1 & P2 & P3 & P4 & P5 & P6 & P7 & P8 & P9 & P10 & P11 & P12).
  cbn [handle_received_data] in Hs. cbn [process27] in Hp.
  rewrite P8 in Hs. rewrite P1 in Hp.
  destruct (rxq (bf s)) as [|[llid body] rest] eqn:ERX.
  { inversion Hs; inversion Hp; subst. apply Post_here. exact HPR. }
  destruct (rx_ok_head _ _ _ P12) as (Hll & Hne & Hbo). pose proof (rx_ok_tail _ _ P12) as Hrest.
  change GenLL.ll_control_pdu_code with 3 in Hs. change GenLL.lld_data_pdu_code with 2 in Hs.
  unfold tx_buffer_available in Hs. fold (txa s) in Hs. rewrite <- P2 in Hs.
  destruct Hll as [-> | ->]; cbn [N.eqb Pos.eqb] in Hs, Hp.
  - (* L2CAP *)
    rewrite P9 in Hs. cbn [negb andb] in Hs.
    assert (EL : match (if c_enc c then l2cap_reply_enc (is_enc (sc s)) body else l2cap_reply body) with L2Drop => true | L2Reply _ => false end
                 = match l2cap_reply body with L2Drop => true | L2Reply _ => false end)
      by (destruct (c_enc c); [apply l2class_enc|reflexivity]).
    destruct (after_nocommit s rest P10 P11) as (A1 & A2 & A3 & A4 & A5 & A6).
    destruct (if c_enc c then _ else _) as [|r] eqn:EM; destruct (l2cap_reply body) as [|r'] eqn:EM'; try discriminate.
    + eapply Post_compose with (s2 := popS s rest) (m2 := set_m_rx m rest) (ek := []) (newk := []);
        [unfold sframe; repeat split; reflexivity | unfold mframe; repeat split; reflexivity | rewrite app_nil_r; exact A6 | constructor
        | left; split; reflexivity | left; reflexivity | ].
      rewrite app_nil_r. eapply IH; [|exact Hs|exact Hp].
      unfold PR. repeat split; try assumption; try reflexivity; try (rewrite ?A3; cbn; congruence).
    + destruct (m_txa m) eqn:ET.
      * destruct r as [f|].
        -- destruct (after_commit s (2, f) rest P10 P11) as (B1 & B2 & B3 & B4 & B5 & B6).
           eapply Post_compose with (s2 := popS (commit s (2, f)) rest) (m2 := set_m_rx m rest) (ek := []) (newk := [(2, f)]);
             [rewrite B1; unfold sframe; repeat split; reflexivity | unfold mframe; repeat split; reflexivity | exact B6 | constructor
             | left; split; [reflexivity|rewrite B1; reflexivity] | left; rewrite B1; reflexivity | ].
           rewrite app_nil_r. eapply IH; [|exact Hs|exact Hp].
           unfold PR. rewrite B1 at 3 4 5 6 7 8 9. cbn [pr set_bf used_features proc_timeout deferred st].
           repeat split; try assumption; try reflexivity; try congruence. rewrite B3. cbn. congruence.
        -- eapply Post_compose with (s2 := popS s rest) (m2 := set_m_rx m rest) (ek := []) (newk := []);
             [unfold sframe; repeat split; reflexivity | unfold mframe; repeat split; reflexivity | rewrite app_nil_r; exact A6 | constructor
             | left; split; reflexivity | left; reflexivity | ].
           rewrite app_nil_r. eapply IH; [|exact Hs|exact Hp].
           unfold PR. repeat split; try assumption; try reflexivity; try (rewrite ?A3; cbn; congruence).
      * inversion Hs; inversion Hp; subst. apply Post_here. exact HPR.
  - (* control PDU *)
    destruct (m_txa m) eqn:ET; cbn [negb] in Hp; [|inversion Hs; inversion Hp; subst; apply Post_here; exact HPR].
    unfold handle_ll_control in Hs. rewrite (opc_nonempty body Hne) in Hs. unfold ctrl_kind in Hs.
    rewrite (spec_is_ctrl c _ body Hbo), P3 in Hp.
    pose proof (kind_facts (c_phy c) (c_enc c) (ver_received (pr s)) (byte body 0) (N.of_nat (length body)) _ eq_refl) as KF.
    destruct (ctrl_kind_b (c_phy c) (c_enc c) (ver_received (pr s)) (byte body 0) (N.of_nat (length body))) eqn:K;
      try (inversion Hp; subst; exact I).
    + (* KTerminate *) inversion Hp; subst. cbn in Hs. inversion Hs. reflexivity.
    + (* KVersion *)
      cbn beta iota zeta in Hs. unfold commit_ctrl in Hs. change GenLL.ll_control_pdu_code with 3 in Hs.
      rewrite (P4 KF) in Hp.
      set (s2 := if byte body 1 <=? GenLL.LL_VERSION_40 then clear_cpr_feature (set_proc_timeout s 0) else set_proc_timeout s 0) in *.
      destruct (push_event_form c s2 (EvVersion (byte body 1) (rd16 body 2) (rd16 body 4))) as [rr Er]. rewrite Er in Hs.
      set (sX := upd_pr (set_ring s2 rr) (fun p => set_ver_received p true)) in *.
      fold (popS (commit sX (3, version_ind_pdu)) rest) in Hs.
      destruct (handle_received_data fuel c (popS (commit sX (3, version_ind_pdu)) rest)) as [[s3 it3] r3] eqn:E3. inversion Hs; subst s' it res; clear Hs.
      assert (St : stopped (bf sX) = false) by (subst sX s2; destruct (_ <=? _); exact P10).
      assert (Wx : WFb sX) by (subst sX s2; destruct (_ <=? _); exact P11).
      destruct (after_commit sX (3, version_ind_pdu) rest St Wx) as (B1 & B2 & B3 & B4 & B5 & B6).
      match type of Hp with process27 fuel c (set_m_rx ?M rest) cbs ?A = _ =>
        eapply Post_compose with (s2 := popS (commit sX (3, version_ind_pdu)) rest) (m2 := set_m_rx M rest)
                                 (ek := [EExact [12; GenLL.LL_VERSION_NR; GenLL.company_identifier mod 256; GenLL.company_identifier / 256; 0; 0]])
                                 (newk := [(3, version_ind_pdu)]) end.
      * rewrite B1. subst sX s2. unfold sframe. destruct (_ <=? _); repeat split; reflexivity.
      * unfold mframe. destruct (_ <=? _); repeat split; reflexivity.
      * rewrite B6. subst sX s2. destruct (_ <=? _); reflexivity.
      * constructor; [reflexivity|constructor].
      * right. split; [reflexivity|]. split; [exact KF|]. rewrite B1. reflexivity.
      * right. rewrite B1. subst sX s2. destruct (_ <=? _); reflexivity.
      * eapply IH; [|exact E3|exact Hp].
        unfold PR. rewrite B1 at 3 4 5 6 7 8 9. rewrite B3.
        subst sX s2. unfold cpr_feature, clear_cpr_feature. destruct (_ <=? _);
          cbn [pr set_bf upd_pr set_pr set_ring used_features proc_timeout deferred st set_used_features set_proc_timeout ver_received set_ver_received
               m_rx m_txa m_ver_rcv m_ver_sent m_used m_timer m_owner set_m_rx set_m_ver_rcv set_m_used set_m_timer];
          repeat split; try assumption; try reflexivity; try congruence; try discriminate; try (unfold txa in *; cbn [bf upd_pr set_pr set_ring set_used_features set_proc_timeout]; congruence).
    + (* KPing *)
      cbn beta iota zeta in Hs. unfold commit_ctrl in Hs. change GenLL.ll_control_pdu_code with 3 in Hs. change GenLL.LL_PING_RSP with 19 in Hs.
      fold (popS (commit s (3, [19])) rest) in Hs.
      destruct (handle_received_data fuel c (popS (commit s (3, [19])) rest)) as [[s3 it3] r3] eqn:E3. inversion Hs; subst; clear Hs.
      destruct (after_commit s (3, [19]) rest P10 P11) as (B1 & B2 & B3 & B4 & B5 & B6).
      eapply Post_compose with (s2 := popS (commit s (3, [19])) rest) (m2 := set_m_rx m rest) (ek := [EExact [19]]) (newk := [(3, [19])]);
        [rewrite B1; unfold sframe; repeat split; reflexivity | unfold mframe; repeat split; reflexivity | exact B6
        | repeat constructor | left; split; [reflexivity|rewrite B1; reflexivity] | left; rewrite B1; reflexivity | ].
      eapply IH; [|exact E3|exact Hp].
      unfold PR. rewrite B1 at 3 4 5 6 7 8 9. cbn [pr set_bf used_features proc_timeout deferred st].
      repeat split; try assumption; try reflexivity; try congruence. rewrite B3. cbn. congruence.
    + (* KFeature *)
      cbn beta iota zeta in Hs. unfold commit_ctrl in Hs. change GenLL.ll_control_pdu_code with 3 in Hs. change GenLL.LL_FEATURE_RSP with 9 in Hs.
      set (u := N.land (used_features s) (rd16 body 1)) in *.
      destruct (push_event_form c (set_used_features s u) (EvFeatures (slice body 1 8))) as [rr Er]. rewrite Er in Hs.
      set (sX := set_ring (set_used_features s u) rr) in *.
      set (bb := [9; lo8 (used_features (set_used_features s u)); hi8 (supported_features c); 0; 0; 0; 0; 0; 0]) in *.
      fold (popS (commit sX (3, bb)) rest) in Hs.
      destruct (handle_received_data fuel c (popS (commit sX (3, bb)) rest)) as [[s3 it3] r3] eqn:E3. inversion Hs; subst s' it res; clear Hs.
      destruct (after_commit sX (3, bb) rest P10 P11) as (B1 & B2 & B3 & B4 & B5 & B6).
      rewrite P5 in Hp. fold u in Hp.
      eapply Post_compose with (s2 := popS (commit sX (3, bb)) rest) (m2 := set_m_rx (set_m_used m u) rest) (ek := [EFeature (u mod 256)]) (newk := [(3, bb)]);
        [rewrite B1; unfold sframe; repeat split; reflexivity | unfold mframe; repeat split; reflexivity | exact B6
        | constructor; [apply bytes_eqb_refl|constructor] | left; split; [reflexivity|rewrite B1; reflexivity] | left; rewrite B1; reflexivity | ].
      eapply IH; [|exact E3|exact Hp].
      unfold PR. rewrite B1 at 3 4 5 6 7 8 9. cbn [pr set_bf used_features proc_timeout deferred st sX set_ring set_used_features].
      repeat split; try assumption; try reflexivity; try congruence. rewrite B3. change (txa sX) with (txa s). cbn. congruence.
    + (* KUnknownRsp *)
      cbn beta iota zeta in Hs.
      destruct (handle_reject_form c s (byte body 0) body) as (rr & prx & Ef & Ps); [rewrite KF; auto|]. rewrite Ef in Hs. clear Ef.
      rewrite KF in Hs, Hp. rewrite P7, andb_false_r, orb_false_r in Hp. cbn [N.eqb Pos.eqb orb andb] in Hs, Hp.
      destruct Ps as (Q1 & Q2 & Q3 & Q4 & Q5 & Q6 & Q7 & Q8).
      match type of Hs with context [set_ring ?X rr] => set (sX := set_ring X rr) in * end.
      fold (popS sX rest) in Hs.
      destruct (handle_received_data fuel c (popS sX rest)) as [[s3 it3] r3] eqn:E3. inversion Hs; subst s' it res; clear Hs.
      destruct (after_nocommit sX rest P10 P11) as (A1 & A2 & A3 & A4 & A5 & A6).
      match type of Hp with process27 fuel c (set_m_rx ?M rest) cbs ?A = _ =>
        eapply Post_compose with (s2 := popS sX rest) (m2 := set_m_rx M rest) (ek := []) (newk := []) end.
      * subst sX. unfold sframe. cbn. repeat split; try reflexivity; assumption.
      * unfold mframe. destruct (byte body 1 =? 15); repeat split; reflexivity.
      * rewrite app_nil_r. exact A6.
      * constructor.
      * left. split; [reflexivity|]. subst sX. cbn. exact Q4.
      * subst sX. unfold popS. cbn. destruct (byte body 1 =? 15); auto.
      * rewrite app_nil_r. eapply IH; [|exact E3|exact Hp].
        unfold PR. subst sX. unfold popS, cpr_feature. destruct (byte body 1 =? 15);
          cbn [pr bf upd_bf set_bf set_pr set_ring used_features proc_timeout deferred st set_used_features set_proc_timeout rxq set_rxq stopped
               m_rx m_txa m_ver_rcv m_ver_sent m_used m_timer m_owner set_m_rx set_m_ver_rcv set_m_used set_m_timer];
          repeat split; try assumption; try reflexivity; try congruence; try (unfold txa in *; cbn [bf upd_bf set_bf set_pr set_ring set_used_features set_proc_timeout tx_avail set_rxq]; congruence); try (rewrite Q4; exact P4).
    + (* KRejectInd *)
      cbn beta iota zeta in Hs.
      destruct (handle_reject_form c s (byte body 0) body) as (rr & prx & Ef & Ps); [rewrite KF; auto|]. rewrite Ef in Hs. clear Ef.
      rewrite KF in Hs, Hp. rewrite P7, andb_false_r, orb_false_r in Hp. cbn [N.eqb Pos.eqb orb andb] in Hs, Hp.
      destruct Ps as (Q1 & Q2 & Q3 & Q4 & Q5 & Q6 & Q7 & Q8).
      match type of Hs with context [set_ring ?X rr] => set (sX := set_ring X rr) in * end.
      fold (popS sX rest) in Hs.
      destruct (handle_received_data fuel c (popS sX rest)) as [[s3 it3] r3] eqn:E3. inversion Hs; subst s' it res; clear Hs.
      destruct (after_nocommit sX rest P10 P11) as (A1 & A2 & A3 & A4 & A5 & A6).
      match type of Hp with process27 fuel c (set_m_rx ?M rest) cbs ?A = _ =>
        eapply Post_compose with (s2 := popS sX rest) (m2 := set_m_rx M rest) (ek := []) (newk := []) end.
      * subst sX. unfold sframe. cbn. repeat split; try reflexivity; assumption.
      * unfold mframe. destruct (byte body 1 =? 15); repeat split; reflexivity.
      * rewrite app_nil_r. exact A6.
      * constructor.
      * left. split; [reflexivity|]. subst sX. cbn. exact Q4.
      * subst sX. unfold popS. cbn. destruct (byte body 1 =? 15); auto.
      * rewrite app_nil_r. eapply IH; [|exact E3|exact Hp].
        unfold PR. subst sX. unfold popS, cpr_feature. destruct (byte body 1 =? 15);
          cbn [pr bf upd_bf set_bf set_pr set_ring used_features proc_timeout deferred st set_used_features set_proc_timeout rxq set_rxq stopped
               m_rx m_txa m_ver_rcv m_ver_sent m_used m_timer m_owner set_m_rx set_m_ver_rcv set_m_used set_m_timer];
          repeat split; try assumption; try reflexivity; try congruence; try (unfold txa in *; cbn [bf upd_bf set_bf set_pr set_ring set_used_features set_proc_timeout tx_avail set_rxq]; congruence); try (rewrite Q4; exact P4).
    + (* KRejectExt *)
      cbn beta iota zeta in Hs.
      destruct (handle_reject_form c s (byte body 0) body) as (rr & prx & Ef & Ps); [rewrite KF; auto|]. rewrite Ef in Hs. clear Ef.
      rewrite KF in Hs, Hp. rewrite P7, andb_false_r, orb_false_r in Hp. cbn [N.eqb Pos.eqb orb andb] in Hs, Hp.
      destruct Ps as (Q1 & Q2 & Q3 & Q4 & Q5 & Q6 & Q7 & Q8).
      match type of Hs with context [set_ring ?X rr] => set (sX := set_ring X rr) in * end.
      fold (popS sX rest) in Hs.
      destruct (handle_received_data fuel c (popS sX rest)) as [[s3 it3] r3] eqn:E3. inversion Hs; subst s' it res; clear Hs.
      destruct (after_nocommit sX rest P10 P11) as (A1 & A2 & A3 & A4 & A5 & A6).
      match type of Hp with process27 fuel c (set_m_rx ?M rest) cbs ?A = _ =>
        eapply Post_compose with (s2 := popS sX rest) (m2 := set_m_rx M rest) (ek := []) (newk := []) end.
      * subst sX. unfold sframe. cbn. repeat split; try reflexivity; assumption.
      * unfold mframe. destruct (byte body 1 =? 15); repeat split; reflexivity.
      * rewrite app_nil_r. exact A6.
      * constructor.
      * left. split; [reflexivity|]. subst sX. cbn. exact Q4.
      * subst sX. unfold popS. cbn. destruct (byte body 1 =? 15); auto.
      * rewrite app_nil_r. eapply IH; [|exact E3|exact Hp].
        unfold PR. subst sX. unfold popS, cpr_feature. destruct (byte body 1 =? 15);
          cbn [pr bf upd_bf set_bf set_pr set_ring used_features proc_timeout deferred st set_used_features set_proc_timeout rxq set_rxq stopped
               m_rx m_txa m_ver_rcv m_ver_sent m_used m_timer m_owner set_m_rx set_m_ver_rcv set_m_used set_m_timer];
          repeat split; try assumption; try reflexivity; try congruence; try (unfold txa in *; cbn [bf upd_bf set_bf set_pr set_ring set_used_features set_proc_timeout tx_avail set_rxq]; congruence); try (rewrite Q4; exact P4).
    + (* KCpr *)
      cbn beta iota zeta in Hs.
      destruct (cpr_answer c s body Hc) as (r & Er & Ok); [lia|]. rewrite Er in Hs.
      unfold commit_ctrl in Hs. change GenLL.ll_control_pdu_code with 3 in Hs.
      fold (popS (commit s (3, r)) rest) in Hs.
      destruct (handle_received_data fuel c (popS (commit s (3, r)) rest)) as [[s3 it3] r3] eqn:E3. inversion Hs; subst s' it res; clear Hs.
      assert (Hp' : process27 fuel c (set_m_rx m rest) cbs (acc ++ [ECpr body]) = (m', acc', p))
        by (unfold cfg_ok27 in Hc; destruct (c_cpr c); [exact Hp|exact Hp|discriminate]).
      destruct (after_commit s (3, r) rest P10 P11) as (B1 & B2 & B3 & B4 & B5 & B6).
      eapply Post_compose with (s2 := popS (commit s (3, r)) rest) (m2 := set_m_rx m rest) (ek := [ECpr body]) (newk := [(3, r)]);
        [rewrite B1; unfold sframe; repeat split; reflexivity | unfold mframe; repeat split; reflexivity | exact B6
        | constructor; [exact Ok|constructor] | left; split; [reflexivity|rewrite B1; reflexivity] | left; rewrite B1; reflexivity | ].
      eapply IH; [|exact E3|exact Hp'].
      unfold PR. rewrite B1 at 3 4 5 6 7 8 9. cbn [pr set_bf used_features proc_timeout deferred st].
      repeat split; try assumption; try reflexivity; try congruence. rewrite B3. cbn. congruence.
    + (* KPhyReq *)
      cbn beta iota zeta in Hs. unfold commit_ctrl in Hs. change GenLL.ll_control_pdu_code with 3 in Hs. change GenLL.LL_PHY_RSP with 23 in Hs.
      fold (popS (commit s (3, [23; 3; 3])) rest) in Hs.
      destruct (handle_received_data fuel c (popS (commit s (3, [23; 3; 3])) rest)) as [[s3 it3] r3] eqn:E3. inversion Hs; subst; clear Hs.
      destruct (after_commit s (3, [23; 3; 3]) rest P10 P11) as (B1 & B2 & B3 & B4 & B5 & B6).
      eapply Post_compose with (s2 := popS (commit s (3, [23; 3; 3])) rest) (m2 := set_m_rx m rest) (ek := [EExact [23; 3; 3]]) (newk := [(3, [23; 3; 3])]);
        [rewrite B1; unfold sframe; repeat split; reflexivity | unfold mframe; repeat split; reflexivity | exact B6
        | constructor; [apply bytes_eqb_refl|constructor] | left; split; [reflexivity|rewrite B1; reflexivity] | left; rewrite B1; reflexivity | ].
      eapply IH; [|exact E3|exact Hp].
      unfold PR. rewrite B1 at 3 4 5 6 7 8 9. cbn [pr set_bf used_features proc_timeout deferred st].
      repeat split; try assumption; try reflexivity; try congruence. rewrite B3. cbn. congruence.
    + (* KUnknown *)
      cbn beta iota zeta in Hs. unfold commit_ctrl in Hs. change GenLL.ll_control_pdu_code with 3 in Hs. change GenLL.LL_UNKNOWN_RSP with 7 in Hs.
      fold (popS (commit s (3, [7; byte body 0])) rest) in Hs.
      destruct (handle_received_data fuel c (popS (commit s (3, [7; byte body 0])) rest)) as [[s3 it3] r3] eqn:E3. inversion Hs; subst; clear Hs.
      destruct (after_commit s (3, [7; byte body 0]) rest P10 P11) as (B1 & B2 & B3 & B4 & B5 & B6).
      eapply Post_compose with (s2 := popS (commit s (3, [7; byte body 0])) rest) (m2 := set_m_rx m rest) (ek := [EExact [7; byte body 0]]) (newk := [(3, [7; byte body 0])]);
        [rewrite B1; unfold sframe; repeat split; reflexivity | unfold mframe; repeat split; reflexivity | exact B6
        | constructor; [apply bytes_eqb_refl|constructor] | left; split; [reflexivity|rewrite B1; reflexivity] | left; rewrite B1; reflexivity | ].
      eapply IH; [|exact E3|exact Hp].
      unfold PR. rewrite B1 at 3 4 5 6 7 8 9. cbn [pr set_bf used_features proc_timeout deferred st].
      repeat split; try assumption; try reflexivity; try congruence. rewrite B3. cbn. congruence.
    + (* KIgnore *)
      cbn beta iota zeta in Hs. fold (popS s rest) in Hs.
      destruct (handle_received_data fuel c (popS s rest)) as [[s3 it3] r3] eqn:E3. inversion Hs; subst; clear Hs.
      destruct (after_nocommit s rest P10 P11) as (A1 & A2 & A3 & A4 & A5 & A6).
      eapply Post_compose with (s2 := popS s rest) (m2 := set_m_rx m rest) (ek := []) (newk := []);
        [unfold sframe; repeat split; reflexivity | unfold mframe; repeat split; reflexivity | rewrite app_nil_r; exact A6 | constructor
        | left; split; reflexivity | left; reflexivity | ].
      rewrite app_nil_r. eapply IH; [|exact E3|exact Hp].
      unfold PR. repeat split; try assumption; try reflexivity; try (rewrite ?A3; cbn; congruence).

Qed.
End Sim.

(* ========================================================================================== no ITx outside the radio's part *)
Lemma notx_app a b : forallb notx (a ++ b) = forallb notx a && forallb notx b.
Proof. apply forallb_app. Qed.

Lemma hlc_notx c s body : forallb notx (snd (fst (handle_ll_control c s body))) = true.
Proof.
  unfold handle_ll_control. destruct (ctrl_kind c _ _ _); cbn [fst snd];
    try (unfold handle_cpr; destruct (negb (cpr_params_ok body)); [|destruct (c_cpr c); [| |destruct (_ && _ && _ && _)]]);
    repeat match goal with |- context [if ?b then _ else _] => destruct b end; reflexivity.
Qed.

Lemma hrd_notx c : forall fuel s, forallb notx (snd (fst (handle_received_data fuel c s))) = true.
Proof.
  induction fuel as [|fuel IH]; intros s; cbn [handle_received_data]; [reflexivity|].
  destruct (deferred s); [reflexivity|]. destruct (rxq (bf s)) as [|[llid body] rest]; [reflexivity|].
  destruct (llid =? _).
  - destruct (tx_buffer_available s); [|reflexivity].
    pose proof (hlc_notx c s body) as X. destruct (handle_ll_control c s body) as [[s1 it] r]. cbn [fst snd] in X.
    destruct r; [|exact X].
    specialize (IH (upd_bf s1 (fun b => set_rxq b rest))). destruct (handle_received_data fuel c _) as [[s3 it3] r3]. cbn [fst snd] in *.
    rewrite notx_app, X, IH. reflexivity.
  - destruct (_ && _); [|reflexivity]. destruct (if c_enc c then _ else _) as [|r]; [apply IH|].
    destruct (tx_buffer_available s); [apply IH|reflexivity].
Qed.

Lemma fd_notx c s : forallb notx (snd (force_disconnect c s)) = true.
Proof.
  unfold force_disconnect, reset_encryption, reset_phy. destruct (c_enc c); destruct (c_phy c); destruct (st _); reflexivity.
Qed.

Lemma pts_notx c s s' it : pending_then_setup c s = Some (s', it) -> forallb notx it = true.
Proof.
  unfold pending_then_setup. intros H.
  destruct (handle_pending_ll_control c s) as [[[s1 it1] res]|] eqn:E; cbn [obind] in H; [|discriminate].
  assert (N1 : forallb notx it1 = true).
  { unfold handle_pending_ll_control in E. destruct (deferred s); [|inversion E; reflexivity].
    destruct (_ =? _); [|inversion E; reflexivity]. destruct (_ =? GenLL.LL_CHANNEL_MAP_REQ).
    - destruct (ChanMapModel.reset_impl _ _ _). inversion E. reflexivity.
    - destruct (_ =? GenLL.LL_CONNECTION_UPDATE_IND); [|inversion E; reflexivity].
      destruct (parse_update l) as [t ok]. destruct ok as [[|]|]; inversion E; reflexivity. }
  destruct res.
  - destruct (setup_next_connection_event s1) as [[s2 it2]|] eqn:E2; cbn [obind] in H; [|discriminate].
    apply setup_next_frame in E2. destruct E2 as [_ (ch & ws & we & ->)]. inversion H. rewrite notx_app, N1. reflexivity.
  - pose proof (fd_notx c s1) as F. destruct (force_disconnect c s1) as [s2 it2]. inversion H. rewrite notx_app, N1. exact F.
Qed.

Lemma flush_notx s : forallb notx (snd (flush_events s)) = true.
Proof. cbn [flush_events snd]. induction (ring s); [reflexivity|exact IHl]. Qed.

Lemma continue_notx c s e s' it : end_event_continue c s e = Some (s', it) -> forallb notx it = true.
Proof.
  unfold end_event_continue, force_disconnect_reason. intros H. destruct (procedure_timed_out s).
  - inversion H. pose proof (fd_notx c (set_disc_reason s GenLL.connection_ll_response_timeout)) as F.
    destruct (force_disconnect c _) as [s5 it5]. inversion H1; subst. exact F.
  - assert (N6 : forall x, forallb notx (snd (transmit_pending_security_pdus c x)) = true).
    { intros x. unfold transmit_pending_security_pdus. destruct (_ && _ && _); [destruct (has_key _)|]; reflexivity. }
    match type of H with context [transmit_pending_security_pdus c ?X] => specialize (N6 X); destruct (transmit_pending_security_pdus c X) as [s6 it6] end.
    cbn [snd] in N6.
    destruct (plan_next_connection_event c s6 _) as [s7|]; cbn [obind] in H; [|discriminate].
    destruct (pending_then_setup c s7) as [[s8 it8]|] eqn:E8; cbn [obind] in H; [|discriminate].
    apply pts_notx in E8. inversion H. rewrite notx_app, N6, E8. reflexivity.
Qed.

Lemma end_event_notx c s e s' it : do_end_event c s e = Some (s', it) -> forallb notx it = true.
Proof.
  unfold do_end_event. intros H.
  destruct (end_event_body c (end_event_prologue c s) e) as [[s9 it9]|] eqn:E; cbn [obind] in H; [|discriminate].
  inversion H as [[Hq H0]]. clear H. rewrite notx_app.
  assert (FN : forall l, forallb notx (map ICb l) = true) by (induction l; [reflexivity|assumption]).
  rewrite FN, andb_true_r.
  unfold end_event_body in E. destruct (_ && _ && _).
  - inversion E. pose proof (fd_notx c (end_event_prologue c s)) as F. destruct (force_disconnect c _) as [sa ia]. inversion E; subst. exact F.
  - pose proof (hrd_notx c (S (length (rxq (bf (end_event_prologue c s))))) (end_event_prologue c s)) as X.
    destruct (handle_received_data _ c _) as [[s3 it3] res]. cbn [fst snd] in X. destruct res.
    + destruct (end_event_continue c (send_control_pdus s3) e) as [[s8 it8]|] eqn:E8; cbn [obind] in E; [|discriminate].
      apply continue_notx in E8. inversion E. rewrite notx_app, X, E8. reflexivity.
    + pose proof (fd_notx c s3) as F. destruct (force_disconnect c s3) as [s4 it4]. inversion E. rewrite notx_app, X. exact F.
Qed.

(* ========================================================================================== delivered PDUs *)
Lemma deliver_ok pdus : forallb pdu_ok27 pdus = true -> rx_ok (deliver pdus).
Proof.
  unfold deliver, rx_ok. induction pdus as [|[llid body] pdus IH]; intros H; [constructor|].
  cbn [forallb] in H. apply andb_prop in H. destruct H as [H1 H2]. cbn [map filter fst snd].
  destruct (negb (N.of_nat (length body) =? 0) && negb (N.land (N.land llid 3) 3 =? 0)) eqn:E; [|apply IH; exact H2].
  constructor; [|apply IH; exact H2]. cbn [fst snd].
  unfold pdu_ok27 in H1. cbn [fst snd] in H1. apply andb_prop in H1. destruct H1 as [Hb Hf].
  replace (N.land (N.land llid 3) 3) with (N.land llid 3) in E by (rewrite <- N.land_assoc; reflexivity).
  assert (L : N.land llid 3 < 4) by (change 3 with (N.ones 2); rewrite N.land_ones; apply N.mod_lt; discriminate).
  split; [|split].
  - destruct (N.of_nat (length body) =? 0) eqn:E0; [discriminate E|]. cbn [negb andb] in *. lia.
  - destruct body; [discriminate E|discriminate].
  - unfold bytes_ok. rewrite Forall_forall. rewrite forallb_forall in Hb. intros x Hx. specialize (Hb x Hx). lia.
Qed.

(* ========================================================================================== the coupling between operations *)
Definition own_ok (s : lstate_t) (m : mon27) : Prop :=
  m_cpr m = (if cpr_pending (pr s)
             then Some (prop_min (pr s) mod 65536, prop_max (pr s) mod 65536, prop_lat (pr s) mod 65536, prop_to (pr s) mod 65536)
             else None)
  /\ phy_pending (pr s) = false /\ m_phy m = None /\ ver_pending (pr s) = false /\ m_ver m = false /\ m_acpr m = None.

Definition Tight (c : cfg) (s : lstate_t) (m : mon27) : Prop :=
  m_conn m = true /\ m_stop m = false /\ PR c s m /\ own_ok s m
  /\ (st s = Connecting \/ st s = Connected)
  /\ Matches c (m_exp m) (ctrl (unaired s))
  /\ (m_ver_sent m = true -> nver (m_exp m) = 0%nat) /\ (nver (m_exp m) <= 1)%nat
  /\ (ver_received (pr s) = false -> nver (m_exp m) = 0%nat)
  /\ (st s = Connected -> tw_size (tm s) = 0 /\ m_t m = tsle (cs s))
  /\ (st s = Connecting -> proc_timeout s = 0)
  /\ disc_reason s = 8 /\ ring s = [] /\ enc_prog (sc s) = false.

Definition Loose (m : mon27) : Prop := m_conn m = false \/ m_stop m = true.

Definition G (c : cfg) (s : lstate_t) (m : mon27) : Prop :=
  m_txa m = txa s /\ LLProofsC21.Inv c s /\ exists m28, LLProofsC28.R c s m28 /\ LLProofsC28Air.TB c s m28.

Definition Sim (c : cfg) (s : lstate_t) (m : mon27) : Prop := G c s m /\ (Loose m \/ Tight c s m).

(* the window of a scheduled event is symmetric about the anchor when there is no transmit window *)
Lemma setup_next_mid s s' it :
  setup_next_connection_event s = Some (s', it) -> tw_size (tm s) = 0 ->
  exists ch ws we, it = [ICe ch ws we (interval (tm s))] /\ (ws + we) / 2 = tsle (cs s).
Proof.
  unfold setup_next_connection_event. intros H Z. rewrite Z in H. cbn [N.eqb negb] in H.
  destruct (dt_sub _ _) as [ws|] eqn:E1; cbn [obind] in H; [|discriminate].
  destruct (dt_add _ _) as [we|] eqn:E2; cbn [obind] in H; [|discriminate].
  apply dt_sub_exact in E1. apply dt_add_exact in E2. inversion H. do 3 eexists. split; [reflexivity|].
  destruct E1 as [E1 E1']. subst ws we. nlia.
Qed.

Lemma has_adv_app a b : has_adv (a ++ b) = has_adv a || has_adv b.
Proof. unfold has_adv. apply existsb_app. Qed.
Lemma has_adv_air l : has_adv (map LLProofsC28Air.air_item l) = false.
Proof. induction l; [reflexivity|exact IHl]. Qed.
Lemma has_adv_cbs l : has_adv (map ICb l) = false.
Proof. induction l; [reflexivity|exact IHl]. Qed.
Lemma fd_has_adv c s : has_adv (snd (force_disconnect c s)) = true.
Proof.
  unfold force_disconnect, reset_encryption, reset_phy. destruct (c_enc c); destruct (c_phy c); destruct (st _); reflexivity.
Qed.

Lemma process27_txa c : forall fuel m cbs acc, m_txa (fst (fst (process27 fuel c m cbs acc))) = m_txa m.
Proof.
  induction fuel as [|fuel IH]; intros m cbs acc; cbn [process27]; [reflexivity|].
  destruct (m_rx m) as [|[llid body] rest]; [reflexivity|].
  destruct (llid =? 3).
  - destruct (negb (m_txa m)); [reflexivity|].
    destruct (spec_kind _ _ _ _ _); try reflexivity; try (rewrite IH; reflexivity).
    + rewrite IH. destruct (_ <=? _); reflexivity.
    + rewrite IH. destruct (_ || _ || _); destruct (_ && _); reflexivity.
    + rewrite IH. destruct (_ || _ || _); destruct (_ && _); reflexivity.
    + rewrite IH. destruct (_ || _ || _); destruct (_ && _); reflexivity.
    + destruct (c_cpr c); try (rewrite IH; reflexivity).
      destruct cbs as [|[[[a b] l] t] cbs']; [rewrite IH; reflexivity|]. destruct (_ && _ && _ && _ && _); rewrite IH; reflexivity.
  - destruct (llid =? 2); [|rewrite IH; reflexivity].
    destruct (l2cap_reply body); [rewrite IH; reflexivity|]. destruct (m_txa m) eqn:ET; [rewrite IH; cbn; exact ET|cbn; exact ET].
Qed.

Lemma own_pdu_txa m e m' : own_pdu m = Some (e, m') -> m_txa m' = m_txa m.
Proof.
  unfold own_pdu. destruct (m_cpr m) as [[[[a b] l] t]|]; [intros H; inversion H; reflexivity|].
  destruct (m_phy m) as [[t r]|]; [intros H; inversion H; destruct (m_timer m =? 0); reflexivity|].
  destruct (m_ver m); [intros H; inversion H; reflexivity|].
  destruct (m_acpr m); intros H; inversion H; reflexivity.
Qed.
Lemma with_t_txa m it : m_txa (with_t m it) = m_txa m.
Proof. unfold with_t. destruct (last_ce it) as [[a b]|]; reflexivity. Qed.

Lemma mstep27_txa c m o r m' : mstep27 c m o r = (Ok, m') ->
  m_txa m' = match o, r with TxAvail b, OItems _ => b | _, _ => m_txa m end.
Proof.
  unfold mstep27. destruct r as [it| | |]; try (intros H; inversion H; destruct o; reflexivity).
  destruct o; try (intros H; inversion H; reflexivity);
    try (destruct (negb (m_conn m)); [intros H; inversion H; reflexivity|];
         destruct (m_stop m); [intros H; inversion H; destruct (has_adv it); reflexivity|]);
    try (intros H; inversion H; reflexivity).
  - (* Adv *) destruct (existsb _ it); intros H; inversion H; [rewrite with_t_txa|]; reflexivity.
  - (* Ev *)
    destruct (judge_air c (m_exp m) (tx3 it) (m_ver_sent m)) as [[t|] vs]; [discriminate|].
    match goal with |- context [process27 ?f c ?M ?cb ?ac] => pose proof (process27_txa c f M cb ac) as PT; destruct (process27 f c M cb ac) as [[m2 due] res] end.
    cbn [fst] in PT. cbn [m_txa set_m_ver_sent set_m_exp set_m_rx] in PT.
    destruct res.
    + destruct (has_adv it).
      * destruct (_ && _); [intros H; inversion H; exact PT|]. destruct (has_closed it 34); [discriminate|intros H; inversion H; exact PT].
      * destruct (_ && _); [discriminate|].
        set (m3 := if m_timer m2 =? 0 then m2 else set_m_timer m2 (m_timer m2 - m_t m2)).
        assert (T3 : m_txa m3 = m_txa m2) by (subst m3; destruct (_ =? 0); reflexivity).
        destruct (m_txa m3) eqn:E3.
        -- destruct (own_pdu m3) as [[e m4]|] eqn:EO; intros H; inversion H; rewrite with_t_txa; cbn [m_txa set_m_exp];
             [rewrite (own_pdu_txa _ _ _ EO)|]; congruence.
        -- intros H; inversion H. rewrite with_t_txa. cbn [m_txa set_m_exp]. congruence.
    + intros H; inversion H. destruct (has_adv it); exact PT.
    + intros H; inversion H. exact PT.
  - (* Timeout *) destruct (has_adv it).
    + destruct (_ && _); [discriminate|intros H; inversion H; reflexivity].
    + destruct (_ && _); [discriminate|intros H; inversion H; apply with_t_txa].
  - (* Cpu *) destruct it as [|[] [|? ?]]; try (intros H; inversion H; reflexivity); try (match goal with x : bool |- _ => destruct x end; intros H; inversion H; reflexivity).
  - (* Cpr *) destruct it as [|[] [|? ?]]; try (intros H; inversion H; reflexivity); try (match goal with x : bool |- _ => destruct x end; intros H; inversion H; reflexivity).
  - (* PhyReq *) destruct it as [|[] [|? ?]]; try (intros H; inversion H; reflexivity); try (match goal with x : bool |- _ => destruct x end; intros H; inversion H; reflexivity).
  - (* VerReq *) destruct it as [|[] [|? ?]]; try (intros H; inversion H; reflexivity); try (match goal with x : bool |- _ => destruct x end; intros H; inversion H; reflexivity).
Qed.

Lemma op_ok27_21 o : op_ok27 o = true -> LLProofsC21.op_ok o.
Proof.
  destruct o; try exact (fun _ => I). intros H. unfold LLProofsC21.op_ok, LLProofsC21.pdus_ok. cbn [op_ok27] in H.
  apply Forall_forall. rewrite forallb_forall in H.
  intros p Hp. specialize (H p Hp). unfold pdu_ok27 in H. apply andb_prop in H. destruct H as [H _].
  unfold bytes_ok. apply Forall_forall. rewrite forallb_forall in H. intros x Hx. specialize (H x Hx). lia.
Qed.

Lemma G_step c s m o s' r m' :
  G c s m -> op_ok27 o = true -> lstep c s o = (s', r) -> r <> OCrash -> mstep27 c m o r = (Ok, m') -> G c s' m'.
Proof.
  intros (G1 & G2 & m28 & G3 & G4) Ho Hs Hr Hm.
  destruct (LLProofsC28Air.step_air c s m28 o s' r G3 G4 Hs Hr) as (m28' & _ & R' & T').
  split; [|split].
  - rewrite (mstep27_txa c m o r m' Hm).
    assert (W : wfb_conn s) by (intros I; destruct (G4 I) as [W _]; exact W).
    pose proof (lstep_txa c s o W) as X. rewrite Hs in X. cbn [fst] in X. rewrite X.
    destruct o; try exact G1. cbn [lstep] in Hs. inversion Hs. reflexivity.
  - pose proof (LLProofsC21.lstep_inv c s o G2 (op_ok27_21 o Ho)) as X. rewrite Hs in X. exact X.
  - exists m28'. split; assumption.
Qed.

Lemma Loose_step c m o r : Loose m -> r <> OCrash ->
  (forall it, r = OItems it -> match o with Adv _ _ => existsb (fun i => match i with ICe _ _ _ _ => true | _ => false end) it = false | _ => True end) ->
  exists m', mstep27 c m o r = (Ok, m') /\ Loose m'.
Proof.
  intros L Hr Hadv. unfold mstep27. destruct r as [it| | |]; [|exists m; auto|exists m; auto|congruence].
  specialize (Hadv it eq_refl).
  destruct o; try (eexists; split; [reflexivity|exact L]);
    try (destruct L as [L|L]; [rewrite L; cbn [negb]; eexists; split; [reflexivity|left; exact L]
                              | destruct (negb (m_conn m)) eqn:EC; [eexists; split; [reflexivity|right; exact L]|];
                                rewrite L; eexists; split; [reflexivity|]; destruct (has_adv it); [left; reflexivity|right; exact L]]).
  rewrite Hadv. eexists; split; [reflexivity|exact L].
Qed.

(* ========================================================================================== a new connection *)
Definition isce (i : item) : bool := match i with ICe _ _ _ _ => true | _ => false end.

Lemma adv_tight c s m hdr0 body s' it :
  G c s m -> st s = Advertising -> do_adv_received c s hdr0 body = Some (s', it) ->
  (existsb isce it = false) \/ (existsb isce it = true /\ Tight c s' (with_t (new_connection27 c m) it)).
Proof.
  intros (G1 & G2 & m28 & G3 & G4) Hst H. unfold do_adv_received in H.
  destruct (valid_connect_request c hdr0 body); [|inversion H; left; reflexivity].
  destruct (ChanMapModel.reset_impl _ _ _) as [ch r]. destruct r as [[|]| | | |]; try discriminate; [|inversion H; left; reflexivity].
  destruct (parse_connect body) as [t ok]. destruct ok as [[|]|]; try discriminate; [|inversion H; left; reflexivity].
  match type of H with (do r11 <- setup_next_connection_event ?X; _) = _ => set (s10 := X) in *; destruct (setup_next_connection_event s10) as [[s11 it11]|] eqn:E end;
    cbn [obind] in H; [|discriminate].
  apply setup_next_frame in E. destruct E as [E11 (chn & ws & we & Eit)].
  set (s12 := upd_sc s11 (fun x => set_is_enc x false)) in *.
  destruct (push_event_form c s12 (EvRequested (details_of s12))) as [rr Er]. rewrite Er in H.
  cbn [flush_events] in H. inversion H as [[Hs' Hit]]. clear H.
  right. rewrite Eit. split; [reflexivity|].
  assert (NI : in_connection s = false) by (unfold in_connection; rewrite Hst; reflexivity).
  destruct G2 as (_ & D & _). specialize (D NI).
  destruct G3 as (_ & _ & _ & _ & SO & _). destruct (SO NI) as [(_ & EP & _) _].
  unfold Tight, PR, own_ok, with_t.
  assert (LC : last_ce (IAa (rd32 body 12) (rd24 body 16) :: [ICe chn ws we (interval (tm s10))] ++ map ICb rr) = Some (ws, we)).
  { apply (last_ce_pick [IAa (rd32 body 12) (rd24 body 16)] chn ws we (interval (tm s10)) (map ICb rr)).
    clear. induction rr; [reflexivity|assumption]. }
  cbn [ring set_ring] in *. rewrite LC.
  subst s12 s11 s10. unfold txa in *. unfold WFb, rx_ok, unaired.
  cbn -[N.div]. rewrite D, EP, G1.
  repeat split; try reflexivity; try discriminate; try constructor; auto; try (intros F; discriminate F).
Qed.

(* ========================================================================================== a connection event *)
Lemma prologue_form c s : st s = Connecting \/ st s = Connected ->
  exists rr, end_event_prologue c s = set_ring (upd_tm (set_st (set_pending_event s false) Connected) (fun t => set_tw_size t 0)) rr
             /\ (st s = Connected -> rr = ring s).
Proof.
  intros [H|H]; unfold end_event_prologue; cbn [st set_pending_event]; rewrite H.
  - destruct (push_event_form c (set_pending_event s false) (EvEstablished (details_of (set_pending_event s false)))) as [rr ->].
    exists rr. split; [change (st (set_ring (set_pending_event s false) rr)) with (st s); rewrite H; reflexivity|congruence].
  - exists (ring s). split; [|reflexivity]. change (st (set_pending_event s false)) with (st s). rewrite H. cbn [lstate_eqb]. destruct s; reflexivity.
Qed.

Lemma in_conn_of s : st s = Connecting \/ st s = Connected -> in_connection s = true.
Proof. unfold in_connection. intros [-> | ->]; reflexivity. Qed.


(* ========================================================================================== a connection event (continued) *)
Definition cpr_req_pdu (p : procs) : list N :=
  [GenLL.LL_CONNECTION_PARAM_REQ; lo8 (prop_min p); hi8 (prop_min p); lo8 (prop_max p); hi8 (prop_max p);
   lo8 (prop_lat p); hi8 (prop_lat p); lo8 (prop_to p); hi8 (prop_to p); 0; 0; 0] ++ repeat 255 12.

Lemma tpcp_form c s : cfg_ok27 c = true -> phy_pending (pr s) = false -> ver_pending (pr s) = false ->
  transmit_pending_control_pdus c s =
    if cpr_pending (pr s) && txa s
    then commit_ctrl (upd_pr (set_proc_timeout s GenLL.default_procedure_timeout_us) (fun q => set_cpr_running (set_cpr_pending q false) true))
                     (cpr_req_pdu (pr s))
    else s.
Proof.
  intros Hc Hp Hv. unfold transmit_pending_control_pdus, tx_buffer_available, txa. rewrite Hp, Hv.
  assert (A : match c_cpr c with CprAsync => ap_pending (ac s) | _ => false end = false)
    by (unfold cfg_ok27 in Hc; destruct (c_cpr c); [reflexivity|reflexivity|discriminate]).
  rewrite A. destruct (cpr_pending (pr s)); cbn [negb andb]; [|reflexivity].
  destruct (tx_avail (bf s)); reflexivity.
Qed.

Lemma own_pdu_form m : m_phy m = None -> m_ver m = false -> m_acpr m = None ->
  own_pdu m = match m_cpr m with
              | Some (a, b, l, t) =>
                  Some (EExact ([15; a mod 256; (a / 256) mod 256; b mod 256; (b / 256) mod 256; l mod 256; (l / 256) mod 256;
                                 t mod 256; (t / 256) mod 256; 0; 0; 0] ++ repeat 255 12), arm (set_m_cpr m None) 15)
              | None => None
              end.
Proof. intros H1 H2 H3. unfold own_pdu. rewrite H1, H2, H3. destruct (m_cpr m) as [[[[a b] l] t]|]; reflexivity. Qed.

Lemma lo8_mod x : (x mod 65536) mod 256 = lo8 x. Proof. unfold lo8. nlia. Qed.
Lemma hi8_mod x : ((x mod 65536) / 256) mod 256 = hi8 x. Proof. unfold hi8. nlia. Qed.



Ltac psimp :=
  cbn [st adv_ch chan sca tm cs proc_timeout def_instant deferred term_sent used_features pending_event disc_reason pr bf sc ac ring
       set_st set_adv_ch set_chan set_sca set_tm set_cs set_proc_timeout set_def_instant set_deferred set_term_sent set_used_features
       set_pending_event set_disc_reason set_pr set_bf set_sc set_ac set_ring upd_tm upd_cs upd_pr upd_bf upd_sc upd_ac
       tw_off tw_size interval latency timeout_value conn_timeout ch_idx evc tsle last_lat
       prop_min prop_max prop_lat prop_to cpr_pending cpr_running cpr_sig phy_pending phy_tx phy_rx ver_pending ver_received
       set_cpr_pending set_cpr_running set_cpr_sig set_ver_pending set_ver_received
       rxq txq fl stopped tx_avail set_rxq set_txq has_key enc_prog is_enc key_known
       m_conn m_stop m_txa m_rx m_exp m_ver_rcv m_ver_sent m_used m_cpr m_phy m_ver m_acpr m_timer m_owner m_t
       set_m_conn set_m_stop set_m_txa set_m_rx set_m_exp set_m_ver_rcv set_m_ver_sent set_m_used set_m_cpr set_m_phy set_m_ver
       set_m_acpr set_m_timer set_m_owner set_m_t arm lstate_eqb negb].

Lemma fd_st27 c s : st (fst (force_disconnect c s)) = Advertising.
Proof.
  unfold force_disconnect. destruct (reset_encryption c s) as [s1 i1]. destruct (st s1); reflexivity.
Qed.

Lemma ev_go c (Hc : cfg_ok27 c = true) s3 m2 e due it1 s9 it9 :
  PR c s3 m2 -> own_ok s3 m2 -> st s3 = Connected -> tw_size (tm s3) = 0 -> disc_reason s3 = 8 -> enc_prog (sc s3) = false ->
  m_conn m2 = true -> m_stop m2 = false ->
  Matches c due (ctrl (unaired s3)) ->
  (m_ver_sent m2 = true -> nver due = 0%nat) -> (nver due <= 1)%nat -> (ver_received (pr s3) = false -> nver due = 0%nat) ->
  (proc_timeout s3 <> 0 -> m_t m2 = tsle (cs s3)) ->
  has_adv it1 = false ->
  end_event_continue c s3 e = Some (s9, it9) ->
  exists m',
    (let due22 := negb (m_timer m2 =? 0) && (m_timer m2 <=? m_t m2) in
     if has_adv (it1 ++ snd (end_event_epilogue c s9 it9))
     then if due22 then (Ok, ended c m2)
          else if has_closed (it1 ++ snd (end_event_epilogue c s9 it9)) 34 then (Bad 6, m2) else (Ok, ended c m2)
     else if due22 then (Bad 5, m2)
     else let m3 := if m_timer m2 =? 0 then m2 else set_m_timer m2 (m_timer m2 - m_t m2) in
          let '(due', m4) := if m_txa m3 then match own_pdu m3 with Some (e0, m') => (due ++ [e0], m') | None => (due, m3) end else (due, m3) in
          (Ok, with_t (set_m_exp m4 due') (it1 ++ snd (end_event_epilogue c s9 it9)))) = (Ok, m')
    /\ (Loose m' \/ Tight c (fst (end_event_epilogue c s9 it9)) m').
Proof.
  intros HPR HO Hst Htw Hdr Hep Hcn Hsp HM V1 V2 V3 Ht Ha E.
  pose proof HPR as (P1 & P2 & P3 & P4 & P5 & P6 & P7 & P8 & P9 & P10 & P11 & P12).
  destruct HO as (O1 & O2 & O3 & O4 & O5 & O6).
  unfold end_event_continue in E.
  assert (ED : negb (m_timer m2 =? 0) && (m_timer m2 <=? m_t m2) = procedure_timed_out s3).
  { unfold procedure_timed_out. rewrite P6. destruct (proc_timeout s3 =? 0) eqn:E0; [reflexivity|]. apply N.eqb_neq in E0. rewrite (Ht E0). reflexivity. }
  cbv zeta. rewrite ED. destruct (procedure_timed_out s3) eqn:D.
  - (* the procedure response timeout *)
    inversion E as [E']. unfold force_disconnect_reason in E'.
    pose proof (fd_st27 c (set_disc_reason s3 GenLL.connection_ll_response_timeout)) as F1.
    pose proof (fd_has_adv c (set_disc_reason s3 GenLL.connection_ll_response_timeout)) as F2.
    rewrite E' in F1, F2. cbn [fst snd] in F1, F2.
    unfold end_event_epilogue. rewrite F1. cbn [flush_events snd fst].
    rewrite !has_adv_app, F2, orb_true_r. exists (ended c m2). split; [reflexivity|left; left; reflexivity].
  - (* the event goes on *)
    set (s5 := if negb (proc_timeout s3 =? 0) then set_proc_timeout s3 (proc_timeout s3 - tsle (cs s3)) else s3) in *.
    assert (Etp : transmit_pending_security_pdus c s5 = (s5, [])).
    { unfold transmit_pending_security_pdus. replace (enc_prog (sc s5)) with false by (subst s5; destruct (proc_timeout s3 =? 0); cbn [negb]; symmetry; exact Hep).
      rewrite andb_false_r. reflexivity. }
    rewrite Etp in E.
    destruct (plan_next_connection_event c s5 _) as [s7|] eqn:E7; cbn [obind] in E; [|discriminate].
    apply plan_next_frame in E7. destruct E7 as [k E7].
    unfold pending_then_setup, handle_pending_ll_control in E.
    assert (D7 : deferred s7 = None) by (subst s7 s5; destruct (proc_timeout s3 =? 0); cbn [negb]; exact P8).
    rewrite D7 in E. cbn [obind] in E.
    destruct (setup_next_connection_event s7) as [[s8 it8]|] eqn:E8; cbn [obind] in E; [|discriminate].
    pose proof (setup_next_mid s7 s8 it8 E8) as MID. apply setup_next_frame in E8. destruct E8 as [E8 _].
    destruct MID as (ch & ws & we & Eit & Emid); [subst s7 s5; destruct (proc_timeout s3 =? 0); cbn [negb]; exact Htw|].
    cbn [app] in E. inversion E; subst s9 it9; clear E.
    unfold end_event_epilogue.
    assert (S8 : st s8 = Connected) by (subst s8 s7 s5; destruct (proc_timeout s3 =? 0); cbn [negb]; exact Hst). rewrite S8.
    assert (Pp : phy_pending (pr s8) = false) by (subst s8 s7 s5; destruct (proc_timeout s3 =? 0); cbn [negb]; exact O2).
    assert (Pv : ver_pending (pr s8) = false) by (subst s8 s7 s5; destruct (proc_timeout s3 =? 0); cbn [negb]; exact O4).
    rewrite (tpcp_form c s8 Hc Pp Pv).
    assert (Pc : cpr_pending (pr s8) = cpr_pending (pr s3)) by (subst s8 s7 s5; destruct (proc_timeout s3 =? 0); cbn [negb]; reflexivity).
    assert (Px : txa s8 = txa s3) by (subst s8 s7 s5; destruct (proc_timeout s3 =? 0); cbn [negb]; reflexivity).
    rewrite Pc, Px.
    set (m3 := if m_timer m2 =? 0 then m2 else set_m_timer m2 (m_timer m2 - m_t m2)).
    assert (M3 : m_txa m3 = txa s3 /\ m_phy m3 = None /\ m_ver m3 = false /\ m_acpr m3 = None /\ m_cpr m3 = m_cpr m2)
      by (subst m3; destruct (m_timer m2 =? 0); cbn; auto).
    destruct M3 as (M3a & M3b & M3c & M3d & M3e).
    rewrite M3a, (own_pdu_form m3 M3b M3c M3d), M3e, O1.
    destruct (cpr_pending (pr s3) && txa s3) eqn:OWN.
    + (* the own connection parameter request goes out and arms the timer *)
      apply andb_prop in OWN. destruct OWN as [CP TX]. rewrite CP, TX. cbn beta iota.
      set (e0 := EExact ([15; (prop_min (pr s3) mod 65536) mod 256; (prop_min (pr s3) mod 65536 / 256) mod 256;
                          (prop_max (pr s3) mod 65536) mod 256; (prop_max (pr s3) mod 65536 / 256) mod 256;
                          (prop_lat (pr s3) mod 65536) mod 256; (prop_lat (pr s3) mod 65536 / 256) mod 256;
                          (prop_to (pr s3) mod 65536) mod 256; (prop_to (pr s3) mod 65536 / 256) mod 256; 0; 0; 0] ++ repeat 255 12)).
      set (sX := upd_pr (set_proc_timeout s8 GenLL.default_procedure_timeout_us) (fun q => set_cpr_running (set_cpr_pending q false) true)).
      assert (StX : stopped (bf sX) = false) by (subst sX s8 s7 s5; destruct (proc_timeout s3 =? 0); exact P10).
      assert (WX : WFb sX) by (subst sX s8 s7 s5; destruct (proc_timeout s3 =? 0); exact P11).
      destruct (LLProofsC28Air.unaired_commit sX (3, cpr_req_pdu (pr s8)) WX StX) as (U & W2 & S2 & T2).
      unfold commit_ctrl. change GenLL.ll_control_pdu_code with 3.
      set (s10 := commit sX (3, cpr_req_pdu (pr s8))) in *.
      assert (E10 : s10 = set_bf sX (bf s10)) by (subst s10; rewrite (commit_eq sX _ StX); reflexivity).
      assert (R10 : rxq (bf s10) = rxq (bf s3)) by (subst s10; rewrite (commit_eq sX _ StX); subst sX s8 s7 s5; destruct (proc_timeout s3 =? 0); reflexivity).
      assert (LC : last_ce (it1 ++ it8 ++ map ICb (ring s10)) = Some (ws, we)).
      { rewrite Eit. apply (last_ce_pick it1 ch ws we (interval (tm s7)) (map ICb (ring s10))). clear. induction (ring s10); [reflexivity|assumption]. }
      assert (HA : has_adv (it1 ++ it8 ++ map ICb (ring s10)) = false)
        by (rewrite !has_adv_app, Ha, Eit, has_adv_cbs; reflexivity).
      cbn [flush_events fst snd]. rewrite HA. unfold with_t. rewrite LC.
      eexists. split; [reflexivity|]. right.
      assert (Emid' : (ws + we) / 2 = tsle k) by (rewrite Emid; subst s7; reflexivity).
      assert (UX : unaired sX = unaired s3) by (subst sX s8 s7 s5; destruct (proc_timeout s3 =? 0); reflexivity).
      assert (Me0 : matches c e0 (cpr_req_pdu (pr s8)) = true).
      { subst e0. cbn [matches]. rewrite !lo8_mod, !hi8_mod. subst s8 s7 s5. destruct (proc_timeout s3 =? 0); apply bytes_eqb_refl. }
      clear Emid LC HA Eit S8 Pp Pv Pc Px M3a M3b M3c M3d M3e ED D.
      unfold Tight. rewrite E10. unfold PR, own_ok, txa, WFb in *. psimp.
      change (unaired (set_ring (set_bf sX (bf s10)) [])) with (unaired s10). rewrite U, UX, ctrl_app, nver_app.
      assert (T10 : tx_avail (bf s10) = tx_avail (bf s3)) by (rewrite T2; subst sX s8 s7 s5; destruct (proc_timeout s3 =? 0); reflexivity).
      clear T2. rewrite R10. rewrite E10 in W2. cbn [bf set_bf] in W2, S2.
      subst m3 sX s8 s7 s5. rewrite P6.
      destruct (proc_timeout s3 =? 0) eqn:EZ; psimp;
        (split; [exact Hcn|]); (split; [exact Hsp|]);
        (split; [repeat split; try assumption; try reflexivity; try (rewrite T10; exact P2)|]);
        (split; [repeat split; assumption|]);
        (split; [right; exact Hst|]);
        (split; [apply Forall2_app; [exact HM|constructor; [exact Me0|constructor]]|]);
        (split; [intros F; rewrite (V1 F); reflexivity|]);
        (split; [change (nver [e0]) with 0%nat; rewrite Nat.add_0_r; exact V2|]);
        (split; [intros F; rewrite (V3 F); reflexivity|]);
        (split; [intros _; split; [exact Htw|exact Emid']|]);
        (split; [intros F; rewrite Hst in F; discriminate F|]);
        (split; [exact Hdr|]); (split; [reflexivity|exact Hep]).
    + (* no own request goes out *)
      assert (LC : last_ce (it1 ++ it8 ++ map ICb (ring s8)) = Some (ws, we)).
      { rewrite Eit. apply (last_ce_pick it1 ch ws we (interval (tm s7)) (map ICb (ring s8))). clear. induction (ring s8); [reflexivity|assumption]. }
      assert (HA : has_adv (it1 ++ it8 ++ map ICb (ring s8)) = false)
        by (rewrite !has_adv_app, Ha, Eit, has_adv_cbs; reflexivity).
      assert (FIN : Tight c (set_ring s8 []) (set_m_t (set_m_exp m3 due) ((ws + we) / 2))).
      { assert (Emid' : (ws + we) / 2 = tsle k) by (rewrite Emid; subst s7; reflexivity).
        clear Emid LC HA Eit S8 Pp Pv Pc Px M3a M3b M3c M3d M3e OWN ED D.
        unfold Tight. subst m3 s8 s7 s5. rewrite P6.
        destruct (proc_timeout s3 =? 0) eqn:EZ; psimp;
          (split; [exact Hcn|]); (split; [exact Hsp|]);
          (split; [unfold PR, txa, WFb in *; psimp; repeat split; try assumption; try (rewrite (Ht (proj1 (N.eqb_neq _ _) EZ)); reflexivity)|]);
          (split; [unfold own_ok; psimp; repeat split; assumption|]);
          (split; [right; exact Hst|]);
          (split; [exact HM|]);
          (split; [exact V1|]); (split; [exact V2|]); (split; [exact V3|]);
          (split; [intros _; split; [exact Htw|exact Emid']|]);
          (split; [intros F; rewrite Hst in F; discriminate F|]);
          (split; [exact Hdr|]); (split; [reflexivity|exact Hep]). }
      cbn [flush_events fst snd]. rewrite HA. unfold with_t. rewrite LC.
      destruct (cpr_pending (pr s3)) eqn:CP; destruct (txa s3) eqn:TX; try discriminate OWN; cbn beta iota;
        (eexists; split; [reflexivity|right; exact FIN]).
Qed.

Section Ev.
Variable c : cfg.
Hypothesis Hc : cfg_ok27 c = true.

Lemma ev_tight s m e pdus s' it :
  G c s m -> Tight c s m -> forallb pdu_ok27 pdus = true ->
  lstep c s (Ev e pdus) = (s', OItems it) ->
  exists m', mstep27 c m (Ev e pdus) (OItems it) = (Ok, m') /\ (Loose m' \/ Tight c s' m').
Proof.
  intros HG (T1 & T2 & HPR & HO & Tst & TM & TV1 & TV2 & TV3 & TT & TC & TD & TR & TE) Hpd H.
  pose proof HPR as (P1 & P2 & P3 & P4 & P5 & P6 & P7 & P8 & P9 & P10 & P11 & P12).
  cbn [lstep] in H. rewrite (in_conn_of s Tst) in H.
  destruct (existsb (fun p : N * list N => 27 <? N.of_nat (length (snd p))) pdus); [discriminate|].
  destruct (radio_event _ s pdus) as [s1 it1] eqn:E1.
  destruct (do_end_event c s1 e) as [[s2 it2]|] eqn:E2; [|discriminate]. inversion H; subst s2 it; clear H.
  assert (Hf : (length pdus + length (unaired s) < S (length pdus + length (txq (bf s))))%nat)
    by (clear; pose proof (LLProofsC28Air.unaired_le_txq s); lia).
  destruct (LLProofsC28Air.radio_event_air _ s pdus s1 it1 Hf P11 E1) as (A1 & A2 & A3 & A4 & A5 & A6 & A7).
  destruct (radio_event_rx _ s pdus s1 it1 Hf P11 E1) as (b1 & Eb1 & Rb1).
  pose proof (end_event_notx c s1 e s' it2 E2) as NX.
  unfold mstep27. rewrite T1, T2. cbn [negb].
  rewrite tx3_app, (tx3_notx it2 NX), app_nil_r.
  replace (tx3 it1) with (ctrl (unaired s)) by (rewrite A1; symmetry; apply tx3_air).
  rewrite (judge_air_ok c (m_exp m) (ctrl (unaired s)) (m_ver_sent m) TM TV1 TV2).
  set (vs := m_ver_sent m || negb (Nat.eqb (nver (m_exp m)) 0)).
  fold (deliver pdus).
  set (m1 := set_m_ver_sent (set_m_exp (set_m_rx m (m_rx m ++ deliver pdus)) []) vs).
  (* the model's end_event *)
  assert (Tst1 : st s1 = Connecting \/ st s1 = Connected) by (rewrite A5; exact Tst).
  destruct (prologue_form c s1 Tst1) as (rr & Esp & Err).
  unfold do_end_event in E2. rewrite Esp in E2.
  set (sp := set_ring (upd_tm (set_st (set_pending_event s1 false) Connected) (fun t => set_tw_size t 0)) rr) in *.
  destruct (end_event_body c sp e) as [[s9 it9]|] eqn:EB; cbn [obind] in E2; [|discriminate].
  unfold end_event_body in EB. change (st sp) with Connected in EB. cbn [lstate_eqb andb] in EB.
  assert (HPR1 : PR c sp m1).
  { unfold PR. subst sp m1. rewrite Eb1. unfold txa, WFb in *. rewrite Eb1 in A3, A7. 
    cbn [m_rx m_txa m_ver_rcv m_ver_sent m_used m_timer m_owner set_m_ver_sent set_m_exp set_m_rx
         bf set_bf set_ring upd_tm set_tm set_st set_pending_event pr used_features proc_timeout deferred st lstate_eqb rxq stopped tx_avail] in *.
    rewrite Rb1, P1. repeat split; try assumption; try reflexivity; try congruence.
    - intros F. subst vs. rewrite (P4 F), (TV3 F). reflexivity.
    - rewrite Eb1 in A6. cbn [bf set_bf] in A6. congruence.
    - apply Forall_app. split; [exact P12|apply deliver_ok; exact Hpd]. }
  destruct (handle_received_data (S (length (rxq (bf sp)))) c sp) as [[s3 it3] res] eqn:E3.
  assert (Elen : length (rxq (bf sp)) = length (m_rx m ++ deliver pdus)).
  { subst sp. rewrite Eb1. cbn [bf set_bf set_ring upd_tm set_tm set_st set_pending_event]. rewrite Rb1, P1. reflexivity. }
  rewrite <- Elen.
  destruct (process27 (S (length (rxq (bf sp)))) c m1 (cpr_callbacks (it1 ++ it2)) []) as [[m2 due] p] eqn:EP.
  pose proof (process_sim c Hc _ sp m1 _ [] s3 it3 res m2 due p HPR1 E3 EP) as HPost.
  destruct p.
  - (* PGo *)
    destruct HPost as (Hres & Hit3 & HPR3 & SF & MF & Hmono & Htm & new & accn & U3 & Hdue & HM3 & (VK1 & VK2) & VK3).
    subst res it3. cbn [app] in Hdue. subst due.
    destruct SF as (SF1 & SF2 & SF3 & SF4 & SF5 & SF6 & SF7 & SF8 & SF9 & SF10 & SF11 & SF12 & SF13 & SF14 & SF15).
    destruct MF as (MF1 & MF2 & MF3 & MF4 & MF5 & MF6 & MF7 & MF8 & MF9 & MF10).
    assert (St3 : st s3 = Connected) by (rewrite SF1; reflexivity).
    unfold send_control_pdus in EB. rewrite St3 in EB. cbn [lstate_eqb andb] in EB.
    destruct (end_event_continue c s3 e) as [[s8 it8]|] eqn:EC; cbn [obind] in EB; [|discriminate].
    cbn [app] in EB. inversion EB; subst s9 it9; clear EB.
    assert (E2' : end_event_epilogue c s8 it8 = (s', it2)) by (clear - E2; congruence). clear E2.
    destruct HO as (O1 & O2 & O3 & O4 & O5 & O6).
    assert (PRS : pr sp = pr s) by (subst sp; rewrite Eb1; reflexivity).
    assert (CSS : cs sp = cs s) by (subst sp; rewrite Eb1; reflexivity).
    assert (PTS : proc_timeout sp = proc_timeout s) by (subst sp; rewrite Eb1; reflexivity).
    assert (N01 : nver accn = 1%nat -> False \/ nver accn = 1%nat) by auto.
    assert (NV : forall (P : Prop), (nver accn = 1%nat -> P -> False) -> P -> nver accn = 0%nat).
    { intros P HP Pp. destruct (nver accn) as [|[|n]] eqn:EN; [reflexivity|exfalso; apply (HP eq_refl Pp)|clear - VK1; lia]. }
    pose proof (ev_go c Hc s3 m2 e accn it1 s8 it8 HPR3) as GO.
    rewrite E2' in GO. cbn [fst snd] in GO. apply GO; clear GO.
    + unfold own_ok. rewrite MF5, MF6, MF7, MF8, SF7, SF8, SF9, SF10, SF11, SF12, SF13, PRS. subst m1. cbn [m_cpr m_phy m_ver m_acpr set_m_ver_sent set_m_exp set_m_rx].
      repeat split; assumption.
    + exact St3.
    + rewrite SF3. reflexivity.
    + rewrite SF4. subst sp. rewrite Eb1. exact TD.
    + rewrite SF5. subst sp. rewrite Eb1. exact TE.
    + rewrite MF1. exact T1.
    + rewrite MF2. exact T2.
    + rewrite U3. change (unaired sp) with (unaired s1). rewrite A2. exact HM3.
    + intros F. apply (NV (m_ver_sent m2 = true)); [|exact F]. intros E1' _.
      destruct HPR1 as (_ & _ & _ & Q4 & _). specialize (Q4 (VK2 E1')). rewrite MF4 in F. congruence.
    + exact VK1.
    + intros F. apply (NV (ver_received (pr s3) = false)); [|exact F]. intros E1' _. specialize (VK3 E1'). congruence.
    + intros F. rewrite MF10. subst m1. cbn [m_t set_m_ver_sent set_m_exp set_m_rx]. rewrite SF2, CSS.
      assert (F' : proc_timeout s <> 0) by (destruct Htm as [Htm|Htm]; [rewrite Htm, PTS in F; exact F|congruence]).
      destruct Tst as [Tc|Tc]; [exfalso; apply F'; apply TC; exact Tc|]. destruct (TT Tc) as [_ TT2]. exact TT2.
    + rewrite A1. apply has_adv_air.
    + exact EC.
  - (* PStop *) eexists. split; [reflexivity|]. left. destruct (has_adv _); [left; reflexivity|right; reflexivity].
  - (* PClosed *) eexists. split; [reflexivity|]. left. left. reflexivity.
Qed.
End Ev.

(* ========================================================================================== a missed event *)
Lemma fd_closed_reason c s :
  ring s = [] -> disc_reason s <> 34 ->
  has_closed (snd (force_disconnect c s) ++ map ICb (ring (fst (force_disconnect c s)))) 34 = false.
Proof.
  intros Hr Hd. unfold force_disconnect, reset_encryption, reset_phy, push_event.
  destruct (c_enc c); destruct (c_phy c); destruct (st s) eqn:S; destruct (c_cb c);
    cbn [fst snd upd_sc set_sc st ring disc_reason start_advertising_impl handle_start_advertising set_deferred set_st set_adv_ch set_ring];
    rewrite ?S; cbn [fst snd ring set_ring set_deferred set_st set_adv_ch start_advertising_impl handle_start_advertising]; rewrite ?Hr;
    cbn [length N.of_nat]; try change (0 <? GenLL.max_events) with true; cbn [ring set_ring upd_sc set_sc app map has_closed existsb orb]; try reflexivity;
    try (replace (disc_reason s =? 34) with false by (symmetry; apply N.eqb_neq; exact Hd); reflexivity);
    rewrite ?Hr; reflexivity.
Qed.

Lemma timeout_tight c s m s' it :
  Tight c s m -> lstep c s Timeout = (s', OItems it) ->
  exists m', mstep27 c m Timeout (OItems it) = (Ok, m') /\ (Loose m' \/ Tight c s' m').
Proof.
  intros (T1 & T2 & HPR & HO & Tst & TM & TV1 & TV2 & TV3 & TT & TC & TD & TR & TE) H.
  pose proof HPR as (P1 & P2 & P3 & P4 & P5 & P6 & P7 & P8 & P9 & P10 & P11 & P12).
  cbn [lstep] in H. rewrite (in_conn_of s Tst) in H.
  destruct (do_timeout c s) as [[s2 it2]|] eqn:E; cbn [ok_items] in H; [|discriminate]. inversion H; subst s2 it2; clear H.
  unfold mstep27. rewrite T1, T2. cbn [negb].
  assert (ED : negb (m_timer m =? 0) && (m_timer m <=? m_t m) = negb (proc_timeout s =? 0) && (proc_timeout s <=? tsle (cs s))).
  { rewrite P6. destruct (proc_timeout s =? 0) eqn:E0; [reflexivity|]. apply N.eqb_neq in E0.
    destruct Tst as [Tc|Tc]; [exfalso; apply E0; apply TC; exact Tc|]. destruct (TT Tc) as [_ ->]. reflexivity. }
  cbv zeta. rewrite ED. clear ED.
  unfold do_timeout, force_disconnect_reason in E.
  change (st (set_pending_event s false)) with (st s) in E.
  assert (ND : lstate_eqb (st s) Disconnecting = false) by exact P9.
  rewrite ND in E. cbn [andb] in E.
  change (proc_timeout (set_pending_event s false)) with (proc_timeout s) in E.
  change (tsle (cs (set_pending_event s false))) with (tsle (cs s)) in E.
  destruct (negb (proc_timeout s =? 0) && (proc_timeout s <=? tsle (cs s))) eqn:D.
  - (* the procedure response timeout *)
    cbn [obind] in E.
    pose proof (fd_st27 c (set_disc_reason (set_pending_event s false) GenLL.connection_ll_response_timeout)) as F1.
    pose proof (fd_has_adv c (set_disc_reason (set_pending_event s false) GenLL.connection_ll_response_timeout)) as F2.
    destruct (force_disconnect c _) as [sa ia]. cbn [fst snd] in F1, F2. cbn [flush_events] in E. inversion E; subst s' it; clear E.
    rewrite has_adv_app, F2. cbn [orb negb]. rewrite andb_false_r. eexists. split; [reflexivity|left; left; reflexivity].
  - destruct (dt_mul _ _) as [five|]; cbn [obind] in E; [|discriminate].
    destruct ((tsle (cs s) <? conn_timeout (tm (set_pending_event s false))) && negb (lstate_eqb (st s) Connecting && (five <=? tsle (cs s)))).
    + (* the next event is scheduled *)
      destruct (plan_after_timeout _) as [s1|] eqn:E1; cbn [obind] in E; [|discriminate].
      unfold plan_after_timeout in E1. destruct (dt_add _ _) as [t|] eqn:Et; cbn [obind] in E1; [|discriminate]. inversion E1 as [E1']. clear E1.
      unfold pending_then_setup, handle_pending_ll_control in E.
      assert (D1 : deferred s1 = None) by (subst s1; exact P8). rewrite D1 in E. cbn [obind] in E.
      destruct (setup_next_connection_event s1) as [[s8 it8]|] eqn:E8; cbn [obind] in E; [|discriminate].
      pose proof (setup_next_mid s1 s8 it8 E8) as MID. apply setup_next_frame in E8. destruct E8 as [E8 (ch & ws & we & Eit)].
      cbn [app flush_events] in E. inversion E; subst s' it; clear E.
      assert (R8 : ring s8 = []) by (subst s8 s1; exact TR). rewrite R8, Eit. cbn [map app has_adv existsb orb].
      eexists. split; [reflexivity|]. right.
      unfold with_t. cbn [last_ce fold_left].
      unfold Tight, PR, own_ok, txa, WFb in *. subst s8 s1.
      change (unaired (set_ring (set_pending_event (upd_cs (set_pending_event s false) (fun c0 => mk_cstate ((ch_idx c0 + 1) mod 37) (u16 (evc c0 + 1)) t (last_lat c0))) true) []))
        with (unaired s).
      psimp.
      split; [exact T1|]. split; [exact T2|]. split; [repeat split; assumption|]. split; [exact HO|]. split; [exact Tst|].
      split; [exact TM|]. split; [exact TV1|]. split; [exact TV2|]. split; [exact TV3|].
      split; [intros Tc; destruct (TT Tc) as [TT1 _]; split; [exact TT1|]; destruct (MID TT1) as (ch' & ws' & we' & Eq & Em); rewrite Eit in Eq; inversion Eq; subst; cbn [tsle cs upd_cs set_cs set_pending_event] in Em; exact Em|].
      split; [exact TC|]. split; [exact TD|]. split; [reflexivity|exact TE].
    + (* supervision timeout *)
      pose proof (fd_st27 c (set_pending_event s false)) as F1.
      pose proof (fd_has_adv c (set_pending_event s false)) as F2.
      pose proof (fd_closed_reason c (set_pending_event s false) TR) as F3.
      destruct (force_disconnect c _) as [sa ia]. cbn [fst snd] in F1, F2, F3. cbn [flush_events] in E. inversion E; subst s' it; clear E.
      rewrite has_adv_app, F2. cbn [orb]. rewrite F3; [|change (disc_reason (set_pending_event s false)) with (disc_reason s); rewrite TD; discriminate].
      cbn [andb]. eexists. split; [reflexivity|left; left; reflexivity].
Qed.

(* ========================================================================================== the other operations *)
Lemma other_tight c s m o s' r :
  cfg_ok27 c = true -> Tight c s m -> lstep c s o = (s', r) -> r <> OCrash ->
  match o with Ev _ _ | Timeout | PhyReq _ _ | VerReq => False | _ => True end ->
  exists m', mstep27 c m o r = (Ok, m') /\ (Loose m' \/ Tight c s' m').
Proof.
  intros Hc HT H Hr Ho.
  pose proof HT as (T1 & T2 & HPR & HO & Tst & TM & TV1 & TV2 & TV3 & TT & TC & TD & TR & TE).
  pose proof HPR as (P1 & P2 & P3 & P4 & P5 & P6 & P7 & P8 & P9 & P10 & P11 & P12).
  pose proof HO as (O1 & O2 & O3 & O4 & O5 & O6).
  pose proof (in_conn_of s Tst) as IC.
  assert (NI : st s <> Initial /\ st s <> Advertising) by (destruct Tst as [-> | ->]; split; discriminate).
  destruct o; try contradiction; cbn [lstep] in H.
  - (* Run *) destruct (st s) eqn:S; try (exfalso; apply (proj1 NI); reflexivity); inversion H; subst; exists m; (split; [reflexivity|right; exact HT]).
  - (* AdvTimeout *) destruct (st s) eqn:S; try (exfalso; apply (proj2 NI); reflexivity); inversion H; subst; exists m; (split; [reflexivity|right; exact HT]).
  - (* Adv *) destruct (st s) eqn:S; try (exfalso; apply (proj2 NI); reflexivity); inversion H; subst; exists m; (split; [reflexivity|right; exact HT]).
  - (* Disconnect *) rewrite IC in H. destruct (reset_encryption c _) as [s2 it2]. inversion H; subst.
    unfold mstep27. rewrite T1, T2. cbn [negb]. eexists. split; [reflexivity|left; right; reflexivity].
  - (* Cpu *) rewrite IC in H. unfold mstep27. rewrite T1, T2. cbn [negb].
    destruct (bit (used_features s) _).
    + destruct (cpr_pending (pr s)) eqn:CP.
      * inversion H; subst. eexists. split; [reflexivity|right; exact HT].
      * inversion H; subst. eexists. split; [reflexivity|right].
        unfold Tight, PR, own_ok, txa, WFb in *. change (unaired (upd_pr s (fun p => mk_procs a b c0 d true (cpr_running p) true (phy_pending p) (phy_tx p) (phy_rx p) (ver_pending p) (ver_received p)))) with (unaired s).
        psimp. repeat split; try assumption; try reflexivity; try (eapply proj1; apply TT; assumption); try (eapply proj2; apply TT; assumption).
    + inversion H; subst. eexists. split; [reflexivity|right; exact HT].
  - (* Cpr *) rewrite IC in H. unfold mstep27. rewrite T1, T2. cbn [negb].
    destruct (cpr_pending (pr s) || negb (proc_timeout s =? 0)) eqn:CP.
    + inversion H; subst. eexists. split; [reflexivity|right; exact HT].
    + inversion H; subst. eexists. split; [reflexivity|right].
      unfold Tight, PR, own_ok, txa, WFb in *. change (unaired (upd_pr s (fun p => mk_procs a b c0 d true (cpr_running p) (cpr_sig p) (phy_pending p) (phy_tx p) (phy_rx p) (ver_pending p) (ver_received p)))) with (unaired s).
      psimp. repeat split; try assumption; try reflexivity; try (eapply proj1; apply TT; assumption); try (eapply proj2; apply TT; assumption).
  - (* TxAvail *) inversion H; subst. unfold mstep27. eexists. split; [reflexivity|right].
    unfold Tight, PR, own_ok, txa, WFb in *.
    change (unaired (upd_bf s (fun x => set_tx_avail x b))) with (unaired s).
    psimp. cbn [set_tx_avail tx_avail rxq txq fl stopped]. repeat split; try assumption; try reflexivity; try (eapply proj1; apply TT; assumption); try (eapply proj2; apply TT; assumption).
  - (* Cancel *) destruct (do_cancel c s b us) as [[s2 it2]|]; cbn [ok_items] in H; inversion H; subst; [|congruence].
    unfold mstep27. rewrite T1, T2. cbn [negb]. eexists. split; [reflexivity|left; right; reflexivity].
  - (* CprReply *) unfold cfg_ok27 in Hc. destruct (c_cpr c); try discriminate; inversion H; subst; exists m; (split; [reflexivity|right; exact HT]).
  - (* CprNeg *) unfold cfg_ok27 in Hc. destruct (c_cpr c); try discriminate; inversion H; subst; exists m; (split; [reflexivity|right; exact HT]).
  - (* Key *) inversion H; subst. exists m. split; [reflexivity|right]. exact HT.
  - (* St *) inversion H; subst. exists m. split; [reflexivity|right; exact HT].
Qed.

(* ========================================================================================== one operation, any number of operations *)
Lemma ev_nochange c s e p s' r : lstep c s (Ev e p) = (s', r) -> r = OPre \/ r = OBadOp -> s' = s.
Proof.
  cbn [lstep]. destruct (in_connection s); [|intros H; inversion H; reflexivity].
  destruct (existsb (fun q : N * list N => 27 <? N.of_nat (length (snd q))) p); [intros H; inversion H; reflexivity|].
  destruct (radio_event _ s p) as [s1 it1]. destruct (do_end_event c s1 e) as [[s2 it2]|]; intros H [R|R]; inversion H; subst; discriminate.
Qed.
Lemma timeout_nochange c s s' r : lstep c s Timeout = (s', r) -> r = OPre \/ r = OBadOp -> s' = s.
Proof.
  cbn [lstep]. destruct (in_connection s); [|intros H; inversion H; reflexivity].
  destruct (do_timeout c s) as [[s2 it2]|]; cbn [ok_items]; intros H [R|R]; inversion H; subst; discriminate.
Qed.

Lemma Loose_step' c s' m o r : Loose m -> r <> OCrash ->
  (forall it, r = OItems it -> match o with Adv _ _ => existsb (fun i => match i with ICe _ _ _ _ => true | _ => false end) it = false | _ => True end) ->
  exists m', mstep27 c m o r = (Ok, m') /\ (Loose m' \/ Tight c s' m').
Proof. intros L Hr Ha. destruct (Loose_step c m o r L Hr Ha) as (m' & M & L'). exists m'. split; [exact M|left; exact L']. Qed.

Theorem sim_step c s m o s' r :
  cfg_ok27 c = true -> Sim c s m -> op_ok27 o = true -> lstep c s o = (s', r) -> r <> OCrash ->
  exists m', mstep27 c m o r = (Ok, m') /\ Sim c s' m'.
Proof.
  intros Hc [HG HM] Ho H Hr.
  assert (Key : exists m', mstep27 c m o r = (Ok, m') /\ (Loose m' \/ Tight c s' m')).
  { destruct HM as [L|T].
    - (* not judging *)
      destruct o; try (apply Loose_step'; [exact L|exact Hr|intros it _; exact I]).
      (* Adv *)
      cbn [lstep] in H. destruct (st s) eqn:S; try (inversion H; subst; apply Loose_step'; [exact L|discriminate|intros it F; discriminate F]).
      destruct (255 <? _); [inversion H; subst; apply Loose_step'; [exact L|discriminate|intros it F; discriminate F]|].
      destruct (do_adv_received c s hdr0 body) as [[s2 it2]|] eqn:E; cbn [ok_items] in H; inversion H; subst; [|congruence].
      destruct (adv_tight c s m hdr0 body s' it2 HG S E) as [N|[Y T]].
      + apply Loose_step'; [exact L|discriminate|]. intros it F. inversion F; subst. exact N.
      + unfold mstep27. fold isce. rewrite Y. eexists. split; [reflexivity|right; exact T].
    - (* judging *)
      destruct o; try (apply (other_tight c s m _ s' r Hc T H Hr); exact I); try discriminate Ho.
      + (* Ev *) destruct r as [it| | |]; [|exists m; split; [reflexivity|right; rewrite (ev_nochange c s evts pdus s' _ H); [exact T|auto]] ..|congruence].
        apply (ev_tight c Hc s m evts pdus s' it HG T Ho H).
      + (* Timeout *) destruct r as [it| | |]; [|exists m; split; [reflexivity|right; rewrite (timeout_nochange c s s' _ H); [exact T|auto]] ..|congruence].
        apply (timeout_tight c s m s' it T H). }
  destruct Key as (m' & M & K). exists m'. split; [exact M|]. split; [|exact K].
  apply (G_step c s m o s' r m' HG Ho H Hr M).
Qed.

Lemma Sim_init c : Sim c (linit c) (minit27 c).
Proof.
  split; [|left; left; reflexivity].
  split; [reflexivity|]. split; [apply LLProofsC21.Inv_init|].
  exists (LLSpecC28.minit28 c). split; [apply LLProofsC28.R_init|apply LLProofsC28Air.TB_init].
Qed.

Theorem monitor27_accepts_env c : cfg_ok27 c = true ->
  forall ops s m, Sim c s m -> env27 c s ops = true -> mrun27 c m (lrun c s ops) = Ok.
Proof.
  intros Hc. induction ops as [|o t IH]; intros s m HS He; [reflexivity|].
  cbn [env27] in He. cbn [lrun]. destruct (lstep c s o) as [s1 r] eqn:E. cbn [fst snd] in He.
  apply andb_prop in He. destruct He as [He Ht]. apply andb_prop in He. destruct He as [Ho Hn].
  assert (Hr : r <> OCrash) by (intros ->; discriminate Hn).
  destruct (sim_step c s m o s1 r Hc HS Ho E Hr) as (m1 & M1 & HS1).
  cbn [mrun27]. rewrite M1. apply IH; assumption.
Qed.

Theorem monitor27_accepts_partial c ops :
  cfg_ok27 c = true -> env27 c (linit c) ops = true -> accepts27 c (trace_of c ops).
Proof. intros Hc He. unfold accepts27, trace_of. apply (monitor27_accepts_env c Hc ops _ _ (Sim_init c) He). Qed.
