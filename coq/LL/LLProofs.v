(* Lemmas and main theorems over the LL model (C27, C22). *)
From Coq Require Import Lia ZifyBool.
From BT Require Import Base.ListX Base.Bits2 LL.LLModel LL.LLSpec LL.LLSpecC27 LL.LLSpecC22.
From BT Require gen.GenLL.
Import ListNotations.
Local Open Scope N_scope.

(* ========================================================================================== C27: the table *)
Definition kind_eqb (a b : kind) : bool :=
  match a, b with
  | KUpdate, KUpdate | KTerminate, KTerminate | KVersion, KVersion | KChannelMap, KChannelMap | KPing, KPing
  | KFeature, KFeature | KUnknownRsp, KUnknownRsp | KRejectInd, KRejectInd | KRejectExt, KRejectExt | KCpr, KCpr
  | KEncReq, KEncReq | KStartEncRsp, KStartEncRsp | KPauseEncReq, KPauseEncReq | KPauseEncRsp, KPauseEncRsp
  | KPhyReq, KPhyReq | KPhyUpdate, KPhyUpdate | KUnknown, KUnknown | KIgnore, KIgnore => true
  | _, _ => false
  end.
Lemma kind_eqb_eq a b : kind_eqb a b = true -> a = b.
Proof. destruct a, b; simpl; congruence. Qed.

(* opcode 0..255 x size 0..27 x version_indication_received_ x 2M PHY support x encryption support *)
Definition table_sweep : bool :=
  forallb (fun phy => forallb (fun enc => forallb (fun ver =>
    forallb (fun o => forallb (fun z =>
      kind_eqb (ctrl_kind_b phy enc ver o z) (spec_kind phy enc ver o z)) (Nrange 28)) (Nrange 256))
    [false; true]) [false; true]) [false; true].
Lemma table_sweep_true : table_sweep = true.
Proof. vm_compute. reflexivity. Qed.

Lemma In_bools (b : bool) : In b [false; true].
Proof. destruct b; simpl; auto. Qed.

Lemma ctrl_kind_table_small phy enc ver o z :
  o < 256 -> z < 28 -> ctrl_kind_b phy enc ver o z = spec_kind phy enc ver o z.
Proof.
  intros Ho Hz. apply kind_eqb_eq.
  pose proof table_sweep_true as H. unfold table_sweep in H.
  rewrite forallb_forall in H. specialize (H phy (In_bools phy)).
  rewrite forallb_forall in H. specialize (H enc (In_bools enc)).
  rewrite forallb_forall in H. specialize (H ver (In_bools ver)).
  rewrite forallb_forall in H. specialize (H o (In_Nrange 256 o Ho)).
  rewrite forallb_forall in H. exact (H z (In_Nrange 28 z Hz)).
Qed.

(* sizes that no data channel PDU of this configuration can have (> 27) are all "unknown" on both sides *)
Lemma eqb_false_lt a b : a < b -> (b =? a) = false.
Proof. intros; apply N.eqb_neq; lia. Qed.

Lemma ctrl_kind_big phy enc ver o z :
  28 <= z -> ctrl_kind_b phy enc ver o z = if o =? 7 then KIgnore else KUnknown.
Proof.
  intros Hz. unfold ctrl_kind_b.
  repeat match goal with |- context [z =? ?k] => rewrite (eqb_false_lt k z) by lia end.
  rewrite !andb_false_r. simpl.
  change GenLL.LL_UNKNOWN_RSP with 7. destruct (o =? 7); reflexivity.
Qed.

Lemma spec_kind_big phy enc ver o z :
  28 <= z -> spec_kind phy enc ver o z = if o =? 7 then KIgnore else KUnknown.
Proof.
  intros Hz. unfold spec_kind, spec_table.
  destruct phy, enc, ver; cbn [app lookup];
    repeat match goal with |- context [?k =? z] => rewrite (proj2 (N.eqb_neq k z)) by lia end;
    rewrite ?andb_false_r; reflexivity.
Qed.

Theorem ctrl_kind_is_spec c ver o z :
  o < 256 -> ctrl_kind c ver o z = spec_kind (c_phy c) (c_enc c) ver o z.
Proof.
  intros Ho. unfold ctrl_kind. destruct (N.lt_ge_cases z 28) as [Hz|Hz].
  - apply ctrl_kind_table_small; assumption.
  - rewrite ctrl_kind_big, spec_kind_big by assumption. reflexivity.
Qed.

(* ========================================================================================== C27: the responses *)
Definition opc (body : list N) : N := if 0 <? N.of_nat (length body) then byte body 0 else 255.

Lemma bf_push_event c s e : bf (push_event c s e) = bf s.
Proof. unfold push_event. destruct (c_cb c); [destruct (_ <? _)|]; reflexivity. Qed.
Lemma used_push_event c s e : used_features (push_event c s e) = used_features s.
Proof. unfold push_event. destruct (c_cb c); [destruct (_ <? _)|]; reflexivity. Qed.
Lemma deferred_push_event c s e : deferred (push_event c s e) = deferred s.
Proof. unfold push_event. destruct (c_cb c); [destruct (_ <? _)|]; reflexivity. Qed.
Lemma disc_push_event c s e : disc_reason (push_event c s e) = disc_reason s.
Proof. unfold push_event. destruct (c_cb c); [destruct (_ <? _)|]; reflexivity. Qed.

Lemma txq_commit_ctrl s b :
  stopped (bf s) = false -> txq (bf (commit_ctrl s b)) = txq (bf s) ++ [(GenLL.ll_control_pdu_code, b)].
Proof. intros H. unfold commit_ctrl, commit. rewrite H. reflexivity. Qed.

Lemma bf_clear_cpr s : bf (clear_cpr_feature s) = bf s.
Proof. reflexivity. Qed.

Lemma bf_handle_reject c s o b : bf (handle_reject c s o b) = bf s.
Proof.
  unfold handle_reject.
  destruct (negb (o =? GenLL.LL_UNKNOWN_RSP)); rewrite bf_push_event;
    destruct (negb _ || _); try reflexivity;
    destruct (cpr_running _ && cpr_sig _); destruct (o =? GenLL.LL_UNKNOWN_RSP); reflexivity.
Qed.

Ltac trivial_answer :=
  repeat match goal with |- context [if ?b then _ else _] => destruct b end; exact I.

(* what was committed by handle_ll_control_data *)
Definition committed (s s' : lstate_t) (l : list pdu) : Prop := txq (bf s') = txq (bf s) ++ l.

(* The answer to every control PDU, for every payload, in every state in which the transmit buffer is not stopped
   (stop_ll_pdu_buffer() is only called when LL_TERMINATE_IND was queued). *)
Theorem control_pdu_answer c s body :
  stopped (bf s) = false ->
  let k := ctrl_kind c (ver_received (pr s)) (opc body) (N.of_nat (length body)) in
  let '(s', it, res) := handle_ll_control c s body in
  match spec_answer k (opc body) with
  | AExact b => committed s s' [(3, b)] /\ res = GoAhead
  | ANone => committed s s' [] /\ res = GoAhead /\ deferred s' = deferred s
  | AFeature =>
      committed s s' [(3, [9; lo8 (N.land (used_features s) (rd16 body 1)); hi8 (supported_features c); 0; 0; 0; 0; 0; 0])]
      /\ used_features s' = N.land (used_features s) (rd16 body 1) /\ res = GoAhead
  | ACpr =>
      res = GoAhead /\
      match c_cpr c with
      | CprNone => committed s s' [(3, if cpr_params_ok body then 16 :: slice body 1 23 else [17; 15; GenLL.invalid_ll_paramerters])]
      | _ => exists l, committed s s' l /\ (length l <= 1)%nat
      end
  | ADeferOrDisconnect =>
      committed s s' [] /\
      ((res = DoDisconnect /\ disc_reason s' = GenLL.connection_instant_passed) \/ (res = GoAhead /\ deferred s' = Some body))
  | ADisconnect => committed s s' [] /\ res = DoDisconnect /\ disc_reason s' = byte body 1
  | AOther => True
  end.
Proof.
  intros Hst k. subst k. unfold handle_ll_control. fold (opc body).
  unfold committed.
  destruct (ctrl_kind c (ver_received (pr s)) (opc body) (N.of_nat (length body))) eqn:K; cbn [spec_answer].
  - (* KUpdate *) destruct (instant_passed_update _ _); cbn; rewrite app_nil_r; auto.
  - (* KTerminate *) cbn. rewrite app_nil_r. auto.
  - (* KVersion *) split; [|reflexivity]. rewrite txq_commit_ctrl.
    + cbn [upd_pr set_pr bf]. rewrite bf_push_event.
      destruct (byte body 1 <=? GenLL.LL_VERSION_40); reflexivity.
    + cbn [upd_pr set_pr bf]. rewrite bf_push_event.
      destruct (byte body 1 <=? GenLL.LL_VERSION_40); exact Hst.
  - (* KChannelMap *) destruct (instant_passed_map _ _); cbn; rewrite app_nil_r; auto.
  - (* KPing *) split; [|reflexivity]. rewrite txq_commit_ctrl by exact Hst. reflexivity.
  - (* KFeature *) split; [|split; [|reflexivity]].
    + rewrite txq_commit_ctrl by (rewrite bf_push_event; exact Hst). rewrite bf_push_event. reflexivity.
    + unfold commit_ctrl, commit. rewrite bf_push_event. cbn [bf set_used_features]. rewrite Hst.
      cbn. rewrite used_push_event. reflexivity.
  - (* KUnknownRsp *) rewrite bf_handle_reject, app_nil_r. repeat split.
    unfold handle_reject. destruct (negb (opc body =? GenLL.LL_UNKNOWN_RSP)); rewrite deferred_push_event;
      destruct (negb _ || _); try reflexivity;
      destruct (cpr_running _ && cpr_sig _); destruct (opc body =? GenLL.LL_UNKNOWN_RSP); reflexivity.
  - (* KRejectInd *) rewrite bf_handle_reject, app_nil_r. repeat split.
    unfold handle_reject. destruct (negb (opc body =? GenLL.LL_UNKNOWN_RSP)); rewrite deferred_push_event;
      destruct (negb _ || _); try reflexivity;
      destruct (cpr_running _ && cpr_sig _); destruct (opc body =? GenLL.LL_UNKNOWN_RSP); reflexivity.
  - (* KRejectExt *) rewrite bf_handle_reject, app_nil_r. repeat split.
    unfold handle_reject. destruct (negb (opc body =? GenLL.LL_UNKNOWN_RSP)); rewrite deferred_push_event;
      destruct (negb _ || _); try reflexivity;
      destruct (cpr_running _ && cpr_sig _); destruct (opc body =? GenLL.LL_UNKNOWN_RSP); reflexivity.
  - (* KCpr *) unfold handle_cpr, cpr_reject.
    destruct (cpr_params_ok body); cbn [negb].
    + destruct (c_cpr c) as [|imin imax lmin lmax tmin tmax|].
      * split; [reflexivity|]. rewrite txq_commit_ctrl by exact Hst. reflexivity.
      * destruct (N.min _ _ <? N.max _ _); (split; [reflexivity|]); eexists; (split; [rewrite txq_commit_ctrl by exact Hst; reflexivity|]); simpl; lia.
      * destruct (_ && _); (split; [reflexivity|]).
        -- eexists; split; [rewrite txq_commit_ctrl by exact Hst; reflexivity|simpl; lia].
        -- exists []. rewrite app_nil_r. split; [reflexivity|simpl; lia].
    + destruct (c_cpr c); (split; [reflexivity|]);
        try (rewrite txq_commit_ctrl by exact Hst; reflexivity);
        eexists; (split; [rewrite txq_commit_ctrl by exact Hst; reflexivity|]); simpl; lia.
  - trivial_answer. - trivial_answer. - trivial_answer. - trivial_answer.
  - (* KPhyReq *) split; [|reflexivity]. rewrite txq_commit_ctrl by exact Hst. reflexivity.
  - trivial_answer.
  - (* KUnknown *) split; [|reflexivity]. rewrite txq_commit_ctrl by exact Hst. reflexivity.
  - (* KIgnore *) rewrite app_nil_r. auto.
Qed.

(* ========================================================================================== C27: the procedure response timeout *)
Lemma hrd_empty n c s : rxq (bf s) = [] -> handle_received_data n c s = (s, [], GoAhead).
Proof. intros H. destruct n; simpl; [reflexivity|]. destruct (deferred s); [reflexivity|]. rewrite H. reflexivity. Qed.

Lemma reset_encryption_frame c s :
  let s1 := fst (reset_encryption c s) in
  ring s1 = ring s /\ st s1 = st s /\ disc_reason s1 = disc_reason s.
Proof. unfold reset_encryption. destruct (c_enc c); cbn; auto. Qed.

Lemma push_event_ring_nil c s e : c_cb c = true -> ring s = [] -> ring (push_event c s e) = [e].
Proof. intros Hcb Hr. unfold push_event. rewrite Hcb, Hr. reflexivity. Qed.
Lemma st_push_event c s e : st (push_event c s e) = st s.
Proof. unfold push_event. destruct (c_cb c); [destruct (_ <? _)|]; reflexivity. Qed.

Lemma force_disconnect_spec c s :
  c_cb c = true -> ring s = [] -> st s <> Connecting ->
  let s' := fst (force_disconnect c s) in
  st s' = Advertising /\ ring s' = [EvClosed (disc_reason s)].
Proof.
  intros Hcb Hr Hst. unfold force_disconnect.
  pose proof (reset_encryption_frame c s) as F. destruct (reset_encryption c s) as [s1 i1].
  cbn [fst] in F. destruct F as (F1 & F2 & F3).
  cbn [start_advertising_impl handle_start_advertising fst st set_deferred set_st set_adv_ch ring].
  split; [reflexivity|].
  destruct (st s1) eqn:E; try (rewrite <- F2 in Hst; congruence);
    rewrite push_event_ring_nil; try assumption; try congruence; rewrite ?F3; try reflexivity; congruence.
Qed.

Lemma flush_events_spec s : flush_events s = (set_ring s [], map ICb (ring s)).
Proof. reflexivity. Qed.

Lemma prologue_connected c s :
  st s = Connected ->
  let s2 := end_event_prologue c s in
  st s2 = Connected /\ rxq (bf s2) = rxq (bf s) /\ ring s2 = ring s /\ proc_timeout s2 = proc_timeout s
  /\ cs s2 = cs s /\ term_sent s2 = term_sent s /\ pr s2 = pr s /\ deferred s2 = deferred s /\ bf s2 = bf s
  /\ sc s2 = sc s /\ ac s2 = ac s /\ interval (tm s2) = interval (tm s) /\ latency (tm s2) = latency (tm s)
  /\ disc_reason s2 = disc_reason s.
Proof.
  intros Hst. unfold end_event_prologue. cbn [set_pending_event st]. rewrite Hst. cbn [lstate_eqb].
  change (st (set_pending_event s false)) with (st s). rewrite Hst. cbn [lstate_eqb]. cbn. repeat split; reflexivity.
Qed.

Theorem end_event_procedure_timeout c s e s' it :
  st s = Connected -> rxq (bf s) = [] -> ring s = [] -> c_cb c = true ->
  proc_timeout s <> 0 -> proc_timeout s <= tsle (cs s) ->
  do_end_event c s e = Some (s', it) ->
  st s' = Advertising /\ In (ICb (EvClosed GenLL.connection_ll_response_timeout)) it.
Proof.
  intros Hst Hrx Hring Hcb Hp Hle H.
  unfold do_end_event in H.
  pose proof (prologue_connected c s Hst) as P. cbn zeta in P.
  set (s2 := end_event_prologue c s) in *.
  destruct P as (P1 & P2 & P3 & P4 & P5 & P6 & P7 & P8 & P9 & _).
  unfold end_event_body in H. rewrite P1 in H. cbn [lstate_eqb andb] in H.
  rewrite hrd_empty in H by congruence.
  unfold send_control_pdus in H. rewrite P1 in H. cbn [lstate_eqb andb] in H.
  unfold end_event_continue, procedure_timed_out in H. rewrite P4, P5 in H.
  assert (Hb : (negb (proc_timeout s =? 0) && (proc_timeout s <=? tsle (cs s))) = true) by lia.
  rewrite Hb in H.
  unfold force_disconnect_reason in H.
  pose proof (force_disconnect_spec c (set_disc_reason s2 GenLL.connection_ll_response_timeout) Hcb) as F.
  destruct (force_disconnect c (set_disc_reason s2 GenLL.connection_ll_response_timeout)) as [s5 it5].
  cbn [fst] in F. destruct F as [F1 F2]; [cbn [ring set_disc_reason]; congruence | cbn [st set_disc_reason]; congruence |].
  cbn [obind app] in H. unfold end_event_epilogue in H. rewrite F1 in H. rewrite flush_events_spec in H. rewrite F2 in H.
  inversion H; subst. split; [exact F1|].
  apply in_or_app. right. left. reflexivity.
Qed.

Lemma plan_next_frame c s e s' :
  plan_next_connection_event c s e = Some s' -> exists k, s' = set_cs s k.
Proof.
  unfold plan_next_connection_event. intros H.
  destruct (dt_mul _ _) as [t|]; cbn [obind] in H; [|discriminate].
  destruct (disarmable c && _); [discriminate|]. inversion H. eexists; reflexivity.
Qed.

Lemma setup_next_frame s s' it :
  setup_next_connection_event s = Some (s', it) ->
  s' = set_pending_event s true /\ exists ch ws we, it = [ICe ch ws we (interval (tm s))].
Proof.
  unfold setup_next_connection_event. intros H.
  destruct (if negb (tw_size (tm s) =? 0) then _ else _) as [[ws we]|]; cbn [obind] in H; [|discriminate].
  inversion H. split; [reflexivity|]. repeat eexists.
Qed.

Definition quiet (c : cfg) (s : lstate_t) : Prop :=
  st s = Connected /\ rxq (bf s) = [] /\ ring s = [] /\ deferred s = None
  /\ cpr_pending (pr s) = false /\ phy_pending (pr s) = false /\ ver_pending (pr s) = false
  /\ ap_pending (ac s) = false /\ enc_prog (sc s) = false.

Theorem end_event_procedure_countdown c s e s' it :
  quiet c s -> proc_timeout s <> 0 -> tsle (cs s) < proc_timeout s ->
  do_end_event c s e = Some (s', it) ->
  quiet c s' /\ proc_timeout s' = proc_timeout s - tsle (cs s) /\ (forall r, ~ In (ICb (EvClosed r)) it).
Proof.
  intros (Hst & Hrx & Hring & Hdef & Hc & Hph & Hv & Hap & Henc) Hp Hlt H.
  unfold do_end_event in H.
  pose proof (prologue_connected c s Hst) as P. cbn zeta in P.
  set (s2 := end_event_prologue c s) in *.
  destruct P as (P1 & P2 & P3 & P4 & P5 & P6 & P7 & P8 & P9 & P10 & P11 & P12 & P13 & P14).
  unfold end_event_body in H. rewrite P1 in H. cbn [lstate_eqb andb] in H.
  rewrite hrd_empty in H by congruence.
  unfold send_control_pdus in H. rewrite P1 in H. cbn [lstate_eqb andb] in H.
  unfold end_event_continue, procedure_timed_out in H. rewrite P4, P5 in H.
  assert (Hb : (negb (proc_timeout s =? 0) && (proc_timeout s <=? tsle (cs s))) = false) by lia.
  rewrite Hb in H.
  assert (Hn : negb (proc_timeout s =? 0) = true) by lia. rewrite Hn in H.
  set (s5 := set_proc_timeout s2 (proc_timeout s - tsle (cs s))) in H.
  unfold transmit_pending_security_pdus in H.
  assert (E5 : enc_prog (sc s5) = false) by (change (sc s5) with (sc s2); congruence).
  rewrite E5, andb_false_r in H. cbn [andb] in H.
  destruct (plan_next_connection_event c s5 _) as [s7|] eqn:E7; cbn [obind] in H; [|discriminate].
  apply plan_next_frame in E7. destruct E7 as [k E7].
  unfold pending_then_setup, handle_pending_ll_control in H.
  assert (D7 : deferred s7 = None) by (subst s7; change (deferred s2 = None); congruence).
  rewrite D7 in H. cbn [obind] in H.
  destruct (setup_next_connection_event s7) as [[s8 it8]|] eqn:E8; cbn [obind] in H; [|discriminate].
  apply setup_next_frame in E8. destruct E8 as [E8 (ch & ws & we & Eit)].
  cbn [app] in H. unfold end_event_epilogue in H.
  assert (S8 : st s8 = Connected) by (subst s8 s7; exact P1).
  rewrite S8 in H. unfold transmit_pending_control_pdus in H.
  assert (R8 : pr s8 = pr s) by (subst s8 s7; exact P7).
  assert (A8 : ac s8 = ac s) by (subst s8 s7; exact P11).
  rewrite R8, A8, Hc, Hph, Hv, Hap in H.
  assert (Hm : (match c_cpr c with CprAsync => false | _ => false end) = false) by (destruct (c_cpr c); reflexivity).
  rewrite Hm in H. cbn [negb andb] in H.
  rewrite flush_events_spec in H. inversion H; subst s' it. clear H.
  assert (G8 : ring s8 = []) by (subst s8 s7; change (ring s2 = []); congruence).
  rewrite G8. cbn [map app].
  split; [|split].
  - unfold quiet. subst s8 s7. cbn [set_ring st bf ring deferred pr ac sc].
    change (st s2 = Connected /\ rxq (bf s2) = [] /\ @nil cb_event = [] /\ deferred s2 = None /\ cpr_pending (pr s2) = false
            /\ phy_pending (pr s2) = false /\ ver_pending (pr s2) = false /\ ap_pending (ac s2) = false /\ enc_prog (sc s2) = false).
    rewrite P1, P2, P7, P8, P10, P11. auto 10.
  - subst s8 s7. reflexivity.
  - intros r Hin. rewrite Eit, app_nil_r in Hin. destruct Hin as [Hin|[]]. discriminate.
Qed.

Lemma radio_exchange_none_frame s :
  exists b, fst (fst (radio_exchange s None)) = set_bf s b /\ rxq b = rxq (bf s).
Proof.
  unfold radio_exchange.
  destruct (match fl (bf s) with FHead => tl (txq (bf s)) | _ => txq (bf s) end) as [|[l bd] rest];
    cbn [fst]; eexists; split; try reflexivity; reflexivity.
Qed.

Lemma radio_event_nil_frame fuel : forall s,
  exists b, fst (radio_event fuel s []) = set_bf s b /\ rxq b = rxq (bf s).
Proof.
  induction fuel as [|f IH]; intros s; cbn [radio_event].
  - exists (bf s). split; [destruct s; reflexivity|reflexivity].
  - destruct (radio_exchange_none_frame s) as (b & Eb & Rb).
    cbn [hd_error tl]. destruct (radio_exchange s None) as [[s1 it] md]. cbn [fst] in Eb.
    destruct md.
    + destruct (IH s1) as (b2 & Eb2 & Rb2). destruct (radio_event f s1 []) as [s2 it2]. cbn [fst] in *.
      exists b2. subst s1. split; [rewrite Eb2; reflexivity| rewrite Rb2; exact Rb].
    + exists b. cbn [fst]. split; assumption.
Qed.

Lemma quiet_set_bf c s b : quiet c s -> rxq b = rxq (bf s) -> quiet c (set_bf s b).
Proof.
  intros (Hst & Hrx & Hring & Hdef & Hc & Hph & Hv & Hap & Henc) Hb.
  unfold quiet. cbn [set_bf st bf ring deferred pr ac sc]. rewrite Hb. auto 10.
Qed.

Lemma radio_exchange_items s rx : forall i, In i (snd (fst (radio_exchange s rx))) -> exists l b, i = ITx l b.
Proof.
  unfold radio_exchange.
  destruct (match fl (bf s) with FHead => tl (txq (bf s)) | _ => txq (bf s) end) as [|[l bd] rest];
    cbn [fst snd]; intros i Hin; [destruct Hin|]. destruct Hin as [<-|[]]. eauto.
Qed.

Lemma radio_event_items fuel : forall s pdus i, In i (snd (radio_event fuel s pdus)) -> exists l b, i = ITx l b.
Proof.
  induction fuel as [|f IH]; intros s pdus i Hin; cbn [radio_event] in Hin; [destruct Hin|].
  pose proof (radio_exchange_items s (hd_error pdus)) as X.
  destruct (radio_exchange s (hd_error pdus)) as [[s1 it] md]. cbn [fst snd] in X.
  destruct (match tl pdus with [] => md | _ => true end).
  - specialize (IH s1 (tl pdus)). destruct (radio_event f s1 (tl pdus)) as [s2 it2]. cbn [snd] in *.
    apply in_app_or in Hin. destruct Hin; eauto.
  - cbn [snd] in Hin. eauto.
Qed.

Definition closed22 : item := ICb (EvClosed GenLL.connection_ll_response_timeout).

(* the link under a sequence of connection events in which the central sends nothing but empty PDUs *)
Fixpoint countdown (c : cfg) (s : lstate_t) (evts : list N) : Prop :=
  match evts with
  | [] => True
  | e :: r =>
      match lstep c s (Ev e []) with
      | (s', OItems it) =>
          if proc_timeout s <=? tsle (cs s)
          then st s' = Advertising /\ In closed22 it
          else quiet c s' /\ proc_timeout s' = proc_timeout s - tsle (cs s) /\ (forall x, ~ In (ICb (EvClosed x)) it)
               /\ countdown c s' r
      | (_, OCrash) => True
      | _ => False
      end
  end.

Theorem unanswered_procedure_countdown c : c_cb c = true ->
  forall evts s, quiet c s -> proc_timeout s <> 0 -> countdown c s evts.
Proof.
  intros Hcb. induction evts as [|e r IH]; intros s Hq Hp; cbn [countdown]; [exact I|].
  cbn [lstep]. unfold in_connection. destruct Hq as (Hst & Hq'). rewrite Hst. cbn [existsb].
  assert (Hq : quiet c s) by (split; assumption).
  destruct (radio_event_nil_frame (S (length (@nil pdu) + length (txq (bf s)))) s) as (b & Eb & Rb).
  destruct (radio_event _ s []) as [s1 it1] eqn:E1. cbn [fst] in Eb.
  pose proof (quiet_set_bf c s b Hq Rb) as Hq1. rewrite <- Eb in Hq1.
  assert (P1 : proc_timeout s1 = proc_timeout s) by (subst s1; reflexivity).
  assert (T1 : tsle (cs s1) = tsle (cs s)) by (subst s1; reflexivity).
  destruct (do_end_event c s1 e) as [[s2 it2]|] eqn:E2; [|exact I].
  destruct (proc_timeout s <=? tsle (cs s)) eqn:Hle.
  - destruct Hq1 as (A1 & A2 & A3 & _).
    destruct (end_event_procedure_timeout c s1 e s2 it2 A1 A2 A3 Hcb) as [R1 R2]; try congruence; try (rewrite P1, T1; lia).
    split; [exact R1|]. apply in_or_app. right. exact R2.
  - destruct (end_event_procedure_countdown c s1 e s2 it2 Hq1) as (R1 & R2 & R3); try congruence; try (rewrite P1, T1; lia).
    rewrite P1, T1 in R2.
    split; [exact R1|]. split; [exact R2|]. split.
    + intros x Hin. apply in_app_or in Hin. destruct Hin as [Hin|Hin]; [|exact (R3 x Hin)].
      pose proof (radio_event_items (S (length (@nil pdu) + length (txq (bf s)))) s [] (ICb (EvClosed x))) as X.
      rewrite E1 in X. destruct (X Hin) as (l & bb & Hx). discriminate.
    + apply IH; [exact R1|]. rewrite R2. lia.
Qed.

(* arming: LL_CONNECTION_PARAM_REQ and LL_VERSION_IND sent on the peripheral's initiative start the 40 s timer ... *)
Lemma own_request_arms_timeout c s :
  tx_avail (bf s) = true -> (cpr_pending (pr s) = true \/ (phy_pending (pr s) = false /\ ver_pending (pr s) = true)) ->
  proc_timeout (transmit_pending_control_pdus c s) = GenLL.default_procedure_timeout_us.
Proof.
  intros Ha H. unfold transmit_pending_control_pdus, tx_buffer_available. rewrite Ha.
  destruct H as [H|[H1 H2]].
  - rewrite H. cbn [negb andb]. unfold commit_ctrl, commit. destruct (stopped _); reflexivity.
  - rewrite H1, H2. destruct (cpr_pending (pr s)); cbn [negb andb];
      unfold commit_ctrl, commit; destruct (stopped _); reflexivity.
Qed.

(* ... LL_PHY_REQ does not (defect #23) *)
Lemma phy_request_does_not_arm c s :
  tx_avail (bf s) = true -> cpr_pending (pr s) = false -> phy_pending (pr s) = true ->
  proc_timeout (transmit_pending_control_pdus c s) = proc_timeout s.
Proof.
  intros Ha H1 H2. unfold transmit_pending_control_pdus, tx_buffer_available. rewrite Ha, H1, H2.
  cbn [negb andb]. unfold commit_ctrl, commit. destruct (stopped _); reflexivity.
Qed.

(* ------------------------------------------------------------------------------------------ witnesses *)
Definition cfg_base : cfg := mk_cfg true false 100 CprNone true 31 [71; 17; 8; 21; 15; 192].

(* CONNECT_IND of tests/link_layer/connected.hpp with a 4 s interval and a 32 s supervision timeout *)
Definition connect_4s : lop :=
  Adv 197 [60; 28; 98; 146; 240; 72; 71; 17; 8; 21; 15; 192; 90; 179; 154; 175; 8; 129; 246; 3; 11; 0; 128; 12; 0; 0; 128; 12;
           255; 255; 255; 255; 31; 170].
Definition connect_30ms : lop :=
  Adv 197 [60; 28; 98; 146; 240; 72; 71; 17; 8; 21; 15; 192; 90; 179; 154; 175; 8; 129; 246; 3; 11; 0; 24; 0; 0; 0; 72; 0;
           255; 255; 255; 255; 31; 170].

Definition trace_of (c : cfg) (ops : list lop) : list (lop * lout) := lrun c (linit c) ops.

(* LL_PHY_REQ unanswered for 52 s: the link is still up *)
Definition witness_phy : list lop := [Run; connect_4s; Ev 0 []; PhyReq 2 2] ++ repeat (Ev 0 []) 13.
Lemma witness_phy_rejected : mrun27 cfg_base (minit27 cfg_base) (trace_of cfg_base witness_phy) = Bad 5.
Proof. vm_compute. reflexivity. Qed.

(* remote_versions_request(), then the central's LL_VERSION_IND: a second LL_VERSION_IND is sent *)
Definition witness_version : list lop :=
  [Run; connect_30ms; Ev 0 []; VerReq; Ev 0 []; Ev 0 []; Ev 0 [(3, [12; 9; 105; 2; 0; 0])]; Ev 0 []].
Lemma witness_version_rejected : mrun27 cfg_base (minit27 cfg_base) (trace_of cfg_base witness_version) = Bad 4.
Proof. vm_compute. reflexivity. Qed.

(* a continuation fragment (LLID 1) stays at the head of the receive queue: the LL_PING_REQ behind it is never answered *)
Definition witness_fragment : list lop :=
  [Run; connect_30ms; Ev 0 []; Ev 0 [(1, [0])]; Ev 0 [(3, [18])]; Ev 0 []].
Lemma witness_fragment_rejected : mrun27 cfg_base (minit27 cfg_base) (trace_of cfg_base witness_fragment) = Bad 3.
Proof. vm_compute. reflexivity. Qed.

Definition monitor27_accepts_all : Prop := forall c ops, accepts27 c (trace_of c ops).
Theorem monitor27_accepts_all_refuted : ~ monitor27_accepts_all.
Proof. intros H. specialize (H cfg_base witness_phy). unfold accepts27 in H. rewrite witness_phy_rejected in H. discriminate. Qed.

(* non-vacuity: the monitor accepts a session with every kind of request, and the 40 s timeout of a version request *)
Definition session_ok : list lop :=
  [Run; connect_4s; Ev 0 []; Ev 0 [(3, [18]); (3, [8; 255; 1; 0; 0; 0; 0; 0; 0]); (3, [99; 1; 2])];
   Ev 0 [(3, [12; 9; 1; 2; 3; 4])]; Ev 0 [(3, [22; 1; 1]); (3, [7; 5]); (3, [13; 6]); (3, [17; 15; 59])];
   Ev 0 [(3, 15 :: [10; 0; 20; 0; 0; 0; 100; 0] ++ repeat 0 15)]; Ev 0 []; Cpr 6 24 0 72] ++ repeat (Ev 0 []) 12.
Lemma session_ok_accepted : mrun27 cfg_base (minit27 cfg_base) (trace_of cfg_base session_ok) = Ok.
Proof. vm_compute. reflexivity. Qed.
Lemma session_ok_ends_with_0x22 :
  exists it, nth_error (trace_of cfg_base session_ok) 19 = Some (Ev 0 [], OItems it) /\ In closed22 it.
Proof. vm_compute. eexists; split; [reflexivity|]. simpl; tauto. Qed.

(* ========================================================================================== C22: delta_time::ppm *)
Definition ppm_domain : N := 131072000000.     (* usec * part below this: the 64 bit product does not overflow *)

Lemma ppm_value t a : t * a <= ppm_domain -> ppm t a = t * a * 140737488 / 140737488355328.
Proof.
  intros H. unfold ppm, u64, u32, ppm_domain in *.
  change GenLL.ppm_multiplier with 140737488. change GenLL.ppm_shift with 47.
  rewrite N.shiftr_div_pow2. change (2 ^ 47) with 140737488355328.
  rewrite (N.mod_small (t * a * 140737488)) by nia.
  apply N.mod_small.
  apply N.lt_le_trans with (m := 131073); [|lia].
  apply N.div_lt_upper_bound; [lia|]. nia.
Qed.

Theorem ppm_bounds t a :
  t * a <= ppm_domain -> required a t <= ppm t a /\ ppm t a <= widen_floor a t.
Proof.
  intros H. rewrite (ppm_value t a H). unfold required, widen_floor, ppm_domain in *.
  rewrite (N.mul_comm a t). set (x := t * a) in *.
  split.
  - (* floor( x / 10^6 ) - 1 <= floor( x * M / 2^47 ) *)
    set (q := x / 1000000).
    assert (Hq : 1000000 * q <= x) by (apply N.mul_div_le; lia).
    assert (Hq2 : q <= 131072) by (unfold q; apply N.div_le_upper_bound; lia).
    apply N.div_le_lower_bound; [lia|]. nia.
  - apply N.div_le_lower_bound; [lia|].
    assert (H1 : 140737488355328 * (x * 140737488 / 140737488355328) <= x * 140737488) by (apply N.mul_div_le; lia).
    nia.
Qed.

(* the real-valued statement "the window is widened by at least a * t / 10^6" is false of the fixed point formula *)
Definition ppm_exact : Prop := forall t a, t * a <= ppm_domain -> a * t <= 1000000 * ppm t a.
Theorem ppm_exact_refuted : ~ ppm_exact.
Proof.
  intros H. assert (X : 1000000 * 1 <= ppm_domain) by (vm_compute; discriminate).
  specialize (H 1000000 1 X). revert H. vm_compute. intros H. apply H. reflexivity.
Qed.

(* ========================================================================================== C22: the receive window *)
Lemma covers_intro a s e x0 x1 w0 w1 :
  required a x0 <= w0 -> required a x1 <= w1 -> w0 <= x0 -> s = x0 - w0 -> e = x1 + w1 -> covers a s e x0 x1 = true.
Proof. intros. unfold covers. subst. lia. Qed.

Definition time_bound : N := 131072000.       (* 131 s: far above the 32 s supervision timeout + interval + transmit window *)

Lemma ppm_le_small t a : t <= time_bound -> a <= 1000 -> ppm t a <= widen_floor a t /\ required a t <= ppm t a /\ ppm t a <= t /\ ppm t a <= 131072.
Proof.
  intros Ht Ha. unfold time_bound in Ht.
  destruct (ppm_bounds t a) as [L U]; [unfold ppm_domain; nia|].
  assert (W : widen_floor a t <= 131072) by (unfold widen_floor; apply N.div_le_upper_bound; [lia|nia]).
  assert (W2 : widen_floor a t <= t) by (unfold widen_floor; apply N.div_le_upper_bound; [lia|nia]).
  repeat split; lia.
Qed.

Theorem window_covers s s' it :
  tsle (cs s) + tw_off (tm s) + tw_size (tm s) + 131072 <= time_bound -> sca s <= 1000 ->
  setup_next_connection_event s = Some (s', it) ->
  exists ch ws we,
    it = [ICe ch ws we (interval (tm s))] /\
    covers (sca s) ws we (tsle (cs s) + (if tw_size (tm s) =? 0 then 0 else tw_off (tm s)))
                         (tsle (cs s) + (if tw_size (tm s) =? 0 then 0 else tw_off (tm s) + tw_size (tm s))) = true.
Proof.
  intros Hd Ha H. unfold setup_next_connection_event in H.
  set (t := tsle (cs s)) in *. set (a := sca s) in *. set (off := tw_off (tm s)) in *. set (sz := tw_size (tm s)) in *.
  unfold time_bound in Hd.
  destruct (sz =? 0) eqn:Z; cbn [negb] in H.
  - (* symmetric *)
    destruct (ppm_le_small t a) as (U & L & W & B); [unfold time_bound; lia|assumption|].
    unfold dt_sub, dt_add, u32 in H. rewrite (N.mod_small (t + ppm t a)) in H by lia.
    replace (ppm t a <=? t) with true in H by lia. cbn [obind] in H.
    replace ((t <=? t + ppm t a) && (ppm t a <=? t + ppm t a)) with true in H by lia. cbn [obind] in H.
    inversion H. do 3 eexists. split; [reflexivity|]. rewrite !N.add_0_r.
    eapply covers_intro; eauto.
  - (* transmit window *)
    destruct (ppm_le_small (t + off) a) as (U0 & L0 & W0 & B0); [unfold time_bound; lia|assumption|].
    destruct (ppm_le_small (t + off + sz) a) as (U1 & L1 & W1 & B1); [unfold time_bound; lia|assumption|].
    unfold dt_sub, dt_add, u32 in H.
    rewrite (N.mod_small (t + off)) in H by lia.
    replace ((t <=? t + off) && (off <=? t + off)) with true in H by lia. cbn [obind] in H.
    rewrite (N.mod_small (t + off + sz)) in H by lia.
    replace ((t + off <=? t + off + sz) && (sz <=? t + off + sz)) with true in H by lia. cbn [obind] in H.
    replace (ppm (t + off) a <=? t + off) with true in H by lia. cbn [obind] in H.
    rewrite (N.mod_small (t + off + sz + ppm (t + off + sz) a)) in H by lia.
    replace ((t + off + sz <=? t + off + sz + ppm (t + off + sz) a) && (ppm (t + off + sz) a <=? t + off + sz + ppm (t + off + sz) a)) with true in H by lia.
    cbn [obind] in H. inversion H. do 3 eexists. split; [reflexivity|].
    rewrite N.add_assoc. eapply covers_intro; eauto.
Qed.

(* ========================================================================================== C22: anchors *)
Lemma dt_mul_exact usec rhs p : dt_mul usec rhs = Some p -> usec * rhs < 4294967296 -> p = usec * rhs.
Proof.
  unfold dt_mul, u32. intros H Hb.
  destruct ((rhs =? 0) || (usec =? 0)) eqn:E0; [inversion H; nia|].
  destruct (rhs =? 1) eqn:E1; [inversion H; nia|].
  destruct (usec =? 1) eqn:E2; [inversion H; nia|].
  rewrite N.mod_small in H by assumption.
  destruct (_ && _); inversion H. reflexivity.
Qed.

(* after a connection event the next one is planned k intervals after the anchor, 1 <= k <= latency + 1 *)
Theorem anchor_after_event c s e s' :
  latency (tm s) <= 499 -> interval (tm s) * (latency (tm s) + 1) < 4294967296 ->
  plan_next_connection_event c s e = Some s' ->
  exists k, 1 <= k /\ k <= latency (tm s) + 1 /\ tsle (cs s') = k * interval (tm s)
            /\ evc (cs s') = u16 (evc (cs s) + k) /\ ch_idx (cs s') = (ch_idx (cs s) + k) mod 37.
Proof.
  intros Hl Hb H. unfold plan_next_connection_event in H.
  cbv zeta in H.
  match type of H with context [u16 ((if ?b then 0 else latency (tm s)) + 1)] =>
    set (l0 := u16 ((if b then 0 else latency (tm s)) + 1)) in H;
    assert (L0 : 1 <= l0 /\ l0 <= latency (tm s) + 1) by (unfold l0, u16; destruct b; rewrite N.mod_small; lia)
  end.
  match type of H with context [dt_mul (interval (tm s)) ?x] => set (l := x) in H end.
  assert (L : 1 <= l /\ l <= latency (tm s) + 1).
  { unfold l. destruct (deferred s); [|exact L0].
    destruct (0 <? _) eqn:D; [|exact L0]. split; [|lia]. apply N.min_glb; lia. }
  destruct (dt_mul (interval (tm s)) l) as [t|] eqn:E; cbn [obind] in H; [|discriminate].
  destruct (disarmable c && (l =? 0)); [discriminate|]. inversion H.
  exists l. cbn [cs set_cs tsle evc ch_idx]. repeat split; try lia.
  apply dt_mul_exact in E; [lia|nia].
Qed.

(* after a missed event the next one is planned one interval later *)
Theorem anchor_after_missed_event s s' :
  plan_after_timeout s = Some s' -> tsle (cs s') = tsle (cs s) + interval (tm s) \/ 4294967296 <= tsle (cs s) + interval (tm s).
Proof.
  unfold plan_after_timeout, dt_add, u32. intros H.
  destruct (N.lt_ge_cases (tsle (cs s) + interval (tm s)) 4294967296) as [Hs|Hs]; [left|right; exact Hs].
  rewrite N.mod_small in H by assumption.
  destruct (_ && _); cbn [obind] in H; inversion H. reflexivity.
Qed.

(* ========================================================================================== C22: supervision *)
Lemma in_flush_closed s r : In (ICb (EvClosed r)) (snd (flush_events s)) <-> In (EvClosed r) (ring s).
Proof.
  cbn [flush_events snd]. rewrite in_map_iff. split.
  - intros (x & Hx & Hin). inversion Hx; subst. exact Hin.
  - intros H. exists (EvClosed r). split; [reflexivity|exact H].
Qed.

(* a connected link without pending procedure timer is dropped by timeout() exactly when nothing valid was received for
   the supervision timeout; the reason reported is disconnecting_reason_ (0x08 unless a terminate / instant passed set it) *)
Theorem supervision_drop c s s' it :
  st s = Connected -> ring s = [] -> c_cb c = true -> proc_timeout s = 0 ->
  conn_timeout (tm s) <= tsle (cs s) ->
  do_timeout c s = Some (s', it) ->
  st s' = Advertising /\ In (ICb (EvClosed (disc_reason s))) it.
Proof.
  intros Hst Hr Hcb Hp Hle H. unfold do_timeout in H.
  change (st (set_pending_event s false)) with (st s) in H. rewrite Hst in H. cbn [lstate_eqb andb] in H.
  change (proc_timeout (set_pending_event s false)) with (proc_timeout s) in H. rewrite Hp in H.
  cbn [N.eqb negb andb] in H.
  destruct (dt_mul _ _) as [five|]; cbn [obind] in H; [|discriminate].
  change (tsle (cs (set_pending_event s false))) with (tsle (cs s)) in H.
  change (conn_timeout (tm (set_pending_event s false))) with (conn_timeout (tm s)) in H.
  replace (tsle (cs s) <? conn_timeout (tm s)) with false in H by lia. cbn [andb obind] in H.
  pose proof (force_disconnect_spec c (set_pending_event s false) Hcb) as F.
  destruct (force_disconnect c (set_pending_event s false)) as [s2 it2]. cbn [fst] in F.
  destruct F as [F1 F2]; [exact Hr|cbn [st set_pending_event]; congruence|].
  rewrite flush_events_spec in H. inversion H; subst. split; [exact F1|].
  apply in_or_app. right. rewrite F2. left. reflexivity.
Qed.

Theorem supervision_keep c s s' it :
  st s = Connected -> ring s = [] -> proc_timeout s = 0 -> deferred s = None ->
  tsle (cs s) < conn_timeout (tm s) ->
  do_timeout c s = Some (s', it) ->
  st s' = Connected /\ (forall r, ~ In (ICb (EvClosed r)) it) /\ exists ch ws we, it = [ICe ch ws we (interval (tm s))].
Proof.
  intros Hst Hr Hp Hd Hlt H. unfold do_timeout in H.
  change (st (set_pending_event s false)) with (st s) in H. rewrite Hst in H. cbn [lstate_eqb andb] in H.
  change (proc_timeout (set_pending_event s false)) with (proc_timeout s) in H. rewrite Hp in H.
  cbn [N.eqb negb andb] in H.
  destruct (dt_mul _ _) as [five|]; cbn [obind] in H; [|discriminate].
  change (tsle (cs (set_pending_event s false))) with (tsle (cs s)) in H.
  change (conn_timeout (tm (set_pending_event s false))) with (conn_timeout (tm s)) in H.
  replace (tsle (cs s) <? conn_timeout (tm s)) with true in H by lia. cbn [andb negb obind] in H.
  destruct (plan_after_timeout _) as [s1|] eqn:E1; cbn [obind] in H; [|discriminate].
  unfold plan_after_timeout in E1. destruct (dt_add _ _) as [t|]; cbn [obind] in E1; [|discriminate]. inversion E1 as [E1'].
  unfold pending_then_setup, handle_pending_ll_control in H.
  assert (D1 : deferred s1 = None) by (subst s1; exact Hd). rewrite D1 in H. cbn [obind] in H.
  destruct (setup_next_connection_event s1) as [[s2 it2]|] eqn:E2; cbn [obind] in H; [|discriminate].
  apply setup_next_frame in E2. destruct E2 as [E2 (ch & ws & we & Eit)].
  rewrite flush_events_spec in H. inversion H; subst s' it.
  assert (R2 : ring s2 = []) by (subst s2 s1; exact Hr). rewrite R2. cbn [map app]. rewrite app_nil_r.
  split; [subst s2 s1; exact Hst|]. split.
  - intros r Hin. rewrite Eit in Hin. destruct Hin as [Hin|[]]. discriminate.
  - exists ch, ws, we. rewrite Eit. subst s1. reflexivity.
Qed.

(* ========================================================================================== C22: connect requests *)
Ltac unfold_limits :=
  unfold minimum_connection_interval, maximum_connection_interval, minimum_transmit_window_size,
         GenLL.us_per_digits, GenLL.maximum_transmit_window_offset, GenLL.minimum_connection_timeout,
         GenLL.maximum_connection_timeout in *.

(* the repaired check can not run into the assert of delta_time::operator*= *)
Lemma check_timing_total t : check_timing t <> None.
Proof.
  unfold check_timing. destruct (_ && _) eqn:E; [|discriminate].
  unfold_limits.
  assert (B : interval t * ((latency t + 1) * 2) < 4294967296) by nia.
  unfold dt_mul, u32. rewrite N.mod_small by exact B.
  destruct (_ || _); [discriminate|]. destruct (_ =? 1); [discriminate|]. destruct (_ =? 1); [discriminate|].
  replace ((interval t <? interval t * ((latency t + 1) * 2)) && ((latency t + 1) * 2 <? interval t * ((latency t + 1) * 2))) with true by nia.
  discriminate.
Qed.

Lemma check_timing_true t :
  check_timing t = Some true ->
  latency t <= 499 /\ 7500 <= interval t <= 4000000 /\ 1250 <= tw_size t <= 10000 /\ tw_size t <= interval t
  /\ 100000 <= conn_timeout t <= 32000000 /\ interval t * ((latency t + 1) * 2) < conn_timeout t.
Proof.
  unfold check_timing. destruct (_ && _) eqn:E; [|discriminate].
  unfold_limits. intros H.
  destruct (dt_mul _ _) as [p|] eqn:D; cbn [obind] in H; [|discriminate].
  apply dt_mul_exact in D; [|nia]. inversion H. lia.
Qed.

Theorem connection_only_from_valid_request c s hdr0 body s' it :
  st s = Advertising ->
  do_adv_received c s hdr0 body = Some (s', it) -> st s' = Connecting ->
  addressed_to_us c hdr0 body = true /\ connect_timing_valid body = true /\ connect_hop_valid body = true.
Proof.
  intros Hst H Hc. unfold do_adv_received in H.
  destruct (valid_connect_request c hdr0 body) eqn:V.
  2:{ inversion H; subst. cbn in Hc. congruence. }
  split; [exact V|].
  destruct (ChanMapModel.reset_impl (chan s) (slice body 28 5) (N.land (byte body 33) 31)) as [ch r] eqn:R.
  destruct r as [[|]| | | |]; try discriminate.
  2:{ inversion H; subst. cbn in Hc. congruence. }
  assert (Hhop : connect_hop_valid body = true).
  { unfold connect_hop_valid. unfold ChanMapModel.reset_impl in R.
    destruct ((_ <? 5) || (16 <? _)) eqn:Hh; [inversion R|lia]. }
  split; [|exact Hhop].
  destruct (parse_connect body) as [t ok] eqn:P.
  destruct ok as [[|]|]; try discriminate.
  2:{ inversion H; subst. cbn in Hc. congruence. }
  unfold parse_connect in P. inversion P as [[Pt Pok]]. clear P.
  match type of Pok with (if ?b then _ else _) = _ => destruct b eqn:Hoff; [|discriminate] end.
  apply check_timing_true in Pok. cbn [latency interval tw_size conn_timeout] in Pok, Hoff.
  unfold connect_timing_valid. unfold GenLL.us_per_digits in *. nia.
Qed.

(* ------------------------------------------------------------------------------------------ C22 witnesses / non-vacuity *)
Definition connect_with (winsize winoffset interval latency tmo : N) : lop :=
  Adv 197 ([60; 28; 98; 146; 240; 72; 71; 17; 8; 21; 15; 192; 90; 179; 154; 175; 8; 129; 246; winsize;
            winoffset mod 256; winoffset / 256; interval mod 256; interval / 256; latency mod 256; latency / 256;
            tmo mod 256; tmo / 256; 255; 255; 255; 255; 31; 170]).

(* every event scheduled, three missed events, supervision timeout after 720 ms: accepted by the monitor *)
Definition session22_ok : list lop :=
  [Run; connect_with 3 11 24 0 72; Ev 0 []; Ev 0 []; Timeout; Timeout; Ev 0 []] ++ repeat Timeout 24.
Lemma session22_ok_accepted : mrun22 cfg_base (minit22 cfg_base) (trace_of cfg_base session22_ok) = Ok.
Proof. vm_compute. reflexivity. Qed.
Lemma session22_ok_ends_with_0x08 :
  exists it, nth_error (trace_of cfg_base session22_ok) 30 = Some (Timeout, OItems it) /\ In (ICb (EvClosed 8)) it.
Proof. vm_compute. eexists; split; [reflexivity|]. simpl; tauto. Qed.

(* the monitor is not trivially accepting *)
Lemma monitor22_rejects_narrow_window :
  mrun22 cfg_base (minit22 cfg_base)
    [(Run, OItems [IAa 2391391958 5592405; IAdv 37]);
     (connect_with 3 11 24 0 72, OItems [IAa 2946085722 16154888; ICe 10 14998 18752 30000]);
     (Ev 0 [], OItems [ICe 20 29999 30001 30000])] = Bad 2.
Proof. vm_compute. reflexivity. Qed.
Lemma monitor22_rejects_interval_zero :
  mrun22 cfg_base (minit22 cfg_base)
    [(Run, OItems [IAa 2391391958 5592405; IAdv 37]);
     (connect_with 0 0 0 0 10, OItems [IAa 2946085722 16154888; ICe 10 0 0 0])] = Bad 5.
Proof. vm_compute. reflexivity. Qed.
Lemma monitor22_rejects_early_supervision :
  mrun22 cfg_base (minit22 cfg_base)
    [(Run, OItems [IAa 2391391958 5592405; IAdv 37]);
     (connect_with 3 11 24 0 72, OItems [IAa 2946085722 16154888; ICe 10 14998 18752 30000]);
     (Ev 0 [], OItems [ICe 20 29996 30004 30000]);
     (Timeout, OItems [IAa 2391391958 5592405; IAdv 37; ICb (EvClosed 8)])] = Bad 3.
Proof. vm_compute. reflexivity. Qed.

(* the requests that were accepted before the repair are refused by the (repaired) model *)
Lemma repaired_model_refuses :
  forallb (fun o => match lrun cfg_base (linit cfg_base) [Run; o] with
                    | [_; (_, OItems [])] => true | _ => false end)
          [connect_with 0 0 0 0 10; connect_with 1 0 5 0 10; connect_with 1 0 3201 0 3200; connect_with 0 0 24 0 72;
           connect_with 1 0 3436 499 3200; connect_with 1 0 40 0 10] = true.
Proof. vm_compute. reflexivity. Qed.

Definition monitor22_accepts_all : Prop := forall c ops, accepts22 c (trace_of c ops).
