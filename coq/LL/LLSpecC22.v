From BT Require Import Base.ListX LL.LLModel LL.LLSpec.
Local Open Scope N_scope.
Definition mon22 := unit.
Definition minit22 (c : cfg) : mon22 := tt.
Definition mstep22 (c : cfg) (m : mon22) (o : lop) (r : lout) : verdict * mon22 := (Ok, m).
