(* C22  Connection event timing and supervision follow the connection parameters: specification and monitor.

   Specification level notions
     widening a t   = what the receive window has to be widened by at each end, t microseconds after the last anchor, for
                      a combined sleep clock accuracy of a ppm:  a * t / 10^6  (a real number; [widen_floor] is its floor)
     required a t   = widen_floor a t - 1: the monitor's (and the _partial theorem's) demand; the fixed point formula of
                      delta_time::ppm is below the real value by less than 1 us + 2.6e-9 relative (theorem
                      ppm_exact_refuted / ppm_close in LLProofs.v)
     connect_valid  = the Core specification's ranges for the LLData of a CONNECT_IND (Vol 6 Part B 2.3.3.1, 4.5.1, 4.5.2)

   The monitor [mstep22] judges an observed trace. Clauses (tags):
     1 anchor              a connection event is not scheduled at last anchor + k intervals, 1 <= k <= latency + 1
                           (+ 1 per missed event), or with another interval than the connection's
     2 window              the receive window does not cover anchor +- required widening (+ transmit window)
     3 supervision_early   closed for supervision timeout (0x08 / attempt timeout) before the timeout elapsed
     4 supervision_late    still scheduling although nothing valid was received for the supervision timeout
                           (6 intervals while connecting)
     5 connect_invalid     a connection was established from a connect request with invalid parameters
     6 connect_valid_refused   a valid connect request addressed to this device was ignored
     7 fault               assert / sanitizer abort
   Out of scope (stops judging until the next connection): disconnect(), try_event_cancelation() (C23), the events
   between the instant of a connection update and the first packet after it. *)
From BT Require Import Base.ListX LL.LLModel LL.LLSpec.
From BT Require gen.GenLL ChanMap.ChanMapSpec.
Import ListNotations.
Local Open Scope N_scope.

Definition widen_floor (a t : N) : N := a * t / 1000000.
Definition required (a t : N) : N := widen_floor a t - 1.

(* sleep clock accuracy field of the CONNECT_IND -> worst case ppm of the announced range (Core Vol 6 Part B 2.3.3.1, SCA
   field: 0: 251-500, 1: 151-250, 2: 101-150, 3: 76-100, 4: 51-75, 5: 31-50, 6: 21-30, 7: 0-20 ppm; window widening:
   Vol 6 Part B 4.2.2 / 4.5.7).  A LITERAL of the specification, deliberately not read from the sources: the monitor's
   `window` clause judges the implementation's windows against it (+ the configured own accuracy, - 1 us, the slack
   proved for delta_time::ppm); GenLL.inaccuracy_ppm is what sleep_clock_accuracy() returns in the source at hand, and
   Properties_C22 pins the two to each other. *)
Definition core_sca_ppm : list N := [500; 250; 150; 100; 75; 50; 30; 20].
Definition sca_ppm (field : N) : N := nth (N.to_nat field) core_sca_ppm 0.

(* the number of used data channels of a channel map: the specification's notion of property C20 (ChanMapSpec.num_used:
   the bits 0..36 that are set) *)
Definition used_channels (chmap : list N) : N := N.of_nat (ChanMapSpec.num_used chmap).

(* NOTE: the Core's upper bound of the window size is min( 10 ms, interval - 1.25 ms ); the repository's own unit tests
   send connection updates with window size = interval, and the repair keeps accepting that: [<= interval] here. *)
Definition connect_timing_valid (body : list N) : bool :=
  let winsize := byte body 19 in let winoffset := rd16 body 20 in let interval := rd16 body 22 in
  let latency := rd16 body 24 in let tmo := rd16 body 26 in
  (6 <=? interval) && (interval <=? 3200)
  && (latency <=? 499)
  && (10 <=? tmo) && (tmo <=? 3200)
  && ((1 + latency) * interval * 2 * 1250 <? tmo * 10000)           (* timeout > ( 1 + latency ) * interval * 2 *)
  && (1 <=? winsize) && (winsize <=? 8) && (winsize <=? interval)
  && (winoffset <=? interval).

Definition connect_hop_valid (body : list N) : bool :=
  let hop := N.land (byte body 33) 31 in (5 <=? hop) && (hop <=? 16).

(* LLData of a CONNECT_IND; body = InitA AdvA AA CRCInit WinSize WinOffset Interval Latency Timeout ChM Hop/SCA *)
Definition connect_valid (body : list N) : bool :=
  connect_timing_valid body && connect_hop_valid body && (2 <=? used_channels (slice body 28 5)).

Definition addressed_to_us (c : cfg) (hdr0 : N) (body : list N) : bool :=
  (N.of_nat (length body) =? 34) && (N.land hdr0 15 =? 5) && bytes_eqb (slice body 6 6) (c_own c)
  && negb (N.land hdr0 128 =? 0).

Inductive phase22 := PIdle | PConnecting | PConnected | PBlind.   (* PBlind: between an update's instant and the next packet *)

Record mon22 := mk22 {
  p_phase : phase22;
  p_stop : bool;
  p_interval : N;       (* us *)
  p_latency : N;
  p_timeout : N;        (* us *)
  p_a : N;              (* combined sleep clock accuracy, ppm *)
  p_off : N; p_size : N;   (* transmit window (us) of the event that is scheduled; size 0 = none *)
  p_t : N;              (* time from the last anchor to the scheduled event *)
  p_missed : N;         (* events missed since the last anchor *)
  p_upd : list (N * N * N * N * N)   (* delivered connection updates: winsize, winoffset, interval, latency, timeout (units) *)
}.

Definition minit22 (c : cfg) : mon22 := mk22 PIdle false 0 0 0 0 0 0 0 0 [].
Definition idle22 : mon22 := mk22 PIdle false 0 0 0 0 0 0 0 0 [].

Definition find_ce (it : list item) : option (N * N * N * N) :=
  fold_left (fun a i => match i with ICe ch s e iv => Some (ch, s, e, iv) | _ => a end) it None.
Definition has_adv22 (it : list item) : bool := existsb (fun i => match i with IAdv _ => true | _ => false end) it.
Definition closed_with (it : list item) (r : N) : bool :=
  existsb (fun i => match i with ICb (EvClosed x) => x =? r | ICb EvAttemptTimeout => r =? 8 | _ => false end) it.
Definition changed_details (it : list item) : option details :=
  fold_left (fun a i => match i with ICb (EvChanged d) => Some d | _ => a end) it None.

(* the window [s, e] covers the nominal interval [x0, x1] widened by the required amount *)
Definition covers (a s e x0 x1 : N) : bool := (s + required a x0 <=? x0) && (x1 + required a x1 <=? e).

Fixpoint search_k (a s e off size iv : N) (k : nat) : bool :=
  match k with
  | O => false
  | S k' => covers a s e (N.of_nat k * iv + off) (N.of_nat k * iv + off + size) || search_k a s e off size iv k'
  end.

Definition updates_of (pdus : list pdu) : list (N * N * N * N * N) :=
  flat_map (fun p => match p with
                     | (llid, b) => if (N.land llid 3 =? 3) && (N.of_nat (length b) =? 12) && (byte b 0 =? 0)
                                    then [(byte b 1, rd16 b 2, rd16 b 4, rd16 b 6, rd16 b 8)] else []
                     end) pdus.

(* the delivered update that connection_changed reports, and the updates that are still outstanding after it.
   connection_changed carries only interval / latency / timeout, so two delivered updates can look alike (same three
   values, different transmit windows).  Control PDUs take effect in the order of their delivery and an update takes
   effect once: the applied one is the OLDEST outstanding update with the reported values; it and everything delivered
   before it are no longer outstanding.  (Before, the list was never consumed: a later update with the values of an
   earlier, already applied one was judged against the earlier one's transmit window - a false alarm, docs/C22.md.) *)
Fixpoint applied_update (l : list (N * N * N * N * N)) (d : details) : option ((N * N * N * N * N) * list (N * N * N * N * N)) :=
  match l with
  | [] => None
  | (wsz, woff, ivl, lat, tmo) :: r =>
      if (ivl =? d_interval d) && (lat =? d_latency d) && (tmo =? d_timeout d) then Some ((wsz, woff, ivl, lat, tmo), r)
      else applied_update r d
  end.

Definition mstep22 (c : cfg) (m : mon22) (o : lop) (r : lout) : verdict * mon22 :=
  match r with
  | OCrash => (Bad 7, m)
  | OPre | OBadOp => (Ok, m)
  | OItems it =>
      match o with
      | Adv hdr0 body =>
          match find_ce it with
          | Some (_, s, e, iv) =>
              if negb (connect_valid body) then (Bad 5, m)
              else
                let a := sca_ppm (N.land (N.shiftr (byte body 33) 5) 7) + c_sca c in
                let off := (rd16 body 20 + 1) * 1250 in
                let size := byte body 19 * 1250 in
                let interval := rd16 body 22 * 1250 in
                if negb (iv =? interval) then (Bad 1, m)
                else if negb (covers a s e off (off + size)) then (Bad 2, m)
                else (Ok, mk22 PConnecting false interval (rd16 body 24) (rd16 body 26 * 10000) a off size 0 0 [])
          | None =>
              match p_phase m with
              | PIdle => if addressed_to_us c hdr0 body && connect_valid body && negb (has_adv22 it) then (Bad 6, m) else (Ok, m)
              | _ => (Ok, m)
              end
          end
      | Run | AdvTimeout | St | Key _ | TxAvail _ | Cpu _ _ _ _ | Cpr _ _ _ _ | PhyReq _ _ | VerReq | CprReply _ _ _ _ | CprNeg _ => (Ok, m)
      | Disconnect _ | Cancel _ _ =>
          match p_phase m with PIdle => (Ok, m) | _ => (Ok, mk22 (p_phase m) true (p_interval m) (p_latency m) (p_timeout m) (p_a m) (p_off m) (p_size m) (p_t m) (p_missed m) []) end
      | Ev _ pdus =>
          match p_phase m with
          | PIdle => (Ok, m)
          | _ =>
              if has_adv22 it then (Ok, idle22)
              else if p_stop m then (Ok, m)
              else
                match find_ce it with
                | None => (Bad 8, m)
                | Some (_, s, e, iv) =>
                    let upd := p_upd m ++ updates_of pdus in
                    (* without connection callbacks the application of an update is not observable: out of scope from its delivery *)
                    if negb (c_cb c) && match upd with _ :: _ => true | [] => false end
                    then (Ok, mk22 (p_phase m) true (p_interval m) (p_latency m) (p_timeout m) (p_a m) (p_off m) (p_size m) (p_t m) (p_missed m) [])
                    else
                    match changed_details it, match changed_details it with Some d => applied_update upd d | None => None end with
                    | Some d, Some ((wsz, woff, ivl, lat, tmo), rest) =>
                        (* the update's instant: old interval up to here, then the new transmit window *)
                        if negb (iv =? ivl * 1250) then (Bad 1, m)
                        else if search_k (p_a m) s e (woff * 1250) (wsz * 1250) (p_interval m) (N.to_nat (p_latency m + 1 + p_missed m))
                        then (Ok, mk22 PBlind false (ivl * 1250) lat (tmo * 10000) (p_a m) (woff * 1250) (wsz * 1250) 0 0 rest)
                        else (Bad 2, m)
                    | Some d, None =>
                        (* a change that is not a connection update (encryption): timing as usual *)
                        (Ok, mk22 PBlind false (p_interval m) (p_latency m) (p_timeout m) (p_a m) 0 0 0 0 upd)
                    | None, _ =>
                        if negb (iv =? p_interval m) then (Bad 1, m)
                        else if negb ((s + e) mod 2 =? 0) then (Bad 1, m)
                        else
                          let t := (s + e) / 2 in
                          if negb ((t mod p_interval m =? 0) || (p_interval m =? 0)) then (Bad 1, m)
                          else if negb ((p_interval m <=? t) && (t <=? (p_latency m + 1) * p_interval m)) then (Bad 1, m)
                          else if negb (covers (p_a m) s e t t) then (Bad 2, m)
                          else (Ok, mk22 PConnected false (p_interval m) (p_latency m) (p_timeout m) (p_a m) 0 0 t 0 upd)
                    end
                end
          end
      | Timeout =>
          match p_phase m with
          | PIdle => (Ok, m)
          | PBlind => (Ok, if has_adv22 it then idle22 else m)
          | ph =>
              if p_stop m then (Ok, if has_adv22 it then idle22 else m)
              else
                let connecting := match ph with PConnecting => true | _ => false end in
                let lost := (p_timeout m <=? p_t m) || (connecting && (5 <=? p_missed m)) in
                if has_adv22 it then
                  if closed_with it 8 && negb lost then (Bad 3, m) else (Ok, idle22)
                else if match changed_details it with Some _ => true | None => false end then
                  (* the instant of an update fell on a missed event: the new parameters apply, the window is not judged *)
                  match match changed_details it with Some d => applied_update (p_upd m) d | None => None end with
                  | Some ((wsz, woff, ivl, lat, tmo), rest) =>
                      (Ok, mk22 PBlind false (ivl * 1250) lat (tmo * 10000) (p_a m) (woff * 1250) (wsz * 1250) 0 0 rest)
                  | None => (Ok, mk22 PBlind false (p_interval m) (p_latency m) (p_timeout m) (p_a m) 0 0 0 0 (p_upd m))
                  end
                else if lost then (Bad 4, m)
                else
                  match find_ce it with
                  | None => (Bad 8, m)
                  | Some (_, s, e, iv) =>
                      let t := p_t m + p_interval m in
                      if negb (iv =? p_interval m) then (Bad 1, m)
                      else if negb (covers (p_a m) s e (t + p_off m) (t + p_off m + p_size m)) then (Bad 2, m)
                      else if connecting then (Ok, mk22 ph false (p_interval m) (p_latency m) (p_timeout m) (p_a m) (p_off m) (p_size m) t (p_missed m + 1) (p_upd m))
                      else if negb ((s + e) / 2 =? t) then (Bad 1, m)
                      else (Ok, mk22 ph false (p_interval m) (p_latency m) (p_timeout m) (p_a m) (p_off m) (p_size m) t (p_missed m + 1) (p_upd m))
                  end
          end
      end
  end.

Fixpoint mrun22 (c : cfg) (m : mon22) (tr : list (lop * lout)) : verdict :=
  match tr with
  | [] => Ok
  | (o, r) :: t => match mstep22 c m o r with (Ok, m') => mrun22 c m' t | (Bad k, _) => Bad k end
  end.

Definition accepts22 (c : cfg) (tr : list (lop * lout)) : Prop := mrun22 c (minit22 c) tr = Ok.
