(* Executable model of bluetoe::link_layer::link_layer< Server, ScheduledRadio, Options... >
   (bluetoe/link_layer/include/bluetoe/link_layer.hpp) together with the parts of the headers it is
   assembled from, as seen from a scheduled radio:

     link_layer.hpp            run, adv_received, adv_timeout, timeout, end_event, try_event_cancelation, the API
                               calls, setup_next_connection_event, transmit_pending_control_pdus, reject,
                               check_timing_paremeters, parse_timing_parameters_*, force_disconnect,
                               handle_received_data, send_control_pdus, handle_ll_control_data,
                               handle_pending_ll_control, link_layer_security_impl, phy_update_request_impl
     peripheral_latency.hpp    connection_state_base (plan_next_connection_event*, move), disarmable_connection_state
     delta_time.cpp            operator+= -= *= (with their asserts), ppm
     ll_options.hpp            no_desired_connection_parameters, desired_connection_parameters<>,
                               asynchronous_connection_parameter_request<>, parse_and_check_params
     connection_callbacks.hpp  the 4 entry event ring and handle_connection_events
     ll_data_pdu_buffer.hpp    ABSTRACTED to two FIFOs and the acknowledgement state that a well behaved central
                               produces (see docs/LL_MODEL.md; the buffer itself is component PduBuf, C15-C18)
     channel_map.cpp           REUSED from ChanMap.ChanMapModel (reset_impl, tbl)
     advertising.hpp           own minimal transcription: one advertising type (connectable undirected), all three
                               channels, auto start; timing and data of advertising are component Adv (C24, C14)
     l2cap / GATT server       an oracle ([l2cap_reply]) - what a data PDU is answered with

   The code is transcribed AS IT IS. Known defects that are part of this model (DESIGN.md section 7):
     #18  handle_ll_control_data: instant checks of LL_CONNECTION_UPDATE_IND / LL_CHANNEL_MAP_IND / LL_PHY_UPDATE_IND: REPAIRED
          (branch fix/C21-instant-checks); [instant_passed] is the repaired code, used for all three; an applied procedure
          resets last_latency_ ([handle_pending_ll_control])
     #19  check_timing_paremeters: REPAIRED (branch fix/C22-connect-timing-ranges); [check_timing] is the repaired code
     #23  transmit_pending_control_pdus: LL_PHY_REQ sent without arming procedure_timeout_ ([transmit_pending_control_pdus])
     #24  handle_encryption_pdus: LL_START_ENC_RSP of size 1 set is_encrypted( true ) unconditionally: REPAIRED (branch
          fix/C28-start-enc-rsp-state); the KStartEncRsp / KPauseEnc* branches of [handle_ll_control] and [reset_encryption]
          are the repaired code
     #25  connection_callbacks: try_push result ignored, 4 entries ([push_event])
     new  handle_received_data: a PDU with LLID 1 (continuation) and non zero length is never removed from the receive
          queue in the MTU 23 configuration: everything behind it is never processed ([handle_received_data])
     new  remote_versions_request() followed by the central's LL_VERSION_IND sends a second LL_VERSION_IND
   Definitions only, no proofs. Bytes and all machine integers are N; list positions and fuel are nat. *)
From Coq Require Import NArith List Bool.
From BT Require Import Base.ListX.
From BT Require ChanMap.ChanMapModel gen.GenLL.
Import ListNotations.
Local Open Scope N_scope.

(* ------------------------------------------------------------------------------------------ machine arithmetic *)
Definition u8 (x : N) : N := x mod 256.
Definition u16 (x : N) : N := x mod 65536.
Definition u32 (x : N) : N := x mod 4294967296.
Definition u64 (x : N) : N := x mod 18446744073709551616.
Definition lo8 (x : N) : N := x mod 256.
Definition hi8 (x : N) : N := (x / 256) mod 256.
Definition bit (x m : N) : bool := negb (N.land x m =? 0).
Definition byte (b : list N) (i : nat) : N := nth i b 0.
Definition rd16 (b : list N) (i : nat) : N := byte b i + 256 * byte b (S i).
Definition rd24 (b : list N) (i : nat) : N := rd16 b i + 65536 * byte b (S (S i)).
Definition rd32 (b : list N) (i : nat) : N := rd16 b i + 65536 * rd16 b (S (S i)).
Definition rd64 (b : list N) (i : nat) : N := rd32 b i + 4294967296 * rd32 b (4 + i).
Definition slice (b : list N) (a n : nat) : list N := firstn n (skipn a b).
Fixpoint le_bytes (n : nat) (x : N) : list N :=
  match n with O => [] | S n' => (x mod 256) :: le_bytes n' (x / 256) end.
Fixpoint bytes_eqb (a b : list N) : bool :=
  match a, b with
  | [], [] => true
  | x :: a', y :: b' => (x =? y) && bytes_eqb a' b'
  | _, _ => false
  end.

(* delta_time (delta_time.cpp): std::uint32_t microseconds. None = a failing assert. *)
(* operator+=: sum = usec_ + rhs (32 bit); assert( sum >= usec_ && sum >= rhs.usec_ ) *)
Definition dt_add (a b : N) : option N :=
  let s := u32 (a + b) in if (a <=? s) && (b <=? s) then Some s else None.
(* operator-=: diff = usec_ - rhs (32 bit); assert( diff <= usec_ ) *)
Definition dt_sub (a b : N) : option N := if b <=? a then Some (a - b) else None.
(* operator*=( unsigned rhs ) *)
Definition dt_mul (usec rhs : N) : option N :=
  if (rhs =? 0) || (usec =? 0) then Some 0
  else if rhs =? 1 then Some usec
  else if usec =? 1 then Some rhs
  else let prod := u32 (usec * rhs) in
       if (usec <? prod) && (rhs <? prod) then Some prod else None.
(* ppm( part ): delta_time( ( std::uint64_t( usec_ ) * part * 140737488 ) >> 47 ), narrowed to 32 bit *)
Definition ppm (usec part : N) : N :=
  u32 (N.shiftr (u64 (usec * part * GenLL.ppm_multiplier)) GenLL.ppm_shift).

Definition obind {A B : Type} (x : option A) (f : A -> option B) : option B :=
  match x with Some a => f a | None => None end.
Notation "'do' x <- e ; f" := (obind e (fun x => f)) (at level 200, x pattern, e at level 100, f at level 200).

(* ------------------------------------------------------------------------------------------ configuration *)
(* the template options that matter here *)
Inductive cpr_mode :=
| CprNone                                              (* no_desired_connection_parameters *)
| CprDesired (imin imax lmin lmax tmin tmax : N)       (* desired_connection_parameters< ... > *)
| CprAsync.                                            (* asynchronous_connection_parameter_request< ... > *)

Record cfg := mk_cfg {
  c_phy : bool;        (* ScheduledRadio::hardware_supports_2mbit *)
  c_enc : bool;        (* requires_encryption_support_t< Server > *)
  c_sca : N;           (* sleep_clock_accuracy_ppm< > (default 500) *)
  c_cpr : cpr_mode;
  c_cb : bool;         (* connection_callbacks< > given *)
  c_lat : N;           (* peripheral_latency_configuration< >: 1 pending_transmit_data, 2 unacknowledged_data,
                          4 last_received_not_empty, 8 last_transmitted_not_empty, 16 last_received_had_more_data,
                          32 listen_always *)
  c_own : list N       (* own (random static) address, 6 bytes in air order *)
}.

Definition supported_features (c : cfg) : N :=
  GenLL.feature_connection_parameters_request_procedure + GenLL.feature_extended_reject_indication + GenLL.feature_le_ping
  + (if c_enc c then GenLL.feature_le_encryption else 0)
  + (if c_phy c then GenLL.feature_le_2m_phy_support else 0).

(* ------------------------------------------------------------------------------------------ state *)
Inductive lstate := Initial | Advertising | Connecting | Connected | Disconnecting | ConnChanged.
Definition lstate_eqb (a b : lstate) : bool :=
  match a, b with
  | Initial, Initial | Advertising, Advertising | Connecting, Connecting | Connected, Connected
  | Disconnecting, Disconnecting | ConnChanged, ConnChanged => true
  | _, _ => false
  end.

(* connection_details as reported to the callbacks: interval (1.25 ms units), latency, timeout, cumulated sca *)
Record details := mk_details { d_interval : N; d_latency : N; d_timeout : N; d_sca : N }.

Inductive cb_event :=
| EvRequested (d : details) | EvAttemptTimeout | EvEstablished (d : details) | EvChanged (d : details)
| EvClosed (reason : N) | EvVersion (v company sub : N) | EvRejected (e : N) | EvUnknown (o : N)
| EvFeatures (f : list N) | EvPhy (c_to_p p_to_c : N)
| EvCpr (imin imax lat tmo : N).   (* asynchronous_connection_parameter_request: called directly, not through the ring *)

Definition pdu : Type := (N * list N)%type.    (* LLID, body; the length field is the length of the body *)

(* what the radio sent last and the central has not yet acknowledged (it will with its next packet) *)
Inductive flight := FNone | FEmpty | FHead.

Record timing := mk_timing { tw_off : N; tw_size : N; interval : N; latency : N; timeout_value : N; conn_timeout : N }.
Definition set_tw_off (r : timing) (v : N) : timing := mk_timing v (tw_size r) (interval r) (latency r) (timeout_value r) (conn_timeout r).
Definition set_tw_size (r : timing) (v : N) : timing := mk_timing (tw_off r) v (interval r) (latency r) (timeout_value r) (conn_timeout r).
Definition set_interval (r : timing) (v : N) : timing := mk_timing (tw_off r) (tw_size r) v (latency r) (timeout_value r) (conn_timeout r).
Definition set_latency (r : timing) (v : N) : timing := mk_timing (tw_off r) (tw_size r) (interval r) v (timeout_value r) (conn_timeout r).
Definition set_timeout_value (r : timing) (v : N) : timing := mk_timing (tw_off r) (tw_size r) (interval r) (latency r) v (conn_timeout r).
Definition set_conn_timeout (r : timing) (v : N) : timing := mk_timing (tw_off r) (tw_size r) (interval r) (latency r) (timeout_value r) v.

Record cstate := mk_cstate { ch_idx : N; evc : N; tsle : N; last_lat : N }.
Definition set_ch_idx (r : cstate) (v : N) : cstate := mk_cstate v (evc r) (tsle r) (last_lat r).
Definition set_evc (r : cstate) (v : N) : cstate := mk_cstate (ch_idx r) v (tsle r) (last_lat r).
Definition set_tsle (r : cstate) (v : N) : cstate := mk_cstate (ch_idx r) (evc r) v (last_lat r).
Definition set_last_lat (r : cstate) (v : N) : cstate := mk_cstate (ch_idx r) (evc r) (tsle r) v.

Record procs := mk_procs { prop_min : N; prop_max : N; prop_lat : N; prop_to : N; cpr_pending : bool; cpr_running : bool; cpr_sig : bool; phy_pending : bool; phy_tx : N; phy_rx : N; ver_pending : bool; ver_received : bool }.
Definition set_prop_min (r : procs) (v : N) : procs := mk_procs v (prop_max r) (prop_lat r) (prop_to r) (cpr_pending r) (cpr_running r) (cpr_sig r) (phy_pending r) (phy_tx r) (phy_rx r) (ver_pending r) (ver_received r).
Definition set_prop_max (r : procs) (v : N) : procs := mk_procs (prop_min r) v (prop_lat r) (prop_to r) (cpr_pending r) (cpr_running r) (cpr_sig r) (phy_pending r) (phy_tx r) (phy_rx r) (ver_pending r) (ver_received r).
Definition set_prop_lat (r : procs) (v : N) : procs := mk_procs (prop_min r) (prop_max r) v (prop_to r) (cpr_pending r) (cpr_running r) (cpr_sig r) (phy_pending r) (phy_tx r) (phy_rx r) (ver_pending r) (ver_received r).
Definition set_prop_to (r : procs) (v : N) : procs := mk_procs (prop_min r) (prop_max r) (prop_lat r) v (cpr_pending r) (cpr_running r) (cpr_sig r) (phy_pending r) (phy_tx r) (phy_rx r) (ver_pending r) (ver_received r).
Definition set_cpr_pending (r : procs) (v : bool) : procs := mk_procs (prop_min r) (prop_max r) (prop_lat r) (prop_to r) v (cpr_running r) (cpr_sig r) (phy_pending r) (phy_tx r) (phy_rx r) (ver_pending r) (ver_received r).
Definition set_cpr_running (r : procs) (v : bool) : procs := mk_procs (prop_min r) (prop_max r) (prop_lat r) (prop_to r) (cpr_pending r) v (cpr_sig r) (phy_pending r) (phy_tx r) (phy_rx r) (ver_pending r) (ver_received r).
Definition set_cpr_sig (r : procs) (v : bool) : procs := mk_procs (prop_min r) (prop_max r) (prop_lat r) (prop_to r) (cpr_pending r) (cpr_running r) v (phy_pending r) (phy_tx r) (phy_rx r) (ver_pending r) (ver_received r).
Definition set_phy_pending (r : procs) (v : bool) : procs := mk_procs (prop_min r) (prop_max r) (prop_lat r) (prop_to r) (cpr_pending r) (cpr_running r) (cpr_sig r) v (phy_tx r) (phy_rx r) (ver_pending r) (ver_received r).
Definition set_phy_tx (r : procs) (v : N) : procs := mk_procs (prop_min r) (prop_max r) (prop_lat r) (prop_to r) (cpr_pending r) (cpr_running r) (cpr_sig r) (phy_pending r) v (phy_rx r) (ver_pending r) (ver_received r).
Definition set_phy_rx (r : procs) (v : N) : procs := mk_procs (prop_min r) (prop_max r) (prop_lat r) (prop_to r) (cpr_pending r) (cpr_running r) (cpr_sig r) (phy_pending r) (phy_tx r) v (ver_pending r) (ver_received r).
Definition set_ver_pending (r : procs) (v : bool) : procs := mk_procs (prop_min r) (prop_max r) (prop_lat r) (prop_to r) (cpr_pending r) (cpr_running r) (cpr_sig r) (phy_pending r) (phy_tx r) (phy_rx r) v (ver_received r).
Definition set_ver_received (r : procs) (v : bool) : procs := mk_procs (prop_min r) (prop_max r) (prop_lat r) (prop_to r) (cpr_pending r) (cpr_running r) (cpr_sig r) (phy_pending r) (phy_tx r) (phy_rx r) (ver_pending r) v.

Record bufs := mk_bufs { rxq : list pdu; txq : list pdu; fl : flight; stopped : bool; tx_avail : bool }.
Definition set_rxq (r : bufs) (v : list pdu) : bufs := mk_bufs v (txq r) (fl r) (stopped r) (tx_avail r).
Definition set_txq (r : bufs) (v : list pdu) : bufs := mk_bufs (rxq r) v (fl r) (stopped r) (tx_avail r).
Definition set_fl (r : bufs) (v : flight) : bufs := mk_bufs (rxq r) (txq r) v (stopped r) (tx_avail r).
Definition set_stopped (r : bufs) (v : bool) : bufs := mk_bufs (rxq r) (txq r) (fl r) v (tx_avail r).
Definition set_tx_avail (r : bufs) (v : bool) : bufs := mk_bufs (rxq r) (txq r) (fl r) (stopped r) v.

Record sec := mk_sec { has_key : bool; enc_prog : bool; is_enc : bool; key_known : bool }.
Definition set_has_key (r : sec) (v : bool) : sec := mk_sec v (enc_prog r) (is_enc r) (key_known r).
Definition set_enc_prog (r : sec) (v : bool) : sec := mk_sec (has_key r) v (is_enc r) (key_known r).
Definition set_is_enc (r : sec) (v : bool) : sec := mk_sec (has_key r) (enc_prog r) v (key_known r).
Definition set_key_known (r : sec) (v : bool) : sec := mk_sec (has_key r) (enc_prog r) (is_enc r) v.

Record acpr := mk_acpr { ap_pending : bool; ap_negative : bool; ap_min : N; ap_max : N; ap_lat : N; ap_to : N; ap_reason : N }.
Definition set_ap_pending (r : acpr) (v : bool) : acpr := mk_acpr v (ap_negative r) (ap_min r) (ap_max r) (ap_lat r) (ap_to r) (ap_reason r).
Definition set_ap_negative (r : acpr) (v : bool) : acpr := mk_acpr (ap_pending r) v (ap_min r) (ap_max r) (ap_lat r) (ap_to r) (ap_reason r).
Definition set_ap_min (r : acpr) (v : N) : acpr := mk_acpr (ap_pending r) (ap_negative r) v (ap_max r) (ap_lat r) (ap_to r) (ap_reason r).
Definition set_ap_max (r : acpr) (v : N) : acpr := mk_acpr (ap_pending r) (ap_negative r) (ap_min r) v (ap_lat r) (ap_to r) (ap_reason r).
Definition set_ap_lat (r : acpr) (v : N) : acpr := mk_acpr (ap_pending r) (ap_negative r) (ap_min r) (ap_max r) v (ap_to r) (ap_reason r).
Definition set_ap_to (r : acpr) (v : N) : acpr := mk_acpr (ap_pending r) (ap_negative r) (ap_min r) (ap_max r) (ap_lat r) v (ap_reason r).
Definition set_ap_reason (r : acpr) (v : N) : acpr := mk_acpr (ap_pending r) (ap_negative r) (ap_min r) (ap_max r) (ap_lat r) (ap_to r) v.

Record lstate_t := mk_state { st : lstate; adv_ch : N; chan : ChanMapModel.state; sca : N; tm : timing; cs : cstate; proc_timeout : N; def_instant : N; deferred : option (list N); term_sent : bool; used_features : N; pending_event : bool; disc_reason : N; pr : procs; bf : bufs; sc : sec; ac : acpr; ring : list cb_event }.
Definition set_st (r : lstate_t) (v : lstate) : lstate_t := mk_state v (adv_ch r) (chan r) (sca r) (tm r) (cs r) (proc_timeout r) (def_instant r) (deferred r) (term_sent r) (used_features r) (pending_event r) (disc_reason r) (pr r) (bf r) (sc r) (ac r) (ring r).
Definition set_adv_ch (r : lstate_t) (v : N) : lstate_t := mk_state (st r) v (chan r) (sca r) (tm r) (cs r) (proc_timeout r) (def_instant r) (deferred r) (term_sent r) (used_features r) (pending_event r) (disc_reason r) (pr r) (bf r) (sc r) (ac r) (ring r).
Definition set_chan (r : lstate_t) (v : ChanMapModel.state) : lstate_t := mk_state (st r) (adv_ch r) v (sca r) (tm r) (cs r) (proc_timeout r) (def_instant r) (deferred r) (term_sent r) (used_features r) (pending_event r) (disc_reason r) (pr r) (bf r) (sc r) (ac r) (ring r).
Definition set_sca (r : lstate_t) (v : N) : lstate_t := mk_state (st r) (adv_ch r) (chan r) v (tm r) (cs r) (proc_timeout r) (def_instant r) (deferred r) (term_sent r) (used_features r) (pending_event r) (disc_reason r) (pr r) (bf r) (sc r) (ac r) (ring r).
Definition set_tm (r : lstate_t) (v : timing) : lstate_t := mk_state (st r) (adv_ch r) (chan r) (sca r) v (cs r) (proc_timeout r) (def_instant r) (deferred r) (term_sent r) (used_features r) (pending_event r) (disc_reason r) (pr r) (bf r) (sc r) (ac r) (ring r).
Definition set_cs (r : lstate_t) (v : cstate) : lstate_t := mk_state (st r) (adv_ch r) (chan r) (sca r) (tm r) v (proc_timeout r) (def_instant r) (deferred r) (term_sent r) (used_features r) (pending_event r) (disc_reason r) (pr r) (bf r) (sc r) (ac r) (ring r).
Definition set_proc_timeout (r : lstate_t) (v : N) : lstate_t := mk_state (st r) (adv_ch r) (chan r) (sca r) (tm r) (cs r) v (def_instant r) (deferred r) (term_sent r) (used_features r) (pending_event r) (disc_reason r) (pr r) (bf r) (sc r) (ac r) (ring r).
Definition set_def_instant (r : lstate_t) (v : N) : lstate_t := mk_state (st r) (adv_ch r) (chan r) (sca r) (tm r) (cs r) (proc_timeout r) v (deferred r) (term_sent r) (used_features r) (pending_event r) (disc_reason r) (pr r) (bf r) (sc r) (ac r) (ring r).
Definition set_deferred (r : lstate_t) (v : option (list N)) : lstate_t := mk_state (st r) (adv_ch r) (chan r) (sca r) (tm r) (cs r) (proc_timeout r) (def_instant r) v (term_sent r) (used_features r) (pending_event r) (disc_reason r) (pr r) (bf r) (sc r) (ac r) (ring r).
Definition set_term_sent (r : lstate_t) (v : bool) : lstate_t := mk_state (st r) (adv_ch r) (chan r) (sca r) (tm r) (cs r) (proc_timeout r) (def_instant r) (deferred r) v (used_features r) (pending_event r) (disc_reason r) (pr r) (bf r) (sc r) (ac r) (ring r).
Definition set_used_features (r : lstate_t) (v : N) : lstate_t := mk_state (st r) (adv_ch r) (chan r) (sca r) (tm r) (cs r) (proc_timeout r) (def_instant r) (deferred r) (term_sent r) v (pending_event r) (disc_reason r) (pr r) (bf r) (sc r) (ac r) (ring r).
Definition set_pending_event (r : lstate_t) (v : bool) : lstate_t := mk_state (st r) (adv_ch r) (chan r) (sca r) (tm r) (cs r) (proc_timeout r) (def_instant r) (deferred r) (term_sent r) (used_features r) v (disc_reason r) (pr r) (bf r) (sc r) (ac r) (ring r).
Definition set_disc_reason (r : lstate_t) (v : N) : lstate_t := mk_state (st r) (adv_ch r) (chan r) (sca r) (tm r) (cs r) (proc_timeout r) (def_instant r) (deferred r) (term_sent r) (used_features r) (pending_event r) v (pr r) (bf r) (sc r) (ac r) (ring r).
Definition set_pr (r : lstate_t) (v : procs) : lstate_t := mk_state (st r) (adv_ch r) (chan r) (sca r) (tm r) (cs r) (proc_timeout r) (def_instant r) (deferred r) (term_sent r) (used_features r) (pending_event r) (disc_reason r) v (bf r) (sc r) (ac r) (ring r).
Definition set_bf (r : lstate_t) (v : bufs) : lstate_t := mk_state (st r) (adv_ch r) (chan r) (sca r) (tm r) (cs r) (proc_timeout r) (def_instant r) (deferred r) (term_sent r) (used_features r) (pending_event r) (disc_reason r) (pr r) v (sc r) (ac r) (ring r).
Definition set_sc (r : lstate_t) (v : sec) : lstate_t := mk_state (st r) (adv_ch r) (chan r) (sca r) (tm r) (cs r) (proc_timeout r) (def_instant r) (deferred r) (term_sent r) (used_features r) (pending_event r) (disc_reason r) (pr r) (bf r) v (ac r) (ring r).
Definition set_ac (r : lstate_t) (v : acpr) : lstate_t := mk_state (st r) (adv_ch r) (chan r) (sca r) (tm r) (cs r) (proc_timeout r) (def_instant r) (deferred r) (term_sent r) (used_features r) (pending_event r) (disc_reason r) (pr r) (bf r) (sc r) v (ring r).
Definition set_ring (r : lstate_t) (v : list cb_event) : lstate_t := mk_state (st r) (adv_ch r) (chan r) (sca r) (tm r) (cs r) (proc_timeout r) (def_instant r) (deferred r) (term_sent r) (used_features r) (pending_event r) (disc_reason r) (pr r) (bf r) (sc r) (ac r) v.

(* ------------------------------------------------------------------------------------------ outputs *)
Inductive item :=
| ITx (llid : N) (body : list N)      (* tx:   PDU handed to the air *)
| IAdv (ch : N)                       (* adv:  schedule_advertisment *)
| IAa (aa crc : N)                    (* aa:   set_access_address_and_crc_init *)
| ICe (ch start stop ival : N)        (* ce:   schedule_connection_event *)
| IPhy (c_to_p p_to_c : N)            (* phy:  radio_set_phy *)
| IEncRx (on : bool) | IEncTx (on : bool)
| ICb (e : cb_event)
| IRet (b : bool)
| IDisarm
| IFindKey (ediv rand : N)
| ISetup (key : list N) (skdm ivm : N)
| ISt (s : lstate) (evc chidx tsle ptimeout used : N) (defop : option N) (instant : N) (flags : list bool).

Inductive lout := OItems (l : list item) | OPre | OBadOp | OCrash.

Inductive lop :=
| Run | AdvTimeout | Adv (hdr0 : N) (body : list N) | Ev (evts : N) (pdus : list pdu) | Timeout
| Disconnect (reason : option N) | Cpu (a b c d : N) | Cpr (a b c d : N) | PhyReq (t r : N) | VerReq
| TxAvail (b : bool) | Cancel (b : bool) (us : N) | CprReply (a b c d : N) | CprNeg (r : N) | Key (b : bool) | St.

(* ------------------------------------------------------------------------------------------ initial lstate_t *)
Definition advertising_access_address : N := 2391391958.   (* 0x8E89BED6 *)
Definition advertising_crc_init : N := 5592405.            (* 0x555555 *)

Definition linit (c : cfg) : lstate_t :=
  mk_state Initial GenLL.first_advertising_channel ChanMapModel.init 0
    (mk_timing 0 0 0 0 0 0) (mk_cstate 0 0 0 1) 0 0 None false (supported_features c) false 0
    (mk_procs 0 0 0 0 false false false false 0 0 false false)
    (mk_bufs [] [] FNone false true) (mk_sec false false false false) (mk_acpr false false 0 0 0 0 0) [].

Definition upd_tm (s : lstate_t) (f : timing -> timing) : lstate_t := set_tm s (f (tm s)).
Definition upd_cs (s : lstate_t) (f : cstate -> cstate) : lstate_t := set_cs s (f (cs s)).
Definition upd_pr (s : lstate_t) (f : procs -> procs) : lstate_t := set_pr s (f (pr s)).
Definition upd_bf (s : lstate_t) (f : bufs -> bufs) : lstate_t := set_bf s (f (bf s)).
Definition upd_sc (s : lstate_t) (f : sec -> sec) : lstate_t := set_sc s (f (sc s)).
Definition upd_ac (s : lstate_t) (f : acpr -> acpr) : lstate_t := set_ac s (f (ac s)).

Definition in_connection (s : lstate_t) : bool :=
  match st s with Connecting | Connected | Disconnecting | ConnChanged => true | _ => false end.

(* details() *)
Definition details_of (s : lstate_t) : details :=
  mk_details (interval (tm s) / GenLL.us_per_digits) (latency (tm s)) (timeout_value (tm s)) (sca s).

(* ------------------------------------------------------------------------------------------ callbacks *)
(* connection_callbacks<>::events_.try_push( data ): ring< max_events, event_data >; the result is ignored *)
Definition push_event (c : cfg) (s : lstate_t) (e : cb_event) : lstate_t :=
  if c_cb c then
    if N.of_nat (length (ring s)) <? GenLL.max_events then set_ring s (ring s ++ [e]) else s
  else s.

(* handle_connection_events(): pop everything and call the user *)
Definition flush_events (s : lstate_t) : lstate_t * list item := (set_ring s [], map ICb (ring s)).

(* ------------------------------------------------------------------------------------------ buffers *)
Definition pending_outgoing_data_available (s : lstate_t) : bool := match txq (bf s) with [] => false | _ => true end.

(* allocate_ll_transmit_buffer( n ) / allocate_l2cap_transmit_buffer: size != 0 ? *)
Definition tx_buffer_available (s : lstate_t) : bool := tx_avail (bf s).

(* commit_ll_transmit_buffer / commit_transmit_buffer: ignored once stop_ll_pdu_buffer() was called *)
Definition commit (s : lstate_t) (p : pdu) : lstate_t :=
  if stopped (bf s) then s else upd_bf s (fun b => set_txq b (txq b ++ [p])).
Definition commit_ctrl (s : lstate_t) (body : list N) : lstate_t := commit s (GenLL.ll_control_pdu_code, body).

(* ll_data_pdu_buffer::received( pdu ) for a packet of a central that acknowledges everything:
   acknowledge(); push the PDU if it has a length and a LLID; next_transmit() *)
Definition radio_exchange (s : lstate_t) (rx : option pdu) : lstate_t * list item * bool :=
  let b := bf s in
  let tq := match fl b with FHead => tl (txq b) | _ => txq b end in
  let rq := match rx with
            | Some (llid, body) =>
                if negb (N.of_nat (length body) =? 0) && negb (N.land llid 3 =? 0) then rxq b ++ [(N.land llid 3, body)] else rxq b
            | None => rxq b
            end in
  match tq with
  | [] => (set_bf s (mk_bufs rq tq FEmpty (stopped b) (tx_avail b)), [], false)
  | (llid, body) :: rest =>
      (set_bf s (mk_bufs rq tq FHead (stopped b) (tx_avail b)), [ITx llid body],
       match rest with [] => false | _ => true end)
  end.

(* the radio's part of a connection event: one exchange per PDU of the central (at least one), continued while
   the peripheral signals more data. [fuel] bounds the number of exchanges (length pdus + length txq + 1 suffice) *)
Fixpoint radio_event (fuel : nat) (s : lstate_t) (pdus : list pdu) : lstate_t * list item :=
  match fuel with
  | O => (s, [])
  | S fuel' =>
      let '(s1, it, md) := radio_exchange s (hd_error pdus) in
      let rest := tl pdus in
      if match rest with [] => md | _ => true end
      then let '(s2, it2) := radio_event fuel' s1 rest in (s2, it ++ it2)
      else (s1, it)
  end.

(* ------------------------------------------------------------------------------------------ L2CAP oracle *)
(* What l2cap< ... >::handle_l2cap_input does with the body of a LLID 2 PDU (plain GATT server, no security
   manager, no signaling channel): L2Drop = swallowed without looking for a buffer; L2Reply r = needs an output
   buffer, r = the L2CAP frame committed (if any). Only what the generators use is specified: ATT Exchange MTU
   Request -> Response( 23 ). *)
Inductive l2result := L2Drop | L2Reply (r : option (list N)).
Definition l2cap_reply (body : list N) : l2result :=
  if N.of_nat (length body) <? 4 then L2Drop
  else if negb (N.of_nat (length body) =? rd16 body 0 + 4) then L2Drop
  else if (rd16 body 2 =? 4) && (rd16 body 0 =? 3) && (byte body 4 =? 2)
       then L2Reply (Some [3; 0; 4; 0; 3; 23; 0])
       else L2Reply None.

(* The same for the GATT server of the variant with encryption support (harness: secret_server, one characteristic
   with requires_encryption, value handle 3, value 0x17), given connection_data_.is_encrypted(): the ATT Read Request
   of handle 3 is answered with the value on an encrypted link and with Error Response( insufficient authentication )
   otherwise (property C28's probe). *)
Definition att_read_secret : list N := [3; 0; 4; 0; 10; 3; 0].
Definition l2cap_reply_enc (encrypted : bool) (body : list N) : l2result :=
  if bytes_eqb body att_read_secret
  then L2Reply (Some (if encrypted then [2; 0; 4; 0; 11; 23] else [5; 0; 4; 0; 1; 10; 3; 0; 5]))
  else l2cap_reply body.

(* ------------------------------------------------------------------------------------------ timing parameters *)
(* check_timing_paremeters() AFTER the repair fix/C22-connect-timing-ranges (DESIGN.md section 7 #19): latency and
   interval range are checked first, then the window size 1.25 ms .. min( 10 ms, interval ), the supervision timeout
   100 ms .. 32 s and timeout > ( latency + 1 ) * 2 * interval. None = an assert of delta_time::operator*= fails;
   with the range checks in front this can no longer happen (LLProofs.check_timing_total).
   Before the repair: no interval range, no lower bound of the window size, >= instead of >, and the product was
   computed before the latency check (32 bit overflow: assert in debug builds, a wrapped value otherwise). *)
Definition minimum_connection_interval : N := 6 * GenLL.us_per_digits.
Definition maximum_connection_interval : N := 3200 * GenLL.us_per_digits.
Definition minimum_transmit_window_size : N := GenLL.us_per_digits.

Definition check_timing (t : timing) : option bool :=
  if (latency t <=? 499)
     && (minimum_connection_interval <=? interval t)
     && (interval t <=? maximum_connection_interval)
     && (minimum_transmit_window_size <=? tw_size t)
     && (tw_size t <=? GenLL.maximum_transmit_window_offset)
     && (tw_size t <=? interval t)
     && (GenLL.minimum_connection_timeout <=? conn_timeout t)
     && (conn_timeout t <=? GenLL.maximum_connection_timeout)
  then
    do p <- dt_mul (interval t) ((latency t + 1) * 2);
    Some (p <? conn_timeout t)
  else Some false.

(* parse_timing_parameters_from_connect_request( body ): the members are assigned even if the result is false *)
Definition parse_connect (body : list N) : timing * option bool :=
  let off := rd16 body 20 * GenLL.us_per_digits in
  let t := mk_timing (rd16 body 20 * GenLL.us_per_digits + GenLL.us_per_digits)
                     (byte body 19 * GenLL.us_per_digits)
                     (rd16 body 22 * GenLL.us_per_digits)
                     (rd16 body 24) (rd16 body 26) (rd16 body 26 * 10000) in
  (t, if off <=? interval t then check_timing t else Some false).

(* parse_timing_parameters_from_connection_update_request( body ), body[ 0 ] = opcode *)
Definition parse_update (body : list N) : timing * option bool :=
  let t := mk_timing (rd16 body 2 * GenLL.us_per_digits)
                     (byte body 1 * GenLL.us_per_digits)
                     (rd16 body 4 * GenLL.us_per_digits)
                     (rd16 body 6) (rd16 body 8) (rd16 body 8 * 10000) in
  (t, if tw_off t <=? interval t then check_timing t else Some false).

(* sleep_clock_accuracy( body ) *)
Definition sleep_clock_accuracy (body : list N) : N :=
  nth (N.to_nat (N.land (N.shiftr (byte body 33) 5) 7)) GenLL.inaccuracy_ppm 0.

(* ------------------------------------------------------------------------------------------ scheduling *)
Definition data_channel (s : lstate_t) : N := nth (N.to_nat (ch_idx (cs s))) (ChanMapModel.tbl (chan s)) 0.

(* setup_next_connection_event() *)
Definition setup_next_connection_event (s : lstate_t) : option (lstate_t * list item) :=
  let t := tsle (cs s) in
  let a := sca s in
  do w <- (if negb (tw_size (tm s) =? 0) then
             do ws <- dt_add t (tw_off (tm s));
             do we <- dt_add ws (tw_size (tm s));
             do ws' <- dt_sub ws (ppm ws a);
             do we' <- dt_add we (ppm we a);
             Some (ws', we')
           else
             let wsz := ppm t a in
             do ws <- dt_sub t wsz;
             do we <- dt_add t wsz;
             Some (ws, we));
  let '(ws, we) := w in
  Some (set_pending_event s true, [ICe (data_channel s) ws we (interval (tm s))]).

(* connection_state_base::plan_next_connection_event_after_timeout *)
Definition plan_after_timeout (s : lstate_t) : option lstate_t :=
  do t <- dt_add (tsle (cs s)) (interval (tm s));
  Some (upd_cs s (fun c => mk_cstate ((ch_idx c + 1) mod 37) (u16 (evc c + 1)) t (last_lat c))).

Definition disarmable (c : cfg) : bool := bit (c_lat c) 1.

(* connection_state_base::plan_next_connection_event( latency, evts, interval, pending_instant ) *)
Definition plan_next_connection_event (c : cfg) (s : lstate_t) (evts : N) : option lstate_t :=
  let f := c_lat c in
  let listen := (bit f 2 && bit evts 1) || (bit f 4 && bit evts 2) || (bit f 8 && bit evts 4)
                || (bit f 16 && bit evts 8) || (bit f 1 && bit evts 16) || bit f 32 || bit evts 32 in
  let l0 := u16 ((if listen then 0 else latency (tm s)) + 1) in
  let e := evc (cs s) in
  let l := match deferred s with
           | Some _ =>
               let inst := def_instant s in
               let dist := if e <? inst then inst - e else u16 (inst + 65536 - e) in
               if 0 <? dist then N.min l0 dist else l0
           | None => l0
           end in
  do t <- dt_mul (interval (tm s)) l;
  (* disarmable_connection_state_last_latency( l ): assert( l > 0 ) *)
  if disarmable c && (l =? 0) then None
  else Some (set_cs s (mk_cstate ((ch_idx (cs s) + l) mod 37) (u16 (e + l)) t (if disarmable c then l else last_lat (cs s)))).

(* ------------------------------------------------------------------------------------------ advertising (minimal) *)
Definition next_adv_channel (ch : N) : N := if ch =? 39 then 37 else ch + 1.

(* handle_start_advertising(): every (re)start of advertising begins a new advertising event on the first channel
   (first_channel(); since the repair of C24's restart finding) *)
Definition handle_start_advertising (s : lstate_t) : lstate_t * list item :=
  let ch := GenLL.first_advertising_channel in
  (set_adv_ch s ch, [IAa advertising_access_address advertising_crc_init; IAdv ch]).

(* handle_adv_timeout() *)
Definition handle_adv_timeout (s : lstate_t) : lstate_t * list item :=
  let ch := next_adv_channel (adv_ch s) in (set_adv_ch s ch, [IAdv ch]).

(* start_advertising_impl() *)
Definition start_advertising_impl (s : lstate_t) : lstate_t * list item :=
  handle_start_advertising (set_deferred (set_st s Advertising) None).

(* advertising_type_base::is_valid_connect_request (default layout, random own address; the harness makes the
   length byte equal to the body size) *)
Definition valid_connect_request (c : cfg) (hdr0 : N) (body : list N) : bool :=
  (N.of_nat (length body) =? 34) && (N.land hdr0 15 =? 5)
  && bytes_eqb (slice body 6 6) (c_own c) && bit hdr0 128.

(* ------------------------------------------------------------------------------------------ disconnecting *)
(* link_layer_security_impl::reset_encryption() *)
Definition reset_encryption (c : cfg) (s : lstate_t) : lstate_t * list item :=
  if c_enc c then (upd_sc s (fun x => set_is_enc (set_enc_prog (set_has_key x false) false) false), [IEncRx false; IEncTx false]) else (s, []).

(* phy_update_request_impl::reset_phy *)
Definition reset_phy (c : cfg) : list item := if c_phy c then [IPhy 1 1] else [].

(* force_disconnect() *)
Definition force_disconnect (c : cfg) (s : lstate_t) : lstate_t * list item :=
  let '(s1, i1) := reset_encryption c s in
  let s2 := match st s1 with
            | Connecting => push_event c s1 EvAttemptTimeout
            | _ => push_event c s1 (EvClosed (disc_reason s1))
            end in
  let '(s3, i3) := start_advertising_impl s2 in
  (s3, i1 ++ reset_phy c ++ i3).

Definition force_disconnect_reason (c : cfg) (s : lstate_t) (r : N) : lstate_t * list item :=
  force_disconnect c (set_disc_reason s r).

(* ------------------------------------------------------------------------------------------ control PDUs *)
(* reject( opcode, error_code, output ) *)
Definition reject_pdu (s : lstate_t) (opcode err : N) : list N :=
  if bit (used_features s) GenLL.feature_extended_reject_indication
  then [GenLL.LL_REJECT_EXT_IND; opcode; err] else [GenLL.LL_REJECT_IND; err].

(* desired_connection_parameters_base::parse_and_check_params: true = parameters acceptable *)
Definition cpr_params_ok (body : list N) : bool :=
  let mi := rd16 body 1 in let ma := rd16 body 3 in let la := rd16 body 5 in
  negb ((ma <? mi) || (mi <? GenLL.interval_minimum) || (GenLL.interval_maximum <? ma) || (GenLL.latency_maximum <? la)).

Definition cpr_reject : list N :=
  [GenLL.LL_REJECT_EXT_IND; GenLL.LL_CONNECTION_PARAM_REQ; GenLL.invalid_ll_paramerters].

(* handle_connection_parameters_request< layout >( pdu, write, details() ): ( response to commit, callback ) *)
Definition handle_cpr (c : cfg) (s : lstate_t) (body : list N) : option (list N) * list item :=
  if negb (cpr_params_ok body) then (Some cpr_reject, [])
  else
    match c_cpr c with
    | CprNone => (Some (GenLL.LL_CONNECTION_PARAM_RSP :: slice body 1 23), [])
    | CprDesired imin imax lmin lmax tmin tmax =>
        let mi := N.max (rd16 body 1) imin in
        let ma := N.min (rd16 body 3) imax in
        let '(mi, ma) := if ma <? mi then (imin, imax) else (mi, ma) in
        let la := rd16 body 5 in
        let la := if (la <? lmin) || (lmax <? la) then (lmin + lmax) / 2 else la in
        let tmo := rd16 body 7 in
        let tmo := if (tmo <? tmin) || (tmax <? tmo) then (tmin + tmax) / 2 else tmo in
        (Some ([GenLL.LL_CONNECTION_PARAM_RSP; lo8 mi; hi8 mi; lo8 ma; hi8 ma; lo8 la; hi8 la; lo8 tmo; hi8 tmo] ++ slice body 9 15), [])
    | CprAsync =>
        let d := details_of s in
        if (rd16 body 1 =? rd16 body 3) && (rd16 body 1 =? u16 (d_interval d))
           && (rd16 body 5 =? d_latency d) && (rd16 body 7 =? d_timeout d)
        then (Some (GenLL.LL_CONNECTION_PARAM_RSP :: slice body 1 23), [])
        else (None, [ICb (EvCpr (rd16 body 1) (rd16 body 3) (rd16 body 5) (rd16 body 7))])
    end.

Inductive ll_result := GoAhead | DoDisconnect.

(* instant_passed( instant ) AFTER the repair fix/C21-instant-checks (defect #18): distance = uint16( instant - counter );
   distance == 0 || distance >= 32767. Used by all three instant checks of handle_ll_control_data.
   Before the repair: update  bit (u16 (inst + 65536 - evc + 1)) 32768 || (inst =? evc + 1),  map  bit (u16 (inst + 65536 - evc)) 32768,
   LL_PHY_UPDATE_IND no check.
   The connection update still refuses the instant of the NEXT event ( || instant == counter + 1, an int: no wrap at
   65535 ) - kept by the repair because the repository's test connection_update_request_invalid_instance demands it;
   C21 known finding. *)
Definition instant_passed (inst evc : N) : bool :=
  let d := u16 (inst + 65536 - evc) in (d =? 0) || (32767 <=? d).
Definition instant_passed_update (inst evc : N) : bool := instant_passed inst evc || (inst =? evc + 1).
Definition instant_passed_map (inst evc : N) : bool := instant_passed inst evc.

Definition valid_phy_encoding (x : N) : bool := (x =? 0) || (x =? 1) || (x =? 2).

Definition skds_bytes : list N := le_bytes 8 4588079574517394006.   (* 0x3fac22107855aa56: what the scripted radio answers *)
Definition ivs_bytes : list N := le_bytes 4 2018915346.              (* 0x78563412 *)
Definition toy_key : list N := [1; 128; 2; 112; 3; 96; 4; 80; 5; 64; 6; 48; 7; 32; 8; 16].
Definition zero_key : list N := repeat 0 16.

(* connection_changed( details(), ... ) after a change of the encryption lstate_t *)
Definition encryption_changed (c : cfg) (s : lstate_t) (changed : bool) : lstate_t :=
  if changed then push_event c s (EvChanged (details_of s)) else s.

(* The if-chain of handle_ll_control_data() (with handle_encryption_pdus() and handle_phy_request() that it falls
   through to) tests nothing but opcode, size, version_indication_received_ and compile time options. [ctrl_kind]
   is that chain; [handle_ll_control] does what the selected branch does. *)
Inductive kind :=
| KUpdate | KTerminate | KVersion | KChannelMap | KPing | KFeature | KUnknownRsp | KRejectInd | KRejectExt | KCpr
| KEncReq | KStartEncRsp | KPauseEncReq | KPauseEncRsp | KPhyReq | KPhyUpdate
| KUnknown        (* the final  else if ( opcode != LL_UNKNOWN_RSP ): answered with LL_UNKNOWN_RSP *)
| KIgnore.        (* LL_UNKNOWN_RSP of a size other than 2: commit = false *)

Definition ctrl_kind_b (phy enc version_received : bool) (opcode size : N) : kind :=
  if (opcode =? GenLL.LL_CONNECTION_UPDATE_IND) && (size =? 12) then KUpdate
  else if (opcode =? GenLL.LL_TERMINATE_IND) && (size =? 2) then KTerminate
  else if (opcode =? GenLL.LL_VERSION_IND) && (size =? 6) && negb version_received then KVersion
  else if (opcode =? GenLL.LL_CHANNEL_MAP_REQ) && (size =? 8) then KChannelMap
  else if (opcode =? GenLL.LL_PING_REQ) && (size =? 1) then KPing
  else if (opcode =? GenLL.LL_FEATURE_REQ) && (size =? 9) then KFeature
  else if (opcode =? GenLL.LL_UNKNOWN_RSP) && (size =? 2) then KUnknownRsp
  else if (opcode =? GenLL.LL_REJECT_IND) && (size =? 2) then KRejectInd
  else if (opcode =? GenLL.LL_REJECT_EXT_IND) && (size =? 3) then KRejectExt
  else if (opcode =? GenLL.LL_CONNECTION_PARAM_REQ) && (size =? 24) then KCpr
  (* handle_encryption_pdus *)
  else if enc && (opcode =? GenLL.LL_ENC_REQ) && (size =? 23) then KEncReq
  else if enc && (opcode =? GenLL.LL_START_ENC_RSP) && (size =? 1) then KStartEncRsp
  else if enc && (opcode =? GenLL.LL_PAUSE_ENC_REQ) && (size =? 1) then KPauseEncReq
  else if enc && (opcode =? GenLL.LL_PAUSE_ENC_RSP) && (size =? 1) then KPauseEncRsp
  (* handle_phy_request *)
  else if phy && (opcode =? GenLL.LL_PHY_REQ) && (size =? 3) then KPhyReq
  else if phy && (opcode =? GenLL.LL_PHY_UPDATE_IND) && (size =? 5) then KPhyUpdate
  else if negb (opcode =? GenLL.LL_UNKNOWN_RSP) then KUnknown
  else KIgnore.

Definition ctrl_kind (c : cfg) (version_received : bool) (opcode size : N) : kind :=
  ctrl_kind_b (c_phy c) (c_enc c) version_received opcode size.

Definition clear_cpr_feature (s : lstate_t) : lstate_t :=
  set_used_features s (N.land (used_features s) (65535 - GenLL.feature_connection_parameters_request_procedure)).

Definition version_ind_pdu : list N :=
  [GenLL.LL_VERSION_IND; GenLL.LL_VERSION_NR; lo8 GenLL.company_identifier; hi8 GenLL.company_identifier; 0; 0].

(* the shared branch for LL_UNKNOWN_RSP / LL_REJECT_IND / LL_REJECT_EXT_IND *)
Definition handle_reject (c : cfg) (s : lstate_t) (opcode : N) (body : list N) : lstate_t :=
  let contains_request := (opcode =? GenLL.LL_UNKNOWN_RSP) || (opcode =? GenLL.LL_REJECT_EXT_IND) in
  let s1 :=
    if negb contains_request || (byte body 1 =? GenLL.LL_CONNECTION_PARAM_REQ) then
      let s1 := set_proc_timeout s 0 in
      (* signaling_channel_t::connection_parameter_update_request(): no_signaling_channel returns false *)
      let s2 := if cpr_running (pr s1) && cpr_sig (pr s1)
                then upd_pr s1 (fun p => set_cpr_running (set_cpr_sig p false) false) else s1 in
      if opcode =? GenLL.LL_UNKNOWN_RSP then clear_cpr_feature s2 else s2
    else s in
  if negb (opcode =? GenLL.LL_UNKNOWN_RSP)
  then push_event c s1 (EvRejected (if opcode =? GenLL.LL_REJECT_IND then byte body 1 else byte body 2))
  else push_event c s1 (EvUnknown (byte body 1)).

(* handle_ll_control_data( pdu, write ): state, items, result. The PDU has LLID 3 and size = length body > 0. *)
Definition handle_ll_control (c : cfg) (s : lstate_t) (body : list N) : lstate_t * list item * ll_result :=
  let size := N.of_nat (length body) in
  let opcode := if 0 <? size then byte body 0 else 255 in
  let evc := evc (cs s) in
  match ctrl_kind c (ver_received (pr s)) opcode size with
  | KUpdate =>
      let inst := rd16 body 10 in
      let s1 := set_def_instant s inst in
      if instant_passed_update inst evc
      then (set_disc_reason s1 GenLL.connection_instant_passed, [], DoDisconnect)
      else (set_deferred s1 (Some body), [], GoAhead)
  | KTerminate => (set_disc_reason s (byte body 1), [], DoDisconnect)
  | KVersion =>
      let s1 := set_proc_timeout s 0 in
      let s2 := if byte body 1 <=? GenLL.LL_VERSION_40 then clear_cpr_feature s1 else s1 in
      let s3 := push_event c s2 (EvVersion (byte body 1) (rd16 body 2) (rd16 body 4)) in
      let s4 := upd_pr s3 (fun p => set_ver_received p true) in
      (commit_ctrl s4 version_ind_pdu, [], GoAhead)
  | KChannelMap =>
      let inst := rd16 body 6 in
      let s1 := set_def_instant s inst in
      if instant_passed_map inst evc
      then (set_disc_reason s1 GenLL.connection_instant_passed, [], DoDisconnect)
      else (set_deferred s1 (Some body), [], GoAhead)
  | KPing => (commit_ctrl s [GenLL.LL_PING_RSP], [], GoAhead)
  | KFeature =>
      let s1 := set_used_features s (N.land (used_features s) (rd16 body 1)) in
      let s2 := push_event c s1 (EvFeatures (slice body 1 8)) in
      (commit_ctrl s2 [GenLL.LL_FEATURE_RSP; lo8 (used_features s1); hi8 (supported_features c); 0; 0; 0; 0; 0; 0], [], GoAhead)
  | KUnknownRsp | KRejectInd | KRejectExt => (handle_reject c s opcode body, [], GoAhead)
  | KCpr =>
      let '(rsp, it) := handle_cpr c s body in
      (match rsp with Some r => commit_ctrl s r | None => s end, it, GoAhead)
  | KEncReq =>
      let known := key_known (sc s) in
      let s1 := upd_sc s (fun x => set_has_key (set_enc_prog x true) known) in
      (commit_ctrl s1 (GenLL.LL_ENC_RSP :: skds_bytes ++ ivs_bytes),
       [IFindKey (rd16 body 9) (rd64 body 1); ISetup (if known then toy_key else zero_key) (rd64 body 11) (rd32 body 19)], GoAhead)
  | KStartEncRsp =>
      (* defect #24 REPAIRED (fix/C28-start-enc-rsp-state): only accepted as the answer to a LL_START_ENC_REQ that was
         sent for a key found by the LL_ENC_REQ of this procedure ( has_key_ && !encryption_in_progress_ ); otherwise
         handle_encryption_pdus() returns false: the chain goes on to the final else-if *)
      if has_key (sc s) && negb (enc_prog (sc s)) then
        let changed := negb (is_enc (sc s)) in
        let s1 := upd_sc s (fun x => set_is_enc (set_has_key x false) true) in
        let s2 := encryption_changed c s1 changed in
        (commit_ctrl s2 [GenLL.LL_START_ENC_RSP], [IEncTx true], GoAhead)
      else (commit_ctrl s [GenLL.LL_UNKNOWN_RSP; opcode], [], GoAhead)
  | KPauseEncReq =>
      let changed := is_enc (sc s) in
      let s1 := upd_sc s (fun x => set_is_enc (set_has_key x false) false) in
      let s2 := encryption_changed c s1 changed in
      (commit_ctrl s2 [GenLL.LL_PAUSE_ENC_RSP], [IEncRx false], GoAhead)
  | KPauseEncRsp =>
      let changed := is_enc (sc s) in
      let s1 := upd_sc s (fun x => set_is_enc (set_has_key x false) false) in
      (encryption_changed c s1 changed, [IEncTx false], GoAhead)
  | KPhyReq => (commit_ctrl s [GenLL.LL_PHY_RSP; 3; 3], [], GoAhead)
  | KPhyUpdate =>
      if valid_phy_encoding (byte body 1) && valid_phy_encoding (byte body 2) then
        if (byte body 1 =? 0) && (byte body 2 =? 0)
        then (push_event c s (EvPhy 0 0), [], GoAhead)
        else if instant_passed (rd16 body 3) evc     (* repaired (fix/C21-instant-checks); before: no instant check *)
        then (set_disc_reason (set_def_instant (set_deferred s (Some body)) (rd16 body 3)) GenLL.connection_instant_passed, [], DoDisconnect)
        else (set_def_instant (set_deferred s (Some body)) (rd16 body 3), [], GoAhead)
      else (* handle_phy_request() returns false: the chain goes on to the final else-if *)
        (commit_ctrl s [GenLL.LL_UNKNOWN_RSP; opcode], [], GoAhead)
  | KUnknown => (commit_ctrl s [GenLL.LL_UNKNOWN_RSP; opcode], [], GoAhead)
  | KIgnore => (s, [], GoAhead)
  end.

(* handle_pending_ll_control( connection_event_counter() ) *)
Definition handle_pending_ll_control (c : cfg) (s : lstate_t) : option (lstate_t * list item * ll_result) :=
  match deferred s with
  | Some body =>
      if def_instant s =? evc (cs s) then
        let opcode := byte body 0 in
        (* repaired (fix/C21-instant-checks): disarmable_connection_state_last_latency( 1 ) once a procedure is applied *)
        let s0 := upd_cs (set_deferred s None) (fun x => if disarmable c then set_last_lat x 1 else x) in
        if opcode =? GenLL.LL_CHANNEL_MAP_REQ then
          let '(ch, _) := ChanMapModel.reset_impl (chan s0) (slice body 1 5) (ChanMapModel.hop_ (chan s0)) in
          Some (set_chan s0 ch, [], GoAhead)
        else if opcode =? GenLL.LL_CONNECTION_UPDATE_IND then
          let '(t, ok) := parse_update body in
          let s1 := set_tm (set_proc_timeout s0 0) t in
          match ok with
          | None => None
          | Some true =>
              let s2 := set_st s1 ConnChanged in
              Some (push_event c s2 (EvChanged (details_of s2)), [], GoAhead)
          | Some false => Some (s1, [], DoDisconnect)
          end
        else (* handle_pending_phy_request: LL_PHY_UPDATE_IND (the only other opcode that is ever deferred) *)
          Some (push_event c s0 (EvPhy (byte body 1) (byte body 2)), [IPhy (byte body 1) (byte body 2)], GoAhead)
      else Some (s, [], GoAhead)
  | None => Some (s, [], GoAhead)
  end.

(* handle_received_data(): [fuel] >= length of the receive queue + 1.
   NOTE: a PDU that is neither LLID 3 nor an accepted LLID 2 stays at the head of the queue; for LLID 1 (a
   continuation fragment, passed through by ll_l2cap_sdu_buffer< ..., 23 >) that is for ever. *)
Fixpoint handle_received_data (fuel : nat) (c : cfg) (s : lstate_t) : lstate_t * list item * ll_result :=
  match fuel with
  | O => (s, [], GoAhead)
  | S fuel' =>
      match deferred s with
      | Some _ => (s, [], GoAhead)
      | None =>
          match rxq (bf s) with
          | [] => (s, [], GoAhead)
          | (llid, body) :: rest =>
              let pop (x : lstate_t) := upd_bf x (fun b => set_rxq b rest) in
              if llid =? GenLL.ll_control_pdu_code then
                if tx_buffer_available s then
                  let '(s1, it, r) := handle_ll_control c s body in
                  let s2 := pop s1 in
                  match r with
                  | DoDisconnect => (s2, it, DoDisconnect)
                  | GoAhead => let '(s3, it3, r3) := handle_received_data fuel' c s2 in (s3, it ++ it3, r3)
                  end
                else (s, [], GoAhead)
              else if (llid =? GenLL.lld_data_pdu_code) && negb (lstate_eqb (st s) Disconnecting) then
                match (if c_enc c then l2cap_reply_enc (is_enc (sc s)) body else l2cap_reply body) with
                | L2Drop => handle_received_data fuel' c (pop s)
                | L2Reply r =>
                    if tx_buffer_available s then
                      let s1 := match r with Some f => commit s (GenLL.lld_data_pdu_code, f) | None => s end in
                      handle_received_data fuel' c (pop s1)
                    else (s, [], GoAhead)
                end
              else (s, [], GoAhead)
          end
      end
  end.

(* send_control_pdus() *)
Definition send_control_pdus (s : lstate_t) : lstate_t :=
  if lstate_eqb (st s) Disconnecting && negb (term_sent s) && tx_buffer_available s then
    let s1 := commit_ctrl s [GenLL.LL_TERMINATE_IND; disc_reason s] in
    set_term_sent (upd_bf s1 (fun b => set_stopped b true)) true
  else s.

(* link_layer_security_impl::transmit_pending_security_pdus() *)
Definition transmit_pending_security_pdus (c : cfg) (s : lstate_t) : lstate_t * list item :=
  if c_enc c && enc_prog (sc s) && tx_buffer_available s then
    let s1 := upd_sc s (fun x => set_enc_prog x false) in
    if has_key (sc s)
    then (commit_ctrl s1 [GenLL.LL_START_ENC_REQ], [IEncRx true])
    else (commit_ctrl s1 (reject_pdu s GenLL.LL_ENC_REQ GenLL.err_pin_or_key_missing), [])
  else (s, []).

(* transmit_pending_control_pdus().
   NOTE (defect #23): the LL_PHY_REQ branch does not arm procedure_timeout_. *)
Definition transmit_pending_control_pdus (c : cfg) (s : lstate_t) : lstate_t :=
  let p := pr s in
  let async_pending := match c_cpr c with CprAsync => ap_pending (ac s) | _ => false end in
  if negb (cpr_pending p) && negb (phy_pending p) && negb (ver_pending p) && negb async_pending then s
  else if negb (tx_buffer_available s) then s
  else if cpr_pending p then
    let s1 := set_proc_timeout s GenLL.default_procedure_timeout_us in
    let s2 := upd_pr s1 (fun q => set_cpr_running (set_cpr_pending q false) true) in
    commit_ctrl s2 ([GenLL.LL_CONNECTION_PARAM_REQ; lo8 (prop_min p); hi8 (prop_min p); lo8 (prop_max p); hi8 (prop_max p);
                     lo8 (prop_lat p); hi8 (prop_lat p); lo8 (prop_to p); hi8 (prop_to p); 0; 0; 0] ++ repeat 255 12)
  else if phy_pending p then
    let s1 := upd_pr s (fun q => set_phy_pending q false) in
    commit_ctrl s1 [GenLL.LL_PHY_REQ; phy_tx p; phy_rx p]
  else if ver_pending p then
    let s1 := set_proc_timeout s GenLL.default_procedure_timeout_us in
    let s2 := upd_pr s1 (fun q => set_ver_pending q false) in
    commit_ctrl s2 version_ind_pdu
  else
    let a := ac s in
    let s1 := upd_ac s (fun x => set_ap_pending x false) in
    if ap_negative a
    then commit_ctrl s1 [GenLL.LL_REJECT_EXT_IND; GenLL.LL_CONNECTION_PARAM_REQ; ap_reason a]
    else commit_ctrl s1 ([GenLL.LL_CONNECTION_PARAM_RSP; lo8 (ap_min a); hi8 (ap_min a); lo8 (ap_max a); hi8 (ap_max a);
                          lo8 (ap_lat a); hi8 (ap_lat a); lo8 (ap_to a); hi8 (ap_to a); 0] ++ repeat 255 14).

Definition fault_out (s : lstate_t) : lstate_t * lout := (s, OCrash).

(* the common tail of timeout() and end_event(): handle_pending_ll_control, then force_disconnect or
   setup_next_connection_event *)
Definition pending_then_setup (c : cfg) (s : lstate_t) : option (lstate_t * list item) :=
  do r <- handle_pending_ll_control c s;
  let '(s1, it, res) := r in
  match res with
  | DoDisconnect => let '(s2, it2) := force_disconnect c s1 in Some (s2, it ++ it2)
  | GoAhead => do r2 <- setup_next_connection_event s1; let '(s2, it2) := r2 in Some (s2, it ++ it2)
  end.

(* timeout() *)
Definition do_timeout (c : cfg) (s : lstate_t) : option (lstate_t * list item) :=
  let s0 := set_pending_event s false in
  let t := tsle (cs s0) in
  do r <-
    (if lstate_eqb (st s0) Disconnecting && term_sent s0 && negb (pending_outgoing_data_available s0) then
       Some (force_disconnect c s0)
     else if negb (proc_timeout s0 =? 0) && (proc_timeout s0 <=? t) then
       Some (force_disconnect_reason c s0 GenLL.connection_ll_response_timeout)
     else
       do five <- dt_mul (interval (tm s0)) (GenLL.num_windows_til_timeout - 1);
       if (t <? conn_timeout (tm s0)) && negb (lstate_eqb (st s0) Connecting && (five <=? t)) then
         do s1 <- plan_after_timeout s0;
         pending_then_setup c s1
       else Some (force_disconnect c s0));
  let '(s2, it) := r in
  let '(s3, cbs) := flush_events s2 in
  Some (s3, it ++ cbs).

(* end_event( evts ), after the radio's part of the event; in four parts *)
(* ... up to  state_ = state::connected; transmit_window_size_ = delta_time(); *)
Definition end_event_prologue (c : cfg) (s : lstate_t) : lstate_t :=
  let s0 := set_pending_event s false in
  let s1 := match st s0 with Connecting => push_event c s0 (EvEstablished (details_of s0)) | _ => s0 end in
  if lstate_eqb (st s1) Disconnecting then s1
  else upd_tm (set_st s1 Connected) (fun t => set_tw_size t 0).

Definition procedure_timed_out (s : lstate_t) : bool :=
  negb (proc_timeout s =? 0) && (proc_timeout s <=? tsle (cs s)).

(* ... the else branch after handle_received_data() and send_control_pdus() went ahead *)
Definition end_event_continue (c : cfg) (s4 : lstate_t) (evts : N) : option (lstate_t * list item) :=
  if procedure_timed_out s4 then
    Some (force_disconnect_reason c s4 GenLL.connection_ll_response_timeout)
  else
    let s5 := if negb (proc_timeout s4 =? 0) then set_proc_timeout s4 (proc_timeout s4 - tsle (cs s4)) else s4 in
    let '(s6, it6) := transmit_pending_security_pdus c s5 in
    let evts' := if pending_outgoing_data_available s6 then N.lor evts 16 else evts in
    do s7 <- plan_next_connection_event c s6 evts';
    do r8 <- pending_then_setup c s7;
    let '(s8, it8) := r8 in
    Some (s8, it6 ++ it8).

Definition end_event_body (c : cfg) (s2 : lstate_t) (evts : N) : option (lstate_t * list item) :=
  if lstate_eqb (st s2) Disconnecting && term_sent s2 && negb (pending_outgoing_data_available s2) then
    Some (force_disconnect c s2)
  else
    let '(s3, it3, res) := handle_received_data (S (length (rxq (bf s2)))) c s2 in
    match res with
    | DoDisconnect => let '(s4, it4) := force_disconnect c s3 in Some (s4, it3 ++ it4)
    | GoAhead =>
        do r <- end_event_continue c (send_control_pdus s3) evts;
        let '(s8, it8) := r in Some (s8, it3 ++ it8)
    end.

(* ... if ( connected || connecting ) transmit_pending_control_pdus(), transmit_pending_l2cap_output() (nothing
   queued); handle_connection_events() *)
Definition end_event_epilogue (c : cfg) (s9 : lstate_t) (it : list item) : lstate_t * list item :=
  let s10 := match st s9 with
             | Connected | Connecting => transmit_pending_control_pdus c s9
             | _ => s9
             end in
  let '(s11, cbs) := flush_events s10 in
  (s11, it ++ cbs).

Definition do_end_event (c : cfg) (s : lstate_t) (evts : N) : option (lstate_t * list item) :=
  do r <- end_event_body c (end_event_prologue c s) evts;
  let '(s9, it) := r in
  Some (end_event_epilogue c s9 it).

(* adv_received( receive ) *)
Definition do_adv_received (c : cfg) (s : lstate_t) (hdr0 : N) (body : list N) : option (lstate_t * list item) :=
  if valid_connect_request c hdr0 body then      (* no white list: is_connection_request_in_filter() = true *)
    let '(ch, r) := ChanMapModel.reset_impl (chan s) (slice body 28 5) (N.land (byte body 33) 31) in
    let s1 := set_chan s ch in
    match r with
    | ChanMapModel.OBool true =>
        let '(t, ok) := parse_connect body in
        let s2 := set_tm s1 t in
        match ok with
        | None => None
        | Some false => Some (s2, [])
        | Some true =>
            let s3 := set_cs s2 (mk_cstate 0 0 0 1) in                       (* reset_connection_state() *)
            let s4 := set_st s3 Connecting in
            let s5 := set_sca s4 (sleep_clock_accuracy body + c_sca c) in
            let s6 := set_used_features s5 (supported_features c) in
            let s7 := upd_pr s6 (fun p => mk_procs (prop_min p) (prop_max p) (prop_lat p) (prop_to p)
                                             false false false false (phy_tx p) (phy_rx p) false false) in
            let s8 := set_proc_timeout (set_disc_reason (set_pending_event s7 false) GenLL.connection_timeout) 0 in
            (* reset_pdu_buffer(); the transmit buffer availability is the script's, not the buffer's *)
            let s9 := upd_bf s8 (fun b => mk_bufs [] [] FNone false (tx_avail b)) in
            let s10 := upd_ac s9 (fun a => set_ap_pending a false) in         (* reset_connection_parameter_request() *)
            do r11 <- setup_next_connection_event s10;
            let '(s11, it11) := r11 in
            let s12 := upd_sc s11 (fun x => set_is_enc x false) in            (* connection_data_ = connection_data_t() *)
            let s13 := push_event c s12 (EvRequested (details_of s12)) in
            let '(s14, cbs) := flush_events s13 in
            Some (s14, [IAa (rd32 body 12) (rd24 body 16)] ++ it11 ++ cbs)
        end
    | ChanMapModel.OBool false => Some (s1, [])
    | _ => None
    end
  else Some (handle_adv_timeout s).

(* try_event_cancelation() with disarm_connection_event() -> ( b, us ) *)
Definition do_cancel (c : cfg) (s : lstate_t) (b : bool) (us : N) : option (lstate_t * list item) :=
  if (lstate_eqb (st s) Connected || lstate_eqb (st s) Connecting) && pending_event s
     && disarmable c && negb (last_lat (cs s) =? 1) then
    if b then
      let iv := interval (tm s) in
      if iv =? 0 then None                                            (* assert( !connection_iterval.zero() ) *)
      else
        do sum <- dt_add us iv;
        do sum1 <- dt_sub sum 1;
        let times := N.max 1 (sum1 / iv) in
        let moved := N.min times (last_lat (cs s)) in
        let count := last_lat (cs s) - moved in                        (* -( moved - last_latency_ ) *)
        if 499 <? count then None                                       (* assert( -count <= maximum latency ) *)
        else
          do back <- dt_mul iv count;
          do t <- dt_sub (tsle (cs s)) back;
          let s1 := set_cs s (mk_cstate ((ch_idx (cs s) + 518 - count) mod 37) (u16 (evc (cs s) + 65536 - count)) t 1) in
          do r <- setup_next_connection_event s1;
          let '(s2, it) := r in Some (s2, IDisarm :: it)
    else Some (s, [IDisarm])
  else Some (s, []).

Definition st_item (s : lstate_t) : item :=
  if in_connection s then
    ISt (st s) (evc (cs s)) (ch_idx (cs s)) (tsle (cs s)) (proc_timeout s) (used_features s)
        (match deferred s with Some b => Some (byte b 0) | None => None end)
        (match deferred s with Some _ => def_instant s | None => 0 end)
        [cpr_pending (pr s); cpr_running (pr s); cpr_sig (pr s); phy_pending (pr s); ver_pending (pr s); ver_received (pr s)]
  else ISt (st s) 0 0 0 0 0 None 0 [false; false; false; false; false; false].

Definition ok_items (r : option (lstate_t * list item)) (s : lstate_t) : lstate_t * lout :=
  match r with Some (s', it) => (s', OItems it) | None => (s, OCrash) end.

(* one operation of the harness *)
Definition lstep (c : cfg) (s : lstate_t) (o : lop) : lstate_t * lout :=
  match o with
  | Run =>
      match st s with
      | Initial => let '(s1, it) := start_advertising_impl s in (s1, OItems it)
      | _ => (s, OItems [])
      end
  | AdvTimeout =>
      match st s with
      | Advertising => let '(s1, it) := handle_adv_timeout s in (s1, OItems it)
      | _ => (s, OPre)
      end
  | Adv hdr0 body =>
      match st s with
      | Advertising => if 255 <? N.of_nat (length body) then (s, OBadOp) else ok_items (do_adv_received c s hdr0 body) s
      | _ => (s, OPre)
      end
  | Ev evts pdus =>
      if in_connection s then
        if existsb (fun p => 27 <? N.of_nat (length (snd p))) pdus then (s, OBadOp)
        else
          let '(s1, it1) := radio_event (S (length pdus + length (txq (bf s)))) s pdus in
          match do_end_event c s1 evts with
          | Some (s2, it2) => (s2, OItems (it1 ++ it2))
          | None => (s1, OCrash)
          end
      else (s, OPre)
  | Timeout => if in_connection s then ok_items (do_timeout c s) s else (s, OPre)
  | Disconnect reason =>
      if in_connection s then
        let r := match reason with Some r => r | None => GenLL.connection_terminated_by_local_host end in
        let s1 := set_proc_timeout (set_disc_reason (set_term_sent (set_st s Disconnecting) false) r) (conn_timeout (tm s)) in
        let '(s2, it) := reset_encryption c s1 in (s2, OItems it)
      else (s, OPre)
  | Cpu a b c' d =>
      if in_connection s then
        if bit (used_features s) GenLL.feature_connection_parameters_request_procedure then
          if cpr_pending (pr s) then (s, OItems [IRet false])
          else (upd_pr s (fun p => mk_procs a b c' d true (cpr_running p) true (phy_pending p) (phy_tx p) (phy_rx p)
                                            (ver_pending p) (ver_received p)), OItems [IRet true])
        else (s, OItems [IRet false])       (* no_signaling_channel::connection_parameter_update_request() = false *)
      else (s, OPre)
  | Cpr a b c' d =>
      if in_connection s then
        if cpr_pending (pr s) || negb (proc_timeout s =? 0) then (s, OItems [IRet false])
        else (upd_pr s (fun p => mk_procs a b c' d true (cpr_running p) (cpr_sig p) (phy_pending p) (phy_tx p) (phy_rx p)
                                          (ver_pending p) (ver_received p)), OItems [IRet true])
      else (s, OPre)
  | PhyReq t r =>
      if in_connection s then
        if phy_pending (pr s) then (s, OItems [IRet false])
        else (upd_pr s (fun p => set_phy_rx (set_phy_tx (set_phy_pending p true) (u8 t)) (u8 r)), OItems [IRet true])
      else (s, OPre)
  | VerReq =>
      if in_connection s then
        if ver_pending (pr s) || negb (proc_timeout s =? 0) then (s, OItems [IRet false])
        else (upd_pr s (fun p => set_ver_pending p true), OItems [IRet true])
      else (s, OPre)
  | TxAvail b => (upd_bf s (fun x => set_tx_avail x b), OItems [])
  | Cancel b us => ok_items (do_cancel c s b us) s
  | CprReply a b c' d =>
      match c_cpr c with
      | CprAsync => (upd_ac s (fun x => mk_acpr true false (u16 a) (u16 b) (u16 c') (u16 d) (ap_reason x)), OItems [])
      | _ => (s, OBadOp)
      end
  | CprNeg r =>
      match c_cpr c with
      | CprAsync => (upd_ac s (fun x => set_ap_reason (set_ap_negative (set_ap_pending x true) true) (u8 r)), OItems [])
      | _ => (s, OBadOp)
      end
  | Key b => (upd_sc s (fun x => set_key_known x b), OItems [])
  | St => (s, OItems [st_item s])
  end.

Fixpoint lrun (c : cfg) (s : lstate_t) (ops : list lop) : list (lop * lout) :=
  match ops with
  | [] => []
  | o :: t => let '(s', r) := lstep c s o in (o, r) :: lrun c s' t
  end.

Fixpoint lfinal (c : cfg) (s : lstate_t) (ops : list lop) : lstate_t :=
  match ops with
  | [] => s
  | o :: t => lfinal c (fst (lstep c s o)) t
  end.
