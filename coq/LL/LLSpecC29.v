(* C29  Connection lifecycle is reported completely and in order: specification and monitor.

   Specification: the callbacks of connection_callbacks<> seen by the application form, per connection, a word of
        requested ( attempt_timeout | established ( changed | version | rejected | unknown | features | phy )* closed )
   and every connection the link layer starts (access address set + first connection event scheduled) / ends (back to
   advertising) is reported: requested in the operation that starts it, established in the first connection event that
   takes place, closed / attempt_timeout in the operation that ends it.
   (cb:cpr, the callback of asynchronous_connection_parameter_request<>, is not a connection callback and is ignored.)

   Monitor clauses (tags):
     1 order                    a change / information / closed callback for a connection that is not yet established
     2 duplicate                established twice; closed / attempt_timeout twice
     3 closed_missing           back to advertising (or a new connection requested) without closed / attempt_timeout
     4 unrequested              a callback although no connection was requested
     5 established_and_timeout  attempt_timeout for an established connection
     6 requested_missing        a connection was started without requested
     7 established_missing      a connection event took place and the connection is still not reported as established
     8 fault                    assert / sanitizer abort
     9 closed_reason            the reason of closed is none of the causes the trace shows for the end of THIS connection:
                                0x08 (supervision timeout, invalid update at its instant) resp. the reason of disconnect() /
                                0x16 after disconnect() was called; 0x22 if a procedure response timer may run; in a
                                connection event also 0x28 if an instant based PDU was delivered and the error code of a
                                delivered LL_TERMINATE_IND
   Completeness clauses (3 at the end of the link, 6, 7) only apply to configurations with connection_callbacks<>. *)
From Coq Require Import NArith List Bool.
From BT Require Import Base.ListX LL.LLModel LL.LLSpec.
From BT Require gen.GenLL.
Import ListNotations.
Local Open Scope N_scope.

Inductive phase29 := LIdle | LRequested | LEstablished.

(* Why the current connection may end, as far as the trace shows (all of it per connection):
     w_base   the reason of an end without a cause of its own: 0x08 (supervision timeout; also a connection update that turns
              out to be invalid at its instant), or the reason handed to disconnect() / 0x16 once disconnect() was called
     w_arm    a procedure response timer may run (disconnect(), connection_parameter_update_request(),
              initiating_connection_parameter_request(), remote_versions_request() were called): 0x22 is possible
     w_inst   an instant based control PDU (LL_CONNECTION_UPDATE_IND, LL_CHANNEL_MAP_IND, LL_PHY_UPDATE_IND) was delivered: 0x28
     w_terms  the error codes of the LL_TERMINATE_IND PDUs delivered
     w_rx     the current operation is a connection event (only then received PDUs are looked at) *)
Record why29 := mkw { w_base : N; w_arm : bool; w_inst : bool; w_terms : list N; w_rx : bool }.

Record mon29 := mk29 {
  l_phase : phase29;
  l_closed : bool;        (* the last connection was reported as closed / timed out and no new one was requested since *)
  l_link : bool;          (* the link layer runs a connection (between its start and the return to advertising) *)
  l_why : why29
}.

(* specification constants (Core Vol 1 Part F): connection timeout, remote user / local host terminated, LL response
   timeout, instant passed *)
Definition fresh_why : why29 := mkw 8 false false [] false.
Definition minit29 (c : cfg) : mon29 := mk29 LIdle false false fresh_why.

(* the reasons ll_connection_closed may report now *)
Definition adm (w : why29) (r : N) : bool :=
  (r =? w_base w) || (w_arm w && (r =? 34))
  || (w_rx w && ((w_inst w && (r =? 40)) || existsb (N.eqb r) (w_terms w))).

Definition ctrl_pdu (p : pdu) : bool := N.land (fst p) 3 =? 3.
Definition inst_body (b : list N) : bool :=
  match b with o :: _ => (o =? 0) || (o =? 1) || (o =? 24) | [] => false end.
Definition term_codes (p : pdu) : list N :=
  if ctrl_pdu p then match snd p with [2; x] => [x] | _ => [] end else [].

(* what an operation adds to that knowledge, before its callbacks are judged *)
Definition why_op (w : why29) (o : lop) : why29 :=
  match o with
  | Ev _ pdus =>
      mkw (w_base w) (w_arm w) (w_inst w || existsb (fun p => ctrl_pdu p && inst_body (snd p)) pdus)
          (w_terms w ++ flat_map term_codes pdus) true
  | Disconnect reason => mkw (match reason with Some r => r | None => 22 end) true (w_inst w) (w_terms w) false
  | Cpu _ _ _ _ | Cpr _ _ _ _ | VerReq => mkw (w_base w) true (w_inst w) (w_terms w) false
  | _ => mkw (w_base w) (w_arm w) (w_inst w) (w_terms w) false
  end.
Definition set_why (m : mon29) (w : why29) : mon29 := mk29 (l_phase m) (l_closed m) (l_link m) w.

(* one callback *)
Definition cb29 (m : mon29) (e : cb_event) : verdict * mon29 :=
  match e with
  | EvCpr _ _ _ _ => (Ok, m)
  | EvRequested _ =>
      match l_phase m with
      | LIdle => (Ok, mk29 LRequested false (l_link m) (l_why m))
      | _ => (Bad 3, m)
      end
  | EvEstablished _ =>
      match l_phase m with
      | LRequested => (Ok, mk29 LEstablished false (l_link m) (l_why m))
      | LEstablished => (Bad 2, m)
      | LIdle => (Bad 4, m)
      end
  | EvAttemptTimeout =>
      match l_phase m with
      | LRequested => (Ok, mk29 LIdle true (l_link m) (l_why m))
      | LEstablished => (Bad 5, m)
      | LIdle => (Bad (if l_closed m then 2 else 4), m)
      end
  | EvClosed r =>
      match l_phase m with
      | LEstablished => if adm (l_why m) r then (Ok, mk29 LIdle true (l_link m) (l_why m)) else (Bad 9, m)
      | LRequested => (Bad 1, m)
      | LIdle => (Bad (if l_closed m then 2 else 4), m)
      end
  | EvChanged _ | EvVersion _ _ _ | EvRejected _ | EvUnknown _ | EvFeatures _ | EvPhy _ _ =>
      match l_phase m with
      | LEstablished => (Ok, m)
      | LRequested => (Bad 1, m)
      | LIdle => (Bad 4, m)
      end
  end.

Fixpoint fold29 (m : mon29) (it : list item) : verdict * mon29 :=
  match it with
  | [] => (Ok, m)
  | ICb e :: t => match cb29 m e with (Ok, m') => fold29 m' t | bad => bad end
  | _ :: t => fold29 m t
  end.

Definition has_ce29 (it : list item) : bool := existsb (fun i => match i with ICe _ _ _ _ => true | _ => false end) it.
Definition has_adv29 (it : list item) : bool := existsb (fun i => match i with IAdv _ => true | _ => false end) it.
Definition is_idle29 (p : phase29) : bool := match p with LIdle => true | _ => false end.
Definition is_requested29 (p : phase29) : bool := match p with LRequested => true | _ => false end.

Definition mstep29 (c : cfg) (m : mon29) (o : lop) (r : lout) : verdict * mon29 :=
  match r with
  | OCrash => (Bad 8, m)
  | OPre | OBadOp => (Ok, m)
  | OItems it =>
      match fold29 (set_why m (why_op (l_why m) o)) it with
      | (Bad t, m') => (Bad t, m')
      | (Ok, m1) =>
          if negb (c_cb c) then (Ok, m1)
          else
            match o with
            | Adv _ _ =>
                if has_ce29 it
                then (if is_requested29 (l_phase m1) then (Ok, mk29 (l_phase m1) (l_closed m1) true fresh_why) else (Bad 6, m1))
                else (Ok, m1)
            | _ =>
                if l_link m1 && has_adv29 it then
                  (if is_idle29 (l_phase m1) then (Ok, mk29 LIdle (l_closed m1) false (l_why m1)) else (Bad 3, m1))
                else
                  match o with
                  | Ev _ _ => if l_link m1 && is_requested29 (l_phase m1) then (Bad 7, m1) else (Ok, m1)
                  | _ => (Ok, m1)
                  end
            end
      end
  end.

Fixpoint mrun29 (c : cfg) (m : mon29) (tr : list (lop * lout)) : verdict * mon29 :=
  match tr with
  | [] => (Ok, m)
  | (o, r) :: t => match mstep29 c m o r with (Ok, m') => mrun29 c m' t | bad => bad end
  end.

Definition accepts29 (c : cfg) (tr : list (lop * lout)) : Prop := fst (mrun29 c (minit29 c) tr) = Ok.

(* ---- the environment of the _partial theorem, decided on the observed trace:
   (a) fewer than max_events callbacks (of any kind) are delivered by one operation (then no try_push can have failed:
       the ring is drained at the end of every operation);
   (b) disconnect() is not called between requested and established;
   (c) no assert fails. *)
Definition ring_callbacks (it : list item) : nat :=
  length (filter (fun i => match i with ICb _ => true | _ => false end) it).

Definition env_step29 (m : mon29) (o : lop) (r : lout) : bool :=
  match r with
  | OCrash => false
  | OPre | OBadOp => true
  | OItems it =>
      (N.of_nat (ring_callbacks it) <? GenLL.max_events)
      && match o with Disconnect _ => negb (is_requested29 (l_phase m)) | _ => true end
  end.

Fixpoint env29 (c : cfg) (m : mon29) (tr : list (lop * lout)) : bool :=
  match tr with
  | [] => true
  | (o, r) :: t => env_step29 m o r && env29 c (snd (mstep29 c m o r)) t
  end.
