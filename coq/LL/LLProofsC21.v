(* C21  Instant-based procedures apply at their instant or end the link: lemmas and theorems over LLModel (the code after
   the repair fix/C21-instant-checks) and LLSpecC21. Independent of LL/LLProofs.v (own small frame lemmas).

   Contents: the comparison = the Core's rule; frames ([keep]); a received control PDU ([hlc_cases], [accept_spec]); the
   receive queue ([hrd_cases], [hrd_blocked]); planning never passes a waiting instant ([plan_spec]); the instant
   ([pending_not_yet], [pending_at_instant], [advance_pending]); the invariant [Inv] through every operation ([lstep_inv],
   [invariant_all_traces]); a waiting procedure one event later ([end_event_pending], [timeout_pending], [lstep_progress]) and
   after any number of events ([resolved_within_distance]); no pull-back after the application ([cancel_after_applied]). *)
From Coq Require Import NArith List Bool Lia ZifyBool.
From BT Require Import Base.ListX LL.LLModel LL.LLSpec LL.LLSpecC21.
From BT Require gen.GenLL ChanMap.ChanMapModel.
Import ListNotations.
Local Open Scope N_scope.

Ltac nlia := zify; Z.to_euclidean_division_equations; lia.

(* ========================================================================================== the comparison *)
(* the repaired check is the Core's rule *)
Lemma instant_passed_spec inst evc : inst < 65536 -> evc < 65536 ->
  instant_passed inst evc = negb (reachable inst evc).
Proof.
  intros Hi He. unfold instant_passed, reachable, distance, u16.
  set (d := (inst + 65536 - evc) mod 65536).
  destruct (d =? 0) eqn:E0; destruct (32767 <=? d) eqn:E1; destruct (1 <=? d) eqn:E2; destruct (d <=? 32766) eqn:E3; cbn; try reflexivity; lia.
Qed.

(* reachable = one of the next 32766 connection events, with the wrap of the 16 bit counter *)
Lemma reachable_iff inst evc : inst < 65536 -> evc < 65536 ->
  reachable inst evc = true <-> exists j, 1 <= j <= 32766 /\ inst = (evc + j) mod 65536.
Proof.
  intros Hi He. unfold reachable, distance. split.
  - intros H. exists ((inst + 65536 - evc) mod 65536). split; [lia|]. nlia.
  - intros (j & Hj & ->). assert (((evc + j) mod 65536 + 65536 - evc) mod 65536 = j) by nlia. lia.
Qed.

(* ========================================================================================== frames *)
Definition keep (s s' : lstate_t) : Prop :=
  st s' = st s /\ cs s' = cs s /\ deferred s' = deferred s /\ def_instant s' = def_instant s /\ tm s' = tm s /\ chan s' = chan s
  /\ rxq (bf s') = rxq (bf s).
Ltac kp := unfold keep; repeat split; reflexivity.

Lemma keep_refl s : keep s s. Proof. kp. Qed.
Lemma keep_trans a b d : keep a b -> keep b d -> keep a d.
Proof. unfold keep. intros (A1 & A2 & A3 & A4 & A5 & A6 & A7) (B1 & B2 & B3 & B4 & B5 & B6 & B7). repeat split; congruence. Qed.

Lemma keep_push_event c s e : keep s (push_event c s e).
Proof. unfold push_event. destruct (c_cb c); [destruct (_ <? _)|]; kp. Qed.
Lemma keep_commit s p : keep s (commit s p).
Proof. unfold commit. destruct (stopped (bf s)); kp. Qed.
Lemma keep_commit_ctrl s b : keep s (commit_ctrl s b).
Proof. apply keep_commit. Qed.
Lemma keep_clear_cpr s : keep s (clear_cpr_feature s). Proof. kp. Qed.
Lemma keep_handle_reject c s o b : keep s (handle_reject c s o b).
Proof.
  unfold handle_reject.
  destruct (negb (o =? GenLL.LL_UNKNOWN_RSP));
    (eapply keep_trans; [|apply keep_push_event]);
    destruct (negb _ || _); try kp;
    destruct (cpr_running _ && _); destruct (o =? GenLL.LL_UNKNOWN_RSP); kp.
Qed.
Lemma keep_encryption_changed c s b : keep s (encryption_changed c s b).
Proof. unfold encryption_changed. destruct b; [apply keep_push_event|apply keep_refl]. Qed.

(* ========================================================================================== a received control PDU *)
Lemma hlc_cases c s body :
  let r := handle_ll_control c s body in
  let s' := fst (fst r) in
  st s' = st s /\ cs s' = cs s /\ tm s' = tm s /\ chan s' = chan s /\ rxq (bf s') = rxq (bf s) /\
  ( (deferred s' = deferred s /\ def_instant s' = def_instant s)
    \/ snd r = DoDisconnect
    \/ (snd r = GoAhead /\ deferred s' = Some body /\ instant_passed (def_instant s') (evc (cs s)) = false
        /\ exists i, def_instant s' = rd16 body i)).
Proof.
  unfold handle_ll_control.
  set (opcode := if 0 <? N.of_nat (length body) then byte body 0 else 255).
  destruct (ctrl_kind c (ver_received (pr s)) opcode (N.of_nat (length body))); cbn zeta.
  - (* KUpdate *) unfold instant_passed_update. destruct (instant_passed _ _) eqn:E; cbn [orb fst snd].
    + repeat split; auto.
    + destruct (_ =? _); cbn [fst snd].
      * repeat split; auto.
      * repeat split; try reflexivity. right. right. repeat split; try reflexivity. exact E. eexists; reflexivity.
  - (* KTerminate *) cbn [fst snd]. repeat split; auto.
  - (* KVersion *) cbn [fst snd].
    assert (K : keep s (commit_ctrl (upd_pr (push_event c (if byte body 1 <=? GenLL.LL_VERSION_40 then clear_cpr_feature (set_proc_timeout s 0) else set_proc_timeout s 0)
                (EvVersion (byte body 1) (rd16 body 2) (rd16 body 4))) (fun p => set_ver_received p true)) version_ind_pdu)).
    { eapply keep_trans; [|apply keep_commit_ctrl]. eapply keep_trans; [|kp]. eapply keep_trans; [|apply keep_push_event].
      destruct (_ <=? _); kp. }
    destruct K as (K1 & K2 & K3 & K4 & K5 & K6 & K7). repeat split; auto.
  - (* KChannelMap *) unfold instant_passed_map. destruct (instant_passed _ _) eqn:E; cbn [fst snd].
    + repeat split; auto.
    + repeat split; try reflexivity. right. right. repeat split; try reflexivity. exact E. eexists; reflexivity.
  - (* KPing *) cbn [fst snd]. destruct (keep_commit_ctrl s [GenLL.LL_PING_RSP]) as (K1 & K2 & K3 & K4 & K5 & K6 & K7). repeat split; auto.
  - (* KFeature *) cbn [fst snd].
    match goal with |- context [commit_ctrl ?x ?y] => assert (K : keep s (commit_ctrl x y)) end.
    { eapply keep_trans; [|apply keep_commit_ctrl]. eapply keep_trans; [|apply keep_push_event]. kp. }
    destruct K as (K1 & K2 & K3 & K4 & K5 & K6 & K7). repeat split; auto.
  - cbn [fst snd]. destruct (keep_handle_reject c s opcode body) as (K1 & K2 & K3 & K4 & K5 & K6 & K7). repeat split; auto.
  - cbn [fst snd]. destruct (keep_handle_reject c s opcode body) as (K1 & K2 & K3 & K4 & K5 & K6 & K7). repeat split; auto.
  - cbn [fst snd]. destruct (keep_handle_reject c s opcode body) as (K1 & K2 & K3 & K4 & K5 & K6 & K7). repeat split; auto.
  - (* KCpr *) destruct (handle_cpr c s body) as [rsp it]. cbn [fst snd].
    destruct rsp as [r0|]; [destruct (keep_commit_ctrl s r0) as (K1 & K2 & K3 & K4 & K5 & K6 & K7)|]; repeat split; auto.
  - (* KEncReq *) cbn [fst snd].
    match goal with |- context [commit_ctrl ?x ?y] => assert (K : keep s (commit_ctrl x y)) end.
    { eapply keep_trans; [|apply keep_commit_ctrl]. kp. }
    destruct K as (K1 & K2 & K3 & K4 & K5 & K6 & K7). repeat split; auto.
  - (* KStartEncRsp *)
    destruct (has_key (sc s) && negb (enc_prog (sc s))); cbn [fst snd];
    match goal with |- context [commit_ctrl ?x ?y] => assert (K : keep s (commit_ctrl x y)) end.
    { eapply keep_trans; [|apply keep_commit_ctrl]. eapply keep_trans; [|apply keep_encryption_changed]. kp. }
    { destruct K as (K1 & K2 & K3 & K4 & K5 & K6 & K7). repeat split; auto. }
    { apply keep_commit_ctrl. }
    { destruct K as (K1 & K2 & K3 & K4 & K5 & K6 & K7). repeat split; auto. }
  - (* KPauseEncReq *) cbn [fst snd].
    match goal with |- context [commit_ctrl ?x ?y] => assert (K : keep s (commit_ctrl x y)) end.
    { eapply keep_trans; [|apply keep_commit_ctrl]. eapply keep_trans; [|apply keep_encryption_changed]. kp. }
    destruct K as (K1 & K2 & K3 & K4 & K5 & K6 & K7). repeat split; auto.
  - (* KPauseEncRsp *) cbn [fst snd].
    match goal with |- context [encryption_changed c ?x ?y] => assert (K : keep s (encryption_changed c x y)) end.
    { eapply keep_trans; [|apply keep_encryption_changed]. kp. }
    destruct K as (K1 & K2 & K3 & K4 & K5 & K6 & K7). repeat split; auto.
  - (* KPhyReq *) cbn [fst snd].
    match goal with |- context [commit_ctrl ?x ?y] => destruct (keep_commit_ctrl x y) as (K1 & K2 & K3 & K4 & K5 & K6 & K7) end. repeat split; auto.
  - (* KPhyUpdate *)
    destruct (valid_phy_encoding _ && _).
    + destruct ((byte body 1 =? 0) && _).
      * cbn [fst snd]. destruct (keep_push_event c s (EvPhy 0 0)) as (K1 & K2 & K3 & K4 & K5 & K6 & K7). repeat split; auto.
      * destruct (instant_passed _ _) eqn:E; cbn [fst snd].
        -- repeat split; auto.
        -- repeat split; try reflexivity. right. right. repeat split; try reflexivity. exact E. eexists; reflexivity.
    + cbn [fst snd].
      match goal with |- context [commit_ctrl ?x ?y] => destruct (keep_commit_ctrl x y) as (K1 & K2 & K3 & K4 & K5 & K6 & K7) end. repeat split; auto.
  - (* KUnknown *) cbn [fst snd].
    match goal with |- context [commit_ctrl ?x ?y] => destruct (keep_commit_ctrl x y) as (K1 & K2 & K3 & K4 & K5 & K6 & K7) end. repeat split; auto.
  - (* KIgnore *) cbn [fst snd]. repeat split; auto.
Qed.

(* ========================================================================================== the receive queue *)
(* handle_received_data: the connection state is not touched; the receive queue only shrinks; either the deferred procedure is
   as before, or the link is to be dropped, or nothing was waiting and a PDU of the queue with a reachable instant waits now *)
Lemma hrd_cases c : forall fuel s,
  let r := handle_received_data fuel c s in
  let s' := fst (fst r) in
  st s' = st s /\ cs s' = cs s /\ tm s' = tm s /\ chan s' = chan s /\ incl (rxq (bf s')) (rxq (bf s)) /\
  ( (deferred s' = deferred s /\ def_instant s' = def_instant s)
    \/ snd r = DoDisconnect
    \/ (deferred s = None /\ instant_passed (def_instant s') (evc (cs s)) = false
        /\ exists b, deferred s' = Some b /\ (exists i, def_instant s' = rd16 b i) /\ exists l, In (l, b) (rxq (bf s)))).
Proof.
  induction fuel as [|fuel IH]; intros s; cbn [handle_received_data].
  - cbn. repeat split; auto using incl_refl.
  - destruct (deferred s) eqn:D; [cbn; repeat split; auto using incl_refl|].
    destruct (rxq (bf s)) as [|[llid body] rest] eqn:Q; [cbn; rewrite Q; repeat split; auto using incl_refl|].
    destruct (llid =? GenLL.ll_control_pdu_code).
    + destruct (tx_buffer_available s); [|cbn; rewrite Q; repeat split; auto using incl_refl].
      pose proof (hlc_cases c s body) as L. cbn zeta in L.
      destruct (handle_ll_control c s body) as [[s1 it1] r1]. cbn [fst snd] in L.
      destruct L as (L1 & L2 & L3 & L4 & L6 & L5).
      set (s2 := upd_bf s1 (fun b => set_rxq b rest)).
      assert (K2 : st s2 = st s1 /\ cs s2 = cs s1 /\ deferred s2 = deferred s1 /\ def_instant s2 = def_instant s1 /\ tm s2 = tm s1
                   /\ chan s2 = chan s1 /\ rxq (bf s2) = rest) by (subst s2; repeat split; reflexivity).
      destruct K2 as (K1 & K2 & K3 & K4 & K5 & K6 & K7).
      destruct r1.
      * specialize (IH s2). cbn zeta in IH.
        destruct (handle_received_data fuel c s2) as [[s3 it3] r3]. cbn [fst snd] in IH |- *.
        destruct IH as (I1 & I2 & I3 & I4 & I6 & I5). rewrite K7 in I6, I5.
        split; [congruence|]. split; [congruence|]. split; [congruence|]. split; [congruence|].
        split; [apply incl_tl; exact I6|].
        destruct L5 as [(La & Lb)|[La|(La & Lb & Lc & Ld)]].
        -- destruct I5 as [(Ia & Ib)|[Ia|(Ib & Ic & b & Id & Ie & l & If)]].
           ++ left. split; congruence.
           ++ right. left. exact Ia.
           ++ right. right. split; [reflexivity|]. split; [rewrite <- L2, <- K2; exact Ic|].
              exists b. split; [exact Id|]. split; [exact Ie|]. exists l. right. exact If.
        -- discriminate.
        -- destruct I5 as [(Ia & Ib)|[Ia|(Ib & Ic & Id)]].
           ++ right. right. split; [reflexivity|]. split.
              ** rewrite Ib, K4. exact Lc.
              ** exists body. split; [congruence|]. split; [destruct Ld as [i Ld]; exists i; congruence|].
                 exists llid. left. reflexivity.
           ++ right. left. exact Ia.
           ++ congruence.
      * cbn [fst snd]. split; [congruence|]. split; [congruence|]. split; [congruence|]. split; [congruence|].
        split; [rewrite K7; apply incl_tl, incl_refl|]. right. left. reflexivity.
    + destruct ((llid =? GenLL.lld_data_pdu_code) && _); [|cbn; rewrite Q; repeat split; auto using incl_refl].
      match goal with |- context [match ?x with L2Drop => _ | L2Reply _ => _ end] => destruct x as [|rp] end.
      * set (s2 := upd_bf s (fun b => set_rxq b rest)).
        assert (K2 : st s2 = st s /\ cs s2 = cs s /\ deferred s2 = deferred s /\ def_instant s2 = def_instant s /\ tm s2 = tm s
                     /\ chan s2 = chan s /\ rxq (bf s2) = rest) by (subst s2; repeat split; reflexivity).
        destruct K2 as (K1 & K2 & K3 & K4 & K5 & K6 & K7).
        specialize (IH s2). cbn zeta in IH.
        destruct (handle_received_data fuel c s2) as [[s3 it3] r3]. cbn [fst snd] in IH |- *.
        destruct IH as (I1 & I2 & I3 & I4 & I6 & I5). rewrite K7 in I6, I5.
        split; [congruence|]. split; [congruence|]. split; [congruence|]. split; [congruence|].
        split; [apply incl_tl; exact I6|].
        destruct I5 as [(Ia & Ib)|[Ia|(Ib & Ic & b & Id & Ie & l & If)]].
        -- left. split; congruence.
        -- right. left. exact Ia.
        -- right. right. split; [reflexivity|]. split; [rewrite <- K2; exact Ic|].
           exists b. split; [exact Id|]. split; [exact Ie|]. exists l. right. exact If.
      * destruct (tx_buffer_available s); [|cbn; rewrite Q; repeat split; auto using incl_refl].
        set (s1 := match rp with Some f => commit s (GenLL.lld_data_pdu_code, f) | None => s end).
        assert (K1' : keep s s1) by (subst s1; destruct rp; [apply keep_commit|apply keep_refl]).
        set (s2 := upd_bf s1 (fun b => set_rxq b rest)).
        assert (K2 : st s2 = st s /\ cs s2 = cs s /\ deferred s2 = deferred s /\ def_instant s2 = def_instant s /\ tm s2 = tm s
                     /\ chan s2 = chan s /\ rxq (bf s2) = rest).
        { destruct K1' as (A1 & A2 & A3 & A4 & A5 & A6 & A7). subst s2. repeat split; cbn [st cs deferred def_instant tm chan upd_bf set_bf]; auto. }
        destruct K2 as (K1 & K2 & K3 & K4 & K5 & K6 & K7).
        specialize (IH s2). cbn zeta in IH.
        destruct (handle_received_data fuel c s2) as [[s3 it3] r3]. cbn [fst snd] in IH |- *.
        destruct IH as (I1 & I2 & I3 & I4 & I6 & I5). rewrite K7 in I6, I5.
        split; [congruence|]. split; [congruence|]. split; [congruence|]. split; [congruence|].
        split; [apply incl_tl; exact I6|].
        destruct I5 as [(Ia & Ib)|[Ia|(Ib & Ic & b & Id & Ie & l & If)]].
        -- left. split; congruence.
        -- right. left. exact Ia.
        -- right. right. split; [reflexivity|]. split; [rewrite <- K2; exact Ic|].
           exists b. split; [exact Id|]. split; [exact Ie|]. exists l. right. exact If.
Qed.

(* while a procedure waits, received PDUs wait: nothing is looked at *)
Lemma hrd_blocked c fuel s b : deferred s = Some b -> handle_received_data (S fuel) c s = (s, [], GoAhead).
Proof. intros D. cbn [handle_received_data]. rewrite D. reflexivity. Qed.

(* ========================================================================================== arithmetic (small contexts) *)
Lemma dist_formula e i : e < 65536 -> i < 65536 ->
  (if e <? i then i - e else u16 (i + 65536 - e)) = u16 (i + 65536 - e).
Proof. intros He Hi. unfold u16. destruct (e <? i) eqn:E; [|reflexivity]. nlia. Qed.

Lemma dist_after e i l : e < 65536 -> i < 65536 -> l <= u16 (i + 65536 - e) ->
  u16 (i + 65536 - u16 (e + l)) = u16 (i + 65536 - e) - l.
Proof. unfold u16. intros He Hi Hl. nlia. Qed.

Lemma dist_zero_eq e i : e < 65536 -> i < 65536 -> (u16 (i + 65536 - e) = 0 <-> i = e).
Proof. unfold u16. intros He Hi. split; intros H; nlia. Qed.

Lemma dist_back e i k : e < 65536 -> i < 65536 -> u16 (i + 65536 - e) + k < 65536 ->
  u16 (i + 65536 - u16 (e + 65536 - k)) = u16 (i + 65536 - e) + k.
Proof. unfold u16. intros He Hi Hk. nlia. Qed.

Lemma u16_lt x : u16 x < 65536.
Proof. unfold u16. apply N.mod_lt. discriminate. Qed.

(* ========================================================================================== planning *)
Definition dist (s : lstate_t) : N := u16 (def_instant s + 65536 - evc (cs s)).

Lemma plan_spec c s evts s' :
  plan_next_connection_event c s evts = Some s' ->
  evc (cs s) < 65536 -> latency (tm s) <= 499 ->
  exists l t ll,
    s' = set_cs s (mk_cstate ((ch_idx (cs s) + l) mod 37) (u16 (evc (cs s) + l)) t ll)
    /\ 1 <= l <= latency (tm s) + 1
    /\ (disarmable c = true -> ll = l) /\ (disarmable c = false -> ll = last_lat (cs s))
    /\ (forall b, deferred s = Some b -> def_instant s < 65536 -> 1 <= dist s -> l <= dist s).
Proof.
  unfold plan_next_connection_event. intros H He Hl.
  match type of H with context [u16 ((if ?x then 0 else _) + 1)] => set (listen := x) in H end.
  set (l0 := u16 ((if listen then 0 else latency (tm s)) + 1)) in H.
  assert (H0 : 1 <= l0 <= latency (tm s) + 1).
  { subst l0. clear H. unfold u16. destruct listen; rewrite N.mod_small; lia. }
  clearbody l0. clear listen.
  match type of H with context [dt_mul _ ?x] => set (l := x) in H end.
  destruct (dt_mul _ l) as [t|]; cbn [obind] in H; [|discriminate].
  destruct (disarmable c && (l =? 0)) eqn:Z; [discriminate|].
  inversion H as [H']. clear H H'.
  exists l, t, (if disarmable c then l else last_lat (cs s)).
  split; [reflexivity|]. split.
  - subst l. destruct (deferred s) as [b|] eqn:D; [|exact H0].
    destruct (0 <? _) eqn:P; [|exact H0]. split; [|lia]. apply N.min_glb; lia.
  - split; [intros ->; reflexivity|]. split; [intros ->; reflexivity|].
    intros b D Hi H1. subst l. rewrite D. rewrite (dist_formula _ _ He Hi). fold (dist s).
    replace (0 <? dist s) with true by lia. apply N.le_min_r.
Qed.

(* ========================================================================================== the instant *)
(* what applying the deferred procedure [b] does to the state; [it] = what it tells the radio *)
Definition applied_map (s s' : lstate_t) (b : list N) : Prop :=
  chan s' = fst (ChanMapModel.reset_impl (chan s) (slice b 1 5) (ChanMapModel.hop_ (chan s))) /\ tm s' = tm s /\ st s' = st s.
Definition applied_update (s s' : lstate_t) (b : list N) : Prop :=
  tm s' = fst (parse_update b) /\ chan s' = chan s /\ st s' = ConnChanged.

Lemma setup_next_spec s s' it :
  setup_next_connection_event s = Some (s', it) ->
  s' = set_pending_event s true /\ exists ws we, it = [ICe (data_channel s) ws we (interval (tm s))].
Proof.
  unfold setup_next_connection_event. intros H.
  destruct (if negb (tw_size (tm s) =? 0) then _ else _) as [[ws we]|]; cbn [obind] in H; [|discriminate].
  inversion H. split; [reflexivity|]. repeat eexists.
Qed.

(* not (yet) the instant: nothing is applied *)
Lemma pending_not_yet c s s' it :
  pending_then_setup c s = Some (s', it) ->
  (deferred s = None \/ def_instant s <> evc (cs s)) ->
  s' = set_pending_event s true /\ exists ws we, it = [ICe (data_channel s) ws we (interval (tm s))].
Proof.
  unfold pending_then_setup, handle_pending_ll_control. intros H Hn.
  assert (E : (match deferred s with
               | Some body => if def_instant s =? evc (cs s) then None else Some (s, @nil item, GoAhead)
               | None => Some (s, [], GoAhead) end) = Some (s, [], GoAhead)).
  { destruct (deferred s); [|reflexivity]. destruct Hn as [Hn|Hn]; [discriminate|].
    destruct (def_instant s =? evc (cs s)) eqn:E; [lia|reflexivity]. }
  destruct (deferred s) as [b|] eqn:D.
  - destruct Hn as [Hn|Hn]; [discriminate|]. replace (def_instant s =? evc (cs s)) with false in H by lia.
    cbn [obind] in H. destruct (setup_next_connection_event s) as [[s2 it2]|] eqn:E2; cbn [obind] in H; [|discriminate].
    inversion H; subst. cbn [app]. exact (setup_next_spec _ _ _ E2).
  - cbn [obind] in H. destruct (setup_next_connection_event s) as [[s2 it2]|] eqn:E2; cbn [obind] in H; [|discriminate].
    inversion H; subst. cbn [app]. exact (setup_next_spec _ _ _ E2).
Qed.

Definition after_apply (c : cfg) (s : lstate_t) : lstate_t :=
  upd_cs (set_deferred s None) (fun x => if disarmable c then set_last_lat x 1 else x).

Lemma keep_push_event' c s e : keep s (push_event c s e). Proof. apply keep_push_event. Qed.

(* the planned event is the instant: the procedure is applied before the event is handed to the radio *)
Lemma pending_at_instant c s b s' it :
  pending_then_setup c s = Some (s', it) ->
  deferred s = Some b -> def_instant s = evc (cs s) ->
  (exists sx, s' = fst (force_disconnect c sx) /\ cs sx = cs (after_apply c s) /\ rxq (bf sx) = rxq (bf s))
  \/ (deferred s' = None /\ cs s' = cs (after_apply c s) /\ rxq (bf s') = rxq (bf s)
      /\ (exists ws we, In (ICe (data_channel s') ws we (interval (tm s'))) it)
      /\ (   (byte b 0 = GenLL.LL_CHANNEL_MAP_REQ /\ applied_map s s' b /\ forall x y, ~ In (IPhy x y) it)
          \/ (byte b 0 <> GenLL.LL_CHANNEL_MAP_REQ /\ byte b 0 = GenLL.LL_CONNECTION_UPDATE_IND /\ applied_update s s' b
              /\ snd (parse_update b) = Some true /\ forall x y, ~ In (IPhy x y) it)
          \/ (byte b 0 <> GenLL.LL_CHANNEL_MAP_REQ /\ byte b 0 <> GenLL.LL_CONNECTION_UPDATE_IND
              /\ tm s' = tm s /\ chan s' = chan s /\ st s' = st s /\ In (IPhy (byte b 1) (byte b 2)) it))).
Proof.
  unfold pending_then_setup, handle_pending_ll_control. intros H D Hi.
  rewrite D in H. replace (def_instant s =? evc (cs s)) with true in H by lia.
  fold (after_apply c s) in H. set (s0 := after_apply c s) in *.
  assert (K0 : st s0 = st s /\ tm s0 = tm s /\ chan s0 = chan s /\ deferred s0 = None /\ rxq (bf s0) = rxq (bf s)) by (subst s0; repeat split; reflexivity).
  destruct K0 as (K1 & K2 & K3 & K4 & K5). clearbody s0.
  destruct (byte b 0 =? GenLL.LL_CHANNEL_MAP_REQ) eqn:O1.
  - (* channel map *)
    destruct (ChanMapModel.reset_impl (chan s0) (slice b 1 5) (ChanMapModel.hop_ (chan s0))) as [ch o] eqn:R.
    cbn [obind] in H.
    destruct (setup_next_connection_event (set_chan s0 ch)) as [[s2 it2]|] eqn:E2; cbn [obind] in H; [|discriminate].
    inversion H; subst s' it. clear H. cbn [app].
    destruct (setup_next_spec _ _ _ E2) as [-> (ws & we & ->)].
    right. split; [exact K4|]. split; [reflexivity|]. split; [exact K5|]. split; [exists ws, we; left; reflexivity|].
    left. split; [lia|]. split.
    + unfold applied_map. cbn [chan tm st set_pending_event set_chan]. rewrite <- K3, R. auto.
    + intros x y [F|[]]. discriminate.
  - destruct (byte b 0 =? GenLL.LL_CONNECTION_UPDATE_IND) eqn:O2.
    + (* connection update *)
      destruct (parse_update b) as [t ok] eqn:P.
      destruct ok as [[|]|]; cbn [obind] in H; [| |discriminate].
      * match type of H with context [push_event c ?x ?y] => set (s3 := push_event c x y) in H end.
        destruct (setup_next_connection_event s3) as [[s4 it4]|] eqn:E4; cbn [obind] in H; [|discriminate].
        inversion H; subst s' it. clear H. cbn [app].
        destruct (setup_next_spec _ _ _ E4) as [-> (ws & we & ->)].
        assert (K : keep (set_st (set_tm (set_proc_timeout s0 0) t) ConnChanged) s3) by (subst s3; apply keep_push_event).
        destruct K as (Q1 & Q2 & Q3 & Q4 & Q5 & Q6 & Q7). cbn [st cs deferred def_instant tm chan set_st set_tm set_proc_timeout] in Q1, Q2, Q3, Q4, Q5, Q6.
        clearbody s3.
        right. split; [cbn [deferred set_pending_event]; congruence|]. split; [cbn [cs set_pending_event]; exact Q2|].
        split; [cbn [bf set_pending_event]; cbn [bf set_st set_tm set_proc_timeout] in Q7; congruence|].
        split; [exists ws, we; left; reflexivity|].
        right. left. split; [lia|]. split; [lia|]. split.
        -- unfold applied_update. rewrite P. cbn [tm chan st set_pending_event fst]. repeat split; congruence.
        -- split; [reflexivity|]. intros x y [F|[]]. discriminate.
      * (* parameters refused: the link ends *)
        destruct (force_disconnect c (set_tm (set_proc_timeout s0 0) t)) as [s5 it5] eqn:F.
        inversion H; subst s' it. clear H. left.
        exists (set_tm (set_proc_timeout s0 0) t). rewrite F. split; [reflexivity|]. split; [reflexivity|exact K5].
    + (* PHY update *)
      cbn [obind] in H.
      match type of H with context [push_event c ?x ?y] => set (s3 := push_event c x y) in H end.
      destruct (setup_next_connection_event s3) as [[s4 it4]|] eqn:E4; cbn [obind] in H; [|discriminate].
      inversion H; subst s' it. clear H.
      destruct (setup_next_spec _ _ _ E4) as [-> (ws & we & ->)].
      assert (K : keep s0 s3) by (subst s3; apply keep_push_event).
      destruct K as (Q1 & Q2 & Q3 & Q4 & Q5 & Q6 & Q7). clearbody s3.
      right. split; [cbn [deferred set_pending_event]; congruence|]. split; [cbn [cs set_pending_event]; exact Q2|].
      split; [cbn [bf set_pending_event]; congruence|].
      split; [exists ws, we; right; left; reflexivity|].
      right. right. split; [lia|]. split; [lia|].
      cbn [tm chan st set_pending_event]. repeat split; try congruence. left. reflexivity.
Qed.

(* ========================================================================================== well formed input *)
Definition bytes_ok (b : list N) : Prop := Forall (fun x => x < 256) b.
Definition pdus_ok (l : list pdu) : Prop := Forall (fun p => bytes_ok (snd p)) l.
Definition op_ok (o : lop) : Prop := match o with Ev _ pdus => pdus_ok pdus | _ => True end.

Lemma byte_lt b i : bytes_ok b -> byte b i < 256.
Proof.
  unfold byte, bytes_ok. intros H. destruct (nth_in_or_default i b 0) as [Hin|E]; [|rewrite E; lia].
  rewrite Forall_forall in H. apply H. exact Hin.
Qed.
Lemma rd16_lt b i : bytes_ok b -> rd16 b i < 65536.
Proof. intros H. unfold rd16. pose proof (byte_lt b i H). pose proof (byte_lt b (S i) H). lia. Qed.

(* ========================================================================================== what "applied" means *)
Definition applied (b : list N) (s s' : lstate_t) (it : list item) : Prop :=
  rxq (bf s') = rxq (bf s) /\
  (exists ws we, In (ICe (data_channel s') ws we (interval (tm s'))) it) /\
  (   (byte b 0 = GenLL.LL_CHANNEL_MAP_REQ /\ applied_map s s' b /\ forall x y, ~ In (IPhy x y) it)
   \/ (byte b 0 <> GenLL.LL_CHANNEL_MAP_REQ /\ byte b 0 = GenLL.LL_CONNECTION_UPDATE_IND /\ applied_update s s' b
       /\ snd (parse_update b) = Some true /\ forall x y, ~ In (IPhy x y) it)
   \/ (byte b 0 <> GenLL.LL_CHANNEL_MAP_REQ /\ byte b 0 <> GenLL.LL_CONNECTION_UPDATE_IND
       /\ tm s' = tm s /\ chan s' = chan s /\ st s' = st s /\ In (IPhy (byte b 1) (byte b 2)) it)).

(* the planned event is moved [l] events ahead, 1 <= l <= distance of the waiting procedure: it is applied iff l = distance *)
Lemma advance_pending c s l t ll b s8 it8 :
  pending_then_setup c (set_cs s (mk_cstate ((ch_idx (cs s) + l) mod 37) (u16 (evc (cs s) + l)) t ll)) = Some (s8, it8) ->
  deferred s = Some b -> evc (cs s) < 65536 -> def_instant s < 65536 -> 1 <= l <= dist s ->
  (exists sx, s8 = fst (force_disconnect c sx) /\ evc (cs sx) < 65536 /\ rxq (bf sx) = rxq (bf s))
  \/ (l < dist s /\ s8 = set_pending_event (set_cs s (mk_cstate ((ch_idx (cs s) + l) mod 37) (u16 (evc (cs s) + l)) t ll)) true
      /\ dist s8 = dist s - l /\ forall x y, ~ In (IPhy x y) it8)
  \/ (l = dist s /\ deferred s8 = None /\ evc (cs s8) = def_instant s /\ last_lat (cs s8) = (if disarmable c then 1 else ll)
      /\ applied b s s8 it8).
Proof.
  set (s7 := set_cs s _). intros H D He Hi Hl.
  assert (D7 : dist s7 = dist s - l).
  { unfold dist. subst s7. cbn [def_instant cs evc set_cs]. apply dist_after; auto. exact (proj2 Hl). }
  destruct (N.eq_dec l (dist s)) as [E|E].
  - (* the instant *)
    assert (Hi7 : def_instant s7 = evc (cs s7)).
    { apply (dist_zero_eq (evc (cs s7)) (def_instant s7)); [subst s7; cbn [cs evc set_cs]; apply u16_lt|exact Hi|].
      fold (dist s7). lia. }
    destruct (pending_at_instant c s7 b s8 it8 H D Hi7) as [(sx & X1 & X2 & X3)|(A1 & A2 & A5 & A3 & A4)].
    { left. exists sx. split; [exact X1|]. split; [|exact X3].
      rewrite X2. unfold after_apply. subst s7. destruct (disarmable c); cbn [cs evc upd_cs set_cs set_last_lat set_deferred]; apply u16_lt. }
    right. right. split; [exact E|]. split; [exact A1|]. split.
    + rewrite A2. unfold after_apply. destruct (disarmable c); cbn [cs evc upd_cs set_cs set_last_lat set_deferred]; symmetry; exact Hi7.
    + split; [rewrite A2; unfold after_apply; destruct (disarmable c); reflexivity|].
      split; [exact A5|]. split; [exact A3|]. exact A4.
  - right. left. split; [lia|].
    assert (Hn : def_instant s7 <> evc (cs s7)).
    { intros F. apply (dist_zero_eq (evc (cs s7)) (def_instant s7)) in F; [|subst s7; cbn [cs evc set_cs]; apply u16_lt|exact Hi].
      fold (dist s7) in F. lia. }
    destruct (pending_not_yet c s7 s8 it8 H (or_intror Hn)) as [-> (ws & we & ->)].
    split; [reflexivity|]. split; [exact D7|]. intros x y [F|[]]. discriminate.
Qed.

(* ========================================================================================== the invariant *)
Record pend_ok (c : cfg) (s : lstate_t) : Prop := mk_pend_ok {
  pend_def : def_instant s < 65536;
  pend_lo : 1 <= dist s;
  pend_hi : dist s <= 32766;
  pend_ll : disarmable c = true -> dist s + last_lat (cs s) <= 32767 }.

Definition Inv (c : cfg) (s : lstate_t) : Prop :=
  evc (cs s) < 65536
  /\ (in_connection s = false -> deferred s = None)
  /\ (in_connection s = true -> latency (tm s) <= 499)
  /\ (forall b, deferred s = Some b -> pend_ok c s)
  /\ pdus_ok (rxq (bf s)).

Lemma in_connection_st s s' : st s' = st s -> in_connection s' = in_connection s.
Proof. unfold in_connection. intros ->. reflexivity. Qed.

Lemma Inv_keep c s s' : keep s s' -> Inv c s -> Inv c s'.
Proof.
  intros (K1 & K2 & K3 & K4 & K5 & K6 & K7) (I1 & I2 & I3 & I4 & I5). unfold Inv.
  rewrite (in_connection_st _ _ K1), K2, K3, K5, K7.
  split; [exact I1|]. split; [exact I2|]. split; [exact I3|]. split; [|exact I5].
  intros b D. destruct (I4 b D) as [P1 P2 P3 P4]. split; unfold dist in *; rewrite ?K4, ?K2; auto.
Qed.

Lemma reset_encryption_keep c s : keep s (fst (reset_encryption c s)).
Proof. unfold reset_encryption. destruct (c_enc c); cbn [fst]; kp. Qed.

Lemma force_disconnect_frame c s :
  let s' := fst (force_disconnect c s) in
  st s' = Advertising /\ deferred s' = None /\ cs s' = cs s /\ rxq (bf s') = rxq (bf s).
Proof.
  unfold force_disconnect. pose proof (reset_encryption_keep c s) as K.
  destruct (reset_encryption c s) as [s1 i1]. cbn [fst] in K.
  set (s2 := match st s1 with Connecting => _ | _ => _ end).
  assert (K2 : keep s1 s2) by (subst s2; destruct (st s1); apply keep_push_event).
  unfold start_advertising_impl, handle_start_advertising. cbn [fst st deferred cs bf set_deferred set_st set_adv_ch].
  destruct K as (A1 & A2 & A3 & A4 & A5 & A6 & A7). destruct K2 as (B1 & B2 & B3 & B4 & B5 & B6 & B7).
  repeat split; congruence.
Qed.

Lemma Inv_advertising c s : st s = Advertising -> deferred s = None -> evc (cs s) < 65536 -> pdus_ok (rxq (bf s)) -> Inv c s.
Proof.
  intros S D E R. unfold Inv. split; [exact E|]. split; [intros _; exact D|]. split.
  - unfold in_connection. rewrite S. discriminate.
  - split; [intros b F; congruence|exact R].
Qed.

Lemma Inv_force_disconnect c s : evc (cs s) < 65536 -> pdus_ok (rxq (bf s)) -> Inv c (fst (force_disconnect c s)).
Proof.
  intros E R. destruct (force_disconnect_frame c s) as (F1 & F2 & F3 & F4).
  apply Inv_advertising; auto; congruence.
Qed.

(* ========================================================================================== more frames *)
Lemma keep_tpsp c s : keep s (fst (transmit_pending_security_pdus c s)).
Proof.
  unfold transmit_pending_security_pdus. destruct (c_enc c && _ && _); [|apply keep_refl].
  destruct (has_key (sc s)); cbn [fst]; (eapply keep_trans; [|apply keep_commit_ctrl]); kp.
Qed.

Lemma keep_tpcp c s : keep s (transmit_pending_control_pdus c s).
Proof.
  unfold transmit_pending_control_pdus.
  repeat match goal with |- context [if ?b then _ else _] => destruct b end;
    try apply keep_refl; (eapply keep_trans; [|apply keep_commit_ctrl]); kp.
Qed.

Lemma keep_send_control s : keep s (send_control_pdus s).
Proof.
  unfold send_control_pdus. destruct (_ && _ && _); [|apply keep_refl].
  eapply keep_trans; [apply (keep_commit_ctrl s [GenLL.LL_TERMINATE_IND; disc_reason s])|]. kp.
Qed.

Lemma keep_epilogue c s9 it : keep s9 (fst (end_event_epilogue c s9 it)).
Proof.
  unfold end_event_epilogue.
  set (s10 := match st s9 with Connected | Connecting => transmit_pending_control_pdus c s9 | _ => s9 end).
  assert (K : keep s9 s10) by (subst s10; destruct (st s9); try apply keep_refl; apply keep_tpcp).
  unfold flush_events. cbn [fst]. eapply keep_trans; [exact K|]. kp.
Qed.

Lemma instant_not_passed i e : instant_passed i e = false -> 1 <= u16 (i + 65536 - e) <= 32766.
Proof. unfold instant_passed. cbn zeta. intros H. lia. Qed.

Lemma check_timing_latency t : check_timing t = Some true -> latency t <= 499.
Proof.
  unfold check_timing. intros H.
  destruct (latency t <=? 499) eqn:L; [lia|]. cbn [andb] in H. discriminate.
Qed.

Lemma parse_update_latency b t : parse_update b = (t, Some true) -> latency t <= 499.
Proof.
  unfold parse_update. cbn zeta. intros H. injection H as Ht Hok. subst t.
  match type of Hok with (if ?x then _ else _) = _ => destruct x; [|discriminate] end.
  apply check_timing_latency. exact Hok.
Qed.

Lemma parse_connect_latency b t : parse_connect b = (t, Some true) -> latency t <= 499.
Proof.
  unfold parse_connect. cbn zeta. intros H. injection H as Ht Hok. subst t.
  match type of Hok with (if ?x then _ else _) = _ => destruct x; [|discriminate] end.
  apply check_timing_latency. exact Hok.
Qed.

Definition no_phy (it : list item) : Prop := forall x y, ~ In (IPhy x y) it.

(* The four things the end of a connection event / a missed event can mean for a waiting procedure.
   [lrel l s s8] relates the recorded skip to the step width l. *)
Definition ended (c : cfg) (s s8 : lstate_t) : Prop :=
  exists sx, s8 = fst (force_disconnect c sx) /\ evc (cs sx) < 65536 /\ rxq (bf sx) = rxq (bf s).
Definition idle_step (s s8 : lstate_t) : Prop :=
  deferred s = None /\ deferred s8 = None /\ st s8 = st s /\ tm s8 = tm s /\ chan s8 = chan s /\ rxq (bf s8) = rxq (bf s)
  /\ evc (cs s8) < 65536.
Definition waiting_step (b : list N) (l : N) (s s8 : lstate_t) (it8 : list item) : Prop :=
  deferred s = Some b /\ 1 <= l /\ l < dist s /\ deferred s8 = Some b /\ def_instant s8 = def_instant s /\ dist s8 = dist s - l
  /\ st s8 = st s /\ tm s8 = tm s /\ chan s8 = chan s /\ rxq (bf s8) = rxq (bf s) /\ evc (cs s8) < 65536 /\ no_phy it8.
Definition applied_step (c : cfg) (b : list N) (s s8 : lstate_t) (it8 : list item) : Prop :=
  deferred s = Some b /\ deferred s8 = None /\ evc (cs s8) = def_instant s /\ (disarmable c = true -> last_lat (cs s8) = 1)
  /\ applied b s s8 it8.

Lemma applied_keep b s s6 s8 pre it : keep s s6 -> no_phy pre -> applied b s6 s8 it -> applied b s s8 (pre ++ it).
Proof.
  intros (K1 & K2 & K3 & K4 & K5 & K6 & K7) Hp (A0 & (ws & we & A1) & A2).
  split; [congruence|]. split; [exists ws, we; apply in_or_app; right; exact A1|].
  assert (NP : no_phy it -> no_phy (pre ++ it)).
  { intros H x y F. apply in_app_or in F. destruct F as [F|F]; [exact (Hp x y F)|exact (H x y F)]. }
  destruct A2 as [(B1 & (B2 & B3 & B4) & B5)|[(B1 & B2 & (B3 & B4 & B5) & B6 & B7)|(B1 & B2 & B3 & B4 & B5 & B6)]].
  - left. split; [exact B1|]. split; [|exact (NP B5)]. unfold applied_map. rewrite <- K6, <- K5, <- K1. auto.
  - right. left. split; [exact B1|]. split; [exact B2|]. split; [|split; [exact B6|exact (NP B7)]].
    unfold applied_update. rewrite <- K6. auto.
  - right. right. split; [exact B1|]. split; [exact B2|]. repeat split; try congruence. apply in_or_app. right. exact B6.
Qed.

Lemma tpsp_items c s : no_phy (snd (transmit_pending_security_pdus c s)).
Proof.
  unfold transmit_pending_security_pdus, no_phy. intros x y.
  destruct (c_enc c && _ && _); [|cbn; tauto].
  destruct (has_key (sc s)); cbn [snd]; intros F.
  - destruct F as [F|[]]; discriminate.
  - destruct F.
Qed.

(* ---- the end of a connection event, after the receive queue was looked at *)
Lemma continue_cases c s evts s8 it8 :
  end_event_continue c s evts = Some (s8, it8) ->
  evc (cs s) < 65536 -> latency (tm s) <= 499 ->
  (forall b, deferred s = Some b -> def_instant s < 65536 /\ 1 <= dist s) ->
  ended c s s8 \/ idle_step s s8
  \/ (exists b l, waiting_step b l s s8 it8 /\ (disarmable c = true -> last_lat (cs s8) = l))
  \/ (exists b, applied_step c b s s8 it8).
Proof.
  unfold end_event_continue. intros H He Hl Hp.
  destruct (procedure_timed_out s).
  { unfold force_disconnect_reason in H. inversion H as [H1]. left. exists (set_disc_reason s GenLL.connection_ll_response_timeout).
    rewrite H1. repeat split; auto. }
  set (s5 := if negb (proc_timeout s =? 0) then _ else s) in H.
  assert (K5 : keep s s5) by (subst s5; destruct (negb _); [kp|apply keep_refl]).
  pose proof (keep_tpsp c s5) as K6. pose proof (tpsp_items c s5) as P6.
  destruct (transmit_pending_security_pdus c s5) as [s6 it6]. cbn [fst snd] in K6, P6.
  assert (K : keep s s6) by (eapply keep_trans; eassumption). clear K5 K6. clearbody s5.
  destruct K as (K1 & K2 & K3 & K4 & K5 & K6 & K7).
  match type of H with context [plan_next_connection_event c s6 ?e] => destruct (plan_next_connection_event c s6 e) as [s7|] eqn:E7 end;
    cbn [obind] in H; [|discriminate].
  destruct (pending_then_setup c s7) as [[s8' it8']|] eqn:E8; cbn [obind] in H; [|discriminate].
  inversion H; subst s8' it8. clear H.
  destruct (plan_spec c s6 _ s7 E7) as (l & t & ll & -> & Hl1 & Hd1 & Hd2 & Hl2); [congruence|congruence|].
  destruct (deferred s) as [b|] eqn:D.
  - destruct (Hp b eq_refl) as (P1 & P2).
    assert (D6 : deferred s6 = Some b) by congruence.
    assert (X6 : dist s6 = dist s) by (unfold dist; congruence).
    assert (L6 : 1 <= l <= dist s6) by (split; [lia|apply (Hl2 b D6); [congruence|lia]]).
    destruct (advance_pending c s6 l t ll b s8 it8' E8 D6) as [(sx & X1 & X2 & X3)|[(A1 & A2 & A3 & A4)|(A1 & A2 & A3 & A4 & A5)]];
      [congruence|congruence|exact L6| | |].
    + left. exists sx. repeat split; auto. congruence.
    + right. right. left. exists b, l. split.
      * unfold waiting_step. split; [first [exact D|reflexivity]|]. split; [lia|]. split; [lia|].
        split; [subst s8; cbn [deferred set_pending_event set_cs]; exact D6|].
        split; [subst s8; cbn [def_instant set_pending_event set_cs]; congruence|].
        split; [rewrite A3; congruence|].
        subst s8. cbn [st tm chan bf cs evc set_pending_event set_cs].
        split; [congruence|]. split; [congruence|]. split; [congruence|]. split; [congruence|]. split; [apply u16_lt|].
        intros x y F. apply in_app_or in F. destruct F as [F|F]; [exact (P6 x y F)|exact (A4 x y F)].
      * intros Hd. subst s8. cbn [cs last_lat set_pending_event set_cs]. exact (Hd1 Hd).
    + right. right. right. exists b. unfold applied_step.
      split; [first [exact D|reflexivity]|]. split; [exact A2|]. split; [congruence|]. split; [intros Hd; rewrite A4, Hd; reflexivity|].
      apply applied_keep with s6; auto. repeat split; auto; congruence.
  - assert (D7 : deferred (set_cs s6 (mk_cstate ((ch_idx (cs s6) + l) mod 37) (u16 (evc (cs s6) + l)) t ll)) = None)
      by (cbn [deferred set_cs]; congruence).
    destruct (pending_not_yet c _ s8 it8' E8 (or_introl D7)) as [-> _].
    right. left. unfold idle_step. cbn [deferred st tm chan bf cs evc set_pending_event set_cs].
    repeat split; try congruence. apply u16_lt.
Qed.

(* ---- a missed event *)
Lemma missed_cases c s s1 s8 it8 :
  plan_after_timeout s = Some s1 -> pending_then_setup c s1 = Some (s8, it8) ->
  evc (cs s) < 65536 ->
  (forall b, deferred s = Some b -> def_instant s < 65536 /\ 1 <= dist s) ->
  ended c s s8 \/ idle_step s s8
  \/ (exists b, waiting_step b 1 s s8 it8 /\ last_lat (cs s8) = last_lat (cs s))
  \/ (exists b, applied_step c b s s8 it8).
Proof.
  unfold plan_after_timeout. intros H1 H8 He Hp.
  destruct (dt_add _ _) as [t|]; cbn [obind] in H1; [|discriminate]. inversion H1 as [H1']. clear H1.
  unfold upd_cs in H1'. subst s1.
  destruct (deferred s) as [b|] eqn:D.
  - destruct (Hp b eq_refl) as (P1 & P2).
    destruct (advance_pending c s 1 t (last_lat (cs s)) b s8 it8 H8 D He P1) as [(sx & X1 & X2 & X3)|[(A1 & A2 & A3 & A4)|(A1 & A2 & A3 & A4 & A5)]];
      [lia| | |].
    + left. exists sx. repeat split; auto.
    + right. right. left. exists b. split.
      * unfold waiting_step. split; [first [exact D|reflexivity]|]. split; [lia|]. split; [lia|].
        split; [subst s8; cbn [deferred set_pending_event set_cs]; exact D|].
        split; [subst s8; reflexivity|].
        split; [exact A3|].
        subst s8. cbn [st tm chan bf cs evc set_pending_event set_cs].
        split; [reflexivity|]. split; [reflexivity|]. split; [reflexivity|]. split; [reflexivity|]. split; [apply u16_lt|exact A4].
      * subst s8. reflexivity.
    + right. right. right. exists b. unfold applied_step.
      split; [first [exact D|reflexivity]|]. split; [exact A2|]. split; [exact A3|]. split; [intros Hd; rewrite A4, Hd; reflexivity|exact A5].
  - assert (D7 : deferred (set_cs s (mk_cstate ((ch_idx (cs s) + 1) mod 37) (u16 (evc (cs s) + 1)) t (last_lat (cs s)))) = None)
      by (cbn [deferred set_cs]; exact D).
    destruct (pending_not_yet c _ s8 it8 H8 (or_introl D7)) as [-> _].
    right. left. unfold idle_step. cbn [deferred st tm chan bf cs evc set_pending_event set_cs].
    repeat split; try congruence. apply u16_lt.
Qed.

(* ========================================================================================== the invariant after a step *)
Lemma Inv_ended c s s8 : ended c s s8 -> pdus_ok (rxq (bf s)) -> Inv c s8.
Proof. intros (sx & -> & X2 & X3) R. apply Inv_force_disconnect; [exact X2|rewrite X3; exact R]. Qed.

Lemma Inv_idle_step c s s8 :
  idle_step s s8 -> in_connection s = true -> latency (tm s) <= 499 -> pdus_ok (rxq (bf s)) -> Inv c s8.
Proof.
  intros (A1 & A2 & A3 & A4 & A5 & A6 & A7) C L R. unfold Inv.
  split; [exact A7|]. split; [intros _; exact A2|]. split; [intros _; rewrite A4; exact L|].
  split; [intros b F; congruence|rewrite A6; exact R].
Qed.

Lemma Inv_waiting c b l s s8 it8 :
  waiting_step b l s s8 it8 -> in_connection s = true -> latency (tm s) <= 499 -> pdus_ok (rxq (bf s)) ->
  def_instant s < 65536 -> dist s <= 32766 -> (disarmable c = true -> dist s8 + last_lat (cs s8) <= 32767) -> Inv c s8.
Proof.
  intros (A1 & A2 & A3 & A4 & A5 & A6 & A7 & A8 & A9 & A10 & A11 & A12) C L R Hi Hd Hll. unfold Inv.
  split; [exact A11|]. split; [rewrite (in_connection_st _ _ A7), C; discriminate|]. split; [intros _; rewrite A8; exact L|].
  split; [|rewrite A10; exact R].
  intros b' _. split; [congruence|lia|lia|exact Hll].
Qed.

Lemma Inv_applied c b s s8 it8 :
  applied_step c b s s8 it8 -> in_connection s = true -> latency (tm s) <= 499 -> pdus_ok (rxq (bf s)) ->
  def_instant s < 65536 -> Inv c s8 /\ in_connection s8 = true.
Proof.
  intros (A1 & A2 & A3 & A4 & A5 & A6 & A7) C L R Hi.
  assert (X : in_connection s8 = true /\ latency (tm s8) <= 499).
  { destruct A7 as [(B1 & (B2 & B3 & B4) & B5)|[(B1 & B2 & (B3 & B4 & B5) & B6 & B7)|(B1 & B2 & B3 & B4 & B5 & B6)]].
    - rewrite (in_connection_st _ _ B4), B3. auto.
    - split; [unfold in_connection; rewrite B5; reflexivity|]. rewrite B3.
      destruct (parse_update b) as [t ok] eqn:P. cbn [fst snd] in *. subst ok. exact (parse_update_latency b t P).
    - rewrite (in_connection_st _ _ B5), B3. auto. }
  destruct X as (X1 & X2). split; [|exact X1]. unfold Inv.
  split; [rewrite A3; exact Hi|]. split; [intros _; exact A2|]. split; [intros _; exact X2|].
  split; [intros b' F; congruence|rewrite A5; exact R].
Qed.

(* ========================================================================================== end_event *)
Lemma prologue_frame c s :
  let sP := end_event_prologue c s in
  in_connection s = true ->
  in_connection sP = true /\ cs sP = cs s /\ deferred sP = deferred s /\ def_instant sP = def_instant s
  /\ latency (tm sP) = latency (tm s) /\ rxq (bf sP) = rxq (bf s) /\ chan sP = chan s.
Proof.
  unfold end_event_prologue. intros C.
  set (s0 := set_pending_event s false).
  set (s1 := match st s0 with Connecting => _ | _ => s0 end).
  assert (K : keep s s1).
  { apply keep_trans with s0; [subst s0; kp|]. subst s1. destruct (st s0); try apply keep_refl. apply keep_push_event. }
  destruct K as (K1 & K2 & K3 & K4 & K5 & K6 & K7). clearbody s1.
  destruct (lstate_eqb (st s1) Disconnecting).
  - rewrite (in_connection_st _ _ K1). repeat split; congruence.
  - cbn [in_connection st cs deferred def_instant tm bf chan latency upd_tm set_tm set_st set_tw_size].
    repeat split; congruence.
Qed.

Lemma Inv_end_event c s evts s' it :
  Inv c s -> in_connection s = true -> do_end_event c s evts = Some (s', it) -> Inv c s'.
Proof.
  intros (I1 & I2 & I3 & I4 & I5) C H. unfold do_end_event in H.
  destruct (end_event_body c (end_event_prologue c s) evts) as [[s9 it9]|] eqn:B; cbn [obind] in H; [|discriminate].
  assert (E' : s' = fst (end_event_epilogue c s9 it9)) by (inversion H; reflexivity). subst s'. clear H.
  apply Inv_keep with s9; [apply keep_epilogue|].
  destruct (prologue_frame c s C) as (P1 & P2 & P3 & P4 & P5 & P6 & P7).
  set (sP := end_event_prologue c s) in *. clearbody sP.
  unfold end_event_body in B.
  destruct (lstate_eqb (st sP) Disconnecting && term_sent sP && negb (pending_outgoing_data_available sP)).
  { inversion B as [B']. pose proof (Inv_force_disconnect c sP) as X. rewrite B' in X. cbn [fst] in X. apply X; congruence. }
  pose proof (hrd_cases c (S (length (rxq (bf sP)))) sP) as R. cbn zeta in R.
  destruct (handle_received_data (S (length (rxq (bf sP)))) c sP) as [[s3 it3] res]. cbn [fst snd] in R.
  destruct R as (R1 & R2 & R3 & R4 & R5 & R6).
  assert (Rx3 : pdus_ok (rxq (bf s3))).
  { unfold pdus_ok in *. rewrite Forall_forall in *. intros p Hp. apply I5. rewrite <- P6. apply R5. exact Hp. }
  assert (E3 : evc (cs s3) < 65536) by congruence.
  destruct res.
  2:{ destruct (force_disconnect c s3) as [s4 it4] eqn:F. inversion B; subst s9 it9.
      pose proof (Inv_force_disconnect c s3 E3 Rx3) as X. rewrite F in X. exact X. }
  destruct (end_event_continue c (send_control_pdus s3) evts) as [[s8 it8]|] eqn:E; cbn [obind] in B; [|discriminate].
  inversion B; subst s9 it9. clear B.
  destruct (keep_send_control s3) as (K1 & K2 & K3 & K4 & K5 & K6 & K7).
  set (s4 := send_control_pdus s3) in *. clearbody s4.
  assert (C4 : in_connection s4 = true) by (rewrite (in_connection_st s3 s4 K1), (in_connection_st sP s3 R1); exact P1).
  assert (L4 : latency (tm s4) <= 499) by (rewrite K5, R3, P5; apply I3; exact C).
  assert (E4 : evc (cs s4) < 65536) by congruence.
  assert (Rx4 : pdus_ok (rxq (bf s4))) by (rewrite K7; exact Rx3).
  (* what waits before planning: it waited before, or it was accepted in this event *)
  assert (W : forall b, deferred s4 = Some b -> def_instant s4 < 65536 /\ 1 <= dist s4 <= 32766).
  { intros b D. unfold dist. rewrite K4, K2, K3 in *. 
    destruct R6 as [(Ra & Rb)|[Ra|(Ra & Rb & b' & Rc & (i & Rd) & l & Re)]]; [| discriminate |].
    - rewrite Ra, P3 in D. destruct (I4 b D) as [Q1 Q2 Q3 Q4]. unfold dist in *. rewrite Rb, R2, P4, P2. auto.
    - split.
      + rewrite Rd. apply rd16_lt. unfold pdus_ok in I5. rewrite Forall_forall in I5.
        apply (I5 (l, b')). rewrite <- P6. exact Re.
      + rewrite R2. apply instant_not_passed. exact Rb. }
  destruct (continue_cases c s4 evts s8 it8 E E4 L4) as [X|[X|[(b & l & X & Y)|(b & X)]]].
  - intros b D. destruct (W b D) as (W1 & W2). split; [exact W1|lia].
  - exact (Inv_ended c s4 s8 X Rx4).
  - exact (Inv_idle_step c s4 s8 X C4 L4 Rx4).
  - pose proof X as X'. destruct X' as (A1 & A2 & A3 & A4 & A5 & A6 & _). destruct (W b A1) as (W1 & W2).
    apply (Inv_waiting c b l s4 s8 it8 X C4 L4 Rx4 W1); [lia|]. intros Hd. rewrite (Y Hd), A6. lia.
  - pose proof X as X'. destruct X' as (A1 & _). destruct (W b A1) as (W1 & W2).
    exact (proj1 (Inv_applied c b s4 s8 it8 X C4 L4 Rx4 W1)).
Qed.

(* ========================================================================================== the radio's part of an event *)
Definition same6 (s s' : lstate_t) : Prop :=
  st s' = st s /\ cs s' = cs s /\ deferred s' = deferred s /\ def_instant s' = def_instant s /\ tm s' = tm s /\ chan s' = chan s.

Lemma Inv_same6 c s s' : same6 s s' -> pdus_ok (rxq (bf s')) -> Inv c s -> Inv c s'.
Proof.
  intros (K1 & K2 & K3 & K4 & K5 & K6) R (I1 & I2 & I3 & I4 & I5). unfold Inv.
  rewrite (in_connection_st _ _ K1), K2, K3, K5.
  split; [exact I1|]. split; [exact I2|]. split; [exact I3|]. split; [|exact R].
  intros b D. destruct (I4 b D) as [P1 P2 P3 P4]. split; unfold dist in *; rewrite ?K4, ?K2; auto.
Qed.

Lemma radio_exchange_frame s rx :
  let s1 := fst (fst (radio_exchange s rx)) in
  same6 s s1 /\ (pdus_ok (rxq (bf s)) -> match rx with Some p => bytes_ok (snd p) | None => True end -> pdus_ok (rxq (bf s1))).
Proof.
  unfold radio_exchange. cbn zeta.
  set (rq := match rx with Some (llid, body) => _ | None => rxq (bf s) end).
  assert (Hrq : pdus_ok (rxq (bf s)) -> match rx with Some p => bytes_ok (snd p) | None => True end -> pdus_ok rq).
  { intros R P. subst rq. destruct rx as [[llid body]|]; [|exact R].
    destruct (negb _ && negb _); [|exact R]. unfold pdus_ok. apply Forall_app. split; [exact R|]. constructor; [exact P|constructor]. }
  destruct (match fl (bf s) with FHead => tl (txq (bf s)) | _ => txq (bf s) end) as [|[l b] rest]; cbn [fst];
    (split; [repeat split; reflexivity|exact Hrq]).
Qed.

Lemma radio_event_frame : forall fuel s pdus,
  pdus_ok pdus -> pdus_ok (rxq (bf s)) ->
  let s1 := fst (radio_event fuel s pdus) in same6 s s1 /\ pdus_ok (rxq (bf s1)).
Proof.
  induction fuel as [|fuel IH]; intros s pdus P R; cbn [radio_event].
  - cbn [fst]. split; [repeat split; reflexivity|exact R].
  - pose proof (radio_exchange_frame s (hd_error pdus)) as X. cbn zeta in X.
    destruct (radio_exchange s (hd_error pdus)) as [[s1 it] md]. cbn [fst] in X.
    destruct X as (X1 & X2).
    assert (R1 : pdus_ok (rxq (bf s1))).
    { apply X2; [exact R|]. destruct pdus as [|p r]; cbn [hd_error]; [exact I|]. inversion P; assumption. }
    assert (P' : pdus_ok (tl pdus)) by (destruct pdus; [exact P|inversion P; assumption]).
    destruct (match tl pdus with [] => md | _ => true end).
    + specialize (IH s1 (tl pdus) P' R1). cbn zeta in IH.
      destruct (radio_event fuel s1 (tl pdus)) as [s2 it2]. cbn [fst] in *.
      destruct IH as ((A1 & A2 & A3 & A4 & A5 & A6) & IR). destruct X1 as (B1 & B2 & B3 & B4 & B5 & B6).
      split; [repeat split; congruence|exact IR].
    + cbn [fst]. split; [exact X1|exact R1].
Qed.

(* ========================================================================================== timeout() *)
Lemma Inv_timeout c s s' it :
  Inv c s -> in_connection s = true -> do_timeout c s = Some (s', it) -> Inv c s'.
Proof.
  intros I C H. unfold do_timeout in H.
  set (s0 := set_pending_event s false) in H.
  assert (K0 : keep s s0) by (subst s0; kp).
  pose proof (Inv_keep c s s0 K0 I) as I0.
  assert (C0 : in_connection s0 = true) by (rewrite (in_connection_st s s0 (proj1 K0)); exact C).
  clearbody s0. clear K0 I C s.
  destruct I0 as (I1 & I2 & I3 & I4 & I5).
  match type of H with (do r <- ?x; _) = _ => destruct x as [[s2 it2]|] eqn:B end; cbn [obind] in H; [|discriminate].
  assert (E' : s' = fst (flush_events s2)) by (destruct (flush_events s2); inversion H; reflexivity). subst s'. clear H.
  apply Inv_keep with s2; [unfold flush_events; cbn [fst]; kp|].
  destruct (lstate_eqb (st s0) Disconnecting && term_sent s0 && negb (pending_outgoing_data_available s0)).
  { inversion B as [B']. pose proof (Inv_force_disconnect c s0 I1 I5) as X. rewrite B' in X. exact X. }
  destruct (negb (proc_timeout s0 =? 0) && (proc_timeout s0 <=? tsle (cs s0))).
  { inversion B as [B']. unfold force_disconnect_reason in B'.
    pose proof (Inv_force_disconnect c (set_disc_reason s0 GenLL.connection_ll_response_timeout) I1 I5) as X. rewrite B' in X. exact X. }
  destruct (dt_mul _ _) as [five|]; cbn [obind] in B; [|discriminate].
  destruct ((tsle (cs s0) <? conn_timeout (tm s0)) && _).
  2:{ inversion B as [B']. pose proof (Inv_force_disconnect c s0 I1 I5) as X. rewrite B' in X. exact X. }
  destruct (plan_after_timeout s0) as [s1|] eqn:E1; cbn [obind] in B; [|discriminate].
  destruct (missed_cases c s0 s1 s2 it2 E1 B I1) as [X|[X|[(b & X & Y)|(b & X)]]].
  - intros b D. destruct (I4 b D) as [Q1 Q2 Q3 Q4]. auto.
  - exact (Inv_ended c s0 s2 X I5).
  - exact (Inv_idle_step c s0 s2 X C0 (I3 C0) I5).
  - pose proof X as X'. destruct X' as (A1 & A2 & A3 & A4 & A5 & A6 & _). destruct (I4 b A1) as [Q1 Q2 Q3 Q4].
    apply (Inv_waiting c b 1 s0 s2 it2 X C0 (I3 C0) I5 Q1 Q3). intros Hd. rewrite Y, A6. specialize (Q4 Hd). lia.
  - pose proof X as X'. destruct X' as (A1 & _). destruct (I4 b A1) as [Q1 Q2 Q3 Q4].
    exact (proj1 (Inv_applied c b s0 s2 it2 X C0 (I3 C0) I5 Q1)).
Qed.

(* ========================================================================================== try_event_cancelation() *)
Lemma Inv_cancel c s bb us s' it : Inv c s -> do_cancel c s bb us = Some (s', it) -> Inv c s'.
Proof.
  intros I H. unfold do_cancel in H.
  destruct ((lstate_eqb (st s) Connected || lstate_eqb (st s) Connecting) && pending_event s && disarmable c && negb (last_lat (cs s) =? 1)) eqn:G;
    [|inversion H; subst; exact I].
  destruct bb; [|inversion H; subst; exact I].
  destruct (interval (tm s) =? 0); [discriminate|].
  destruct (dt_add us (interval (tm s))) as [sum|]; cbn [obind] in H; [|discriminate].
  destruct (dt_sub sum 1) as [sum1|]; cbn [obind] in H; [|discriminate].
  set (times := N.max 1 (sum1 / interval (tm s))) in H.
  set (moved := N.min times (last_lat (cs s))) in H.
  set (count := last_lat (cs s) - moved) in H.
  destruct (499 <? count) eqn:G499; [discriminate|].
  destruct (dt_mul _ count) as [back|]; cbn [obind] in H; [|discriminate].
  destruct (dt_sub _ back) as [t|]; cbn [obind] in H; [|discriminate].
  set (s1 := set_cs s _) in H.
  destruct (setup_next_connection_event s1) as [[s2 it2]|] eqn:E2; cbn [obind] in H; [|discriminate].
  inversion H; subst s' it. clear H.
  destruct (setup_next_spec _ _ _ E2) as [-> _].
  assert (Hd : disarmable c = true) by (destruct (disarmable c); [reflexivity|rewrite !andb_false_r in G; cbn in G; discriminate]).
  assert (Hc : count = 0 \/ count + 1 <= last_lat (cs s)).
  { subst count moved times. destruct (N.eq_dec (last_lat (cs s)) 0) as [Z|Z]; [left; lia|right].
    assert (1 <= N.min (N.max 1 (sum1 / interval (tm s))) (last_lat (cs s))) by (apply N.min_glb; lia). lia. }
  destruct I as (I1 & I2 & I3 & I4 & I5). unfold Inv.
  assert (S1 : st (set_pending_event s1 true) = st s /\ tm (set_pending_event s1 true) = tm s /\ deferred (set_pending_event s1 true) = deferred s
               /\ rxq (bf (set_pending_event s1 true)) = rxq (bf s) /\ def_instant (set_pending_event s1 true) = def_instant s
               /\ cs (set_pending_event s1 true) = mk_cstate ((ch_idx (cs s) + 518 - count) mod 37) (u16 (evc (cs s) + 65536 - count)) t 1)
    by (subst s1; repeat split; reflexivity).
  destruct S1 as (S1 & S2 & S3 & S4 & S5 & S6).
  rewrite (in_connection_st _ _ S1), S2, S3, S4, S6. cbn [evc last_lat].
  split; [apply u16_lt|]. split; [exact I2|]. split; [exact I3|]. split; [|exact I5].
  intros b D. destruct (I4 b D) as [Q1 Q2 Q3 Q4]. specialize (Q4 Hd).
  assert (Xd : dist (set_pending_event s1 true) = dist s + count).
  { unfold dist. rewrite S5, S6. cbn [evc]. apply dist_back; auto. fold (dist s). lia. }
  split; [congruence|lia| |intros _; rewrite S6; cbn [last_lat]]; lia.
Qed.

(* ========================================================================================== adv_received() *)
Lemma adv_frame c s hdr0 body :
  match do_adv_received c s hdr0 body with
  | Some (s', it) =>
      (st s' = Connecting /\ cs s' = mk_cstate 0 0 0 1 /\ deferred s' = deferred s /\ rxq (bf s') = [] /\ latency (tm s') <= 499)
      \/ (st s' = st s /\ cs s' = cs s /\ deferred s' = deferred s /\ rxq (bf s') = rxq (bf s))
  | None => True
  end.
Proof.
  unfold do_adv_received.
  destruct (valid_connect_request c hdr0 body); [|cbn; right; auto].
  destruct (ChanMapModel.reset_impl _ _ _) as [ch r].
  destruct r as [[|]| | | |]; try exact I; [|cbn; right; auto].
  destruct (parse_connect body) as [t ok] eqn:P.
  destruct ok as [[|]|]; try exact I; [|cbn; right; auto].
  cbn zeta.
  match goal with |- context [setup_next_connection_event ?x] => generalize (setup_next_spec x); destruct (setup_next_connection_event x) as [[s11 it11]|] end;
    cbn [obind]; [|intros _; exact I].
  intros G. destruct (G s11 it11 eq_refl) as [-> _]. clear G.
  unfold flush_events. left.
  match goal with |- context [set_ring (push_event c ?x ?e) []] => pose proof (keep_push_event c x e) as K end.
  destruct K as (K1 & K2 & K3 & K4 & K5 & K6 & K7).
  cbn [st cs deferred bf tm set_ring]. rewrite K1, K2, K3, K5, K7.
  split; [vm_compute; reflexivity|]. split; [vm_compute; reflexivity|]. split; [vm_compute; reflexivity|]. split; [vm_compute; reflexivity|].
  cbn [tm latency upd_sc set_sc set_pending_event upd_ac set_ac upd_bf set_bf set_proc_timeout set_disc_reason upd_pr set_pr set_used_features set_sca set_st set_cs set_tm].
  exact (parse_connect_latency body t P).
Qed.

Lemma Inv_adv c s hdr0 body s' it :
  Inv c s -> st s = Advertising -> do_adv_received c s hdr0 body = Some (s', it) -> Inv c s'.
Proof.
  intros (I1 & I2 & I3 & I4 & I5) S H.
  assert (D : deferred s = None) by (apply I2; unfold in_connection; rewrite S; reflexivity).
  pose proof (adv_frame c s hdr0 body) as F. rewrite H in F.
  destruct F as [(F1 & F2 & F3 & F4 & F5)|(F1 & F2 & F3 & F4)].
  - unfold Inv. unfold in_connection. rewrite F1, F2, F3, F4. cbn [evc].
    split; [lia|]. split; [discriminate|]. split; [intros _; exact F5|]. split; [intros b F; congruence|constructor].
  - apply Inv_advertising; congruence.
Qed.

(* ========================================================================================== every operation *)
Theorem lstep_inv c s o : Inv c s -> op_ok o -> Inv c (fst (lstep c s o)).
Proof.
  intros I Ho. destruct o; cbn [lstep].
  - (* Run *) destruct (st s) eqn:S; cbn [fst]; try exact I.
    unfold start_advertising_impl, handle_start_advertising. cbn [fst].
    destruct I as (I1 & I2 & I3 & I4 & I5). apply Inv_advertising; auto.
  - (* AdvTimeout *) destruct (st s) eqn:S; cbn [fst]; try exact I.
    unfold handle_adv_timeout. cbn [fst]. apply Inv_keep with s; [kp|exact I].
  - (* Adv *) destruct (st s) eqn:S; cbn [fst]; try exact I.
    destruct (255 <? _); cbn [fst]; [exact I|].
    destruct (do_adv_received c s hdr0 body) as [[s' it]|] eqn:E; cbn [ok_items fst]; [|exact I].
    exact (Inv_adv c s hdr0 body s' it I S E).
  - (* Ev *) destruct (in_connection s) eqn:C; cbn [fst]; [|exact I].
    match goal with |- context [existsb ?f pdus] => destruct (existsb f pdus) end; cbn [fst]; [exact I|].
    pose proof (radio_event_frame (S (length pdus + length (txq (bf s)))) s pdus Ho (proj2 (proj2 (proj2 (proj2 I))))) as R.
    cbn zeta in R. destruct (radio_event _ s pdus) as [s1 it1]. cbn [fst] in R. destruct R as (R1 & R2).
    pose proof (Inv_same6 c s s1 R1 R2 I) as I1.
    assert (C1 : in_connection s1 = true) by (rewrite (in_connection_st s s1 (proj1 R1)); exact C).
    destruct (do_end_event c s1 evts) as [[s2 it2]|] eqn:E; cbn [fst]; [|exact I1].
    exact (Inv_end_event c s1 evts s2 it2 I1 C1 E).
  - (* Timeout *) destruct (in_connection s) eqn:C; cbn [fst]; [|exact I].
    destruct (do_timeout c s) as [[s' it]|] eqn:E; cbn [ok_items fst]; [|exact I].
    exact (Inv_timeout c s s' it I C E).
  - (* Disconnect *) destruct (in_connection s) eqn:C; cbn [fst]; [|exact I].
    match goal with |- context [reset_encryption c ?x] => pose proof (reset_encryption_keep c x) as K; destruct (reset_encryption c x) as [s2 it2] end.
    cbn [fst] in *. destruct I as (I1 & I2 & I3 & I4 & I5).
    destruct K as (K1 & K2 & K3 & K4 & K5 & K6 & K7). cbn [st cs deferred def_instant tm chan bf set_proc_timeout set_disc_reason set_term_sent set_st] in *.
    unfold Inv. unfold in_connection at 1 2. rewrite K1, K2, K3, K5, K7.
    split; [exact I1|]. split; [discriminate|]. split; [intros _; exact (I3 C)|]. split; [|exact I5].
    intros b Db. destruct (I4 b Db) as [Q1 Q2 Q3 Q4]. split; unfold dist in *; rewrite ?K4, ?K2; auto.
  - (* Cpu *) destruct (in_connection s); cbn [fst]; [|exact I].
    destruct (bit _ _); [destruct (cpr_pending (pr s))|]; cbn [fst]; try exact I. apply Inv_keep with s; [kp|exact I].
  - (* Cpr *) destruct (in_connection s); cbn [fst]; [|exact I].
    destruct (_ || _); cbn [fst]; try exact I. apply Inv_keep with s; [kp|exact I].
  - (* PhyReq *) destruct (in_connection s); cbn [fst]; [|exact I].
    destruct (phy_pending (pr s)); cbn [fst]; try exact I. apply Inv_keep with s; [kp|exact I].
  - (* VerReq *) destruct (in_connection s); cbn [fst]; [|exact I].
    destruct (_ || _); cbn [fst]; try exact I. apply Inv_keep with s; [kp|exact I].
  - (* TxAvail *) cbn [fst]. apply Inv_keep with s; [kp|exact I].
  - (* Cancel *) destruct (do_cancel c s b us) as [[s' it]|] eqn:E; cbn [ok_items fst]; [|exact I].
    exact (Inv_cancel c s b us s' it I E).
  - (* CprReply *) destruct (c_cpr c); cbn [fst]; try exact I. apply Inv_keep with s; [kp|exact I].
  - (* CprNeg *) destruct (c_cpr c); cbn [fst]; try exact I. apply Inv_keep with s; [kp|exact I].
  - (* Key *) cbn [fst]. apply Inv_keep with s; [kp|exact I].
  - (* St *) exact I.
Qed.

Lemma Inv_init c : Inv c (linit c).
Proof.
  unfold Inv, linit. cbn [cs evc in_connection st deferred tm latency bf rxq].
  split; [lia|]. split; [reflexivity|]. split; [discriminate|]. split; [intros b F; discriminate|constructor].
Qed.

Theorem invariant_all_traces c : forall ops s, Inv c s -> Forall op_ok ops -> Inv c (lfinal c s ops).
Proof.
  induction ops as [|o t IH]; intros s I H; cbn [lfinal]; [exact I|].
  inversion H; subst. apply IH; [apply lstep_inv; assumption|assumption].
Qed.

(* ========================================================================================== a waiting procedure, one event later *)
Lemma applied_keep_r b s s8 s' it post : keep s8 s' -> no_phy post -> applied b s s8 it -> applied b s s' (it ++ post).
Proof.
  intros (K1 & K2 & K3 & K4 & K5 & K6 & K7) Hp (A0 & (ws & we & A1) & A2).
  split; [congruence|]. split.
  { exists ws, we. apply in_or_app. left. unfold data_channel in *. rewrite K2, K6, K5. exact A1. }
  assert (NP : no_phy it -> no_phy (it ++ post)).
  { intros H x y F. apply in_app_or in F. destruct F as [F|F]; [exact (H x y F)|exact (Hp x y F)]. }
  destruct A2 as [(B1 & (B2 & B3 & B4) & B5)|[(B1 & B2 & (B3 & B4 & B5) & B6 & B7)|(B1 & B2 & B3 & B4 & B5 & B6)]].
  - left. split; [exact B1|]. split; [|exact (NP B5)]. unfold applied_map. rewrite K6, K5, K1. auto.
  - right. left. split; [exact B1|]. split; [exact B2|]. split; [|split; [exact B6|exact (NP B7)]].
    unfold applied_update. rewrite K6, K5, K1. auto.
  - right. right. split; [exact B1|]. split; [exact B2|]. repeat split; try congruence. apply in_or_app. left. exact B6.
Qed.

Lemma flush_no_phy s : no_phy (snd (flush_events s)).
Proof. unfold flush_events, no_phy. cbn [snd]. intros x y F. apply in_map_iff in F. destruct F as (e & F & _). discriminate. Qed.

(* the outcome of an event (taken place or missed) for a procedure [b] that waited in [s0]; [s] = the state the planning
   starts from (same connection parameters and channel map as [s0], see the theorems below) *)
Definition outcome (c : cfg) (b : list N) (s s' : lstate_t) (it : list item) : Prop :=
  st s' = Advertising
  \/ (deferred s' = Some b /\ def_instant s' = def_instant s /\ 1 <= dist s' /\ dist s' < dist s
      /\ st s' = st s /\ tm s' = tm s /\ chan s' = chan s /\ rxq (bf s') = rxq (bf s) /\ no_phy it)
  \/ (deferred s' = None /\ evc (cs s') = def_instant s /\ (disarmable c = true -> last_lat (cs s') = 1) /\ applied b s s' it).

Lemma ended_advertising c s s8 : ended c s s8 -> st s8 = Advertising.
Proof. intros (sx & -> & _). exact (proj1 (force_disconnect_frame c sx)). Qed.

Lemma continue_outcome c s evts s8 it8 b :
  end_event_continue c s evts = Some (s8, it8) -> deferred s = Some b ->
  evc (cs s) < 65536 -> latency (tm s) <= 499 -> def_instant s < 65536 -> 1 <= dist s ->
  outcome c b s s8 it8.
Proof.
  intros H D He Hl Hi Hd.
  destruct (continue_cases c s evts s8 it8 H He Hl) as [X|[X|[(b' & l & X & Y)|(b' & X)]]].
  - intros b0 D0. auto.
  - left. exact (ended_advertising c s s8 X).
  - destruct X as (X & _). congruence.
  - destruct X as (A1 & A2 & A3 & A4 & A5 & A6 & A7 & A8 & A9 & A10 & A11 & A12).
    assert (b' = b) by congruence. subst b'.
    right. left. split; [exact A4|]. split; [exact A5|]. split; [lia|]. split; [lia|].
    split; [exact A7|]. split; [exact A8|]. split; [exact A9|]. split; [exact A10|exact A12].
  - destruct X as (A1 & A2 & A3 & A4 & A5). assert (b' = b) by congruence. subst b'.
    right. right. split; [exact A2|]. split; [exact A3|]. split; [exact A4|exact A5].
Qed.

(* end_event(): while the procedure waits nothing of the receive queue is looked at, and the event ends the link, brings the
   instant nearer, or is the instant *)
Theorem end_event_pending c s evts s' it b :
  Inv c s -> in_connection s = true -> deferred s = Some b -> do_end_event c s evts = Some (s', it) ->
  exists it', outcome c b (end_event_prologue c s) s' it'
              /\ (forall x, In x it' -> In x it) /\ (forall x y, In (IPhy x y) it -> st s' = Advertising \/ In (IPhy x y) it').
Proof.
  intros (I1 & I2 & I3 & I4 & I5) C D H. unfold do_end_event in H.
  destruct (end_event_body c (end_event_prologue c s) evts) as [[s9 it9]|] eqn:B; cbn [obind] in H; [|discriminate].
  assert (E' : s' = fst (end_event_epilogue c s9 it9) /\ it = snd (end_event_epilogue c s9 it9)) by (inversion H; split; reflexivity).
  destruct E' as (-> & ->). clear H.
  pose proof (keep_epilogue c s9 it9) as KE.
  assert (IE : snd (end_event_epilogue c s9 it9) = it9 ++ snd (flush_events (match st s9 with Connected | Connecting => transmit_pending_control_pdus c s9 | _ => s9 end))).
  { unfold end_event_epilogue. destruct (flush_events _). reflexivity. }
  set (post := snd (flush_events _)) in IE. assert (NPo : no_phy post) by apply flush_no_phy. clearbody post.
  set (s11 := fst (end_event_epilogue c s9 it9)) in *. clearbody s11. rewrite IE. clear IE.
  destruct (prologue_frame c s C) as (P1 & P2 & P3 & P4 & P5 & P6 & P7).
  set (sP := end_event_prologue c s) in *. clearbody sP.
  destruct (I4 b D) as [Q1 Q2 Q3 Q4].
  assert (DP : deferred sP = Some b) by congruence.
  assert (XP : dist sP = dist s) by (unfold dist; congruence).
  unfold end_event_body in B.
  destruct (lstate_eqb (st sP) Disconnecting && term_sent sP && negb (pending_outgoing_data_available sP)).
  { inversion B as [B']. exists []. split.
    - left. destruct KE as (K1 & _). rewrite K1. pose proof (force_disconnect_frame c sP) as X. rewrite B' in X. exact (proj1 X).
    - split; [intros x []|]. intros x y F. left.
      destruct KE as (K1 & _). rewrite K1. pose proof (force_disconnect_frame c sP) as X. rewrite B' in X. exact (proj1 X). }
  rewrite (hrd_blocked c _ sP b DP) in B.
  destruct (end_event_continue c (send_control_pdus sP) evts) as [[s8 it8]|] eqn:E; cbn [obind] in B; [|discriminate].
  inversion B; subst s9 it9. clear B. cbn [app].
  destruct (keep_send_control sP) as (K1 & K2 & K3 & K4 & K5 & K6 & K7).
  set (s4 := send_control_pdus sP) in *. clearbody s4.
  assert (O : outcome c b s4 s8 it8).
  { apply (continue_outcome c s4 evts s8 it8 b E); try congruence.
    - rewrite K5, P5. apply I3. exact C.
    - unfold dist. rewrite K4, K2. fold (dist sP). lia. }
  exists (it8 ++ post). split; [|split; [auto|intros x y F; right; exact F]].
  destruct KE as (E1 & E2 & E3 & E4 & E5 & E6 & E7).
  destruct O as [O|[(O1 & O2 & O3 & O4 & O5 & O6 & O7 & O8 & O9)|(O1 & O2 & O3 & O4)]].
  - left. congruence.
  - right. left. unfold dist in *. rewrite E2, E3, E4, E1, E5, E6, E7.
    split; [exact O1|]. split; [congruence|]. split; [exact O3|]. split; [rewrite <- K4, <- K2; exact O4|].
    split; [congruence|]. split; [congruence|]. split; [congruence|]. split; [congruence|].
    intros x y F. apply in_app_or in F. destruct F as [F|F]; [exact (O9 x y F)|exact (NPo x y F)].
  - right. right. rewrite E2, E3. split; [exact O1|]. split; [congruence|]. split; [exact O3|].
    apply applied_keep_r with s8; [repeat split; auto|exact NPo|].
    replace it8 with ([] ++ it8) by reflexivity. apply applied_keep with s4; [repeat split; auto|intros x y []|exact O4].
Qed.

(* timeout(): the same for a missed event *)
Theorem timeout_pending c s s' it b :
  Inv c s -> in_connection s = true -> deferred s = Some b -> do_timeout c s = Some (s', it) ->
  exists it', outcome c b s s' it' /\ (forall x, In x it' -> In x it)
              /\ (forall x y, In (IPhy x y) it -> st s' = Advertising \/ In (IPhy x y) it').
Proof.
  intros (I1 & I2 & I3 & I4 & I5) C D H. unfold do_timeout in H.
  set (s0 := set_pending_event s false) in H.
  assert (K0 : keep s s0) by (subst s0; kp). destruct K0 as (K1 & K2 & K3 & K4 & K5 & K6 & K7). clearbody s0.
  match type of H with (do r <- ?x; _) = _ => destruct x as [[s2 it2]|] eqn:B end; cbn [obind] in H; [|discriminate].
  assert (E' : s' = fst (flush_events s2) /\ it = it2 ++ snd (flush_events s2)) by (destruct (flush_events s2); inversion H; split; reflexivity).
  destruct E' as (-> & ->). clear H.
  assert (KF : keep s2 (fst (flush_events s2))) by (unfold flush_events; cbn [fst]; kp).
  pose proof (flush_no_phy s2) as NPo. set (post := snd (flush_events s2)) in *. clearbody post.
  set (s3 := fst (flush_events s2)) in *. clearbody s3.
  destruct KF as (E1 & E2 & E3 & E4 & E5 & E6 & E7).
  assert (ADV : forall sx, force_disconnect c sx = (s2, it2) ->
          exists it', outcome c b s s3 it' /\ (forall x, In x it' -> In x (it2 ++ post))
                      /\ (forall x y, In (IPhy x y) (it2 ++ post) -> st s3 = Advertising \/ In (IPhy x y) it')).
  { intros sx F. pose proof (force_disconnect_frame c sx) as X. rewrite F in X. cbn [fst] in X.
    exists []. split; [left; rewrite E1; exact (proj1 X)|]. split; [intros x []|]. intros x y _. left. rewrite E1. exact (proj1 X). }
  destruct (lstate_eqb (st s0) Disconnecting && term_sent s0 && negb (pending_outgoing_data_available s0)).
  { inversion B as [B']. exact (ADV _ B'). }
  destruct (negb (proc_timeout s0 =? 0) && (proc_timeout s0 <=? tsle (cs s0))).
  { inversion B as [B']. exact (ADV _ B'). }
  destruct (dt_mul _ _) as [five|]; cbn [obind] in B; [|discriminate].
  destruct ((tsle (cs s0) <? conn_timeout (tm s0)) && _).
  2:{ inversion B as [B']. exact (ADV _ B'). }
  destruct (plan_after_timeout s0) as [s1|] eqn:P1; cbn [obind] in B; [|discriminate].
  destruct (I4 b D) as [Q1 Q2 Q3 Q4].
  assert (X0 : dist s0 = dist s) by (unfold dist; congruence).
  exists (it2 ++ post). split; [|split; [auto|intros x y F; right; exact F]].
  destruct (missed_cases c s0 s1 s2 it2 P1 B) as [X|[X|[(b' & X & Y)|(b' & X)]]].
  - congruence.
  - intros b0 D0. split; [congruence|lia].
  - left. rewrite E1. exact (ended_advertising c s0 s2 X).
  - destruct X as (X & _). congruence.
  - destruct X as (A1 & A2 & A3 & A4 & A5 & A6 & A7 & A8 & A9 & A10 & A11 & A12).
    assert (b' = b) by congruence. subst b'.
    right. left. unfold dist in *. rewrite E2, E3, E4, E1, E5, E6, E7.
    split; [exact A4|]. split; [congruence|]. split; [rewrite A6; lia|]. split; [rewrite A6; lia|].
    split; [congruence|]. split; [congruence|]. split; [congruence|]. split; [congruence|].
    intros x y F. apply in_app_or in F. destruct F as [F|F]; [exact (A12 x y F)|exact (NPo x y F)].
  - destruct X as (A1 & A2 & A3 & A4 & A5). assert (b' = b) by congruence. subst b'.
    right. right. rewrite E2, E3. split; [exact A2|]. split; [congruence|]. split; [exact A4|].
    apply applied_keep_r with s2; [repeat split; auto|exact NPo|].
    replace it2 with ([] ++ it2) by reflexivity. apply applied_keep with s0; [repeat split; auto|intros x y []|exact A5].
Qed.

(* after the procedure was applied the planned event - the instant - can not be moved any more *)
Theorem cancel_after_applied c s bb us :
  (disarmable c = true -> last_lat (cs s) = 1) -> do_cancel c s bb us = Some (s, []).
Proof.
  intros H. unfold do_cancel. destruct (disarmable c) eqn:Hd.
  - rewrite (H eq_refl). cbn [N.eqb Pos.eqb negb]. rewrite andb_false_r. reflexivity.
  - rewrite andb_false_r. reflexivity.
Qed.

(* ========================================================================================== one operation, any sequence *)
Definition event_op (o : lop) : bool := match o with Ev _ _ | Timeout => true | _ => false end.

(* what one connection event (taken place or missed) does to a procedure [b] waiting in [s] *)
Definition progress (s s' : lstate_t) (b : list N) : Prop :=
  in_connection s' = false
  \/ (in_connection s' = true /\ deferred s' = Some b /\ def_instant s' = def_instant s /\ 1 <= dist s' /\ dist s' < dist s
      /\ chan s' = chan s /\ interval (tm s') = interval (tm s) /\ latency (tm s') = latency (tm s))
  \/ (deferred s' = None /\ evc (cs s') = def_instant s /\ in_connection s' = true).

Lemma outcome_progress c b s0 s s' it :
  outcome c b s s' it -> in_connection s = true -> def_instant s = def_instant s0 -> dist s = dist s0 -> chan s = chan s0 ->
  interval (tm s) = interval (tm s0) -> latency (tm s) = latency (tm s0) -> latency (tm s) <= 499 ->
  progress s0 s' b.
Proof.
  intros [O|[(O1 & O2 & O3 & O4 & O5 & O6 & O7 & O8 & O9)|(O1 & O2 & O3 & O4)]] C E1 E2 E3 E4 E5 L.
  - left. unfold in_connection. rewrite O. reflexivity.
  - right. left. rewrite (in_connection_st _ _ O5), O6, O7. repeat split; auto; congruence.
  - right. right. split; [exact O1|]. split; [congruence|].
    destruct O4 as (_ & _ & [(B1 & (B2 & B3 & B4) & B5)|[(B1 & B2 & (B3 & B4 & B5) & B6 & B7)|(B1 & B2 & B3 & B4 & B5 & B6)]]).
    + rewrite (in_connection_st _ _ B4). exact C.
    + unfold in_connection. rewrite B5. reflexivity.
    + rewrite (in_connection_st _ _ B5). exact C.
Qed.

Theorem lstep_progress c s o b :
  Inv c s -> op_ok o -> event_op o = true -> in_connection s = true -> deferred s = Some b ->
  match snd (lstep c s o) with OItems _ => progress s (fst (lstep c s o)) b | _ => True end.
Proof.
  intros I Ho He C D. destruct o; try discriminate; cbn [lstep]; rewrite C.
  - (* Ev *)
    match goal with |- context [existsb ?f pdus] => destruct (existsb f pdus) end; cbn [snd]; [exact Logic.I|].
    pose proof (radio_event_frame (S (length pdus + length (txq (bf s)))) s pdus Ho (proj2 (proj2 (proj2 (proj2 I))))) as R.
    cbn zeta in R. destruct (radio_event _ s pdus) as [s1 it1]. cbn [fst] in R. destruct R as (R1 & R2).
    pose proof (Inv_same6 c s s1 R1 R2 I) as I1. destruct R1 as (A1 & A2 & A3 & A4 & A5 & A6).
    assert (C1 : in_connection s1 = true) by (rewrite (in_connection_st s s1 A1); exact C).
    destruct (do_end_event c s1 evts) as [[s2 it2]|] eqn:E; cbn [fst snd]; [|exact Logic.I].
    destruct (end_event_pending c s1 evts s2 it2 b I1 C1 (eq_trans A3 D) E) as (it' & O & _).
    destruct (prologue_frame c s1 C1) as (P1 & P2 & P3 & P4 & P5 & P6 & P7).
    assert (PI : interval (tm (end_event_prologue c s1)) = interval (tm s1)).
    { unfold end_event_prologue. set (x := match st (set_pending_event s1 false) with Connecting => _ | _ => _ end).
      assert (K : keep s1 x) by (subst x; eapply keep_trans; [|destruct (st (set_pending_event s1 false)); [apply keep_refl|apply keep_refl|apply keep_push_event|apply keep_refl|apply keep_refl|apply keep_refl]]; kp).
      destruct K as (_ & _ & _ & _ & K5 & _). destruct (lstate_eqb (st x) Disconnecting); [congruence|]. cbn [tm interval upd_tm set_tm set_st set_tw_size]. congruence. }
    apply (outcome_progress c b s (end_event_prologue c s1) s2 it' O P1); try congruence.
    + unfold dist. congruence.
    + rewrite P5, A5. apply (proj1 (proj2 (proj2 I))). exact C.
  - (* Timeout *)
    destruct (do_timeout c s) as [[s2 it2]|] eqn:E; cbn [ok_items fst snd]; [|exact Logic.I].
    destruct (timeout_pending c s s2 it2 b I C D E) as (it' & O & _).
    apply (outcome_progress c b s s s2 it' O C); auto. apply (proj1 (proj2 (proj2 I))). exact C.
Qed.

(* every operation of [ops] is a connection event (taken place or missed) that the link layer survives *)
Fixpoint events_run (c : cfg) (s : lstate_t) (ops : list lop) : Prop :=
  match ops with
  | [] => True
  | o :: t => event_op o = true /\ op_ok o /\ (exists it, snd (lstep c s o) = OItems it) /\ events_run c (fst (lstep c s o)) t
  end.

(* A waiting procedure is resolved - applied at its instant, or the link is gone - after at most as many connection
   events as its instant is away, whatever is received and whichever events are lost in between *)
Theorem resolved_within_distance c : forall ops s b,
  Inv c s -> in_connection s = true -> deferred s = Some b -> events_run c s ops -> dist s <= N.of_nat (length ops) ->
  exists pre post, ops = pre ++ post /\ N.of_nat (length pre) <= dist s /\
    (in_connection (lfinal c s pre) = false
     \/ (deferred (lfinal c s pre) = None /\ evc (cs (lfinal c s pre)) = def_instant s)).
Proof.
  induction ops as [|o t IH]; intros s b I C D R L.
  - destruct I as (_ & _ & _ & I4 & _). destruct (I4 b D) as [_ Q _ _]. cbn in L. lia.
  - destruct R as (R1 & R2 & (it & R3) & R4).
    pose proof (lstep_progress c s o b I R2 R1 C D) as P. rewrite R3 in P.
    pose proof (lstep_inv c s o I R2) as I'.
    destruct (I' ) as (_ & _ & _ & I4' & _).
    assert (Q : 1 <= dist s) by (destruct I as (_ & _ & _ & I4 & _); destruct (I4 b D); assumption).
    destruct P as [P|[(P0 & P1 & P2 & P3 & P4 & _)|(P1 & P2 & _)]].
    + exists [o], t. split; [reflexivity|]. split; [cbn; lia|]. left. exact P.
    + destruct (IH (fst (lstep c s o)) b I' P0 P1 R4) as (pre & post & E1 & E2 & E3).
      { cbn [length] in L. lia. }
      exists (o :: pre), post. split; [cbn; congruence|]. split; [cbn [length]; lia|].
      cbn [lfinal]. rewrite <- P2. exact E3.
    + exists [o], t. split; [reflexivity|]. split; [cbn; lia|]. right. cbn [lfinal]. auto.
Qed.

(* ========================================================================================== the decision on reception *)
Definition refused (pr : proc21) (inst evc : N) : bool :=
  instant_passed inst evc || match pr with PUpdate _ _ _ _ _ => inst =? evc + 1 | _ => false end.

Theorem accept_spec c s body pr inst :
  classify21 (c_phy c) (3, body) = Some (pr, inst) ->
  let r := handle_ll_control c s body in
  (refused pr inst (evc (cs s)) = true /\ snd r = DoDisconnect /\ disc_reason (fst (fst r)) = 40 /\ snd (fst r) = [])
  \/ (refused pr inst (evc (cs s)) = false /\ snd r = GoAhead /\ deferred (fst (fst r)) = Some body /\ def_instant (fst (fst r)) = inst
      /\ snd (fst r) = []).
Proof.
  unfold classify21. cbn [N.eqb Pos.eqb negb].
  destruct ((N.of_nat (length body) =? 12) && (byte body 0 =? 0)) eqn:U.
  { intros H. inversion H; subst pr inst. clear H. apply andb_prop in U. destruct U as (U1 & U2).
    apply N.eqb_eq in U1. apply N.eqb_eq in U2.
    unfold handle_ll_control, refused. rewrite U1. cbn [N.ltb N.compare]. rewrite U2.
    replace (ctrl_kind c (ver_received (pr s)) 0 12) with KUpdate by reflexivity.
    unfold instant_passed_update. cbn zeta.
    destruct (instant_passed (rd16 body 10) (evc (cs s)) || (rd16 body 10 =? evc (cs s) + 1)); cbn [fst snd]; [left|right]; repeat split; reflexivity. }
  destruct ((N.of_nat (length body) =? 8) && (byte body 0 =? 1)) eqn:M.
  { intros H. inversion H; subst pr inst. clear H. apply andb_prop in M. destruct M as (U1 & U2).
    apply N.eqb_eq in U1. apply N.eqb_eq in U2.
    unfold handle_ll_control, refused. rewrite U1. cbn [N.ltb N.compare]. rewrite U2.
    replace (ctrl_kind c (ver_received (pr s)) 1 8) with KChannelMap by (unfold ctrl_kind; destruct (ver_received (pr s)); reflexivity).
    unfold instant_passed_map. cbn zeta. rewrite orb_false_r.
    destruct (instant_passed (rd16 body 6) (evc (cs s))); cbn [fst snd]; [left|right]; repeat split; reflexivity. }
  match goal with |- context [if ?x then _ else _] => destruct x eqn:P end; [|discriminate].
  intros H. inversion H; subst pr inst. clear H.
  repeat (apply andb_prop in P; destruct P as (P & ?)).
  apply N.eqb_eq in H2. apply N.eqb_eq in H3.
  unfold handle_ll_control, refused. rewrite H3. cbn [N.ltb N.compare]. rewrite H2.
  replace (ctrl_kind c (ver_received (pr s)) 24 5) with KPhyUpdate
    by (unfold ctrl_kind; rewrite P; destruct (c_enc c); destruct (ver_received (pr s)); reflexivity).
  unfold valid_phy_encoding. unfold phy_code_ok in H0, H1. rewrite H0, H1. cbn [andb]. rewrite orb_false_r.
  apply negb_true_iff in H. rewrite H. cbn zeta.
  destruct (instant_passed (rd16 body 3) (evc (cs s))); cbn [fst snd]; [left|right]; repeat split; reflexivity.
Qed.

(* refused = not reachable, except for the connection update that names the NEXT connection event *)
Lemma refused_spec pr inst e : inst < 65536 -> e < 65536 ->
  refused pr inst e = negb (reachable inst e) || match pr with PUpdate _ _ _ _ _ => inst =? e + 1 | _ => false end.
Proof. intros Hi He. unfold refused. rewrite (instant_passed_spec inst e Hi He). reflexivity. Qed.

Lemma classify_instant_lt phy b pr inst : classify21 phy (3, b) = Some (pr, inst) -> bytes_ok b -> inst < 65536.
Proof.
  unfold classify21. cbn [N.eqb Pos.eqb negb]. intros H B.
  destruct (_ && _) in H; [inversion H; apply rd16_lt; exact B|].
  destruct (_ && _) in H; [inversion H; apply rd16_lt; exact B|].
  destruct (_ && _) in H; [inversion H; apply rd16_lt; exact B|discriminate].
Qed.

(* an instant that can not be met ends the link, for all three procedures *)
Theorem unreachable_ends_the_link c s body pr inst :
  classify21 (c_phy c) (3, body) = Some (pr, inst) -> bytes_ok body -> evc (cs s) < 65536 ->
  reachable inst (evc (cs s)) = false ->
  snd (handle_ll_control c s body) = DoDisconnect /\ disc_reason (fst (fst (handle_ll_control c s body))) = 40.
Proof.
  intros H B E R. pose proof (classify_instant_lt _ _ _ _ H B) as Hi.
  destruct (accept_spec c s body pr inst H) as [(A1 & A2 & A3 & _)|(A1 & _)]; [auto|].
  rewrite (refused_spec pr inst _ Hi E), R in A1. discriminate.
Qed.

(* a reachable one is deferred - except the connection update that names the next connection event *)
Definition reachable_is_deferred_full : Prop :=
  forall c s body pr inst,
    classify21 (c_phy c) (3, body) = Some (pr, inst) -> bytes_ok body -> evc (cs s) < 65536 ->
    reachable inst (evc (cs s)) = true -> snd (handle_ll_control c s body) = GoAhead.

Theorem reachable_is_deferred_partial c s body pr inst :
  classify21 (c_phy c) (3, body) = Some (pr, inst) -> bytes_ok body -> evc (cs s) < 65536 ->
  reachable inst (evc (cs s)) = true ->
  match pr with PUpdate _ _ _ _ _ => inst <> evc (cs s) + 1 | _ => True end ->
  snd (handle_ll_control c s body) = GoAhead /\ deferred (fst (fst (handle_ll_control c s body))) = Some body
  /\ def_instant (fst (fst (handle_ll_control c s body))) = inst.
Proof.
  intros H B E R X. pose proof (classify_instant_lt _ _ _ _ H B) as Hi.
  destruct (accept_spec c s body pr inst H) as [(A1 & _)|(A1 & A2 & A3 & A4 & _)]; [|auto].
  rewrite (refused_spec pr inst _ Hi E), R in A1. cbn [negb orb] in A1. destruct pr; try discriminate.
  apply N.eqb_eq in A1. contradiction.
Qed.

(* ========================================================================================== witnesses and examples *)
Definition cfg21 : cfg := mk_cfg true false 100 CprNone true 31 [71; 17; 8; 21; 15; 192].
(* CONNECT_IND of tests/link_layer/connected.hpp: interval 30 ms, supervision timeout 720 ms, all channels, hop 10; latency [lat] *)
Definition connect21 (lat : N) : lop :=
  Adv 197 [60; 28; 98; 146; 240; 72; 71; 17; 8; 21; 15; 192; 90; 179; 154; 175; 8; 129; 246; 3; 11; 0; 24; 0; lat; 0; 72; 0;
           255; 255; 255; 255; 31; 170].
Definition trace21 (ops : list lop) : list (lop * lout) := lrun cfg21 (linit cfg21) ops.
Definition upd_pdu (ivl inst : N) : pdu := (3, [0; 1; 0; 0; ivl; 0; 0; 0; 72; 0; inst mod 256; inst / 256]).
Definition map_pdu (inst : N) : pdu := (3, [1; 255; 3; 0; 0; 0; inst mod 256; inst / 256]).
Definition phy_pdu (inst : N) : pdu := (3, [24; 2; 2; inst mod 256; inst / 256]).
Definition att_pdu : pdu := (2, [3; 0; 4; 0; 2; 23; 0]).
Definition ping_pdu : pdu := (3, [18]).
(* what is observed when [ops] run, presented as if [claimed] had been the operations *)
Definition observed_as (claimed ops : list lop) : list (lop * lout) := combine claimed (map snd (trace21 ops)).
Definition verdict21 (tr : list (lop * lout)) : verdict := mrun21 cfg21 (minit21 cfg21) tr.
Definition pre21 : list lop := [Run; connect21 0; Ev 0 []; Ev 0 []].     (* the next event has the counter 2 *)

Lemma reachable_is_deferred_refuted : ~ reachable_is_deferred_full.
Proof.
  intros F.
  specialize (F cfg21 (lfinal cfg21 (linit cfg21) pre21) (snd (upd_pdu 40 3)) (PUpdate 1 0 40 0 72) 3 eq_refl).
  assert (B : bytes_ok (snd (upd_pdu 40 3))) by (unfold bytes_ok; repeat constructor).
  specialize (F B). vm_compute in F. specialize (F eq_refl eq_refl). discriminate.
Qed.

(* a session with all three procedures, traffic while they wait, instants on missed events: accepted *)
Definition session21 : list lop :=
  [Run; connect21 0; Ev 0 []; Ev 0 [upd_pdu 40 4; att_pdu]; St; Ev 0 [att_pdu]; Timeout; St; Ev 0 []; Ev 0 [map_pdu 9]; Ev 0 [att_pdu]; St; Ev 0 [];
   Timeout; Ev 0 []; Ev 0 [phy_pdu 12]; Ev 0 [ping_pdu]; Ev 0 []; St; Ev 0 [upd_pdu 24 16]; St; Ev 0 []; Timeout; Ev 0 []; St; Ev 0 []].
Lemma session21_accepted : verdict21 (trace21 session21) = Ok.
Proof. vm_compute. reflexivity. Qed.
Lemma session21_hypotheses : Forall op_ok session21 /\ in_connection (lfinal cfg21 (linit cfg21) session21) = true.
Proof. split; [repeat constructor|vm_compute; reflexivity]. Qed.

(* the monitor rejects what the code did before the repair (outputs of a run in which the PDU is deferred / refused,
   presented under the operation that should have been refused / deferred) and other deviations, one per clause *)
Lemma monitor_rejects_accepted_passed_instant :
  verdict21 (observed_as (pre21 ++ [Ev 0 [upd_pdu 40 2]; Ev 0 []]) (pre21 ++ [Ev 0 [upd_pdu 40 7]; Ev 0 []])) = Bad 3.
Proof. vm_compute. reflexivity. Qed.
Lemma monitor_rejects_refused_reachable_instant :
  verdict21 (observed_as (pre21 ++ [Ev 0 [map_pdu 4]; Ev 0 []]) (pre21 ++ [Ev 0 [map_pdu 2]; Ev 0 []])) = Bad 7.
Proof. vm_compute. reflexivity. Qed.
Lemma monitor_rejects_late_application :
  verdict21 (observed_as (pre21 ++ [Ev 0 [map_pdu 4]; Ev 0 []; Ev 0 []; Ev 0 []]) (pre21 ++ [Ev 0 [map_pdu 5]; Ev 0 []; Ev 0 []; Ev 0 []])) = Bad 4.
Proof. vm_compute. reflexivity. Qed.
Lemma monitor_rejects_early_application :
  verdict21 (observed_as (pre21 ++ [Ev 0 [phy_pdu 5]; Ev 0 []; Ev 0 []; Ev 0 []]) (pre21 ++ [Ev 0 [phy_pdu 4]; Ev 0 []; Ev 0 []; Ev 0 []])) = Bad 1.
Proof. vm_compute. reflexivity. Qed.
Lemma monitor_rejects_other_parameters :
  verdict21 (observed_as (pre21 ++ [Ev 0 [upd_pdu 80 4]; Ev 0 []; Ev 0 []]) (pre21 ++ [Ev 0 [upd_pdu 40 4]; Ev 0 []; Ev 0 []])) = Bad 2.
Proof. vm_compute. reflexivity. Qed.
Lemma monitor_rejects_skipped_instant :
  verdict21 (observed_as [Run; connect21 3; Ev 0 []; Ev 2 [map_pdu 7]; Ev 0 []; Ev 0 []] [Run; connect21 3; Ev 0 []; Ev 2 [ping_pdu]; Ev 0 []; Ev 0 []]) = Bad 6.
Proof. vm_compute. reflexivity. Qed.
Lemma monitor_rejects_unanswered_request :
  verdict21 (observed_as (pre21 ++ [Ev 0 [att_pdu]; Ev 0 []]) (pre21 ++ [Ev 0 []; Ev 0 []])) = Bad 5.
Proof. vm_compute. reflexivity. Qed.

(* the known finding: a connection update for the next connection event is refused by the (repaired) code *)
Definition monitor_accepts_all_full : Prop := forall c ops, Forall op_ok ops -> accepts21 c (lrun c (linit c) ops).
Definition witness_next_event : list lop := pre21 ++ [Ev 0 [upd_pdu 40 3]].
Lemma witness_next_event_rejected : verdict21 (trace21 witness_next_event) = Bad 7.
Proof. vm_compute. reflexivity. Qed.
Lemma monitor_accepts_all_refuted : ~ monitor_accepts_all_full.
Proof.
  intros F. specialize (F cfg21 witness_next_event). unfold accepts21 in F.
  assert (H : Forall op_ok witness_next_event) by (repeat constructor).
  specialize (F H). pose proof witness_next_event_rejected as W. unfold verdict21, trace21 in W. congruence.
Qed.

(* with peripheral latency: the planned skip lands on the instant, the map is applied, a cancelation does not move the event *)
Lemma cancel_after_application_example :
  verdict21 (trace21 [Run; connect21 3; Ev 0 []; Ev 2 [map_pdu 8]; Ev 0 []; Cancel true 100; St; Ev 0 []]) = Ok
  /\ nth 5 (map snd (trace21 [Run; connect21 3; Ev 0 []; Ev 2 [map_pdu 8]; Ev 0 []; Cancel true 100; St; Ev 0 []])) OPre = OItems [].
Proof. vm_compute. split; reflexivity. Qed.

(* the comparisons as they were written before the repair are not the Core's rule *)
Lemma old_update_check_refuted : ~ (forall inst evc, inst < 65536 -> evc < 65536 -> old_update_check inst evc = negb (reachable inst evc)).
Proof. intros F. specialize (F 5 5). vm_compute in F. specialize (F eq_refl eq_refl). discriminate. Qed.
Lemma old_map_check_refuted : ~ (forall inst evc, inst < 65536 -> evc < 65536 -> old_map_check inst evc = negb (reachable inst evc)).
Proof. intros F. specialize (F 5 5). vm_compute in F. specialize (F eq_refl eq_refl). discriminate. Qed.
Lemma old_phy_check_refuted : ~ (forall inst evc, inst < 65536 -> evc < 65536 -> old_phy_check inst evc = negb (reachable inst evc)).
Proof. intros F. specialize (F 4 5). vm_compute in F. specialize (F eq_refl eq_refl). discriminate. Qed.

Theorem invariant_from_power_up c ops : Forall op_ok ops -> Inv c (lfinal c (linit c) ops).
Proof. intros H. exact (invariant_all_traces c ops (linit c) (Inv_init c) H). Qed.

Lemma waiting_state_example :
  let s := lfinal cfg21 (linit cfg21) (pre21 ++ [Ev 0 [map_pdu 9]]) in
  deferred s = Some (snd (map_pdu 9)) /\ dist s = 6 /\ in_connection s = true.
Proof. vm_compute. repeat split; reflexivity. Qed.
