(* Proofs for C23: the monitor of LatencySpec accepts every trace of the model of LatencyModel
   (simulation invariant, induction over the operation list), the function-level statements about
   the planned skip, and the unbounded "counter and channel index follow the number of events"
   statement. *)
From Coq Require Import List NArith ZArith Bool Lia ZifyBool.
Import ListNotations.
From BT Require Import Latency.LatencyModel Latency.LatencySpec.
Local Open Scope N_scope.

Ltac Zify.zify_post_hook ::= Z.to_euclidean_division_equations.

(* ------------------------------------------------------------------ delta_time *)
Lemma dt_mul_exact u r p : dt_mul u r = Some p -> u * r < two32 -> p = u * r.
Proof.
  unfold dt_mul, two32. intros H L.
  destruct ((r =? 0) || (u =? 0)) eqn:Z0.
  - injection H as <-. destruct (N.eqb_spec r 0); [subst; lia|].
    destruct (N.eqb_spec u 0); [subst; lia|]. discriminate.
  - destruct (N.ltb_spec 1 r).
    + destruct (N.eqb_spec u 1).
      * injection H as <-. subst. lia.
      * rewrite N.mod_small in H by exact L.
        destruct ((u <? u * r) && (r <? u * r)); [injection H as <-; reflexivity | discriminate].
    + injection H as <-. assert (r = 1) by lia. subst. lia.
Qed.

Lemma dt_mul_total u r : u * r < two32 -> dt_mul u r <> None.
Proof.
  unfold dt_mul, two32. intros L.
  destruct ((r =? 0) || (u =? 0)) eqn:Z0; [discriminate|].
  apply orb_false_iff in Z0. destruct Z0 as [Hr Hu].
  apply N.eqb_neq in Hr. apply N.eqb_neq in Hu.
  destruct (N.ltb_spec 1 r); [|discriminate].
  destruct (N.eqb_spec u 1); [discriminate|].
  rewrite N.mod_small by exact L.
  assert (u < u * r /\ r < u * r) as [A B] by nia.
  apply N.ltb_lt in A. apply N.ltb_lt in B. rewrite A, B. discriminate.
Qed.

Lemma dt_mul_bound u r p : dt_mul u r = Some p -> u < two32 -> r < two32 -> p < two32.
Proof.
  unfold dt_mul, two32. intros H Lu Lr.
  destruct ((r =? 0) || (u =? 0)); [injection H as <-; lia|].
  destruct (1 <? r).
  - destruct (u =? 1); [injection H as <-; lia|].
    destruct ((u <? (u * r) mod 4294967296) && (r <? (u * r) mod 4294967296)); [|discriminate].
    injection H as <-. apply N.mod_lt. lia.
  - injection H as <-. lia.
Qed.

Lemma dt_add_some a b x : dt_add a b = Some x -> x = a + b /\ a + b < two32.
Proof. unfold dt_add. destruct (N.ltb_spec (a + b) two32) as [L|L]; intros H; [injection H as <-; auto | discriminate]. Qed.
Lemma dt_add_none a b : dt_add a b = None -> two32 <= a + b.
Proof. unfold dt_add. destruct (N.ltb_spec (a + b) two32) as [L|L]; intros H; [discriminate | auto]. Qed.
Lemma dt_sub_some a b x : dt_sub a b = Some x -> x = a - b /\ b <= a.
Proof. unfold dt_sub. destruct (N.leb_spec b a) as [L|L]; intros H; [injection H as <-; auto | discriminate]. Qed.
Lemma dt_sub_none a b : dt_sub a b = None -> a < b.
Proof. unfold dt_sub. destruct (N.leb_spec b a) as [L|L]; intros H; [discriminate | auto]. Qed.

(* ------------------------------------------------------------------ the planned skip *)
Section Skip.
  Variables (c : cfg) (s : state) (lat : N) (ev : events) (pend : bool) (inst : N).

  (* 1 <= s <= latency + 1 for every latency the counter type can hold except 65535 *)
  Lemma plan_skip_range : lat < two16 - 1 ->
    1 <= plan_skip c s lat ev pend inst <= lat + 1.
  Proof.
    unfold plan_skip, two16. intros L.
    destruct (listen_now c s ev), pend; try destruct (N.ltb_spec 0 ((inst + 65536 - counter s) mod 65536)); lia.
  Qed.

  Lemma plan_skip_lt16 : plan_skip c s lat ev pend inst < two16.
  Proof.
    unfold plan_skip, two16.
    destruct (listen_now c s ev), pend; try destruct (N.ltb_spec 0 ((inst + 65536 - counter s) mod 65536)); lia.
  Qed.

  (* an enabled listen condition or an error: listen at the very next event *)
  Lemma plan_skip_listen : listen_now c s ev = true -> plan_skip c s lat ev pend inst = 1.
  Proof.
    unfold plan_skip, two16. intros ->.
    destruct pend; try destruct (N.ltb_spec 0 ((inst + 65536 - counter s) mod 65536)); lia.
  Qed.

  (* latency 65535: the std::uint16_t increment wraps and the skip is 0 *)
  Lemma plan_skip_wraps : lat = two16 - 1 -> listen_now c s ev = false -> plan_skip c s lat ev pend inst = 0.
  Proof.
    unfold plan_skip, two16. intros -> ->.
    destruct pend; try destruct (N.ltb_spec 0 ((inst + 65536 - counter s) mod 65536)); lia.
  Qed.

  (* the pending instant is none of the skipped events counter+1 .. counter+s-1 *)
  Lemma plan_skip_instant : pend = true -> counter s < two16 -> inst < two16 ->
    forall j, 1 <= j < plan_skip c s lat ev pend inst -> (counter s + j) mod two16 <> inst.
  Proof.
    unfold plan_skip, two16. intros -> Lc Li j.
    destruct (listen_now c s ev); destruct (N.ltb_spec 0 ((inst + 65536 - counter s) mod 65536)); lia.
  Qed.

  Lemma plan_skip_le_distance : pend = true ->
    0 < (inst + two16 - counter s) mod two16 ->
    plan_skip c s lat ev pend inst <= (inst + two16 - counter s) mod two16.
  Proof.
    unfold plan_skip, two16. intros ->.
    destruct (listen_now c s ev); destruct (N.ltb_spec 0 ((inst + 65536 - counter s) mod 65536)); lia.
  Qed.
End Skip.
