(* Proofs for C23: the monitor of LatencySpec accepts every trace of the model of LatencyModel
   (simulation invariant, induction over the operation list), the function-level statements about
   the planned skip, and the unbounded "counter and channel index follow the number of events"
   statement. *)
From Coq Require Import List NArith ZArith Bool Lia ZifyBool.
Import ListNotations.
From BT Require Import Latency.LatencyModel Latency.LatencySpec.
Local Open Scope N_scope.

Ltac Zify.zify_post_hook ::= Z.to_euclidean_division_equations.

(* ------------------------------------------------------------------ delta_time *)
Lemma dt_mul_exact u r p : dt_mul u r = Some p -> u * r < two32 -> p = u * r.
Proof.
  unfold dt_mul, two32. intros H L.
  destruct ((r =? 0) || (u =? 0)) eqn:Z0.
  - injection H as <-. destruct (N.eqb_spec r 0); [subst; lia|].
    destruct (N.eqb_spec u 0); [subst; lia|]. discriminate.
  - destruct (N.ltb_spec 1 r).
    + destruct (N.eqb_spec u 1).
      * injection H as <-. subst. lia.
      * rewrite N.mod_small in H by exact L.
        destruct ((u <? u * r) && (r <? u * r)); [injection H as <-; reflexivity | discriminate].
    + injection H as <-. assert (r = 1) by lia. subst. lia.
Qed.

Lemma dt_mul_total u r : u * r < two32 -> dt_mul u r <> None.
Proof.
  unfold dt_mul, two32. intros L.
  destruct ((r =? 0) || (u =? 0)) eqn:Z0; [discriminate|].
  apply orb_false_iff in Z0. destruct Z0 as [Hr Hu].
  apply N.eqb_neq in Hr. apply N.eqb_neq in Hu.
  destruct (N.ltb_spec 1 r); [|discriminate].
  destruct (N.eqb_spec u 1); [discriminate|].
  rewrite N.mod_small by exact L.
  assert (u < u * r /\ r < u * r) as [A B] by nia.
  apply N.ltb_lt in A. apply N.ltb_lt in B. rewrite A, B. discriminate.
Qed.

Lemma dt_mul_bound u r p : dt_mul u r = Some p -> u < two32 -> r < two32 -> p < two32.
Proof.
  unfold dt_mul, two32. intros H Lu Lr.
  destruct ((r =? 0) || (u =? 0)); [injection H as <-; lia|].
  destruct (1 <? r).
  - destruct (u =? 1); [injection H as <-; lia|].
    destruct ((u <? (u * r) mod 4294967296) && (r <? (u * r) mod 4294967296)); [|discriminate].
    injection H as <-. apply N.mod_lt. lia.
  - injection H as <-. lia.
Qed.

Lemma dt_add_some a b x : dt_add a b = Some x -> x = a + b /\ a + b < two32.
Proof. unfold dt_add. destruct (N.ltb_spec (a + b) two32) as [L|L]; intros H; [injection H as <-; auto | discriminate]. Qed.
Lemma dt_add_none a b : dt_add a b = None -> two32 <= a + b.
Proof. unfold dt_add. destruct (N.ltb_spec (a + b) two32) as [L|L]; intros H; [discriminate | auto]. Qed.
Lemma dt_sub_some a b x : dt_sub a b = Some x -> x = a - b /\ b <= a.
Proof. unfold dt_sub. destruct (N.leb_spec b a) as [L|L]; intros H; [injection H as <-; auto | discriminate]. Qed.
Lemma dt_sub_none a b : dt_sub a b = None -> a < b.
Proof. unfold dt_sub. destruct (N.leb_spec b a) as [L|L]; intros H; [discriminate | auto]. Qed.

(* ------------------------------------------------------------------ the planned skip *)
Section Skip.
  Variables (c : cfg) (s : state) (lat : N) (ev : events) (pend : bool) (inst : N).

  (* 1 <= s <= latency + 1 for every latency the counter type can hold except 65535 *)
  Lemma plan_skip_range : lat < two16 - 1 ->
    1 <= plan_skip c s lat ev pend inst <= lat + 1.
  Proof.
    unfold plan_skip, two16. intros L.
    destruct (listen_now c s ev), pend; try destruct (N.ltb_spec 0 ((inst + 65536 - counter s) mod 65536)); lia.
  Qed.

  Lemma plan_skip_lt16 : plan_skip c s lat ev pend inst < two16.
  Proof.
    unfold plan_skip, two16.
    destruct (listen_now c s ev), pend; try destruct (N.ltb_spec 0 ((inst + 65536 - counter s) mod 65536)); lia.
  Qed.

  (* an enabled listen condition or an error: listen at the very next event *)
  Lemma plan_skip_listen : listen_now c s ev = true -> plan_skip c s lat ev pend inst = 1.
  Proof.
    unfold plan_skip, two16. intros ->.
    destruct pend; try destruct (N.ltb_spec 0 ((inst + 65536 - counter s) mod 65536)); lia.
  Qed.

  (* latency 65535: the std::uint16_t increment wraps and the skip is 0 *)
  Lemma plan_skip_wraps : lat = two16 - 1 -> listen_now c s ev = false -> plan_skip c s lat ev pend inst = 0.
  Proof.
    unfold plan_skip, two16. intros -> ->.
    destruct pend; try destruct (N.ltb_spec 0 ((inst + 65536 - counter s) mod 65536)); lia.
  Qed.

  (* the pending instant is none of the skipped events counter+1 .. counter+s-1 *)
  Lemma plan_skip_instant : pend = true -> counter s < two16 -> inst < two16 ->
    forall j, 1 <= j < plan_skip c s lat ev pend inst -> (counter s + j) mod two16 <> inst.
  Proof.
    unfold plan_skip, two16. intros -> Lc Li j.
    destruct (listen_now c s ev); destruct (N.ltb_spec 0 ((inst + 65536 - counter s) mod 65536)); lia.
  Qed.

  Lemma plan_skip_le_distance : pend = true ->
    0 < (inst + two16 - counter s) mod two16 ->
    plan_skip c s lat ev pend inst <= (inst + two16 - counter s) mod two16.
  Proof.
    unfold plan_skip, two16. intros ->.
    destruct (listen_now c s ev); destruct (N.ltb_spec 0 ((inst + 65536 - counter s) mod 65536)); lia.
  Qed.
End Skip.

(* ------------------------------------------------------------------ features *)
From Coq Require Import Btauto.

Definition wf_cfg (c : cfg) : Prop := is_set c = true -> confs c <> [].

Lemma legal_wf c : legal c = true -> wf_cfg c.
Proof.
  unfold legal, wf_cfg. intros H S. rewrite S in H. intros E. rewrite E in H. discriminate.
Qed.

(* the three-way (all / none / run time) evaluation of a configuration set is the option list of
   the selected configuration *)
Lemma feature_enabled c s f :
  (is_set c = true -> (cur s < length (confs c))%nat) -> feature c s f = enabled c (cur s) f.
Proof.
  unfold feature, enabled. destruct (is_set c); [|reflexivity]. intros L. specialize (L eq_refl).
  pose proof (nth_In (confs c) [] L) as IN.
  destruct (forallb (has f) (confs c)) eqn:A.
  - rewrite forallb_forall in A. symmetry. apply A. exact IN.
  - destruct (existsb (has f) (confs c)) eqn:B; cbn; [reflexivity|].
    destruct (has f (nth (cur s) (confs c) [])) eqn:E; [|reflexivity].
    assert (existsb (has f) (confs c) = true) by (apply existsb_exists; eauto). congruence.
Qed.

Lemma must_listen_eq c s ev :
  (is_set c = true -> (cur s < length (confs c))%nat) -> must_listen c (cur s) ev = listen_now c s ev.
Proof.
  intros L. unfold must_listen, listen_now. cbn [existsb fst snd].
  rewrite !(feature_enabled c s _ L). btauto.
Qed.

(* ------------------------------------------------------------------ modular arithmetic *)
Lemma lt16 x : x mod two16 < two16.  Proof. unfold two16. lia. Qed.
Lemma lt32 x : x mod two32 < two32.  Proof. unfold two32. lia. Qed.
Lemma lt37 x : x mod num_channels < num_channels.  Proof. unfold num_channels. lia. Qed.

(* the skip read off the counter is the skip taken *)
Lemma obs_skip cnt k : cnt < two16 -> k < two16 -> ((cnt + k) mod two16 + two16 - cnt) mod two16 = k.
Proof. unfold two16. lia. Qed.

(* the pull-back read off the counter is the pull-back made *)
Lemma obs_back cnt mm : cnt < two16 -> mm < two16 ->
  (cnt + two16 - (cnt + two16 - mm) mod two16) mod two16 = mm.
Proof. unfold two16. lia. Qed.

(* ( channel_index_ + count + offset ) % 37 really goes back by -count *)
Lemma chan_back ch mm : ch < num_channels -> mm <= max_latency ->
  ((ch + move_offset - mm) mod num_channels + mm) mod num_channels = ch.
Proof. unfold num_channels, max_latency, move_offset. lia. Qed.

Lemma times_ge a t iv : 0 < iv -> a * iv <= t -> a <= resched_times t iv.
Proof.
  intros P H. unfold resched_times.
  destruct (N.eq_dec a 0) as [->|NZ]; [lia|].
  assert (a <= (t + iv - 1) / iv); [|lia].
  apply N.div_le_lower_bound; [lia|]. nia.
Qed.

(* ------------------------------------------------------------------ simulation *)
Record inv (c : cfg) (s : state) (m : mon) : Prop := mkinv {
  i_c : mc m = counter s; i_ch : mch m = chan s; i_t : mt m = time s; i_cur : mcur m = cur s;
  i_cr : counter s < two16; i_chr : chan s < num_channels; i_tr : time s < two32;
  i_ll : ll s = budget m + 1;
  i_set : is_set c = true -> (cur s < length (confs c))%nat;
  i_trk : tracked m = true -> budget m + 1 <= dist m /\ att m < dist m /\ (att m = 0 \/ budget m < att m)
}.

Definition R (c : cfg) (s : state) (m : mon) : Prop :=
  if dead s then mdead m = true else mdead m = false /\ inv c s m.

Definition op_ok (o : op) : Prop :=
  match o with Plan lat _ _ _ _ => lat mod two16 <> two16 - 1 | _ => True end.

Lemma judge_ok l m' m : forallb fst l = true -> judge l m' m = (Ok, m').
Proof.
  unfold judge. intros H. replace (checks l) with (@None nat); [reflexivity|].
  induction l as [|[[|] tag] t IH]; cbn in *; auto; discriminate.
Qed.

Lemma ll_shape_show c x : ll_shape c (if disarmable c then Some x else None) = true.
Proof. unfold ll_shape. destruct (disarmable c); reflexivity. Qed.

Lemma R_dead c s m : dead s = true -> mdead m = true -> R c s m.
Proof. unfold R. intros -> H. exact H. Qed.

Ltac dead_end := eexists; split; [reflexivity | first [apply R_dead; reflexivity | reflexivity]].

Lemma in_range_intro a b t : a < two16 -> b < num_channels -> t < two32 -> in_range a b t = true.
Proof. unfold in_range. intros A B T. apply N.ltb_lt in A, B, T. rewrite A, B, T. reflexivity. Qed.

Lemma skip_recorded_show c k : match (if disarmable c then Some k else None) with Some x => x =? k | None => true end = true.
Proof. destruct (disarmable c); [apply N.eqb_refl | reflexivity]. Qed.

Lemma move_back_some s mm iv nl s' : move_back s mm iv nl = Some s' ->
  mm <= max_latency /\ exists p, dt_mul iv mm = Some p /\ p <= time s /\
  s' = mk ((counter s + two16 - mm) mod two16) ((chan s + move_offset - mm) mod num_channels) (time s - p) nl (cur s) false.
Proof.
  unfold move_back. destruct (N.ltb_spec max_latency mm) as [A|A]; [discriminate|].
  destruct (dt_mul iv mm) as [p|]; [|discriminate].
  destruct (dt_sub (time s) p) as [t'|] eqn:B; [|discriminate].
  apply dt_sub_some in B. destruct B as [-> B]. intros H. injection H as <-. eauto.
Qed.

Lemma move_back_none s mm iv nl : move_back s mm iv nl = None -> time s < two32 ->
  max_latency < mm \/ time s < mm * iv.
Proof.
  unfold move_back. intros H T. destruct (N.ltb_spec max_latency mm) as [A|A]; [left; exact A|]. right.
  destruct (N.lt_ge_cases (iv * mm) two32) as [E|E]; [|rewrite N.mul_comm; lia].
  destruct (dt_mul iv mm) as [p|] eqn:M; [|exfalso; exact (dt_mul_total _ _ E M)].
  apply dt_mul_exact in M; [|exact E]. subst p.
  destruct (dt_sub (time s) (iv * mm)) eqn:B; [discriminate|].
  apply dt_sub_none in B. rewrite N.mul_comm. exact B.
Qed.

Section Sim.
  Variables (c : cfg) (s : state) (m : mon).
  Hypothesis W : wf_cfg c.
  Hypothesis Ds : dead s = false.
  Hypothesis Dm : mdead m = false.
  Hypothesis I : inv c s m.

  Let goal (o : op) : Prop :=
    exists m', mstep c m o (snd (step c s o)) = (Ok, m') /\ R c (fst (step c s o)) m'.

  Lemma sim_reset : goal Reset.
  Proof.
    destruct I. unfold goal, step, mstep. rewrite Ds, Dm. cbn [fst snd show counter chan time ll].
    eexists. split.
    - apply judge_ok. cbn [forallb fst]. rewrite ll_shape_show. destruct (disarmable c); reflexivity.
    - unfold R. cbn [dead]. split; [reflexivity|]. constructor; cbn; auto; try reflexivity.
      intros _. clear. lia.
  Qed.

  Lemma sim_plan lat0 ev iv0 pend inst0 : lat0 mod two16 <> two16 - 1 -> goal (Plan lat0 ev iv0 pend inst0).
  Proof.
    intros L. destruct I. unfold goal, step, mstep. rewrite Ds, Dm.
    pose proof (lt16 lat0) as L16. pose proof (lt32 iv0) as Liv.
    set (lat := lat0 mod two16) in *. set (iv := iv0 mod two32) in *. set (inst := inst0 mod two16).
    assert (Llat : lat < two16 - 1) by (clear - L L16; unfold two16 in *; lia).
    pose proof (plan_skip_range c s lat ev pend inst Llat) as K.
    pose proof (plan_skip_listen c s lat ev pend inst) as KL.
    pose proof (plan_skip_le_distance c s lat ev pend inst) as KD.
    pose proof (plan_skip_lt16 c s lat ev pend inst) as K16.
    set (k := plan_skip c s lat ev pend inst) in *.
    destruct (dt_mul iv k) as [t'|] eqn:M.
    - replace (disarmable c && (k =? 0)) with false
        by (destruct (disarmable c); cbn; [symmetry; apply N.eqb_neq; clear - K; lia | reflexivity]).
      cbn [fst snd show counter chan time ll].
      assert (Tb : t' < two32) by (apply (dt_mul_bound _ _ _ M Liv); clear - K16; unfold two16, two32 in *; lia).
      pose proof (dt_mul_exact _ _ _ M) as Te.
      rewrite i_c0, (obs_skip _ _ i_cr0 K16).
      eexists. split.
      + apply judge_ok. cbn [forallb fst]. rewrite ll_shape_show.
        rewrite i_cur0, (must_listen_eq c s ev i_set0), i_ch0.
        rewrite (in_range_intro _ _ _ (lt16 _) (lt37 _) Tb).
        assert (A0 : (1 <=? k) && (k <=? lat + 1) = true) by (clear - K; lia).
        assert (A2 : negb (listen_now c s ev) || (k =? 1) = true)
          by (destruct (listen_now c s ev); cbn; [rewrite KL by reflexivity; reflexivity | reflexivity]).
        assert (A3 : negb pend || ((inst + two16 - counter s) mod two16 =? 0) || (k <=? (inst + two16 - counter s) mod two16) = true).
        { destruct pend; cbn; [|reflexivity]. specialize (KD eq_refl).
          destruct (N.eqb_spec ((inst + two16 - counter s) mod two16) 0) as [E|E]; cbn; [reflexivity|].
          apply N.leb_le. apply KD. apply N.neq_0_lt_0. exact E. }
        assert (A4 : negb (k * iv <? two32) || (t' =? k * iv) = true).
        { destruct (N.ltb_spec (k * iv) two32) as [E|E]; cbn; [|reflexivity].
          apply N.eqb_eq. rewrite N.mul_comm. apply Te. rewrite N.mul_comm. exact E. }
        rewrite A0, A2, A3, A4, skip_recorded_show, N.eqb_refl. reflexivity.
      + unfold R. cbn [dead]. split; [reflexivity|].
        constructor; cbn; auto; try apply lt16; try apply lt37; clear - K; lia.
    - (* the multiplication asserts: only possible when the precondition is violated *)
      cbn [fst snd die].
      assert (E : two32 <= iv * k).
      { destruct (N.lt_ge_cases (iv * k) two32) as [E|E]; [|exact E]. exfalso. exact (dt_mul_total _ _ E M). }
      replace (((lat + 1) * iv <? two32) && (lat <? two16 - 1)) with false
        by (symmetry; apply andb_false_iff; left; apply N.ltb_ge; apply (N.le_trans _ _ _ E);
            rewrite (N.mul_comm iv k); apply N.mul_le_mono_r; clear - K; lia).
      dead_end.
  Qed.

  Lemma sim_tmo iv0 : goal (Tmo iv0).
  Proof.
    destruct I. unfold goal, step, mstep. rewrite Ds, Dm.
    set (iv := iv0 mod two32) in *.
    destruct (dt_add (time s) iv) as [t'|] eqn:A.
    - apply dt_add_some in A. destruct A as [-> A].
      cbn [fst snd show counter chan time ll].
      eexists. split.
      + apply judge_ok. cbn [forallb fst]. rewrite ll_shape_show.
        rewrite (in_range_intro _ _ _ (lt16 _) (lt37 _) A).
        rewrite i_c0, i_ch0, i_t0, !N.eqb_refl. reflexivity.
      + unfold R. cbn [dead]. split; [reflexivity|].
        constructor; cbn; auto; try apply lt16; try apply lt37.
        intros T. specialize (i_trk0 T). clear - i_trk0. lia.
    - apply dt_add_none in A. cbn [fst snd die]. rewrite i_t0.
      replace (time s + iv <? two32) with false by (symmetry; apply N.ltb_ge; exact A).
      dead_end.
  Qed.

  Lemma sim_change k : goal (Change k).
  Proof.
    destruct I. unfold goal, step, mstep. rewrite Ds, Dm.
    assert (X : (if is_set c && Nat.ltb k (length (confs c)) then mk (counter s) (chan s) (time s) (ll s) k false else s)
                = mk (counter s) (chan s) (time s) (ll s) (if is_set c && Nat.ltb k (length (confs c)) then k else cur s) false).
    { destruct (is_set c && Nat.ltb k (length (confs c))); [reflexivity|]. destruct s; cbn in *. rewrite Ds. reflexivity. }
    rewrite X. cbn [fst snd show counter chan time ll].
    eexists. split.
    - apply judge_ok. cbn [forallb fst]. rewrite ll_shape_show.
      rewrite (in_range_intro _ _ _ i_cr0 i_chr0 i_tr0).
      rewrite i_c0, i_ch0, i_t0, !N.eqb_refl. reflexivity.
    - unfold R. cbn [dead]. split; [reflexivity|].
      destruct (is_set c && Nat.ltb k (length (confs c))) eqn:E.
      + apply andb_true_iff in E. destruct E as [_ E]. apply Nat.ltb_lt in E.
        constructor; cbn [counter chan time ll cur mc mch mt mcur budget dist att tracked]; auto.
      + constructor; cbn [counter chan time ll cur mc mch mt mcur budget dist att tracked]; auto.
  Qed.

  Lemma sim_move count iv0 : goal (Move count iv0).
  Proof.
    destruct I. unfold goal, step, mstep. rewrite Ds, Dm.
    pose proof (lt32 iv0) as Liv. set (iv := iv0 mod two32) in *.
    destruct (Z.ltb_spec 0 count) as [P|P].
    - cbn [fst snd die].
      replace (count <=? 0)%Z with false by (symmetry; apply Z.leb_gt; exact P). cbn [andb]. dead_end.
    - set (mv := Z.to_N (- count)) in *.
      destruct (move_back s mv iv (ll s)) as [s'|] eqn:MB.
      + apply move_back_some in MB. destruct MB as (Lm & p & M & Lp & ->).
        cbn [fst snd show counter chan time ll].
        pose proof (dt_mul_exact _ _ _ M) as Pe.
        assert (Tb : time s - p < two32) by (clear - i_tr0; lia).
        eexists. split.
        * apply judge_ok. cbn [forallb fst]. rewrite ll_shape_show.
          rewrite (in_range_intro _ _ _ (lt16 _) (lt37 _) Tb).
          rewrite i_c0, i_ch0, i_t0, (chan_back _ _ i_chr0 Lm), !N.eqb_refl.
          replace (count <=? 0)%Z with true by (symmetry; apply Z.leb_le; exact P).
          replace (mv <=? max_latency) with true by (symmetry; apply N.leb_le; exact Lm).
          assert (A : negb (mv * iv <? two32) || (time s - p + mv * iv =? time s) = true).
          { destruct (N.ltb_spec (mv * iv) two32) as [E|E]; cbn; [|reflexivity].
            apply N.eqb_eq. rewrite (N.mul_comm mv iv) in *. rewrite (Pe E) in *. clear - Lp. lia. }
          rewrite A. reflexivity.
        * unfold R. cbn [dead]. split; [reflexivity|].
          constructor; cbn [counter chan time ll cur mc mch mt mcur budget dist att tracked]; auto; try apply lt16; try apply lt37.
          intros T. apply andb_true_iff in T. destruct T as [T Z0]. apply N.eqb_eq in Z0. rewrite Z0.
          specialize (i_trk0 T). clear - i_trk0. lia.
      + apply move_back_none in MB; [|exact i_tr0]. cbn [fst snd die]. rewrite i_t0.
        replace ((count <=? 0)%Z && (mv <=? max_latency) && (mv * iv <=? time s)) with false; [dead_end|].
        symmetry. destruct MB as [A|A].
        * replace (mv <=? max_latency) with false by (symmetry; apply N.leb_gt; exact A).
          rewrite andb_false_r. reflexivity.
        * replace (mv * iv <=? time s) with false by (symmetry; apply N.leb_gt; exact A).
          rewrite andb_false_r. reflexivity.
  Qed.

  Lemma sim_keep ok t0 iv0 : 
    exists m', mstep c m (Resched ok t0 iv0) (show c (Some false) s) = (Ok, m') /\ R c s m'.
  Proof.
    destruct I. unfold mstep, show. rewrite Dm.
    exists m. split.
    - apply judge_ok. cbn [forallb fst]. rewrite ll_shape_show.
      rewrite (in_range_intro _ _ _ i_cr0 i_chr0 i_tr0).
      rewrite i_c0, i_ch0, i_t0, !N.eqb_refl. reflexivity.
    - unfold R. rewrite Ds. split; [exact Dm | exact I].
  Qed.

  Lemma sim_resched ok t0 iv0 : goal (Resched ok t0 iv0).
  Proof.
    pose proof (sim_keep ok t0 iv0) as KEEP.
    destruct I. unfold goal, step. rewrite Ds.
    pose proof (lt32 iv0) as Liv. pose proof (lt32 t0) as Lt.
    set (iv := iv0 mod two32) in *. set (t := t0 mod two32) in *.
    destruct (disarmable c) eqn:DA; cbn [negb]; [|exact KEEP].
    destruct (N.eqb_spec (ll s) 1) as [L1|L1]; [exact KEEP|].
    destruct ok; cbn [negb]; [|exact KEEP].
    unfold mstep. rewrite Dm. fold t iv.
    destruct (N.eqb_spec iv 0) as [Z0|Z0].
    { cbn [fst snd die negb orb]. rewrite Z0. cbn. dead_end. }
    destruct (dt_add t iv) as [x|] eqn:A.
    2:{ apply dt_add_none in A. cbn [fst snd die negb orb].
        replace (t + iv <? two32) with false by (symmetry; apply N.ltb_ge; exact A).
        rewrite andb_false_r. cbn. dead_end. }
    apply dt_add_some in A. destruct A as [_ A].
    destruct (N.leb_spec two31 (resched_times t iv)) as [B|B].
    { cbn [fst snd die negb orb].
      replace ((t + iv - 1) / iv <? two31) with false
        by (symmetry; apply N.ltb_ge; clear - B; unfold resched_times, two31 in *; lia).
      rewrite andb_false_r. cbn. dead_end. }
    set (moved := N.min (resched_times t iv) (ll s)).
    assert (M1 : 1 <= moved <= ll s) by (subst moved; clear - i_ll0; unfold resched_times; lia).
    set (mm := ll s - moved) in *.
    assert (Mb : mm <= budget m) by (subst mm; clear - M1 i_ll0; lia).
    destruct (move_back s mm iv 1) as [s'|] eqn:MB.
    - apply move_back_some in MB. destruct MB as (Lm & p & M & Lp & ->).
      cbn [fst snd show counter chan time ll]. rewrite DA.
      pose proof (dt_mul_exact _ _ _ M) as Pe.
      assert (Tb : time s - p < two32) by (clear - i_tr0; lia).
      assert (L16 : mm < two16) by (clear - Lm; unfold max_latency, two16 in *; lia).
      rewrite i_c0, (obs_back _ _ i_cr0 L16).
      (* under the radio's contract a timed-out event is never passed again *)
      assert (CT : tracked m = true -> att m * iv <= t -> att m < dist m - mm).
      { intros T C. specialize (i_trk0 T). destruct i_trk0 as (D1 & D2 & [D3|D3]).
        - clear - D1 D2 D3 Mb. lia.
        - assert (att m <= resched_times t iv) by (apply times_ge; [clear - Z0; lia | exact C]).
          assert (mm = 0) by (subst mm moved; clear - H D3 i_ll0; lia).
          clear - H0 D2. lia. }
      eexists. split.
      + apply judge_ok. cbn [forallb fst ll_shape]. rewrite DA.
        rewrite (in_range_intro _ _ _ (lt16 _) (lt37 _) Tb).
        rewrite i_ch0, i_t0, (chan_back _ _ i_chr0 Lm), !N.eqb_refl.
        replace (mm <=? budget m) with true by (symmetry; apply N.leb_le; exact Mb).
        assert (A1 : negb (tracked m) || (mm <? dist m) = true).
        { destruct (tracked m) eqn:T; cbn; [|reflexivity]. specialize (i_trk0 eq_refl).
          apply N.ltb_lt. clear - i_trk0 Mb. lia. }
        assert (A2 : negb (tracked m) || negb (att m * iv <=? t) || (att m <? dist m - mm) = true).
        { destruct (tracked m) eqn:T; cbn; [|reflexivity].
          destruct (N.leb_spec (att m * iv) t) as [C|C]; cbn; [|reflexivity].
          apply N.ltb_lt. apply CT; auto. }
        assert (A3 : negb (mm * iv <? two32) || (time s - p + mm * iv =? time s) = true).
        { destruct (N.ltb_spec (mm * iv) two32) as [E|E]; cbn; [|reflexivity].
          apply N.eqb_eq. rewrite (N.mul_comm mm iv) in *. rewrite (Pe E) in *. clear - Lp. lia. }
        rewrite A1, A2, A3. reflexivity.
      + unfold R. cbn [dead]. split; [reflexivity|].
        constructor; cbn [counter chan time ll cur mc mch mt mcur budget dist att tracked]; auto; try apply lt16; try apply lt37.
        intros T. pose proof (i_trk0 T) as D.
        destruct (N.leb_spec (att m * iv) t) as [C|C].
        * specialize (CT T C). clear - CT D Mb. lia.
        * clear - D Mb. lia.
    - apply move_back_none in MB; [|exact i_tr0]. cbn [fst snd die negb orb]. rewrite i_t0.
      replace ((0 <? iv) && (t + iv <? two32) && ((t + iv - 1) / iv <? two31) && (budget m <=? max_latency) && (budget m * iv <=? time s))
        with false; [dead_end|].
      symmetry. destruct MB as [E|E].
      + replace (budget m <=? max_latency) with false by (symmetry; apply N.leb_gt; clear - E Mb; lia).
        rewrite andb_false_r. reflexivity.
      + replace (budget m * iv <=? time s) with false; [rewrite andb_false_r; reflexivity|].
        symmetry. apply N.leb_gt. apply (N.lt_le_trans _ _ _ E). apply N.mul_le_mono_r. exact Mb.
  Qed.

  Theorem step_sim o : op_ok o -> goal o.
  Proof.
    destruct o; intros OK.
    - apply sim_reset.
    - apply sim_plan. exact OK.
    - apply sim_tmo.
    - apply sim_resched.
    - apply sim_move.
    - apply sim_change.
  Qed.
End Sim.

(* ------------------------------------------------------------------ whole histories *)
Lemma step_dead c s o : dead s = true -> step c s o = (s, OSkipped).
Proof. unfold step. intros ->. reflexivity. Qed.

Lemma step_R c s m o : wf_cfg c -> R c s m -> op_ok o ->
  exists m', mstep c m o (snd (step c s o)) = (Ok, m') /\ R c (fst (step c s o)) m'.
Proof.
  intros W HR OK. unfold R in HR. destruct (dead s) eqn:D.
  - rewrite (step_dead c s o D). cbn [fst snd]. exists m. split.
    + unfold mstep. rewrite HR. reflexivity.
    + unfold R. rewrite D. exact HR.
  - destruct HR as [Dm I]. apply step_sim; auto.
Qed.

Lemma R_init c : wf_cfg c -> R c (init c) minit.
Proof.
  intros W. unfold R, init, minit. cbn [dead]. split; [reflexivity|].
  constructor; cbn; auto; try reflexivity.
  - intros S. specialize (W S). destruct (confs c); [congruence | cbn; lia].
  - intros _. lia.
Qed.

Lemma monitor_from_accepts c : wf_cfg c -> forall ops s m pos,
  R c s m -> Forall op_ok ops -> monitor_from c m pos (run c s ops) = None.
Proof.
  intros W. induction ops as [|o t IH]; intros s m pos HR OK; [reflexivity|].
  inversion OK as [|? ? O1 O2]; subst.
  destruct (step_R c s m o W HR O1) as (m' & E & HR').
  cbn [run]. destruct (step c s o) as [s' r] eqn:ST. cbn [fst snd] in *.
  cbn [monitor_from]. rewrite E. apply IH; assumption.
Qed.

(* MAIN: for every configuration (any option lists; a set needs one member), every history of
   reset / plan / timeout / reschedule / move / change calls with any arguments - latencies other
   than 65535 - the specification monitor accepts the model's trace. *)
Theorem monitor_accepts c ops : wf_cfg c -> Forall op_ok ops -> monitor c (run c (init c) ops) = None.
Proof. intros W OK. apply monitor_from_accepts; auto. apply R_init; auto. Qed.

(* the full statement (no restriction on the latency argument) and its refutation: latency 65535 *)
Definition accepts_all_latencies : Prop :=
  forall c ops, legal c = true -> monitor c (run c (init c) ops) = None.

Definition no_events : events := mke false false false false false false.
Definition cfg_single (o : list N) : cfg := mkcfg false [o].

Lemma skip_zero_witness :
  monitor (cfg_single []) (run (cfg_single []) (init (cfg_single [])) [Plan 65535 no_events 7500 false 0])
  = Some (0%nat, t_skip_range).
Proof. vm_compute. reflexivity. Qed.

Theorem accepts_all_latencies_refuted : ~ accepts_all_latencies.
Proof.
  intros H. specialize (H (cfg_single []) [Plan 65535 no_events 7500 false 0] eq_refl).
  rewrite skip_zero_witness in H. discriminate.
Qed.

(* ------------------------------------------------------------------ counter and channel follow the events *)
(* The abstract, unwrapped number of the planned connection event: 0 after a reset, + planned skip,
   + 1 per timeout, - pull-back. *)
Definition delta (c : cfg) (s : state) (o : op) : Z :=
  match o with
  | Plan lat0 ev _ pend inst0 => Z.of_N (plan_skip c s (lat0 mod two16) ev pend (inst0 mod two16))
  | Tmo _ => 1%Z
  | Resched ok t0 iv0 =>
      if disarmable c && negb (ll s =? 1) && ok
      then Z.opp (Z.of_N (ll s - N.min (resched_times (t0 mod two32) (iv0 mod two32)) (ll s))) else 0%Z
  | Move count _ => count
  | _ => 0%Z
  end.

Definition next_event (c : cfg) (s : state) (e : Z) (o : op) : Z :=
  match o with Reset => 0%Z | _ => (e + delta c s o)%Z end.

Fixpoint final (c : cfg) (s : state) (ops : list op) : state :=
  match ops with [] => s | o :: t => final c (fst (step c s o)) t end.

Fixpoint events_passed (c : cfg) (s : state) (e : Z) (ops : list op) : Z :=
  match ops with
  | [] => e
  | o :: t => let s' := fst (step c s o) in
              events_passed c s' (if dead s' then e else next_event c s e o) t
  end.

Definition tracks (s : state) (e : Z) : Prop :=
  dead s = false -> (Z.of_N (counter s) = e mod 65536 /\ Z.of_N (chan s) = e mod 37)%Z.

Lemma move_back_tracks s mm iv nl s' e : move_back s mm iv nl = Some s' -> tracks s e -> dead s = false ->
  tracks s' (e - Z.of_N mm).
Proof.
  intros MB T D. apply move_back_some in MB. destruct MB as (Lm & p & _ & _ & ->).
  specialize (T D). destruct T as [T1 T2]. intros _. cbn [counter chan].
  unfold two16, num_channels, move_offset, max_latency in *. split; lia.
Qed.

Lemma step_tracks c s e o : tracks s e ->
  let s' := fst (step c s o) in tracks s' (if dead s' then e else next_event c s e o).
Proof.
  intros T. cbn zeta. unfold step. destruct (dead s) eqn:D; [cbn [fst]; rewrite D; intros X; congruence|].
  specialize (T D). destruct T as [T1 T2].
  destruct o as [|lat0 ev iv0 pend inst0|iv0|ok t0 iv0|count iv0|k].
  - cbn [fst dead]. intros _. cbn. split; reflexivity.
  - set (k := plan_skip c s (lat0 mod two16) ev pend (inst0 mod two16)).
    destruct (dt_mul (iv0 mod two32) k); [|cbn; intros X; discriminate].
    destruct (disarmable c && (k =? 0)); [cbn; intros X; discriminate|].
    cbn [fst dead next_event delta]. fold k. intros _. cbn [counter chan].
    unfold two16, num_channels in *. split; lia.
  - destruct (dt_add (time s) (iv0 mod two32)); [|cbn; intros X; discriminate].
    cbn [fst dead next_event delta]. intros _. cbn [counter chan].
    unfold two16, num_channels in *. split; lia.
  - cbn [next_event delta].
    destruct (disarmable c); cbn [negb andb]; [|cbn [fst]; rewrite D, Z.add_0_r; intros _; auto].
    destruct (ll s =? 1); cbn [negb andb]; [cbn [fst]; rewrite D, Z.add_0_r; intros _; auto|].
    destruct ok; cbn [negb]; [|cbn [fst]; rewrite D, Z.add_0_r; intros _; auto].
    destruct (iv0 mod two32 =? 0); [cbn; intros X; discriminate|].
    destruct (dt_add (t0 mod two32) (iv0 mod two32)); [|cbn; intros X; discriminate].
    destruct (two31 <=? resched_times (t0 mod two32) (iv0 mod two32)); [cbn; intros X; discriminate|].
    destruct (move_back s _ (iv0 mod two32) 1) as [s'|] eqn:MB; [|cbn; intros X; discriminate].
    cbn [fst]. pose proof (move_back_some _ _ _ _ _ MB) as (_ & p & _ & _ & E).
    replace (dead s') with false by (rewrite E; reflexivity).
    rewrite Z.add_opp_r. apply (move_back_tracks _ _ _ _ _ _ MB); [intros _; auto | exact D].
  - destruct (Z.ltb_spec 0 count) as [P|P]; [cbn; intros X; discriminate|].
    destruct (move_back s _ (iv0 mod two32) (ll s)) as [s'|] eqn:MB; [|cbn; intros X; discriminate].
    cbn [fst next_event delta]. pose proof (move_back_some _ _ _ _ _ MB) as (_ & p & _ & _ & E).
    replace (dead s') with false by (rewrite E; reflexivity).
    replace (e + count)%Z with (e - Z.of_N (Z.to_N (- count)))%Z by lia.
    apply (move_back_tracks _ _ _ _ _ _ MB); [intros _; auto | exact D].
  - cbn [next_event delta]. rewrite Z.add_0_r.
    destruct (is_set c && Nat.ltb k (length (confs c))); cbn [fst dead counter chan]; [|rewrite D]; intros _; auto.
Qed.

Lemma tracks_run c ops : forall s e, tracks s e -> tracks (final c s ops) (events_passed c s e ops).
Proof.
  induction ops as [|o t IH]; intros s e T; [exact T|].
  cbn [final events_passed]. apply IH. apply step_tracks. exact T.
Qed.

(* For every configuration and every history whatsoever (no hypothesis at all): as long as no
   assert has fired, the 16 bit event counter and the channel index are the unwrapped number of
   the planned event reduced mod 2^16 and mod 37 - they advance (and are pulled back) together. *)
Theorem counter_channel_track_events c ops :
  let s := final c (init c) ops in
  let e := events_passed c (init c) 0 ops in
  dead s = false -> (Z.of_N (counter s) = e mod 65536 /\ Z.of_N (chan s) = e mod 37)%Z.
Proof. apply tracks_run. intros _. split; reflexivity. Qed.

(* ------------------------------------------------------------------ the link layer's calls do not assert *)
(* plan_next_connection_event with (latency + 1) * interval below 2^32 us (the link layer: latency <=
   499, interval <= 4 s, i.e. at most 2 * 10^9 us) never runs into an assert *)
Lemma plan_no_fault c s lat0 ev iv0 pend inst0 :
  dead s = false -> lat0 < two16 - 1 -> iv0 < two32 -> (lat0 + 1) * iv0 < two32 ->
  dead (fst (step c s (Plan lat0 ev iv0 pend inst0))) = false.
Proof.
  intros D L Liv P. unfold step. rewrite D.
  assert (E1 : lat0 mod two16 = lat0) by (apply N.mod_small; unfold two16 in *; lia).
  assert (E2 : iv0 mod two32 = iv0) by (apply N.mod_small; exact Liv).
  rewrite E1, E2.
  pose proof (plan_skip_range c s lat0 ev pend (inst0 mod two16) L) as K.
  set (k := plan_skip c s lat0 ev pend (inst0 mod two16)) in *.
  assert (M : iv0 * k < two32).
  { apply (N.le_lt_trans _ ((lat0 + 1) * iv0)); [|exact P]. rewrite (N.mul_comm iv0 k).
    apply N.mul_le_mono_r. lia. }
  destruct (dt_mul iv0 k) eqn:X; [|exfalso; exact (dt_mul_total _ _ M X)].
  replace (disarmable c && (k =? 0)) with false
    by (destruct (disarmable c); cbn; [symmetry; apply N.eqb_neq; lia | reflexivity]).
  reflexivity.
Qed.

(* ------------------------------------------------------------------ stale last_latency_ after a timeout *)
(* plan_next_connection_event_after_timeout leaves last_latency_ alone. With a radio that reports less
   time than has passed (here 0 us, as tests/test_tools/test_radio.hpp does) the planned event is
   pulled back to event 2 although event 5 has already been listened to; a radio that reports the
   time since the anchor (> 5 intervals) leaves the plan alone. The monitor's moveback_range clause
   is conditional on that contract, so both traces are accepted. *)
Definition cfg_default : cfg := cfg_single [0; 1; 2; 3; 4].

Lemma stale_last_latency_witness :
  map snd (run cfg_default (init cfg_default) [Plan 4 no_events 7500 false 0; Tmo 7500; Resched true 0 7500])
  = [OSt None 5 5 37500 (Some 5); OSt None 6 6 45000 (Some 5); OSt (Some true) 2 2 15000 (Some 1)].
Proof. vm_compute. reflexivity. Qed.

Lemma conforming_radio_keeps_plan :
  map snd (run cfg_default (init cfg_default) [Plan 4 no_events 7500 false 0; Tmo 7500; Resched true 37600 7500])
  = [OSt None 5 5 37500 (Some 5); OSt None 6 6 45000 (Some 5); OSt (Some true) 6 6 45000 (Some 1)].
Proof. vm_compute. reflexivity. Qed.

(* ------------------------------------------------------------------ the legal feature sets *)
Fixpoint sublists (l : list N) : list (list N) :=
  match l with [] => [[]] | x :: t => map (cons x) (sublists t) ++ sublists t end.

Lemma legal_feature_sets :
  length (sublists [0; 1; 2; 3; 4; 5]) = 64%nat /\
  length (filter (fun o => legal (cfg_single o)) (sublists [0; 1; 2; 3; 4; 5])) = 33%nat.
Proof. vm_compute. split; reflexivity. Qed.

(* ------------------------------------------------------------------ statements in the spec's vocabulary *)
Lemma must_listen_skip_one c s lat ev pend inst :
  (is_set c = true -> (cur s < length (confs c))%nat) ->
  must_listen c (cur s) ev = true -> plan_skip c s lat ev pend inst = 1.
Proof. intros L H. apply plan_skip_listen. rewrite <- (must_listen_eq c s ev L). exact H. Qed.

Lemma instant_never_skipped c s lat ev inst : counter s < two16 -> inst < two16 ->
  forall j, 1 <= j < plan_skip c s lat ev true inst -> (counter s + j) mod two16 <> inst.
Proof. intros A B. exact (plan_skip_instant c s lat ev true inst eq_refl A B). Qed.
