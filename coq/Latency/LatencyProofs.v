(* Proofs for C23: the monitor of LatencySpec accepts every trace of the model of LatencyModel
   (simulation invariant, induction over the operation list), the function-level statements about
   the planned skip, and the unbounded "counter and channel index follow the number of events"
   statement. *)
From Coq Require Import List NArith ZArith Bool Lia ZifyBool.
Import ListNotations.
From BT Require Import Latency.LatencyModel Latency.LatencySpec.
Local Open Scope N_scope.

Ltac Zify.zify_post_hook ::= Z.to_euclidean_division_equations.

(* ------------------------------------------------------------------ delta_time *)
Lemma dt_mul_exact u r p : dt_mul u r = Some p -> u * r < two32 -> p = u * r.
Proof.
  unfold dt_mul, two32. intros H L.
  destruct ((r =? 0) || (u =? 0)) eqn:Z0.
  - injection H as <-. destruct (N.eqb_spec r 0); [subst; lia|].
    destruct (N.eqb_spec u 0); [subst; lia|]. discriminate.
  - destruct (N.ltb_spec 1 r).
    + destruct (N.eqb_spec u 1).
      * injection H as <-. subst. lia.
      * rewrite N.mod_small in H by exact L.
        destruct ((u <? u * r) && (r <? u * r)); [injection H as <-; reflexivity | discriminate].
    + injection H as <-. assert (r = 1) by lia. subst. lia.
Qed.

Lemma dt_mul_total u r : u * r < two32 -> dt_mul u r <> None.
Proof.
  unfold dt_mul, two32. intros L.
  destruct ((r =? 0) || (u =? 0)) eqn:Z0; [discriminate|].
  apply orb_false_iff in Z0. destruct Z0 as [Hr Hu].
  apply N.eqb_neq in Hr. apply N.eqb_neq in Hu.
  destruct (N.ltb_spec 1 r); [|discriminate].
  destruct (N.eqb_spec u 1); [discriminate|].
  rewrite N.mod_small by exact L.
  assert (u < u * r /\ r < u * r) as [A B] by nia.
  apply N.ltb_lt in A. apply N.ltb_lt in B. rewrite A, B. discriminate.
Qed.

Lemma dt_mul_bound u r p : dt_mul u r = Some p -> u < two32 -> r < two32 -> p < two32.
Proof.
  unfold dt_mul, two32. intros H Lu Lr.
  destruct ((r =? 0) || (u =? 0)); [injection H as <-; lia|].
  destruct (1 <? r).
  - destruct (u =? 1); [injection H as <-; lia|].
    destruct ((u <? (u * r) mod 4294967296) && (r <? (u * r) mod 4294967296)); [|discriminate].
    injection H as <-. apply N.mod_lt. lia.
  - injection H as <-. lia.
Qed.

Lemma dt_add_some a b x : dt_add a b = Some x -> x = a + b /\ a + b < two32.
Proof. unfold dt_add. destruct (N.ltb_spec (a + b) two32) as [L|L]; intros H; [injection H as <-; auto | discriminate]. Qed.
Lemma dt_add_none a b : dt_add a b = None -> two32 <= a + b.
Proof. unfold dt_add. destruct (N.ltb_spec (a + b) two32) as [L|L]; intros H; [discriminate | auto]. Qed.
Lemma dt_sub_some a b x : dt_sub a b = Some x -> x = a - b /\ b <= a.
Proof. unfold dt_sub. destruct (N.leb_spec b a) as [L|L]; intros H; [injection H as <-; auto | discriminate]. Qed.
Lemma dt_sub_none a b : dt_sub a b = None -> a < b.
Proof. unfold dt_sub. destruct (N.leb_spec b a) as [L|L]; intros H; [discriminate | auto]. Qed.

(* ------------------------------------------------------------------ the planned skip *)
Section Skip.
  Variables (c : cfg) (s : state) (lat : N) (ev : events) (pend : bool) (inst : N).

  (* 1 <= s <= latency + 1 for every latency the counter type can hold except 65535 *)
  Lemma plan_skip_range : lat < two16 - 1 ->
    1 <= plan_skip c s lat ev pend inst <= lat + 1.
  Proof.
    unfold plan_skip, two16. intros L.
    destruct (listen_now c s ev), pend; try destruct (N.ltb_spec 0 ((inst + 65536 - counter s) mod 65536)); lia.
  Qed.

  Lemma plan_skip_lt16 : plan_skip c s lat ev pend inst < two16.
  Proof.
    unfold plan_skip, two16.
    destruct (listen_now c s ev), pend; try destruct (N.ltb_spec 0 ((inst + 65536 - counter s) mod 65536)); lia.
  Qed.

  (* an enabled listen condition or an error: listen at the very next event *)
  Lemma plan_skip_listen : listen_now c s ev = true -> plan_skip c s lat ev pend inst = 1.
  Proof.
    unfold plan_skip, two16. intros ->.
    destruct pend; try destruct (N.ltb_spec 0 ((inst + 65536 - counter s) mod 65536)); lia.
  Qed.

  (* latency 65535: the std::uint16_t increment wraps and the skip is 0 *)
  Lemma plan_skip_wraps : lat = two16 - 1 -> listen_now c s ev = false -> plan_skip c s lat ev pend inst = 0.
  Proof.
    unfold plan_skip, two16. intros -> ->.
    destruct pend; try destruct (N.ltb_spec 0 ((inst + 65536 - counter s) mod 65536)); lia.
  Qed.

  (* the pending instant is none of the skipped events counter+1 .. counter+s-1 *)
  Lemma plan_skip_instant : pend = true -> counter s < two16 -> inst < two16 ->
    forall j, 1 <= j < plan_skip c s lat ev pend inst -> (counter s + j) mod two16 <> inst.
  Proof.
    unfold plan_skip, two16. intros -> Lc Li j.
    destruct (listen_now c s ev); destruct (N.ltb_spec 0 ((inst + 65536 - counter s) mod 65536)); lia.
  Qed.

  Lemma plan_skip_le_distance : pend = true ->
    0 < (inst + two16 - counter s) mod two16 ->
    plan_skip c s lat ev pend inst <= (inst + two16 - counter s) mod two16.
  Proof.
    unfold plan_skip, two16. intros ->.
    destruct (listen_now c s ev); destruct (N.ltb_spec 0 ((inst + 65536 - counter s) mod 65536)); lia.
  Qed.
End Skip.

(* ------------------------------------------------------------------ features *)
From Coq Require Import Btauto.

Definition wf_cfg (c : cfg) : Prop := is_set c = true -> confs c <> [].

Lemma legal_wf c : legal c = true -> wf_cfg c.
Proof.
  unfold legal, wf_cfg. intros H S. rewrite S in H. intros E. rewrite E in H. discriminate.
Qed.

(* the three-way (all / none / run time) evaluation of a configuration set is the option list of
   the selected configuration *)
Lemma feature_enabled c s f :
  (is_set c = true -> (cur s < length (confs c))%nat) -> feature c s f = enabled c (cur s) f.
Proof.
  unfold feature, enabled. destruct (is_set c); [|reflexivity]. intros L. specialize (L eq_refl).
  pose proof (nth_In (confs c) [] L) as IN.
  destruct (forallb (has f) (confs c)) eqn:A.
  - rewrite forallb_forall in A. symmetry. apply A. exact IN.
  - destruct (existsb (has f) (confs c)) eqn:B; cbn; [reflexivity|].
    destruct (has f (nth (cur s) (confs c) [])) eqn:E; [|reflexivity].
    assert (existsb (has f) (confs c) = true) by (apply existsb_exists; eauto). congruence.
Qed.

Lemma must_listen_eq c s ev :
  (is_set c = true -> (cur s < length (confs c))%nat) -> must_listen c (cur s) ev = listen_now c s ev.
Proof.
  intros L. unfold must_listen, listen_now. cbn [existsb fst snd].
  rewrite !(feature_enabled c s _ L). btauto.
Qed.

(* ------------------------------------------------------------------ modular arithmetic *)
Lemma lt16 x : x mod two16 < two16.  Proof. unfold two16. lia. Qed.
Lemma lt32 x : x mod two32 < two32.  Proof. unfold two32. lia. Qed.
Lemma lt37 x : x mod num_channels < num_channels.  Proof. unfold num_channels. lia. Qed.

(* the skip read off the counter is the skip taken *)
Lemma obs_skip cnt k : cnt < two16 -> k < two16 -> ((cnt + k) mod two16 + two16 - cnt) mod two16 = k.
Proof. unfold two16. lia. Qed.

(* the pull-back read off the counter is the pull-back made *)
Lemma obs_back cnt mm : cnt < two16 -> mm < two16 ->
  (cnt + two16 - (cnt + two16 - mm) mod two16) mod two16 = mm.
Proof. unfold two16. lia. Qed.

(* ( channel_index_ + count + offset ) % 37 really goes back by -count *)
Lemma chan_back ch mm : ch < num_channels -> mm <= max_latency ->
  ((ch + move_offset - mm) mod num_channels + mm) mod num_channels = ch.
Proof. unfold num_channels, max_latency, move_offset. lia. Qed.

Lemma times_ge a t iv : 0 < iv -> a * iv <= t -> a <= resched_times t iv.
Proof.
  intros P H. unfold resched_times.
  destruct (N.eq_dec a 0) as [->|NZ]; [lia|].
  assert (a <= (t + iv - 1) / iv); [|lia].
  apply N.div_le_lower_bound; [lia|]. nia.
Qed.

(* ------------------------------------------------------------------ simulation *)
Record inv (c : cfg) (s : state) (m : mon) : Prop := mkinv {
  i_c : mc m = counter s; i_ch : mch m = chan s; i_t : mt m = time s; i_cur : mcur m = cur s;
  i_cr : counter s < two16; i_chr : chan s < num_channels; i_tr : time s < two32;
  i_ll : ll s = budget m + 1;
  i_set : is_set c = true -> (cur s < length (confs c))%nat;
  i_trk : tracked m = true -> budget m + 1 <= dist m /\ att m < dist m /\ (att m = 0 \/ budget m < att m)
}.

Definition R (c : cfg) (s : state) (m : mon) : Prop :=
  if dead s then mdead m = true else mdead m = false /\ inv c s m.

Definition op_ok (o : op) : Prop :=
  match o with Plan lat _ _ _ _ => lat mod two16 <> two16 - 1 | _ => True end.

Lemma judge_ok l m' m : forallb fst l = true -> judge l m' m = (Ok, m').
Proof.
  unfold judge. intros H. replace (checks l) with (@None nat); [reflexivity|].
  induction l as [|[[|] tag] t IH]; cbn in *; auto; discriminate.
Qed.

Lemma ll_shape_show c x : ll_shape c (if disarmable c then Some x else None) = true.
Proof. unfold ll_shape. destruct (disarmable c); reflexivity. Qed.

Lemma R_dead c s m : dead s = true -> mdead m = true -> R c s m.
Proof. unfold R. intros -> H. exact H. Qed.

Ltac dead_end := eexists; split; [reflexivity | apply R_dead; reflexivity].

Section Sim.
  Variables (c : cfg) (s : state) (m : mon).
  Hypothesis W : wf_cfg c.
  Hypothesis Ds : dead s = false.
  Hypothesis Dm : mdead m = false.
  Hypothesis I : inv c s m.

  Let goal (o : op) : Prop :=
    exists m', mstep c m o (snd (step c s o)) = (Ok, m') /\ R c (fst (step c s o)) m'.

  Lemma sim_reset : goal Reset.
  Proof.
    destruct I. unfold goal, step, mstep. rewrite Ds, Dm. cbn [fst snd show counter chan time ll].
    eexists. split.
    - apply judge_ok. cbn [forallb fst]. rewrite ll_shape_show. destruct (disarmable c); reflexivity.
    - unfold R. cbn [dead]. split; [reflexivity|]. constructor; cbn; auto; try (unfold two16, num_channels, two32; lia).
  Qed.

  Lemma sim_plan lat0 ev iv0 pend inst0 : lat0 mod two16 <> two16 - 1 -> goal (Plan lat0 ev iv0 pend inst0).
  Proof.
    intros L. destruct I. unfold goal, step, mstep. rewrite Ds, Dm.
    set (lat := lat0 mod two16) in *. set (iv := iv0 mod two32). set (inst := inst0 mod two16).
    assert (Llat : lat < two16 - 1) by (subst lat; unfold two16 in *; lia).
    assert (Liv : iv < two32) by (subst iv; unfold two32; lia).
    pose proof (plan_skip_range c s lat ev pend inst Llat) as K.
    pose proof (plan_skip_listen c s lat ev pend inst) as KL.
    pose proof (plan_skip_le_distance c s lat ev pend inst) as KD.
    set (k := plan_skip c s lat ev pend inst) in *.
    destruct (dt_mul iv k) as [t'|] eqn:M.
    - replace (disarmable c && (k =? 0)) with false
        by (destruct (disarmable c); cbn; [symmetry; apply N.eqb_neq; lia | reflexivity]).
      cbn [fst snd show counter chan time ll].
      pose proof (dt_mul_bound _ _ _ M Liv) as Tb.
      pose proof (dt_mul_exact _ _ _ M) as Te.
      assert (S : ((counter s + k) mod two16 + two16 - mc m) mod two16 = k)
        by (rewrite i_c0; unfold two16 in *; lia).
      rewrite S.
      eexists. split.
      + apply judge_ok. cbn [forallb fst]. rewrite ll_shape_show.
        rewrite i_cur0, (must_listen_eq c s ev i_set0), i_ch0, i_c0.
        assert (A1 : in_range ((counter s + k) mod two16) ((chan s + k) mod num_channels) t' = true)
          by (unfold in_range, two16, num_channels, two32 in *; lia).
        assert (A2 : negb (listen_now c s ev) || (k =? 1) = true)
          by (destruct (listen_now c s ev); cbn; [rewrite KL by reflexivity; reflexivity | reflexivity]).
        assert (A3 : negb pend || ((inst + two16 - counter s) mod two16 =? 0) || (k <=? (inst + two16 - counter s) mod two16) = true).
        { destruct pend; cbn; [|reflexivity]. specialize (KD eq_refl).
          destruct (N.eqb_spec ((inst + two16 - counter s) mod two16) 0) as [E|E]; cbn; [reflexivity|].
          apply N.leb_le. apply KD. lia. }
        assert (A4 : negb (k * iv <? two32) || (t' =? k * iv) = true).
        { destruct (N.ltb_spec (k * iv) two32) as [E|E]; cbn; [|reflexivity].
          apply N.eqb_eq. rewrite Te; lia. }
        assert (A5 : match (if disarmable c then Some k else None) with Some x => x =? k | None => true end = true)
          by (destruct (disarmable c); [apply N.eqb_refl | reflexivity]).
        rewrite A1, A2, A3, A4, A5. rewrite N.eqb_refl. cbn.
        unfold two16 in *. lia.
      + unfold R. cbn [dead]. split; [reflexivity|].
        constructor; cbn; auto; try (unfold two16, num_channels, two32 in *; lia).
    - (* the multiplication asserts: only possible when the precondition is violated *)
      cbn [fst snd die].
      assert (two32 <= iv * k).
      { destruct (N.lt_ge_cases (iv * k) two32) as [E|E]; [|exact E]. exfalso. exact (dt_mul_total _ _ E M). }
      replace (((lat + 1) * iv <? two32) && (lat <? two16 - 1)) with false
        by (symmetry; apply andb_false_iff; left; apply N.ltb_ge; unfold two32 in *; nia).
      dead_end.
  Qed.
End Sim.
