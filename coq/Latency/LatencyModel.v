(* Executable model of bluetoe/link_layer/include/bluetoe/peripheral_latency.hpp:
     details::connection_state_base          (plan_next_connection_event,
                                              plan_next_connection_event_after_timeout,
                                              peripheral_latency_move_connection_event,
                                              reset_connection_state, the three getters)
     details::disarmable_connection_state    (last_latency_, reschedule_on_pending_data_impl)
     details::peripheral_latency_state< peripheral_latency_configuration< Options... > >
     details::peripheral_latency_state< peripheral_latency_configuration_set< Configurations... > >
   and of the delta_time arithmetic it uses (bluetoe/link_layer/delta_time.cpp: 32 bit microseconds,
   operator+= / -= / *= with their asserts).
   Definitions only. The code is transcribed as it is: the planned latency is a std::uint16_t
   (latency 65535 wraps to a skip of 0), the event counter is a std::uint16_t, the channel index is
   an unsigned reduced mod 37, `last_latency_` is not touched by the timeout planning, a failing
   assert is the outcome Fault. *)
From Coq Require Import List NArith ZArith Bool.
Import ListNotations.
Local Open Scope N_scope.

(* ---- constants (pinned against the sources in Props/Properties_C23.v) ---- *)
Definition max_latency : N := 499.        (* maximum_link_layer_peripheral_latency *)
Definition num_channels : N := 37.        (* channel_map::max_number_of_data_channels *)
Definition move_offset : N := 518.        (* ( 499 / 37 + 1 ) * 37 *)
Definition two16 : N := 65536.
Definition two31 : N := 2147483648.
Definition two32 : N := 4294967296.

(* enum class peripheral_latency, by declaration order *)
Definition o_pending : N := 0.      (* listen_if_pending_transmit_data *)
Definition o_unack : N := 1.        (* listen_if_unacknowledged_data *)
Definition o_rx_not_empty : N := 2. (* listen_if_last_received_not_empty *)
Definition o_tx_not_empty : N := 3. (* listen_if_last_transmitted_not_empty *)
Definition o_more_data : N := 4.    (* listen_if_last_received_had_more_data *)
Definition o_always : N := 5.       (* listen_always *)

(* ---- configuration ----
   is_set = false: peripheral_latency_configuration< Options... >, confs = [Options]
   is_set = true : peripheral_latency_configuration_set< C0, C1, ... >, confs = [Options of C0; ...] *)
Record cfg := mkcfg { is_set : bool; confs : list (list N) }.

(* feature_enabled< F, Options... >::value *)
Definition has (f : N) (opts : list N) : bool := existsb (N.eqb f) opts.

(* the header's static_assert: !( listen_always_given and sizeof...(Options) > 1 ); a set needs at
   least one member (its members are not instantiated, hence not checked) *)
Definition legal (c : cfg) : bool :=
  if is_set c then negb (Nat.eqb (length (confs c)) 0)
  else match confs c with
       | [o] => negb (has o_always o && Nat.ltb 1 (length o))
       | _ => false
       end.

(* DisarmSupport: feature_enabled< listen_if_pending_transmit_data, Options... >::type for a single
   configuration, listen_if_pending_transmit_data_is_part_of_any_configuration<...>::type = true_type
   for a set *)
Definition disarmable (c : cfg) : bool :=
  if is_set c then true else has o_pending (hd [] (confs c)).

(* connection_event_events *)
Record events := mke {
  e_unack : bool;       (* unacknowledged_data *)
  e_rx_ne : bool;       (* last_received_not_empty *)
  e_tx_ne : bool;       (* last_transmitted_not_empty *)
  e_md : bool;          (* last_received_had_more_data *)
  e_pending : bool;     (* pending_outgoing_data *)
  e_error : bool        (* error_occured *)
}.

Record state := mk {
  counter : N;     (* event_counter_, std::uint16_t *)
  chan : N;        (* channel_index_ *)
  time : N;        (* time_since_last_event_.usec() *)
  ll : N;          (* last_latency_ (only meaningful when disarmable) *)
  cur : nat;       (* current_configuration_ (sets) *)
  dead : bool      (* an assert has fired; the process is gone *)
}.

(* CASE: the object is constructed and reset_connection_state() is called *)
Definition init (c : cfg) : state := mk 0 0 0 1 0 false.

Inductive op :=
| Reset                                                     (* reset_connection_state() *)
| Plan (lat : N) (ev : events) (iv : N) (pend : bool) (inst : N)  (* plan_next_connection_event *)
| Tmo (iv : N)                                              (* plan_next_connection_event_after_timeout *)
| Resched (ok : bool) (t : N) (iv : N)   (* reschedule_on_pending_data; the radio's disarm_connection_event() returns (ok, t) *)
| Move (count : Z) (iv : N)                                 (* peripheral_latency_move_connection_event *)
| Change (k : nat).                                         (* change_peripheral_latency< k-th configuration >() *)

(* result line: return value (reschedule only), connection_event_counter(), current_channel_index(),
   time_since_last_event().usec(), last_latency_ when the state has one *)
Inductive out :=
| OSt (ret : option bool) (c ch t : N) (l : option N)
| OFault | OSkipped.

(* ---- delta_time ---- *)
(* operator+= : assert( sum >= usec_ && sum >= rhs.usec_ ) on the wrapped sum *)
Definition dt_add (a b : N) : option N := if a + b <? two32 then Some (a + b) else None.
(* operator-= : assert( diff <= usec_ ) on the wrapped difference *)
Definition dt_sub (a b : N) : option N := if b <=? a then Some (a - b) else None.
(* operator*= ( unsigned rhs ) *)
Definition dt_mul (u r : N) : option N :=
  if (r =? 0) || (u =? 0) then Some 0
  else if 1 <? r then
    if u =? 1 then Some r
    else let prod := (u * r) mod two32 in
         if (u <? prod) && (r <? prod) then Some prod else None
  else Some u.

(* ---- features ---- *)
(* peripheral_latency_state< configuration_set >::peripheral_latency_feature: all / none / run time;
   runtime_feature walks the configurations with a decreasing index *)
Definition feature (c : cfg) (s : state) (f : N) : bool :=
  if is_set c then
    if forallb (has f) (confs c) then true
    else if negb (existsb (has f) (confs c)) then false
    else has f (nth (cur s) (confs c) [])
  else has f (hd [] (confs c)).

Definition listen_now (c : cfg) (s : state) (ev : events) : bool :=
  (feature c s o_unack && e_unack ev)
  || (feature c s o_rx_not_empty && e_rx_ne ev)
  || (feature c s o_tx_not_empty && e_tx_ne ev)
  || (feature c s o_more_data && e_md ev)
  || (feature c s o_pending && e_pending ev)
  || feature c s o_always
  || e_error ev.

(* the value of connection_peripheral_latency when the state is updated (arguments already
   truncated to their C++ types) *)
Definition plan_skip (c : cfg) (s : state) (lat : N) (ev : events) (pend : bool) (inst : N) : N :=
  let l0 := if listen_now c s ev then 0 else lat in
  let l1 := (l0 + 1) mod two16 in                                   (* ++ on std::uint16_t *)
  if pend then
    let d := (inst + two16 - counter s) mod two16 in                (* instance_distance *)
    if 0 <? d then N.min l1 d else l1
  else l1.

Definition show (c : cfg) (ret : option bool) (s : state) : out :=
  OSt ret (counter s) (chan s) (time s) (if disarmable c then Some (ll s) else None).

Definition die (s : state) : state * out :=
  (mk (counter s) (chan s) (time s) (ll s) (cur s) true, OFault).

(* peripheral_latency_move_connection_event( -m, iv ) for 0 <= m *)
Definition move_back (s : state) (m iv : N) (new_ll : N) : option state :=
  if max_latency <? m then None                                     (* assert( -count <= maximum... ) *)
  else match dt_mul iv m with                                       (* -count * connection_iterval *)
       | None => None
       | Some p =>
           match dt_sub (time s) p with
           | None => None
           | Some t' =>
               Some (mk ((counter s + two16 - m) mod two16)
                        ((chan s + move_offset - m) mod num_channels)
                        t' new_ll (cur s) false)
           end
       end.

(* std::max( 1u, ( rc.second + connection_iterval - delta_time( 1 ) ) / connection_iterval ) *)
Definition resched_times (t iv : N) : N := N.max 1 ((t + iv - 1) / iv).

Definition step (c : cfg) (s : state) (o : op) : state * out :=
  if dead s then (s, OSkipped) else
  match o with
  | Reset =>
      let s' := mk 0 0 0 1 (cur s) false in (s', show c None s')
  | Plan lat0 ev iv0 pend inst0 =>
      let lat := lat0 mod two16 in let iv := iv0 mod two32 in let inst := inst0 mod two16 in
      let k := plan_skip c s lat ev pend inst in
      match dt_mul iv k with
      | None => die s
      | Some t' =>
          if disarmable c && (k =? 0) then die s                    (* assert( l > 0 ) *)
          else let s' := mk ((counter s + k) mod two16) ((chan s + k) mod num_channels) t' k (cur s) false in
               (s', show c None s')
      end
  | Tmo iv0 =>
      match dt_add (time s) (iv0 mod two32) with
      | None => die s
      | Some t' =>
          let s' := mk ((counter s + 1) mod two16) ((chan s + 1) mod num_channels) t' (ll s) (cur s) false in
          (s', show c None s')
      end
  | Resched ok t0 iv0 =>
      let t := t0 mod two32 in let iv := iv0 mod two32 in
      if negb (disarmable c) then (s, show c (Some false) s)
      else if ll s =? 1 then (s, show c (Some false) s)
      else if negb ok then (s, show c (Some false) s)
      else if iv =? 0 then die s                                    (* assert( !connection_iterval.zero() ) *)
      else match dt_add t iv with
           | None => die s
           | Some x =>
               let times := resched_times t iv in                   (* x = t + iv *)
               if two31 <=? times then die s                        (* std::min< int >( times, ... ) goes negative *)
               else let moved := N.min times (ll s) in
                    match move_back s (ll s - moved) iv 1 with
                    | None => die s
                    | Some s' => (s', show c (Some true) s')
                    end
           end
  | Move count iv0 =>
      if (0 <? count)%Z then die s                                  (* assert( count <= 0 ) *)
      else match move_back s (Z.to_N (- count)) (iv0 mod two32) (ll s) with
           | None => die s
           | Some s' => (s', show c None s')
           end
  | Change k =>
      let s' := if is_set c && Nat.ltb k (length (confs c))
                then mk (counter s) (chan s) (time s) (ll s) k false else s in
      (s', show c None s')
  end.

Fixpoint run (c : cfg) (s : state) (ops : list op) : list (op * out) :=
  match ops with
  | [] => []
  | o :: t => let (s', r) := step c s o in (o, r) :: run c s' t
  end.
