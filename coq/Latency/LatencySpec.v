(* Specification monitor for C23 (peripheral latency skips only permitted events).
   It looks at operations and printed results only (event counter, channel index, time since the
   last event, recorded planned skip) and keeps the abstract objects of the property:

     budget   how far the planned event may still be pulled back: (planned skip - 1) after a plan,
              0 after a reset and after a successful pull-back
     dist     number of connection events from the last completed event (anchor) to the planned one
     att      distance of the last event that was listened to without success (timeout), 0 if none
     tracked  dist/att are meaningful (no raw call of the move helper since the last plan)

   Clauses (violation tags):
     skip_range               planned skip s outside 1 .. latency + 1
     listen_condition         an enabled listen condition held (or an error occurred) and s <> 1
     counter_channel_in_step  event counter (mod 2^16) and channel index (mod 37) did not move by the
                              same number of events (plan: +s, timeout: +1, pull-back: -m, else 0)
     moveback_range           pull-back m larger than the budget, the planned event at or before the
                              anchor, or - when the radio reported at least att intervals since the
                              anchor - at or before the event that timed out; or a pull-back
                              although the radio refused to disarm
     instant_skipped          a pending instant lies strictly between the last and the planned event
     time_in_step             time since last event is not s * interval / + interval / - m * interval
     skip_recorded            the recorded planned skip differs from the skip taken
     fault                    an assert fired although the caller kept the preconditions
     shape                    result of the wrong kind / out of range
   The preconditions under which no assert may fire are those of the link layer's calls: the 32 bit
   microsecond arithmetic does not overflow, latency < 65535, pull-back at most 499 events and not
   more time than there is. *)
From Coq Require Import List NArith ZArith Bool.
Import ListNotations.
From BT Require Import Latency.LatencyModel.
Local Open Scope N_scope.

Record mon := mkm {
  mc : N; mch : N; mt : N;      (* last printed counter / channel index / time *)
  budget : N; dist : N; att : N; tracked : bool;
  mcur : nat;                   (* selected configuration of a set *)
  mdead : bool
}.

Definition minit : mon := mkm 0 0 0 0 1 0 true 0 false.

Inductive verdict := Ok | Bad (tag : nat).
Definition t_skip_range := 1%nat.
Definition t_listen_condition := 2%nat.
Definition t_in_step := 3%nat.
Definition t_moveback_range := 4%nat.
Definition t_instant_skipped := 5%nat.
Definition t_time_in_step := 6%nat.
Definition t_skip_recorded := 7%nat.
Definition t_fault := 8%nat.
Definition t_shape := 9%nat.

(* ---- the abstract side: which options are in force, and when they demand listening ---- *)
Definition enabled (c : cfg) (cur : nat) (f : N) : bool :=
  has f (if is_set c then nth cur (confs c) [] else hd [] (confs c)).

(* one line per option of enum class peripheral_latency, as documented in the header *)
Definition must_listen (c : cfg) (cur : nat) (ev : events) : bool :=
  existsb (fun p : N * bool => enabled c cur (fst p) && snd p)
    [ (o_pending, e_pending ev); (o_unack, e_unack ev); (o_rx_not_empty, e_rx_ne ev);
      (o_tx_not_empty, e_tx_ne ev); (o_more_data, e_md ev); (o_always, true) ]
  || e_error ev.

(* first failing check wins *)
Fixpoint checks (l : list (bool * nat)) : option nat :=
  match l with
  | [] => None
  | (true, _) :: t => checks t
  | (false, tag) :: _ => Some tag
  end.

Definition judge (l : list (bool * nat)) (m' : mon) (m : mon) : verdict * mon :=
  match checks l with None => (Ok, m') | Some tag => (Bad tag, m) end.

Definition kill (m : mon) : mon :=
  mkm (mc m) (mch m) (mt m) (budget m) (dist m) (att m) (tracked m) (mcur m) true.

Definition on_fault (pre : bool) (m : mon) : verdict * mon :=
  if pre then (Bad t_fault, m) else (Ok, kill m).

Definition in_range (c ch t : N) : bool := (c <? two16) && (ch <? num_channels) && (t <? two32).

Definition ll_shape (c : cfg) (l : option N) : bool :=
  match l with Some _ => disarmable c | None => negb (disarmable c) end.

Definition mstep (c : cfg) (m : mon) (o : op) (r : out) : verdict * mon :=
  if mdead m then (match r with OSkipped => (Ok, m) | _ => (Bad t_shape, m) end) else
  match o, r with
  | _, OSkipped => (Bad t_shape, m)
  | Reset, OSt None c' ch' t' l =>
      judge [ (ll_shape c l, t_shape); ((c' =? 0) && (ch' =? 0), t_in_step); (t' =? 0, t_time_in_step);
              (match l with Some x => x =? 1 | None => true end, t_skip_recorded) ]
            (mkm 0 0 0 0 1 0 true (mcur m) false) m
  | Reset, OFault => on_fault true m
  | Plan lat0 ev iv0 pend inst0, OSt None c' ch' t' l =>
      let lat := lat0 mod two16 in let iv := iv0 mod two32 in let inst := inst0 mod two16 in
      let s := (c' + two16 - mc m) mod two16 in                 (* the skip taken, read off the counter *)
      let d := (inst + two16 - mc m) mod two16 in               (* events until the pending instant *)
      judge [ (ll_shape c l && in_range c' ch' t', t_shape);
              ((1 <=? s) && (s <=? lat + 1), t_skip_range);
              (negb (must_listen c (mcur m) ev) || (s =? 1), t_listen_condition);
              (ch' =? (mch m + s) mod num_channels, t_in_step);
              (negb pend || (d =? 0) || (s <=? d), t_instant_skipped);
              (negb (s * iv <? two32) || (t' =? s * iv), t_time_in_step);
              (match l with Some x => x =? s | None => true end, t_skip_recorded) ]
            (mkm c' ch' t' (s - 1) s 0 true (mcur m) false) m
  | Plan lat0 _ iv0 _ _, OFault =>
      let lat := lat0 mod two16 in let iv := iv0 mod two32 in
      on_fault (((lat + 1) * iv <? two32) && (lat <? two16 - 1)) m
  | Tmo iv0, OSt None c' ch' t' l =>
      let iv := iv0 mod two32 in
      judge [ (ll_shape c l && in_range c' ch' t', t_shape);
              ((c' =? (mc m + 1) mod two16) && (ch' =? (mch m + 1) mod num_channels), t_in_step);
              (t' =? mt m + iv, t_time_in_step) ]
            (mkm c' ch' t' (budget m) (dist m + 1) (dist m) (tracked m) (mcur m) false) m
  | Tmo iv0, OFault => on_fault (mt m + iv0 mod two32 <? two32) m
  | Resched ok t0 iv0, OSt (Some b) c' ch' t' l =>
      let t := t0 mod two32 in let iv := iv0 mod two32 in
      let mv := (mc m + two16 - c') mod two16 in                (* pull-back, read off the counter *)
      if b then
        let contract := att m * iv <=? t in                     (* radio: at least att intervals since the anchor *)
        judge [ (ll_shape c l && in_range c' ch' t', t_shape);
                (ok, t_moveback_range);
                (mv <=? budget m, t_moveback_range);
                (negb (tracked m) || (mv <? dist m), t_moveback_range);
                (negb (tracked m) || negb contract || (att m <? dist m - mv), t_moveback_range);
                ((ch' + mv) mod num_channels =? mch m, t_in_step);
                (negb (mv * iv <? two32) || (t' + mv * iv =? mt m), t_time_in_step);
                (match l with Some x => x =? 1 | None => true end, t_skip_recorded) ]
              (mkm c' ch' t' 0 (dist m - mv) (if contract then att m else 0) (tracked m) (mcur m) false) m
      else
        judge [ (ll_shape c l && in_range c' ch' t', t_shape);
                ((c' =? mc m) && (ch' =? mch m), t_in_step);
                (t' =? mt m, t_time_in_step) ] m m
  | Resched ok t0 iv0, OFault =>
      let t := t0 mod two32 in let iv := iv0 mod two32 in
      on_fault (negb ok || ((0 <? iv) && (t + iv <? two32) && ((t + iv - 1) / iv <? two31)
                            && (budget m <=? max_latency) && (budget m * iv <=? mt m))) m
  | Move count iv0, OSt None c' ch' t' l =>
      let iv := iv0 mod two32 in
      let mv := Z.to_N (- count) in
      judge [ (ll_shape c l && in_range c' ch' t', t_shape);
              ((count <=? 0)%Z && (mv <=? max_latency), t_shape);
              ((c' =? (mc m + two16 - mv) mod two16) && ((ch' + mv) mod num_channels =? mch m), t_in_step);
              (negb (mv * iv <? two32) || (t' + mv * iv =? mt m), t_time_in_step) ]
            (mkm c' ch' t' (budget m) (dist m - mv) (att m) (tracked m && (mv =? 0)) (mcur m) false) m
  | Move count iv0, OFault =>
      let iv := iv0 mod two32 in
      on_fault ((count <=? 0)%Z && (Z.to_N (- count) <=? max_latency) && (Z.to_N (- count) * iv <=? mt m)) m
  | Change k, OSt None c' ch' t' l =>
      judge [ (ll_shape c l && in_range c' ch' t', t_shape);
              ((c' =? mc m) && (ch' =? mch m), t_in_step);
              (t' =? mt m, t_time_in_step) ]
            (mkm c' ch' t' (budget m) (dist m) (att m) (tracked m)
                 (if is_set c && Nat.ltb k (length (confs c)) then k else mcur m) false) m
  | Change _, OFault => on_fault true m
  | _, _ => (Bad t_shape, m)
  end.

Fixpoint monitor_from (c : cfg) (m : mon) (pos : nat) (tr : list (op * out)) : option (nat * nat) :=
  match tr with
  | [] => None
  | (o, r) :: t =>
      match mstep c m o r with
      | (Ok, m') => monitor_from c m' (S pos) t
      | (Bad tag, _) => Some (pos, tag)
      end
  end.

Definition monitor (c : cfg) (tr : list (op * out)) : option (nat * nat) := monitor_from c minit O tr.
