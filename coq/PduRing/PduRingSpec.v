(* Abstract specification and executable monitor for the PDU ring buffer (property C18).

   The abstract object is a FIFO of committed PDUs. The monitor looks only at operations and their
   observed outputs and keeps beside the trace
     fifo    the live PDUs, oldest first, each with the offset of its region (offsets are part of
             the observable interface: alloc_front and next_end return pointers into the storage
             the caller owns) and the bytes it had when it was committed,
     cur     the region of the latest successful alloc_front since the last push_front/reset,
     shadow  the bytes the user wrote into that region since it was handed out.

   Operation discipline (DESIGN.md 12.1) = the documented preconditions; an operation outside of it
   puts the monitor into the state `dead`, in which it accepts everything (the property does not
   speak about such histories):
     Alloc n      n >= data_channel_pdu_memory_size( 0 )
     Write        only inside the region `cur`
     Push off n   (off, n) = cur, the user wrote the length byte L since the alloc, L >= 1,
                  n >= data_channel_pdu_memory_size( L )   [and, if a limit `lim` is given,
                  data_channel_pdu_memory_size( L ) < lim]
     Pop          the FIFO is not empty          Reset   the FIFO is empty
   Pops may be interleaved anywhere between alloc and push.

   Clauses (violation tags):
     oob_write          an operation inside the discipline faulted (access outside [0,Size) or
                        assert), or alloc_front returned a region not inside [0,Size)
     overlap            alloc_front returned a region that overlaps a live PDU
     alloc_complete     alloc_front failed on a NON-empty ring although the append region
                        [front, front+n) or the wrap region [0,n) (n < end, one byte gap) is free
     alloc_empty        alloc_front failed on an EMPTY ring for n <= Size - 1 (the header's own
                        guarantee); only checked when `strict`
     region_clobbered   a byte the user wrote into the allocated region was changed before commit
     fifo_order         next_end does not return the oldest live PDU (lost, phantom, wrong place)
     bytes_intact       the bytes (or the size) of a live PDU differ from the committed ones
     more_than_one      more_than_one() <> (at least two live PDUs)
     shape              output of the wrong kind / wrong size echoed *)
From BT Require Import Base.ListX PduRing.PduRingModel.

Record mon := mkmon {
  dead : bool;
  fifo : list (nat * list N);
  cur : option (nat * nat);
  shadow : list (option N)
}.

Definition minit (size : nat) : mon := mkmon false [] None (repeat None size).

Inductive verdict := Ok | Bad (tag : nat).
Definition t_oob := 1.
Definition t_overlap := 2.
Definition t_alloc_complete := 3.
Definition t_alloc_empty := 4.
Definition t_region := 5.
Definition t_fifo := 6.
Definition t_bytes := 7.
Definition t_more := 8.
Definition t_shape := 9.

Definition kill (m : mon) : mon := mkmon true (fifo m) (cur m) (shadow m).

(* the FIFO spec proper *)
Definition contents (m : mon) : list (list N) := map snd (fifo m).

(* offset just behind the newest live PDU *)
Definition live_end (f : list (nat * list N)) : nat :=
  match last f (0, []) with (off, c) => off + length c end.

Definition region_free (f : list (nat * list N)) (off n : nat) : bool :=
  forallb (fun pc => (off + n <=? fst pc) || (fst pc + length (snd pc) <=? off)) f.

(* must an alloc of n succeed on a non empty ring? (first live PDU at e, newest ends at f) *)
Definition must_fit (size e f n : nat) : bool :=
  if e <? f then (n <=? size - f) || (n <? e)
  else if f <? e then n <? e - f
  else false.

Fixpoint swr (sh : list (option N)) (off : nat) (bytes : list N) : list (option N) :=
  match bytes with
  | [] => sh
  | b :: t => swr (upd sh off (Some b)) (S off) t
  end.

(* every byte the user wrote into [off, off + length c) is found in c *)
Definition agree (sh : list (option N)) (off : nat) (c : list N) : bool :=
  forallb (fun k => match nth (off + k) sh None with
                    | Some b => N.eqb b (nth k c 0%N)
                    | None => true
                    end) (seq 0 (length c)).

Definition list_eqb (a b : list N) : bool :=
  (length a =? length b) && forallb (fun k => N.eqb (nth k a 0%N) (nth k b 0%N)) (seq 0 (length a)).

Definition same_region (a : option (nat * nat)) (off n : nat) : bool :=
  match a with Some (o', n') => (o' =? off) && (n' =? n) | None => false end.

Section Monitor.
  Variable strict : bool.   (* check the empty-ring guarantee *)
  Variable lim : nat.       (* 0: PDUs of any size; else pushes with memory size >= lim are outside the discipline *)
  Variable size : nat.
  Variable o : nat.         (* layout overhead *)

  Definition fresh : list (option N) := repeat None size.

  Definition mstep (m : mon) (op_ : op) (r : out) : verdict * mon :=
    if dead m then (Ok, m) else
    match op_ with
    | Alloc n =>
        if n <? hdr + o then (Ok, kill m) else
        match r with
        | OAlloc off n' =>
            if negb (n' =? n) then (Bad t_shape, m)
            else if negb (off + n <=? size) then (Bad t_oob, m)
            else if negb (region_free (fifo m) off n) then (Bad t_overlap, m)
            else (Ok, mkmon false (fifo m) (Some (off, n))
                            (if same_region (cur m) off n then shadow m else fresh))
        | ONone =>
            match fifo m with
            | [] => (if strict && (n <=? size - 1) then Bad t_alloc_empty else Ok, m)
            | (e, _) :: _ => (if must_fit size e (live_end (fifo m)) n then Bad t_alloc_complete else Ok, m)
            end
        | OFault => (Bad t_oob, m)
        | _ => (Bad t_shape, m)
        end
    | Write off bytes =>
        match cur m with
        | Some (ro, rn) =>
            if (ro <=? off) && (off + length bytes <=? ro + rn) then
              match r with
              | OUnit => (Ok, mkmon false (fifo m) (cur m) (swr (shadow m) off bytes))
              | OFault => (Bad t_oob, m)
              | _ => (Bad t_shape, m)
              end
            else (Ok, kill m)
        | None => (Ok, kill m)
        end
    | Push off n =>
        if same_region (cur m) off n then
          match nth (S off) (shadow m) None with
          | Some lb =>
              let l := N.to_nat lb in
              let sz := hdr + o + l in
              if (1 <=? l) && (sz <=? n) && ((lim =? 0) || (sz <? lim)) then
                match r with
                | OCommit c =>
                    if negb (length c =? sz) then (Bad t_shape, m)
                    else if negb (agree (shadow m) off c) then (Bad t_region, m)
                    else (Ok, mkmon false (fifo m ++ [(off, c)]) None fresh)
                | OFault => (Bad t_oob, m)
                | _ => (Bad t_shape, m)
                end
              else (Ok, kill m)
          | None => (Ok, kill m)
          end
        else (Ok, kill m)
    | Peek =>
        match r, fifo m with
        | ONone, [] => (Ok, m)
        | ONone, _ :: _ => (Bad t_fifo, m)
        | OPeek _ _ _, [] => (Bad t_fifo, m)
        | OPeek off len bytes, (po, c) :: _ =>
            if negb (off =? po) then (Bad t_fifo, m)
            else if negb ((len =? length c) && list_eqb bytes c) then (Bad t_bytes, m)
            else (Ok, m)
        | OFault, _ => (Bad t_oob, m)
        | _, _ => (Bad t_shape, m)
        end
    | Pop =>
        match fifo m with
        | [] => (Ok, kill m)
        | _ :: t =>
            match r with
            | OUnit => (Ok, mkmon false t (cur m) (shadow m))
            | OFault => (Bad t_oob, m)
            | _ => (Bad t_shape, m)
            end
        end
    | More =>
        match r with
        | OBool b => (if Bool.eqb b (2 <=? length (fifo m)) then Ok else Bad t_more, m)
        | OFault => (Bad t_oob, m)
        | _ => (Bad t_shape, m)
        end
    | Reset =>
        match fifo m with
        | [] =>
            match r with
            | OUnit => (Ok, mkmon false [] None fresh)
            | OFault => (Bad t_oob, m)
            | _ => (Bad t_shape, m)
            end
        | _ :: _ => (Ok, kill m)
        end
    | Dump =>
        match r with
        | ODump d =>
            if negb (length d =? size) then (Bad t_shape, m)
            else if negb (forallb (fun pc => list_eqb (slice d (fst pc) (length (snd pc))) (snd pc)) (fifo m))
            then (Bad t_bytes, m)
            else if negb (agree (shadow m) 0 d) then (Bad t_region, m)
            else (Ok, m)
        | OFault => (Bad t_oob, m)
        | _ => (Bad t_shape, m)
        end
    | St =>
        match r with
        | OSt _ _ => (Ok, m)
        | OFault => (Bad t_oob, m)
        | _ => (Bad t_shape, m)
        end
    end.

  (* first violation of a trace: Some (position, tag); None = the property holds on the trace *)
  Fixpoint monitor_from (m : mon) (pos : nat) (tr : list (op * out)) : option (nat * nat) :=
    match tr with
    | [] => None
    | (op_, r) :: t =>
        match mstep m op_ r with
        | (Ok, m') => monitor_from m' (S pos) t
        | (Bad tag, _) => Some (pos, tag)
        end
    end.

  Definition monitor (tr : list (op * out)) : option (nat * nat) := monitor_from (minit size) 0 tr.

  (* the monitor's state after a trace; `dead` = the history left the operation discipline *)
  Fixpoint mon_final (m : mon) (tr : list (op * out)) : mon :=
    match tr with
    | [] => m
    | (op_, r) :: t => mon_final (snd (mstep m op_ r)) t
    end.
End Monitor.

(* the abstract object: a FIFO of byte strings. What an operation with the observed output does to it *)
Definition fifo_spec (q : list (list N)) (op_ : op) (r : out) : list (list N) :=
  match op_, r with
  | Push _ _, OCommit c => q ++ [c]
  | Pop, OUnit => tl q
  | _, _ => q
  end.

(* regions (offset, size) that do not overlap, pairwise *)
Definition apart (p q : nat * nat) : Prop := fst p + snd p <= fst q \/ fst q + snd q <= fst p.
Fixpoint all_apart (l : list (nat * nat)) : Prop :=
  match l with
  | [] => True
  | p :: t => (forall q, In q t -> apart p q) /\ all_apart t
  end.

(* configurations: the storage holds at least the header written by reset *)
Definition wf (c : cfg) : Prop := hdr <= Size c.

(* all allocation requests of a history are at most n *)
Definition alloc_sizes_le (bound : nat) (ops : list op) : Prop :=
  Forall (fun op_ => match op_ with Alloc n => n <= bound | _ => True end) ops.
