(* Executable model of bluetoe/link_layer/include/bluetoe/ring_buffer.hpp
   (pdu_ring_buffer< Size, Buffer, Layout >), definitions only, no proofs.

   The ring does not own its storage: every member function is handed `buffer`, an array of Size
   bytes, and keeps two pointers into it. In the model the storage is `mem : list N` of length
   Size and the pointers are offsets (`nat`, list positions) from `buffer`:

       front_  ->  front      end_  ->  end_

   Layout: both layouts keep the 16 bit LL header in the first two bytes, the length field is the
   second byte (header >> 8); data_channel_pdu_memory_size( payload ) = header_size + payload
   (+ 1 for bluetoe::nrf_details::encrypted_pdu_layout). `ovh` is that extra overhead, 0 or 1.

   pdu_length exists twice in the C++:
       template < class P > static std::uint8_t pdu_length( const P& pdu );   // used by push_front
       template < typename P > static std::size_t pdu_length( P* );           // used everywhere else
   The first one truncates its result to 8 bits. `lmod` is the modulus of that truncation as read
   from the current source by gen/consts/pduring.py (256 for std::uint8_t, 0 = no truncation for
   std::size_t), so that the same model text follows the code before and after a repair.

   Every memory access of the C++ (Layout::header reads and writes two bytes, the harness' user
   writes and its reading of a peeked PDU) is bounds checked here; an access outside [0,Size) and a
   failing `assert` give the outcome OFault. *)
From BT Require Import Base.ListX.

Record cfg := mkcfg { Size : nat; ovh : nat; lmod : nat }.

Record state := mk { mem : list N; front : nat; end_ : nat }.

(* ll_header_size / Layout::header_size *)
Definition hdr : nat := 2.
(* the byte std::memset by the harness into the fresh storage *)
Definition fill_byte : N := 170%N.

(* Layout::data_channel_pdu_memory_size( payload ) *)
Definition msz (c : cfg) (payload : nat) : nat := hdr + ovh c + payload.

(* Layout::header( p ) >> 8, the length field, for p = buffer + off *)
Definition lenb (m : list N) (off : nat) : nat := N.to_nat (nth (S off) m 0%N).

(* both bytes of a 16 bit header at off are inside the storage *)
Definition hdr_in (c : cfg) (off : nat) : bool := off + hdr <=? Size c.

(* std::size_t pdu_length( P* p ) *)
Definition plen (c : cfg) (m : list N) (off : nat) : nat := msz c (lenb m off).

(* the conversion to the return type of  pdu_length( const P& ) *)
Definition trunc (c : cfg) (x : nat) : nat := if lmod c =? 0 then x else x mod lmod c.

(* bytes [off, off+len) as they are in memory *)
Definition slice (m : list N) (off len : nat) : list N := map (fun i => nth i m 0%N) (seq off len).

(* the user (radio / link layer) writing bytes at buffer + off *)
Fixpoint wr (m : list N) (off : nat) (bytes : list N) : list N :=
  match bytes with
  | [] => m
  | b :: t => wr (upd m off b) (S off) t
  end.

(* Layout::header( p, wrap_mark ) : write_16bit( p, 0 ) *)
Definition mark (m : list N) (off : nat) : list N := upd (upd m off 0%N) (S off) 0%N.

Inductive op :=
| Alloc (n : nat)                   (* alloc_front( buffer, n ) *)
| Write (off : nat) (bytes : list N)(* the user fills (part of) an allocated region *)
| Push (off n : nat)                (* push_front( buffer, Buffer{ buffer + off, n } ) *)
| Peek                              (* next_end(), and the user reading the bytes *)
| Pop                               (* pop_end( buffer ) *)
| More                              (* more_than_one() *)
| Reset                             (* reset( buffer ) *)
| Dump                              (* observation: the whole storage *)
| St.                               (* observation: front_ - buffer, end_ - buffer *)

Inductive out :=
| OAlloc (off n : nat)              (* Buffer{ buffer + off, n } *)
| ONone                             (* Buffer{ 0, 0 } *)
| OUnit
| OCommit (bytes : list N)          (* the bytes of the PDU as they are when it is committed *)
| OPeek (off len : nat) (bytes : list N)
| OBool (b : bool)
| ODump (bytes : list N)
| OSt (f e : nat)
| OFault                            (* access outside [0,Size) or failing assert *)
| OSkipped.                         (* operation after a fault: not executed *)

(* reset( buffer ):  front_ = end_ = buffer;  Layout::header( buffer, wrap_mark ); *)
Definition do_reset (c : cfg) (m : list N) : option state :=
  if hdr_in c 0 then Some (mk (mark m 0) 0 0) else None.

(* the constructor calls reset on the fresh storage *)
Definition init (c : cfg) : state :=
  match do_reset c (repeat fill_byte (Size c)) with
  | Some s => s
  | None => mk (repeat fill_byte (Size c)) 0 0
  end.

(* alloc_front( buffer, n ); None = Buffer{ 0, 0 }.
   `end_of_buffer - front_` is Size - front (front <= Size whenever the preconditions were
   respected; for a front beyond the buffer the signed C++ difference is negative and the
   truncated subtraction 0, both refuse every n >= 2). *)
Definition alloc_front (c : cfg) (s : state) (n : nat) : option nat :=
  if (front s <? end_ s) && (n <? end_ s - front s) then Some (front s)
  else if end_ s <=? front s then
    if n <=? Size c - front s then Some (front s)
    else if n <? end_ s then Some 0
    else None
  else None.

Definition step (c : cfg) (s : state) (o : op) : state * out :=
  match o with
  | Alloc n =>
      (* assert( size >= Layout::data_channel_pdu_memory_size( 0 ) ) *)
      if n <? msz c 0 then (s, OFault)
      else match alloc_front c s n with
           | Some off => (s, OAlloc off n)
           | None => (s, ONone)
           end
  | Write off bytes =>
      if off + length bytes <=? Size c then (mk (wr (mem s) off bytes) (front s) (end_ s), OUnit)
      else (s, OFault)
  | Push off n =>
      (* the harness reports the PDU's bytes before the call, then
         assert( pdu.size >= pdu_length( pdu ) ), the 8 bit pdu_length *)
      if negb (hdr_in c off) then (s, OFault)
      else
        let l8 := trunc c (plen c (mem s) off) in
        if n <? l8 then (s, OFault)
        else
          let committed := slice (mem s) off (Nat.min (plen c (mem s) off) (Size c - off)) in
          (* if ( front_ != pdu.buffer && front_ + 1 < end_of_buffer ) Layout::header( front_, wrap_mark ) *)
          let m' := if negb (front s =? off) && (front s + 1 <? Size c) then mark (mem s) (front s) else mem s in
          let was_empty := front s =? end_ s in
          (* front_ = pdu.buffer + pdu_length( pdu );  if ( was_empty ) end_ = pdu.buffer; *)
          (mk m' (off + l8) (if was_empty then off else end_ s), OCommit committed)
  | Peek =>
      (* front_ == end_ ? Buffer{ 0, 0 } : Buffer{ end_, pdu_length( end_ ) } *)
      if front s =? end_ s then (s, ONone)
      else if negb (hdr_in c (end_ s)) then (s, OFault)
      else
        let l := plen c (mem s) (end_ s) in
        if end_ s + l <=? Size c then (s, OPeek (end_ s) l (slice (mem s) (end_ s) l))
        else (s, OFault)
  | Pop =>
      (* end_ += pdu_length( end_ ); *)
      if negb (hdr_in c (end_ s)) then (s, OFault)
      else
        let e := end_ s + plen c (mem s) (end_ s) in
        (* if ( end_ != front_ && ( end_ + 1 >= end_of_buffer || end_[ 1 ] == wrap_mark ) ) end_ = buffer; *)
        let e' := if negb (e =? front s) && ((Size c <=? e + 1) || (lenb (mem s) e =? 0)) then 0 else e in
        (mk (mem s) (front s) e', OUnit)
  | More =>
      (* end_ != front_ && ( end_ + pdu_length( end_ ) ) != front_ *)
      if end_ s =? front s then (s, OBool false)
      else if negb (hdr_in c (end_ s)) then (s, OFault)
      else (s, OBool (negb (end_ s + plen c (mem s) (end_ s) =? front s)))
  | Reset =>
      match do_reset c (mem s) with
      | Some s' => (s', OUnit)
      | None => (s, OFault)
      end
  | Dump => (s, ODump (mem s))
  | St => (s, OSt (front s) (end_ s))
  end.

Definition is_fault (r : out) : bool := match r with OFault => true | _ => false end.

(* the trace of (operation, output) pairs of a run; after a fault nothing more is executed *)
Fixpoint run_from (c : cfg) (s : state) (ops : list op) : list (op * out) :=
  match ops with
  | [] => []
  | o :: t =>
      let '(s', r) := step c s o in
      (o, r) :: (if is_fault r then map (fun o' => (o', OSkipped)) t else run_from c s' t)
  end.

Definition run (c : cfg) (ops : list op) : list (op * out) := run_from c (init c) ops.
