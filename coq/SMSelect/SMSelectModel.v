(* Executable model of the pairing method selection of the security managers (property C36).
   Definitions only, no proofs.

   Transcribed code:
     bluetoe/sm/include/bluetoe/io_capabilities.hpp
        pairing_no_output / pairing_numeric_output ::get_io_capabilities,
        ::select_legacy_pairing_algorithm, ::select_lesc_pairing_algorithm (overloaded on the input
        option pairing_no_input / pairing_yes_no / pairing_keyboard), io_capabilities_matrix
     bluetoe/sm/include/bluetoe/oob_authentication.hpp
        oob_authentication_callback (the member oob_data_present_ is the model's state)
     bluetoe/sm/include/bluetoe/security_manager.hpp
        security_manager_base::legacy_handle_pairing_request, lesc_handle_pairing_request,
        security_manager_impl::handle_pairing_request, legacy_select_pairing_algorithm,
        lesc_select_pairing_algorithm, legacy_local_io_caps, lesc_local_io_caps,
        create_pairing_response
   One operation is one Pairing Request (opcode 0x01, 7 bytes) on a connection in state idle, with
   Maximum Encryption Key Size 16 and both key distribution bytes 0 (these three bytes do not take
   part in the selection); the bytes that do are io = input[1], oob = input[2], auth = input[3].
   loc is what the user's sm_oob_authentication_data() callback answers for the peer.
   The output is the Pairing Failed reason, or the bytes 1..3 of the Pairing Response together
   with the pairing algorithm stored in the connection data. *)
From Coq Require Import NArith List Bool.
Import ListNotations.
Local Open Scope N_scope.

(* ---- configuration: the template arguments ---- *)
Inductive variant := VLegacy | VLesc | VCombined.       (* legacy_security_manager, lesc_security_manager, security_manager *)
Inductive input_cap := InNone | InYesNo | InKeyboard.   (* pairing_no_input, pairing_yes_no<>, pairing_keyboard<> *)
Inductive output_cap := OutNone | OutNumeric.           (* pairing_no_output, pairing_numeric_output<> *)
Record cfg := mkcfg {
  c_variant : variant;
  c_in : input_cap;
  c_out : output_cap;
  c_mitm : bool          (* option require_man_in_the_middle_protection present *)
}.

(* ---- enum class io_capabilities ---- *)
Definition io_display_only : N := 0.
Definition io_display_yes_no : N := 1.
Definition io_keyboard_only : N := 2.
Definition io_no_input_no_output : N := 3.
Definition io_keyboard_display : N := 4.
Definition io_last : N := io_keyboard_display.

Inductive legacy_alg := LJustWorks | LOob | LPasskeyDisplay | LPasskeyInput.
Inductive lesc_alg := SJustWorks | SOob | SPasskeyDisplay | SPasskeyInput | SNumeric.

(* enum class authentication_requirements_flags *)
Definition flag_bonding : N := 1.
Definition flag_mitm : N := 4.
Definition flag_secure_connections : N := 8.
Definition flag_keypress : N := 16.
(* enum class sm_error_codes *)
Definition err_pairing_not_supported : N := 5.
Definition err_invalid_parameters : N := 10.

(* ---- output_capabilities::get_io_capabilities( input_capabilities() ) ---- *)
Definition get_io_capabilities (o : output_cap) (i : input_cap) : N :=
  match o, i with
  | OutNone, InNone => io_no_input_no_output
  | OutNone, InYesNo => io_no_input_no_output
  | OutNone, InKeyboard => io_keyboard_only
  | OutNumeric, InNone => io_display_only
  | OutNumeric, InYesNo => io_display_yes_no
  | OutNumeric, InKeyboard => io_keyboard_display
  end.

(* ---- output_capabilities::select_legacy_pairing_algorithm( input_capabilities(), io_capability ) ----
   io_capability is static_cast< io_capabilities >( uint8 ): any byte, only compared for equality *)
Definition select_legacy (o : output_cap) (i : input_cap) (io : N) : legacy_alg :=
  match o, i with
  | OutNone, InNone => LJustWorks
  | OutNone, InYesNo => LJustWorks
  | OutNone, InKeyboard =>
      if io =? io_no_input_no_output then LJustWorks else LPasskeyInput
  | OutNumeric, InNone =>
      if (io =? io_keyboard_only) || (io =? io_keyboard_display) then LPasskeyDisplay else LJustWorks
  | OutNumeric, InYesNo =>
      if (io =? io_keyboard_only) || (io =? io_keyboard_display) then LPasskeyDisplay else LJustWorks
  | OutNumeric, InKeyboard =>
      if io =? io_no_input_no_output then LJustWorks
      else if io =? io_keyboard_only then LPasskeyDisplay
      else LPasskeyInput
  end.

Definition select_lesc (o : output_cap) (i : input_cap) (io : N) : lesc_alg :=
  match o, i with
  | OutNone, InNone => SJustWorks
  | OutNone, InYesNo => SJustWorks
  | OutNone, InKeyboard =>
      if io =? io_no_input_no_output then SJustWorks else SPasskeyInput
  | OutNumeric, InNone =>
      if (io =? io_keyboard_only) || (io =? io_keyboard_display) then SPasskeyDisplay else SJustWorks
  | OutNumeric, InYesNo =>
      if (io =? io_display_yes_no) || (io =? io_keyboard_display) then SNumeric
      else if io =? io_keyboard_only then SPasskeyDisplay
      else SJustWorks
  | OutNumeric, InKeyboard =>
      if (io =? io_display_yes_no) || (io =? io_keyboard_display) then SNumeric
      else if io =? io_display_only then SPasskeyInput
      else if io =? io_keyboard_only then SPasskeyDisplay
      else SJustWorks
  end.

(* accumulate_authentication_requirements_flags over the options of the configuration *)
Definition auth_flags (c : cfg) : N := if c_mitm c then flag_mitm else 0.

(* security_manager_base::legacy_select_pairing_algorithm( io, oob_data_flag, auth_req (unused), has_oob_data ) *)
Definition legacy_select (c : cfg) (io oob : N) (has_oob : bool) : legacy_alg :=
  if negb (oob =? 0) && has_oob then LOob else select_legacy (c_out c) (c_in c) io.

(* security_manager_base::lesc_select_pairing_algorithm( io, oob_data_flag, auth_req (unused), has_oob_data ) *)
Definition lesc_select (c : cfg) (io oob : N) (has_oob : bool) : lesc_alg :=
  if negb (oob =? 0) || has_oob then SOob else select_lesc (c_out c) (c_in c) io.

(* ---- state: oob_authentication_callback::oob_data_present_ (a member of the manager, not of the
   connection; written by request_oob_data_presents_for_remote_device only) ---- *)
Record state := mkst { oob_present : bool }.
Definition init (c : cfg) : state := mkst false.

Inductive op := Req (io oob auth : N) (loc : bool).

Inductive out :=
| OFail (reason : N)                                     (* Pairing Failed *)
| OLegacy (a : legacy_alg) (rio roob rauth : N)          (* Pairing Response bytes 1..3, state legacy_pairing_requested *)
| OLesc (a : lesc_alg) (rio roob rauth : N)              (* Pairing Response bytes 1..3, state lesc_pairing_requested *)
| OOther.                                                (* anything else (never produced by the model) *)

(* ( io_capability > io_capabilities::last ) || ( oob_data_flag & ~0x01 ); the other three conditions
   of the check are false for the fixed key size / key distribution bytes *)
Definition invalid_parameters (io oob : N) : bool :=
  (io_last <? io) || negb (N.land oob 254 =? 0).

Definition sc_requested (auth : N) : bool := negb (N.land auth flag_secure_connections =? 0).

Definition oob_byte (has_oob : bool) : N := if has_oob then 1 else 0.

(* the three pairing request handlers with the secure connections bit of the request already
   extracted (the only use of auth_req in the code) *)
Definition step_sc (c : cfg) (s : state) (io oob : N) (sc loc : bool) : state * out :=
  if invalid_parameters io oob then (s, OFail err_invalid_parameters)
  else
    let lio := get_io_capabilities (c_out c) (c_in c) in
    match c_variant c with
    | VLegacy =>
        (* request_oob_data_presents_for_remote_device; legacy_select...; legacy_local_io_caps *)
        let s' := mkst loc in
        (s', OLegacy (legacy_select c io oob (oob_present s')) lio (oob_byte (oob_present s')) (auth_flags c))
    | VLesc =>
        (* the OOB callback is not asked; lesc_local_io_caps *)
        if negb sc then (s, OFail err_pairing_not_supported)
        else (s, OLesc (lesc_select c io oob (oob_present s)) lio 0 (N.lor (auth_flags c) flag_secure_connections))
    | VCombined =>
        let s' := mkst loc in
        if sc then
          (s', OLesc (lesc_select c io oob (oob_present s')) lio 0 (N.lor (auth_flags c) flag_secure_connections))
        else
          (* response: lesc_local_io_caps with the OOB data flag of legacy_local_io_caps
             (corrected behaviour, fix/C36-combined-legacy-oob-flag; before the fix the flag was 0) *)
          (s', OLegacy (legacy_select c io oob (oob_present s')) lio (oob_byte (oob_present s'))
                       (N.lor (auth_flags c) flag_secure_connections))
    end.

Definition step (c : cfg) (s : state) (o : op) : state * out :=
  match o with
  | Req io oob auth loc => step_sc c s io oob (sc_requested auth) loc
  end.

Fixpoint run (c : cfg) (s : state) (ops : list op) : list (op * out) :=
  match ops with
  | [] => []
  | o :: t => let '(s', r) := step c s o in (o, r) :: run c s' t
  end.

(* all 36 configurations *)
Definition all_variants := [VLegacy; VLesc; VCombined].
Definition all_inputs := [InNone; InYesNo; InKeyboard].
Definition all_outputs := [OutNone; OutNumeric].
Definition all_cfgs : list cfg :=
  flat_map (fun v => flat_map (fun i => flat_map (fun o => map (fun m => mkcfg v i o m) [false; true])
    all_outputs) all_inputs) all_variants.
