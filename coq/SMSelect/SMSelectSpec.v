(* Specification (oracle) and executable monitor for the pairing method selection (property C36).

   The oracle is a transcription of the Core Specification, Vol 3 Part H (Security Manager):
     2.3.2   Table 2.3 / 2.4 / 2.5   user input / output capabilities -> IO capability
     2.3.5.1 Table 2.6  rules for the OOB and MITM flags, LE legacy pairing
             Table 2.7  rules for the OOB and MITM flags, LE Secure Connections
             Table 2.8  mapping of the IO capabilities to the key generation method
     3.5.1 / 3.5.2      Pairing Request / Response: IO capability values 0x00..0x04 (0x05..0xff
             reserved), OOB data flag 0x00 / 0x01 (0x02..0xff reserved), AuthReq bits
             (MITM = bit 2, SC = bit 3); LE Secure Connections is used iff both sides set SC
     3.5.5   Pairing Failed, reason Invalid Parameters (0x0a) for a parameter outside its range
   This transcription is part of the trusted base.

   The peripheral is always the responder. Both devices have to derive the same method from the
   two PDUs they exchanged, so the oracle is applied to the fields of the Pairing Request (the
   operation) and the fields of the Pairing Response the implementation actually sent (the output):
   the monitor looks at operations and outputs only.

   Clauses (violation tags):
     invalid_accepted  a request with a reserved IO capability / OOB flag value is not answered
                       with Pairing Failed (Invalid Parameters)
     rejected          a valid request is refused although the configuration has to serve it (only a
                       LESC-only manager may refuse, and only a request without the SC bit)
     local_io          advertised IO capability differs from Table 2.5 for the configured options,
                       or the advertised OOB data flag is a reserved value
     kind              LE Secure Connections chosen although not both sides set SC, or vice versa
     oob_rule          method differs from the oracle and the OOB rule of Table 2.6 / 2.7 is involved
                       (OOB required but not chosen, or chosen but not required)
     mitm_rule         neither side set MITM, no OOB: Just Works required, something else chosen
     io_table          otherwise: method differs from Table 2.8
     shape             output of no known form *)
From Coq Require Import NArith List Bool.
Import ListNotations.
From BT Require Import SMSelect.SMSelectModel.
Local Open Scope N_scope.

(* ---- 3.5.1: IO capability values ---- *)
Inductive core_io := DisplayOnly | DisplayYesNo | KeyboardOnly | NoInputNoOutput | KeyboardDisplay.

Definition core_io_of_byte (b : N) : option core_io :=
  match b with
  | 0 => Some DisplayOnly
  | 1 => Some DisplayYesNo
  | 2 => Some KeyboardOnly
  | 3 => Some NoInputNoOutput
  | 4 => Some KeyboardDisplay
  | _ => None                      (* 0x05 .. 0xff reserved for future use *)
  end.

Definition byte_of_core_io (i : core_io) : N :=
  match i with
  | DisplayOnly => 0 | DisplayYesNo => 1 | KeyboardOnly => 2 | NoInputNoOutput => 3 | KeyboardDisplay => 4
  end.

(* ---- Table 2.5: IO capabilities mapping (rows: input capability, columns: output capability)
                 No output            Numeric output
     No input    NoInputNoOutput      DisplayOnly
     Yes / No    NoInputNoOutput      DisplayYesNo
     Keyboard    KeyboardOnly         KeyboardDisplay                                   ---- *)
Definition core_io_cap (i : input_cap) (o : output_cap) : core_io :=
  match i, o with
  | InNone, OutNone => NoInputNoOutput
  | InNone, OutNumeric => DisplayOnly
  | InYesNo, OutNone => NoInputNoOutput
  | InYesNo, OutNumeric => DisplayYesNo
  | InKeyboard, OutNone => KeyboardOnly
  | InKeyboard, OutNumeric => KeyboardDisplay
  end.

(* ---- key generation methods, with the roles Table 2.8 assigns ---- *)
Inductive core_method :=
| CJustWorks
| COob
| CPasskeyRespDisplays     (* Passkey Entry: responder displays, initiator inputs *)
| CPasskeyInitDisplays     (* Passkey Entry: initiator displays, responder inputs *)
| CPasskeyBothInput        (* Passkey Entry: initiator and responder input *)
| CNumeric.                (* Numeric Comparison (LE Secure Connections only) *)

(* ---- Table 2.8 (rows: responder, columns: initiator), lesc = LE Secure Connections ---- *)
Definition table_2_8 (lesc : bool) (init resp : core_io) : core_method :=
  match resp, init with
  (* responder DisplayOnly *)
  | DisplayOnly, DisplayOnly => CJustWorks
  | DisplayOnly, DisplayYesNo => CJustWorks
  | DisplayOnly, KeyboardOnly => CPasskeyRespDisplays
  | DisplayOnly, NoInputNoOutput => CJustWorks
  | DisplayOnly, KeyboardDisplay => CPasskeyRespDisplays
  (* responder DisplayYesNo *)
  | DisplayYesNo, DisplayOnly => CJustWorks
  | DisplayYesNo, DisplayYesNo => if lesc then CNumeric else CJustWorks
  | DisplayYesNo, KeyboardOnly => CPasskeyRespDisplays
  | DisplayYesNo, NoInputNoOutput => CJustWorks
  | DisplayYesNo, KeyboardDisplay => if lesc then CNumeric else CPasskeyRespDisplays
  (* responder KeyboardOnly *)
  | KeyboardOnly, DisplayOnly => CPasskeyInitDisplays
  | KeyboardOnly, DisplayYesNo => CPasskeyInitDisplays
  | KeyboardOnly, KeyboardOnly => CPasskeyBothInput
  | KeyboardOnly, NoInputNoOutput => CJustWorks
  | KeyboardOnly, KeyboardDisplay => CPasskeyInitDisplays
  (* responder NoInputNoOutput *)
  | NoInputNoOutput, _ => CJustWorks
  (* responder KeyboardDisplay *)
  | KeyboardDisplay, DisplayOnly => CPasskeyInitDisplays
  | KeyboardDisplay, DisplayYesNo => if lesc then CNumeric else CPasskeyInitDisplays
  | KeyboardDisplay, KeyboardOnly => CPasskeyRespDisplays
  | KeyboardDisplay, NoInputNoOutput => CJustWorks
  | KeyboardDisplay, KeyboardDisplay => if lesc then CNumeric else CPasskeyInitDisplays
  end.

(* ---- Tables 2.6 (legacy: OOB iff both sides have OOB data) and 2.7 (LE Secure Connections: OOB iff
   at least one side has); otherwise "check MITM": neither side set it -> Just Works, else IO
   capabilities. mitm_rule = false switches the MITM check off (used only to characterise the
   implementation's deviation, never by the property). ---- *)
Definition oob_applies (lesc init_oob resp_oob : bool) : bool :=
  if lesc then init_oob || resp_oob else init_oob && resp_oob.

Definition core_select (mitm_rule lesc : bool)
    (init_io : core_io) (init_oob init_mitm : bool)
    (resp_io : core_io) (resp_oob resp_mitm : bool) : core_method :=
  if oob_applies lesc init_oob resp_oob then COob
  else if mitm_rule && negb (init_mitm || resp_mitm) then CJustWorks
  else table_2_8 lesc init_io resp_io.

(* ---- what the responder has to do: the vocabulary of the implementation's two enums ---- *)
Inductive rmethod := RJustWorks | ROob | RPasskeyDisplay | RPasskeyInput | RNumeric.

Definition responder_view (m : core_method) : rmethod :=
  match m with
  | CJustWorks => RJustWorks
  | COob => ROob
  | CPasskeyRespDisplays => RPasskeyDisplay
  | CPasskeyInitDisplays => RPasskeyInput
  | CPasskeyBothInput => RPasskeyInput
  | CNumeric => RNumeric
  end.

Definition rm_of_legacy (a : legacy_alg) : rmethod :=
  match a with
  | LJustWorks => RJustWorks | LOob => ROob | LPasskeyDisplay => RPasskeyDisplay | LPasskeyInput => RPasskeyInput
  end.

Definition rm_of_lesc (a : lesc_alg) : rmethod :=
  match a with
  | SJustWorks => RJustWorks | SOob => ROob | SPasskeyDisplay => RPasskeyDisplay
  | SPasskeyInput => RPasskeyInput | SNumeric => RNumeric
  end.

Definition rmethod_eqb (a b : rmethod) : bool :=
  match a, b with
  | RJustWorks, RJustWorks | ROob, ROob | RPasskeyDisplay, RPasskeyDisplay
  | RPasskeyInput, RPasskeyInput | RNumeric, RNumeric => true
  | _, _ => false
  end.

(* ---- AuthReq bits (3.5.1, figure 3.3) ---- *)
Definition bit_mitm (auth : N) : bool := N.testbit auth 2.
Definition bit_sc (auth : N) : bool := N.testbit auth 3.

(* ---- verdicts ---- *)
Inductive verdict := Ok | Bad (tag : nat).
Definition t_invalid_accepted := 1%nat.
Definition t_rejected := 2%nat.
Definition t_local_io := 3%nat.
Definition t_kind := 4%nat.
Definition t_oob_rule := 5%nat.
Definition t_mitm_rule := 6%nat.
Definition t_io_table := 7%nat.
Definition t_shape := 8%nat.

Definition is_variant_lesc (v : variant) : bool := match v with VLesc => true | _ => false end.

(* the accepted case: the request fields, the response fields and the method chosen *)
Definition judge_accepted (mitm_rule : bool) (c : cfg) (init_io : core_io) (init_oob init_mitm init_sc : bool)
    (chose_lesc : bool) (got : rmethod) (rio roob rauth : N) : verdict :=
  let resp_io := core_io_cap (c_in c) (c_out c) in
  if negb (rio =? byte_of_core_io resp_io) || (1 <? roob) then Bad t_local_io
  else
    let lesc := init_sc && bit_sc rauth in
    if negb (Bool.eqb chose_lesc lesc) then Bad t_kind
    else
      let resp_oob := negb (roob =? 0) in
      let resp_mitm := bit_mitm rauth in
      let expected := responder_view (core_select mitm_rule lesc init_io init_oob init_mitm resp_io resp_oob resp_mitm) in
      if rmethod_eqb expected got then Ok
      else if oob_applies lesc init_oob resp_oob || rmethod_eqb got ROob then Bad t_oob_rule
      else if mitm_rule && negb (init_mitm || resp_mitm) then Bad t_mitm_rule
      else Bad t_io_table.

(* one cell, with the two AuthReq bits of the request already extracted *)
Definition judge_bits (mitm_rule : bool) (c : cfg) (io oob : N) (init_mitm init_sc : bool) (r : out) : verdict :=
  match core_io_of_byte io, (1 <? oob) with
  | Some init_io, false =>
      match r with
      | OFail _ => if is_variant_lesc (c_variant c) && negb init_sc then Ok else Bad t_rejected
      | OLegacy a rio roob rauth =>
          judge_accepted mitm_rule c init_io (negb (oob =? 0)) init_mitm init_sc false (rm_of_legacy a) rio roob rauth
      | OLesc a rio roob rauth =>
          judge_accepted mitm_rule c init_io (negb (oob =? 0)) init_mitm init_sc true (rm_of_lesc a) rio roob rauth
      | OOther => Bad t_shape
      end
  | _, _ =>
      (* reserved IO capability or OOB data flag value *)
      match r with
      | OFail reason => if reason =? 10 then Ok else Bad t_invalid_accepted
      | OOther => Bad t_shape
      | _ => Bad t_invalid_accepted
      end
  end.

Definition judge_gen (mitm_rule : bool) (c : cfg) (o : op) (r : out) : verdict :=
  match o with
  | Req io oob auth _ => judge_bits mitm_rule c io oob (bit_mitm auth) (bit_sc auth) r
  end.

Definition judge := judge_gen true.

(* ---- the monitor: the configuration is all it has to remember ---- *)
Definition mon := cfg.
Definition minit (c : cfg) : mon := c.
Definition mstep_gen (mitm_rule : bool) (m : mon) (o : op) (r : out) : verdict * mon := (judge_gen mitm_rule m o r, m).
Definition mstep := mstep_gen true.

(* first violation of a trace: Some (position, tag); None = the property holds on the trace *)
Fixpoint monitor_from (mitm_rule : bool) (m : mon) (pos : nat) (tr : list (op * out)) : option (nat * nat) :=
  match tr with
  | [] => None
  | (o, r) :: t =>
      match mstep_gen mitm_rule m o r with
      | (Ok, m') => monitor_from mitm_rule m' (S pos) t
      | (Bad tag, _) => Some (pos, tag)
      end
  end.

Definition monitor_gen (mitm_rule : bool) (c : cfg) (tr : list (op * out)) : option (nat * nat) :=
  monitor_from mitm_rule (minit c) O tr.
Definition monitor := monitor_gen true.

(* ---- domains ---- *)
(* request bytes are bytes (the AuthReq byte needs no bound: only its bits 2 and 3 are looked at) *)
Definition op_bounded (o : op) : Prop :=
  match o with Req io oob _ _ => io < 256 /\ oob < 256 end.

(* the cells on which the implementation is known to deviate *)
(* (A) neither the request nor the configuration sets MITM *)
Definition no_mitm_bits (c : cfg) (init_mitm : bool) : bool := negb (c_mitm c) && negb init_mitm.
Definition no_mitm_cell (c : cfg) (o : op) : bool :=
  match o with Req _ _ auth _ => no_mitm_bits c (bit_mitm auth) end.
(* (B) combined manager, LE Secure Connections request, local OOB data present, request without OOB flag:
   OOB is selected although the response (OOB data flag always 0 in lesc_local_io_caps) tells the
   initiator that neither side has OOB data *)
Definition lesc_local_oob_bits (c : cfg) (oob : N) (init_sc loc : bool) : bool :=
  match c_variant c with VCombined => init_sc && loc && (oob =? 0) | _ => false end.
Definition lesc_local_oob_cell (c : cfg) (o : op) : bool :=
  match o with Req _ oob auth loc => lesc_local_oob_bits c oob (bit_sc auth) loc end.
